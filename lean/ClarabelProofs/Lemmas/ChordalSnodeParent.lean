/-
  The BACK HALF of `SuperNodeTree::new` (`ClarabelModel/Chordal/SuperNode.lean`; Rust
  `supernode_tree.rs`): the supernodal elimination tree `snode_parent` computed by `pothen_sun`,
  the clique tree built from it, and the whole analysis `SparsityPattern::new` for the merge
  methods `"none"` and `"parent_child"` (`ClarabelModel/Chordal/MergePC.lean`).

  * `psInner_spec`, `psTail_spec`, `ps_step_desc` : closed form of one pass of `pothen_sun`
    including what it writes to `snode_parent`.
  * `PSTop`, `PSSp`, `PSCh`, `PSFull` : the loop invariant about `snode_parent` (ghost list `tops`
    = the vertices at which a supernode was closed); `ps_step_full`, `ps_fold_full`,
    `PSFull.final`.
  * `pothen_sun_parent_spec`, `find_supernodes_parent_spec` (`SnParent`) : the supernode of the
    last vertex is the only root, every other supernode's parent is the supernode containing the
    elimination-tree parent of its largest vertex.
  * `ctinv_of_snparent`, `sntree_new_ok` (`SnTreeOk`, `SnTreeOk.pcinit`) : `SuperNodeTree.new` on a
    filled pattern does not panic and returns a valid clique tree (`CTInv`, `PCInit`).
  * `PreReorder`, `PreReorder.finish`, `ReorderSpec.snode_mem`, `ReorderSpec.ctinv`,
    `analysis_none_spec`, `analysis_pc_spec`, `analysis_none_final`, `analysis_pc_final`
    (`AnalysisOk`) : the pipeline `SparsityPattern::new` end to end.
-/
import ClarabelProofs.Lemmas.ChordalSupernodeTree
import ClarabelProofs.Lemmas.ChordalMergePCLoop

namespace Clarabel.Chordal

/-! ### the inner loop of `pothen_sun` in closed form -/

/-- [S] one pass of the inner loop `for &w in v_children`, evaluated -/
theorem psBody_eq (si : Array Int) (k w : Nat) (sp : Array Nat) (hw : w < si.size)
    (hl : repOf si w < sp.size) :
    psBody si k w sp =
      .ok (.yield (if repOf si w = k then sp else sp.setIfInBounds (repOf si w) k)) := by
  unfold psBody
  rw [getE_ok' si w _ 0 hw, ok_bind']
  show (if (repOf si w != k) = true then _ else _) = _
  by_cases hne : repOf si w = k
  · rw [if_neg (by simp [hne]), if_pos hne]; rfl
  · rw [if_pos (by simpa using hne), if_neg hne]
    show (setE sp (repOf si w) k "pothen_sun" >>= _) = _
    rw [setE_ok' _ _ _ _ hl, ok_bind']; rfl

/-- [S] the inner loop in closed form: no panic, the length of `snode_parent` is kept, the entries
`rep w ≠ k` of the listed children `w` are set to `k`, all other entries are untouched -/
theorem psInner_spec (si : Array Int) (k : Nat) : ∀ (ws : List Nat) (sp : Array Nat),
    (∀ w ∈ ws, w < si.size ∧ repOf si w < sp.size) →
    ∃ sp', forIn ws sp (psBody si k) = .ok sp' ∧ sp'.size = sp.size ∧
      (∀ x, (∃ w ∈ ws, repOf si w = x ∧ x ≠ k) → sp'.getD x 0 = k) ∧
      (∀ x, (¬ ∃ w ∈ ws, repOf si w = x ∧ x ≠ k) → sp'.getD x 0 = sp.getD x 0) := by
  intro ws
  induction ws with
  | nil =>
    intro sp _
    refine ⟨sp, rfl, rfl, ?_, fun _ _ => rfl⟩
    rintro x ⟨w, hw, _⟩
    simp at hw
  | cons w ws ih =>
    intro sp h
    obtain ⟨hw1, hw2⟩ := h w (List.mem_cons_self ..)
    have h1 := psBody_eq si k w sp hw1 hw2
    generalize hsp1 : (if repOf si w = k then sp else sp.setIfInBounds (repOf si w) k) = sp1 at h1
    have hs1 : sp1.size = sp.size := by
      rw [← hsp1]; split <;> simp
    obtain ⟨sp2, h2, hs2, hhit, hmiss⟩ := ih sp1 (fun x hx => by
      rw [hs1]; exact h x (List.mem_cons_of_mem _ hx))
    refine ⟨sp2, ?_, by omega, ?_, ?_⟩
    · rw [List.forIn_cons, h1, ok_bind']
      exact h2
    · rintro x ⟨w', hw', hx1, hx2⟩
      by_cases hin : ∃ w ∈ ws, repOf si w = x ∧ x ≠ k
      · exact hhit x hin
      · rw [hmiss x hin]
        rcases List.mem_cons.1 hw' with e | hw'
        · subst e
          rw [← hsp1, if_neg (by rw [hx1]; exact hx2), hx1]
          exact getD_set_self' _ _ _ _ (by rw [← hx1]; exact hw2)
        · exact absurd ⟨w', hw', hx1, hx2⟩ hin
    · intro x hx
      have hin : ¬ ∃ w ∈ ws, repOf si w = x ∧ x ≠ k := by
        rintro ⟨w', hw', hx'⟩
        exact hx ⟨w', List.mem_cons_of_mem _ hw', hx'⟩
      rw [hmiss x hin, ← hsp1]
      by_cases hk : repOf si w = k
      · rw [if_pos hk]
      · rw [if_neg hk]
        refine getD_set_ne' _ _ _ _ _ ?_
        intro e
        exact hx ⟨w, List.mem_cons_self .., e, by rw [← e]; exact hk⟩

/-- [S] the tail of the loop body in closed form -/
theorem psTail_spec (children : Array VSet) (v : Nat) (si : Array Int) (sp : Array Nat)
    (hv : v < si.size) (hcv : v < children.size)
    (hws : ∀ w ∈ (children.getD v #[]).toList, w < si.size ∧ repOf si w < sp.size) :
    ∃ sp', psTail children v si sp =
        .ok { snodeIndex := si, snodeParent := sp', children := children } ∧
      sp'.size = sp.size ∧
      (∀ x, (∃ w ∈ (children.getD v #[]).toList, repOf si w = x ∧ x ≠ repOf si v) →
        sp'.getD x 0 = repOf si v) ∧
      (∀ x, (¬ ∃ w ∈ (children.getD v #[]).toList, repOf si w = x ∧ x ≠ repOf si v) →
        sp'.getD x 0 = sp.getD x 0) := by
  unfold psTail
  rw [getE_ok' si v _ 0 hv, ok_bind', getE_ok' children v _ #[] hcv, ok_bind']
  obtain ⟨sp', h1, h2, h3, h4⟩ := psInner_spec si (repOf si v) _ sp hws
  refine ⟨sp', ?_, h2, h3, h4⟩
  show (forIn _ sp (psBody si (repOf si v)) >>= _) = _
  rw [h1, ok_bind']
  rfl

/-! ### one pass of the loop, described -/

/-- [S] a vertex with a negative entry represents itself -/
theorem repOf_neg {si : Array Int} {x : Nat} (h : si.getD x 0 < 0) : repOf si x = x := by
  unfold repOf; rw [if_pos h]

/-- [S] a claimed vertex is represented by its entry -/
theorem repOf_nonneg {si : Array Int} {x : Nat} (h : 0 ≤ si.getD x 0) :
    repOf si x = (si.getD x 0).toNat := by
  unfold repOf; rw [if_neg (by omega)]

/-- [S] `repOf` only reads one entry -/
theorem repOf_congr {si si' : Array Int} {x : Nat} (h : si'.getD x 0 = si.getD x 0) :
    repOf si' x = repOf si x := by
  unfold repOf; rw [h]

/-- the entry of `children` that receives `v` -/
def psTgt (parent : Array Nat) (n v : Nat) : Nat :=
  if parent.getD v 0 = noParent then n - 1 else parent.getD v 0

/-- what one pass of the loop of `pothen_sun` on `v` does to `children` and `snode_parent`
(`sp0` is `snode_parent` after the optional write `snode_parent[rep v] = rep v`) -/
structure PSStepDesc (parent : Array Nat) (n : Nat) (st st' : PSState) (v : Nat)
    (sp0 : Array Nat) : Prop where
  ch_eq : st'.children = st.children.setIfInBounds (psTgt parent n v)
    ((st.children.getD (psTgt parent n v) #[]).insert v)
  hit : ∀ x, (∃ w ∈ (st'.children.getD v #[]).toList,
      repOf st'.snodeIndex w = x ∧ x ≠ repOf st'.snodeIndex v) →
    st'.snodeParent.getD x 0 = repOf st'.snodeIndex v
  miss : ∀ x, (¬ ∃ w ∈ (st'.children.getD v #[]).toList,
      repOf st'.snodeIndex w = x ∧ x ≠ repOf st'.snodeIndex v) →
    st'.snodeParent.getD x 0 = sp0.getD x 0

/-- [S] the tail of the loop body re-establishes `PSInv` and is described by its closed form -/
theorem ps_tail_desc {parent degree : Array Nat} {n : Nat} {done' : List Nat}
    (children : Array VSet) (v : Nat) (si : Array Int) (sp : Array Nat)
    (hv : v < n) (hsi : si.size = n) (hsp : sp.size = n) (hch : children.size = n)
    (hchlt : ∀ p, p < n → ∀ w ∈ (children.getD p #[]).toList, w < n)
    (hcore : PSCore parent degree n done' si) :
    ∃ st', psTail children v si sp = .ok st' ∧ PSInv parent degree n done' st' ∧
      st'.snodeIndex = si ∧ st'.children = children ∧
      (∀ x, (∃ w ∈ (children.getD v #[]).toList, repOf si w = x ∧ x ≠ repOf si v) →
        st'.snodeParent.getD x 0 = repOf si v) ∧
      (∀ x, (¬ ∃ w ∈ (children.getD v #[]).toList, repOf si w = x ∧ x ≠ repOf si v) →
        st'.snodeParent.getD x 0 = sp.getD x 0) := by
  obtain ⟨sp', h1, h2, h3, h4⟩ := psTail_spec children v si sp (by omega) (by omega)
    (fun w hw => by
      have := hchlt v hv w hw
      exact ⟨by omega, by rw [hsp]; exact hcore.repOf_lt this⟩)
  exact ⟨_, h1, ⟨hsi, by rw [h2]; exact hsp, hch, hchlt, hcore⟩, rfl, rfl, h3, h4⟩

/-- [S] one pass of the loop of `pothen_sun` on a vertex `v` that has not been processed and
whose parent has not been processed: no panic, `PSInv` is kept, and the new state is described:
either `v` is the root, or `v` claims its parent `p` for its supernode (`rep p := rep v`), or the
supernode of `v` is closed (`snode_parent[rep v] := rep v`); then the inner loop runs. -/
theorem ps_step_desc {parent degree : Array Nat} {n : Nat} {done : List Nat} {st : PSState}
    {v : Nat} (hpar : EtreeParent parent n) (hdsz : degree.size = n)
    (hdpos : ∀ v, v + 1 < n → 0 < degree.getD v 0)
    (hinv : PSInv parent degree n done st) (hv : v < n) (hvd : v ∉ done)
    (hpd : parent.getD v 0 ∉ done) :
    ∃ st' sp0, pothenSunStep parent degree (n - 1) st v = .ok st' ∧
      PSInv parent degree n (v :: done) st' ∧ PSStepDesc parent n st st' v sp0 ∧
      ((parent.getD v 0 = noParent ∧ st'.snodeIndex = st.snodeIndex ∧ sp0 = st.snodeParent) ∨
       (parent.getD v 0 ≠ noParent ∧
         repOf st.snodeIndex (parent.getD v 0) = parent.getD v 0 ∧
         (∀ x, repOf st'.snodeIndex x =
           if x = parent.getD v 0 then repOf st.snodeIndex v else repOf st.snodeIndex x) ∧
         sp0 = st.snodeParent) ∨
       (parent.getD v 0 ≠ noParent ∧ st'.snodeIndex = st.snodeIndex ∧
         sp0 = st.snodeParent.setIfInBounds (repOf st.snodeIndex v) (repOf st.snodeIndex v))) := by
  have hn := hpar.n_pos
  have hr : n - 1 < n := by omega
  rw [pothenSunStep_eq, getE_ok' parent v _ 0 (by rw [hpar.size_eq]; exact hv), ok_bind']
  -- the children update
  have hch' : ∀ tgt, tgt < n →
      (st.children.setIfInBounds tgt ((st.children.getD tgt #[]).insert v)).size = n ∧
      ∀ p, p < n → ∀ w ∈ ((st.children.setIfInBounds tgt
        ((st.children.getD tgt #[]).insert v)).getD p #[]).toList, w < n := by
    intro tgt _
    refine ⟨by simpa using hinv.sz_ch, ?_⟩
    intro p hp w hw
    by_cases e : tgt = p
    · subst e
      rw [getD_set_self' _ _ _ _ (by rw [hinv.sz_ch]; exact hp), VSet.mem_insert] at hw
      rcases hw with hw | rfl
      · exact hinv.ch_lt tgt hp w hw
      · exact hv
    · rw [getD_set_ne' _ _ _ _ _ e] at hw
      exact hinv.ch_lt p hp w hw
  by_cases hroot : parent.getD v 0 = noParent
  · -- `v` is the root
    have hb1 : (parent.getD v 0 == noParent) = true := by simp [hroot]
    have hb2 : (parent.getD v 0 != noParent) = false := by simp [hroot]
    simp only [hb1, hb2, if_true, Bool.false_eq_true, if_false]
    rw [getE_ok' st.children (n - 1) _ #[] (by rw [hinv.sz_ch]; exact hr), ok_bind',
      setE_ok' _ _ _ _ (by rw [hinv.sz_ch]; exact hr), ok_bind']
    obtain ⟨h1, h2⟩ := hch' (n - 1) hr
    obtain ⟨st', e1, e2, e3, e4, e5, e6⟩ :=
      ps_tail_desc _ v _ st.snodeParent hv hinv.sz_si hinv.sz_sp h1 h2 (hinv.core.mono v)
    refine ⟨st', st.snodeParent, e1, e2, ⟨?_, ?_, ?_⟩, Or.inl ⟨hroot, e3, rfl⟩⟩
    · rw [e4]; unfold psTgt; rw [if_pos hroot]
    · rw [e3, e4]; exact e5
    · rw [e3, e4]; exact e6
  · -- `v` has the parent `p`
    have hv1 : v + 1 < n := by
      by_cases hl : v + 1 < n
      · exact hl
      · have : v = n - 1 := by omega
        subst this
        exact absurd hpar.root hroot
    obtain ⟨hvp, hp⟩ := hpar.up v hv1
    have htgt : psTgt parent n v = parent.getD v 0 := by unfold psTgt; rw [if_neg hroot]
    generalize hpdef : parent.getD v 0 = p at hroot hvp hp hpd htgt
    have hb1 : (p == noParent) = false := by simp [hroot]
    have hb2 : (p != noParent) = true := by simp [hroot]
    simp only [hb1, hb2, if_true, Bool.false_eq_true, if_false]
    rw [getE_ok' st.children p _ #[] (by rw [hinv.sz_ch]; exact hp), ok_bind',
      setE_ok' _ _ _ _ (by rw [hinv.sz_ch]; exact hp), ok_bind']
    obtain ⟨h1, h2⟩ := hch' p hp
    rw [getE_ok' degree v _ 0 (by omega), ok_bind', getE_ok' degree p _ 0 (by omega), ok_bind']
    have hd0 := hdpos v hv1
    rw [if_neg (by omega)]
    rw [getE_ok' st.snodeIndex p _ 0 (by rw [hinv.sz_si]; exact hp), ok_bind',
      getE_ok' st.snodeIndex v _ 0 (by rw [hinv.sz_si]; exact hv), ok_bind']
    have hpv : p ≠ v := by omega
    by_cases hcond : (degree.getD v 0 - 1 == degree.getD p 0 && st.snodeIndex.getD p 0 == -1) = true
    · rw [if_pos hcond]
      have hdeg : degree.getD v 0 = degree.getD p 0 + 1 := by
        simp only [Bool.and_eq_true, beq_iff_eq] at hcond
        omega
      have hsip : st.snodeIndex.getD p 0 < 0 := by
        simp only [Bool.and_eq_true, beq_iff_eq] at hcond
        omega
      by_cases hsiv : st.snodeIndex.getD v 0 < 0
      · rw [if_pos hsiv, setE_ok' _ _ _ _ (by rw [hinv.sz_si]; exact hp), ok_bind',
          setE_ok' _ _ _ _ (by rw [Array.size_setIfInBounds, hinv.sz_si]; exact hv), ok_bind']
        obtain ⟨st', e1, e2, e3, e4, e5, e6⟩ :=
          ps_tail_desc _ v _ st.snodeParent hv (by simp; exact hinv.sz_si) hinv.sz_sp h1 h2
            (hinv.core.caseA hinv.sz_si hv hp hpv hvd hpd hpdef hdeg hsiv)
        refine ⟨st', st.snodeParent, e1, e2, ⟨?_, ?_, ?_⟩,
          Or.inr (Or.inl ⟨hroot, repOf_neg hsip, ?_, rfl⟩)⟩
        · rw [e4, htgt]
        · rw [e3, e4]; exact e5
        · rw [e3, e4]; exact e6
        · intro x
          rw [e3]
          by_cases exp : x = p
          · subst exp
            rw [if_pos rfl, repOf_neg hsiv]
            have g : ((st.snodeIndex.setIfInBounds x (Int.ofNat v)).setIfInBounds v
                (st.snodeIndex.getD v 0 - 1)).getD x 0 = Int.ofNat v := by
              rw [getD_set_ne' _ _ _ _ _ (Ne.symm hpv),
                getD_set_self' _ _ _ _ (by rw [hinv.sz_si]; exact hp)]
            rw [repOf_nonneg (by rw [g]; exact Int.natCast_nonneg v), g]
            rfl
          · rw [if_neg exp]
            by_cases exv : x = v
            · subst exv
              have g : ((st.snodeIndex.setIfInBounds p (Int.ofNat x)).setIfInBounds x
                  (st.snodeIndex.getD x 0 - 1)).getD x 0 = st.snodeIndex.getD x 0 - 1 :=
                getD_set_self' _ _ _ _ (by simp; rw [hinv.sz_si]; exact hv)
              rw [repOf_neg (by rw [g]; omega), repOf_neg hsiv]
            · exact repOf_congr (by
                rw [getD_set_ne' _ _ _ _ _ (Ne.symm exv), getD_set_ne' _ _ _ _ _ (Ne.symm exp)])
      · rw [if_neg hsiv]
        have h0 : 0 ≤ st.snodeIndex.getD v 0 := by omega
        obtain ⟨hr', hsr, hrd⟩ := hinv.core.target v hv h0
        have hrp : (st.snodeIndex.getD v 0).toNat ≠ p := fun e => hpd (e ▸ hrd)
        rw [setE_ok' _ _ _ _ (by rw [hinv.sz_si]; exact hp), ok_bind',
          getE_ok' _ _ _ 0 (by rw [Array.size_setIfInBounds, hinv.sz_si]; exact hr'), ok_bind',
          setE_ok' _ _ _ _ (by rw [Array.size_setIfInBounds, hinv.sz_si]; exact hr'), ok_bind',
          getD_set_ne' _ _ _ _ _ (Ne.symm hrp)]
        obtain ⟨st', e1, e2, e3, e4, e5, e6⟩ :=
          ps_tail_desc _ v _ st.snodeParent hv (by simp; exact hinv.sz_si) hinv.sz_sp h1 h2
            (hinv.core.caseB hinv.sz_si hv hp hpv hvd hpd hpdef hdeg h0)
        refine ⟨st', st.snodeParent, e1, e2, ⟨?_, ?_, ?_⟩,
          Or.inr (Or.inl ⟨hroot, repOf_neg hsip, ?_, rfl⟩)⟩
        · rw [e4, htgt]
        · rw [e3, e4]; exact e5
        · rw [e3, e4]; exact e6
        · intro x
          rw [e3]
          generalize hrdef : (st.snodeIndex.getD v 0).toNat = r at hr' hsr hrd hrp
          by_cases exp : x = p
          · subst exp
            rw [if_pos rfl, repOf_nonneg h0]
            have g : ((st.snodeIndex.setIfInBounds x (st.snodeIndex.getD v 0)).setIfInBounds r
                (st.snodeIndex.getD r 0 - 1)).getD x 0 = st.snodeIndex.getD v 0 := by
              rw [getD_set_ne' _ _ _ _ _ hrp,
                getD_set_self' _ _ _ _ (by rw [hinv.sz_si]; exact hp)]
            rw [repOf_nonneg (by rw [g]; exact h0), g, hrdef]
          · rw [if_neg exp]
            by_cases exr : x = r
            · subst exr
              have g : ((st.snodeIndex.setIfInBounds p (st.snodeIndex.getD v 0)).setIfInBounds x
                  (st.snodeIndex.getD x 0 - 1)).getD x 0 = st.snodeIndex.getD x 0 - 1 :=
                getD_set_self' _ _ _ _ (by simp; rw [hinv.sz_si]; exact hr')
              rw [repOf_neg (by rw [g]; omega), repOf_neg hsr]
            · exact repOf_congr (by
                rw [getD_set_ne' _ _ _ _ _ (Ne.symm exr), getD_set_ne' _ _ _ _ _ (Ne.symm exp)])
    · rw [if_neg hcond]
      by_cases hsiv : st.snodeIndex.getD v 0 < 0
      · rw [if_pos hsiv, setE_ok' _ _ _ _ (by rw [hinv.sz_sp]; exact hv), ok_bind']
        obtain ⟨st', e1, e2, e3, e4, e5, e6⟩ :=
          ps_tail_desc _ v st.snodeIndex (st.snodeParent.setIfInBounds v v) hv hinv.sz_si
            (by simp; exact hinv.sz_sp) h1 h2 (hinv.core.mono v)
        refine ⟨st', st.snodeParent.setIfInBounds v v, e1, e2, ⟨?_, ?_, ?_⟩,
          Or.inr (Or.inr ⟨hroot, e3, by rw [repOf_neg hsiv]⟩)⟩
        · rw [e4, htgt]
        · rw [e3, e4]; exact e5
        · rw [e3, e4]; exact e6
      · rw [if_neg hsiv]
        have h0 : 0 ≤ st.snodeIndex.getD v 0 := by omega
        obtain ⟨hr', _, _⟩ := hinv.core.target v hv h0
        rw [setE_ok' _ _ _ _ (by rw [hinv.sz_sp]; exact hr'), ok_bind']
        obtain ⟨st', e1, e2, e3, e4, e5, e6⟩ :=
          ps_tail_desc _ v st.snodeIndex (st.snodeParent.setIfInBounds
            (st.snodeIndex.getD v 0).toNat (st.snodeIndex.getD v 0).toNat) hv hinv.sz_si
            (by simp; exact hinv.sz_sp) h1 h2 (hinv.core.mono v)
        refine ⟨st', _, e1, e2, ⟨?_, ?_, ?_⟩,
          Or.inr (Or.inr ⟨hroot, e3, by rw [repOf_nonneg h0]⟩)⟩
        · rw [e4, htgt]
        · rw [e3, e4]; exact e5
        · rw [e3, e4]; exact e6

/-! ### the ghost invariant: where supernodes are closed -/

/-- the invariant of the pass about the supernode membership `rep` (`= repOf snode_index`), the
processed vertices `done` and the ghost list `tops` of the vertices at which a supernode was
closed (the non-root vertices that did not claim their parent) -/
structure PSTop (parent : Array Nat) (n : Nat) (done tops : List Nat) (rep : Nat → Nat) : Prop where
  done_lt : ∀ w ∈ done, w < n
  /-- at most one unprocessed member per supernode -/
  A : ∀ x y, x < n → y < n → x ∉ done → y ∉ done → rep x = rep y → x = y
  /-- the supernode of a top is closed: all its members are processed -/
  T1 : ∀ w ∈ tops, w ∈ done ∧ parent.getD w 0 ≠ noParent ∧
    ∀ y, y < n → rep y = rep w → y ∈ done
  /-- a processed non-root vertex is a top or has claimed its parent -/
  T2 : ∀ w ∈ done, parent.getD w 0 ≠ noParent → w ∈ tops ∨ rep (parent.getD w 0) = rep w
  /-- one top per supernode -/
  T3 : ∀ w ∈ tops, ∀ w' ∈ tops, rep w = rep w' → w = w'
  /-- the parent of a top lies in another supernode -/
  T6 : ∀ w ∈ tops, rep (parent.getD w 0) ≠ rep w
  /-- the supernode of the last vertex has no top -/
  R : ∀ w ∈ tops, rep w ≠ rep (n - 1)

namespace PSTop
variable {parent : Array Nat} {n : Nat} {done tops : List Nat} {rep rep' : Nat → Nat} {v p : Nat}

/-- [S] processing the root -/
theorem root (h : PSTop parent n done tops rep) (hv : v < n)
    (hroot : parent.getD v 0 = noParent) : PSTop parent n (v :: done) tops rep where
  done_lt := by
    intro w hw
    rcases List.mem_cons.1 hw with rfl | hw
    · exact hv
    · exact h.done_lt w hw
  A := fun x y hx hy hxd hyd => h.A x y hx hy (fun m => hxd (List.mem_cons_of_mem _ m))
    (fun m => hyd (List.mem_cons_of_mem _ m))
  T1 := by
    intro w hw
    obtain ⟨h1, h2, h3⟩ := h.T1 w hw
    exact ⟨List.mem_cons_of_mem _ h1, h2, fun y hy e => List.mem_cons_of_mem _ (h3 y hy e)⟩
  T2 := by
    intro w hw hnp
    rcases List.mem_cons.1 hw with rfl | hw
    · exact absurd hroot hnp
    · exact h.T2 w hw hnp
  T3 := h.T3
  T6 := h.T6
  R := h.R

/-- [S] `v` claims its parent `p` for its supernode -/
theorem claim (h : PSTop parent n done tops rep)
    (hrepd : ∀ x, x < n → rep x = x ∨ rep x ∈ done) (hv : v < n)
    (hpar : parent.getD v 0 = p) (hpv : p ≠ v) (hvd : v ∉ done)
    (hpd : p ∉ done) (hrp : rep p = p)
    (hrep' : ∀ x, rep' x = if x = p then rep v else rep x) :
    PSTop parent n (v :: done) tops rep' := by
  have F1 : ∀ x ∈ done, rep' x = rep x := by
    intro x hx
    rw [hrep' x, if_neg (fun e : x = p => hpd (e ▸ hx))]
  have F2 : rep' v = rep v := by rw [hrep' v, if_neg (Ne.symm hpv)]
  have F3 : rep' p = rep v := by rw [hrep' p, if_pos rfl]
  have F4 : ∀ x, x ≠ p → rep' x = rep x := by
    intro x hx; rw [hrep' x, if_neg hx]
  have hcl : ∀ w ∈ tops, rep v ≠ rep w := by
    intro w hw e
    exact hvd ((h.T1 w hw).2.2 v hv e)
  refine ⟨?_, ?_, ?_, ?_, ?_, ?_, ?_⟩
  · intro w hw
    rcases List.mem_cons.1 hw with rfl | hw
    · exact hv
    · exact h.done_lt w hw
  · intro x y hx hy hxd hyd e
    have hxv : x ≠ v := fun e => hxd (e ▸ List.mem_cons_self ..)
    have hyv : y ≠ v := fun e => hyd (e ▸ List.mem_cons_self ..)
    have hxd' : x ∉ done := fun m => hxd (List.mem_cons_of_mem _ m)
    have hyd' : y ∉ done := fun m => hyd (List.mem_cons_of_mem _ m)
    by_cases exp : x = p
    · by_cases eyp : y = p
      · rw [exp, eyp]
      · rw [exp, F3, F4 y eyp] at e
        exact absurd (h.A v y hv hy hvd hyd' e).symm hyv
    · by_cases eyp : y = p
      · rw [eyp, F3, F4 x exp] at e
        exact absurd (h.A x v hx hv hxd' hvd e) hxv
      · rw [F4 x exp, F4 y eyp] at e
        exact h.A x y hx hy hxd' hyd' e
  · intro w hw
    obtain ⟨h1, h2, h3⟩ := h.T1 w hw
    refine ⟨List.mem_cons_of_mem _ h1, h2, ?_⟩
    intro y hy e
    rw [F1 w h1] at e
    by_cases eyp : y = p
    · rw [eyp, F3] at e
      exact absurd e (hcl w hw)
    · rw [F4 y eyp] at e
      exact List.mem_cons_of_mem _ (h3 y hy e)
  · intro w hw hnp
    rcases List.mem_cons.1 hw with rfl | hw
    · right; rw [hpar, F3, F2]
    · rcases h.T2 w hw hnp with ht | ht
      · exact Or.inl ht
      · right
        rw [F1 w hw]
        by_cases e : parent.getD w 0 = p
        · exfalso
          rw [e, hrp] at ht
          rcases hrepd w (h.done_lt w hw) with h1 | h1
          · exact hpd (by rw [ht, h1]; exact hw)
          · exact hpd (ht ▸ h1)
        · rw [F4 _ e]; exact ht
  · intro w hw w' hw' e
    rw [F1 w (h.T1 w hw).1, F1 w' (h.T1 w' hw').1] at e
    exact h.T3 w hw w' hw' e
  · intro w hw
    rw [F1 w (h.T1 w hw).1]
    by_cases e : parent.getD w 0 = p
    · rw [e, F3]; exact hcl w hw
    · rw [F4 _ e]; exact h.T6 w hw
  · intro w hw
    rw [F1 w (h.T1 w hw).1]
    by_cases e : n - 1 = p
    · rw [e, F3]; exact Ne.symm (hcl w hw)
    · rw [F4 _ e]; exact h.R w hw

/-- [S] the supernode of `v` is closed at `v` -/
theorem top (h : PSTop parent n done tops rep) (hv : v < n) (hvd : v ∉ done)
    (hnp : parent.getD v 0 ≠ noParent) (hp : parent.getD v 0 < n)
    (hpv : parent.getD v 0 ≠ v) (hpd : parent.getD v 0 ∉ done)
    (hn : 0 < n) (hlast : n - 1 ∉ done) (hvl : v ≠ n - 1) :
    PSTop parent n (v :: done) (v :: tops) rep := by
  have hcl : ∀ y, y < n → rep y = rep v → y ∈ v :: done := by
    intro y hy e
    by_cases hyd : y ∈ done
    · exact List.mem_cons_of_mem _ hyd
    · rw [h.A y v hy hv hyd hvd e]; exact List.mem_cons_self ..
  have hne : ∀ w ∈ tops, rep v ≠ rep w := by
    intro w hw e
    exact hvd ((h.T1 w hw).2.2 v hv e)
  refine ⟨?_, ?_, ?_, ?_, ?_, ?_, ?_⟩
  · intro w hw
    rcases List.mem_cons.1 hw with rfl | hw
    · exact hv
    · exact h.done_lt w hw
  · exact fun x y hx hy hxd hyd => h.A x y hx hy (fun m => hxd (List.mem_cons_of_mem _ m))
      (fun m => hyd (List.mem_cons_of_mem _ m))
  · intro w hw
    rcases List.mem_cons.1 hw with rfl | hw
    · exact ⟨List.mem_cons_self .., hnp, hcl⟩
    · obtain ⟨h1, h2, h3⟩ := h.T1 w hw
      exact ⟨List.mem_cons_of_mem _ h1, h2, fun y hy e => List.mem_cons_of_mem _ (h3 y hy e)⟩
  · intro w hw hnp'
    rcases List.mem_cons.1 hw with rfl | hw
    · exact Or.inl (List.mem_cons_self ..)
    · rcases h.T2 w hw hnp' with ht | ht
      · exact Or.inl (List.mem_cons_of_mem _ ht)
      · exact Or.inr ht
  · intro w hw w' hw' e
    rcases List.mem_cons.1 hw with e1 | hw1
    · rcases List.mem_cons.1 hw' with e2 | hw2
      · rw [e1, e2]
      · rw [e1] at e; exact absurd e (hne w' hw2)
    · rcases List.mem_cons.1 hw' with e2 | hw2
      · rw [e2] at e; exact absurd e.symm (hne w hw1)
      · exact h.T3 w hw1 w' hw2 e
  · intro w hw
    rcases List.mem_cons.1 hw with rfl | hw
    · intro e
      rcases List.mem_cons.1 (hcl _ hp e) with e' | e'
      · exact hpv e'
      · exact hpd e'
    · exact h.T6 w hw
  · intro w hw
    rcases List.mem_cons.1 hw with rfl | hw
    · intro e
      rcases List.mem_cons.1 (hcl (n - 1) (by omega) e.symm) with e' | e'
      · exact hvl e'.symm
      · exact hlast e'
    · exact h.R w hw

end PSTop

/-- the `children` array of `pothen_sun` lists the processed children of every vertex (the root
is listed among its own children — a quirk of the Rust code) -/
def PSCh (parent : Array Nat) (n : Nat) (done : List Nat) (children : Array VSet) : Prop :=
  ∀ p, p < n → ∀ w, w ∈ (children.getD p #[]).toList ↔
    w ∈ done ∧ (parent.getD w 0 = p ∨ (parent.getD w 0 = noParent ∧ p = n - 1))

/-- [S] the insertion `children[tgt].insert(v)` -/
theorem PSCh.step {parent : Array Nat} {n : Nat} {done : List Nat} {children : Array VSet}
    {v : Nat} (h : PSCh parent n done children) (hsz : children.size = n) (hsmall : n ≤ noParent)
    (htgt : psTgt parent n v < n) :
    PSCh parent n (v :: done) (children.setIfInBounds (psTgt parent n v)
      ((children.getD (psTgt parent n v) #[]).insert v)) := by
  intro p hp w
  have key : (parent.getD v 0 = p ∨ (parent.getD v 0 = noParent ∧ p = n - 1)) ↔
      psTgt parent n v = p := by
    unfold psTgt
    by_cases hr : parent.getD v 0 = noParent
    · rw [if_pos hr]
      constructor
      · rintro (e | ⟨_, e⟩)
        · omega
        · exact e.symm
      · intro e; exact Or.inr ⟨hr, e.symm⟩
    · rw [if_neg hr]
      constructor
      · rintro (e | ⟨e, _⟩)
        · exact e
        · exact absurd e hr
      · intro e; exact Or.inl e
  by_cases e : psTgt parent n v = p
  · rw [e, getD_set_self' _ _ _ _ (by rw [hsz]; exact hp), VSet.mem_insert, h p hp w,
      List.mem_cons]
    constructor
    · rintro (⟨h1, h2⟩ | rfl)
      · exact ⟨Or.inr h1, h2⟩
      · exact ⟨Or.inl rfl, key.2 e⟩
    · rintro ⟨rfl | h1, h2⟩
      · exact Or.inr rfl
      · exact Or.inl ⟨h1, h2⟩
  · rw [getD_set_ne' _ _ _ _ _ e, h p hp w, List.mem_cons]
    constructor
    · rintro ⟨h1, h2⟩; exact ⟨Or.inr h1, h2⟩
    · rintro ⟨rfl | h1, h2⟩
      · exact absurd (key.1 h2) e
      · exact ⟨h1, h2⟩

/-- the invariant about `snode_parent` -/
structure PSSp (parent : Array Nat) (n : Nat) (done tops : List Nat) (rep : Nat → Nat)
    (sp : Array Nat) : Prop where
  /-- the entry of a closed supernode: itself until the parent of its top is processed, then the
  supernode of that parent -/
  T4 : ∀ w ∈ tops, sp.getD (rep w) 0 =
    if parent.getD w 0 ∈ done then rep (parent.getD w 0) else rep w
  /-- the entry of a supernode that is not closed yet is still `NO_PARENT` -/
  T5 : ∀ k, k < n → (∀ w ∈ tops, rep w ≠ k) → sp.getD k 0 = noParent

/-- [S] the inner loop of `v` writes exactly the entries of the closed supernodes whose top is a
child of `v` -/
theorem ps_hit_iff {parent : Array Nat} {n : Nat} {done tops : List Nat} {rep : Nat → Nat}
    {children : Array VSet} {v : Nat} (hpar : EtreeParent parent n)
    (ht : PSTop parent n done tops rep) (hc : PSCh parent n done children) (hv : v < n) (x : Nat) :
    (∃ w ∈ (children.getD v #[]).toList, rep w = x ∧ x ≠ rep v) ↔
      (∃ w ∈ tops, parent.getD w 0 = v ∧ rep w = x) := by
  constructor
  · rintro ⟨w, hw, hx1, hx2⟩
    obtain ⟨hwd, hwp⟩ := (hc v hv w).1 hw
    have hwn := ht.done_lt w hwd
    rcases hwp with hwp | ⟨hwp, hvn⟩
    · have hnp : parent.getD w 0 ≠ noParent := by
        rw [hwp]; exact Nat.ne_of_lt (hpar.lt_noParent hv)
      rcases ht.T2 w hwd hnp with h1 | h1
      · exact ⟨w, h1, hwp, hx1⟩
      · rw [hwp] at h1
        exact absurd (hx1.symm.trans h1.symm) hx2
    · exfalso
      have : w = n - 1 := by
        by_contra hne
        have := (hpar.up w (by omega)).2
        have := hpar.lt_noParent this
        omega
      rw [this, ← hvn] at hx1
      exact hx2 hx1.symm
  · rintro ⟨w, hw, hwp, hx⟩
    refine ⟨w, (hc v hv w).2 ⟨(ht.T1 w hw).1, Or.inl hwp⟩, hx, ?_⟩
    have := ht.T6 w hw
    rw [hwp, hx] at this
    exact Ne.symm this

/-- [S] `snode_parent` after a pass that closes no supernode -/
theorem PSSp.step_same {parent : Array Nat} {n : Nat} {done tops : List Nat} {rep rep' : Nat → Nat}
    {sp sp' : Array Nat} {children' : Array VSet} {v : Nat} (hpar : EtreeParent parent n)
    (hs : PSSp parent n done tops rep sp) (ht : PSTop parent n done tops rep)
    (ht' : PSTop parent n (v :: done) tops rep') (hc' : PSCh parent n (v :: done) children')
    (hv : v < n) (F1 : ∀ x ∈ done, rep' x = rep x)
    (hhit : ∀ x, (∃ w ∈ (children'.getD v #[]).toList, rep' w = x ∧ x ≠ rep' v) →
      sp'.getD x 0 = rep' v)
    (hmiss : ∀ x, (¬ ∃ w ∈ (children'.getD v #[]).toList, rep' w = x ∧ x ≠ rep' v) →
      sp'.getD x 0 = sp.getD x 0) :
    PSSp parent n (v :: done) tops rep' sp' := by
  refine ⟨?_, ?_⟩
  · intro w hw
    have hwd := (ht.T1 w hw).1
    by_cases hpv : parent.getD w 0 = v
    · rw [hhit _ ((ps_hit_iff hpar ht' hc' hv _).2 ⟨w, hw, hpv, rfl⟩),
        if_pos (by rw [hpv]; exact List.mem_cons_self ..), hpv]
    · have hm : ¬ ∃ w' ∈ (children'.getD v #[]).toList, rep' w' = rep' w ∧ rep' w ≠ rep' v := by
        intro hh
        obtain ⟨w2, hw2, hp2, hr2⟩ := (ps_hit_iff hpar ht' hc' hv _).1 hh
        have := ht'.T3 w2 hw2 w hw hr2
        rw [this] at hp2
        exact hpv hp2
      rw [hmiss _ hm, F1 w hwd, hs.T4 w hw]
      by_cases hpd : parent.getD w 0 ∈ done
      · rw [if_pos hpd, if_pos (List.mem_cons_of_mem _ hpd), F1 _ hpd]
      · rw [if_neg hpd, if_neg (by
          intro m
          rcases List.mem_cons.1 m with e | e
          · exact hpv e
          · exact hpd e)]
  · intro k hk hne
    have hm : ¬ ∃ w' ∈ (children'.getD v #[]).toList, rep' w' = k ∧ k ≠ rep' v := by
      intro hh
      obtain ⟨w2, hw2, _, hr2⟩ := (ps_hit_iff hpar ht' hc' hv _).1 hh
      exact hne w2 hw2 hr2
    rw [hmiss k hm]
    exact hs.T5 k hk (fun w hw => by rw [← F1 w (ht.T1 w hw).1]; exact hne w hw)

/-- [S] `snode_parent` after a pass that closes the supernode of `v` -/
theorem PSSp.step_top {parent : Array Nat} {n : Nat} {done tops : List Nat} {rep : Nat → Nat}
    {sp sp' : Array Nat} {children' : Array VSet} {v : Nat} (hpar : EtreeParent parent n)
    (hs : PSSp parent n done tops rep sp) (ht : PSTop parent n done tops rep)
    (ht' : PSTop parent n (v :: done) (v :: tops) rep)
    (hc' : PSCh parent n (v :: done) children')
    (hv : v < n) (hvd : v ∉ done) (hpd : parent.getD v 0 ∉ v :: done) (hrv : rep v < sp.size)
    (hhit : ∀ x, (∃ w ∈ (children'.getD v #[]).toList, rep w = x ∧ x ≠ rep v) →
      sp'.getD x 0 = rep v)
    (hmiss : ∀ x, (¬ ∃ w ∈ (children'.getD v #[]).toList, rep w = x ∧ x ≠ rep v) →
      sp'.getD x 0 = (sp.setIfInBounds (rep v) (rep v)).getD x 0) :
    PSSp parent n (v :: done) (v :: tops) rep sp' := by
  refine ⟨?_, ?_⟩
  · intro w hw
    by_cases hpv : parent.getD w 0 = v
    · rw [hhit _ ((ps_hit_iff hpar ht' hc' hv _).2 ⟨w, hw, hpv, rfl⟩),
        if_pos (by rw [hpv]; exact List.mem_cons_self ..), hpv]
    · have hm : ¬ ∃ w' ∈ (children'.getD v #[]).toList, rep w' = rep w ∧ rep w ≠ rep v := by
        intro hh
        obtain ⟨w2, hw2, hp2, hr2⟩ := (ps_hit_iff hpar ht' hc' hv _).1 hh
        have := ht'.T3 w2 hw2 w hw hr2
        rw [this] at hp2
        exact hpv hp2
      rw [hmiss _ hm]
      rcases List.mem_cons.1 hw with rfl | hw0
      · rw [getD_set_self' _ _ _ _ hrv, if_neg hpd]
      · have hwd := (ht.T1 w hw0).1
        have hne : rep v ≠ rep w := by
          intro e
          have := ht'.T3 w hw v (List.mem_cons_self ..) e.symm
          exact hvd (this ▸ hwd)
        rw [getD_set_ne' _ _ _ _ _ hne, hs.T4 w hw0]
        by_cases hpd' : parent.getD w 0 ∈ done
        · rw [if_pos hpd', if_pos (List.mem_cons_of_mem _ hpd')]
        · rw [if_neg hpd', if_neg (by
            intro m
            rcases List.mem_cons.1 m with e | e
            · exact hpv e
            · exact hpd' e)]
  · intro k hk hne
    have hm : ¬ ∃ w' ∈ (children'.getD v #[]).toList, rep w' = k ∧ k ≠ rep v := by
      intro hh
      obtain ⟨w2, hw2, _, hr2⟩ := (ps_hit_iff hpar ht' hc' hv _).1 hh
      exact hne w2 hw2 hr2
    rw [hmiss k hm, getD_set_ne' _ _ _ _ _ (hne v (List.mem_cons_self ..))]
    exact hs.T5 k hk (fun w hw => hne w (List.mem_cons_of_mem _ hw))

/-! ### the whole pass -/

/-- the full ghost invariant of the pass -/
structure PSFull (parent : Array Nat) (n : Nat) (done tops : List Nat) (st : PSState) : Prop where
  top : PSTop parent n done tops (repOf st.snodeIndex)
  sp : PSSp parent n done tops (repOf st.snodeIndex) st.snodeParent
  ch : PSCh parent n done st.children

/-- [S] a claimed vertex stores a processed representative -/
theorem PSCore.repd {parent degree : Array Nat} {n : Nat} {done : List Nat} {si : Array Int}
    (h : PSCore parent degree n done si) : ∀ x, x < n → repOf si x = x ∨ repOf si x ∈ done := by
  intro x hx
  by_cases hs : si.getD x 0 < 0
  · exact Or.inl (repOf_neg hs)
  · right
    rw [repOf_nonneg (by omega)]
    exact (h.target x hx (by omega)).2.2

/-- [S] the representative of a vertex is a representative -/
theorem PSCore.rep_neg {parent degree : Array Nat} {n : Nat} {done : List Nat} {si : Array Int}
    (h : PSCore parent degree n done si) : ∀ x, x < n → si.getD (repOf si x) 0 < 0 := by
  intro x hx
  by_cases hs : si.getD x 0 < 0
  · rw [repOf_neg hs]; exact hs
  · rw [repOf_nonneg (by omega)]
    exact (h.target x hx (by omega)).2.1

/-- [S] one pass of the loop keeps the full invariant -/
theorem ps_step_full {parent degree : Array Nat} {n : Nat} {done tops : List Nat} {st : PSState}
    {v : Nat} (hpar : EtreeParent parent n) (hdsz : degree.size = n)
    (hdpos : ∀ v, v + 1 < n → 0 < degree.getD v 0)
    (hinv : PSInv parent degree n done st) (hfull : PSFull parent n done tops st)
    (hv : v < n) (hvd : v ∉ done) (hpd : parent.getD v 0 ∉ done) (hlast : n - 1 ∉ done) :
    ∃ st' tops', pothenSunStep parent degree (n - 1) st v = .ok st' ∧
      PSInv parent degree n (v :: done) st' ∧ PSFull parent n (v :: done) tops' st' := by
  obtain ⟨st', sp0, hrun, hinv', hdesc, hkind⟩ := ps_step_desc hpar hdsz hdpos hinv hv hvd hpd
  have hn := hpar.n_pos
  have hsmall : n ≤ noParent := by
    have := hpar.n_small
    have : inactiveNode < noParent := by decide
    omega
  have hup : parent.getD v 0 ≠ noParent → v + 1 < n := by
    intro hnp
    by_contra hl
    have : v = n - 1 := by omega
    subst this
    exact hnp hpar.root
  have htgt : psTgt parent n v < n := by
    unfold psTgt
    by_cases hr : parent.getD v 0 = noParent
    · rw [if_pos hr]; omega
    · rw [if_neg hr]; exact (hpar.up v (hup hr)).2
  have hc' : PSCh parent n (v :: done) st'.children := by
    rw [hdesc.ch_eq]; exact hfull.ch.step hinv.sz_ch hsmall htgt
  rcases hkind with ⟨hroot, hsi, hsp0⟩ | ⟨hnp, hrp, hrep', hsp0⟩ | ⟨hnp, hsi, hsp0⟩
  · have ht' : PSTop parent n (v :: done) tops (repOf st'.snodeIndex) := by
      rw [hsi]; exact hfull.top.root hv hroot
    refine ⟨st', tops, hrun, hinv', ht', ?_, hc'⟩
    subst hsp0
    exact PSSp.step_same hpar hfull.sp hfull.top ht' hc' hv (by rw [hsi]; intros; rfl)
      hdesc.hit hdesc.miss
  · obtain ⟨hvp, hp⟩ := hpar.up v (hup hnp)
    have ht' : PSTop parent n (v :: done) tops (repOf st'.snodeIndex) :=
      hfull.top.claim hinv.core.repd hv rfl (by omega) hvd hpd hrp hrep'
    refine ⟨st', tops, hrun, hinv', ht', ?_, hc'⟩
    subst hsp0
    refine PSSp.step_same hpar hfull.sp hfull.top ht' hc' hv ?_ hdesc.hit hdesc.miss
    intro x hx
    rw [hrep' x, if_neg (fun e : x = parent.getD v 0 => hpd (e ▸ hx))]
  · obtain ⟨hvp, hp⟩ := hpar.up v (hup hnp)
    have hvl : v ≠ n - 1 := by have := hup hnp; omega
    have ht' : PSTop parent n (v :: done) (v :: tops) (repOf st'.snodeIndex) := by
      rw [hsi]; exact hfull.top.top hv hvd hnp hp (by omega) hpd hn hlast hvl
    refine ⟨st', v :: tops, hrun, hinv', ht', ?_, hc'⟩
    have hhit := hdesc.hit
    have hmiss := hdesc.miss
    rw [hsi] at hhit hmiss ht' ⊢
    subst hsp0
    refine PSSp.step_top hpar hfull.sp hfull.top ht' hc' hv hvd ?_ ?_ hhit hmiss
    · intro m
      rcases List.mem_cons.1 m with e | e
      · omega
      · exact hpd e
    · rw [hinv.sz_sp]; exact hinv.core.repOf_lt hv

/-- [S] the pass over a list of vertices in which nobody is listed twice, nor before one of its
children, and the last vertex `n - 1` is listed last -/
theorem ps_fold_full {parent degree : Array Nat} {n : Nat} (hpar : EtreeParent parent n)
    (hdsz : degree.size = n) (hdpos : ∀ v, v + 1 < n → 0 < degree.getD v 0) :
    ∀ (todo done tops : List Nat) (st : PSState), PSInv parent degree n done st →
      PSFull parent n done tops st → todo.Nodup →
      (∀ v ∈ todo, v < n ∧ v ∉ done ∧ parent.getD v 0 ∉ done) →
      todo.Pairwise (fun a b => parent.getD b 0 ≠ a) →
      (todo ≠ [] → n - 1 ∉ done) → todo.Pairwise (fun a _ => a ≠ n - 1) →
      ∃ st' tops', todo.foldlM (pothenSunStep parent degree (n - 1)) st = .ok st' ∧
        PSInv parent degree n (todo.reverse ++ done) st' ∧
        PSFull parent n (todo.reverse ++ done) tops' st' := by
  intro todo
  induction todo with
  | nil => intro done tops st h hf _ _ _ _ _; exact ⟨st, tops, rfl, by simpa using h, by simpa using hf⟩
  | cons v rest ih =>
    intro done tops st hinv hfull hnd hmem hpw hlast hpl
    obtain ⟨hv, hvd, hpd⟩ := hmem v (List.mem_cons_self ..)
    obtain ⟨st1, tops1, h1, hinv1, hfull1⟩ :=
      ps_step_full hpar hdsz hdpos hinv hfull hv hvd hpd (hlast (by simp))
    have hnd' := List.nodup_cons.1 hnd
    have hpw' := List.pairwise_cons.1 hpw
    have hpl' := List.pairwise_cons.1 hpl
    obtain ⟨st2, tops2, h2, hinv2, hfull2⟩ := ih (v :: done) tops1 st1 hinv1 hfull1 hnd'.2
      (fun w hw => by
        obtain ⟨a, b, c⟩ := hmem w (List.mem_cons_of_mem _ hw)
        refine ⟨a, ?_, ?_⟩
        · intro hm
          rcases List.mem_cons.1 hm with e | hm
          · exact hnd'.1 (e ▸ hw)
          · exact b hm
        · intro hm
          rcases List.mem_cons.1 hm with e | hm
          · exact hpw'.1 w hw e
          · exact c hm) hpw'.2
      (fun hne m => by
        obtain ⟨b, hb⟩ := List.exists_mem_of_ne_nil _ hne
        rcases List.mem_cons.1 m with e | e
        · exact hpl'.1 b hb e.symm
        · exact hlast (by simp) e) hpl'.2
    refine ⟨st2, tops2, ?_, ?_, ?_⟩
    · rw [List.foldlM_cons, h1, ok_bind']; exact h2
    · have e : (v :: rest).reverse ++ done = rest.reverse ++ (v :: done) := by simp
      rw [e]; exact hinv2
    · have e : (v :: rest).reverse ++ done = rest.reverse ++ (v :: done) := by simp
      rw [e]; exact hfull2

/-- [S] the initial state of `pothen_sun` satisfies the full invariant -/
theorem ps_init_full (parent : Array Nat) (n : Nat) :
    PSFull parent n [] []
      { snodeIndex := Array.replicate n (-1), snodeParent := Array.replicate n noParent,
        children := Array.replicate n #[] } := by
  have hrep : ∀ x, x < n → repOf (Array.replicate n (-1 : Int)) x = x := by
    intro x hx
    exact repOf_neg (by simp [Array.getD_eq_getD_getElem?, hx])
  refine ⟨⟨by simp, ?_, by simp, by simp, by simp, by simp, by simp⟩, ⟨by simp, ?_⟩, ?_⟩
  · intro x y hx hy _ _ e
    show x = y
    have e' : repOf (Array.replicate n (-1 : Int)) x = repOf (Array.replicate n (-1 : Int)) y := e
    rw [hrep x hx, hrep y hy] at e'
    exact e'
  · intro k hk _
    show (Array.replicate n noParent).getD k 0 = noParent
    simp [Array.getD_eq_getD_getElem?, hk]
  · intro p hp w
    show w ∈ ((Array.replicate n (#[] : VSet)).getD p #[]).toList ↔ _
    simp [Array.getD_eq_getD_getElem?, hp]

/-- [S] a non-empty bounded set of numbers has a largest element -/
theorem snp_exists_max_lt (P : Nat → Prop) : ∀ n, (∃ x, x < n ∧ P x) →
    ∃ w, w < n ∧ P w ∧ ∀ x, x < n → P x → x ≤ w := by
  intro n
  induction n with
  | zero => rintro ⟨x, hx, _⟩; omega
  | succ n ih =>
    rintro ⟨x, hx, hpx⟩
    by_cases hn : P n
    · exact ⟨n, by omega, hn, fun y hy _ => by omega⟩
    · have hxn : x < n := by
        rcases Nat.lt_succ_iff_lt_or_eq.1 hx with h | h
        · exact h
        · subst h; exact absurd hpx hn
      obtain ⟨w, hw, hpw, hmax⟩ := ih ⟨x, hxn, hpx⟩
      refine ⟨w, by omega, hpw, fun y hy hpy => ?_⟩
      rcases Nat.lt_succ_iff_lt_or_eq.1 hy with h | h
      · exact hmax y h hpy
      · subst h; exact absurd hpy hn

/-- [S] `snode_parent` at the end of the pass: the supernode of the last vertex keeps `NO_PARENT`;
every other supernode `k` points to the supernode of the elimination-tree parent of its largest
vertex, which is another supernode. -/
theorem PSFull.final {parent degree : Array Nat} {n : Nat} {done tops : List Nat} {st : PSState}
    (hpar : EtreeParent parent n) (_hinv : PSInv parent degree n done st)
    (hfull : PSFull parent n done tops st) (hall : ∀ x, x < n → x ∈ done) :
    ∀ k, k < n → repOf st.snodeIndex k = k →
      (repOf st.snodeIndex (n - 1) = k → st.snodeParent.getD k 0 = noParent) ∧
      (repOf st.snodeIndex (n - 1) ≠ k → ∃ w, w + 1 < n ∧ repOf st.snodeIndex w = k ∧
        (∀ x, x < n → repOf st.snodeIndex x = k → x ≤ w) ∧
        st.snodeParent.getD k 0 = repOf st.snodeIndex (parent.getD w 0) ∧
        repOf st.snodeIndex (parent.getD w 0) ≠ k) := by
  intro k hk hrk
  have hn := hpar.n_pos
  refine ⟨?_, ?_⟩
  · intro e
    exact hfull.sp.T5 k hk (fun w hw => by rw [← e]; exact hfull.top.R w hw)
  · intro hne
    obtain ⟨w, hw, hrw, hmax⟩ := snp_exists_max_lt (fun x => repOf st.snodeIndex x = k) n ⟨k, hk, hrk⟩
    have hwl : w ≠ n - 1 := fun e => hne (e ▸ hrw)
    have hw1 : w + 1 < n := by omega
    obtain ⟨hwp, hp⟩ := hpar.up w hw1
    have hnp : parent.getD w 0 ≠ noParent := Nat.ne_of_lt (hpar.lt_noParent hp)
    rcases hfull.top.T2 w (hall w hw) hnp with ht | ht
    · refine ⟨w, hw1, hrw, hmax, ?_, ?_⟩
      · have := hfull.sp.T4 w ht
        rw [if_pos (hall _ hp), hrw] at this
        exact this
      · have := hfull.top.T6 w ht
        rw [hrw] at this
        exact this
    · have := hmax _ hp (ht.trans hrw)
      omega

/-! ### the compaction of `snode_parent` to the representatives -/

/-- the representative vertices, in increasing order (`repr_vertex`) -/
def reprList (si : Array Int) (n : Nat) : List Nat :=
  (List.range n).filter (fun i => si.getD i 0 < 0)

/-- the tail of `pothen_sun`: `snode_parent` restricted and re-indexed to the representatives -/
def compactParent (si : Array Int) (sp : Array Nat) (n : Nat) : Array Nat :=
  (((reprList si n).map (fun i => sp.getD i 0)).map (fun rp =>
    match (reprList si n).findIdx? (· == rp) with
    | some idx => idx
    | none => noParent)).toArray

/-- [S] `reprList` has no repetition -/
theorem reprList_nodup (si : Array Int) (n : Nat) : (reprList si n).Nodup :=
  List.nodup_range.filter _

/-- [S] membership in `reprList` -/
theorem mem_reprList (si : Array Int) (n x : Nat) :
    x ∈ reprList si n ↔ x < n ∧ si.getD x 0 < 0 := by
  unfold reprList
  simp

/-- [S] `position` in a list without repetition -/
theorem snp_findIdx_nodup (R : List Nat) (hnd : R.Nodup) (y : Nat) :
    (y ∉ R → R.findIdx? (· == y) = none) ∧
    (∀ j (hj : j < R.length), R[j] = y → R.findIdx? (· == y) = some j) := by
  refine ⟨?_, ?_⟩
  · intro hy
    rw [List.findIdx?_eq_none_iff]
    intro x hx
    simp only [beq_eq_false_iff_ne]
    intro e
    exact hy (e ▸ hx)
  · intro j hj e
    rw [List.findIdx?_eq_some_iff_getElem]
    refine ⟨hj, by simp [e], ?_⟩
    intro j' hj'
    simp only [beq_iff_eq]
    intro e'
    have := (hnd.getElem_inj_iff (hi := by omega) (hj := hj)).1 (e'.trans e.symm)
    omega

/-- [S] the entries of the compacted parent array -/
theorem compactParent_spec (si : Array Int) (sp : Array Nat) (n : Nat) :
    (compactParent si sp n).size = (reprList si n).length ∧
    ∀ i (hi : i < (reprList si n).length),
      (sp.getD (reprList si n)[i] 0 ∉ reprList si n → (compactParent si sp n).getD i 0 = noParent) ∧
      (∀ j (hj : j < (reprList si n).length), (reprList si n)[j] = sp.getD (reprList si n)[i] 0 →
        (compactParent si sp n).getD i 0 = j) := by
  refine ⟨by simp [compactParent], ?_⟩
  intro i hi
  have hget : (compactParent si sp n).getD i 0 =
      match (reprList si n).findIdx? (· == sp.getD (reprList si n)[i] 0) with
      | some idx => idx
      | none => noParent := by
    simp [compactParent, Array.getD_eq_getD_getElem?, hi]
  obtain ⟨h1, h2⟩ := snp_findIdx_nodup (reprList si n) (reprList_nodup si n) (sp.getD (reprList si n)[i] 0)
  refine ⟨?_, ?_⟩
  · intro hy
    rw [hget, h1 hy]
  · intro j hj e
    rw [hget, h2 j hj e]

/-! ### `pothen_sun` as a whole -/

/-- [S] in a repetition-free list whose last entry is `r`, every entry with a successor is
different from `r` -/
theorem snp_pairwise_ne_last {l : List Nat} {r : Nat} (hnd : l.Nodup) (hl : l.getLast? = some r) :
    l.Pairwise (fun a _ => a ≠ r) := by
  obtain ⟨ys, rfl⟩ := List.getLast?_eq_some_iff.1 hl
  have hr : r ∉ ys := by
    intro hx
    exact (List.nodup_append.1 hnd).2.2 r hx r (by simp) rfl
  rw [List.pairwise_append]
  refine ⟨?_, by simp, ?_⟩
  · exact List.pairwise_of_forall_mem_list (fun a ha b _ => fun e => hr (e ▸ ha))
  · intro a ha b _ e
    exact hr (e ▸ ha)

/-- [S] **`pothen_sun`** on the elimination tree `parent`, positive degrees of the non-roots and a
post-order `post` of all vertices (no repetition, children before parents, the last vertex
listed last): no panic; the returned `snode_index` satisfies `PSCore`; the returned
`snode_parent` has one entry per representative vertex (`reprList`, increasing order); the
supernode of the last vertex `n - 1` is a root, and every other supernode `i` has as parent the
index `j ≠ i` of the supernode containing the elimination-tree parent of its largest vertex. -/
theorem pothen_sun_parent_spec {parent post degree : Array Nat} {n : Nat}
    (hpar : EtreeParent parent n) (hdsz : degree.size = n)
    (hdpos : ∀ v, v + 1 < n → 0 < degree.getD v 0)
    (hnd : post.toList.Nodup) (hlt : ∀ v ∈ post.toList, v < n)
    (hpw : post.toList.Pairwise (fun a b => parent.getD b 0 ≠ a))
    (hall : ∀ v, v < n → v ∈ post.toList) (hlast : post.toList.getLast? = some (n - 1)) :
    ∃ sp si, pothenSun parent post degree = .ok (sp, si) ∧ si.size = n ∧
      PSCore parent degree n post.toList.reverse si ∧ sp.size = (reprList si n).length ∧
      ∀ i (hi : i < (reprList si n).length),
        (repOf si (n - 1) = (reprList si n)[i] → sp.getD i 0 = noParent) ∧
        (repOf si (n - 1) ≠ (reprList si n)[i] → ∃ w j, w + 1 < n ∧
          repOf si w = (reprList si n)[i] ∧
          (∀ x, x < n → repOf si x = (reprList si n)[i] → x ≤ w) ∧
          ∃ hj : j < (reprList si n).length,
            (reprList si n)[j] = repOf si (parent.getD w 0) ∧ j ≠ i ∧ sp.getD i 0 = j) := by
  have hn := hpar.n_pos
  obtain ⟨st, tops, hf, hinv, hfull⟩ := ps_fold_full hpar hdsz hdpos post.toList [] [] _
    (ps_init parent degree n) (ps_init_full parent n) hnd
    (fun v hv => ⟨hlt v hv, by simp, by simp⟩) hpw (fun _ => by simp)
    (snp_pairwise_ne_last hnd hlast)
  simp only [List.append_nil] at hinv hfull
  have hrun : pothenSun parent post degree =
      .ok (compactParent st.snodeIndex st.snodeParent n, st.snodeIndex) := by
    unfold pothenSun
    rw [hpar.findIdx_root]
    simp only [hpar.size_eq]
    show (List.foldlM (pothenSunStep parent degree (n - 1)) _ post.toList >>= _) = _
    rw [hf, ok_bind']
    rfl
  have hfin := hfull.final hpar hinv (fun x hx => List.mem_reverse.2 (hall x hx))
  obtain ⟨hsz, hcp⟩ := compactParent_spec st.snodeIndex st.snodeParent n
  refine ⟨_, _, hrun, hinv.sz_si, hinv.core, hsz, ?_⟩
  intro i hi
  have hmem := (mem_reprList st.snodeIndex n _).1 (List.getElem_mem hi)
  obtain ⟨h1, h2⟩ := hfin _ hmem.1 (repOf_neg hmem.2)
  obtain ⟨c1, c2⟩ := hcp i hi
  refine ⟨?_, ?_⟩
  · intro e
    refine c1 ?_
    rw [h1 e]
    intro hm
    have := ((mem_reprList _ _ _).1 hm).1
    have := hpar.n_small
    have : inactiveNode < noParent := by decide
    omega
  · intro hne
    obtain ⟨w, hw1, hrw, hmax, hsp, hne'⟩ := h2 hne
    obtain ⟨hwp, hp⟩ := hpar.up w hw1
    have hk' : repOf st.snodeIndex (parent.getD w 0) ∈ reprList st.snodeIndex n :=
      (mem_reprList _ _ _).2 ⟨hinv.core.repOf_lt hp, hinv.core.rep_neg _ hp⟩
    obtain ⟨j, hj, ej⟩ := List.getElem_of_mem hk'
    refine ⟨w, j, hw1, hrw, hmax, hj, ej, ?_, c2 j hj (by rw [ej, hsp])⟩
    intro e
    subst e
    exact hne' ej.symm

/-! ### `find_supernodes`: the supernodes together with their parents -/

/-- the body of the bucket loop of `find_supernodes` -/
def fsStep' (si : Array Int) (sn : Array VSet) (i : Nat) : MErr (Array VSet) := do
  let s ← getE sn (repOf si i) "find_supernodes"
  setE sn (repOf si i) (s.insert i) "find_supernodes"

/-- [S] the bucket loop of `find_supernodes`: bucket `r` collects the vertices with
representative `r` -/
theorem fs_fold' (si : Array Int) (n : Nat) (hrep : ∀ i, i < n → repOf si i < n) :
    ∀ k, k ≤ n →
      ∃ b, (List.range k).foldlM (fsStep' si) (Array.replicate n #[]) = .ok b ∧ b.size = n ∧
        ∀ r, r < n → (b.getD r #[]).toList.Nodup ∧
          ∀ i, i ∈ (b.getD r #[]).toList ↔ (i < k ∧ repOf si i = r) := by
  intro k
  induction k with
  | zero =>
    intro _
    refine ⟨_, rfl, by simp, ?_⟩
    intro r hr
    simp [Array.getD_eq_getD_getElem?, hr]
  | succ k ih =>
    intro hk
    obtain ⟨b, hf, hsz, hinv⟩ := ih (by omega)
    have hkn : k < n := by omega
    have ht := hrep k hkn
    rw [List.range_succ, List.foldlM_append, hf]
    simp only [bind, Except.bind, List.foldlM_cons, List.foldlM_nil]
    have hstep : fsStep' si b k = .ok
        (b.setIfInBounds (repOf si k) ((b.getD (repOf si k) #[]).insert k)) := by
      unfold fsStep'
      rw [getE_ok' b _ _ #[] (by omega), ok_bind', setE_ok' _ _ _ _ (by omega)]
    refine ⟨_, by rw [hstep]; rfl, by simpa using hsz, ?_⟩
    intro r hr
    by_cases e : repOf si k = r
    · subst e
      rw [getD_set_self' _ _ _ _ (by omega)]
      refine ⟨VSet.nodup_insert _ _ (hinv _ hr).1, fun i => ?_⟩
      rw [VSet.mem_insert, (hinv _ hr).2 i]
      constructor
      · rintro (⟨h1, h2⟩ | rfl)
        · exact ⟨by omega, h2⟩
        · exact ⟨by omega, rfl⟩
      · rintro ⟨h1, h2⟩
        rcases Nat.lt_succ_iff_lt_or_eq.1 h1 with h | h
        · exact Or.inl ⟨h, h2⟩
        · exact Or.inr h
    · rw [getD_set_ne' _ _ _ _ _ e]
      refine ⟨(hinv r hr).1, fun i => ?_⟩
      rw [(hinv r hr).2 i]
      constructor
      · rintro ⟨h1, h2⟩; exact ⟨by omega, h2⟩
      · rintro ⟨h1, h2⟩
        refine ⟨?_, h2⟩
        rcases Nat.lt_succ_iff_lt_or_eq.1 h1 with h | h
        · exact h
        · subst h; exact absurd h2 e

/-- [S] an array as the list of its entries read with `getD` -/
theorem snp_toList_eq_map_range {β : Type} (b : Array β) (d : β) :
    b.toList = (List.range b.size).map (fun r => b.getD r d) := by
  apply List.ext_getElem
  · simp
  · intro i h1 h2
    have hi : i < b.size := by simpa using h1
    simp [Array.getD_eq_getD_getElem?, hi]

/-- the supernodal elimination tree returned by `find_supernodes`: the supernode of the last
vertex is a root; every other supernode `i` has a largest vertex `w`, and its parent is another
supernode, the one containing the elimination-tree parent of `w` -/
structure SnParent (parent : Array Nat) (n : Nat) (snode : Array VSet) (sparent : Array Nat) :
    Prop where
  size_eq : sparent.size = snode.size
  size_le : snode.size ≤ n
  root : ∀ i, i < snode.size → n - 1 ∈ (snode.getD i #[]).toList → sparent.getD i 0 = noParent
  up : ∀ i, i < snode.size → n - 1 ∉ (snode.getD i #[]).toList →
    ∃ w ∈ (snode.getD i #[]).toList, (∀ x ∈ (snode.getD i #[]).toList, x ≤ w) ∧ w + 1 < n ∧
      sparent.getD i 0 < snode.size ∧ sparent.getD i 0 ≠ i ∧
      parent.getD w 0 ∈ (snode.getD (sparent.getD i 0) #[]).toList

/-- [S] **`find_supernodes`** under the hypotheses of `pothen_sun_parent_spec`: no panic; the
supernodes satisfy `Supernodes` (partition of the vertices into Pothen–Sun supernodes) and the
returned parent array satisfies `SnParent`. -/
theorem find_supernodes_parent_spec {parent post degree : Array Nat} {n : Nat}
    (hpar : EtreeParent parent n) (hdsz : degree.size = n)
    (hdpos : ∀ v, v + 1 < n → 0 < degree.getD v 0)
    (hnd : post.toList.Nodup) (hlt : ∀ v ∈ post.toList, v < n)
    (hpw : post.toList.Pairwise (fun a b => parent.getD b 0 ≠ a))
    (hall : ∀ v, v < n → v ∈ post.toList) (hlast : post.toList.getLast? = some (n - 1)) :
    ∃ snode sparent, findSupernodes parent post degree = .ok (snode, sparent) ∧
      Supernodes parent degree n snode ∧ SnParent parent n snode sparent := by
  have hn := hpar.n_pos
  obtain ⟨sp, si, hps, hsz, hcore, hspsz, hpi⟩ :=
    pothen_sun_parent_spec hpar hdsz hdpos hnd hlt hpw hall hlast
  obtain ⟨b, hf, hbsz, hb⟩ := fs_fold' si n (fun i hi => hcore.repOf_lt hi) n (Nat.le_refl _)
  have hrun : findSupernodes parent post degree =
      .ok ((b.toList.filter (fun s => !s.isEmpty)).toArray, sp) := by
    unfold findSupernodes
    rw [hps, ok_bind']
    simp only [hsz, hpar.size_eq]
    show ((List.range n).foldlM (fsStep' si) (Array.replicate n #[]) >>= _) = _
    rw [hf, ok_bind']
    rfl
  -- the non-empty buckets are the buckets of the representatives
  have hsn : b.toList.filter (fun s => !s.isEmpty) =
      (reprList si n).map (fun r => b.getD r #[]) := by
    rw [snp_toList_eq_map_range b #[], List.filter_map, hbsz]
    unfold reprList
    congr 1
    apply List.filter_congr
    intro r hr
    have hr' : r < n := List.mem_range.1 hr
    simp only [Function.comp]
    by_cases hs : si.getD r 0 < 0
    · rw [decide_eq_true hs]
      have hmem : r ∈ (b.getD r #[]).toList := ((hb r hr').2 r).2 ⟨hr', repOf_neg hs⟩
      cases hc : (b.getD r #[]).isEmpty with
      | false => rfl
      | true =>
        rw [Array.isEmpty_iff] at hc
        rw [hc] at hmem
        simp at hmem
    · rw [decide_eq_false hs]
      have : (b.getD r #[]).toList = [] := by
        rw [List.eq_nil_iff_forall_not_mem]
        intro i hi
        obtain ⟨hin, hir⟩ := ((hb r hr').2 i).1 hi
        exact hs (hir ▸ hcore.rep_neg i hin)
      have : b.getD r #[] = #[] := Array.toList_eq_nil_iff.1 this
      rw [this]
      rfl
  obtain ⟨snode0, sp0, hrun0, hSn⟩ := find_supernodes_spec hpar hdsz hdpos hnd hlt hpw
  rw [hrun] at hrun0
  injection hrun0 with hrun0
  injection hrun0 with e1 e2
  subst e1
  have hsize : ((b.toList.filter (fun s => !s.isEmpty)).toArray).size = (reprList si n).length := by
    rw [hsn]; simp
  have hget : ∀ i (hi : i < (reprList si n).length),
      ((b.toList.filter (fun s => !s.isEmpty)).toArray).getD i #[] =
        b.getD (reprList si n)[i] #[] := by
    intro i hi
    rw [hsn]
    simp [Array.getD_eq_getD_getElem?, hi]
  have hRlt : ∀ i (hi : i < (reprList si n).length), (reprList si n)[i] < n :=
    fun i hi => ((mem_reprList si n _).1 (List.getElem_mem hi)).1
  refine ⟨_, sp, hrun, hSn, ⟨by rw [hsize, hspsz], ?_, ?_, ?_⟩⟩
  · rw [hsize]
    have := (reprList_nodup si n).length_le_of_subset
      (fun x hx => List.mem_range.2 ((mem_reprList si n x).1 hx).1)
    simpa using this
  · intro i hi hm
    rw [hsize] at hi
    rw [hget i hi] at hm
    exact (hpi i hi).1 (((hb _ (hRlt i hi)).2 _).1 hm).2
  · intro i hi hm
    rw [hsize] at hi
    rw [hget i hi] at hm
    have hne : repOf si (n - 1) ≠ (reprList si n)[i] :=
      fun e => hm (((hb _ (hRlt i hi)).2 _).2 ⟨by omega, e⟩)
    obtain ⟨w, j, hw1, hrw, hmax, hj, ej, hji, hsp⟩ := (hpi i hi).2 hne
    obtain ⟨hwp, hp⟩ := hpar.up w hw1
    refine ⟨w, ?_, ?_, hw1, ?_, ?_, ?_⟩
    · rw [hget i hi]; exact ((hb _ (hRlt i hi)).2 w).2 ⟨by omega, hrw⟩
    · intro x hx
      rw [hget i hi] at hx
      obtain ⟨hxn, hxr⟩ := ((hb _ (hRlt i hi)).2 x).1 hx
      exact hmax x hxn hxr
    · rw [hsp, hsize]; exact hj
    · rw [hsp]; exact hji
    · rw [hsp, hget j hj]
      exact ((hb _ (hRlt j hj)).2 _).2 ⟨hp, ej.symm⟩

/-! ### the clique tree of `SuperNodeTree::new` -/

/-- [S] the column of the representative lies in the supernode plus the column of any member -/
theorem SnodeOf.col_rep_sub {L : LPat} {sn : List Nat} {rep : Nat} (hs : SnodeOf L sn rep)
    (h : L.Filled) : ∀ x ∈ sn, ∀ r ∈ L.col rep, r ∈ sn ∨ r ∈ L.col x := by
  intro x
  induction x using Nat.strongRecOn with
  | _ x ih =>
    intro hx r hr
    by_cases e : x = rep
    · rw [e]; exact Or.inr hr
    · obtain ⟨c, hc, hc1, hpar, hdeg⟩ := hs.pred x hx e
      have hb := h.par_bounds hc1
      rcases ih c (by omega) hc r hr with h1 | h1
      · exact Or.inl h1
      · rw [← hpar] at hdeg
        rcases (h.col_succ hc1 hdeg r).1 h1 with h2 | h2
        · left; rw [h2, hpar]; exact hx
        · right; rw [← hpar]; exact h2

/-- the largest vertex of a set (`0` for the empty set) -/
def maxOf (sn : VSet) : Nat := sn.toList.foldl Nat.max 0

/-- [S] a running maximum dominates its start value and every element -/
theorem snp_foldl_max_ge : ∀ (l : List Nat) (a : Nat), a ≤ l.foldl Nat.max a ∧
    ∀ x ∈ l, x ≤ l.foldl Nat.max a := by
  intro l
  induction l with
  | nil => intro a; simp
  | cons b l ih =>
    intro a
    obtain ⟨h1, h2⟩ := ih (Nat.max a b)
    simp only [List.foldl_cons]
    have hm1 : a ≤ Nat.max a b := Nat.le_max_left a b
    have hm2 : b ≤ Nat.max a b := Nat.le_max_right a b
    refine ⟨by omega, ?_⟩
    intro x hx
    rcases List.mem_cons.1 hx with rfl | hx
    · omega
    · exact h2 x hx

/-- [S] a running maximum is at most any common upper bound -/
theorem snp_foldl_max_le : ∀ (l : List Nat) (a w : Nat), a ≤ w → (∀ x ∈ l, x ≤ w) →
    l.foldl Nat.max a ≤ w := by
  intro l
  induction l with
  | nil => intro a w h _; simpa using h
  | cons b l ih =>
    intro a w ha hl
    simp only [List.foldl_cons]
    exact ih _ w (Nat.max_le.2 ⟨ha, hl b (List.mem_cons_self ..)⟩)
      (fun x hx => hl x (List.mem_cons_of_mem _ hx))

/-- [S] every member is at most `maxOf` -/
theorem le_maxOf {sn : VSet} {x : Nat} (hx : x ∈ sn.toList) : x ≤ maxOf sn :=
  (snp_foldl_max_ge sn.toList 0).2 x hx

/-- [S] `maxOf` is at most any upper bound -/
theorem maxOf_le {sn : VSet} {w : Nat} (h : ∀ x ∈ sn.toList, x ≤ w) : maxOf sn ≤ w :=
  snp_foldl_max_le sn.toList 0 w (Nat.zero_le _) h

/-- [S] an in-range entry read with `getD` is an element of the array -/
theorem snp_getD_mem_toList {β : Type} (xs : Array β) (d : β) {i : Nat} (hi : i < xs.size) :
    xs.getD i d ∈ xs.toList := by
  have : xs.getD i d = xs[i] := by simp [Array.getD_eq_getD_getElem?, hi]
  rw [this]; exact Array.getElem_mem_toList hi

namespace SnParent
variable {parent : Array Nat} {n : Nat} {snode : Array VSet} {sparent : Array Nat}

/-- [S] an entry of the supernodal parent array is `NO_PARENT` or an index -/
theorem wf (hs : SnParent parent n snode sparent) :
    ∀ i, i < sparent.size → sparent.getD i 0 = noParent ∨ sparent.getD i 0 < sparent.size := by
  intro i hi
  rw [hs.size_eq] at hi ⊢
  by_cases hm : n - 1 ∈ (snode.getD i #[]).toList
  · exact Or.inl (hs.root i hi hm)
  · obtain ⟨w, _, _, _, h4, _⟩ := hs.up i hi hm
    exact Or.inr h4

/-- [S] a root contains the last vertex -/
theorem mem_of_root (hs : SnParent parent n snode sparent) (hn : n < inactiveNode) {i : Nat}
    (hi : i < snode.size) (hr : sparent.getD i 0 = noParent) :
    n - 1 ∈ (snode.getD i #[]).toList := by
  by_contra hm
  obtain ⟨w, _, _, _, h4, _⟩ := hs.up i hi hm
  have := hs.size_le
  have : inactiveNode < noParent := by decide
  omega

end SnParent

/-- the tree assembled by `SuperNodeTree::new` from its parts -/
def mkSnTree (L : LPat) (snode : Array VSet) (spost sparent : Array Nat) (sc : Array VSet)
    (post : Array Nat) : SuperNodeTree :=
  { snode := snode, snodePost := spost, snodeParent := sparent, snodeChildren := sc, post := post,
    separators := snode.map (sepOf L), nblk := none, nCliques := snode.size }

/-- [S] **the tree assembled by `SuperNodeTree::new` is a clique tree**: supernodes of a filled
pattern (`SnCover`) with the parent structure `SnParent`, `separator = col(representative) \
supernode` and children lists inverse to the parent array satisfy the clique-tree invariant
`CTInv`, with the rank `ord c = largest vertex of supernode c`. -/
theorem ctinv_of_snparent {L : LPat} (h : L.Filled) {parent : Array Nat}
    (hp : ∀ v, v + 1 < L.n → parent.getD v 0 = L.par v)
    {snode : Array VSet} {sparent : Array Nat} {sc : Array VSet} (post spost : Array Nat)
    (hcov : SnCover L snode (snode.map (sepOf L)))
    (hsp : SnParent parent L.n snode sparent) (hch : ChildrenOf sparent sc) :
    CTInv (mkSnTree L snode spost sparent sc post) (fun c => maxOf (snode.getD c #[])) := by
  have hn := h.n_pos
  have hnsm := h.n_small
  have hle := hsp.size_le
  have hlt_np : inactiveNode < noParent := by decide
  -- liveness
  have hlive : ∀ c, Live (mkSnTree L snode spost sparent sc post) c ↔ c < snode.size := by
    intro c
    unfold Live
    show c < sparent.size ∧ sparent.getD c 0 ≠ inactiveNode ↔ _
    rw [hsp.size_eq]
    constructor
    · exact fun x => x.1
    · intro hc
      refine ⟨hc, ?_⟩
      rcases hsp.wf c (by rw [hsp.size_eq]; exact hc) with e | e
      · rw [e]; decide
      · rw [hsp.size_eq] at e; omega
  have hSO : ∀ c, c < snode.size → SnodeOf L (snode.getD c #[]).toList (minOf (snode.getD c #[])) :=
    fun c hc => hcov.snode_of _ (snp_getD_mem_toList snode #[] hc)
  have hsep : ∀ c, c < snode.size → ∀ x, x ∈ ((snode.map (sepOf L)).getD c #[]).toList ↔
      x ∈ L.col (minOf (snode.getD c #[])) ∧ x ∉ (snode.getD c #[]).toList :=
    fun c hc => (hcov.sep_spec c hc).2
  -- pairwise disjointness of the supernodes
  have hdisj0 : ∀ a b, a < snode.size → b < snode.size → a < b →
      ∀ v ∈ (snode.getD a #[]).toList, v ∉ (snode.getD b #[]).toList := by
    intro a b ha hb hab v hva hvb
    have hnd : (snode.toList.flatMap (fun sn => sn.toList)).Nodup :=
      hcov.partition.nodup_iff.2 List.nodup_range
    have hpw := (List.nodup_flatMap.1 hnd).2
    rw [List.pairwise_iff_getElem] at hpw
    have := hpw a b (by simpa using ha) (by simpa using hb) hab
    have e1 : snode.toList[a]'(by simpa using ha) = snode.getD a #[] := by
      simp [Array.getD_eq_getD_getElem?, ha]
    have e2 : snode.toList[b]'(by simpa using hb) = snode.getD b #[] := by
      simp [Array.getD_eq_getD_getElem?, hb]
    have hd : List.Disjoint (snode.getD a #[]).toList (snode.getD b #[]).toList := by
      rw [← e1, ← e2]; exact this
    exact hd hva hvb
  -- what `SnParent.up` gives for a non-root clique
  have hup : ∀ c, c < snode.size → sparent.getD c 0 ≠ noParent →
      ∃ w ∈ (snode.getD c #[]).toList, (∀ x ∈ (snode.getD c #[]).toList, x ≤ w) ∧ w + 1 < L.n ∧
        sparent.getD c 0 < snode.size ∧ sparent.getD c 0 ≠ c ∧
        L.par w ∈ (snode.getD (sparent.getD c 0) #[]).toList := by
    intro c hc hnp
    have hm : L.n - 1 ∉ (snode.getD c #[]).toList := fun hm => hnp (hsp.root c hc hm)
    obtain ⟨w, h1, h2, h3, h4, h5, h6⟩ := hsp.up c hc hm
    exact ⟨w, h1, h2, h3, h4, h5, by rw [← hp w h3]; exact h6⟩
  refine
    { sz_sep := by show (snode.map (sepOf L)).size = snode.size; simp
      sz_par := hsp.size_eq
      sz_ch := hch.size_eq.trans hsp.size_eq
      small := by show snode.size < inactiveNode; omega
      par_live := ?_
      ch_iff := ?_
      ch_nodup := fun p hp' => hch.nodup p (by rw [hsp.size_eq]; exact hp')
      sep_sub := ?_
      sn_nodup := fun c hl => hcov.nodup _ (snp_getD_mem_toList snode #[] ((hlive c).1 hl))
      sep_nodup := fun c hl => (hcov.sep_spec c ((hlive c).1 hl)).1
      sn_disj := ?_
      ord_lt := ?_
      root_sep := ?_
      dead_snode := fun c hl => pcl_getD_oob _ _ _ (fun hc => hl ((hlive c).2 hc))
      dead_sep := fun c hl => pcl_getD_oob _ _ _ (fun hc => hl ((hlive c).2 (by
        have hc' : c < (snode.map (sepOf L)).size := hc
        simpa using hc')))
      dead_ch := fun c hl => pcl_getD_oob _ _ _ (fun hc => hl ((hlive c).2 (by
        have hc' : c < sc.size := hc
        rw [hch.size_eq, hsp.size_eq] at hc'; exact hc'))) }
  · intro c hl hnp
    obtain ⟨w, _, _, _, h4, _⟩ := hup c ((hlive c).1 hl) hnp
    exact (hlive _).2 h4
  · intro p' c hl
    have hp' := (hlive p').1 hl
    show c ∈ (sc.getD p' #[]).toList ↔ _ ∧ sparent.getD c 0 = p'
    rw [hch.mem_iff p' c (by rw [hsp.size_eq]; exact hp'), hlive c, hsp.size_eq]
  · intro c hl hnp v hv
    have hc := (hlive c).1 hl
    obtain ⟨w, hw, hmax, hw1, hc', _, hpw⟩ := hup c hc hnp
    obtain ⟨hv1, hv2⟩ := (hsep c hc v).1 hv
    have hvw : v ∈ L.col w := by
      rcases (hSO c hc).col_rep_sub h w hw v hv1 with h1 | h1
      · exact absurd h1 hv2
      · exact h1
    show v ∈ (snode.getD (sparent.getD c 0) #[]).toList ++
      ((snode.map (sepOf L)).getD (sparent.getD c 0) #[]).toList
    rw [List.mem_append]
    by_cases e : v = L.par w
    · left; rw [e]; exact hpw
    · have hvp := h.closure w hw1 v hvw e
      rcases (hSO _ hc').cover h _ hpw v hvp with h1 | h1
      · exact Or.inl h1
      · exact Or.inr ((hsep _ hc' v).2 h1)
  · intro a b hla hlb hab v hva hvb
    have ha := (hlive a).1 hla
    have hb := (hlive b).1 hlb
    rcases Nat.lt_or_gt_of_ne hab with hlt | hlt
    · exact hdisj0 a b ha hb hlt v hva hvb
    · exact hdisj0 b a hb ha hlt v hvb hva
  · intro c hl hnp
    have hc := (hlive c).1 hl
    obtain ⟨w, hw, hmax, hw1, hc', _, hpw⟩ := hup c hc hnp
    show maxOf (snode.getD c #[]) < maxOf (snode.getD (sparent.getD c 0) #[])
    have h1 := maxOf_le hmax
    have h2 := le_maxOf hpw
    have h3 := (h.par_bounds hw1).1
    omega
  · intro c hl hr
    have hc := (hlive c).1 hl
    have hm := hsp.mem_of_root hnsm hc hr
    have : ((snode.map (sepOf L)).getD c #[]).toList = [] := by
      rw [List.eq_nil_iff_forall_not_mem]
      intro v hv
      obtain ⟨hv1, hv2⟩ := (hsep c hc v).1 hv
      rcases (hSO c hc).col_rep_sub h _ hm v hv1 with h1 | h1
      · exact hv2 h1
      · rw [h.col_last] at h1; simp at h1
    exact Array.toList_eq_nil_iff.1 this

/-- [S] the front half of `SuperNodeTree::new` on a filled pattern, with everything the back half
needs: the elimination tree, the degrees, and a post-order of all vertices that lists children
before parents and the last vertex last -/
theorem sntree_front_full {L : LPat} (h : L.Filled) :
    ∃ parent children post children' degree,
      parentFromL L = .ok parent ∧ childrenFromParent parent = .ok children ∧
      postOrder parent children parent.size = .ok (post, children') ∧
      higherDegree L = .ok degree ∧ EtreeParent parent L.n ∧
      (∀ v, v + 1 < L.n → parent.getD v 0 = L.par v) ∧ degree.size = L.n ∧
      (∀ v, v < L.n → degree.getD v 0 = (L.col v).length) ∧
      (∀ v, v + 1 < L.n → 0 < degree.getD v 0) ∧
      post.toList.Nodup ∧ (∀ v ∈ post.toList, v < L.n) ∧
      post.toList.Pairwise (fun a b => parent.getD b 0 ≠ a) ∧
      (∀ v, v < L.n → v ∈ post.toList) ∧ post.toList.getLast? = some (L.n - 1) := by
  obtain ⟨parent, hpf, hpar, _, hp⟩ := parent_from_L_spec h
  have hnsmall : parent.size < noParent := by
    rw [hpar.size_eq]
    have := hpar.n_small
    have : inactiveNode < noParent := by decide
    omega
  obtain ⟨children, hcf, hch⟩ := children_from_parent_spec parent hpar.wf hnsmall
  have hn := hpar.n_pos
  obtain ⟨post, children', hpo, hpnd, hplt, hpsz, _, hpsub, hpall⟩ :=
    post_order_spec_full parent children (L.n - 1) hch hnsmall (by rw [hpar.size_eq]; omega)
      hpar.findIdx_root
  obtain ⟨degree, hdf, hdsz, hd1, hd2⟩ := higher_degree_spec h
  have hd : ∀ v, v < L.n → degree.getD v 0 = (L.col v).length := by
    intro v hv
    by_cases hl : v + 1 < L.n
    · exact hd1 v hl
    · have : v = L.n - 1 := by omega
      subst this
      rw [hd2, h.col_last]; rfl
  have hdpos : ∀ v, v + 1 < L.n → 0 < degree.getD v 0 := by
    intro v hv
    rw [hd1 v hv]
    exact List.length_pos_iff.2 (h.connected v hv)
  have hplt' : ∀ v ∈ post.toList, v < L.n := by
    intro v hv; rw [← hpar.size_eq]; exact hplt v hv
  have hpall' : ∀ v, v < L.n → v ∈ post.toList := fun v hv => hpall v (hpar.reaches_root v hv)
  have hbefore : ∀ c, c < L.n → c ≠ L.n - 1 → List.Sublist [c, parent.getD c 0] post.toList := by
    intro c hc hcr
    exact hpsub c _ (hpall' c hc) (hpall' _ (hpar.up c (by omega)).2) (hpar.reaches_root c hc)
      hcr rfl
  have hpw : post.toList.Pairwise (fun a b => parent.getD b 0 ≠ a) := by
    rw [List.pairwise_iff_forall_sublist]
    intro a b hab e
    have ha : a ∈ post.toList := hab.subset (by simp)
    have hb : b ∈ post.toList := hab.subset (by simp)
    have hbn := hplt' b hb
    have han := hplt' a ha
    have hbr : b ≠ L.n - 1 := by
      intro e'
      subst e'
      have := hpar.root
      have := hpar.lt_noParent han
      omega
    have := hbefore b hbn hbr
    rw [e] at this
    exact no_both_sublists _ hpnd a b hab this
  refine ⟨parent, children, post, children', degree, hpf, hcf, hpo, hdf, hpar, hp, hdsz, hd, hdpos,
    hpnd, hplt', hpw, hpall', ?_⟩
  refine pcl_last_of_sublist hpnd (hpall' _ (by omega)) ?_
  intro c hc hcr
  exact ⟨_, hbefore c (hplt' c hc) hcr⟩

/-- what `SuperNodeTree::new` returns on a filled pattern: a valid clique tree -/
structure SnTreeOk (L : LPat) (t : SuperNodeTree) : Prop where
  /-- supernodes partition the vertices, `separator = col(representative) \ supernode`, coverage -/
  cover : SnCover L t.snode t.separators
  /-- the clique-tree invariant, ranked by the largest vertex of the supernode -/
  ct : CTInv t (fun c => maxOf (t.snode.getD c #[]))
  pos : 0 < t.snode.size
  all_live : ∀ c, c < t.snode.size → Live t c
  /-- `snode_post` is a permutation of the clique indices -/
  post_perm : t.snodePost.toList.Perm (List.range t.snode.size)
  /-- children before parents in `snode_post` -/
  post_before : ∀ c, c < t.snode.size → t.snodeParent.getD c 0 ≠ noParent →
    List.Sublist [c, t.snodeParent.getD c 0] t.snodePost.toList
  /-- every clique but the last of the post-order has a parent -/
  nonroot : ∀ j, j + 1 < t.snode.size → t.snodeParent.getD (t.snodePost.getD j 0) 0 ≠ noParent
  /-- the last clique of the post-order is the root … -/
  root_last : t.snodeParent.getD (t.snodePost.getD (t.snode.size - 1) 0) 0 = noParent
  /-- … and contains the last vertex -/
  root_mem : L.n - 1 ∈ (t.snode.getD (t.snodePost.getD (t.snode.size - 1) 0) #[]).toList
  /-- the parent of a non-root clique is the clique whose supernode contains the
  elimination-tree parent of the largest vertex of the supernode -/
  up : ∀ c, c < t.snode.size → t.snodeParent.getD c 0 ≠ noParent →
    ∃ w ∈ (t.snode.getD c #[]).toList, (∀ x ∈ (t.snode.getD c #[]).toList, x ≤ w) ∧
      w + 1 < L.n ∧ L.par w ∈ (t.snode.getD (t.snodeParent.getD c 0) #[]).toList
  ncl : t.nCliques = t.snode.size
  nblk : t.nblk = none
  vpost_perm : t.post.toList.Perm (List.range L.n)

/-- [S] with at least two cliques the tree is a valid initial state of `merge_cliques` -/
theorem SnTreeOk.pcinit {L : LPat} {t : SuperNodeTree} (h : SnTreeOk L t) (h2 : 2 ≤ t.snode.size) :
    PCInit t (fun c => maxOf (t.snode.getD c #[])) where
  ct := h.ct
  two := h2
  all_live := h.all_live
  post_size := by simpa using h.post_perm.length_eq
  post_nodup := h.post_perm.nodup_iff.2 List.nodup_range
  post_lt := fun c hc => List.mem_range.1 (h.post_perm.mem_iff.1 hc)
  nonroot := h.nonroot
  root_last := h.root_last
  ncl := h.ncl

/-- [S] **`SuperNodeTree::new` ON A FILLED PATTERN**: none of the passes panics — in particular
`children_from_parent` / `post_order` on the supernodal tree built by `pothen_sun` terminate
within their fuel — and the result is a valid clique tree (`SnTreeOk`): `SnCover`, the
clique-tree invariant `CTInv`, all cliques live, `snode_post` a permutation of the clique indices
listing children before parents with the unique root (the clique of the last vertex) last. -/
theorem sntree_new_ok {L : LPat} (h : L.Filled) :
    ∃ t, SuperNodeTree.new L = .ok t ∧ SnTreeOk L t := by
  obtain ⟨parent, children, post, children', degree, h1, h2, h3, h4, hpar, hp, hdsz, hd, hdpos,
    hpnd, hplt, hpw, hpall, hlast⟩ := sntree_front_full h
  obtain ⟨snode, sparent, hfs, hsn, hsp⟩ :=
    find_supernodes_parent_spec hpar hdsz hdpos hpnd hplt hpw hpall hlast
  have hso := hsn.snodeOf h hpar hp hd
  have hsep := find_separators_spec h snode (fun sn hs => ⟨hsn.nonempty sn hs, hsn.lt sn hs⟩)
  have hcov : SnCover L snode (snode.map (sepOf L)) := ⟨rfl, hsn.partition, hso, hsn.nodup⟩
  have hn := h.n_pos
  have hnsm := h.n_small
  have hle := hsp.size_le
  have hlt_np : inactiveNode < noParent := by decide
  have hssmall : sparent.size < noParent := by rw [hsp.size_eq]; omega
  obtain ⟨sc, hcf, hch⟩ := children_from_parent_spec sparent hsp.wf hssmall
  -- the root clique
  have hmem : L.n - 1 ∈ snode.toList.flatMap (fun sn => sn.toList) :=
    hsn.partition.mem_iff.2 (List.mem_range.2 (by omega))
  obtain ⟨sn, hsnm, hxs⟩ := List.mem_flatMap.1 hmem
  obtain ⟨r, hr, er⟩ := List.getElem_of_mem hsnm
  have hr' : r < snode.size := by simpa using hr
  have er' : snode.getD r #[] = sn := by
    rw [← er]; simp [Array.getD_eq_getD_getElem?, hr']
  have hrm : L.n - 1 ∈ (snode.getD r #[]).toList := by rw [er']; exact hxs
  have hrp : sparent.getD r 0 = noParent := hsp.root r hr' hrm
  have hct0 := ctinv_of_snparent h hp post #[] hcov hsp hch
  have hlive : ∀ c, c < snode.size → Live (mkSnTree L snode #[] sparent sc post) c := by
    intro c hc
    refine ⟨by show c < sparent.size; rw [hsp.size_eq]; exact hc, ?_⟩
    show sparent.getD c 0 ≠ inactiveNode
    rcases hsp.wf c (by rw [hsp.size_eq]; exact hc) with e | e
    · rw [e]; decide
    · rw [hsp.size_eq] at e; omega
  have huniq : ∀ c, Live (mkSnTree L snode #[] sparent sc post) c →
      (mkSnTree L snode #[] sparent sc post).snodeParent.getD c 0 = noParent → c = r := by
    intro c hl hc
    have hcs : c < snode.size := hct0.sz_par ▸ hl.1
    have hm := hsp.mem_of_root hnsm hcs hc
    by_contra hne
    exact hct0.sn_disj c r hl (hlive r hr') hne _ hm hrm
  have hreach := hct0.reaches_root huniq
  obtain ⟨r1, hfind, hr1, hr1p⟩ := pcl_findIdx_root sparent (by rw [hsp.size_eq]; exact hr') hrp
  have er1 : r1 = r := huniq r1 (hlive r1 (by rw [← hsp.size_eq]; exact hr1)) hr1p
  subst er1
  obtain ⟨spost, sc', hpo, hsnd, hslt, hssz, hch', hssub, hsall⟩ :=
    post_order_spec_full sparent sc r1 hch hssmall hr1 hfind
  have hsall' : ∀ c, c < snode.size → c ∈ spost.toList := fun c hc => hsall c (hreach c (hlive c hc))
  have hperm : spost.toList.Perm (List.range snode.size) :=
    perm_range_of_nodup_lt hsnd (fun c hc => by rw [← hsp.size_eq]; exact hslt c hc)
      (by rw [Array.length_toList, hssz, hsp.size_eq])
  have hbefore : ∀ c, c < snode.size → sparent.getD c 0 ≠ noParent →
      List.Sublist [c, sparent.getD c 0] spost.toList := by
    intro c hc hnp
    have hpl := hct0.par_live c (hlive c hc) hnp
    have hps : sparent.getD c 0 < snode.size := hct0.sz_par ▸ hpl.1
    exact hssub c _ (hsall' c hc) (hsall' _ hps) (hreach c (hlive c hc))
      (fun e => hnp (e ▸ hrp)) rfl
  have hslast : spost.toList.getLast? = some r1 := by
    refine pcl_last_of_sublist hsnd (hsall' r1 hr') ?_
    intro c hc hcr
    have hcs : c < snode.size := by rw [← hsp.size_eq]; exact hslt c hc
    exact ⟨_, hbefore c hcs (fun e => hcr (huniq c (hlive c hcs) e))⟩
  have hssz' : spost.size = snode.size := hssz.trans hsp.size_eq
  have hgetlast : spost.getD (snode.size - 1) 0 = r1 := by
    have hpos : snode.size - 1 < spost.size := by omega
    rw [pcl_getD_eq_toList hpos]
    rw [List.getLast?_eq_getElem?] at hslast
    have : spost.toList.length - 1 = snode.size - 1 := by simp [hssz']
    rw [this] at hslast
    have h' := List.getElem?_eq_some_iff.1 hslast
    obtain ⟨_, e⟩ := h'
    exact e
  refine ⟨mkSnTree L snode spost sparent sc' post, ?_, ?_⟩
  · unfold SuperNodeTree.new
    rw [h1, ok_bind', h2, ok_bind', h3, ok_bind']
    simp only []
    rw [h4, ok_bind', hfs, ok_bind']
    simp only []
    rw [hcf, ok_bind', hpo, ok_bind']
    simp only []
    rw [hsep, ok_bind']
    rfl
  · have hct : CTInv (mkSnTree L snode spost sparent sc' post)
        (fun c => maxOf (snode.getD c #[])) := hct0.with_children spost sc' hch'
    have hperm_post : post.toList.Perm (List.range L.n) :=
      perm_range_of_nodup_lt hpnd hplt (by
        have h' := List.nodup_range.length_le_of_subset
          (fun v hv => hpall v (List.mem_range.1 hv))
        simpa using h')
    refine
      { cover := hcov
        ct := hct
        pos := by show 0 < snode.size; omega
        all_live := fun c hc => hlive c hc
        post_perm := hperm
        post_before := hbefore
        nonroot := ?_
        root_last := by
          show sparent.getD (spost.getD (snode.size - 1) 0) 0 = noParent
          rw [hgetlast]; exact hrp
        root_mem := by
          show L.n - 1 ∈ (snode.getD (spost.getD (snode.size - 1) 0) #[]).toList
          rw [hgetlast]; exact hrm
        up := ?_
        ncl := rfl
        nblk := rfl
        vpost_perm := hperm_post }
    · intro j hj
      show sparent.getD (spost.getD j 0) 0 ≠ noParent
      have hj' : j + 1 < snode.size := hj
      intro e
      have hjs : j < spost.size := by omega
      have hc : spost.getD j 0 < snode.size := by
        rw [pcl_getD_eq_toList hjs, ← hsp.size_eq]
        exact hslt _ (List.getElem_mem _)
      have := huniq _ (hlive _ hc) e
      rw [← hgetlast] at this
      exact pcl_getD_ne_of_nodup hsnd hjs (by omega) (by omega) this
    · intro c hc hnp
      have hc' : c < snode.size := hc
      have hnp' : sparent.getD c 0 ≠ noParent := hnp
      have hm : L.n - 1 ∉ (snode.getD c #[]).toList := fun hm => hnp' (hsp.root c hc' hm)
      obtain ⟨w, a1, a2, a3, _, _, a6⟩ := hsp.up c hc' hm
      exact ⟨w, a1, a2, a3, by rw [← hp w a3]; exact a6⟩

/-! ### the tail of `SparsityPattern::new`: relabelling and block sizes -/

/-- the state in which `SparsityPattern::new` calls `reorder_snode_consecutively`: a clique tree on
the vertices `0..n` whose post-order lists exactly the live cliques -/
structure PreReorder (n : Nat) (t : SuperNodeTree) (ord : Nat → Nat) : Prop where
  ct : CTInv t ord
  post_nodup : t.snodePost.toList.Nodup
  post_live : ∀ c, c ∈ t.snodePost.toList ↔ Live t c
  post_size : t.snodePost.size = t.nCliques
  vpost_size : t.post.size = n
  /-- the supernodes of the live cliques cover exactly `0..n` -/
  part : ∀ v, v < n ↔ ∃ c, Live t c ∧ v ∈ (t.snode.getD c #[]).toList
  sep_lt : ∀ c, Live t c → ∀ x ∈ (t.separators.getD c #[]).toList, x < n

/-- [S] **relabelling and block sizes**: from a state satisfying `PreReorder` and an `ordering`
that is a permutation of `0..n`, `reorder_snode_consecutively` and `calculate_block_dimensions`
do not panic; the relabelling is described by `ReorderSpec`, the new ordering is a permutation,
and `nblk[i] = |separator| + |supernode|` of the `i`-th clique of the post-order. -/
theorem PreReorder.finish {n : Nat} {t : SuperNodeTree} {ord : Nat → Nat} (h : PreReorder n t ord)
    (ordering : Array Nat) (ho : ordering.toList.Perm (List.range n)) :
    ∃ (tR : SuperNodeTree) (ord' p q nb : Array Nat),
      t.reorderSnodeConsecutively ordering = .ok (tR, ord') ∧
      ReorderSpec t ordering tR ord' p q ∧
      tR.calculateBlockDimensions = .ok { tR with nblk := some nb } ∧
      ord'.toList.Perm (List.range n) ∧ nb.size = t.nCliques ∧
      ∀ i, i < t.nCliques → nb.getD i 0 =
        (tR.separators.getD (t.snodePost.getD i 0) #[]).size +
        (tR.snode.getD (t.snodePost.getD i 0) #[]).size := by
  have hct := h.ct
  have hosz : ordering.size = t.post.size := by
    rw [h.vpost_size]; simpa using ho.length_eq
  have hlt : ∀ c ∈ t.snodePost.toList, c < t.snode.size :=
    fun c hc => hct.sz_par ▸ ((h.post_live c).1 hc).1
  have hpart : (t.snodePost.toList.flatMap (fun c => (t.snode.getD c #[]).toList)).Perm
      (List.range t.post.size) := by
    rw [h.vpost_size, List.perm_ext_iff_of_nodup _ List.nodup_range]
    · intro v
      rw [List.mem_range, h.part v, List.mem_flatMap]
      constructor
      · rintro ⟨c, hc, hv⟩; exact ⟨c, (h.post_live c).1 hc, hv⟩
      · rintro ⟨c, hc, hv⟩; exact ⟨c, (h.post_live c).2 hc, hv⟩
    · rw [List.nodup_flatMap]
      refine ⟨fun c hc => hct.sn_nodup c ((h.post_live c).1 hc), ?_⟩
      refine List.Pairwise.imp_of_mem ?_ h.post_nodup
      intro a b ha hb hab
      show List.Disjoint _ _
      intro v hva hvb
      exact hct.sn_disj a b ((h.post_live a).1 ha) ((h.post_live b).1 hb) hab v hva hvb
  have hsepc : ∀ sp ∈ t.separators.toList, ∃ c, c < t.separators.size ∧
      sp = t.separators.getD c #[] := by
    intro sp hsp
    obtain ⟨c, hc, e⟩ := List.getElem_of_mem hsp
    have hc' : c < t.separators.size := by simpa using hc
    exact ⟨c, hc', by rw [← e]; simp [Array.getD_eq_getD_getElem?, hc']⟩
  have hsep : ∀ sp ∈ t.separators.toList, ∀ x ∈ sp.toList, x < t.post.size := by
    intro sp hsp x hx
    obtain ⟨c, hc, e⟩ := hsepc sp hsp
    rw [h.vpost_size]
    by_cases hl : Live t c
    · exact h.sep_lt c hl x (e ▸ hx)
    · rw [e, hct.dead_sep c hl] at hx; simp at hx
  have hsepnd : ∀ sp ∈ t.separators.toList, sp.toList.Nodup := by
    intro sp hsp
    obtain ⟨c, hc, e⟩ := hsepc sp hsp
    by_cases hl : Live t c
    · rw [e]; exact hct.sep_nodup c hl
    · rw [e, hct.dead_sep c hl]; simp
  obtain ⟨tR, ord', p, q, hrun, hs⟩ :=
    reorder_spec_of_nodup t ordering hosz h.post_nodup hlt hpart hsep hsepnd
  have e1 : tR.nCliques = t.nCliques := congrArg (·.nCliques) hs.others
  have e2 : tR.snodePost = t.snodePost := congrArg (·.snodePost) hs.others
  obtain ⟨nb, hnb, hnbsz, hnbget⟩ := block_dimensions_spec tR
    (by rw [e1, e2, h.post_size])
    (by
      intro i hi
      rw [e1] at hi
      rw [e2, hs.snode_size, hs.sep_size, hct.sz_sep]
      have hi' : i < t.snodePost.size := by rw [h.post_size]; exact hi
      have : t.snodePost.getD i 0 ∈ t.snodePost.toList := by
        rw [pcl_getD_eq_toList hi']; exact List.getElem_mem _
      exact ⟨hlt _ this, hlt _ this⟩)
  refine ⟨tR, ord', p, q, nb, hrun, hs, hnb, ?_, by rw [hnbsz, e1], ?_⟩
  · have := hs.ord_perm_range (by rw [h.vpost_size]; exact ho)
    rwa [h.vpost_size] at this
  · intro i hi
    have := hnbget i (by rw [e1]; exact hi)
    rw [e2] at this
    exact this

/-- [S] the tree returned by `SuperNodeTree::new` on a filled pattern is ready for the relabelling -/
theorem SnTreeOk.preReorder {L : LPat} {t : SuperNodeTree} (hf : L.Filled) (h : SnTreeOk L t) :
    PreReorder L.n t (fun c => maxOf (t.snode.getD c #[])) where
  ct := h.ct
  post_nodup := h.post_perm.nodup_iff.2 List.nodup_range
  post_live := by
    intro c
    rw [h.post_perm.mem_iff, List.mem_range]
    exact ⟨h.all_live c, fun hl => h.ct.sz_par ▸ hl.1⟩
  post_size := by rw [h.ncl]; simpa using h.post_perm.length_eq
  vpost_size := by simpa using h.vpost_perm.length_eq
  part := by
    intro v
    rw [← List.mem_range, ← h.cover.partition.mem_iff, List.mem_flatMap]
    constructor
    · rintro ⟨sn, hsn, hv⟩
      obtain ⟨c, hc, e⟩ := List.getElem_of_mem hsn
      have hc' : c < t.snode.size := by simpa using hc
      refine ⟨c, h.all_live c hc', ?_⟩
      have : t.snode.getD c #[] = sn := by rw [← e]; simp [Array.getD_eq_getD_getElem?, hc']
      rw [this]; exact hv
    · rintro ⟨c, hl, hv⟩
      exact ⟨_, snp_getD_mem_toList t.snode #[] (h.ct.sz_par ▸ hl.1), hv⟩
  sep_lt := by
    intro c hl x hx
    have hc : c < t.snode.size := h.ct.sz_par ▸ hl.1
    have hso := h.cover.snode_of _ (snp_getD_mem_toList t.snode #[] hc)
    have hx' := ((h.cover.sep_spec c hc).2 x).1 hx
    exact (hf.lower _ (hso.lt _ hso.rep_mem) x hx'.1).2

/-- the tail of `SparsityPattern::new` after the merge -/
def spTail (t : SuperNodeTree) (ordering : Array Nat) : MErr (SuperNodeTree × Array Nat) := do
  let (t, ordering) ← t.reorderSnodeConsecutively ordering
  let t ← t.calculateBlockDimensions
  pure (t, ordering)

/-- [S] `SparsityPattern::new` with `merge_method = "none"` -/
theorem sparsityPatternNew_none (L : LPat) (ordering : Array Nat) {t0 : SuperNodeTree}
    (hnew : SuperNodeTree.new L = .ok t0) :
    sparsityPatternNew L ordering "none" = spTail t0 ordering := by
  unfold sparsityPatternNew
  rw [hnew, ok_bind']
  show (if t0.nCliques > 1 then _ else _) = _
  split <;> rfl

/-- [S] `SparsityPattern::new` with `merge_method = "parent_child"` -/
theorem sparsityPatternNew_pc (L : LPat) (ordering : Array Nat) {t0 : SuperNodeTree}
    (hnew : SuperNodeTree.new L = .ok t0) :
    sparsityPatternNew L ordering "parent_child" =
      if t0.nCliques > 1 then PCStrategy.mergeCliques t0 >>= (fun t => spTail t ordering)
      else spTail t0 ordering := by
  unfold sparsityPatternNew
  rw [hnew, ok_bind']
  show (if t0.nCliques > 1 then _ else _) = _
  split <;> rfl

/-- [S] the tail of `SparsityPattern::new`, given the results of its two steps -/
theorem spTail_ok {t tR : SuperNodeTree} {ordering ord' nb : Array Nat}
    (hre : t.reorderSnodeConsecutively ordering = .ok (tR, ord'))
    (hbd : tR.calculateBlockDimensions = .ok { tR with nblk := some nb }) :
    spTail t ordering = .ok ({ tR with nblk := some nb }, ord') := by
  unfold spTail
  rw [hre, ok_bind']
  simp only []
  rw [hbd, ok_bind']
  rfl

/-- [S] **THE ANALYSIS WITHOUT MERGING**, end to end: for a filled pattern `L` and an `ordering`
that is a permutation of `0..n`, `SparsityPattern::new` with `merge_method = "none"` does not
panic.  `t0 = SuperNodeTree::new(L)` is a valid clique tree (`SnTreeOk`: coverage of every
structural non-zero, `CTInv` hence separator = clique ∩ parent clique and running intersection);
the result is `t0` relabelled by `reorder_snode_consecutively` (`ReorderSpec`, stated for the
tree BEFORE the relabelling) with `nblk[i] = |separator| + |supernode|` of the `i`-th clique in
post-order, and the returned ordering is a permutation of `0..n`. -/
theorem analysis_none_spec {L : LPat} (h : L.Filled) (ordering : Array Nat)
    (ho : ordering.toList.Perm (List.range L.n)) :
    ∃ (t0 tR : SuperNodeTree) (ord' p q nb : Array Nat),
      SuperNodeTree.new L = .ok t0 ∧ SnTreeOk L t0 ∧
      sparsityPatternNew L ordering "none" = .ok ({ tR with nblk := some nb }, ord') ∧
      ReorderSpec t0 ordering tR ord' p q ∧ ord'.toList.Perm (List.range L.n) ∧
      nb.size = t0.nCliques ∧
      ∀ i, i < t0.nCliques → nb.getD i 0 =
        (tR.separators.getD (t0.snodePost.getD i 0) #[]).size +
        (tR.snode.getD (t0.snodePost.getD i 0) #[]).size := by
  obtain ⟨t0, hnew, hok⟩ := sntree_new_ok h
  obtain ⟨tR, ord', p, q, nb, hre, hs, hbd, hperm, hnbsz, hnb⟩ :=
    (hok.preReorder h).finish ordering ho
  refine ⟨t0, tR, ord', p, q, nb, hnew, hok, ?_, hs, hperm, hnbsz, hnb⟩
  rw [sparsityPatternNew_none L ordering hnew]
  exact spTail_ok hre hbd

/-- [S] the merged tree is ready for the relabelling -/
theorem preReorder_of_merge {L : LPat} {t0 : SuperNodeTree} (hf : L.Filled) (hok : SnTreeOk L t0)
    (h2 : 2 ≤ t0.snode.size) :
    ∃ t' post ch', PCStrategy.mergeCliques t0 =
        .ok { t' with snodePost := post, snodeChildren := ch' } ∧
      PCLoopRel t0 t' ∧
      PreReorder L.n { t' with snodePost := post, snodeChildren := ch' }
        (fun c => maxOf (t0.snode.getD c #[])) ∧
      (∀ c, Live t' c → t'.snodeParent.getD c 0 ≠ noParent →
        List.Sublist [c, t'.snodeParent.getD c 0] post.toList) ∧
      post.toList.getLast? = some (t0.snodePost.getD (t0.snode.size - 1) 0) := by
  obtain ⟨t', post, ch', _, hmc, hct', hrel, hncl, hct'', hnd, hsz, hmem, hbefore, _, _, hlast⟩ :=
    PCStrategy.merge_cliques_pc_spec (hok.pcinit h2)
  have hpre0 := hok.preReorder hf
  have hverts_lt : ∀ c v, Live t' c → v ∈ cliqueList t' c → v < L.n := by
    intro c v hl hv
    obtain ⟨c0, hl0, hv0⟩ := hrel.verts c v hl hv
    unfold cliqueList at hv0
    rcases List.mem_append.1 hv0 with hv0 | hv0
    · exact (hpre0.part v).2 ⟨c0, hl0, hv0⟩
    · exact hpre0.sep_lt c0 hl0 v hv0
  refine ⟨t', post, ch', hmc, hrel, ?_, hbefore, hlast⟩
  refine
    { ct := hct''
      post_nodup := hnd
      post_live := hmem
      post_size := hsz
      vpost_size := by
        show t'.post.size = L.n
        rw [hrel.post_eq]; exact hpre0.vpost_size
      part := ?_
      sep_lt := fun c hl x hx => hverts_lt c x hl (List.mem_append_right _ hx) }
  intro v
  constructor
  · intro hv
    obtain ⟨c0, hl0, hv0⟩ := (hpre0.part v).1 hv
    obtain ⟨c1, hl1, hc1⟩ := hrel.cover c0 hl0
    obtain ⟨b, hb⟩ := hct'.climb_exists v c1 hl1 (hc1 v (List.mem_append_left _ hv0))
    obtain ⟨hlb, hvb⟩ := hb.top_spec
    exact ⟨b, hlb, hvb⟩
  · rintro ⟨c, hl, hv⟩
    exact hverts_lt c v hl (List.mem_append_left _ hv)

/-- [S] **THE ANALYSIS WITH THE PARENT–CHILD MERGE**, end to end: for a filled pattern `L` and an
`ordering` that is a permutation of `0..n`, `SparsityPattern::new` with
`merge_method = "parent_child"` does not panic.  `t0 = SuperNodeTree::new(L)` is a valid clique
tree (`SnTreeOk`); `t1` is the tree after `merge_cliques` (equal to `t0` when there is a single
clique): it satisfies the clique-tree invariant (`PreReorder.ct`, hence separator = clique ∩
parent clique and running intersection), its post-order lists exactly the live cliques, and every
clique of `t0` — hence every structural non-zero of `L` — lies inside a live clique of `t1`; the
result is `t1` relabelled by `reorder_snode_consecutively` (`ReorderSpec`, stated for the tree
BEFORE the relabelling) with `nblk[i] = |separator| + |supernode|` of the `i`-th clique in
post-order, and the returned ordering is a permutation of `0..n`. -/
theorem analysis_pc_spec {L : LPat} (h : L.Filled) (ordering : Array Nat)
    (ho : ordering.toList.Perm (List.range L.n)) :
    ∃ (t0 t1 tR : SuperNodeTree) (ord' p q nb : Array Nat),
      SuperNodeTree.new L = .ok t0 ∧ SnTreeOk L t0 ∧
      PreReorder L.n t1 (fun c => maxOf (t0.snode.getD c #[])) ∧
      (∀ c, Live t0 c → ∃ c', Live t1 c' ∧ ∀ v ∈ cliqueList t0 c, v ∈ cliqueList t1 c') ∧
      (∀ c' v, Live t1 c' → v ∈ cliqueList t1 c' → ∃ c, Live t0 c ∧ v ∈ cliqueList t0 c) ∧
      sparsityPatternNew L ordering "parent_child" = .ok ({ tR with nblk := some nb }, ord') ∧
      ReorderSpec t1 ordering tR ord' p q ∧ ord'.toList.Perm (List.range L.n) ∧
      nb.size = t1.nCliques ∧
      ∀ i, i < t1.nCliques → nb.getD i 0 =
        (tR.separators.getD (t1.snodePost.getD i 0) #[]).size +
        (tR.snode.getD (t1.snodePost.getD i 0) #[]).size := by
  obtain ⟨t0, hnew, hok⟩ := sntree_new_ok h
  by_cases h2 : t0.nCliques > 1
  · obtain ⟨t', post, ch', hmc, hrel, hpre, _, _⟩ :=
      preReorder_of_merge h hok (by rw [← hok.ncl]; omega)
    obtain ⟨tR, ord', p, q, nb, hre, hs, hbd, hperm, hnbsz, hnb⟩ := hpre.finish ordering ho
    refine ⟨t0, _, tR, ord', p, q, nb, hnew, hok, hpre, hrel.cover, hrel.verts, ?_, hs, hperm,
      hnbsz, hnb⟩
    rw [sparsityPatternNew_pc L ordering hnew, if_pos h2, hmc, ok_bind']
    exact spTail_ok hre hbd
  · obtain ⟨tR, ord', p, q, nb, hre, hs, hbd, hperm, hnbsz, hnb⟩ :=
      (hok.preReorder h).finish ordering ho
    refine ⟨t0, t0, tR, ord', p, q, nb, hnew, hok, hok.preReorder h,
      fun c hl => ⟨c, hl, fun _ hv => hv⟩, fun c v hl hv => ⟨c, hl, hv⟩, ?_, hs, hperm, hnbsz, hnb⟩
    rw [sparsityPatternNew_pc L ordering hnew, if_neg h2]
    exact spTail_ok hre hbd

/-! ### the clique tree after the relabelling -/

/-- [S] the entries of a `flatMap`, block by block -/
theorem flatMap_getElem?_block (f : Nat → List Nat) : ∀ (i : Nat) (l : List Nat) (hi : i < l.length)
    (j : Nat), j < (f l[i]).length →
    (l.flatMap f)[((l.take i).map (fun c => (f c).length)).sum + j]? = (f l[i])[j]? := by
  intro i
  induction i with
  | zero =>
    intro l hi j hj
    cases l with
    | nil => simp at hi
    | cons c l' =>
      simp only [List.take_zero, List.map_nil, List.sum_nil, Nat.zero_add, List.flatMap_cons,
        List.getElem_cons_zero] at hj ⊢
      exact List.getElem?_append_left hj
  | succ i ih =>
    intro l hi j hj
    cases l with
    | nil => simp at hi
    | cons c l' =>
      have hi' : i < l'.length := by simpa using hi
      simp only [List.getElem_cons_succ] at hj
      simp only [List.take_succ_cons, List.map_cons, List.sum_cons, List.flatMap_cons,
        List.getElem_cons_succ]
      rw [List.getElem?_append_right (by omega)]
      have : (f c).length + ((l'.take i).map (fun c => (f c).length)).sum + j - (f c).length =
          ((l'.take i).map (fun c => (f c).length)).sum + j := by omega
      rw [this]
      exact ih l' hi' j hj

/-- [S] reading an array through its list -/
theorem snp_getD_of_getElem? {xs : Array Nat} {i x : Nat} (h : xs.toList[i]? = some x) :
    i < xs.size ∧ xs.getD i 0 = x := by
  obtain ⟨hi, e⟩ := List.getElem?_eq_some_iff.1 h
  have hi' : i < xs.size := by simpa using hi
  exact ⟨hi', by rw [pcl_getD_eq_toList hi']; exact e⟩

/-- [S] **the relabelled supernodes**: after `reorder_snode_consecutively` the supernode of a
clique listed in the post-order is the image of the old supernode under the relabelling `q` -/
theorem ReorderSpec.snode_mem {t : SuperNodeTree} {ordering : Array Nat} {t' : SuperNodeTree}
    {ord' p q : Array Nat} (h : ReorderSpec t ordering t' ord' p q) :
    ∀ c ∈ t.snodePost.toList, ∀ w, w ∈ (t'.snode.getD c #[]).toList ↔
      ∃ x ∈ (t.snode.getD c #[]).toList, w = q.getD x 0 := by
  intro c hc w
  obtain ⟨i, hi, ei⟩ := List.getElem_of_mem hc
  have hi' : i < t.snodePost.size := by simpa using hi
  have ec : t.snodePost.getD i 0 = c := by rw [pcl_getD_eq_toList hi']; exact ei
  have hpsz : p.size = t.post.size := by simpa using h.p_perm.length_eq
  have hlen : ∀ c, ((t.snode.getD c #[]).sort).toList.length = (t.snode.getD c #[]).size := by
    intro c
    have := (VSet.sort_perm (t.snode.getD c #[])).length_eq
    simpa using this
  have hblock : ∀ j, j < (t.snode.getD c #[]).size →
      p.toList[((t.snodePost.toList.take i).map (fun c => (t.snode.getD c #[]).size)).sum + j]? =
        ((t.snode.getD c #[]).sort).toList[j]? := by
    intro j hj
    have := flatMap_getElem?_block (fun c => ((t.snode.getD c #[]).sort).toList) i
      t.snodePost.toList hi j (by rw [ei, hlen]; exact hj)
    rw [← h.p_eq, ei] at this
    simp only [hlen] at this
    exact this
  have hnew := h.snode_listed i hi'
  rw [ec] at hnew
  rw [hnew]
  simp only [List.mem_range'_1]
  generalize ((t.snodePost.toList.take i).map (fun c => (t.snode.getD c #[]).size)).sum = K
    at hblock
  constructor
  · rintro ⟨h1, h2⟩
    obtain ⟨j, rfl⟩ : ∃ j, w = K + j := ⟨w - K, by omega⟩
    have hj : j < (t.snode.getD c #[]).size := by omega
    have hj' : j < ((t.snode.getD c #[]).sort).toList.length := by rw [hlen]; exact hj
    have hb := hblock j hj
    rw [List.getElem?_eq_getElem hj'] at hb
    obtain ⟨hw, hpw⟩ := snp_getD_of_getElem? hb
    refine ⟨_, (VSet.mem_sort _ _).1 (List.getElem_mem hj'), ?_⟩
    rw [← hpw, h.q_p _ (by omega)]
  · rintro ⟨x, hx, rfl⟩
    have hx' : x ∈ ((t.snode.getD c #[]).sort).toList := (VSet.mem_sort _ _).2 hx
    obtain ⟨j, hj', ej⟩ := List.getElem_of_mem hx'
    have hj : j < (t.snode.getD c #[]).size := by rw [← hlen]; exact hj'
    have hb := hblock j hj
    rw [List.getElem?_eq_getElem hj', ej] at hb
    obtain ⟨hw, hpw⟩ := snp_getD_of_getElem? hb
    rw [← hpw, h.q_p _ (by omega)]
    omega

/-- [S] **THE RELABELLED TREE IS A CLIQUE TREE**: `reorder_snode_consecutively` applied to a state
satisfying `PreReorder` keeps the clique-tree invariant (same rank function), keeps the live
cliques, and maps the vertex set of every live clique by the relabelling `q`
(`new label = q[old label]`, a bijection of `0..n`). -/
theorem ReorderSpec.ctinv {n : Nat} {t : SuperNodeTree} {ord : Nat → Nat} {ordering : Array Nat}
    {t' : SuperNodeTree} {ord' p q : Array Nat} (hp : PreReorder n t ord)
    (h : ReorderSpec t ordering t' ord' p q) :
    CTInv t' ord ∧ (∀ c, Live t' c ↔ Live t c) ∧
    (∀ c, Live t c → ∀ w, w ∈ (t'.snode.getD c #[]).toList ↔
      ∃ x ∈ (t.snode.getD c #[]).toList, w = q.getD x 0) ∧
    (∀ c, Live t c → ∀ w, w ∈ (t'.separators.getD c #[]).toList ↔
      ∃ x ∈ (t.separators.getD c #[]).toList, w = q.getD x 0) ∧
    (∀ c, Live t c → ∀ w, w ∈ cliqueList t' c ↔ ∃ x ∈ cliqueList t c, w = q.getD x 0) := by
  have hct := hp.ct
  have e_par : t'.snodeParent = t.snodeParent := congrArg (·.snodeParent) h.others
  have e_ch : t'.snodeChildren = t.snodeChildren := congrArg (·.snodeChildren) h.others
  have hlive : ∀ c, Live t' c ↔ Live t c := by
    intro c; unfold Live; rw [e_par]
  have hcs : ∀ c, Live t c → c < t.snode.size := fun c hl => hct.sz_par ▸ hl.1
  have hsn : ∀ c, Live t c → ∀ w, w ∈ (t'.snode.getD c #[]).toList ↔
      ∃ x ∈ (t.snode.getD c #[]).toList, w = q.getD x 0 :=
    fun c hl => h.snode_mem c ((hp.post_live c).2 hl)
  have hsp : ∀ c, Live t c → ∀ w, w ∈ (t'.separators.getD c #[]).toList ↔
      ∃ x ∈ (t.separators.getD c #[]).toList, w = q.getD x 0 :=
    fun c hl w => h.sep_mem c w (by rw [hct.sz_sep]; exact hcs c hl)
  have hcl : ∀ c, Live t c → ∀ w, w ∈ cliqueList t' c ↔ ∃ x ∈ cliqueList t c, w = q.getD x 0 := by
    intro c hl w
    unfold cliqueList
    rw [List.mem_append, hsn c hl, hsp c hl]
    constructor
    · rintro (⟨x, hx, e⟩ | ⟨x, hx, e⟩)
      · exact ⟨x, List.mem_append_left _ hx, e⟩
      · exact ⟨x, List.mem_append_right _ hx, e⟩
    · rintro ⟨x, hx, e⟩
      rcases List.mem_append.1 hx with hx | hx
      · exact Or.inl ⟨x, hx, e⟩
      · exact Or.inr ⟨x, hx, e⟩
  have hvlt : ∀ c, Live t c → ∀ x ∈ (t.snode.getD c #[]).toList, x < t.post.size := by
    intro c hl x hx
    rw [hp.vpost_size]
    exact (hp.part x).2 ⟨c, hl, hx⟩
  have hqinj : ∀ x y, x < t.post.size → y < t.post.size → q.getD x 0 = q.getD y 0 → x = y := by
    intro x y hx hy e
    have h1 := h.p_q x hx
    have h2 := h.p_q y hy
    rw [e] at h1
    omega
  refine ⟨?_, hlive, hsn, hsp, hcl⟩
  refine
    { sz_sep := by rw [h.sep_size, h.snode_size]; exact hct.sz_sep
      sz_par := by rw [e_par, h.snode_size]; exact hct.sz_par
      sz_ch := by rw [e_ch, h.snode_size]; exact hct.sz_ch
      small := by rw [h.snode_size]; exact hct.small
      par_live := ?_
      ch_iff := ?_
      ch_nodup := by
        intro c hc
        rw [e_ch]; rw [h.snode_size] at hc
        exact hct.ch_nodup c hc
      sep_sub := ?_
      sn_nodup := ?_
      sep_nodup := fun c hl =>
        h.sep_nodup c (by rw [hct.sz_sep]; exact hcs c ((hlive c).1 hl))
      sn_disj := ?_
      ord_lt := ?_
      root_sep := ?_
      dead_snode := ?_
      dead_sep := ?_
      dead_ch := ?_ }
  · intro c hl hnp
    rw [e_par] at hnp ⊢
    exact (hlive _).2 (hct.par_live c ((hlive c).1 hl) hnp)
  · intro p' c hl
    rw [e_ch, e_par, hlive c]
    exact hct.ch_iff p' c ((hlive p').1 hl)
  · intro c hl hnp w hw
    rw [e_par] at hnp ⊢
    have hl0 := (hlive c).1 hl
    obtain ⟨x, hx, e⟩ := (hsp c hl0 w).1 hw
    exact (hcl _ (hct.par_live c hl0 hnp) w).2 ⟨x, hct.sep_sub c hl0 hnp x hx, e⟩
  · intro c hl
    have hl0 := (hlive c).1 hl
    obtain ⟨i, hi, ei⟩ := List.getElem_of_mem ((hp.post_live c).2 hl0)
    have hi' : i < t.snodePost.size := by simpa using hi
    have ec : t.snodePost.getD i 0 = c := by rw [pcl_getD_eq_toList hi']; exact ei
    have := h.snode_listed i hi'
    rw [ec] at this
    rw [this]
    exact List.nodup_range'
  · intro a b hla hlb hab w hwa hwb
    have hla0 := (hlive a).1 hla
    have hlb0 := (hlive b).1 hlb
    obtain ⟨x, hx, e1⟩ := (hsn a hla0 w).1 hwa
    obtain ⟨y, hy, e2⟩ := (hsn b hlb0 w).1 hwb
    have := hqinj x y (hvlt a hla0 x hx) (hvlt b hlb0 y hy) (e1.symm.trans e2)
    subst this
    exact hct.sn_disj a b hla0 hlb0 hab x hx hy
  · intro c hl hnp
    rw [e_par] at hnp ⊢
    exact hct.ord_lt c ((hlive c).1 hl) hnp
  · intro c hl hr
    rw [e_par] at hr
    have hl0 := (hlive c).1 hl
    have := hct.root_sep c hl0 hr
    have hnone : (t'.separators.getD c #[]).toList = [] := by
      rw [List.eq_nil_iff_forall_not_mem]
      intro w hw
      obtain ⟨x, hx, _⟩ := (hsp c hl0 w).1 hw
      rw [this] at hx
      simp at hx
    exact Array.toList_eq_nil_iff.1 hnone
  · intro c hl
    have hl0 : ¬ Live t c := fun hl0 => hl ((hlive c).2 hl0)
    rw [h.snode_other c (fun hc => hl0 ((hp.post_live c).1 hc))]
    exact hct.dead_snode c hl0
  · intro c hl
    have hl0 : ¬ Live t c := fun hl0 => hl ((hlive c).2 hl0)
    by_cases hc : c < t.separators.size
    · have hnone : (t'.separators.getD c #[]).toList = [] := by
        rw [List.eq_nil_iff_forall_not_mem]
        intro w hw
        obtain ⟨x, hx, _⟩ := (h.sep_mem c w hc).1 hw
        rw [hct.dead_sep c hl0] at hx
        simp at hx
      exact Array.toList_eq_nil_iff.1 hnone
    · exact pcl_getD_oob _ _ _ (by rw [h.sep_size]; exact hc)
  · intro c hl
    have hl0 : ¬ Live t c := fun hl0 => hl ((hlive c).2 hl0)
    rw [e_ch]
    exact hct.dead_ch c hl0

/-- [S] filling in `nblk` does not touch the clique tree -/
theorem CTInv.with_nblk {t : SuperNodeTree} {ord : Nat → Nat} (h : CTInv t ord)
    (nb : Option (Array Nat)) : CTInv { t with nblk := nb } ord where
  sz_sep := h.sz_sep
  sz_par := h.sz_par
  sz_ch := h.sz_ch
  small := h.small
  par_live := h.par_live
  ch_iff := h.ch_iff
  ch_nodup := h.ch_nodup
  sep_sub := h.sep_sub
  sn_nodup := h.sn_nodup
  sep_nodup := h.sep_nodup
  sn_disj := h.sn_disj
  ord_lt := h.ord_lt
  root_sep := h.root_sep
  dead_snode := h.dead_snode
  dead_sep := h.dead_sep
  dead_ch := h.dead_ch

/-- what `SparsityPattern::new` returns, relative to the clique tree `t1` before the relabelling:
`tf` is a clique tree on the new labels `q[old label]` -/
structure AnalysisOk (n : Nat) (t1 : SuperNodeTree) (q : Array Nat) (tf : SuperNodeTree)
    (ord : Nat → Nat) : Prop where
  /-- the clique-tree invariant (hence separator = clique ∩ parent clique, running intersection) -/
  ct : CTInv tf ord
  /-- the relabelling is a permutation of `0..n` -/
  q_perm : q.toList.Perm (List.range n)
  live_iff : ∀ c, Live tf c ↔ Live t1 c
  /-- the cliques are the old cliques, relabelled -/
  clique_iff : ∀ c, Live t1 c → ∀ w, w ∈ cliqueList tf c ↔ ∃ x ∈ cliqueList t1 c, w = q.getD x 0
  /-- `snode_post` lists exactly the live cliques, once -/
  post_nodup : tf.snodePost.toList.Nodup
  post_live : ∀ c, c ∈ tf.snodePost.toList ↔ Live tf c
  post_size : tf.snodePost.size = tf.nCliques
  /-- `nblk[i]` is the size of the `i`-th clique of the post-order -/
  nblk : ∃ nb, tf.nblk = some nb ∧ nb.size = tf.nCliques ∧
    ∀ i, i < tf.nCliques → nb.getD i 0 = (cliqueList tf (tf.snodePost.getD i 0)).length

/-- [S] the result of the relabelling and of `calculate_block_dimensions` satisfies `AnalysisOk` -/
theorem PreReorder.analysisOk {n : Nat} {t : SuperNodeTree} {ord : Nat → Nat}
    (hp : PreReorder n t ord) {ordering : Array Nat} {tR : SuperNodeTree} {ord' p q nb : Array Nat}
    (hs : ReorderSpec t ordering tR ord' p q) (hnbsz : nb.size = t.nCliques)
    (hnb : ∀ i, i < t.nCliques → nb.getD i 0 =
      (tR.separators.getD (t.snodePost.getD i 0) #[]).size +
      (tR.snode.getD (t.snodePost.getD i 0) #[]).size) :
    AnalysisOk n t q { tR with nblk := some nb } ord := by
  obtain ⟨hct, hlive, _, _, hcl⟩ := hs.ctinv hp
  have e1 : tR.nCliques = t.nCliques := congrArg (·.nCliques) hs.others
  have e2 : tR.snodePost = t.snodePost := congrArg (·.snodePost) hs.others
  refine
    { ct := hct.with_nblk _
      q_perm := by have := hs.q_perm; rwa [hp.vpost_size] at this
      live_iff := hlive
      clique_iff := hcl
      post_nodup := by show tR.snodePost.toList.Nodup; rw [e2]; exact hp.post_nodup
      post_live := by
        intro c
        show c ∈ tR.snodePost.toList ↔ Live tR c
        rw [e2, hlive c]; exact hp.post_live c
      post_size := by
        show tR.snodePost.size = tR.nCliques
        rw [e1, e2]; exact hp.post_size
      nblk := ⟨nb, rfl, by show nb.size = tR.nCliques; rw [e1]; exact hnbsz, ?_⟩ }
  intro i hi
  have hi' : i < t.nCliques := by
    have : i < tR.nCliques := hi
    rwa [e1] at this
  show nb.getD i 0 = ((tR.snode.getD (tR.snodePost.getD i 0) #[]).toList ++
    (tR.separators.getD (tR.snodePost.getD i 0) #[]).toList).length
  rw [hnb i hi', e2, List.length_append, Array.length_toList, Array.length_toList, Nat.add_comm]

/-- [S] **THE ANALYSIS WITHOUT MERGING, IN THE FINAL LABELS**: for a filled pattern `L` and an
`ordering` that is a permutation of `0..n`, `SparsityPattern::new(L, ordering, "none")` returns
(no panic) a tree `tf` and an ordering `ord'` such that: `tf` is the clique tree
`t0 = SuperNodeTree::new(L)` relabelled by a permutation `q` (`AnalysisOk`: clique-tree invariant —
hence separator = clique ∩ parent clique and running intersection —, post-order of the live
cliques, `nblk[i] = |clique(snode_post[i])|`); `ord'` is a permutation with
`ord'[q[x]] = ordering[x]`; and every structural non-zero `(r, x)` of `L` is covered: both
relabelled indices lie in one live clique. -/
theorem analysis_none_final {L : LPat} (h : L.Filled) (ordering : Array Nat)
    (ho : ordering.toList.Perm (List.range L.n)) :
    ∃ (t0 tf : SuperNodeTree) (ord' q : Array Nat),
      SuperNodeTree.new L = .ok t0 ∧ SnTreeOk L t0 ∧
      sparsityPatternNew L ordering "none" = .ok (tf, ord') ∧
      AnalysisOk L.n t0 q tf (fun c => maxOf (t0.snode.getD c #[])) ∧
      ord'.toList.Perm (List.range L.n) ∧
      (∀ x, x < L.n → ord'.getD (q.getD x 0) 0 = ordering.getD x 0) ∧
      (∀ x, x < L.n → ∀ r ∈ L.col x, ∃ c, Live tf c ∧
        q.getD x 0 ∈ cliqueList tf c ∧ q.getD r 0 ∈ cliqueList tf c) := by
  obtain ⟨t0, tR, ord', p, q, nb, hnew, hok, hrun, hs, hperm, hnbsz, hnb⟩ :=
    analysis_none_spec h ordering ho
  have hpre := hok.preReorder h
  have hA := hpre.analysisOk hs hnbsz hnb
  refine ⟨t0, _, ord', q, hnew, hok, hrun, hA, hperm, ?_, ?_⟩
  · intro x hx
    have hx' : x < t0.post.size := by rw [hpre.vpost_size]; exact hx
    rw [hs.ord_get _ (hs.q_lt x hx'), hs.p_q x hx']
  · intro x hx r hr
    obtain ⟨i, hi, hxi, hri⟩ := hok.cover.cover_all h x hx r hr
    have hl := hok.all_live i hi
    refine ⟨i, (hA.live_iff i).2 hl, (hA.clique_iff i hl _).2 ⟨x, List.mem_append_left _ hxi, rfl⟩,
      (hA.clique_iff i hl _).2 ⟨r, ?_, rfl⟩⟩
    unfold cliqueList
    rw [List.mem_append]
    exact hri

/-- [S] **THE ANALYSIS WITH THE PARENT–CHILD MERGE, IN THE FINAL LABELS**: for a filled pattern
`L` and an `ordering` that is a permutation of `0..n`,
`SparsityPattern::new(L, ordering, "parent_child")` returns (no panic) a tree `tf` and an
ordering `ord'` such that: `tf` is the merged clique tree `t1` (which satisfies `PreReorder`)
relabelled by a permutation `q` (`AnalysisOk`: clique-tree invariant — hence separator = clique ∩
parent clique and running intersection —, post-order of the live cliques,
`nblk[i] = |clique(snode_post[i])|`); `ord'` is a permutation with `ord'[q[x]] = ordering[x]`;
and every structural non-zero `(r, x)` of `L` is covered: both relabelled indices lie in one
live clique. -/
theorem analysis_pc_final {L : LPat} (h : L.Filled) (ordering : Array Nat)
    (ho : ordering.toList.Perm (List.range L.n)) :
    ∃ (t0 t1 tf : SuperNodeTree) (ord' q : Array Nat),
      SuperNodeTree.new L = .ok t0 ∧ SnTreeOk L t0 ∧
      PreReorder L.n t1 (fun c => maxOf (t0.snode.getD c #[])) ∧
      sparsityPatternNew L ordering "parent_child" = .ok (tf, ord') ∧
      AnalysisOk L.n t1 q tf (fun c => maxOf (t0.snode.getD c #[])) ∧
      ord'.toList.Perm (List.range L.n) ∧
      (∀ x, x < L.n → ord'.getD (q.getD x 0) 0 = ordering.getD x 0) ∧
      (∀ x, x < L.n → ∀ r ∈ L.col x, ∃ c, Live tf c ∧
        q.getD x 0 ∈ cliqueList tf c ∧ q.getD r 0 ∈ cliqueList tf c) := by
  obtain ⟨t0, t1, tR, ord', p, q, nb, hnew, hok, hpre, hcov, _, hrun, hs, hperm, hnbsz, hnb⟩ :=
    analysis_pc_spec h ordering ho
  have hA := hpre.analysisOk hs hnbsz hnb
  refine ⟨t0, t1, _, ord', q, hnew, hok, hpre, hrun, hA, hperm, ?_, ?_⟩
  · intro x hx
    have hx' : x < t1.post.size := by rw [hpre.vpost_size]; exact hx
    rw [hs.ord_get _ (hs.q_lt x hx'), hs.p_q x hx']
  · intro x hx r hr
    obtain ⟨i, hi, hxi, hri⟩ := hok.cover.cover_all h x hx r hr
    obtain ⟨c, hlc, hc⟩ := hcov i (hok.all_live i hi)
    have hri' : r ∈ cliqueList t0 i := by
      unfold cliqueList
      rw [List.mem_append]
      exact hri
    exact ⟨c, (hA.live_iff c).2 hlc,
      (hA.clique_iff c hlc _).2 ⟨x, hc x (List.mem_append_left _ hxi), rfl⟩,
      (hA.clique_iff c hlc _).2 ⟨r, hc r hri', rfl⟩⟩

/-! ### non-vacuity -/

/-- a filled pattern on five vertices: columns `{1,2}`, `{2,4}`, `{4}`, `{4}`, `{}` -/
def exFilledL : LPat := { n := 5, colptr := #[0, 2, 4, 5, 6, 6], rowval := #[1, 2, 2, 4, 4, 4] }

/-- [S] `exFilledL` is a filled pattern -/
theorem exFilledL_filled : exFilledL.Filled := (LPat.filledB_iff _).1 (by decide)

/-- non-vacuity of `sntree_new_ok` (and of `SnTreeOk.pcinit`'s first hypothesis) -/
example : ∃ t, SuperNodeTree.new exFilledL = .ok t ∧ SnTreeOk exFilledL t :=
  sntree_new_ok exFilledL_filled

/-- non-vacuity of `pothen_sun_parent_spec` / `find_supernodes_parent_spec`: their hypotheses hold
for the elimination tree, degrees and post-order of `exFilledL` -/
example : ∃ parent post degree snode sparent,
    findSupernodes parent post degree = .ok (snode, sparent) ∧
    Supernodes parent degree 5 snode ∧ SnParent parent 5 snode sparent := by
  obtain ⟨parent, _, post, _, degree, _, _, _, _, hpar, _, hdsz, _, hdpos, hpnd, hplt, hpw, hpall,
    hlast⟩ := sntree_front_full exFilledL_filled
  obtain ⟨snode, sparent, h⟩ :=
    find_supernodes_parent_spec hpar hdsz hdpos hpnd hplt hpw hpall hlast
  exact ⟨parent, post, degree, snode, sparent, h⟩

example : ∃ parent post degree sp si, pothenSun parent post degree = .ok (sp, si) ∧
    sp.size = (reprList si 5).length := by
  obtain ⟨parent, _, post, _, degree, _, _, _, _, hpar, _, hdsz, _, hdpos, hpnd, hplt, hpw, hpall,
    hlast⟩ := sntree_front_full exFilledL_filled
  obtain ⟨sp, si, h1, _, _, h2, _⟩ :=
    pothen_sun_parent_spec hpar hdsz hdpos hpnd hplt hpw hpall hlast
  exact ⟨parent, post, degree, sp, si, h1, h2⟩

/-- non-vacuity of `analysis_none_spec` / `analysis_none_final` / `analysis_pc_spec` /
`analysis_pc_final` (and of `PreReorder.finish`, `ReorderSpec.ctinv`, `PreReorder.analysisOk`
through them): `exFilledL` with the identity ordering -/
example : ∃ (tf : SuperNodeTree) (ord' : Array Nat),
    sparsityPatternNew exFilledL #[0, 1, 2, 3, 4] "none" = .ok (tf, ord') ∧
    ord'.toList.Perm (List.range 5) := by
  obtain ⟨_, tf, ord', _, _, _, h1, _, h2, _⟩ :=
    analysis_none_final exFilledL_filled #[0, 1, 2, 3, 4] (List.Perm.refl _)
  exact ⟨tf, ord', h1, h2⟩

example : ∃ (tf : SuperNodeTree) (ord' : Array Nat),
    sparsityPatternNew exFilledL #[0, 1, 2, 3, 4] "parent_child" = .ok (tf, ord') ∧
    ord'.toList.Perm (List.range 5) := by
  obtain ⟨_, _, tf, ord', _, _, _, _, h1, _, h2, _⟩ :=
    analysis_pc_final exFilledL_filled #[0, 1, 2, 3, 4] (List.Perm.refl _)
  exact ⟨tf, ord', h1, h2⟩

example : ∃ (tR : SuperNodeTree) (ord' nb : Array Nat),
    sparsityPatternNew exFilledL #[0, 1, 2, 3, 4] "none" = .ok ({ tR with nblk := some nb }, ord') := by
  obtain ⟨_, tR, ord', _, _, nb, _, _, h1, _⟩ :=
    analysis_none_spec exFilledL_filled #[0, 1, 2, 3, 4] (List.Perm.refl _)
  exact ⟨tR, ord', nb, h1⟩

example : ∃ (tR : SuperNodeTree) (ord' nb : Array Nat),
    sparsityPatternNew exFilledL #[0, 1, 2, 3, 4] "parent_child" =
      .ok ({ tR with nblk := some nb }, ord') := by
  obtain ⟨_, _, tR, ord', _, _, nb, _, _, _, _, _, h1, _⟩ :=
    analysis_pc_spec exFilledL_filled #[0, 1, 2, 3, 4] (List.Perm.refl _)
  exact ⟨tR, ord', nb, h1⟩

end Clarabel.Chordal
