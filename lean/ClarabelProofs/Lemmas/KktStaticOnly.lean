/-
  C11 ∘ C12 with dynamic regularisation OFF (static regularisation only): the counters of the
  object that `QDLDLFactorisation::new` returns on a matrix that is quasidefinite with margin
  `ε > 0` (`KktQdldlNoZeroPivot.new_ok_of_quasiDef` gives existence, no `ZeroPivot`, and the pivots):
  `regularize_count = 0` and `positive_inertia = #{i | s i}`.
-/
import ClarabelProofs.Lemmas.KktQdldlNoZeroPivot

namespace Clarabel.Qdldl
open Clarabel.Lemmas.KktInertia Clarabel.Lemmas.KktInertiaList Clarabel.Lemmas.KktLdlSigns

variable {α : Type} [Field α] [LinearOrder α] [IsStrictOrderedRing α] [FloatLike α]

/-- [F] the counters of the returned object, dynamic regularisation off -/
theorem new_static_counts (K : Csc α) (hw : wellFormed K = true)
    (hc : checkStructure K = .ok ()) (hnd : NoDupCols K.colptr K.rowval) (hn : 0 < K.n)
    (perm iperm : Array Nat) (hip : Perm.invperm perm = .ok iperm) (hps : perm.size = K.n)
    (ds : Array Int) (hdsz : K.n ≤ ds.size) (s : Fin K.n → Bool) (eps delta ε : α)
    (hQ : QuasiDefGE (fun i j : Fin K.n => symOf K i.val j.val) s Finset.univ ε) (hε : 0 < ε)
    (F : Factorisation α) (hF : new K perm (some ds) false eps delta false = .ok F) :
    F.regularizeCount = 0 ∧
    F.positiveInertia = (Finset.univ.filter (fun i : Fin K.n => s i = true)).card := by
  have hds' : ∀ d, some ds = some d → K.n ≤ d.size := by
    intro d hd; cases hd; exact hdsz
  have hS := (new_correct K hw hc hnd hn perm iperm hip hps (some ds) hds' false eps delta).2 F hF
  obtain ⟨_, _, hsig⟩ := new_ok_of_quasiDef K hw hc hnd hn perm iperm hip hps ds hdsz s eps delta ε
    hQ hε
  obtain ⟨_, hinv⟩ := invperm_invPair perm iperm hip
  rw [hps] at hinv
  set e : Equiv.Perm (Fin K.n) := hinv.toEquiv with he
  refine ⟨?_, ?_⟩
  · rw [hS.regcount]
    have : ∀ r x, (regularizePivot false eps delta (signAt (some ds) perm r) x).2 = false :=
      fun r x => rfl
    simp only [this]
    simp
  · rw [hS.inertia]
    have hd : ∀ r (hr : r < K.n),
        if s (e ⟨r, hr⟩) then ε ≤ F.D.getD r 0 else F.D.getD r 0 ≤ -ε := by
      intro r hr
      obtain ⟨hpr, h1, _⟩ := hsig F hF r hr
      exact h1
    have := count_pos K.n (fun j => F.D.getD j 0) (fun i => s (e i)) ε hε hd
    rw [this]
    exact Finset.card_equiv e (by intro i; simp)

end Clarabel.Qdldl
