/-
  C15, PSD cone: `step_length_psd_component`, `margins`, `scaled_unit_shift` with the LAPACK
  eigenvalues as explicit inputs (`ClarabelModel/Cones/PsdStep.lean`).

  The *spectral contract* `IsMinEig n M γ` says, in Rayleigh form, that `γ` is the least
  eigenvalue of the symmetric matrix `M` (leading `n × n` part): `γ‖v‖² ≤ vᵀMv` for every
  `v`, with equality for some `v ≠ 0`.  Everything here is proved from the contract by
  finite sums only (no spectral theory).
-/
import ClarabelModel.Cones.PsdStep
import ClarabelProofs.Lemmas.ConesPsdOps
import ClarabelProofs.Lemmas.VecKernels
import Mathlib.Algebra.Order.BigOperators.Ring.Finset
import Mathlib.Algebra.Order.BigOperators.Group.Finset
import Mathlib.Tactic.Positivity

noncomputable section

namespace Clarabel.PsdStep
open PsdTri Finset
open PsdIndex (triangularNumber)

/-- quadratic form `vᵀ M v` of the leading `n × n` part -/
def qform (n : Nat) (M : MatFn ℝ) (v : Nat → ℝ) : ℝ :=
  ∑ i ∈ range n, ∑ j ∈ range n, v i * M i j * v j

/-- `‖v‖²` on the first `n` coordinates -/
def nrm2 (n : Nat) (v : Nat → ℝ) : ℝ := ∑ i ∈ range n, v i * v i

/-- spectral contract: `γ` is the least eigenvalue of `M` (Rayleigh form) -/
def IsMinEig (n : Nat) (M : MatFn ℝ) (γ : ℝ) : Prop :=
  (∀ v, γ * nrm2 n v ≤ qform n M v) ∧ ∃ v, 0 < nrm2 n v ∧ qform n M v = γ * nrm2 n v

/-- `vᵀMv > 0` for every `v ≠ 0` -/
def PosDef (n : Nat) (M : MatFn ℝ) : Prop := ∀ v, 0 < nrm2 n v → 0 < qform n M v

/-- `vᵀMv ≥ 0` for every `v` -/
def PosSemidef (n : Nat) (M : MatFn ℝ) : Prop := ∀ v, 0 ≤ qform n M v

theorem nrm2_nonneg (n : Nat) (v : Nat → ℝ) : 0 ≤ nrm2 n v :=
  sum_nonneg fun i _ => mul_self_nonneg (v i)

theorem nrm2_pos_iff (n : Nat) (v : Nat → ℝ) : 0 < nrm2 n v ↔ ∃ i, i < n ∧ v i ≠ 0 := by
  constructor
  · intro h
    by_contra hne
    simp only [not_exists, not_and, not_not] at hne
    have : nrm2 n v = 0 := sum_eq_zero fun i hi => by rw [hne i (mem_range.mp hi)]; ring
    linarith
  · rintro ⟨i, hi, hv⟩
    have h1 : 0 < v i * v i := mul_self_pos.mpr hv
    have h2 : v i * v i ≤ nrm2 n v :=
      single_le_sum (f := fun i => v i * v i) (fun j _ => mul_self_nonneg (v j)) (mem_range.mpr hi)
    linarith

theorem qform_add (n : Nat) (A B : MatFn ℝ) (v : Nat → ℝ) :
    qform n (fun i j => A i j + B i j) v = qform n A v + qform n B v := by
  unfold qform
  rw [← sum_add_distrib]
  refine sum_congr rfl fun i _ => ?_
  rw [← sum_add_distrib]
  exact sum_congr rfl fun j _ => by ring

theorem qform_smul (n : Nat) (t : ℝ) (A : MatFn ℝ) (v : Nat → ℝ) :
    qform n (fun i j => t * A i j) v = t * qform n A v := by
  unfold qform
  rw [mul_sum]
  refine sum_congr rfl fun i _ => ?_
  rw [mul_sum]
  exact sum_congr rfl fun j _ => by ring

theorem qform_diag (n : Nat) (d : Nat → ℝ) (v : Nat → ℝ) :
    qform n (fun i j => if i = j then d i else 0) v = ∑ i ∈ range n, d i * (v i * v i) := by
  unfold qform
  refine sum_congr rfl fun i hi => ?_
  have : ∀ j ∈ range n, v i * (if i = j then d i else 0) * v j = if i = j then d i * (v i * v i) else 0 := by
    intro j _
    by_cases h : i = j
    · subst h; simp; ring
    · simp [h]
  rw [sum_congr rfl this, sum_ite_eq]
  simp [hi]

theorem qform_congr (n : Nat) {A B : MatFn ℝ} (h : ∀ i j, i < n → j < n → A i j = B i j)
    (v : Nat → ℝ) : qform n A v = qform n B v := by
  unfold qform
  refine sum_congr rfl fun i hi => sum_congr rfl fun j hj => ?_
  rw [h i j (mem_range.mp hi) (mem_range.mp hj)]

/-- adding `a·I` moves the quadratic form by `a‖v‖²` -/
theorem qform_add_identity (n : Nat) (A : MatFn ℝ) (a : ℝ) (v : Nat → ℝ) :
    qform n (fun i j => A i j + if i = j then a else 0) v = qform n A v + a * nrm2 n v := by
  rw [qform_add, qform_diag]
  unfold nrm2
  rw [mul_sum]

/-- adding `a·I` moves the least eigenvalue by exactly `a` -/
theorem IsMinEig.add_identity {n : Nat} {A : MatFn ℝ} {γ : ℝ} (h : IsMinEig n A γ) (a : ℝ) :
    IsMinEig n (fun i j => A i j + if i = j then a else 0) (γ + a) := by
  obtain ⟨h1, v, hv, h2⟩ := h
  refine ⟨fun w => ?_, v, hv, ?_⟩
  · rw [qform_add_identity]; have := h1 w; linarith
  · rw [qform_add_identity, h2]; ring

/-! ## the scaled iterate and the change of variables -/

/-- the scaled iterate `Λ = diag(λ)` -/
def pointMat (lam : Array ℝ) : MatFn ℝ := fun i j => if i = j then lam.getD i 0 else 0

/-- `Λ + t·mat(d)`: the scaled iterate after a step `t` along the scaled direction -/
def shifted (lam d : Array ℝ) (t : ℝ) : MatFn ℝ := fun i j => pointMat lam i j + t * svecToMat d i j

/-- `Λisqrt` is the inverse square root of `λ` on the first `n` coordinates -/
def ScalingOk (n : Nat) (lam lisqrt : Array ℝ) : Prop :=
  ∀ i, i < n → 0 < lisqrt.getD i 0 ∧ lisqrt.getD i 0 * lisqrt.getD i 0 * lam.getD i 0 = 1

/-- `v = Λ^{-1/2} u`: the form of `Λ + tD` at `v` is `‖u‖² + t·uᵀ(Λ^{-1/2} D Λ^{-1/2})u` -/
theorem qform_shifted (n : Nat) (lam lisqrt d : Array ℝ) (t : ℝ) (hs : ScalingOk n lam lisqrt)
    (u : Nat → ℝ) :
    qform n (shifted lam d t) (fun i => lisqrt.getD i 0 * u i)
      = nrm2 n u + t * qform n (scaledDir d lisqrt) u := by
  unfold shifted
  rw [qform_add, qform_smul]
  congr 1
  · unfold pointMat
    rw [qform_diag]
    unfold nrm2
    refine sum_congr rfl fun i hi => ?_
    obtain ⟨_, h2⟩ := hs i (mem_range.mp hi)
    calc lam.getD i 0 * (lisqrt.getD i 0 * u i * (lisqrt.getD i 0 * u i))
        = (lisqrt.getD i 0 * lisqrt.getD i 0 * lam.getD i 0) * (u i * u i) := by ring
      _ = u i * u i := by rw [h2, one_mul]
  · congr 1
    unfold qform scaledDir
    exact sum_congr rfl fun i _ => sum_congr rfl fun j _ => by ring

/-- every `v` is `Λ^{-1/2} u` for `u = v / Λisqrt` -/
theorem unscale (n : Nat) (lam lisqrt : Array ℝ) (hs : ScalingOk n lam lisqrt) (M : MatFn ℝ)
    (v : Nat → ℝ) :
    qform n M v = qform n M (fun i => lisqrt.getD i 0 * (v i / lisqrt.getD i 0)) ∧
    (0 < nrm2 n v → 0 < nrm2 n (fun i => v i / lisqrt.getD i 0)) := by
  constructor
  · unfold qform
    refine sum_congr rfl fun i hi => sum_congr rfl fun j hj => ?_
    have hi' := (hs i (mem_range.mp hi)).1.ne'
    have hj' := (hs j (mem_range.mp hj)).1.ne'
    show v i * M i j * v j = lisqrt.getD i 0 * (v i / lisqrt.getD i 0) * M i j *
      (lisqrt.getD j 0 * (v j / lisqrt.getD j 0))
    rw [mul_div_cancel₀ _ hi', mul_div_cancel₀ _ hj']
  · intro h
    obtain ⟨i, hi, hv⟩ := (nrm2_pos_iff n v).mp h
    exact (nrm2_pos_iff n _).mpr ⟨i, hi, div_ne_zero hv (hs i hi).1.ne'⟩

/-- safety: with `γ` a lower Rayleigh bound of the scaled direction, `Λ + tD` is positive
definite as long as `1 + tγ > 0` -/
theorem shifted_posDef (n : Nat) (lam lisqrt d : Array ℝ) (γ t : ℝ) (hs : ScalingOk n lam lisqrt)
    (hγ : ∀ u, γ * nrm2 n u ≤ qform n (scaledDir d lisqrt) u) (ht : 0 ≤ t) (h1 : 0 < 1 + t * γ) :
    PosDef n (shifted lam d t) := by
  intro v hv
  obtain ⟨e, hpos⟩ := unscale n lam lisqrt hs (shifted lam d t) v
  rw [e, qform_shifted n lam lisqrt d t hs]
  have hu := hpos hv
  have := hγ (fun i => v i / lisqrt.getD i 0)
  nlinarith [mul_le_mul_of_nonneg_left this ht]

/-- …and positive semidefinite as long as `1 + tγ ≥ 0` -/
theorem shifted_posSemidef (n : Nat) (lam lisqrt d : Array ℝ) (γ t : ℝ)
    (hs : ScalingOk n lam lisqrt)
    (hγ : ∀ u, γ * nrm2 n u ≤ qform n (scaledDir d lisqrt) u) (ht : 0 ≤ t) (h1 : 0 ≤ 1 + t * γ) :
    PosSemidef n (shifted lam d t) := by
  intro v
  obtain ⟨e, _⟩ := unscale n lam lisqrt hs (shifted lam d t) v
  rw [e, qform_shifted n lam lisqrt d t hs]
  have hu := nrm2_nonneg n (fun i => v i / lisqrt.getD i 0)
  have := hγ (fun i => v i / lisqrt.getD i 0)
  nlinarith [mul_le_mul_of_nonneg_left this ht]

/-- tightness: at `1 + tγ = 0` the matrix `Λ + tD` is singular -/
theorem shifted_boundary (n : Nat) (lam lisqrt d : Array ℝ) (γ t : ℝ) (hs : ScalingOk n lam lisqrt)
    (hγ : IsMinEig n (scaledDir d lisqrt) γ) (h1 : 1 + t * γ = 0) :
    ∃ v, 0 < nrm2 n v ∧ qform n (shifted lam d t) v = 0 := by
  obtain ⟨_, u, hu, he⟩ := hγ
  refine ⟨fun i => lisqrt.getD i 0 * u i, ?_, ?_⟩
  · obtain ⟨i, hi, hne⟩ := (nrm2_pos_iff n u).mp hu
    exact (nrm2_pos_iff n _).mpr ⟨i, hi, mul_ne_zero (hs i hi).1.ne' hne⟩
  · rw [qform_shifted n lam lisqrt d t hs, he]
    have : nrm2 n u + t * (γ * nrm2 n u) = (1 + t * γ) * nrm2 n u := by ring
    rw [this, h1, zero_mul]

/-! ## `step_length_psd_component` -/

/-- [R] `step_length_psd_component` under the spectral contract: the returned `α` lies in
`[0, αmax]`; `Λ + tD̃` is positive definite for `t ∈ [0, α)` and still positive semidefinite at
`t = α`; and `α < αmax` puts `Λ + αD̃` on the boundary (a nonzero `v` with `vᵀ(Λ+αD̃)v = 0`). -/
theorem stepLengthPsdComponent_spec (n : Nat) (lam lisqrt d : Array ℝ) (γ amax : ℝ)
    (hd : d.size ≠ 0) (hs : ScalingOk n lam lisqrt) (hγ : IsMinEig n (scaledDir d lisqrt) γ)
    (ham : 0 ≤ amax) :
    ∃ a, stepLengthPsdComponent d (some γ) amax = a ∧ 0 ≤ a ∧ a ≤ amax ∧
      (∀ t, 0 ≤ t → t < a → PosDef n (shifted lam d t)) ∧
      PosSemidef n (shifted lam d a) ∧
      (a < amax → ∃ v, 0 < nrm2 n v ∧ qform n (shifted lam d a) v = 0) := by
  refine ⟨_, rfl, ?_⟩
  unfold stepLengthPsdComponent
  rw [if_neg hd]
  simp only
  by_cases hg : γ < 0
  · rw [if_pos hg]
    have hpos : 0 < -(1 / γ) := by
      have : 1 / γ < 0 := one_div_neg.mpr hg
      linarith
    have hmul : -(1 / γ) * γ = -1 := by
      have hne : γ ≠ 0 := ne_of_lt hg
      field_simp
    have hfm : fmin (-(1 / γ)) amax = min (-(1 / γ)) amax := rfl
    rw [hfm]
    refine ⟨le_min hpos.le ham, min_le_right _ _, ?_, ?_, ?_⟩
    · intro t ht0 htlt
      refine shifted_posDef n lam lisqrt d γ t hs hγ.1 ht0 ?_
      have : t < -(1 / γ) := lt_of_lt_of_le htlt (min_le_left _ _)
      nlinarith
    · refine shifted_posSemidef n lam lisqrt d γ _ hs hγ.1 (le_min hpos.le ham) ?_
      have : min (-(1 / γ)) amax ≤ -(1 / γ) := min_le_left _ _
      nlinarith
    · intro hlt
      have hmin : min (-(1 / γ)) amax = -(1 / γ) := by
        rcases min_choice (-(1 / γ)) amax with h | h
        · exact h
        · rw [h] at hlt; exact absurd hlt (lt_irrefl _)
      rw [hmin]
      exact shifted_boundary n lam lisqrt d γ _ hs hγ (by rw [hmul]; ring)
  · rw [if_neg hg]
    have hg' : 0 ≤ γ := not_lt.mp hg
    refine ⟨ham, le_refl _, ?_, ?_, fun h => absurd h (lt_irrefl _)⟩
    · intro t ht0 _
      exact shifted_posDef n lam lisqrt d γ t hs hγ.1 ht0 (by nlinarith)
    · exact shifted_posSemidef n lam lisqrt d γ amax hs hγ.1 ham (by nlinarith)

/-- [S] the failure values: an empty direction returns `αmax`, a LAPACK failure returns `0` -/
theorem stepLengthPsdComponent_edge {α : Type} [Mul α] [Div α] [Neg α] [OfNat α 0] [OfNat α 1]
    [LT α] [DecidableLT α] [FloatLike α] (d : Array α) (γ : Option α) (amax : α) :
    (d.size = 0 → stepLengthPsdComponent d γ amax = amax) ∧
    (d.size ≠ 0 → γ = none → stepLengthPsdComponent d γ amax = 0) := by
  unfold stepLengthPsdComponent
  constructor
  · intro h; rw [if_pos h]
  · intro h hg; rw [if_neg h, hg]

/-! ## `margins` and `scaled_unit_shift` -/

/-- [R] `margins` of a non-empty PSD block: `α` is the least of the supplied eigenvalues,
`β` the sum of their positive parts -/
theorem margins_spec (z e : Array ℝ) (hz : z.size ≠ 0) (he : e.size ≠ 0) :
    ∃ m, margins z (some e) = .ok (some m, (e.toList.map (fun x => max x 0)).sum) ∧
      m ∈ e.toList ∧ ∀ x ∈ e.toList, m ≤ x := by
  obtain ⟨m, h1, h2, h3⟩ := Vec.minimum?_spec e he
  refine ⟨m, ?_, h2, h3⟩
  unfold margins
  rw [if_neg hz]
  simp only [h1, pure, Except.pure]
  congr 2
  have : ∀ (l : List ℝ) (acc : ℝ), l.foldl (fun s x => s + fmax x 0) acc
      = acc + (l.map (fun x => max x 0)).sum := by
    intro l
    induction l with
    | nil => intro acc; simp
    | cons a t ih =>
      intro acc
      simp only [List.foldl_cons, List.map_cons, List.sum_cons]
      rw [ih]
      show acc + max a 0 + _ = _
      ring
  rw [this]; ring

/-- entries of `svec_to_mat` of the shifted vector -/
theorem svecToMat_shift (n : Nat) (z : Array ℝ) (a : ℝ) (hz : z.size = triangularNumber n) :
    ∃ z', PsdIndex.scaledUnitShift n z a = .ok z' ∧ z'.size = triangularNumber n ∧
      ∀ i j, i < n → j < n → svecToMat z' i j = svecToMat z i j + if i = j then a else 0 := by
  refine ⟨_, scaledUnitShift_eq n z a hz, size_packed n _, ?_⟩
  intro i j hi hj
  unfold svecToMat
  rcases Nat.lt_trichotomy i j with h | h | h
  · have h1 : i ≠ j := by omega
    simp only [h1, if_false, h, if_true, add_zero]
    rw [getD_packed _ _ (Nat.le_of_lt h) hj]
    simp [h1]
  · subst h
    simp only [if_true]
    rw [getD_packed _ _ (Nat.le_refl i) hi]
    simp
  · have h1 : i ≠ j := by omega
    have h2 : ¬ i < j := by omega
    simp only [h1, if_false, h2, add_zero]
    rw [getD_packed _ _ (Nat.le_of_lt h) hi]
    have h3 : j ≠ i := by omega
    simp [h3]

/-- [R] after `scaled_unit_shift` by `a` the least eigenvalue (the margin) is `γ + a`,
exactly -/
theorem shift_margin (n : Nat) (z : Array ℝ) (a γ : ℝ) (hz : z.size = triangularNumber n)
    (hγ : IsMinEig n (svecToMat z) γ) :
    ∃ z', PsdIndex.scaledUnitShift n z a = .ok z' ∧ z'.size = triangularNumber n ∧
      IsMinEig n (svecToMat z') (γ + a) := by
  obtain ⟨z', h1, h2, h3⟩ := svecToMat_shift n z a hz
  refine ⟨z', h1, h2, ?_⟩
  have hq : ∀ v, qform n (svecToMat z') v
      = qform n (fun i j => svecToMat z i j + if i = j then a else 0) v :=
    fun v => qform_congr n h3 v
  obtain ⟨g1, v, hv, g2⟩ := hγ.add_identity a
  exact ⟨fun w => by rw [hq]; exact g1 w, v, hv, by rw [hq]; exact g2⟩

/-- lower-bound half only (what `_shift_to_cone_interior` needs) -/
theorem shift_lower (n : Nat) (z : Array ℝ) (a c : ℝ) (hz : z.size = triangularNumber n)
    (hc : ∀ v, c * nrm2 n v ≤ qform n (svecToMat z) v) :
    ∃ z', PsdIndex.scaledUnitShift n z a = .ok z' ∧ z'.size = triangularNumber n ∧
      ∀ v, (c + a) * nrm2 n v ≤ qform n (svecToMat z') v := by
  obtain ⟨z', h1, h2, h3⟩ := svecToMat_shift n z a hz
  refine ⟨z', h1, h2, fun v => ?_⟩
  rw [qform_congr n h3 v, qform_add_identity]
  have := hc v
  linarith

/-- the conclusion of `stepLengthPsdComponent_spec` as a predicate -/
def StepSpec (n : Nat) (lam d : Array ℝ) (amax a : ℝ) : Prop :=
  0 ≤ a ∧ a ≤ amax ∧ (∀ t, 0 ≤ t → t < a → PosDef n (shifted lam d t)) ∧
    PosSemidef n (shifted lam d a) ∧
    (a < amax → ∃ v, 0 < nrm2 n v ∧ qform n (shifted lam d a) v = 0)

theorem tri_pos {n : Nat} (hn : 0 < n) : PsdIndex.triangularNumber n ≠ 0 := by
  cases n with
  | zero => omega
  | succ k => rw [tri_succ]; omega

theorem mulWx_size (t : Bool) (n : Nat) (Rx y x : Array ℝ) (a b : ℝ) (out : Array ℝ)
    (h : mulWx t n Rx y x a b = .ok out) : out.size = PsdIndex.triangularNumber n := by
  unfold mulWx at h
  cases hg : sizeGuard (Rx.size == n * n && x.size == PsdIndex.triangularNumber n && y.size == PsdIndex.triangularNumber n) with
  | error e => rw [hg] at h; cases h
  | ok u =>
    rw [hg] at h
    simp only [bind, Except.bind, pure, Except.pure, Except.ok.injEq] at h
    rw [← h]
    unfold mulWxInner
    split <;> exact size_matToSvec _ _

/-- [R] the whole `PSDTriangleCone::step_length` under the spectral contract for both LAPACK
answers -/
theorem stepLength_spec (K : Cone ℝ) (dz ds : Array ℝ) (γz γs amax : ℝ) (r : ℝ × ℝ)
    (h : stepLength K dz ds (some γz) (some γs) amax = .ok r) (hn : 0 < K.n)
    (hs : ScalingOk K.n K.lam K.lamIsqrt) (ham : 0 ≤ amax)
    (hγz : ∀ d, mulW K false dz dz 1 0 = .ok d → IsMinEig K.n (scaledDir d K.lamIsqrt) γz)
    (hγs : ∀ d, mulWinv K true ds ds 1 0 = .ok d → IsMinEig K.n (scaledDir d K.lamIsqrt) γs) :
    ∃ dzW dsW, mulW K false dz dz 1 0 = .ok dzW ∧ mulWinv K true ds ds 1 0 = .ok dsW ∧
      StepSpec K.n K.lam dzW amax r.1 ∧ StepSpec K.n K.lam dsW amax r.2 := by
  unfold stepLength at h
  cases h1 : mulWx false K.n K.R dz dz 1 0 with
  | error e => rw [h1] at h; cases h
  | ok dzW =>
    cases h2 : mulWx true K.n K.Rinv ds ds 1 0 with
    | error e => rw [h1, h2] at h; cases h
    | ok dsW =>
      rw [h1, h2] at h
      simp only [bind, Except.bind, pure, Except.pure, Except.ok.injEq] at h
      have s1 : dzW.size ≠ 0 := by rw [mulWx_size _ _ _ _ _ _ _ _ h1]; exact tri_pos hn
      have s2 : dsW.size ≠ 0 := by rw [mulWx_size _ _ _ _ _ _ _ _ h2]; exact tri_pos hn
      obtain ⟨a1, e1, p1⟩ := stepLengthPsdComponent_spec K.n K.lam K.lamIsqrt dzW γz amax s1 hs (hγz dzW h1) ham
      obtain ⟨a2, e2, p2⟩ := stepLengthPsdComponent_spec K.n K.lam K.lamIsqrt dsW γs amax s2 hs (hγs dsW h2) ham
      refine ⟨dzW, dsW, h1, h2, ?_, ?_⟩
      · rw [← h]; simp only; rw [e1]; exact p1
      · rw [← h]; simp only; rw [e2]; exact p2

end Clarabel.PsdStep
