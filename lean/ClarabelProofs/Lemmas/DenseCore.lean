/-
  C16, dense matrix model: constructors, views, indexing, in-place updates of `core.rs`.
  [S] = structural (every scalar type, `Float` included).
-/
import ClarabelProofs.Lemmas.DenseBasic

namespace Clarabel.Dense
open Clarabel

variable {α : Type}

/-! ### constructors -/

theorem new_ok (m n : Nat) (d : Array α) (h : m * n = d.size) : new m n d = .ok ⟨m, n, d⟩ := by
  simp [new, h]
  rfl

theorem new_panic (m n : Nat) (d : Array α) (h : m * n ≠ d.size) :
    new m n d = .error (.panic "Matrix::new: assert size") := by
  simp [new, h]
  rfl

theorem new_ok_iff (m n : Nat) (d : Array α) (R : Dense α) :
    new m n d = .ok R ↔ m * n = d.size ∧ R = ⟨m, n, d⟩ := by
  by_cases h : m * n = d.size
  · rw [new_ok m n d h]
    constructor
    · intro h'; cases h'; exact ⟨h, rfl⟩
    · rintro ⟨_, rfl⟩; rfl
  · rw [new_panic m n d h]
    constructor
    · intro h'; cases h'
    · rintro ⟨h', _⟩; exact absurd h' h

theorem zeros_wf [OfNat α 0] (m n : Nat) : WF (zeros m n : Dense α) := by
  simp [WF, zeros]

theorem zeros_at [OfNat α 0] (m n : Nat) {i j : Nat} (hi : i < m) (hj : j < n) :
    at? (zeros m n : Dense α) i j = some 0 := by
  have := lin_lt hi hj
  simp [at?, zeros, this]

/-- the diagonal positions `i + m*i` -/
theorem diagWrites_mem [OfNat α 1] (A : Dense α) (w : Nat × α) :
    w ∈ diagWrites A ↔ ∃ i, i < A.n ∧ w = (i + A.m * i, 1) := by
  simp only [diagWrites, List.mem_map, List.mem_range]
  constructor
  · rintro ⟨i, hi, rfl⟩; exact ⟨i, hi, rfl⟩
  · rintro ⟨i, hi, rfl⟩; exact ⟨i, hi, rfl⟩

/-- [S] `set_identity` on a well-formed square matrix -/
theorem setIdentity_spec [OfNat α 0] [OfNat α 1] (A : Dense α) (hA : WF A) (hsq : A.m = A.n) :
    ∃ R, setIdentity A = .ok R ∧ R.m = A.m ∧ R.n = A.n ∧ WF R ∧
      ∀ i j, i < A.m → j < A.n → at? R i j = some (if i = j then 1 else 0) := by
  have hin : ∀ w ∈ diagWrites A, w.1 < (A.data.map (fun _ => (0 : α))).size := by
    intro w hw
    obtain ⟨i, hi, rfl⟩ := (diagWrites_mem A w).mp hw
    simp only [Array.size_map]
    rw [hA]
    exact lin_lt (by omega) hi
  obtain ⟨d', h1, h2, h3, h4⟩ := applyWrites_spec (diagWrites A) _ hin
  refine ⟨{ A with data := d' }, ?_, rfl, rfl, ?_, ?_⟩
  · unfold setIdentity
    have : (A.m != A.n) = false := by simp [hsq]
    simp only [this, Bool.false_eq_true, ↓reduceIte, h1]
    rfl
  · simp only [WF, h2, Array.size_map]; exact hA
  · intro i j hi hj
    simp only [at?]
    by_cases hij : i = j
    · subst hij
      simp only [↓reduceIte]
      apply h4
      · exact ⟨(i + A.m * i, 1), (diagWrites_mem A _).mpr ⟨i, hj, rfl⟩, rfl⟩
      · intro w hw _
        obtain ⟨i', _, rfl⟩ := (diagWrites_mem A w).mp hw
        rfl
    · simp only [hij, ↓reduceIte]
      rw [h3]
      · have : i + A.m * j < A.data.size := by rw [hA]; exact lin_lt hi hj
        simp [this]
      · intro w hw hk
        obtain ⟨i', hi', rfl⟩ := (diagWrites_mem A w).mp hw
        have := lin_inj (by omega : i' < A.m) hi hk
        omega

/-- [S] `Matrix::identity(n)` never panics and is the identity -/
theorem identity_spec [OfNat α 0] [OfNat α 1] (n : Nat) :
    ∃ R : Dense α, identity n = .ok R ∧ R.m = n ∧ R.n = n ∧ WF R ∧
      ∀ i j, i < n → j < n → at? R i j = some (if i = j then 1 else 0) := by
  obtain ⟨R, h1, h2, h3, h4, h5⟩ := setIdentity_spec (zeros n n : Dense α) (zeros_wf n n) rfl
  exact ⟨R, h1, h2, h3, h4, h5⟩

/-- the column count `Matrix::from(rows)` uses: length of the first row, 0 without rows -/
def rowsN (rows : Array (Array α)) : Nat := (rows[0]?.map (·.size)).getD 0

theorem fromRows_unfold [OfNat α 0] (rows : Array (Array α)) :
    fromRows rows =
      if !(rows.toList.all (fun r => r.size == rowsN rows)) then
        .error (.panic "Matrix::from: assert row lengths")
      else (tabulate rows.size (rowsN rows) (fun i j => do
          let r ← getE rows i "rows[r]"
          getE r j "rows[r][c]")) >>= fun d => new rows.size (rowsN rows) d := by
  unfold fromRows rowsN
  cases h0 : rows[0]? <;> simp only [Option.map, Option.getD] <;> split <;> rfl

/-- [S] `Matrix::from(rows)`: rectangular rows give the matrix with those rows -/
theorem fromRows_spec [OfNat α 0] (rows : Array (Array α))
    (hall : ∀ r ∈ rows.toList, r.size = rowsN rows) :
    ∃ R, fromRows rows = .ok R ∧ R.m = rows.size ∧ R.n = rowsN rows ∧ WF R ∧
      ∀ i j (hi : i < rows.size) (_ : j < rowsN rows),
        at? R i j = (rows[i]).toList[j]? := by
  let n := rowsN rows
  let g : Nat → Nat → α := fun i j => ((rows[i]?.bind (·[j]?)).getD 0)
  have hall' : (rows.toList.all (fun r => r.size == n)) = true := by
    rw [List.all_eq_true]; intro r hr; simp [n, hall r hr]
  have htab : tabulate rows.size n (fun i j => do
      let r ← getE rows i "rows[r]"
      getE r j "rows[r][c]") = .ok (tab rows.size n g) := by
    apply tabulate_ok
    intro i j hi hj
    have hr : rows[i].size = n := hall _ (by simp)
    rw [getE_ok _ _ _ hi]
    show getE rows[i] j "rows[r][c]" = _
    rw [getE_ok _ _ _ (by omega)]
    simp [g, hi, hr, hj]
  refine ⟨⟨rows.size, n, tab rows.size n g⟩, ?_, rfl, rfl, by simp [WF], ?_⟩
  · rw [fromRows_unfold]
    simp only [n] at hall' htab
    simp only [hall', Bool.not_true, Bool.false_eq_true, ↓reduceIte, htab]
    show new rows.size (rowsN rows) (tab rows.size (rowsN rows) g) = _
    rw [new_ok _ _ _ (by simp)]
  · intro i j hi hj
    have hr : rows[i].size = n := hall _ (by simp)
    simp only [at?]
    rw [tab_at _ _ _ hi hj]
    have hj' : j < rows[i].size := by rw [hr]; exact hj
    simp [g, hi, hj']

/-- [S] ragged rows panic -/
theorem fromRows_ragged [OfNat α 0] (rows : Array (Array α))
    (h : ∃ r ∈ rows.toList, r.size ≠ rowsN rows) :
    fromRows rows = .error (.panic "Matrix::from: assert row lengths") := by
  rw [fromRows_unfold]
  have : (rows.toList.all (fun r => r.size == rowsN rows)) = false := by
    rw [List.all_eq_false]
    obtain ⟨r, hr, hne⟩ := h
    exact ⟨r, hr, by simpa using hne⟩
  simp only [this, Bool.not_false, ↓reduceIte]

/-- [S] `resize`: new dimensions, well-formed, the common prefix of the data is kept and
anything beyond the old data is zero -/
theorem resize_spec [OfNat α 0] (A : Dense α) (m n : Nat) :
    (resize A m n).m = m ∧ (resize A m n).n = n ∧
    (WF A → WF (resize A m n)) ∧
    (∀ k, k < m * n → k < A.data.size → (resize A m n).data[k]? = A.data[k]?) ∧
    (∀ k, k < m * n → A.data.size ≤ k → (resize A m n).data[k]? = some 0) := by
  refine ⟨rfl, rfl, ?_, ?_, ?_⟩
  · intro _
    simp only [WF, resize, List.size_toArray, List.length_append, List.length_take,
      Array.length_toList, List.length_replicate]
    omega
  · intro k hk hk'
    simp only [resize, List.getElem?_toArray]
    rw [List.getElem?_append_left (by simp; omega)]
    simp [List.getElem?_take, hk]
  · intro k hk hk'
    simp only [resize, List.getElem?_toArray]
    rw [List.getElem?_append_right (by simp; omega)]
    simp only [List.length_take, Array.length_toList]
    rw [List.getElem?_replicate]
    have : k - min (m * n) A.data.size < m * n - A.data.size := by omega
    simp [this]

/-! ### views -/

/-- [S] `(Aᵀ)ᵢⱼ = Aⱼᵢ`, for every matrix and every index pair (also out of range: both sides
then panic alike) -/
theorem get_T (A : Dense α) (i j : Nat) : get .T A i j = get .N A j i := rfl

/-- [S] the symmetric view reads the upper triangle on both sides of the diagonal -/
theorem get_S (A : Dense α) (i j : Nat) :
    get .S A i j = if i ≤ j then get .N A i j else get .N A j i := by
  by_cases h : i ≤ j <;> simp [get, indexLinear, h]

theorem get_S_symm (A : Dense α) (i j : Nat) : get .S A i j = get .S A j i := by
  rw [get_S, get_S]
  by_cases h : i ≤ j
  · by_cases h' : j ≤ i
    · have : i = j := by omega
      subst this; rfl
    · simp [h, h']
  · have h' : j ≤ i := by omega
    simp [h, h']

/-- [S] sizes of the views: `t()` and `sym()` both report `(ncols, nrows)` of the source -/
theorem view_shape (A : Dense α) :
    nrowsV .N A = A.m ∧ ncolsV .N A = A.n ∧ nrowsV .T A = A.n ∧ ncolsV .T A = A.m ∧
    nrowsV .S A = A.n ∧ ncolsV .S A = A.m ∧ shapeIsT .N = false ∧ shapeIsT .T = true ∧
    shapeIsT .S = false := ⟨rfl, rfl, rfl, rfl, rfl, rfl, rfl, rfl, rfl⟩

/-- the materialised transpose -/
def transpose (A : Dense α) [OfNat α 0] : Dense α :=
  ⟨A.n, A.m, tab A.n A.m (fun i j => A.data.getD (j + A.m * i) 0)⟩

/-- [S] transposition is an involution on well-formed matrices -/
theorem transpose_transpose [OfNat α 0] (A : Dense α) (hA : WF A) :
    transpose (transpose A) = A := by
  obtain ⟨m, n, d⟩ := A
  simp only [WF] at hA
  simp only [transpose, Dense.mk.injEq, true_and]
  apply Array.ext
  · simp [hA]
  · intro k h1 h2
    have hk : k < m * n := by simpa using h1
    have hm : k % m < m := mod_lt_of_lt_mul hk
    have hn : k / m < n := div_lt_of_lt_mul' hk
    have e1 : (tab m n fun i j => (tab n m fun i j => d.getD (j + m * i) 0).getD (j + n * i) 0)[k]? =
        some ((tab n m fun i j => d.getD (j + m * i) 0).getD (k / m + n * (k % m)) 0) :=
      tab_getElem? _ _ _ _ hk
    have e2 : (tab n m fun i j => d.getD (j + m * i) 0)[k / m + n * (k % m)]? =
        some (d.getD (k % m + m * (k / m)) 0) := tab_at _ _ _ hn hm
    have e3 : k % m + m * (k / m) = k := Nat.mod_add_div k m
    have e2' : (tab n m fun i j => d.getD (j + m * i) 0).getD (k / m + n * (k % m)) 0 =
        d.getD (k % m + m * (k / m)) 0 := by
      rw [Array.getD_eq_getD_getElem? (xs := tab n m fun i j => d.getD (j + m * i) 0), e2]; rfl
    have : (tab m n fun i j => (tab n m fun i j => d.getD (j + m * i) 0).getD (j + n * i) 0)[k]? = d[k]? := by
      rw [e1, e2', e3, Array.getD_eq_getD_getElem?, Array.getElem?_eq_getElem h2]; rfl
    rw [Array.getElem?_eq_getElem h1, Array.getElem?_eq_getElem h2] at this
    exact Option.some.inj this

theorem transpose_at [OfNat α 0] (A : Dense α) (hA : WF A) {i j : Nat} (hi : i < A.n) (hj : j < A.m) :
    at? (transpose A) i j = at? A j i := by
  simp only [at?, transpose]
  rw [tab_at _ _ _ hi hj]
  have : j + A.m * i < A.data.size := by rw [hA]; exact lin_lt hj hi
  simp [Array.getD_eq_getD_getElem?, this]

/-! ### indexing -/

/-- [S] `IndexMut` then `Index` -/
theorem set_spec (A : Dense α) (i j : Nat) (x : α) (h : i + A.m * j < A.data.size) :
    ∃ R, set A i j x = .ok R ∧ R.m = A.m ∧ R.n = A.n ∧ R.data.size = A.data.size ∧
      R.data[i + A.m * j]? = some x ∧ ∀ k, k ≠ i + A.m * j → R.data[k]? = A.data[k]? := by
  refine ⟨{ A with data := A.data.set (i + A.m * j) x h }, ?_, rfl, rfl, by simp, by simp, ?_⟩
  · unfold set
    rw [setE_ok _ _ _ _ h]
    rfl
  · intro k hk
    simp [Array.getElem?_set, Ne.symm hk]

theorem set_panic (A : Dense α) (i j : Nat) (x : α) (h : A.data.size ≤ i + A.m * j) :
    set A i j x = .error (.panic "dense index_mut") := by
  unfold set setE
  simp [Nat.not_lt.mpr h]
  rfl

/-- [S] `col_slice(col)` of a well-formed matrix: the `m` entries of column `col` -/
theorem colSlice_spec (A : Dense α) (hA : WF A) {col : Nat} (hc : col < A.n) :
    ∃ s, colSlice A col = .ok s ∧ s.size = A.m ∧ ∀ i, i < A.m → s[i]? = at? A i col := by
  have hle : (col + 1) * A.m ≤ A.data.size := by
    rw [hA, Nat.mul_comm]; exact Nat.mul_le_mul_left _ hc
  refine ⟨A.data.extract (col * A.m) ((col + 1) * A.m), ?_, ?_, ?_⟩
  · unfold colSlice sliceE
    simp [hc, Nat.not_lt.mpr hle]
    rfl
  · simp only [Array.size_extract]
    rw [Nat.min_eq_left hle, Nat.add_mul]; omega
  · intro i hi
    simp only [at?, Array.getElem?_extract]
    have : i < min ((col + 1) * A.m) A.data.size - col * A.m := by
      rw [Nat.min_eq_left hle, Nat.add_mul]; omega
    simp only [this, ↓reduceIte]
    congr 1
    rw [Nat.mul_comm, Nat.add_comm]

theorem colSlice_panic (A : Dense α) {col : Nat} (hc : A.n ≤ col) :
    colSlice A col = .error (.panic "col_slice: assert col < n") := by
  unfold colSlice
  simp [Nat.not_lt.mpr hc]
  rfl

/-- [S] `copy_from_slice` -/
theorem copyFromSlice_spec (A : Dense α) (src : Array α) :
    copyFromSlice A src = if A.data.size = src.size then .ok { A with data := src }
      else .error (.panic "copy_from_slice: length mismatch") := by
  unfold copyFromSlice Vec.copyFrom
  by_cases h : A.data.size = src.size
  · simp [h]; rfl
  · simp [h]; rfl

end Clarabel.Dense
