/-
  C06, round 6 — `psd_combined_step` (Lemmas/StepPsd.lean) composed with C13's `assembleScaling`
  contracts (Lemmas/ConesPsdScaling.lean): the hypotheses `R·R⁻¹ = I` and `λᵢ + λⱼ ≠ 0` of the PSD
  combined-step equation follow from the LAPACK contracts of `update_scaling`
  (`S = L₁L₁ᵀ`, `Z = L₂L₂ᵀ`, `L₂ᵀL₁ = U·diag(σ)·Vt`, `UᵀU = Vt·Vtᵀ = I`, `σ > 0`).
-/
import ClarabelProofs.Lemmas.StepPsd

namespace Clarabel.PsdTri
open PsdIndex (triangularNumber triangularIndex)
open Matrix

/-- the cone `assembleScaling` builds from LAPACK results satisfying their contracts has
`R·R⁻¹ = I`, well-sized `R`, `R⁻¹`, `λ = σ`, and no vanishing `λᵢ + λⱼ`; at the point `(s, z)` it is
the Nesterov–Todd scaling (`W z = λ = W⁻ᵀ s`, `mul_Hs z = s`) -/
theorem assembleScaling_step_hyps (n : Nat) (L1 L2 U Vt sig s z : Array ℝ)
    (h1 : L1.size = n * n) (h2 : L2.size = n * n) (hU : U.size = n * n) (hV : Vt.size = n * n)
    (hsg : sig.size = n) (hs : s.size = triangularNumber n) (hz : z.size = triangularNumber n)
    (hS : toM n (svecToMat s) = toM n (matOf n L1) * (toM n (matOf n L1))ᵀ)
    (hZ : toM n (svecToMat z) = toM n (matOf n L2) * (toM n (matOf n L2))ᵀ)
    (hsvd : (toM n (matOf n L2))ᵀ * toM n (matOf n L1)
      = toM n (matOf n U) * Matrix.diagonal (fun i : Fin n => sig.getD i 0) * toM n (matOf n Vt))
    (hUo : (toM n (matOf n U))ᵀ * toM n (matOf n U) = 1)
    (hVo : toM n (matOf n Vt) * (toM n (matOf n Vt))ᵀ = 1)
    (hpos : ∀ i, i < n → 0 < sig.getD i 0) :
    ∃ K RRt, assembleScaling n L1 L2 U Vt sig = .ok (K, RRt) ∧ K.n = n ∧ K.lam = sig ∧
      K.R.size = K.n * K.n ∧ K.Rinv.size = K.n * K.n ∧ K.lam.size = K.n ∧
      toM K.n (matOf K.n K.R) * toM K.n (matOf K.n K.Rinv) = 1 ∧
      (∀ i j, i < K.n → j < K.n → K.lam.getD i 0 + K.lam.getD j 0 ≠ 0) ∧
      mulW K false z z 1 0 = .ok (lamVec K.n K.lam) ∧
      mulWinv K true s s 1 0 = .ok (lamVec K.n K.lam) ∧
      mulHs K z = .ok s := by
  obtain ⟨K, RRt, hK, hW, _, hH, hI⟩ := assembleScaling_nt n L1 L2 U Vt sig s z z h1 h2 hU hV hsg
    hs hz hz hS hZ hsvd hUo hVo hpos
  obtain ⟨K', RRt', hK', _, hWi, _, _⟩ := assembleScaling_nt n L1 L2 U Vt sig s z s h1 h2 hU hV hsg
    hs hz hs hS hZ hsvd hUo hVo hpos
  obtain ⟨K'', RRt'', _, hK'', hn, hlam, hRs, hRis, _⟩ :=
    assembleScaling_spec n L1 L2 U Vt sig h1 h2 hU hV hsg
  have e1 : K' = K := by
    rw [hK] at hK'
    simp only [Except.ok.injEq, Prod.mk.injEq] at hK'
    exact hK'.1.symm
  have e2 : K'' = K := by
    rw [hK] at hK''
    simp only [Except.ok.injEq, Prod.mk.injEq] at hK''
    exact hK''.1.symm
  subst e1 e2
  subst hn
  refine ⟨K'', RRt, hK, rfl, hlam, hRs, hRis, by rw [hlam]; exact hsg, hI, ?_, hW, hWi, hH⟩
  intro i j hi hj
  rw [hlam]
  have := hpos i hi
  have := hpos j hj
  linarith

/-- **PSD: the combined step satisfies the linearised complementarity equation, from the LAPACK
contracts alone.**  `K` is the cone `assembleScaling` (the tail of `update_scaling` after the
LAPACK calls) builds; everything `psd_combined_step` concludes holds for it. -/
theorem psd_combined_step_contracts (n : Nat) (L1 L2 U Vt sig s z dza dsa dz y y' : Array ℝ) (σμ : ℝ)
    (h1 : L1.size = n * n) (h2 : L2.size = n * n) (hU : U.size = n * n) (hV : Vt.size = n * n)
    (hsg : sig.size = n) (hs : s.size = triangularNumber n) (hz : z.size = triangularNumber n)
    (hza : dza.size = triangularNumber n) (hsa : dsa.size = triangularNumber n)
    (hdz : dz.size = triangularNumber n) (hy : y.size = triangularNumber n)
    (hy' : y'.size = triangularNumber n)
    (hS : toM n (svecToMat s) = toM n (matOf n L1) * (toM n (matOf n L1))ᵀ)
    (hZ : toM n (svecToMat z) = toM n (matOf n L2) * (toM n (matOf n L2))ᵀ)
    (hsvd : (toM n (matOf n L2))ᵀ * toM n (matOf n L1)
      = toM n (matOf n U) * Matrix.diagonal (fun i : Fin n => sig.getD i 0) * toM n (matOf n Vt))
    (hUo : (toM n (matOf n U))ᵀ * toM n (matOf n U) = 1)
    (hVo : toM n (matOf n Vt) * (toM n (matOf n Vt))ᵀ = 1)
    (hpos : ∀ i, i < n → 0 < sig.getD i 0) :
    ∃ K RRt, assembleScaling n L1 L2 U Vt sig = .ok (K, RRt) ∧ K.n = n ∧ K.lam = sig ∧
      mulW K false z z 1 0 = .ok (lamVec K.n K.lam) ∧
      mulWinv K true s s 1 0 = .ok (lamVec K.n K.lam) ∧
      mulHs K z = .ok s ∧
      ∃ sh wz ws aff h c p r,
        combinedDsShift K dza dsa σμ = .ok (sh, wz, ws) ∧
        affineDs K (triangularNumber K.n) = .ok aff ∧
        circOp K.n (lamVec K.n K.lam) (lamVec K.n K.lam) = .ok aff ∧
        mulHs K dz = .ok h ∧
        dsFromDzOffset K (Vec.axpby 1 sh 1 aff) = .ok c ∧
        mulW K false y dz 1 0 = .ok p ∧
        mulWinv K true y' (Vec.axpby (-1) c (-1) h) 1 0 = .ok r ∧
        circOp K.n (lamVec K.n K.lam) (Vec.waxpby 1 p 1 r)
          = .ok (Vec.negate (Vec.axpby 1 sh 1 aff)) ∧
        toM K.n (svecToMat (Vec.axpby 1 sh 1 aff))
          = (1 / 2 : ℝ) •
              ((toM K.n (matOf K.n K.Rinv) * toM K.n (svecToMat dsa) * (toM K.n (matOf K.n K.Rinv))ᵀ)
                * ((toM K.n (matOf K.n K.R))ᵀ * toM K.n (svecToMat dza) * toM K.n (matOf K.n K.R))
              + ((toM K.n (matOf K.n K.R))ᵀ * toM K.n (svecToMat dza) * toM K.n (matOf K.n K.R))
                * (toM K.n (matOf K.n K.Rinv) * toM K.n (svecToMat dsa) * (toM K.n (matOf K.n K.Rinv))ᵀ))
            - σμ • (1 : Matrix (Fin K.n) (Fin K.n) ℝ)
            + Matrix.diagonal (fun i : Fin K.n => K.lam.getD i 0)
              * Matrix.diagonal (fun i : Fin K.n => K.lam.getD i 0) := by
  obtain ⟨K, RRt, hK, hn, hlam, hR, hRi, hl, hinv, hne, hW, hWi, hH⟩ :=
    assembleScaling_step_hyps n L1 L2 U Vt sig s z h1 h2 hU hV hsg hs hz hS hZ hsvd hUo hVo hpos
  refine ⟨K, RRt, hK, hn, hlam, hW, hWi, hH, ?_⟩
  exact psd_combined_step K dza dsa dz y y' σμ hR hRi hl (by rw [hn]; exact hza) (by rw [hn]; exact hsa)
    (by rw [hn]; exact hdz) (by rw [hn]; exact hy) (by rw [hn]; exact hy') hinv hne

end Clarabel.PsdTri
