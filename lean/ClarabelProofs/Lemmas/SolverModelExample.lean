/-
  A concrete run of the whole-solver model that the kernel can evaluate (scalar type `Int`):
  used by the non-vacuity examples of the full-model property theorems (C03, C04, C05, C07).
  The `FloatLike Int` instance is a local instance of this file and of the example sections
  that open it (no global instance is added).
-/
import ClarabelProofs.Lemmas.SolverModelPrefix
import ClarabelProofs.Lemmas.SolverModelRefine

namespace Clarabel.Solver.Example
open Clarabel Clarabel.Solver

/-- integer arithmetic as a scalar type (structural theorems hold for every scalar type) -/
@[reducible] def intFloatLike : FloatLike Int where
  sqrt := id
  exp := id
  log := id
  powf := fun a _ => a
  fmax := max
  fmin := min
  fabs := fun a => a.natAbs
  isNaN := fun _ => false
  isFinite := fun _ => true
  eps := 0
  ofNat := Int.ofNat

attribute [local instance] intFloatLike

def tols : Clarabel.Info.Tols Int := ⟨1, 1, 1, 1, 1, 1⟩

/-- settings with iteration budget `k` (no equilibration / presolve / refinement) -/
def st (k : Nat) : Settings Int :=
  { info := { full := tols, reduced := tols, max_iter := k }, maxStepFraction := 1,
    minTerminateStepLength := 0,
    equil := { enable := false, maxIter := 0, minScaling := 1, maxScaling := 1 },
    lin := { staticRegEnable := false, staticRegConstant := 0, staticRegProportional := 0,
             dynRegEps := 1, dynRegDelta := 1, irEnable := false, irReltol := 0, irAbstol := 0,
             irMaxIter := 0, irStopRatio := 1 },
    presolveEnable := false, infbound := 1000000, maxValue := 1000000 }

/-- minimise `x` subject to `x + s = 1`, `s ≥ 0` -/
def P : Csc Int := { m := 1, n := 1, colptr := #[0, 0], rowval := #[], nzval := #[] }
def A : Csc Int := { m := 1, n := 1, colptr := #[0, 1], rowval := #[0], nzval := #[1] }

/-- `DefaultSolver::new` on the example -/
def newSolver (k : Nat) : MErr (Solver Int) := Solver.new P #[1] A #[1] [.nonneg 1] (st k) #[0, 1]

/-- `new` followed by `solve()` -/
def run (k : Nat) : MErr (SolveResult Int) := do (← newSolver k).solve (st k)

/-- the model runs to `Solved` in one iteration / two passes with `max_iter = 3` … -/
theorem run3 : (run 3).toOption.map (fun r => (r.passes, r.S.solution.status, r.S.solution.iterations))
    = some (2, .solved, 1) := by decide +kernel
/-- … and to `MaxIterations` in one pass with `max_iter = 0` -/
theorem run0 : (run 0).toOption.map (fun r => (r.passes, r.S.solution.status, r.S.solution.iterations))
    = some (1, .maxIterations, 0) := by decide +kernel

end Clarabel.Solver.Example
