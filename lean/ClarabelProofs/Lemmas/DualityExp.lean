/-
  C05 (weak duality): pairing nonnegativity for the **closed** exponential cone
  `K_exp = cl{(x,y,z) : y > 0, y·exp(x/y) ≤ z} = {y > 0, y·exp(x/y) ≤ z} ∪ {x ≤ 0, y = 0, z ≥ 0}`
  of `src/solver/core/cones/expcone.rs` and its dual
  `K_exp* = {(u,v,w) : u < 0, −u·exp(v/u) ≤ e·w} ∪ {u = 0, v ≥ 0, w ≥ 0}`
  — all four combinations of interior/boundary pieces.
-/
import Mathlib.Analysis.SpecialFunctions.Exp
import Mathlib.Tactic.Linarith
import Mathlib.Tactic.FieldSimp
import Mathlib.Tactic.Ring

namespace Clarabel.Lemmas

/-- the closed exponential cone -/
def ExpK (x y z : ℝ) : Prop :=
  (0 < y ∧ y * Real.exp (x / y) ≤ z) ∨ (x ≤ 0 ∧ y = 0 ∧ 0 ≤ z)

/-- the closed dual exponential cone -/
def ExpKdual (u v w : ℝ) : Prop :=
  (u < 0 ∧ -u * Real.exp (v / u) ≤ Real.exp 1 * w) ∨ (u = 0 ∧ 0 ≤ v ∧ 0 ≤ w)

/-- the parts `y > 0`, `u < 0` (same proof as `Clarabel.C05.exp_cone_pairing_nonneg`):
`exp(t − 1) ≥ t` with `t = x/y + v/u` -/
theorem exp_pair_nonneg_interior (x y z u v w : ℝ) (hy : 0 < y)
    (hs : y * Real.exp (x / y) ≤ z) (hu : u < 0)
    (hz : -u * Real.exp (v / u) ≤ Real.exp 1 * w) : 0 ≤ x * u + y * v + z * w := by
  have hnu : 0 < -u := by linarith
  have he : 0 < Real.exp 1 := Real.exp_pos 1
  have hw : -u * Real.exp (v / u - 1) ≤ w := by
    rw [Real.exp_sub, mul_div_assoc']
    rw [div_le_iff₀ he]
    linarith
  have hz0 : 0 ≤ z := le_trans (mul_nonneg hy.le (Real.exp_pos _).le) hs
  have hzw : y * Real.exp (x / y) * (-u * Real.exp (v / u - 1)) ≤ z * w :=
    mul_le_mul hs hw (mul_nonneg hnu.le (Real.exp_pos _).le) hz0
  have hcomb : y * Real.exp (x / y) * (-u * Real.exp (v / u - 1))
      = (-u * y) * Real.exp (x / y + v / u - 1) := by
    rw [show x / y + v / u - 1 = x / y + (v / u - 1) by ring, Real.exp_add]; ring
  have ht := Real.add_one_le_exp (x / y + v / u - 1)
  have h1 : y * (x / y) = x := by field_simp
  have h2 : u * (v / u) = v := mul_div_cancel₀ v hu.ne
  have hlin : x * u + y * v = -(-u * y) * (x / y + v / u) := by
    calc x * u + y * v = (y * (x / y)) * u + y * (u * (v / u)) := by rw [h1, h2]
      _ = -(-u * y) * (x / y + v / u) := by ring
  have hpos : 0 ≤ -u * y := (mul_pos hnu hy).le
  nlinarith [mul_le_mul_of_nonneg_left ht hpos]

/-- [R] `s ∈ K_exp`, `z ∈ K_exp*` ⟹ `⟨s,z⟩ ≥ 0` for the closed cones (4 cases) -/
theorem exp_pair_nonneg_closed {x y z u v w : ℝ} (hs : ExpK x y z) (hz : ExpKdual u v w) :
    0 ≤ x * u + y * v + z * w := by
  rcases hs with ⟨hy, hs⟩ | ⟨hx, hy, hz0⟩
  · rcases hz with ⟨hu, hz⟩ | ⟨hu, hv, hw⟩
    · exact exp_pair_nonneg_interior x y z u v w hy hs hu hz
    · -- interior × dual boundary
      have hz0 : 0 ≤ z := le_trans (mul_nonneg hy.le (Real.exp_pos _).le) hs
      rw [hu, mul_zero, zero_add]
      exact add_nonneg (mul_nonneg hy.le hv) (mul_nonneg hz0 hw)
  · rcases hz with ⟨hu, hz⟩ | ⟨hu, hv, hw⟩
    · -- primal boundary × interior
      have hnu : 0 < -u := by linarith
      have he : 0 < Real.exp 1 := Real.exp_pos 1
      have h0 : 0 ≤ Real.exp 1 * w := le_trans (mul_nonneg hnu.le (Real.exp_pos _).le) hz
      have hw : 0 ≤ w := by
        by_contra hneg
        have : Real.exp 1 * w < 0 := mul_neg_of_pos_of_neg he (not_le.mp hneg)
        linarith
      rw [hy, zero_mul, add_zero]
      exact add_nonneg (mul_nonneg_of_nonpos_of_nonpos hx hu.le) (mul_nonneg hz0 hw)
    · rw [hu, hy, mul_zero, zero_mul, zero_add, zero_add]
      exact mul_nonneg hz0 hw

end Clarabel.Lemmas
