/-
  Panic-freedom of the whole-solver model WITH NONSYMMETRIC CONES (C04) — assembly of the stages and
  THE END-TO-END STATEMENTS (QDLDL backend; zero / nonnegative / second-order / exponential / power /
  generalised power cones).

  Hypotheses, all explicit:
  * `InputOKN P q A b cones` : `Solver.InputOK` (canonical CSC, consistent dimensions, `Σ nvars = m`) and
                               the construction guard of every generalised power cone (`GenPow.new`:
                               exponents `> 0`, `|1 − Σα| < ε·len/2`); nothing about a power cone's exponent
                               (the code does not check it);
  * `0 < P.n`, `PermForN …`, `PivotOK st.lin`, `FmaxOK α` : as for the symmetric model
                               (`SolverModelNoPanicC04.lean`); the KKT dimension now counts 3 extra
                               rows per generalised power cone.
  Conclusion: `new` never panics; every `solve()` on its result returns `.ok` and the invariant holds
  again — or it stops at one of the two NUMERICAL-DOMAIN sites `NumSite` (`_wright_omega` called with a
  negative argument; the model's fuel for the unbounded `loop` of `backtrack_search`).  Every other
  `.panic` of the model — every index / slice / length assert, `unwrap`, `unreachable!` arm, the
  `assert!(ζ > 0)` of the generalised power cone, the model's pass budget — is excluded, at class [S].
  Problems without exponential cones cannot reach the first site, problems with symmetric cones only
  reach neither (`solve_okOr` is generic in the set `E` of allowed sites; `coneStage` needs `E` to
  contain both because its fields quantify over ALL cone lists).
-/
import ClarabelProofs.Lemmas.SolverNSNoPanicConesA
import ClarabelProofs.Lemmas.SolverNSNoPanicConesB
import ClarabelProofs.Lemmas.SolverNSNoPanicVars
import ClarabelProofs.Lemmas.SolverNSNoPanicKktNew
import ClarabelProofs.Lemmas.SolverNSNoPanicPass
import ClarabelProofs.Lemmas.SolverNSNoPanicNew

namespace Clarabel.SolverNS
open Clarabel Info Residuals
open Clarabel.Solver (NoPanic OkAnd FmaxOK VarsSized ResidSized DataOK KSized KktSolver LinSettings
  StepDirection KktSys SolutionSized bind_ok_of PivotOK)

set_option linter.unusedSectionVars false
set_option linter.unusedVariables false

variable {α : Type}

section
variable [Add α] [Sub α] [Mul α] [Div α] [Neg α] [LT α] [LE α] [DecidableLT α] [DecidableLE α]
  [BEq α] [OfNat α 0] [OfNat α 1] [OfNat α 2] [OfNat α 3] [OfNat α 4] [OfNat α 100] [OfNat α 1000]
  [OfScientific α] [FloatLike α]

/-- [S] the composite-cone stage for composites with the KKT view `specs`: every composite-cone
operation the solver calls is total on consistently sized cone objects and vectors of the cone's
dimension, up to the allowed numerical-domain sites — `_wright_omega` only if the composite has an
exponential cone, `backtrack_search` only if it has a nonsymmetric cone.  The only law of the scalar
type used is `FmaxOK` — and not even that when the second-order cone's
`panic!("starting point of line search not in SOC")` is an allowed site. -/
theorem coneStageFor {E : String → Prop} (specs : List Kkt.ConeSpec)
    (hs : FmaxOK α ∨ E "starting point of line search not in SOC")
    (hw : hasExp specs → E "argument not in supported range")
    (hb : hasNonsym specs → E "backtrack_search: fuel") : ConeStage (α := α) E specs where
  updateScaling := fun cones s z mu dual h h1 h2 hsp =>
    updateScaling_okC cones s z mu dual (fun he => hw (hsp ▸ he)) h h1 h2
  affineDs := fun cones ds s h h1 h2 _ => affineDs_ok cones ds s h h1 h2
  mulHs := fun cones y x h h1 h2 _ => mulHs_ok cones y x h h1 h2
  combinedDsShift := fun cones shift stepZ stepS σμ h h1 h2 h3 _ =>
    combinedDsShift_ok cones shift stepZ stepS σμ h h1 h2 h3
  dsFromDzOffset := fun cones out ds z h h1 h2 h3 _ => dsFromDzOffset_ok cones out ds z h h1 h2 h3
  stepLength := fun ls cones dz ds z s msf amax h h1 h2 h3 h4 hsp =>
    stepLength_okC hs ls cones dz ds z s msf amax (fun hn => hb (hsp ▸ hn)) h h1 h2 h3 h4
  unitInitialization := fun cones z s h h1 h2 _ => unitInitialization_ok cones z s h h1 h2
  computeBarrier := fun cones z s dz ds a h h1 h2 h3 h4 hsp =>
    computeBarrier_okC cones z s dz ds a (fun he => hw (hsp ▸ he)) h h1 h2 h3 h4
  getHs := fun cones h _ => getHs_ok cones h
  setIdentity := fun cones hsym h _ => setIdentityScaling_ok cones hsym h
  symInit := fun cones v n m hsym h hm hv _ => symInit_ok cones v n m hsym h hm hv

/-- [S] the linear-solver stage for the QDLDL backend, unconditionally -/
theorem kktStage (specs : List Kkt.ConeSpec) (n m : Nat) (st : LinSettings α) :
    KktTotal (KktInvWN specs n m) (KktInvSN specs n m) specs n m st :=
  kktTotalN getHs_ok specs n m st

/-- [S] all stages of `solve()` for the QDLDL backend -/
theorem stagesFor {E : String → Prop} (hs : FmaxOK α ∨ E "starting point of line search not in SOC")
    (d : ProblemData α) (specs : List Kkt.ConeSpec) (st : Settings α)
    (hw : hasExp specs → E "argument not in supported range")
    (hb : hasNonsym specs → E "backtrack_search: fuel") :
    Stages E (KktInvWN specs d.n d.m) (KktInvSN specs d.n d.m) d specs st :=
  ⟨coneStageFor specs hs hw hb, midStage (coneStageFor specs hs hw hb), kktStage specs d.n d.m st.lin⟩

theorem stagesQdldl' {E : String → Prop} (hs : FmaxOK α ∨ E "starting point of line search not in SOC")
    (hw : E "argument not in supported range")
    (hb : E "backtrack_search: fuel") (d : ProblemData α) (specs : List Kkt.ConeSpec) (st : Settings α) :
    Stages E (KktInvWN specs d.n d.m) (KktInvSN specs d.n d.m) d specs st :=
  stagesFor hs d specs st (fun _ => hw) (fun _ => hb)

theorem stagesQdldl {E : String → Prop} (hf : FmaxOK α) (hw : E "argument not in supported range")
    (hb : E "backtrack_search: fuel") (d : ProblemData α) (specs : List Kkt.ConeSpec) (st : Settings α) :
    Stages E (KktInvWN specs d.n d.m) (KktInvSN specs d.n d.m) d specs st :=
  stagesQdldl' (Or.inl hf) hw hb d specs st

/-- **the invariant of a solver object** (model with nonsymmetric cones, QDLDL backend), anchored at
its own data and cone layout: `Shapes` (every vector of the solver object has the problem's
dimension; cone objects consistently sized — incl. the generalised power cones' work vectors — and
covering `m` rows; data well formed; `KktInvWN` for the linear solver object: vector lengths, every
index of the `Hs` / diagonal / expansion maps — soc `u, v, D` and genpow `p, q, r, D` — a slot of the
KKT value array, QDLDL workspace) and the solution object sized for the user's problem. -/
def SolverInvN (S : Solver α) : Prop :=
  SolverInv (KktInvWN (S.st.cones.map ConeSt.kktSpec) S.st.data.n S.st.data.m) S.st.data
    (S.st.cones.map ConeSt.kktSpec) S

/-- [S] **solve half**: on every solver object satisfying `SolverInvN`, `solve()` returns `.ok` and
the object it leaves satisfies `SolverInvN` again — or it stops at a site of `E` -/
theorem solve_okOrN {E : String → Prop} (hf : FmaxOK α) (hw : E "argument not in supported range")
    (hb : E "backtrack_search: fuel") {S : Solver α} (st : Settings α) (h : SolverInvN S) :
    OkOr E (S.solve st) (fun r => SolverInvN r.S) := by
  refine (solve_okOr (stagesQdldl hf hw hb S.st.data (S.st.cones.map ConeSt.kktSpec) st) h).mono
    fun r hI' => ?_
  obtain ⟨⟨nq, nb, hd⟩, _, hI⟩ := hI'
  have en : r.S.st.data.n = S.st.data.n := by rw [hd]
  have em : r.S.st.data.m = S.st.data.m := by rw [hd]
  have e2 : r.S.st.cones.map ConeSt.kktSpec = S.st.cones.map ConeSt.kktSpec := hI.st.specs
  unfold SolverInvN
  rw [en, em, e2]
  exact hI

/-- [S] **solve half, sharp form**: the sites a `solve()` can stop at are those of ITS OWN composite
cone: `_wright_omega` only if it has an exponential cone, `backtrack_search` only if it has a
nonsymmetric cone (`SiteFor`) -/
theorem solve_okOrFor (hf : FmaxOK α) {S : Solver α} (st : Settings α) (h : SolverInvN S) :
    OkOr (SiteFor (S.st.cones.map ConeSt.kktSpec)) (S.solve st) (fun r => SolverInvN r.S) := by
  refine (solve_okOr (stagesFor (Or.inl hf) S.st.data (S.st.cones.map ConeSt.kktSpec) st
    (fun he => Or.inl ⟨rfl, he⟩) (fun hn => Or.inr ⟨rfl, hn⟩)) h).mono fun r hI' => ?_
  obtain ⟨⟨nq, nb, hd⟩, _, hI⟩ := hI'
  have en : r.S.st.data.n = S.st.data.n := by rw [hd]
  have em : r.S.st.data.m = S.st.data.m := by rw [hd]
  have e2 : r.S.st.cones.map ConeSt.kktSpec = S.st.cones.map ConeSt.kktSpec := hI.st.specs
  unfold SolverInvN
  rw [en, em, e2]
  exact hI

/-- [S] a composite WITHOUT exponential cone: the only site left is the fuel of `backtrack_search` -/
theorem solve_okOr_noExp (hf : FmaxOK α) {S : Solver α} (st : Settings α) (h : SolverInvN S)
    (hne : ¬ hasExp (S.st.cones.map ConeSt.kktSpec)) :
    OkOr (fun s => s = "backtrack_search: fuel") (S.solve st) (fun r => SolverInvN r.S) :=
  (solve_okOrFor hf st h).mono_site fun s hs =>
    hs.elim (fun h1 => absurd h1.2 hne) (fun h2 => h2.1)

/-- [S] a composite with SYMMETRIC cones only (zero / nonnegative / second-order), run through the
model with nonsymmetric cones: `solve()` returns `.ok` — no exception at all, as for the symmetric
model (`C04.full_no_panic`) -/
theorem solve_ok_symmetric (hf : FmaxOK α) {S : Solver α} (st : Settings α) (h : SolverInvN S)
    (hns : ¬ hasNonsym (S.st.cones.map ConeSt.kktSpec)) :
    OkAnd (S.solve st) (fun r => SolverInvN r.S) :=
  OkOr.okAnd ((solve_okOrFor hf st h).mono_site fun s hs =>
    hs.elim (fun h1 => hns ⟨_, h1.2, Or.inl rfl⟩) (fun h2 => hns h2.2))

/-- [S] **the invariant is kept by every `solve()` that returns** — no law of the scalar type at all
(instantiate the stages with every panic site allowed): whatever a successful `solve()` leaves
satisfies `SolverInvN` again; it is anchored at the same cone layout and at the data at entry with the
two norm caches filled (`Solver.fillNorms`: same `n`, `m`) -/
theorem solve_inv_of_ok {S : Solver α} {st : Settings α} {r : SolveResult α} (h : SolverInvN S)
    (hr : S.solve st = .ok r) :
    (Solver.fillNorms S.st.data = .ok r.S.st.data
      ∧ SolverInv (KktInvWN (S.st.cones.map ConeSt.kktSpec) S.st.data.n S.st.data.m) r.S.st.data
          (S.st.cones.map ConeSt.kktSpec) r.S) ∧ SolverInvN r.S := by
  have hs := solve_okOr (E := fun _ => True)
    (stagesQdldl' (Or.inr trivial) trivial trivial S.st.data (S.st.cones.map ConeSt.kktSpec) st) h
  obtain ⟨⟨nq, nb, hd⟩, hfill, hI⟩ := hs.of_ok hr
  refine ⟨⟨hfill, hI⟩, ?_⟩
  have en : r.S.st.data.n = S.st.data.n := by rw [hd]
  have em : r.S.st.data.m = S.st.data.m := by rw [hd]
  have e2 : r.S.st.cones.map ConeSt.kktSpec = S.st.cones.map ConeSt.kktSpec := hI.st.specs
  unfold SolverInvN
  rw [en, em, e2]
  exact hI

/-- the ordering handed to QDLDL is a permutation of the KKT dimension of the internal problem
(whatever internal data and composite cone `DefaultSolver::new` arrives at) -/
def PermForN (P : Csc α) (q : Array α) (A : Csc α) (b : Array α) (cones : List (ConeT α))
    (st : Settings α) (perm : Array Nat) : Prop :=
  ∀ d K, internalData P q A b cones st = .ok d → makeCones d.cones = .ok K → PermOKN perm d K

/-- [S] **`new` never panics** on well-formed input (it may return `.err` — a PSD cone is outside
the model —, never `.panic`) -/
theorem solverNew_noPanicQ {P : Csc α} {q : Array α} {A : Csc α} {b : Array α}
    {cones : List (ConeT α)} {st : Settings α} {perm : Array Nat} (hin : InputOKN P q A b cones)
    (hn : 0 < P.n) (hperm : PermForN P q A b cones st perm) (hpiv : PivotOK st.lin) :
    NoPanic (Solver.new P q A b cones st perm) := by
  refine solverNew_noPanicN hin fun d K hd hK hdok hfull hnum => ?_
  have hdn : d.n = P.n := (internalData_dataOKN hin hd).2.1.trans hin.base.A_n
  exact NoPanic.of_exists
    ((kktSolverNew_okN hdok hfull hnum (hperm d K hd hK) (by omega) hpiv).imp fun _ h => h.1)

/-- [S] **`new` establishes the invariant** -/
theorem solverNew_invQ {P : Csc α} {q : Array α} {A : Csc α} {b : Array α}
    {cones : List (ConeT α)} {st : Settings α} {perm : Array Nat} (hin : InputOKN P q A b cones)
    (hn : 0 < P.n) (hperm : PermForN P q A b cones st perm) (hpiv : PivotOK st.lin)
    {S : Solver α} (h : Solver.new P q A b cones st perm = .ok S) : SolverInvN S := by
  refine solverNew_invN (KIw := fun specs n m => KktInvWN specs n m) hin
    (fun d K Ks hd hK hdok hfull hnum hKs => ?_) h
  have hdn : d.n = P.n := (internalData_dataOKN hin hd).2.1.trans hin.base.A_n
  obtain ⟨Ks', hKs', hI⟩ := kktSolverNew_okN (st := st.lin) hdok hfull hnum (hperm d K hd hK) (by omega) hpiv
  rw [hKs] at hKs'
  cases hKs'
  exact hI

/-- [S] the full statement -/
theorem solver_noPanicN {E : String → Prop} {P : Csc α} {q : Array α} {A : Csc α} {b : Array α}
    {cones : List (ConeT α)} {st : Settings α} {perm : Array Nat} (hin : InputOKN P q A b cones)
    (hn : 0 < P.n) (hperm : PermForN P q A b cones st perm) (hpiv : PivotOK st.lin) (hf : FmaxOK α)
    (hw : E "argument not in supported range") (hb : E "backtrack_search: fuel") :
    NoPanic (Solver.new P q A b cones st perm) ∧
      ∀ S, Solver.new P q A b cones st perm = .ok S → SolverInvN S ∧
        OkOr E (S.solve st) (fun r => SolverInvN r.S) :=
  ⟨solverNew_noPanicQ hin hn hperm hpiv,
    fun S h => ⟨solverNew_invQ hin hn hperm hpiv h, solve_okOrN hf hw hb st (solverNew_invQ hin hn hperm hpiv h)⟩⟩

/-- any number of successive `solve()` calls: the `k`-th is covered like the first -/
theorem solve_iterate_okOrN {E : String → Prop} (hf : FmaxOK α) (hw : E "argument not in supported range")
    (hb : E "backtrack_search: fuel") (st : Settings α) : ∀ (k : Nat) {S : Solver α}, SolverInvN S →
    OkOr E (Nat.rec (motive := fun _ => MErr (Solver α)) (pure S)
        (fun _ acc => acc >>= fun T => (T.solve st).map (·.S)) k) SolverInvN
  | 0, S, h => h
  | k + 1, S, h => by
    refine (solve_iterate_okOrN hf hw hb st k h).bind fun T hT => ?_
    have := solve_okOrN (E := E) hf hw hb st hT
    cases hs : T.solve st with
    | error e =>
      rw [hs] at this
      cases e with
      | panic s => exact this
      | err k => exact this.elim
    | ok r =>
      rw [hs] at this
      exact this

end

end Clarabel.SolverNS
