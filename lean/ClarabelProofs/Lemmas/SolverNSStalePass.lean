/-
  Solving twice on the whole-solver model WITH NONSYMMETRIC CONES (C05), the relational part — one
  pass of the loop.  NS counterpart of `Lemmas/SolverStalePass.lean`: two loop states related by
  `PRel` (what a pass may still read of the state a previous solve left) go through the same branch
  of `pass`, record the same figures, and are related again.

  New compared with the symmetric model: the loop-carried scaling strategy, the three checkpoints
  that `continue` without `save_prev_iterate` (so "`prev_*` of this solve have been written" is
  `Late`, not `1 ≤ iter`), the cone relation `ConesShape` (the nonsymmetric cones carry dead state
  until their first `update_scaling`), and the number of map-consuming cones handed to
  `KKTSolver::update` (`k ≤ nSpN`), which `update_scaling` keeps.

  All structural ([S]).
-/
import ClarabelProofs.Lemmas.SolverNSStaleCones
import ClarabelProofs.Lemmas.SolverNSStaleKkt
import ClarabelProofs.Lemmas.SolverNSIdemInfo

namespace Clarabel.SolverNS
open Clarabel Info Residuals
open Clarabel.Solver (RelM SameFrom VarsShape StepShape ResidShape ListRel KRel KktSolver KktSys
  LinSettings QB InfoEqv carryPrev PrevEq VarsXSZ SolShape StepDirection bind_ok_inv
  varsCopyFrom addStep copyInto status_bne carryPrev_of_prevEq carryPrev_self prevEq_self)

set_option linter.unusedSectionVars false
set_option linter.unusedVariables false

variable {α : Type}

/-! ### `update_scaling` / `set_identity_scaling` keep the number of map-consuming cones -/

section
variable [Add α] [Sub α] [Mul α] [Div α] [Neg α] [LT α] [LE α] [DecidableLT α] [DecidableLE α]
  [BEq α] [OfNat α 0] [OfNat α 1] [OfNat α 2] [OfNat α 3] [OfNat α 4] [OfNat α 100] [OfNat α 1000]
  [OfScientific α] [FloatLike α]

/-- `SecondOrderCone::update_scaling` (on split vectors): a sparse cone stays sparse, a dense one
dense -/
theorem soc_core_sparse (K : Soc.Cone α) (s0 : α) (s1 : List α) (z0 : α) (z1 : List α) :
    (Soc.updateScalingCore K s0 s1 z0 z1).2.sparse.isSome = K.sparse.isSome := by
  unfold Soc.updateScalingCore
  dsimp only
  split
  · rfl
  · split
    · rfl
    · dsimp only
      cases K.sparse <;> rfl

theorem soc_updateScaling_sparse {K : Soc.Cone α} {s z : Array α} {r : Bool × Soc.Cone α}
    (h : Soc.updateScaling K s z = .ok r) : r.2.sparse.isSome = K.sparse.isSome := by
  unfold Soc.updateScaling at h
  obtain ⟨⟨z0, z1⟩, _, h⟩ := bind_ok_inv h
  obtain ⟨⟨s0, s1⟩, _, h⟩ := bind_ok_inv h
  dsimp only at h
  split at h
  · cases h
  · split at h
    · cases h
    · cases h
      exact soc_core_sparse K s0 s1 z0 z1

/-- what `nSpN` reads of one cone -/
def spBit : ConeSt α → Nat
  | .sym (.soc sc) => if sc.sparse.isSome then 1 else 0
  | .genpow .. => 1
  | _ => 0

theorem nSpN_cons (c : ConeSt α) (cs : List (ConeSt α)) : nSpN (c :: cs) = spBit c + nSpN cs := by
  cases c with
  | sym c =>
    cases c with
    | zero d => show nSpN cs = 0 + nSpN cs; omega
    | nonneg K => show nSpN cs = 0 + nSpN cs; omega
    | soc K => rfl
  | exp K => show nSpN cs = 0 + nSpN cs; omega
  | pow a K => show nSpN cs = 0 + nSpN cs; omega
  | genpow al d2 ψ K => rfl

theorem updateScaling1_spBit {c : ConeSt α} {s z : Array α} {mu : α} {dual : Bool} {r : Bool × ConeSt α}
    (h : updateScaling1 c s z mu dual = .ok r) : spBit r.2 = spBit c := by
  cases c with
  | sym c =>
    unfold updateScaling1 at h
    obtain ⟨⟨ok, c1⟩, h1, h⟩ := bind_ok_inv h
    cases h
    cases c with
    | zero d =>
      unfold Solver.updateScaling1 at h1
      cases h1
      rfl
    | nonneg K =>
      unfold Solver.updateScaling1 at h1
      obtain ⟨K1, _, h1⟩ := bind_ok_inv h1
      cases h1
      rfl
    | soc K =>
      unfold Solver.updateScaling1 at h1
      obtain ⟨⟨ok1, K1⟩, h2, h1⟩ := bind_ok_inv h1
      cases h1
      show (if K1.sparse.isSome then 1 else 0) = (if K.sparse.isSome then 1 else 0)
      rw [soc_updateScaling_sparse h2]
  | exp K =>
    unfold updateScaling1 at h
    obtain ⟨_, _, h⟩ := bind_ok_inv h
    obtain ⟨_, _, h⟩ := bind_ok_inv h
    obtain ⟨_, _, h⟩ := bind_ok_inv h
    cases h
    rfl
  | pow a K =>
    unfold updateScaling1 at h
    obtain ⟨_, _, h⟩ := bind_ok_inv h
    obtain ⟨_, _, h⟩ := bind_ok_inv h
    cases h
    rfl
  | genpow al d2 ψ K =>
    unfold updateScaling1 at h
    obtain ⟨⟨ok, K1⟩, _, h⟩ := bind_ok_inv h
    cases h
    rfl

theorem updateScaling_go_nSpN (mu : α) (dual : Bool) :
    ∀ (cs : List (ConeSt α)) (ss zs : List (Array α)) (r : Bool × List (ConeSt α)),
      updateScaling.go mu dual cs ss zs = .ok r → nSpN r.2 = nSpN cs := by
  intro cs
  induction cs with
  | nil =>
    intro ss zs r h
    unfold updateScaling.go at h
    cases h
    rfl
  | cons c cs ih =>
    intro ss zs r h
    cases ss with
    | nil => unfold updateScaling.go at h; cases h; rfl
    | cons si ss =>
      cases zs with
      | nil => unfold updateScaling.go at h; cases h; rfl
      | cons zi zs =>
        unfold updateScaling.go at h
        obtain ⟨⟨ok, c1⟩, h1, h⟩ := bind_ok_inv h
        have hn := updateScaling1_spBit h1
        cases ok with
        | false =>
          cases h
          show nSpN (c1 :: cs) = nSpN (c :: cs)
          rw [nSpN_cons, nSpN_cons, hn]
        | true =>
          dsimp only [Bool.not_true, Bool.false_eq_true, ↓reduceIte] at h
          obtain ⟨⟨ok2, cs2⟩, h2, h⟩ := bind_ok_inv h
          cases h
          show nSpN (c1 :: cs2) = nSpN (c :: cs)
          rw [nSpN_cons, nSpN_cons, hn, ih ss zs _ h2]

/-- `update_scaling` keeps the number of map-consuming cones (a sparse second-order cone stays
sparse, a generalised power cone stays one) — on success and on refusal -/
theorem updateScaling_nSpN {cs : List (ConeSt α)} {s z : Array α} {mu : α} {dual : Bool}
    {r : Bool × List (ConeSt α)} (h : updateScaling cs s z mu dual = .ok r) : nSpN r.2 = nSpN cs := by
  unfold updateScaling at h
  obtain ⟨_, _, h⟩ := bind_ok_inv h
  obtain ⟨_, _, h⟩ := bind_ok_inv h
  exact updateScaling_go_nSpN mu dual _ _ _ _ h

theorem setId1_spBit {c c1 : ConeSt α} (h : setId1 c = .ok c1) : spBit c1 = spBit c := by
  cases c with
  | sym c =>
    cases h
    cases c with
    | zero d => rfl
    | nonneg K => rfl
    | soc K =>
      show (if (K.sparse.map _).isSome then 1 else 0) = (if K.sparse.isSome then 1 else 0)
      rw [Option.isSome_map]
  | exp K => cases h
  | pow a K => cases h
  | genpow al d2 ψ K => cases h

/-- `set_identity_scaling` keeps the number of map-consuming cones -/
theorem setIdentityScaling_nSpN : ∀ {cs cs1 : List (ConeSt α)}, setIdentityScaling cs = .ok cs1 →
    nSpN cs1 = nSpN cs := by
  intro cs
  induction cs with
  | nil =>
    intro cs1 h
    cases h
    rfl
  | cons c cs ih =>
    intro cs1 h
    rw [setIdentityScaling_eq, List.mapM_cons] at h
    obtain ⟨b, hb, h⟩ := bind_ok_inv h
    obtain ⟨bs, hbs, h⟩ := bind_ok_inv h
    cases h
    rw [nSpN_cons, nSpN_cons, setId1_spBit hb, ih hbs]

/-! ### the top of a pass -/

/-- `residuals.update`, `calc_mu`, `info.update` at the top of a pass -/
theorem topNumerics_rel (hbeq : ((0 : α) == 0) = true) {S S' : SolverSt α} (iter : Nat) (p : InfoS α)
    (hd : S.data = S'.data) (hv : S.variables = S'.variables) (hr : ResidShape S.residuals S'.residuals)
    (hc : ConesShape S.cones S'.cones) (hi : S'.info = carryPrev S.info p) :
    RelM (fun t t' => t'.1 = t.1 ∧ t'.2.1 = t.2.1 ∧ t'.2.2 = carryPrev t.2.2 p)
      (topNumerics S iter) (topNumerics S' iter) := by
  unfold topNumerics
  dsimp only
  rw [← hd, ← hv, ← Solver.Residuals.update_congr hbeq _ _ hr, ← degreeAll_shape hc, hi]
  refine RelM.bind (RelM.refl_eq _) ?_
  intro r _ e
  subst e
  refine RelM.bind (RelM.refl_eq _) ?_
  intro nq _ e
  subst e
  refine RelM.bind (RelM.refl_eq _) ?_
  intro nb _ e
  subst e
  refine RelM.bind (Solver.update_carryPrev _ p _ _ _ _ _) ?_
  intro i1 i1' e
  subst e
  exact ⟨rfl, rfl, rfl⟩

/-- the top of a pass leaves the six `prev_*` fields alone -/
theorem topNumerics_prev {S : SolverSt α} {iter : Nat} {r : Residuals.Resid α} {mu : α} {i' : InfoS α}
    (h : topNumerics S iter = .ok (r, mu, i')) : PrevEq i' S.info := by
  unfold topNumerics at h
  dsimp only at h
  obtain ⟨_, _, h⟩ := bind_ok_inv h
  obtain ⟨_, _, h⟩ := bind_ok_inv h
  obtain ⟨_, _, h⟩ := bind_ok_inv h
  obtain ⟨_, hu, h⟩ := bind_ok_inv h
  cases h
  obtain ⟨h1, h2, h3, h4, h5, h6, _, _⟩ := Solver.update_frame hu
  exact ⟨h1, h2, h3, h4, h5, h6⟩

/-! ### the KKT stage -/

/-- `affine_step_rhs` overwrites `step_rhs` without reading it -/
theorem affineStepRhs_congr {self self' : Vars α} (r : Resid α) (vars : Vars α) (cones : List (ConeSt α))
    (h : StepShape (numelAll cones) self self') :
    affineStepRhs self r vars cones = affineStepRhs self' r vars cones := by
  unfold affineStepRhs
  rw [Solver.copyInto_congr r.rx "rhs.x" h.x, Solver.copyInto_congr r.rz "rhs.z" h.z, affineDs_congr cones _ h.s]

/-- `get_step_length` as a function of what it reads of the solver object: the iterate and the step -/
def stepLenV (st : Settings α) (v lhs : Vars α) (cones : List (ConeSt α)) (dir : StepDirection)
    (scaling : Loop.Scaling) : MErr (α × Nat) := do
  let a ← calcStepLength st.ls v lhs cones st.maxValue st.maxStepFraction dir
  if !(isSymmetric cones) && dir == .combined && isDual scaling then
    backtrackStepToBarrier st.linesearchBacktrackStep v lhs cones 50 a 0
  else pure (a, 0)

theorem getStepLength_eq (st : Settings α) (S : SolverSt α) (cones : List (ConeSt α)) (dir : StepDirection)
    (scaling : Loop.Scaling) :
    getStepLength st S cones dir scaling = stepLenV st S.variables S.stepLhs cones dir scaling := rfl

/-- the KKT stage only writes the KKT system and the two step vectors -/
theorem kktNumerics_frameN {st : Settings α} {S : SolverSt α} {cones : List (ConeSt α)} {mu : α}
    {iter : Nat} {sc : Loop.Scaling} {k : KktOut α} (h : kktNumerics st S cones mu iter sc = .ok k) :
    k.S = { S with kktsystem := k.S.kktsystem, stepRhs := k.S.stepRhs, stepLhs := k.S.stepLhs } := by
  unfold kktNumerics at h
  dsimp only at h
  repeat (first | (obtain ⟨_, _, h⟩ := bind_ok_inv h) | (split at h) | (dsimp only at h))
  all_goals (cases h; rfl)

/-- the KKT stage of a pass -/
theorem kktNumerics_rel {k : Nat} {Bw : KktSolver α → KktSolver α → Prop} (st : Settings α)
    (hsim : KktSimN k st.lin Bw) {S S' : SolverSt α} (cones : List (ConeSt α)) (mu : α) (iter : Nat)
    (scaling : Loop.Scaling) (hk : k ≤ nSpN cones)
    (hd : S.data = S'.data) (hv : S.variables = S'.variables) (hr : S.residuals = S'.residuals)
    (hkr : KRel Bw (numelAll cones) S.data.q.size S.kktsystem S'.kktsystem)
    (hl : StepShape (numelAll cones) S.stepLhs S'.stepLhs) (hrs : StepShape (numelAll cones) S.stepRhs S'.stepRhs) :
    RelM (fun k k' => k.ok = k'.ok ∧ k.aff = k'.aff
        ∧ KRel Bw (numelAll cones) S.data.q.size k.S.kktsystem k'.S.kktsystem
        ∧ k.S.stepRhs = k'.S.stepRhs
        ∧ StepShape (numelAll cones) k.S.stepLhs k'.S.stepLhs ∧ (k.ok = true → k.S.stepLhs = k'.S.stepLhs))
      (kktNumerics st S cones mu iter scaling) (kktNumerics st S' cones mu iter scaling) := by
  unfold kktNumerics
  simp only [getStepLength_eq]
  rw [← hd, ← hv, ← hr, ← affineStepRhs_congr _ _ _ hrs]
  refine RelM.bind (kktSysUpdate_rel hsim S.data cones hk hkr) ?_
  rintro ⟨updOk, K1⟩ ⟨updOk', K1'⟩ ⟨h1, h2, h3⟩
  dsimp only at h1 h2 h3 ⊢
  subst h1
  refine RelM.bind (RelM.refl_eq _) ?_
  intro stepRhs _ e
  subst e
  cases updOk with
  | false =>
    simp only [Bool.false_eq_true, if_false]
    dsimp only [bind, Except.bind, pure, Except.pure]
    exact ⟨rfl, rfl, { h2 with solver := hsim.weaken h2.solver }, rfl, hl, fun h => (Bool.false_ne_true h).elim⟩
  | true =>
    simp only [if_true]
    refine RelM.bind (kktSysSolve_rel stepRhs S.data S.variables cones .affine st.lin rfl h2
      (h3 rfl).1 (h3 rfl).2 hl) ?_
    rintro ⟨affOk, lhs1, K2⟩ ⟨affOk', lhs1', K2'⟩ ⟨g1, g2, g3, g4, g5⟩
    dsimp only at g1 g2 g3 g4 g5 ⊢
    subst g1
    cases affOk with
    | false =>
      simp only [Bool.false_eq_true, if_false] at g2 ⊢
      refine ⟨rfl, rfl, { g3 with solver := hsim.weaken g3.solver }, rfl, ?_, fun h => (Bool.false_ne_true h).elim⟩
      show StepShape _ lhs1 lhs1'
      rw [g2.1, g2.2]
      exact hl
    | true =>
      simp only [if_true] at g2 ⊢
      subst g2
      refine RelM.bind (RelM.refl_eq _) ?_
      intro aAff _ e
      subst e
      refine RelM.bind (RelM.refl_eq _) ?_
      intro cr _ e
      subst e
      refine RelM.bind (kktSysSolve_rel cr.1 S.data S.variables cones .combined st.lin rfl g3 g4 g5
        (StepShape.of_eq rfl)) ?_
      rintro ⟨combOk, lhs2, K3⟩ ⟨combOk', lhs2', K3'⟩ ⟨f1, f2, f3, f4, f5⟩
      dsimp only at f1 f2 f3 f4 f5 ⊢
      subst f1
      have hlhs : lhs2 = lhs2' := by
        cases combOk with
        | false =>
          simp only [Bool.false_eq_true, if_false] at f2
          rw [f2.1, f2.2]
        | true => simpa only [if_true] using f2
      subst hlhs
      exact ⟨rfl, rfl, { f3 with solver := hsim.weaken f3.solver }, rfl, StepShape.of_eq rfl, fun _ => rfl⟩

/-! ### the rest of a pass -/

/-- `PRel` together with the number of map-consuming cones the linear-solver simulation asks for -/
def PRelK (k : Nat) (Bw : KktSolver α → KktSolver α → Prop) (L L' : LoopSt α) : Prop :=
  PRel Bw L L' ∧ k ≤ nSpN L.S.cones

/-- the pass-output relation: same `break`/continue flag; related loop states (`PassOut` of the
interface with `PRelK` in the place of `PRel`) -/
def PassOutK (k : Nat) (Bw : KktSolver α → KktSolver α → Prop) (r r' : Bool × LoopSt α) : Prop :=
  r.1 = r'.1 ∧ (if r.1 = true then PRelK k Bw r.2 r'.2 else FRel r.2 r'.2)

theorem PassOutK.toPassOut {k : Nat} {Bw : KktSolver α → KktSolver α → Prop} {r r' : Bool × LoopSt α}
    (h : PassOutK k Bw r r') : PassOut Bw r r' := by
  obtain ⟨h1, h2⟩ := h
  refine ⟨h1, ?_⟩
  split
  · rename_i hc
    rw [if_pos hc] at h2
    exact h2.1
  · rename_i hc
    rw [if_neg hc] at h2
    exact h2

/-- a pass that switched the strategy at the numerical-error / small-step checkpoint (`iter + 1`,
`Dual`, from `PrimalDual`): if `save_prev_iterate` has run before the state it leaves, it had run
before the state it started from -/
theorem Late.of_switch {L L2 : LoopSt α} (hpd : L.scaling = .PrimalDual) (hi : L2.iter = L.iter + 1)
    (hs : L2.scaling = .Dual) (h : Late L2) : Late L := by
  rcases h with ⟨_, h2⟩ | h2
  · rw [hs] at h2; cases h2
  · exact Or.inl ⟨by omega, hpd⟩

theorem passRest_rel {k : Nat} {Bw : KktSolver α → KktSolver α → Prop} (st : Settings α)
    (hsim : KktSimN k st.lin Bw) {L L' : LoopSt α} (h : PRel Bw L L') (hk : k ≤ nSpN L.S.cones)
    (r : Resid α) (mu : α) (i1 p : InfoS α) (ct : InfoS α × Bool)
    (hct2 : ct.2 = (ct.1.status != .unsolved))
    (hip : ct.1.status = .insufficientProgress → 1 < L.iter)
    (hlate : Late L → PrevEq p ct.1) :
    RelM (PassOutK k Bw) (passRest st L r mu i1 ct)
      (passRest st L' r mu (carryPrev i1 p) (carryPrev ct.1 p, ct.2)) := by
  obtain ⟨S', iter', sigma', alpha', mu', scaling', traj'⟩ := L'
  obtain ⟨hiter, hsigma, halpha, hmu, hscal, htraj, hdata, hvars, hstatus, hinfo, hpv, hpvl, hres, hkkt, hcones,
    hlhs, hrhs⟩ := h
  obtain ⟨data', vars', res', kkt', cones', lhs', rhs', pv', info', im', is', isl'⟩ := S'
  dsimp only at hiter hsigma halpha hmu hscal htraj hdata hvars hinfo hpv hpvl hres hkkt hcones hlhs hrhs
  subst hiter hsigma halpha hmu hscal hdata hvars
  obtain ⟨cti, done⟩ := ct
  dsimp only at hct2 hip hlate
  unfold passRest
  dsimp only
  cases done with
  | true =>
    simp only [if_true]
    by_cases hs : cti.status = .insufficientProgress
    · have hs' : ((carryPrev cti p).status != SolverStatus.insufficientProgress) = false := by
        show (cti.status != SolverStatus.insufficientProgress) = false
        rw [hs]; rfl
      have hs'' : (cti.status != SolverStatus.insufficientProgress) = false := by rw [hs]; rfl
      rw [hs', hs'']
      simp only [Bool.false_eq_true, if_false]
      have hit : Late L := Or.inr (hip hs)
      have hpe := hpvl hit
      subst hpe
      have hcp : carryPrev cti p = cti := carryPrev_of_prevEq (hlate hit)
      rw [hcp]
      refine RelM.bind (RelM.refl_eq _) ?_
      intro v _ e
      subst e
      rw [← canSwitch_shape hcones L.scaling]
      by_cases hsw : canSwitch L.S.cones L.scaling = true
      · simp only [hsw, if_true]
        refine ⟨rfl, ?_⟩
        simp only [if_true]
        refine ⟨⟨rfl, rfl, rfl, rfl, rfl, htraj.snoc ⟨p, rfl⟩, rfl, rfl, rfl,
          ⟨_, (carryPrev_self _).symm, fun _ => prevEq_self _⟩, hpv, fun _ => rfl, ResidShape.of_eq rfl, hkkt,
          hcones, hlhs, hrhs⟩, hk⟩
      · simp only [hsw, Bool.false_eq_true, if_false]
        refine ⟨rfl, ?_⟩
        simp only [Bool.false_eq_true, if_false]
        exact ⟨rfl, rfl, rfl, rfl, htraj.snoc ⟨p, rfl⟩, rfl, rfl, InfoEqv.rfl' _, rfl, rfl, rfl, rfl⟩
    · have hs' : ((carryPrev cti p).status != SolverStatus.insufficientProgress) = true :=
        (status_bne _ _).mpr hs
      have hs'' : (cti.status != SolverStatus.insufficientProgress) = true := (status_bne _ _).mpr hs
      rw [hs', hs'']
      simp only [if_true]
      refine ⟨rfl, ?_⟩
      simp only [Bool.false_eq_true, if_false]
      exact ⟨rfl, rfl, rfl, rfl, htraj.snoc ⟨p, rfl⟩, rfl, rfl, ⟨p, rfl⟩, rfl, rfl, rfl, rfl⟩
  | false =>
    simp only [Bool.false_eq_true, if_false]
    have hun : cti.status = .unsolved := by
      cases hc : cti.status <;> rw [hc] at hct2 <;> first | rfl | cases hct2
    unfold scaleCones
    refine RelM.bind' (updateScaling_rel hcones L.S.variables.s L.S.variables.z mu (isDual L.scaling)) ?_
    rintro ⟨ok, cs⟩ ⟨ok', cs'⟩ e1 e2 ⟨g1, g2, g3⟩
    dsimp only at g1 g2 g3 ⊢
    subst g1
    cases ok with
    | false =>
      simp only [Bool.not_false, if_true]
      refine ⟨rfl, ?_⟩
      simp only [Bool.false_eq_true, if_false]
      exact ⟨rfl, rfl, rfl, rfl, htraj.snoc ⟨p, rfl⟩, rfl, rfl, ⟨p, rfl⟩, rfl, rfl, rfl, rfl⟩
    | true =>
      simp only [Bool.not_true, Bool.false_eq_true, if_false]
      have hcs := g2 rfl
      subst hcs
      have hn : numelAll cs = numelAll L.S.cones := updateScaling_numel e1
      have hk' : k ≤ nSpN cs := by
        have := updateScaling_nSpN e1
        dsimp only at this
        rw [this]; exact hk
      refine RelM.bind' (kktNumerics_rel st hsim cs mu (L.iter + 1) L.scaling hk' rfl rfl rfl (hn ▸ hkkt)
        (hn ▸ hlhs) (hn ▸ hrhs)) ?_
      intro ko ko' ek ek' hko
      obtain ⟨q1, q2, q3, q4, q5, q6⟩ := hko
      have fk := kktNumerics_frameN ek
      have fk' := kktNumerics_frameN ek'
      have kd : ko.S.data = L.S.data := by rw [fk]
      have kd' : ko'.S.data = L.S.data := by rw [fk']
      have kv : ko.S.variables = L.S.variables := by rw [fk]
      have kv' : ko'.S.variables = L.S.variables := by rw [fk']
      have kr : ko.S.residuals = r := by rw [fk]
      have kr' : ko'.S.residuals = r := by rw [fk']
      have kc : ko.S.cones = cs := by rw [fk]
      have kc' : ko'.S.cones = cs := by rw [fk']
      have kp : ko.S.prevVars = L.S.prevVars := by rw [fk]
      have kp' : ko'.S.prevVars = pv' := by rw [fk']
      have ki : ko.S.info = cti := by rw [fk]
      have ki' : ko'.S.info = carryPrev cti p := by rw [fk']
      have km : ko.S.infoMu = ko'.S.infoMu := by rw [fk, fk']
      have ks : ko.S.infoSigma = ko'.S.infoSigma := by rw [fk, fk']
      have kl : ko.S.infoStepLength = ko'.S.infoStepLength := by rw [fk, fk']
      -- the loop state a switching pass (numerical-error / small-step checkpoint) leaves
      have hswitch : ∀ (tr tr' : List (PassRec α)), ListRel RecEqv tr tr' →
          canSwitch cs L.scaling = true →
          PRelK k Bw
            { S := ko.S, iter := L.iter + 1,
              sigma := (match ko.aff with | some p => p.2 | none => L.sigma), alpha := 0, mu := mu,
              scaling := .Dual, traj := tr }
            { S := ko'.S, iter := L.iter + 1,
              sigma := (match ko.aff with | some p => p.2 | none => L.sigma), alpha := 0, mu := mu,
              scaling := .Dual, traj := tr' } := by
        intro tr tr' htr hsw
        have hpd := canSwitch_pd hsw
        refine ⟨⟨rfl, rfl, rfl, rfl, rfl, htr, kd.trans kd'.symm, kv.trans kv'.symm, ?_, ?_, ?_, ?_, ?_, ?_, ?_,
          ?_, ?_⟩, ?_⟩
        · show ko.S.info.status = _
          rw [ki]; exact hun
        · refine ⟨p, ?_, fun hl => ?_⟩
          · show ko'.S.info = carryPrev ko.S.info p
            rw [ki, ki']
          · show PrevEq p ko.S.info
            rw [ki]
            exact hlate (Late.of_switch hpd rfl rfl hl)
        · show VarsShape ko.S.prevVars ko'.S.prevVars
          rw [kp, kp']; exact hpv
        · intro hl
          show ko.S.prevVars = ko'.S.prevVars
          rw [kp, kp']
          exact hpvl (Late.of_switch hpd rfl rfl hl)
        · show ResidShape ko.S.residuals ko'.S.residuals
          rw [kr, kr']
          exact ResidShape.of_eq rfl
        · show KRel Bw (numelAll ko.S.cones) ko.S.data.q.size ko.S.kktsystem ko'.S.kktsystem
          rw [kc, kd]; exact q3
        · show ConesShape ko.S.cones ko'.S.cones
          rw [kc, kc']; exact ConesShape.rfl' _
        · show StepShape (numelAll ko.S.cones) ko.S.stepLhs ko'.S.stepLhs
          rw [kc]; exact q5
        · show StepShape (numelAll ko.S.cones) ko.S.stepRhs ko'.S.stepRhs
          rw [kc, q4]; exact StepShape.of_eq rfl
        · show k ≤ nSpN ko.S.cones
          rw [kc]; exact hk'
      rw [← q1, ← q2]
      cases hok : ko.ok with
      | false =>
        simp only [Bool.not_false, if_true]
        by_cases hsw : canSwitch cs L.scaling = true
        · simp only [hsw, if_true]
          refine ⟨rfl, ?_⟩
          simp only [if_true]
          exact hswitch _ _ (htraj.snoc ⟨p, rfl⟩) hsw
        · simp only [hsw, Bool.false_eq_true, if_false]
          refine ⟨rfl, ?_⟩
          simp only [Bool.false_eq_true, if_false]
          refine ⟨rfl, rfl, rfl, rfl, htraj.snoc ⟨p, rfl⟩, kd.trans kd'.symm, kv.trans kv'.symm, ?_,
            kr.trans kr'.symm, km, ks, kl⟩
          refine ⟨p, ?_⟩
          show _ = carryPrev { ko.S.info with status := SolverStatus.numericalError } p
          rw [ki, ki']
          rfl
      | true =>
        simp only [Bool.not_true, Bool.false_eq_true, if_false]
        simp only [getStepLength_eq]
        rw [kv, kv', ← q6 hok]
        refine RelM.bind (RelM.refl_eq _) ?_
        rintro ⟨a, nbt⟩ _ e
        subst e
        dsimp only
        by_cases hsm : (canSwitch cs L.scaling && decide (a < st.minSwitchStepLength)) = true
        · simp only [hsm, if_true]
          refine ⟨rfl, ?_⟩
          simp only [if_true]
          refine hswitch _ _ (htraj.snoc ⟨p, rfl⟩) ?_
          rw [Bool.and_eq_true] at hsm
          exact hsm.1
        · simp only [hsm, Bool.false_eq_true, if_false]
          split
          · refine ⟨rfl, ?_⟩
            simp only [Bool.false_eq_true, if_false]
            refine ⟨rfl, rfl, rfl, rfl, htraj.snoc ⟨p, rfl⟩, kd.trans kd'.symm, rfl, ?_,
              kr.trans kr'.symm, km, ks, kl⟩
            refine ⟨p, ?_⟩
            show _ = carryPrev { ko.S.info with status := SolverStatus.insufficientProgress } p
            rw [ki, ki']
            rfl
          · have hsv : stepVars ko'.S a = stepVars ko.S a := by
              unfold stepVars
              rw [kv, kv', kp, kp', ← q6 hok, Solver.varsCopyFrom_congr _ hpv]
            rw [hsv]
            refine RelM.bind (RelM.refl_eq _) ?_
            intro pv _ e
            subst e
            refine ⟨rfl, ?_⟩
            simp only [if_true]
            refine ⟨⟨rfl, rfl, rfl, rfl, rfl, htraj.snoc ⟨p, rfl⟩, kd.trans kd'.symm, rfl, ?_, ?_, VarsShape.of_eq rfl,
              fun _ => rfl, ?_, ?_, ?_, ?_, ?_⟩, ?_⟩
            · show (Info.savePrev ko.S.info).status = _
              rw [ki]; exact hun
            · refine ⟨Info.savePrev ko.S.info, ?_, fun _ => prevEq_self _⟩
              show Info.savePrev ko'.S.info = _
              rw [ki', ki, Solver.savePrev_carryPrev]
              rfl
            · show ResidShape ko.S.residuals ko'.S.residuals
              rw [kr, kr']
              exact ResidShape.of_eq rfl
            · show KRel Bw (numelAll ko.S.cones) ko.S.data.q.size ko.S.kktsystem ko'.S.kktsystem
              rw [kc, kd]; exact q3
            · show ConesShape ko.S.cones ko'.S.cones
              rw [kc, kc']; exact ConesShape.rfl' _
            · exact StepShape.of_eq rfl
            · show StepShape (numelAll ko.S.cones) ko.S.stepRhs ko'.S.stepRhs
              rw [kc, q4]; exact StepShape.of_eq rfl
            · show k ≤ nSpN ko.S.cones
              rw [kc]; exact hk'

end

end Clarabel.SolverNS
