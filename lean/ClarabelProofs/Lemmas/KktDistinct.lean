/-
  The index vectors produced by `assemble_kkt_matrix` never share a position:
  `map.Hsblocks` has no repetition, no expansion index vector meets it, different expansion
  maps are disjoint, and no expansion map repeats a position
  (`AsmRun.maps_distinct`) — exactly the side conditions of the theorems about `update`.

  Method: every slot is the destination of a scheduled write with known UPPER coordinates
  (`SlotU`); writes with different coordinates have different destinations (`slot_ne`);
  coordinates of different slots differ (blocks of different cones occupy disjoint
  row/column ranges; auxiliary columns lie beyond `n + m`).
-/
import ClarabelModel.Kkt
import ClarabelProofs.Lemmas.KktSpec
import ClarabelProofs.Lemmas.KktUpdateSparse

set_option linter.unusedSectionVars false
set_option linter.unusedVariables false

namespace Clarabel.Lemmas.KktDistinct
open Clarabel Clarabel.Csc Clarabel.Kkt Clarabel.Lemmas.KktPlace Clarabel.Lemmas.KktFillLink
open Clarabel.Lemmas.KktRun Clarabel.Lemmas.KktSlots Clarabel.Lemmas.KktFillMaps
open Clarabel.Lemmas.KktFillRun Clarabel.Lemmas.KktCount Clarabel.Lemmas.KktAssembly
open Clarabel.Lemmas.KktSorted Clarabel.Lemmas.KktLength
open Clarabel.Lemmas.KktTotal Clarabel.Lemmas.KktFinal Clarabel.Lemmas.KktSpec

variable {α : Type} [OfNat α 0]

-- ------------------------------------------------------------------ generic tools

omit [OfNat α 0] in
theorem tri_inj {shape : MatrixTriangle} {r c r' c' : Nat} (h : tri shape r c = tri shape r' c') :
    r = r' ∧ c = c' := by
  cases shape <;> simp [tri] at h <;> omega

omit [OfNat α 0] in
/-- scheduled writes with different upper coordinates have different destinations -/
theorem slot_ne {shape : MatrixTriangle} {ptr : Array Nat} {l : List (Entry α)}
    (hdis : RangesDisjoint ptr l) {o1 o2 : Option Nat} {r1 c1 r2 c2 : Nat} {v1 v2 : α}
    (h1 : SlotU shape ptr l o1 r1 c1 v1) (h2 : SlotU shape ptr l o2 r2 c2 v2)
    (hne : r1 ≠ r2 ∨ c1 ≠ c2) (d : Nat) (hd : o1 = some d) : o2 ≠ some d := by
  obtain ⟨g1, e1, hg1, a1, b1, _, rfl⟩ := h1
  obtain ⟨g2, e2, hg2, a2, b2, _, rfl⟩ := h2
  have hg : g1 ≠ g2 := by
    intro hh
    subst hh
    rw [hg1] at hg2
    cases hg2
    have : tri shape r1 c1 = tri shape r2 c2 := Prod.ext (by rw [← b1, ← b2]) (by rw [← a1, ← a2])
    have := tri_inj this
    omega
  rcases Nat.lt_or_gt_of_ne hg with hlt | hgt
  · exact destOf_lt_ne ptr l hdis g1 g2 d hlt hd
  · intro hd2
    exact destOf_lt_ne ptr l hdis g2 g1 d hgt hd2 hd

omit [OfNat α 0] in
theorem nodup_of_slots {shape : MatrixTriangle} {ptr : Array Nat} {l : List (Entry α)}
    (hdis : RangesDisjoint ptr l) (arr : Array Nat) (key : Nat → Nat × Nat)
    (hs : ∀ k, k < arr.size → ∃ v, SlotU shape ptr l arr[k]? (key k).1 (key k).2 v)
    (hinj : ∀ k k', k < k' → k' < arr.size → (key k).1 ≠ (key k').1 ∨ (key k).2 ≠ (key k').2) :
    arr.toList.Nodup := by
  rw [List.nodup_iff_pairwise_ne, List.pairwise_iff_getElem]
  intro i j hi hj hij heq
  have hi' : i < arr.size := by simpa using hi
  have hj' : j < arr.size := by simpa using hj
  obtain ⟨v1, s1⟩ := hs i hi'
  obtain ⟨v2, s2⟩ := hs j hj'
  have e1 : arr[i]? = some arr.toList[i] := by simp [Array.getElem?_eq_getElem hi']
  have e2 : arr[j]? = some arr.toList[j] := by simp [Array.getElem?_eq_getElem hj']
  exact slot_ne hdis s1 s2 (hinj i j hij hj') _ e1 (by rw [e2, heq])

/-- `Located P l`: every element of `l` is the destination of a write whose upper coordinates
satisfy `P` -/
def Located (shape : MatrixTriangle) (ptr : Array Nat) (sched : List (Entry α))
    (P : Nat → Nat → Prop) (l : List Nat) : Prop :=
  ∀ j ∈ l, ∃ r c v, SlotU shape ptr sched (some j) r c v ∧ P r c

omit [OfNat α 0] in
theorem located_of_slots {shape : MatrixTriangle} {ptr : Array Nat} {l : List (Entry α)}
    (arr : Array Nat) (key : Nat → Nat × Nat) (P : Nat → Nat → Prop)
    (hs : ∀ k, k < arr.size → ∃ v, SlotU shape ptr l arr[k]? (key k).1 (key k).2 v)
    (hP : ∀ k, k < arr.size → P (key k).1 (key k).2) : Located shape ptr l P arr.toList := by
  intro j hj
  obtain ⟨k, hk, rfl⟩ := List.mem_iff_getElem.mp hj
  have hk' : k < arr.size := by simpa using hk
  obtain ⟨v, s⟩ := hs k hk'
  refine ⟨_, _, v, ?_, hP k hk'⟩
  have e1 : arr[k]? = some arr.toList[k] := by simp [Array.getElem?_eq_getElem hk']
  rw [← e1]; exact s

omit [OfNat α 0] in
theorem Located.append {shape : MatrixTriangle} {ptr : Array Nat} {sched : List (Entry α)}
    {P : Nat → Nat → Prop} {l1 l2 : List Nat} (h1 : Located shape ptr sched P l1)
    (h2 : Located shape ptr sched P l2) : Located shape ptr sched P (l1 ++ l2) := by
  intro j hj
  rcases List.mem_append.mp hj with h | h
  · exact h1 j h
  · exact h2 j h

omit [OfNat α 0] in
theorem Located.mono {shape : MatrixTriangle} {ptr : Array Nat} {sched : List (Entry α)}
    {P Q : Nat → Nat → Prop} {l : List Nat} (h : Located shape ptr sched P l)
    (hPQ : ∀ r c, P r c → Q r c) : Located shape ptr sched Q l := by
  intro j hj
  obtain ⟨r, c, v, s, hp⟩ := h j hj
  exact ⟨r, c, v, s, hPQ r c hp⟩

omit [OfNat α 0] in
/-- lists located in disjoint regions are disjoint -/
theorem Located.disjoint {shape : MatrixTriangle} {ptr : Array Nat} {sched : List (Entry α)}
    (hdis : RangesDisjoint ptr sched) {P Q : Nat → Nat → Prop} {l1 l2 : List Nat}
    (h1 : Located shape ptr sched P l1) (h2 : Located shape ptr sched Q l2)
    (hPQ : ∀ r c r' c', P r c → Q r' c' → r ≠ r' ∨ c ≠ c') : ∀ j ∈ l1, j ∉ l2 := by
  intro j hj1 hj2
  obtain ⟨r, c, v, s, hp⟩ := h1 j hj1
  obtain ⟨r', c', v', s', hq⟩ := h2 j hj2
  exact slot_ne hdis s s' (hPQ r c r' c' hp hq) j rfl rfl

-- ------------------------------------------------------------------ prefix sums over the cone list

/-- `Σ_{j<i} f(cones[j])` -/
def pre (f : ConeSpec → Nat) (cones : List ConeSpec) (i : Nat) : Nat := ((cones.take i).map f).sum

omit [OfNat α 0] in
theorem pre_succ_le (f : ConeSpec → Nat) (cones : List ConeSpec) (i j : Nat) (hij : i < j)
    (hi : i < cones.length) : pre f cones i + f cones[i] ≤ pre f cones j := by
  unfold pre
  rw [List.map_take, List.map_take]
  exact sum_take_succ_le (cones.map f) i j _ hij (by simp [hi])

omit [OfNat α 0] in
theorem pre_le_total (f : ConeSpec → Nat) (cones : List ConeSpec) (i : Nat) (hi : i < cones.length) :
    pre f cones i + f cones[i] ≤ (cones.map f).sum := by
  have := pre_succ_le f cones i cones.length (by omega) hi
  unfold pre at this ⊢
  rwa [List.take_length] at this

omit [OfNat α 0] in
theorem decomp_at (cones : List ConeSpec) (i : Nat) (hi : i < cones.length) :
    cones = cones.take i ++ cones[i] :: cones.drop (i + 1) := by
  rw [← List.drop_eq_getElem_cons hi, List.take_append_drop]

omit [OfNat α 0] in
/-- the block of `Hsblocks` containing position `x` -/
theorem block_decode (f : ConeSpec → Nat) : ∀ (cones : List ConeSpec) (x : Nat),
    x < (cones.map f).sum → ∃ i, ∃ (hi : i < cones.length), pre f cones i ≤ x ∧
      x < pre f cones i + f cones[i]
  | [], x, hx => by simp at hx
  | c :: rest, x, hx => by
    simp only [List.map_cons, List.sum_cons] at hx
    by_cases h : x < f c
    · exact ⟨0, by simp, by simp [pre], by simpa [pre] using h⟩
    · obtain ⟨i, hi, h1, h2⟩ := block_decode f rest (x - f c) (by omega)
      refine ⟨i + 1, by simpa using hi, ?_, ?_⟩
      · simp only [pre, List.take_succ_cons, List.map_cons, List.sum_cons] at h1 ⊢
        omega
      · simp only [pre, List.take_succ_cons, List.map_cons, List.sum_cons, List.getElem_cons_succ] at h2 ⊢
        omega

omit [OfNat α 0] in
theorem tri_decode : ∀ (d x : Nat), x < d * (d + 1) / 2 → ∃ a b, a < d ∧ b ≤ a ∧ x = a * (a + 1) / 2 + b
  | 0, x, hx => by simp at hx
  | d + 1, x, hx => by
    by_cases h : x < d * (d + 1) / 2
    · obtain ⟨a, b, ha, hb, rfl⟩ := tri_decode d x h
      exact ⟨a, b, by omega, hb, rfl⟩
    · have := triNum_succ d
      exact ⟨d, x - d * (d + 1) / 2, by omega, by omega, by omega⟩

omit [OfNat α 0] in
/-- the sparse-expandable cone consuming the `J`-th expansion map -/
theorem sparse_decode : ∀ (cones : List ConeSpec) (J : Nat), J < nSparse cones →
    ∃ i, ∃ (hi : i < cones.length), cones[i].isSparseExpandable = true ∧ nSparse (cones.take i) = J
  | [], J, hJ => by simp [nSparse] at hJ
  | c :: rest, J, hJ => by
    rw [nSparse_cons] at hJ
    by_cases hsp : c.isSparseExpandable = true
    · rw [if_pos hsp] at hJ
      cases J with
      | zero => exact ⟨0, by simp, by simpa using hsp, by simp [nSparse]⟩
      | succ J =>
        obtain ⟨i, hi, h1, h2⟩ := sparse_decode rest J (by omega)
        refine ⟨i + 1, by simpa using hi, by simpa using h1, ?_⟩
        rw [List.take_succ_cons, nSparse_cons, if_pos hsp, h2]
    · rw [if_neg hsp] at hJ
      obtain ⟨i, hi, h1, h2⟩ := sparse_decode rest J (by omega)
      refine ⟨i + 1, by simpa using hi, by simpa using h1, ?_⟩
      rw [List.take_succ_cons, nSparse_cons, if_neg hsp, h2]; rfl

omit [OfNat α 0] in
theorem filterMap_expansion_length (cones : List ConeSpec) :
    (cones.filterMap expansionMap).length = nSparse cones := by
  induction cones with
  | nil => rfl
  | cons c rest ih =>
    rw [nSparse_cons]
    cases hm : expansionMap c with
    | none =>
      have hsp : ¬ c.isSparseExpandable = true := by
        cases c <;> simp [expansionMap, ConeSpec.isSparseExpandable] at hm ⊢
        exact hm
      rw [List.filterMap_cons_none hm, if_neg hsp, ih]; rfl
    | some m =>
      have hsp : c.isSparseExpandable = true := by
        cases c <;> simp [expansionMap, ConeSpec.isSparseExpandable] at hm ⊢
        exact hm.1
      rw [List.filterMap_cons_some hm, if_pos hsp, List.length_cons, ih]

omit [OfNat α 0] in
theorem nSparse_take_mono (cones : List ConeSpec) (i j : Nat) (hij : i < j) (hi : i < cones.length)
    (hsp : cones[i].isSparseExpandable = true) :
    nSparse (cones.take i) < nSparse (cones.take j) := by
  have h1 : cones.take j = cones.take i ++ cones[i] :: (cones.drop (i + 1)).take (j - (i + 1)) := by
    conv => lhs; rw [decomp_at cones i hi]
    rw [List.take_append, List.length_take, Nat.min_eq_left (by omega)]
    have : j - i = (j - (i + 1)) + 1 := by omega
    rw [List.take_of_length_le (by rw [List.length_take]; omega), this, List.take_succ_cons]
  rw [h1]
  unfold nSparse
  rw [List.countP_append, List.countP_cons]
  simp only [hsp, if_true]
  omega


-- ------------------------------------------------------------------ one expansion map

omit [OfNat α 0] in
theorem slotU_of_diag {shape : MatrixTriangle} {ptr : Array Nat} {l : List (Entry α)}
    {o : Option Nat} {x : Nat} {v : α} (h : SlotAt ptr l o x x v) : SlotU shape ptr l o x x v := by
  unfold SlotU
  rw [tri_diag]
  exact h

/-- the positions of one expansion map are pairwise different and all lie in the auxiliary
columns `[pcol, pcol + pdim)` (upper coordinates) -/
theorem sp_located {shape : MatrixTriangle} {c : ConeSpec} {row pcol : Nat} {ptr : Array Nat}
    {l : List (Entry α)} {mp : SparseMap} (hdis : RangesDisjoint ptr l)
    (hsp : c.isSparseExpandable = true) (hrow : row + c.numel ≤ pcol)
    (h : SparseSlots shape c row pcol ptr l mp) :
    Located shape ptr l (fun _ c' => pcol ≤ c' ∧ c' < pcol + conePdim c) mp.indices ∧
      mp.indices.Nodup := by
  cases c <;> cases mp <;> simp only [SparseSlots] at h
  case soc.soc d u v D =>
    obtain ⟨hu, hv, hD, sv, su, sD⟩ := h
    simp only [ConeSpec.numel] at hrow
    have hp : conePdim (.soc d) = 2 := by simp [conePdim, hsp]
    have Lu := located_of_slots (shape := shape) (ptr := ptr) (l := l) u (fun k => (row + k, pcol + 1))
      (fun r c' => c' = pcol + 1 ∧ r < pcol)
      (fun k hk => ⟨0, su k (by omega)⟩) (fun k hk => ⟨rfl, by show row + k < pcol; omega⟩)
    have Lv := located_of_slots (shape := shape) (ptr := ptr) (l := l) v (fun k => (row + k, pcol))
      (fun r c' => c' = pcol ∧ r < pcol)
      (fun k hk => ⟨0, sv k (by omega)⟩) (fun k hk => ⟨rfl, by show row + k < pcol; omega⟩)
    have LD := located_of_slots (shape := shape) (ptr := ptr) (l := l) D (fun k => (pcol + k, pcol + k))
      (fun r c' => r = c' ∧ pcol ≤ c' ∧ c' < pcol + 2)
      (fun k hk => ⟨0, slotU_of_diag (sD k (by omega))⟩)
      (fun k hk => ⟨rfl, by show pcol ≤ pcol + k; omega, by show pcol + k < pcol + 2; omega⟩)
    have Nu := nodup_of_slots hdis u (fun k => (row + k, pcol + 1))
      (fun k hk => ⟨0, su k (by omega)⟩) (fun k k' hkk _ => Or.inl (by show row + k ≠ row + k'; omega))
    have Nv := nodup_of_slots hdis v (fun k => (row + k, pcol))
      (fun k hk => ⟨0, sv k (by omega)⟩) (fun k k' hkk _ => Or.inl (by show row + k ≠ row + k'; omega))
    have ND := nodup_of_slots (shape := shape) hdis D (fun k => (pcol + k, pcol + k))
      (fun k hk => ⟨0, slotU_of_diag (sD k (by omega))⟩)
      (fun k k' hkk _ => Or.inl (by show pcol + k ≠ pcol + k'; omega))
    refine ⟨?_, ?_⟩
    · rw [hp]
      show Located shape ptr l _ (u.toList ++ v.toList ++ D.toList)
      exact ((Lu.mono (by intro r c' h; omega)).append (Lv.mono (by intro r c' h; omega))).append
        (LD.mono (by intro r c' h; omega))
    · show (u.toList ++ v.toList ++ D.toList).Nodup
      rw [List.nodup_append, List.nodup_append]
      refine ⟨⟨Nu, Nv, ?_⟩, ND, ?_⟩
      · intro a ha b hb hab
        subst hab
        exact Lu.disjoint hdis Lv (by intro r c r' c' h h'; omega) a ha hb
      · intro a ha b hb hab
        subst hab
        exact ((Lu.mono (Q := fun r _ => r < pcol) (by intro r c' h; exact h.2)).append
          (Lv.mono (Q := fun r _ => r < pcol) (by intro r c' h; exact h.2))).disjoint hdis LD
          (by intro r c r' c' h h'; omega) a ha hb
  case genpow.genpow a b p q r D =>
    obtain ⟨hpz, hq, hr, hD, sq, sr, sp, sD⟩ := h
    simp only [ConeSpec.numel] at hrow
    have hp : conePdim (.genpow a b) = 3 := by simp [conePdim, ConeSpec.isSparseExpandable]
    have Lp := located_of_slots (shape := shape) (ptr := ptr) (l := l) p (fun k => (row + k, pcol + 2))
      (fun r c' => c' = pcol + 2 ∧ r < pcol)
      (fun k hk => ⟨0, sp k (by omega)⟩) (fun k hk => ⟨rfl, by show row + k < pcol; omega⟩)
    have Lq := located_of_slots (shape := shape) (ptr := ptr) (l := l) q (fun k => (row + k, pcol))
      (fun r c' => c' = pcol ∧ r < pcol)
      (fun k hk => ⟨0, sq k (by omega)⟩) (fun k hk => ⟨rfl, by show row + k < pcol; omega⟩)
    have Lr := located_of_slots (shape := shape) (ptr := ptr) (l := l) r
      (fun k => (row + a + k, pcol + 1)) (fun r c' => c' = pcol + 1 ∧ r < pcol)
      (fun k hk => ⟨0, sr k (by omega)⟩) (fun k hk => ⟨rfl, by show row + a + k < pcol; omega⟩)
    have LD := located_of_slots (shape := shape) (ptr := ptr) (l := l) D (fun k => (pcol + k, pcol + k))
      (fun r c' => r = c' ∧ pcol ≤ c' ∧ c' < pcol + 3)
      (fun k hk => ⟨0, slotU_of_diag (sD k (by omega))⟩)
      (fun k hk => ⟨rfl, by show pcol ≤ pcol + k; omega, by show pcol + k < pcol + 3; omega⟩)
    have Np := nodup_of_slots hdis p (fun k => (row + k, pcol + 2))
      (fun k hk => ⟨0, sp k (by omega)⟩) (fun k k' hkk _ => Or.inl (by show row + k ≠ row + k'; omega))
    have Nq := nodup_of_slots hdis q (fun k => (row + k, pcol))
      (fun k hk => ⟨0, sq k (by omega)⟩) (fun k k' hkk _ => Or.inl (by show row + k ≠ row + k'; omega))
    have Nr := nodup_of_slots hdis r (fun k => (row + a + k, pcol + 1))
      (fun k hk => ⟨0, sr k (by omega)⟩)
      (fun k k' hkk _ => Or.inl (by show row + a + k ≠ row + a + k'; omega))
    have ND := nodup_of_slots (shape := shape) hdis D (fun k => (pcol + k, pcol + k))
      (fun k hk => ⟨0, slotU_of_diag (sD k (by omega))⟩)
      (fun k k' hkk _ => Or.inl (by show pcol + k ≠ pcol + k'; omega))
    refine ⟨?_, ?_⟩
    · rw [hp]
      show Located shape ptr l _ (p.toList ++ q.toList ++ r.toList ++ D.toList)
      exact (((Lp.mono (by intro r c' h; omega)).append (Lq.mono (by intro r c' h; omega))).append
        (Lr.mono (by intro r c' h; omega))).append (LD.mono (by intro r c' h; omega))
    · show (p.toList ++ q.toList ++ r.toList ++ D.toList).Nodup
      rw [List.nodup_append, List.nodup_append, List.nodup_append]
      refine ⟨⟨⟨Np, Nq, ?_⟩, Nr, ?_⟩, ND, ?_⟩
      · intro x hx y hy hxy
        subst hxy
        exact Lp.disjoint hdis Lq (by intro r c r' c' h h'; omega) x hx hy
      · intro x hx y hy hxy
        subst hxy
        exact ((Lp.mono (Q := fun _ c' => c' ≠ pcol + 1) (by intro r c' h; omega)).append
          (Lq.mono (Q := fun _ c' => c' ≠ pcol + 1) (by intro r c' h; omega))).disjoint hdis Lr
          (by intro r c r' c' h h'; omega) x hx hy
      · intro x hx y hy hxy
        subst hxy
        exact (((Lp.mono (Q := fun r _ => r < pcol) (by intro r c' h; exact h.2)).append
          (Lq.mono (Q := fun r _ => r < pcol) (by intro r c' h; exact h.2))).append
          (Lr.mono (Q := fun r _ => r < pcol) (by intro r c' h; exact h.2))).disjoint hdis LD
          (by intro r c r' c' h h'; omega) x hx hy


-- ------------------------------------------------------------------ the assembled maps

section asm
variable {P A : Csc α} {cones : List ConeSpec} {shape : MatrixTriangle} {K : Csc α}
  {map : LDLDataMap} {sched : List (Entry α)} {Kc : Csc α} {nd : Nat}

theorem _root_.Clarabel.Lemmas.KktTotal.AsmRun.dis (R : AsmRun P A cones shape K map sched Kc nd) :
    RangesDisjoint (colcountToColptr Kc).colptr sched := by
  apply rangesDisjoint_cumsum Kc.colptr.toList sched
  intro c x hx
  have hc' : c < kktDim A cones + 1 := by
    rcases List.getElem?_eq_some_iff.mp hx with ⟨h, _⟩
    simpa [R.kc_size] using h
  have := R.kc_get c hc'
  rw [← Array.getElem?_toList, hx] at this
  cases this; exact Nat.le_refl _

/-- the slots of the `i`-th cone -/
theorem slots_at (R : AsmRun P A cones shape K map sched Kc nd) (i : Nat) (hi : i < cones.length) :
    HsSlots shape cones[i] (A.n + pre ConeSpec.numel cones i) (colcountToColptr Kc).colptr sched
      (fun k => map.Hsblocks[pre ConeSpec.blockLen cones i + k]?) ∧
    (cones[i].isSparseExpandable = true → ∃ mp', map.sparse_maps[nSparse (cones.take i)]? = some mp' ∧
      SparseSlots shape cones[i] (A.n + pre ConeSpec.numel cones i)
        (A.m + A.n + pre conePdim cones i) (colcountToColptr Kc).colptr sched mp') :=
  R.fill.cone_slots (cones.take i) cones[i] (cones.drop (i + 1)) (decomp_at cones i hi)

/-- upper coordinates of the write indexed by `map.Hsblocks[x]` -/
theorem hs_key (R : AsmRun P A cones shape K map sched Kc nd) (x : Nat) (hx : x < map.Hsblocks.size) :
    ∃ i, ∃ (hi : i < cones.length), ∃ a b, b ≤ a ∧ a < cones[i].numel ∧
      (∃ v, SlotU shape (colcountToColptr Kc).colptr sched map.Hsblocks[x]?
        (A.n + pre ConeSpec.numel cones i + b) (A.n + pre ConeSpec.numel cones i + a) v) ∧
      x = pre ConeSpec.blockLen cones i + (if cones[i].hsIsDiagonal = true then a else a * (a + 1) / 2 + b) ∧
      (cones[i].hsIsDiagonal = true → b = a) := by
  have hsz : map.Hsblocks.size = (cones.map ConeSpec.blockLen).sum := by
    rw [R.sizes.2.2.1, hsblocksLen_eq_sum]
  obtain ⟨i, hi, h1, h2⟩ := block_decode ConeSpec.blockLen cones x (by omega)
  refine ⟨i, hi, ?_⟩
  have hs := (slots_at R i hi).1
  unfold HsSlots at hs
  by_cases hd : cones[i].hsIsDiagonal = true
  · rw [if_pos hd] at hs
    have hbl : cones[i].blockLen = cones[i].numel := by unfold ConeSpec.blockLen; simp [hd]
    rw [hbl] at h2
    refine ⟨x - pre ConeSpec.blockLen cones i, x - pre ConeSpec.blockLen cones i, Nat.le_refl _,
      by omega, ⟨0, ?_⟩, by rw [if_pos hd]; omega, fun _ => rfl⟩
    have := hs (x - pre ConeSpec.blockLen cones i) (by omega)
    simp only [] at this
    rw [show pre ConeSpec.blockLen cones i + (x - pre ConeSpec.blockLen cones i) = x by omega] at this
    exact slotU_of_diag this
  · rw [if_neg hd] at hs
    have hbl : cones[i].blockLen = cones[i].numel * (cones[i].numel + 1) / 2 := by
      unfold ConeSpec.blockLen; simp [hd]
    rw [hbl] at h2
    obtain ⟨a, b, ha, hb, hx'⟩ := tri_decode cones[i].numel (x - pre ConeSpec.blockLen cones i) (by omega)
    refine ⟨a, b, hb, ha, ⟨0, ?_⟩, by rw [if_neg hd]; omega, fun h => absurd h hd⟩
    have := hs a b ha hb
    simp only [] at this
    rw [show pre ConeSpec.blockLen cones i + (a * (a + 1) / 2 + b) = x by omega] at this
    exact this

theorem hs_nodup (R : AsmRun P A cones shape K map sched Kc nd) : map.Hsblocks.toList.Nodup := by
  rw [List.nodup_iff_pairwise_ne, List.pairwise_iff_getElem]
  intro x y hx hy hxy heq
  have hx' : x < map.Hsblocks.size := by simpa using hx
  have hy' : y < map.Hsblocks.size := by simpa using hy
  obtain ⟨i, hi, a, b, hb, ha, ⟨v, s⟩, ex, ed⟩ := hs_key R x hx'
  obtain ⟨i', hi', a', b', hb', ha', ⟨v', s'⟩, ey, ed'⟩ := hs_key R y hy'
  have e1 : map.Hsblocks[x]? = some map.Hsblocks.toList[x] := by
    simp [Array.getElem?_eq_getElem hx']
  have e2 : map.Hsblocks[y]? = some map.Hsblocks.toList[y] := by
    simp [Array.getElem?_eq_getElem hy']
  refine slot_ne R.dis s s' ?_ _ e1 (by rw [e2, heq])
  rcases Nat.lt_trichotomy i i' with hlt | heq' | hgt
  · have := pre_succ_le ConeSpec.numel cones i i' hlt hi
    right; omega
  · subst heq'
    by_cases hab : a = a' ∧ b = b'
    · obtain ⟨rfl, rfl⟩ := hab
      omega
    · omega
  · have := pre_succ_le ConeSpec.numel cones i' i hgt hi'
    right; omega

theorem hs_located (R : AsmRun P A cones shape K map sched Kc nd)
    (hm : (cones.map ConeSpec.numel).sum = A.m) :
    Located shape (colcountToColptr Kc).colptr sched (fun r c => A.n ≤ r ∧ c < A.n + A.m)
      map.Hsblocks.toList := by
  intro j hj
  obtain ⟨x, hx, rfl⟩ := List.mem_iff_getElem.mp hj
  have hx' : x < map.Hsblocks.size := by simpa using hx
  obtain ⟨i, hi, a, b, hb, ha, ⟨v, s⟩, _, _⟩ := hs_key R x hx'
  have e1 : map.Hsblocks[x]? = some map.Hsblocks.toList[x] := by
    simp [Array.getElem?_eq_getElem hx']
  refine ⟨_, _, v, by rw [← e1]; exact s, ?_⟩
  have := pre_le_total ConeSpec.numel cones i hi
  show A.n ≤ A.n + pre ConeSpec.numel cones i + b ∧ A.n + pre ConeSpec.numel cones i + a < A.n + A.m
  omega

/-- the cone consuming the `J`-th expansion map, with its slots -/
theorem sp_key (R : AsmRun P A cones shape K map sched Kc nd) (J : Nat) (mp : SparseMap)
    (hJ : map.sparse_maps[J]? = some mp) :
    ∃ i, ∃ (hi : i < cones.length), cones[i].isSparseExpandable = true ∧ nSparse (cones.take i) = J ∧
      SparseSlots shape cones[i] (A.n + pre ConeSpec.numel cones i)
        (A.m + A.n + pre conePdim cones i) (colcountToColptr Kc).colptr sched mp := by
  have hlt : J < nSparse cones := by
    rw [← filterMap_expansion_length, ← R.sizes.2.2.2]
    exact (Array.getElem?_eq_some_iff.mp hJ).1
  obtain ⟨i, hi, hsp, hn⟩ := sparse_decode cones J hlt
  obtain ⟨mp', hm', hss⟩ := (slots_at R i hi).2 hsp
  rw [hn, hJ] at hm'
  cases hm'
  exact ⟨i, hi, hsp, hn, hss⟩

/-- **the index vectors produced by the assembly never share a position** -/
theorem _root_.Clarabel.Lemmas.KktTotal.AsmRun.maps_distinct
    (R : AsmRun P A cones shape K map sched Kc nd) (hm : (cones.map ConeSpec.numel).sum = A.m) :
    map.Hsblocks.toList.Nodup ∧
    (∀ mp ∈ map.sparse_maps.toList, ∀ j ∈ mp.indices, j ∉ map.Hsblocks.toList) ∧
    SparseMapsDisjoint map.sparse_maps ∧
    (∀ mp ∈ map.sparse_maps.toList, mp.indices.Nodup) := by
  have hdis := R.dis
  have key : ∀ (J : Nat) (mp : SparseMap), map.sparse_maps[J]? = some mp → ∃ i, ∃ (hi : i < cones.length),
      nSparse (cones.take i) = J ∧ cones[i].isSparseExpandable = true ∧
      Located shape (colcountToColptr Kc).colptr sched
        (fun _ c' => A.m + A.n + pre conePdim cones i ≤ c' ∧
          c' < A.m + A.n + pre conePdim cones i + conePdim cones[i]) mp.indices ∧
      mp.indices.Nodup := by
    intro J mp hJ
    obtain ⟨i, hi, hsp, hn, hss⟩ := sp_key R J mp hJ
    have hrow := pre_le_total ConeSpec.numel cones i hi
    obtain ⟨L, N⟩ := sp_located hdis hsp (by omega) hss
    exact ⟨i, hi, hn, hsp, L, N⟩
  have ofMem : ∀ mp ∈ map.sparse_maps.toList, ∃ J : Nat, map.sparse_maps[J]? = some mp := by
    intro mp hmp
    obtain ⟨J, hJ, rfl⟩ := List.mem_iff_getElem.mp hmp
    have hJ' : J < map.sparse_maps.size := by simpa using hJ
    exact ⟨J, by simp [Array.getElem?_eq_getElem hJ']⟩
  refine ⟨hs_nodup R, ?_, ?_, ?_⟩
  · intro mp hmp
    obtain ⟨J, hJ⟩ := ofMem mp hmp
    obtain ⟨i, hi, _, _, L, _⟩ := key J mp hJ
    exact L.disjoint hdis (hs_located R hm) (by intro r c r' c' h h'; right; omega)
  · intro m1 m2 mp1 mp2 hne h1 h2
    obtain ⟨i1, hi1, hn1, hsp1, L1, _⟩ := key m1 mp1 h1
    obtain ⟨i2, hi2, hn2, hsp2, L2, _⟩ := key m2 mp2 h2
    have hi12 : i1 ≠ i2 := by
      intro hh; subst hh; exact hne (by rw [← hn1, ← hn2])
    rcases Nat.lt_or_gt_of_ne hi12 with hlt | hgt
    · have := pre_succ_le conePdim cones i1 i2 hlt hi1
      exact L1.disjoint hdis L2 (by intro r c r' c' h h'; right; omega)
    · have := pre_succ_le conePdim cones i2 i1 hgt hi2
      exact L1.disjoint hdis L2 (by intro r c r' c' h h'; right; omega)
  · intro mp hmp
    obtain ⟨J, hJ⟩ := ofMem mp hmp
    obtain ⟨_, _, _, _, _, N⟩ := key J mp hJ
    exact N

/-- a position whose write has upper coordinates in the `[P Aᵀ]` block rows (`r < n`,
`c < n + m`) belongs to no Hs block and to no expansion index vector -/
theorem pa_positions_free (R : AsmRun P A cones shape K map sched Kc nd)
    (hm : (cones.map ConeSpec.numel).sum = A.m) {d r c : Nat} {v : α}
    (hs : SlotU shape (colcountToColptr Kc).colptr sched (some d) r c v)
    (hr : r < A.n) (hc : c < A.n + A.m) :
    d ∉ map.Hsblocks.toList ∧ ∀ mp ∈ map.sparse_maps.toList, d ∉ mp.indices := by
  have hdis := R.dis
  have L0 : Located shape (colcountToColptr Kc).colptr sched (fun r' c' => r' < A.n ∧ c' < A.n + A.m) [d] := by
    intro j hj
    simp only [List.mem_singleton] at hj
    subst hj
    exact ⟨r, c, v, hs, hr, hc⟩
  refine ⟨?_, ?_⟩
  · exact L0.disjoint hdis (hs_located R hm) (by intro r c r' c' h h'; left; omega) d (by simp)
  · intro mp hmp
    obtain ⟨J, hJ, rfl⟩ := List.mem_iff_getElem.mp hmp
    have hJ' : J < map.sparse_maps.size := by simpa using hJ
    have hget : map.sparse_maps[J]? = some map.sparse_maps.toList[J] := by
      simp [Array.getElem?_eq_getElem hJ']
    obtain ⟨i, hi, hsp, hn, hss⟩ := sp_key R J _ hget
    have hrow := pre_le_total ConeSpec.numel cones i hi
    obtain ⟨L, _⟩ := sp_located hdis hsp (by omega) hss
    exact L0.disjoint hdis L (by intro r c r' c' h h'; right; omega) d (by simp)

end asm

end Clarabel.Lemmas.KktDistinct
