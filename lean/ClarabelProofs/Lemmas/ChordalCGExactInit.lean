/-
  Clique-graph merge strategy, EXACTNESS OF THE CLIQUE GRAPH, the base case: right after `initialise`
  THE EDGE MATRIX IS EXACTLY THE REDUCED CLIQUE GRAPH of the cliques — two cliques `a ≠ b` are joined
  by a stored entry IFF `(a, b)` is a separating pair (`JT.SepPair`, `ChordalJTSwap.lean`).

  * `JT.sep_inter_edge`   : (abstract) the intersection of a separating pair is the intersection of
    the two ends of some edge of any connecting junction tree (running intersection + uniqueness of
    paths in a forest, `JT.conn_filter_all`);
  * `cgx_initialise_run`  : the run of `initialise` (copied skeleton of `cgj_initialise_run`,
    `ChordalCGJunctionInit.lean`), exporting the triplets `(rows, cols)` of
    `compute_reduced_clique_graph` and that the stored positions of the edge matrix are exactly the
    triplet positions;
  * `cgx_adj_iff`         : a stored entry joins `x ≠ y` IFF for some listed separator `S` both
    cliques contain `S` and no chain of links at level `S` joins them (`reduced_exact`,
    `ChordalCGReducedExact.lean`);
  * `initialise_exact_live`, `initialise_exact : InitExactSpec`.
  The building block `new_from_triplets` enters as the hypothesis `NewFromTripletsSpec` (theorem
  `newFromTriplets_spec`, `ChordalCGTriplets.lean`, used in the non-vacuity example only).
  All theorems here are class [S].
-/
import ClarabelProofs.Lemmas.ChordalCGExactDefs
import ClarabelProofs.Lemmas.ChordalCGJunctionInit
import ClarabelProofs.Lemmas.ChordalCGReducedExact
import ClarabelProofs.Lemmas.ChordalCGTriplets

namespace Clarabel.Chordal
open Clarabel

namespace JT

/-- [S] **THE INTERSECTION OF A SEPARATING PAIR IS THE SEPARATOR OF A TREE EDGE**: if `J` is a junction
tree (acyclic, running-intersection property) that connects `a` and `b`, and `(a, b)` is a separating
pair, then some edge `e` of `J` has `C_{e.1} ∩ C_{e.2} = C_a ∩ C_b`.  (Otherwise every edge of `J`
both of whose ends contain `C_a ∩ C_b` would be a link; by running intersection and uniqueness of
paths in a forest those edges connect `a` to `b`.)  `V` is any list containing `C_a ∩ C_b`. -/
theorem sep_inter_edge {cl : Nat → Nat → Bool} {L : List Nat} {J : List (Nat × Nat)}
    (hJ : ForestFrom [] J) (hJL : ∀ e ∈ J, e.1 ∈ L ∧ e.2 ∈ L) (hrip : RIP cl L J)
    {a b : Nat} (ha : a ∈ L) (hb : b ∈ L) (V : List Nat)
    (hV : ∀ v, cl a v = true → cl b v = true → v ∈ V) (hconn : Conn J a b)
    (hsep : SepPair cl L a b) :
    ∃ e ∈ J, ∀ v, (cl e.1 v = true ∧ cl e.2 v = true) ↔ (cl a v = true ∧ cl b v = true) := by
  by_contra hno
  apply hsep
  have hS : ∀ v ∈ V.filter (fun v => both cl v (a, b)), Conn (JT.atV cl v J) a b := by
    intro v hv
    have hv2 := (List.mem_filter.1 hv).2
    simp only [both, Bool.and_eq_true] at hv2
    exact hrip v a ha b hb hv2.1 hv2.2
  have hp : Conn (J.filter (fun _ => true)) a b :=
    hconn.mono (fun m hm => List.mem_filter.2 ⟨hm, rfl⟩)
  have hall := conn_filter_all (cl := cl) (fun _ => true) hJ hp _ hS
  refine conn_to_rtg (fun u v h => HLink.symm h) (fun e he => ?_) hall
  obtain ⟨heJ, he2⟩ := List.mem_filter.1 he
  simp only [Bool.true_and, List.all_eq_true] at he2
  have hcont : ∀ v, cl a v = true → cl b v = true → cl e.1 v = true ∧ cl e.2 v = true := by
    intro v hav hbv
    have hvS : v ∈ V.filter (fun v => both cl v (a, b)) :=
      List.mem_filter.2 ⟨hV v hav hbv, by simp [both, hav, hbv]⟩
    have := he2 v hvS
    simpa [both] using this
  refine ⟨(hJL e heJ).1, (hJL e heJ).2, forest_no_loop J [] hJ e heJ, hcont, ?_⟩
  by_contra hno2
  apply hno
  refine ⟨e, heJ, fun v => ⟨fun h => ?_, fun h => hcont v h.1 h.2⟩⟩
  by_contra hn
  exact hno2 ⟨v, h.1, h.2, hn⟩

/-- [S] a property of both ends of an edge does not depend on its orientation -/
theorem norm_both (P : Nat → Prop) (c p : Nat) :
    (P (norm (c, p)).1 ∧ P (norm (c, p)).2) ↔ (P c ∧ P p) := by
  unfold norm
  by_cases h : c ≤ p
  · show P (max c p) ∧ P (min c p) ↔ _
    rw [Nat.max_eq_right h, Nat.min_eq_left h]
    exact And.comm
  · show P (max c p) ∧ P (min c p) ↔ _
    rw [Nat.max_eq_left (by omega), Nat.min_eq_right (by omega)]

end JT

/-! ## the run of `initialise` -/

/-- [S] THE RUN OF `initialise`, WITH THE TRIPLETS OF THE REDUCED CLIQUE GRAPH (the skeleton of
`cgj_initialise_run`): on the tree `t0` of `SuperNodeTree::new` (filled pattern) `initialise` does
not panic, the clique sets of the result are the whole cliques of `t0`, duplicate-free and all live,
and the stored positions of the edge matrix are exactly the pairs `(rows[k], cols[k])` returned by
`compute_reduced_clique_graph(t0.separators, cliques)` -/
theorem cgx_initialise_run (hT : NewFromTripletsSpec) {L : LPat} {t0 : SuperNodeTree}
    (hok : SnTreeOk L t0) :
    ∃ s1 t1 seps' rows cols, CGStrategy.new.initialise t0 = .ok (s1, t1) ∧
      t1.snode.size = t0.snode.size ∧
      (∀ c v, v ∈ (t1.snode.getD c #[]).toList ↔ v ∈ cliqueList t0 c) ∧
      (∀ c, CGLive t1 c ↔ c < t0.snode.size) ∧
      (∀ c, (t1.snode.getD c #[]).toList.Nodup) ∧
      computeReducedCliqueGraph t0.separators t1.snode = .ok (seps', rows, cols) ∧
      (∀ r c, (s1.edges.entry r c).isSome = true ↔
        ∃ k, k < rows.size ∧ rows.getD k 0 = r ∧ cols.getD k 0 = c) := by
  have hct := hok.ct
  have hpc := hct.toPCInv
  have hncl := hok.ncl
  have hlive : ∀ c, c < t0.snode.size → Live t0 c := hok.all_live
  obtain ⟨sn1, par1, ch1, hl1, hl2, hsz1, hget1, hcl, hpar1, hch1⟩ := cgi_loops_ok hpc
  -- the new clique sets: non-empty, without repetition
  have hne1 : ∀ c, c < t0.snode.size → sn1.getD c #[] ≠ #[] := by
    intro c hc he
    have hso := hok.cover.snode_of _ (snp_getD_mem_toList t0.snode #[] hc)
    have hm : minOf (t0.snode.getD c #[]) ∈ (sn1.getD c #[]).toList := by
      rw [hcl]; exact List.mem_append_left _ hso.rep_mem
    rw [he] at hm
    simp at hm
  have hnd1 : ∀ c, (sn1.getD c #[]).toList.Nodup := by
    intro c
    by_cases hc : c < t0.snode.size
    · rw [hget1 c hc]
      exact VSet.nodup_extend _ _ (hct.sn_nodup c (hlive c hc))
    · rw [cgi_getD_oob sn1 c #[] (by omega)]; simp
  -- the reduced clique graph, its weights, the edge matrix, the adjacency table
  obtain ⟨seps', rows, cols, hred, hperm, hrc, hrows⟩ := reduced_ok t0.separators sn1
  rw [hsz1] at hrows
  obtain ⟨w, hw, hwsz, hwget⟩ := computeWeights_ok rows cols sn1 hrc
    (fun k hk => by rw [hsz1]; exact (hrows k hk).2)
    (fun k hk => by rw [hsz1]; have := hrows k hk; omega)
  obtain ⟨E, hnew, hEm, hEn, hgood, hpos, hval⟩ := hT t0.snode.size rows cols w hrc (by omega) hrows
  obtain ⟨tb, hadj, hkeys, hmem, hnodup⟩ := computeAdjacencyTable_ok hgood hEn
  rw [← hncl] at hnew hadj
  refine ⟨{ stop := false, edges := E, p := Array.replicate E.nzval.size 0, adjacencyTable := tb },
    { t0 with snode := sn1, snodeParent := par1, snodeChildren := ch1, separators := seps' },
    seps', rows, cols, ?_, hsz1, hcl, ?_, hnd1, hred, hpos⟩
  · rw [initialise_eq_forIn]
    simp only [hl1, hl2, hred, hw, hnew, hadj, bind, Except.bind, pure, Except.pure]
  · intro c
    unfold CGLive
    show (c < sn1.size ∧ sn1.getD c #[] ≠ #[]) ↔ _
    rw [hsz1]
    exact ⟨fun h => h.1, fun h => ⟨h, hne1 c h⟩⟩

/-- [S] the listed separators of a clique tree all of whose cliques are live have no repetition -/
theorem cgx_seps_nodup {t0 : SuperNodeTree} {ord : Nat → Nat} (hct : CTInv t0 ord)
    (hall : ∀ c, c < t0.snode.size → Live t0 c) :
    ∀ S ∈ t0.separators.toList, S.toList.Nodup := by
  intro S hS
  obtain ⟨i, hi, e⟩ := List.mem_iff_getElem.1 hS
  have hi' : i < t0.separators.size := by simpa using hi
  have hS' : t0.separators.getD i #[] = S := by
    simpa [Array.getD, hi'] using e
  rw [← hS']
  exact hct.sep_nodup i (hall i (by rw [← hct.sz_sep]; exact hi'))

/-- [S] **THE STORED ENTRIES, AT CODE LEVEL**: if the stored positions of the matrix `E` are the
triplet positions of `compute_reduced_clique_graph(separators, cliques)` (duplicate-free sets), then
`x ≠ y` are joined by a stored entry IFF for some listed separator `S` both cliques contain `S` (pass
`is_subset`) and no chain of links at level `S` joins them -/
theorem cgx_adj_iff {separators cliques seps' : Array VSet} {rows cols : Array Nat} {E : IMat}
    (hnd : ∀ i, (cliques.getD i #[]).toList.Nodup)
    (hsnd : ∀ S ∈ separators.toList, S.toList.Nodup)
    (hred : computeReducedCliqueGraph separators cliques = .ok (seps', rows, cols))
    (hpos : ∀ r c, (E.entry r c).isSome = true ↔
      ∃ k, k < rows.size ∧ rows.getD k 0 = r ∧ cols.getD k 0 = c)
    {x y : Nat} (hxy : x ≠ y) :
    E.Adj x y ↔ ∃ S ∈ separators.toList, x ∈ (CGR.sepCliques cliques S).toList ∧
      y ∈ (CGR.sepCliques cliques S).toList ∧ ¬ Relation.ReflTransGen (CGR.Lk cliques S) x y := by
  obtain ⟨seps2, rows2, cols2, hred2, _, hchar⟩ := reduced_exact separators cliques hnd hsnd
  have heq := Except.ok.inj (hred.symm.trans hred2)
  have er : rows2 = rows := by
    have := congrArg (fun x => x.2.1) heq; simpa using this.symm
  have ec : cols2 = cols := by
    have := congrArg (fun x => x.2.2) heq; simpa using this.symm
  subst er; subst ec
  unfold IMat.Adj
  rw [hpos, hchar]
  constructor
  · rintro ⟨S, hS, h⟩
    exact ⟨S, hS, (CGR.emitS_iff cliques S hxy).1 h⟩
  · rintro ⟨S, hS, h⟩
    exact ⟨S, hS, (CGR.emitS_iff cliques S hxy).2 h⟩

/-! ## exactness after `initialise` -/

/-- [S] **AFTER `initialise` THE EDGE MATRIX IS EXACTLY THE REDUCED CLIQUE GRAPH**: on the tree `t0` of
`SuperNodeTree::new` (filled pattern, ≥ 2 cliques) `initialise` does not panic, all cliques are live,
and two cliques `x ≠ y` are joined by a stored entry of the edge matrix IFF `(x, y)` is a separating
pair of the clique family (no chain of cliques all containing `C_x ∩ C_y`, consecutive ones meeting
outside `C_x ∩ C_y`, joins `x` to `y`) -/
theorem initialise_exact_live (hT : NewFromTripletsSpec) {L : LPat} {t0 : SuperNodeTree}
    (hf : L.Filled) (hok : SnTreeOk L t0) (h2 : 2 ≤ t0.snode.size) :
    ∃ s1 t1, CGStrategy.new.initialise t0 = .ok (s1, t1) ∧ CGExact s1 t1 ∧
      cgLiveList t1 = List.range t0.snode.size := by
  have _ := hf
  obtain ⟨s1, t1, seps', rows, cols, hrun, hsz, hcl, hlive, hnd, hred, hpos⟩ :=
    cgx_initialise_run hT hok
  have hct := hok.ct
  have hinit := hok.pcinit h2
  have hsnd := cgx_seps_nodup hct hok.all_live
  have hlist : cgLiveList t1 = List.range t0.snode.size := by
    unfold cgLiveList
    rw [hsz, List.filter_eq_self.mpr]
    intro c hc
    rw [decide_eq_true_eq]
    exact (hlive c).2 (List.mem_range.1 hc)
  have hmemL : ∀ c, c ∈ cgLiveList t1 ↔ c < t1.snode.size := by
    intro c; rw [hlist, List.mem_range, hsz]
  refine ⟨s1, t1, hrun, ?_, hlist⟩
  -- membership in the cliques selected for a separator
  have hsel : ∀ (S : VSet), S.toList.Nodup → ∀ c, c < t1.snode.size →
      (∀ v ∈ S.toList, v ∈ (t1.snode.getD c #[]).toList) →
      c ∈ (CGR.sepCliques t1.snode S).toList := by
    intro S hS c hc hsub
    exact (CGR.mem_sepCliques t1.snode S c).2
      ⟨hc, (CGR.isSubset_iff _ _).2 ⟨CGR.size_le_of_subset hS hsub, hsub⟩⟩
  -- the junction tree of the cliques
  have hr : t0.snodePost.getD (t0.snode.size - 1) 0 < t0.snode.size :=
    hinit.post_getD_lt (by omega)
  obtain ⟨hforest, hin, _⟩ := cgj_tree_forest hct hok.all_live hr hok.root_last hinit.root_unique
  have hJL : ∀ e ∈ cgTreeEdges t0, e.1 ∈ cgLiveList t1 ∧ e.2 ∈ cgLiveList t1 := by
    rw [hlist]; exact hin
  have hrip : JT.RIP (cgCl t1) (cgLiveList t1) (cgTreeEdges t0) :=
    cgj_tree_rip hct hok.all_live (fun c v => by rw [cgCl_iff, hcl])
      (fun c hc => by rw [hlist] at hc; exact List.mem_range.1 hc)
  have hroot : ∀ c, Live t0 c →
      Conn (cgTreeEdges t0) c (t0.snodePost.getD (t0.snode.size - 1) 0) :=
    cgi_conn_root hct hinit.root_unique (fun c hl hnp =>
      cgj_conn_of_norm (cgj_mem_treeEdges (hct.sz_par ▸ hl.1) hnp))
  intro x hx y hy hxy
  have hx' := (hmemL x).1 hx
  have hy' := (hmemL y).1 hy
  show s1.edges.Adj x y ↔ _
  rw [cgx_adj_iff hnd hsnd hred hpos hxy]
  constructor
  · -- a stored entry is a separating pair
    rintro ⟨S, hS, mx, my, hq⟩ hchain
    apply hq
    have hSn := hsnd S hS
    have hSeq : ∀ v, v ∈ S.toList ↔
        (v ∈ (t1.snode.getD x #[]).toList ∧ v ∈ (t1.snode.getD y #[]).toList) := by
      intro v
      refine ⟨fun hv => ⟨CGR.sepCliques_sub mx v hv, CGR.sepCliques_sub my v hv⟩, fun hv => ?_⟩
      by_contra hvS
      exact hq (.single ⟨mx, my, hxy, v, hv.1, hv.2, hvS⟩)
    refine Relation.ReflTransGen.mono (fun p q hl => ?_) _ _ hchain
    obtain ⟨hp, hq', hpq, hcont, v, hvp, hvq, hvn⟩ := hl
    have subp : ∀ u ∈ S.toList, u ∈ (t1.snode.getD p #[]).toList := by
      intro u hu
      have := (hSeq u).1 hu
      exact (cgCl_iff t1 p u).1 (hcont u ((cgCl_iff t1 x u).2 this.1) ((cgCl_iff t1 y u).2 this.2)).1
    have subq : ∀ u ∈ S.toList, u ∈ (t1.snode.getD q #[]).toList := by
      intro u hu
      have := (hSeq u).1 hu
      exact (cgCl_iff t1 q u).1 (hcont u ((cgCl_iff t1 x u).2 this.1) ((cgCl_iff t1 y u).2 this.2)).2
    refine ⟨hsel S hSn p ((hmemL p).1 hp) subp, hsel S hSn q ((hmemL q).1 hq') subq, hpq, v,
      (cgCl_iff t1 p v).1 hvp, (cgCl_iff t1 q v).1 hvq, fun hvS => hvn ?_⟩
    have := (hSeq v).1 hvS
    exact ⟨(cgCl_iff t1 x v).2 this.1, (cgCl_iff t1 y v).2 this.2⟩
  · -- a separating pair is a stored entry
    intro hsep
    have hxl : Live t0 x := hok.all_live x (hsz ▸ hx')
    have hyl : Live t0 y := hok.all_live y (hsz ▸ hy')
    obtain ⟨e, heJ, he⟩ := JT.sep_inter_edge hforest hJL hrip hx hy
      (t1.snode.getD x #[]).toList (fun v hv _ => (cgCl_iff t1 x v).1 hv)
      ((hroot x hxl).trans (hroot y hyl).symm) hsep
    obtain ⟨c, hc, hnp, rfl⟩ := cgj_of_mem_treeEdges heJ
    have hcl' := hok.all_live c hc
    have hSeq : ∀ v, v ∈ (t0.separators.getD c #[]).toList ↔
        (v ∈ (t1.snode.getD x #[]).toList ∧ v ∈ (t1.snode.getD y #[]).toList) := by
      intro v
      rw [hct.sep_eq_inter hcl' hnp v, ← hcl, ← hcl, ← cgCl_iff, ← cgCl_iff, ← cgCl_iff, ← cgCl_iff,
        ← JT.norm_both (fun k => cgCl t1 k v = true)]
      exact he v
    have hSl : t0.separators.getD c #[] ∈ t0.separators.toList :=
      snp_getD_mem_toList _ _ (by rw [hct.sz_sep]; exact hc)
    have hSn := hsnd _ hSl
    have mx := hsel _ hSn x hx' (fun v hv => ((hSeq v).1 hv).1)
    have my := hsel _ hSn y hy' (fun v hv => ((hSeq v).1 hv).2)
    refine ⟨_, hSl, mx, my, fun hchain => hsep ?_⟩
    refine Relation.ReflTransGen.mono (fun p q hl => ?_) _ _ hchain
    obtain ⟨mp, mq, hpq, v, hvp, hvq, hvS⟩ := hl
    have hp' := ((CGR.mem_sepCliques _ _ p).1 mp).1
    have hq' := ((CGR.mem_sepCliques _ _ q).1 mq).1
    refine ⟨(hmemL p).2 hp', (hmemL q).2 hq', hpq, fun u hxu hyu => ?_, v,
      (cgCl_iff t1 p v).2 hvp, (cgCl_iff t1 q v).2 hvq, fun h => hvS ?_⟩
    · have huS := (hSeq u).2 ⟨(cgCl_iff t1 x u).1 hxu, (cgCl_iff t1 y u).1 hyu⟩
      exact ⟨(cgCl_iff t1 p u).2 (CGR.sepCliques_sub mp u huS),
        (cgCl_iff t1 q u).2 (CGR.sepCliques_sub mq u huS)⟩
    · exact (hSeq v).2 ⟨(cgCl_iff t1 x v).1 h.1, (cgCl_iff t1 y v).1 h.2⟩

/-- [S] **`initialise` MAKES THE EDGE MATRIX EXACTLY THE REDUCED CLIQUE GRAPH** (`InitExactSpec`) -/
theorem initialise_exact (hT : NewFromTripletsSpec) : InitExactSpec := by
  intro L t0 hf hok h2
  obtain ⟨s1, t1, hrun, hex, _⟩ := initialise_exact_live hT hf hok h2
  exact ⟨s1, t1, hrun, hex⟩

/-! ## non-vacuity -/

/-- non-vacuity of `initialise_exact`: the hypotheses `L.Filled`, `SnTreeOk L t0`,
`2 ≤ t0.snode.size` hold for the tree of `SuperNodeTree::new exFilledL`
(`cgj_exFilledL_two_cliques`), `NewFromTripletsSpec` is the theorem `newFromTriplets_spec`; the
result is a state with `CGExact s1 t1` on at least two live cliques (so the statement quantifies
over at least one pair `x ≠ y`) -/
example : ∃ t0 s1 t1, SuperNodeTree.new exFilledL = .ok t0 ∧
    CGStrategy.new.initialise t0 = .ok (s1, t1) ∧ CGExact s1 t1 ∧ 2 ≤ (cgLiveList t1).length := by
  obtain ⟨t0, hnew, hok, h2⟩ := cgj_exFilledL_two_cliques
  obtain ⟨s1, t1, hrun, hex, hlist⟩ :=
    initialise_exact_live newFromTriplets_spec exFilledL_filled hok h2
  refine ⟨t0, s1, t1, hnew, hrun, hex, ?_⟩
  rw [hlist, List.length_range]
  exact h2

end Clarabel.Chordal
