/-
  C12: the elimination tree.

  `Lpat A k i` is the structural nonzero pattern of the LDLᵀ factor of a symmetric matrix whose
  strict upper triangle has pattern `A` (`A i k`, `i < k`: entry `(i, k)` is stored):
  `L[k,i] ≠ 0` structurally iff `A[i,k]` is stored or there is `j < i` with `L[i,j]` and `L[k,j]`
  structurally nonzero (the fill rule of symbolic elimination, equivalently the reach of the
  up-looking triangular solve for row `k`).

  This file proves that the model of `_etree` (`Qdldl.etree`) computes, for every structurally
  valid upper-triangular input, the elimination-tree parents (`etree[i]` = least `k` with
  `Lpat k i`) and the column counts (`Lnz[i]` = number of `k` with `Lpat k i`), without error.
-/
import ClarabelModel.Qdldl
import ClarabelProofs.Lemmas.QdldlSolveCsc

namespace Clarabel.Qdldl

/-! ### the symbolic factor -/

/-- structural nonzeros of the strict lower triangle of the factor `L` -/
inductive Lpat (A : Nat → Nat → Prop) : Nat → Nat → Prop
  | base {k i : Nat} : i < k → A i k → Lpat A k i
  | fill {k i j : Nat} : j < i → i < k → Lpat A i j → Lpat A k j → Lpat A k i

theorem Lpat.lt {A : Nat → Nat → Prop} {k i : Nat} (h : Lpat A k i) : i < k := by
  cases h <;> assumption

/-- a set that contains, with every `b`, some row `p` of column `b` of `L` below any other row
`a < bound` of that column, contains every row `a < bound` of the columns of its members
(members are closed under "walking up the elimination tree") -/
theorem Lpat.closure {A : Nat → Nat → Prop} (S : Nat → Prop) (bound : Nat)
    (hpar : ∀ b, S b → ∀ a, Lpat A a b → a < bound → ∃ p, p ≤ a ∧ Lpat A p b ∧ S p) :
    ∀ a b, S b → Lpat A a b → a < bound → S a := by
  have key : ∀ d a b, a - b ≤ d → S b → Lpat A a b → a < bound → S a := by
    intro d
    induction d with
    | zero => intro a b hd _ hL _; have := hL.lt; omega
    | succ d ih =>
      intro a b hd hS hL ha
      obtain ⟨p, hpa, hLp, hSp⟩ := hpar b hS a hL ha
      by_cases hp : p = a
      · subst hp; exact hSp
      · have hbp : b < p := hLp.lt
        exact ih a p (by omega) hSp (Lpat.fill hbp (by omega) hLp hL) ha
  intro a b
  exact key (a - b) a b (Nat.le_refl _)

/-- a set that contains the stored entries of column `k` of `A` and is closed in the sense of
`Lpat.closure` contains the whole pattern of row `k` of `L` -/
theorem Lpat.complete {A : Nat → Nat → Prop} (S : Nat → Prop) (k : Nat)
    (hbase : ∀ i, i < k → A i k → S i)
    (hclos : ∀ a b, S b → Lpat A a b → a < k → S a) : ∀ c, Lpat A k c → S c := by
  intro c
  induction c using Nat.strong_induction_on with
  | _ c ih =>
    intro h
    cases h with
    | base h1 h2 => exact hbase c h1 h2
    | fill hj hi h1 h2 => exact hclos c _ (ih _ hj h2) h1 hi

open Classical in
/-- the rows `r < j` of column `c` of `L`, in increasing order -/
noncomputable def Lrows (A : Nat → Nat → Prop) (j c : Nat) : List Nat :=
  (List.range j).filter (fun r => decide (Lpat A r c))

open Classical in
theorem Lrows_succ (A : Nat → Nat → Prop) (j c : Nat) :
    Lrows A (j + 1) c = Lrows A j c ++ (if Lpat A j c then [j] else []) := by
  unfold Lrows
  rw [List.range_succ, List.filter_append]
  by_cases h : Lpat A j c <;> simp [h]

theorem mem_Lrows (A : Nat → Nat → Prop) (j c r : Nat) : r ∈ Lrows A j c ↔ r < j ∧ Lpat A r c := by
  simp [Lrows]

open Classical in
theorem Lrows_length_succ (A : Nat → Nat → Prop) (j c : Nat) :
    (Lrows A (j + 1) c).length = (Lrows A j c).length + (if Lpat A j c then 1 else 0) := by
  rw [Lrows_succ]
  by_cases h : Lpat A j c <;> simp [h]

/-! ### array helpers -/

theorem getD_set' {β : Type} (xs : Array β) (i : Nat) (v : β) (h : i < xs.size) (c : Nat) (d : β) :
    (xs.set i v h).getD c d = if c = i then v else xs.getD c d := by
  rw [Array.getD_eq_getD_getElem?, Array.getD_eq_getD_getElem?, Array.getElem?_set]
  by_cases hc : c = i
  · subst hc; simp
  · have : ¬ i = c := fun e => hc e.symm
    simp [hc, this]

theorem getE_getD {β : Type} (xs : Array β) (i : Nat) (s : String) (d : β) (h : i < xs.size) :
    getE xs i s = .ok (xs.getD i d) := by
  rw [getE_ok _ _ _ h]; simp [h]

/-- invariant rule for a monadic loop over a list; the invariant sees the processed prefix -/
theorem foldlM_list_inv {β σ : Type} (f : σ → β → MErr σ) (P : List β → σ → Prop) (l : List β)
    (s0 : σ) (h0 : P [] s0)
    (hstep : ∀ pre x post, l = pre ++ x :: post → ∀ s, P pre s → ∃ s', f s x = .ok s' ∧ P (pre ++ [x]) s') :
    ∃ s', l.foldlM f s0 = .ok s' ∧ P l s' := by
  have key : ∀ post pre s, l = pre ++ post → P pre s → ∃ s', post.foldlM f s = .ok s' ∧ P l s' := by
    intro post
    induction post with
    | nil => intro pre s hl hP; refine ⟨s, rfl, ?_⟩; rw [hl]; simpa using hP
    | cons x t ih =>
      intro pre s hl hP
      obtain ⟨s1, h1, hP1⟩ := hstep pre x t hl s hP
      obtain ⟨s2, h2, hP2⟩ := ih (pre ++ [x]) s1 (by rw [hl]; simp) hP1
      refine ⟨s2, ?_, hP2⟩
      rw [List.foldlM_cons, h1]; exact h2
  exact key l [] s0 rfl h0

/-! ### `_etree` -/

/-- what `check_structure` and the CSC format give for the (permuted) upper triangle -/
structure TriuCsc (n : Nat) (Ap Ai : Array Nat) : Prop where
  ap_size : Ap.size = n + 1
  ap_mono : ∀ k, k < n → Ap.getD k 0 ≤ Ap.getD (k + 1) 0
  ap_bound : ∀ k, k ≤ n → Ap.getD k 0 ≤ Ai.size
  rows : ∀ k, k < n → ∀ t, Ap.getD k 0 ≤ t → t < Ap.getD (k + 1) 0 → Ai.getD t 0 ≤ k

/-- entry `(i, k)` of the strict upper triangle is stored -/
def Apat (Ap Ai : Array Nat) (i k : Nat) : Prop :=
  ∃ t, Ap.getD k 0 ≤ t ∧ t < Ap.getD (k + 1) 0 ∧ Ai.getD t 0 = i

/-- invariant of the outer loop of `_etree` after the columns `0 … j-1` -/
def EtreeInv (A : Nat → Nat → Prop) (n j : Nat) (s : EtreeState) : Prop :=
  s.work.size = 3 * n ∧ s.Lnz.size = n ∧ s.etree.size = n ∧
  (∀ c, c < n → s.work.getD c 0 ≤ j - 1) ∧
  (∀ c, c < n → ∀ p, s.etree.getD c none = some p →
    c < p ∧ p < j ∧ Lpat A p c ∧ ∀ r, Lpat A r c → p ≤ r) ∧
  (∀ c, c < n → s.etree.getD c none = none → ∀ r, r < j → ¬ Lpat A r c) ∧
  (∀ c, c < n → s.Lnz.getD c 0 = (Lrows A j c).length)

/-- invariant inside column `j`; `X` is the node the current walk is about to visit -/
structure ColInv (A : Nat → Nat → Prop) (n j : Nat) (X : Nat → Prop) (s : EtreeState) : Prop where
  wsz : s.work.size = 3 * n
  lsz : s.Lnz.size = n
  esz : s.etree.size = n
  wj : s.work.getD j 0 = j
  wle : ∀ c, c < n → s.work.getD c 0 ≤ j
  sound : ∀ c, c < n → s.work.getD c 0 = j → c = j ∨ Lpat A j c
  par : ∀ c, c < n → s.work.getD c 0 = j → c ≠ j →
    ∃ p, s.etree.getD c none = some p ∧ (s.work.getD p 0 = j ∨ X p)
  esome : ∀ c, c < n → ∀ p, s.etree.getD c none = some p →
    c < p ∧ p ≤ j ∧ Lpat A p c ∧ ∀ r, Lpat A r c → p ≤ r
  enone : ∀ c, c < n → s.etree.getD c none = none →
    (∀ r, r < j → ¬ Lpat A r c) ∧ (s.work.getD c 0 = j → c = j)
  cnt : ∀ c, c < n → s.Lnz.getD c 0 =
    (Lrows A j c).length + (if s.work.getD c 0 = j ∧ c ≠ j then 1 else 0)

theorem ColInv.mono {A : Nat → Nat → Prop} {n j : Nat} {X Y : Nat → Prop} {s : EtreeState}
    (h : ColInv A n j X s) (hX : ∀ p, X p → s.work.getD p 0 = j ∨ Y p) : ColInv A n j Y s :=
  { h with
    par := by
      intro c hc hm hne
      obtain ⟨p, hp, hq⟩ := h.par c hc hm hne
      exact ⟨p, hp, hq.elim Or.inl (hX p)⟩ }

theorem ColInv.weaken {A : Nat → Nat → Prop} {n j : Nat} {X : Nat → Prop} {s : EtreeState}
    (h : ColInv A n j X s) (hX : ∀ p, X p → s.work.getD p 0 = j) : ColInv A n j (fun _ => False) s :=
  h.mono (fun p hp => Or.inl (hX p hp))

/-- one marking step of the walk (pure part) -/
theorem walk_step_inv {A : Nat → Nat → Prop} {n j cur : Nat} {s : EtreeState} (hj : j < n)
    (hI : ColInv A n j (· = cur) s) (hcur : cur < j) (hun : s.work.getD cur 0 ≠ j)
    (hL : Lpat A j cur) (et : Array (Option Nat)) (p : Nat)
    (hets : et.size = n) (hetc : et.getD cur none = some p)
    (heto : ∀ c, c ≠ cur → et.getD c none = s.etree.getD c none)
    (hnone : s.etree.getD cur none = none → p = j)
    (hsome : ∀ q, s.etree.getD cur none = some q → p = q)
    (hw : cur < s.work.size) (hl : cur < s.Lnz.size) :
    ColInv A n j (· = p)
      { work := s.work.set cur j hw, Lnz := s.Lnz.set cur (s.Lnz.getD cur 0 + 1) hl, etree := et } ∧
    cur < p ∧ p ≤ j ∧ ((s.work.set cur j hw).getD p 0 = j ∨ Lpat A j p) := by
  have hcn : cur < n := by omega
  have hcj : cur ≠ j := by omega
  -- facts about p
  have hp : cur < p ∧ p ≤ j ∧ Lpat A p cur ∧ ∀ r, Lpat A r cur → p ≤ r := by
    cases hq : s.etree.getD cur none with
    | none =>
      have := hnone hq; subst this
      refine ⟨hcur, Nat.le_refl _, hL, ?_⟩
      intro r hr
      by_contra hlt
      exact (hI.enone cur hcn hq).1 r (by omega) hr
    | some q =>
      have := hsome q hq; subst this
      exact hI.esome cur hcn _ hq
  have hpm : (s.work.set cur j hw).getD p 0 = j ∨ Lpat A j p := by
    by_cases hpj : p = j
    · left; rw [getD_set', if_neg (by omega), hpj]; exact hI.wj
    · right; exact Lpat.fill hp.1 (by omega) hp.2.2.1 hL
  refine ⟨?_, hp.1, hp.2.1, hpm⟩
  constructor
  · simpa using hI.wsz
  · simpa using hI.lsz
  · exact hets
  · show (s.work.set cur j hw).getD j 0 = j
    rw [getD_set', if_neg (fun e => hcj e.symm)]; exact hI.wj
  · intro c hc
    show (s.work.set cur j hw).getD c 0 ≤ j
    rw [getD_set']; split
    · exact Nat.le_refl _
    · exact hI.wle c hc
  · intro c hc hm
    change (s.work.set cur j hw).getD c 0 = j at hm
    rw [getD_set'] at hm
    by_cases hcc : c = cur
    · subst hcc; right; exact hL
    · rw [if_neg hcc] at hm; exact hI.sound c hc hm
  · intro c hc hm hne
    change (s.work.set cur j hw).getD c 0 = j at hm
    show ∃ q, et.getD c none = some q ∧ ((s.work.set cur j hw).getD q 0 = j ∨ q = p)
    by_cases hcc : c = cur
    · subst hcc; exact ⟨p, hetc, Or.inr rfl⟩
    · rw [getD_set', if_neg hcc] at hm
      obtain ⟨q, hq, hq'⟩ := hI.par c hc hm hne
      refine ⟨q, by rw [heto c hcc]; exact hq, Or.inl ?_⟩
      rw [getD_set']
      rcases hq' with h | h
      · split
        · rfl
        · exact h
      · rw [if_pos h]
  · intro c hc q hq
    change et.getD c none = some q at hq
    by_cases hcc : c = cur
    · subst hcc
      rw [hetc] at hq
      have : p = q := by simpa using hq
      subst this; exact hp
    · rw [heto c hcc] at hq; exact hI.esome c hc q hq
  · intro c hc hq
    change et.getD c none = none at hq
    have hcc : c ≠ cur := by
      intro e; subst e; rw [hetc] at hq; cases hq
    rw [heto c hcc] at hq
    refine ⟨(hI.enone c hc hq).1, ?_⟩
    intro hm
    change (s.work.set cur j hw).getD c 0 = j at hm
    rw [getD_set', if_neg hcc] at hm
    exact (hI.enone c hc hq).2 hm
  · intro c hc
    show (s.Lnz.set cur (s.Lnz.getD cur 0 + 1) hl).getD c 0 =
      (Lrows A j c).length + (if (s.work.set cur j hw).getD c 0 = j ∧ c ≠ j then 1 else 0)
    rw [getD_set', getD_set']
    by_cases hcc : c = cur
    · subst hcc
      have := hI.cnt c hc
      rw [if_neg (fun h => hun h.1)] at this
      simp only [↓reduceIte, this]
      rw [if_pos ⟨trivial, hcj⟩]
    · simp only [if_neg hcc]; exact hI.cnt c hc

/-- the walk `while work[i] != j` marks the path from `cur` up to the first marked node -/
theorem etreeWalk_spec (A : Nat → Nat → Prop) (n j : Nat) (hj : j < n) :
    ∀ fuel cur s, ColInv A n j (· = cur) s → cur ≤ j → j - cur < fuel →
      (s.work.getD cur 0 = j ∨ Lpat A j cur) →
      ∃ s', etreeWalk j fuel cur s = .ok s' ∧ ColInv A n j (fun _ => False) s' ∧
        s'.work.getD cur 0 = j ∧ ∀ c, s.work.getD c 0 = j → s'.work.getD c 0 = j := by
  intro fuel
  induction fuel with
  | zero => intro cur s _ _ hf; omega
  | succ fuel ih =>
    intro cur s hI hcur hf hc
    have hw : cur < s.work.size := by rw [hI.wsz]; omega
    have hl : cur < s.Lnz.size := by rw [hI.lsz]; omega
    have he : cur < s.etree.size := by rw [hI.esz]; omega
    by_cases hm : s.work.getD cur 0 = j
    · refine ⟨s, ?_, hI.weaken (by intro p hp; rw [hp]; exact hm), hm, fun c h => h⟩
      simp only [etreeWalk, getE_getD _ _ _ 0 hw, bind, Except.bind, hm, beq_self_eq_true,
        ↓reduceIte, pure, Except.pure]
    · have hL : Lpat A j cur := hc.resolve_left hm
      have hcj : cur < j := hL.lt
      have hbeq : (s.work.getD cur 0 == j) = false := by simpa using hm
      -- the new etree and the next node
      cases hq : s.etree.getD cur none with
      | none =>
        have hets : (s.etree.set cur (some j) he).size = n := by simpa using hI.esz
        have he' : cur < (s.etree.set cur (some j) he).size := by rw [hets]; omega
        obtain ⟨hI', hcp, hpj, hpm⟩ := walk_step_inv hj hI hcj hm hL (s.etree.set cur (some j) he) j hets
          (by rw [getD_set', if_pos rfl]) (by intro c hc; rw [getD_set', if_neg hc])
          (fun _ => rfl) (by intro q h; rw [hq] at h; cases h) hw hl
        obtain ⟨s', hs', hI'', hm', hkeep⟩ := ih j _ hI' (Nat.le_refl _) (by omega) hpm
        refine ⟨s', ?_, hI'', ?_, ?_⟩
        · simp only [etreeWalk, getE_getD _ _ _ 0 hw, getE_getD _ _ _ none he, getE_getD _ _ _ 0 hl,
            bind, Except.bind, hbeq, hq, Option.isNone_none, ↓reduceIte, setE_ok _ _ _ _ he,
            setE_ok _ _ _ _ hl, setE_ok _ _ _ _ hw, getE_getD _ _ _ none he', getD_set', pure,
            Except.pure, Bool.false_eq_true]
          exact hs'
        · apply hkeep; show (s.work.set cur j hw).getD cur 0 = j; rw [getD_set', if_pos rfl]
        · intro c hc; apply hkeep
          show (s.work.set cur j hw).getD c 0 = j
          rw [getD_set']; split
          · rfl
          · exact hc
      | some q =>
        obtain ⟨hI', hcp, hpj, hpm⟩ := walk_step_inv hj hI hcj hm hL s.etree q hI.esz hq
          (fun _ _ => rfl) (by intro h; rw [hq] at h; cases h)
          (by intro q' h; rw [hq] at h; exact (Option.some.inj h)) hw hl
        obtain ⟨s', hs', hI'', hm', hkeep⟩ := ih q _ hI' hpj (by omega) hpm
        refine ⟨s', ?_, hI'', ?_, ?_⟩
        · simp only [etreeWalk, getE_getD _ _ _ 0 hw, getE_getD _ _ _ none he, getE_getD _ _ _ 0 hl,
            bind, Except.bind, hbeq, hq, Option.isNone_some, ↓reduceIte, setE_ok _ _ _ _ he,
            setE_ok _ _ _ _ hl, setE_ok _ _ _ _ hw, pure, Except.pure, Bool.false_eq_true]
          exact hs'
        · apply hkeep; show (s.work.set cur j hw).getD cur 0 = j; rw [getD_set', if_pos rfl]
        · intro c hc; apply hkeep
          show (s.work.set cur j hw).getD c 0 = j
          rw [getD_set']; split
          · rfl
          · exact hc

/-- membership in the slice `Ai[lo..hi]` iterated by `_etree` -/
theorem mem_slice (Ai : Array Nat) (lo hi i : Nat) :
    i ∈ (Ai.toList.take hi).drop lo ↔ ∃ t, lo ≤ t ∧ t < hi ∧ t < Ai.size ∧ Ai.getD t 0 = i := by
  rw [List.mem_iff_getElem?]
  constructor
  · rintro ⟨u, hu⟩
    rw [List.getElem?_drop, List.getElem?_take] at hu
    split at hu
    · rename_i hlt
      have hsz : lo + u < Ai.size := by
        rcases Nat.lt_or_ge (lo + u) Ai.size with h | h
        · exact h
        · rw [List.getElem?_eq_none (by simpa using h)] at hu; cases hu
      refine ⟨lo + u, by omega, hlt, hsz, ?_⟩
      simp only [Array.getElem?_toList] at hu
      rw [Array.getD_eq_getD_getElem?, hu]; rfl
    · cases hu
  · rintro ⟨t, h1, h2, h3, h4⟩
    refine ⟨t - lo, ?_⟩
    rw [List.getElem?_drop, List.getElem?_take]
    have e : lo + (t - lo) = t := by omega
    rw [e, if_pos h2]
    simp only [Array.getElem?_toList]
    rw [Array.getD_eq_getD_getElem?] at h4
    have : Ai[t]? = some Ai[t] := by simp [h3]
    rw [this] at h4 ⊢
    simpa using h4

/-- one column of `_etree` -/
theorem etreeCol_spec (n : Nat) (Ap Ai : Array Nat) (hA : TriuCsc n Ap Ai) (j : Nat) (hj : j < n)
    (s : EtreeState) (hI : EtreeInv (Apat Ap Ai) n j s) :
    ∃ s', etreeCol n Ap Ai s j = .ok s' ∧ EtreeInv (Apat Ap Ai) n (j + 1) s' := by
  obtain ⟨hws, hls, hes, hwle, hsome, hnone, hcnt⟩ := hI
  have hw : j < s.work.size := by rw [hws]; omega
  have h1 : j < Ap.size := by rw [hA.ap_size]; omega
  have h2 : j + 1 < Ap.size := by rw [hA.ap_size]; omega
  have hrows : ∀ i, i ∈ (Ai.toList.take (Ap.getD (j + 1) 0)).drop (Ap.getD j 0) →
      i ≤ j ∧ (i < j → Apat Ap Ai i j) := by
    intro i hi
    obtain ⟨t, ht1, ht2, _, ht4⟩ := (mem_slice Ai _ _ i).mp hi
    have := hA.rows j hj t ht1 ht2
    rw [ht4] at this
    exact ⟨this, fun _ => ⟨t, ht1, ht2, ht4⟩⟩
  have hstart : etreeCol n Ap Ai s j =
      ((Ai.toList.take (Ap.getD (j + 1) 0)).drop (Ap.getD j 0)).foldlM
        (fun s i => etreeWalk j (n + 1) i s) { s with work := s.work.set j j hw } := by
    simp only [etreeCol, setE_ok _ _ _ _ hw, getE_getD _ _ _ 0 h1, getE_getD _ _ _ 0 h2, bind, Except.bind]
  rw [hstart]
  rcases Nat.eq_zero_or_pos j with hj0 | hjpos
  · -- column 0 holds at most its diagonal entry: nothing happens
    subst hj0
    have hw0 : (s.work.set 0 0 hw).getD 0 0 = 0 := by rw [getD_set', if_pos rfl]
    obtain ⟨s', hs', hP⟩ := foldlM_list_inv (fun s i => etreeWalk 0 (n + 1) i s)
      (fun _ s' => s' = { s with work := s.work.set 0 0 hw }) ((Ai.toList.take (Ap.getD (0 + 1) 0)).drop (Ap.getD 0 0)) { s with work := s.work.set 0 0 hw } rfl (by
        intro pre x post hl s1 hs1
        have hx : x = 0 := by
          have := (hrows x (by rw [hl]; simp)).1; omega
        subst hx hs1
        refine ⟨_, ?_, rfl⟩
        have hw' : 0 < (s.work.set 0 0 hw).size := by simpa using hw
        simp only [etreeWalk, getE_getD _ _ _ 0 hw', bind, Except.bind, hw0, beq_self_eq_true,
          ↓reduceIte, pure, Except.pure])
    subst hP
    refine ⟨_, hs', by simpa using hws, hls, hes, ?_, ?_, ?_, ?_⟩
    · intro c hc
      show (s.work.set 0 0 hw).getD c 0 ≤ 0
      rw [getD_set']; split
      · exact Nat.le_refl _
      · exact hwle c hc
    · intro c hc p hp
      have := hsome c hc p hp; omega
    · intro c hc _ r hr hL
      have := hL.lt; omega
    · intro c hc
      show s.Lnz.getD c 0 = _
      rw [hcnt c hc, Lrows_length_succ]
      have : ¬ Lpat (Apat Ap Ai) 0 c := fun h => by have := h.lt; omega
      simp [this]
  · -- a column j ≥ 1
    have hI0 : ColInv (Apat Ap Ai) n j (fun _ => False) { s with work := s.work.set j j hw } := by
      have hmark : ∀ c, c < n → (s.work.set j j hw).getD c 0 = j → c = j := by
        intro c hc hm
        rw [getD_set'] at hm
        by_contra hne
        rw [if_neg hne] at hm
        have := hwle c hc; omega
      constructor
      · simpa using hws
      · exact hls
      · exact hes
      · show (s.work.set j j hw).getD j 0 = j
        rw [getD_set', if_pos rfl]
      · intro c hc
        show (s.work.set j j hw).getD c 0 ≤ j
        rw [getD_set']; split
        · exact Nat.le_refl _
        · have := hwle c hc; omega
      · intro c hc hm; exact Or.inl (hmark c hc hm)
      · intro c hc hm hne; exact absurd (hmark c hc hm) hne
      · intro c hc p hp
        obtain ⟨a, b, c', d⟩ := hsome c hc p hp
        exact ⟨a, by omega, c', d⟩
      · intro c hc hq; exact ⟨hnone c hc hq, hmark c hc⟩
      · intro c hc
        show s.Lnz.getD c 0 = _
        rw [hcnt c hc]
        have : ¬ ((s.work.set j j hw).getD c 0 = j ∧ c ≠ j) := fun h => h.2 (hmark c hc h.1)
        show _ = _ + (if (s.work.set j j hw).getD c 0 = j ∧ c ≠ j then 1 else 0)
        rw [if_neg this]; rfl
    obtain ⟨s', hs', hC, hall⟩ := foldlM_list_inv (fun s i => etreeWalk j (n + 1) i s)
      (fun pre s' => ColInv (Apat Ap Ai) n j (fun _ => False) s' ∧ ∀ i ∈ pre, s'.work.getD i 0 = j)
      ((Ai.toList.take (Ap.getD (j + 1) 0)).drop (Ap.getD j 0)) _ ⟨hI0, by simp⟩ (by
        intro pre x post hl s1 ⟨hC1, hpre⟩
        obtain ⟨hxj, hxA⟩ := hrows x (by rw [hl]; simp)
        obtain ⟨s2, hs2, hC2, hx2, hkeep⟩ := etreeWalk_spec (Apat Ap Ai) n j hj (n + 1) x s1
          (hC1.mono (fun _ h => h.elim)) hxj (by omega) (by
            rcases Nat.lt_or_ge x j with h | h
            · exact Or.inr (Lpat.base h (hxA h))
            · have : x = j := by omega
              subst this; exact Or.inl hC1.wj)
        refine ⟨s2, hs2, hC2, ?_⟩
        intro i hi
        rcases List.mem_append.mp hi with h | h
        · exact hkeep i (hpre i h)
        · have : i = x := by simpa using h
          subst this; exact hx2)
    refine ⟨s', hs', ?_⟩
    -- completeness: every row-pattern member is marked
    have hcomplete : ∀ c, Lpat (Apat Ap Ai) j c → s'.work.getD c 0 = j := by
      apply Lpat.complete (fun c => s'.work.getD c 0 = j) j
      · intro i hi ⟨t, ht1, ht2, ht4⟩
        apply hall
        have := hA.ap_bound (j + 1) (by omega)
        exact (mem_slice Ai _ _ i).mpr ⟨t, ht1, ht2, by omega, ht4⟩
      · apply Lpat.closure (fun c => s'.work.getD c 0 = j) j
        intro b hb a hL ha
        have hba := hL.lt
        obtain ⟨p, hp, hpm⟩ := hC.par b (by omega) hb (by omega)
        obtain ⟨_, _, hLp, hmin⟩ := hC.esome b (by omega) p hp
        exact ⟨p, hmin a hL, hLp, hpm.elim id False.elim⟩
    refine ⟨hC.wsz, hC.lsz, hC.esz, ?_, ?_, ?_, ?_⟩
    · intro c hc; have := hC.wle c hc; omega
    · intro c hc p hp
      obtain ⟨a, b, c', d⟩ := hC.esome c hc p hp
      exact ⟨a, by omega, c', d⟩
    · intro c hc hq r hr hL
      rcases Nat.lt_or_ge r j with h | h
      · exact (hC.enone c hc hq).1 r h hL
      · have : r = j := by omega
        subst this
        have := (hC.enone c hc hq).2 (hcomplete c hL)
        subst this
        exact absurd hL.lt (Nat.lt_irrefl _)
    · intro c hc
      rw [hC.cnt c hc, Lrows_length_succ]
      congr 1
      by_cases hL : Lpat (Apat Ap Ai) j c
      · have : c ≠ j := by have := hL.lt; omega
        rw [if_pos ⟨hcomplete c hL, this⟩, if_pos hL]
      · have : ¬ (s'.work.getD c 0 = j ∧ c ≠ j) := by
          intro h
          rcases hC.sound c hc h.1 with h' | h'
          · exact h.2 h'
          · exact hL h'
        rw [if_neg this, if_neg hL]

/-- **`_etree` is correct**: on a structurally valid upper-triangular pattern it returns without
error, `etree[c]` is the least row of column `c` of the symbolic factor (`none` iff the column
is empty) and `Lnz[c]` is the number of rows of that column. -/
theorem etree_spec (n : Nat) (Ap Ai : Array Nat) (hA : TriuCsc n Ap Ai) :
    ∃ es, etree n Ap Ai = .ok es ∧ EtreeInv (Apat Ap Ai) n n es := by
  unfold etree
  apply foldlM_range_inv (etreeCol n Ap Ai) (fun j s => EtreeInv (Apat Ap Ai) n j s) n
  · refine ⟨by simp, by simp, by simp, ?_, ?_, ?_, ?_⟩
    · intro c hc
      have : c < 3 * n := by omega
      simp [Array.getD_eq_getD_getElem?, this]
    · intro c hc p hp
      simp [Array.getD_eq_getD_getElem?, hc] at hp
    · intro c _ _ r hr; omega
    · intro c hc
      simp [Array.getD_eq_getD_getElem?, hc, Lrows]
  · intro j hj s hI
    exact etreeCol_spec n Ap Ai hA j hj s hI

end Clarabel.Qdldl
