/-
  C01/C02 round 3 — the END-TO-END composition.

  user's data `dt` ──`Equil.equilibrate`──▶ internal data `dt'` (C10: `scaled_data`,
  `inverse_scalings`, `scalings_positive`) ──`Residuals.updateK`──▶ residual object (C16:
  `symv_spec`, `gemvT_spec`, `gemvN_spec`) ──`Info.update`──▶ `info` ──`check_convergence`──▶
  verdict;  `Variables.unscale` ──▶ the point the user receives.

  Every hypothesis is about the user's data or about what the model's own functions return;
  no abstract `d, e, c` with assumed relations is left.
-/
import ClarabelProofs.Lemmas.InfoArrayDense
import ClarabelProofs.Lemmas.InfoEquilDense
import ClarabelProofs.Lemmas.InfoKernelBridge
import ClarabelProofs.Props.C10

set_option linter.unusedSectionVars false

namespace Clarabel.InfoUser
open Clarabel Clarabel.Dense Finset Residuals Info

/-- lengths of the solver's variables and of the residual buffers — what
`DefaultVariables::new(n, m)` and `DefaultResiduals::new(n, m)` allocate -/
structure StateShapes (n m : ℕ) (v : Vars ℝ) (r0 : Resid ℝ) : Prop where
  x : v.x.size = n
  s : v.s.size = m
  z : v.z.size = m
  Px : r0.Px.size = n
  rx : r0.rx.size = n
  rz : r0.rz.size = m
  rxi : r0.rx_inf.size = n
  rzi : r0.rz_inf.size = m

/-- the hypotheses on the user's data shared by the three end-to-end theorems: fresh
(identity) equilibration record as `DefaultProblemData::new` leaves it, consistent shapes
(`shapesOk`: well-formed `P` n×n, `A` m×n, `|q| = n`, `|b| = m`), `P` and `A` in canonical CSC
form, the cone list covering the `m` rows, positive scaling bounds. -/
structure UserData (dt : ProblemData ℝ) (cones : List (ConeT ℝ)) (es : Equil.Settings ℝ) : Prop where
  fresh : dt.equilibration = EquilData.new dt.n dt.m
  shape : Equil.shapesOk dt = true
  canP : C16.Canonical dt.P
  canA : C16.Canonical dt.A
  numel : Cones.numel cones = dt.m
  lo : 0 < es.minScaling
  hi : 0 < es.maxScaling

section setup
variable (dt dt' : ProblemData ℝ) (cones : List (ConeT ℝ)) (es : Equil.Settings ℝ)

/-- the arrays `equilibrate` returns represent `scalingOf` of them -/
theorem represents_of_equilibrate (hu : UserData dt cones es)
    (heq : Equil.equilibrate dt cones es = .ok dt') :
    Represents (toInfoEquil dt'.equilibration) (scalingOf dt'.equilibration dt.n dt.m) := by
  obtain ⟨-, -, -, -, -, -, hd, he, hdi, hei, hdv, hev, -, -⟩ :=
    equilibrate_shapes dt dt' cones es hu.fresh hu.shape heq
  refine ⟨hd, hdi, he, hei, ?_, ?_, ?_, ?_, rfl⟩
  · intro j; exact getD_eq_of_lt _ _ _ _ (by show (j:ℕ) < dt'.equilibration.d.size; rw [hd]; exact j.2)
  · intro j; exact hdv j j.2
  · intro i; exact getD_eq_of_lt _ _ _ _ (by show (i:ℕ) < dt'.equilibration.e.size; rw [he]; exact i.2)
  · intro i; exact hev i i.2

/-- all scalings `equilibrate` returns are positive (`C10.scalings_positive`) -/
theorem scaling_pos (hu : UserData dt cones es) (heq : Equil.equilibrate dt cones es = .ok dt') :
    (∀ j : Fin dt.n, 0 < (scalingOf dt'.equilibration dt.n dt.m).d j)
    ∧ (∀ i : Fin dt.m, 0 < (scalingOf dt'.equilibration dt.n dt.m).e i)
    ∧ 0 < (scalingOf dt'.equilibration dt.n dt.m).c := by
  obtain ⟨hd, he, hc⟩ := C10.scalings_positive dt dt' cones es hu.lo hu.hi hu.fresh hu.numel heq
  obtain ⟨-, -, -, -, -, -, hds, hes, -⟩ := equilibrate_shapes dt dt' cones es hu.fresh hu.shape heq
  refine ⟨fun j => hd j (by rw [hds]; exact j.2), fun i => ?_, hc⟩
  have hi : (i:ℕ) < dt'.equilibration.e.size := by rw [hes]; exact i.2
  apply he
  show dt'.equilibration.e.getD i 1 ∈ _
  simp [Array.getD, hi]

/-- `Residuals.update` on the internal data succeeds and holds the dense residuals of the
USER's problem scaled by the returned `d, e, c`.  (`Residuals.update` runs the imperative
copies of the CSC kernels; `update_eq_updateK` — `InfoKernelBridge.lean` — identifies them
with C16's kernels, whose dense meaning is `C16.symv_spec`/`gemvT_spec`/`gemvN_spec`.) -/
theorem residuals_of_equilibrate (hu : UserData dt cones es)
    (heq : Equil.equilibrate dt cones es = .ok dt') (v : Vars ℝ) (r0 : Resid ℝ)
    (hsh : StateShapes dt.n dt.m v r0) :
    ∃ r, Residuals.update r0 v (toResidData dt') = .ok r
      ∧ HoldsResiduals r
          ((problemOf dt.P dt.q dt.A dt.b dt.n dt.m).scaled (scalingOf dt'.equilibration dt.n dt.m))
          (vecFn v.x dt.n) (vecFn v.s dt.m) (vecFn v.z dt.m) v.τ := by
  obtain ⟨hPn, hPm, hAn, hAm, hq, hb, -, -, -, -, -, -, hcP, hcA⟩ :=
    equilibrate_shapes dt dt' cones es hu.fresh hu.shape heq
  obtain ⟨r, hr, a1, a2, a3, a4, a5, b1, b2, b3, b4, b5, b6, b7, b8⟩ :=
    updateK_dense r0 v dt'.P dt'.A dt'.q dt'.b dt.n dt.m (hcP hu.canP) (hcA hu.canA) hPn hPm hAn hAm
      hq hb hsh.x hsh.s hsh.z hsh.Px hsh.rx hsh.rz hsh.rxi hsh.rzi
  have hden := equilibrate_dense dt dt' cones es hu.fresh hu.shape heq
  rw [hden] at b1 b2 b3 b4 b5 b6 b7 b8
  have hbridge : Residuals.update r0 v (toResidData dt') = Residuals.updateK r0 v (toResidData dt') :=
    Residuals.update_eq_updateK r0 v (toResidData dt') (hcP hu.canP) (hcA hu.canA)
      (by show dt'.P.m = dt'.P.n; rw [hPm, hPn])
      (by show v.x.size = dt'.P.n; rw [hsh.x, hPn]) (by show v.x.size = dt'.A.n; rw [hsh.x, hAn])
      (by show v.z.size = dt'.A.m; rw [hsh.z, hAm]) (by show v.s.size = dt'.A.m; rw [hsh.s, hAm])
      (by show r0.Px.size = dt'.P.n; rw [hsh.Px, hPn]) (by show r0.rx_inf.size = dt'.A.n; rw [hsh.rxi, hAn])
  exact ⟨r, by rw [hbridge]; exact hr, ⟨a1, a2, a3, a4, a5, b1, b2, b3, b4, b5, b6, b7, b8⟩⟩

end setup

/-! ### the facts C02's certificates are derived from -/

/-- everything the end-to-end theorems need about one pass: the scalings `equilibrate`
returned are positive, the fields `Info.update` assigned are the dense figures of the USER's
problem `p` under that scaling, the dot products of the residual object are `b̂ᵀẑ`, `q̂ᵀx̂`,
and `unscale` returns `unX/unS/unZ` with the normaliser `σ` (`κ` for an infeasibility
status, `τ` otherwise). -/
structure ChainFacts {n m : ℕ} (p : Problem ℝ n m) (sc : Scaling ℝ n m) (v : Vars ℝ) (r : Resid ℝ)
    (i i' : InfoS ℝ) (normq normb : ℝ) (out : Vars ℝ) (σ : ℝ) : Prop where
  dpos : ∀ j, 0 < sc.d j
  epos : ∀ i, 0 < sc.e i
  cpos : 0 < sc.c
  res_primal : i'.res_primal = resPrimal p sc (vecFn v.x n) (vecFn v.s m) v.τ normb
  res_dual : i'.res_dual = resDual p sc (vecFn v.x n) (vecFn v.z m) v.τ normq
  cost_primal : i'.cost_primal = costPrimal p sc (vecFn v.x n) v.τ
  cost_dual : i'.cost_dual = costDual p sc (vecFn v.x n) (vecFn v.z m) v.τ
  res_primal_inf : i'.res_primal_inf = resPrimalInf p sc (vecFn v.z m)
  res_dual_inf : i'.res_dual_inf = resDualInf p sc (vecFn v.x n) (vecFn v.s m)
  ktratio : i'.ktratio = v.κ * (1 / v.τ)
  status : i'.status = i.status
  dot_bz : r.dot_bz = dot (p.scaled sc).b (vecFn v.z m)
  dot_qx : r.dot_qx = dot (p.scaled sc).q (vecFn v.x n)
  szx : out.x.size = n
  szs : out.s.size = m
  szz : out.z.size = m
  x : vecFn out.x n = unX sc σ (vecFn v.x n)
  s : vecFn out.s m = unS sc σ (vecFn v.s m)
  z : vecFn out.z m = unZ sc σ (vecFn v.z m)

/-- the chain `equilibrate → Residuals.update → Info.update → unscale` delivers `ChainFacts`
for the user's problem and the scaling `equilibrate` returned -/
theorem chain_facts (dt dt' : ProblemData ℝ) (cones : List (ConeT ℝ)) (es : Equil.Settings ℝ)
    (hu : UserData dt cones es) (heq : Equil.equilibrate dt cones es = .ok dt')
    (v : Vars ℝ) (r0 r : Resid ℝ) (hsh : StateShapes dt.n dt.m v r0)
    (hr : Residuals.update r0 v (toResidData dt') = .ok r)
    (i i' : InfoS ℝ) (normq normb : ℝ)
    (hi : Info.update i (toInfoEquil dt'.equilibration) normq normb v r = .ok i') (inf : Bool) :
    ChainFacts (problemOf dt.P dt.q dt.A dt.b dt.n dt.m) (scalingOf dt'.equilibration dt.n dt.m)
      v r i i' normq normb (Unscale.unscale v (toInfoEquil dt'.equilibration) inf)
      (if inf then v.κ else v.τ) := by
  have hrep := represents_of_equilibrate dt dt' cones es hu heq
  obtain ⟨hd, he, hc⟩ := scaling_pos dt dt' cones es hu heq
  obtain ⟨r', hr', hres⟩ := residuals_of_equilibrate dt dt' cones es hu heq v r0 hsh
  have hrr : r' = r := by rw [hr'] at hr; exact Except.ok.inj hr
  subst hrr
  obtain ⟨hrp, hrd, hcp, hcd, hpi, hdi, -, -, hkt, hst⟩ :=
    info_update_dense _ (scalingOf dt'.equilibration dt.n dt.m) _ hrep v r' hsh.x hsh.s hsh.z hres
      i i' normq normb hi
  obtain ⟨ox, os, oz, ex, es', ez⟩ :=
    unscale_dense (scalingOf dt'.equilibration dt.n dt.m) _ hrep v hsh.x hsh.s hsh.z inf
  exact ⟨hd, he, hc, hrp, hrd, hcp, hcd, hpi, hdi, hkt, hst, hres.bz, hres.qx, ox, os, oz, ex, es', ez⟩

/-! ### C01 -/

/-- **`solved_certifies_user_problem`** (lemma form; `C01.solved_certifies_user_problem` is
the property theorem). -/
theorem solved_chain (dt dt' : ProblemData ℝ) (cones : List (ConeT ℝ)) (es : Equil.Settings ℝ)
    (hu : UserData dt cones es) (heq : Equil.equilibrate dt cones es = .ok dt')
    (v : Vars ℝ) (r0 r : Resid ℝ) (hsh : StateShapes dt.n dt.m v r0) (hτ : 0 < v.τ)
    (hr : Residuals.update r0 v (toResidData dt') = .ok r)
    (i i' : InfoS ℝ) (normq normb : ℝ)
    (hi : Info.update i (toInfoEquil dt'.equilibration) normq normb v r = .ok i')
    (s : Settings ℝ) (h0 : i'.status ≠ .solved)
    (h : (checkConvergenceFull i' r.dot_bz r.dot_qx s).status = .solved) :
    let out := Unscale.unscale v (toInfoEquil dt'.equilibration) false
    let p := problemOf dt.P dt.q dt.A dt.b dt.n dt.m
    let x := vecFn out.x dt.n
    let sv := vecFn out.s dt.m
    let z := vecFn out.z dt.m
    let pobj := dot x (mulV p.P x) / 2 + dot p.q x
    let dobj := -dot p.b z - dot x (mulV p.P x) / 2
    nrm (fun i => mulV p.A x i + sv i - p.b i) / max 1 (normb + nrm x + nrm sv) < s.full.feas
    ∧ nrm (fun j => mulV p.P x j + mulVT p.A z j + p.q j) / max 1 (normq + nrm x + nrm z) < s.full.feas
    ∧ (|pobj - dobj| < s.full.gap_abs
        ∨ |pobj - dobj| / max 1 (min |pobj| |dobj|) < s.full.gap_rel)
    ∧ out.x.size = dt.n ∧ out.s.size = dt.m ∧ out.z.size = dt.m := by
  intro out p x sv z pobj dobj
  have hrep := represents_of_equilibrate dt dt' cones es hu heq
  obtain ⟨hd, he, hc⟩ := scaling_pos dt dt' cones es hu heq
  obtain ⟨r', hr', hres⟩ := residuals_of_equilibrate dt dt' cones es hu heq v r0 hsh
  have hrr : r' = r := by rw [hr'] at hr; exact Except.ok.inj hr
  subst hrr
  obtain ⟨hrp, hrd, hcp, hcd, -, -, hga, hgr, -, -⟩ :=
    info_update_dense p (scalingOf dt'.equilibration dt.n dt.m) _ hrep v r' hsh.x hsh.s hsh.z hres
      i i' normq normb hi
  obtain ⟨ox, os, oz, ex, es', ez⟩ :=
    unscale_dense (scalingOf dt'.equilibration dt.n dt.m) _ hrep v hsh.x hsh.s hsh.z false
  simp only [Bool.false_eq_true, ↓reduceIte] at ex es' ez
  -- the test that fired
  have htest : (i'.gap_abs < s.full.gap_abs ∨ i'.gap_rel < s.full.gap_rel)
      ∧ i'.res_primal < s.full.feas ∧ i'.res_dual < s.full.feas := by
    unfold checkConvergenceFull at h
    rcases checkConvergence_cases i' r'.dot_bz r'.dot_qx s.full .solved .primalInfeasible
      .dualInfeasible with hcv | hcv | hcv | hcv
    · exact (isSolved_iff i' _ _ _).mp hcv.2.2
    · rw [hcv.1] at h; cases h
    · rw [hcv.1] at h; cases h
    · rw [hcv] at h; exact absurd h h0
  obtain ⟨hgap, hp, hdl⟩ := htest
  obtain ⟨e1, e2⟩ := res_identities p (scalingOf dt'.equilibration dt.n dt.m) (vecFn v.x dt.n)
    (vecFn v.s dt.m) (vecFn v.z dt.m) v.τ normb normq hd he hc hτ
  obtain ⟨c1, c2⟩ := cost_identities p (scalingOf dt'.equilibration dt.n dt.m) (vecFn v.x dt.n)
    (vecFn v.z dt.m) v.τ hc.ne' hτ.ne'
  rw [hrp, e1] at hp
  rw [hrd, e2] at hdl
  rw [hcp, c1, hcd, c2] at hga hgr
  rw [hgr, hga] at hgap
  have key : ∀ (X : Fin dt.n → ℝ) (S Z : Fin dt.m → ℝ),
      X = unX (scalingOf dt'.equilibration dt.n dt.m) v.τ (vecFn v.x dt.n) →
      S = unS (scalingOf dt'.equilibration dt.n dt.m) v.τ (vecFn v.s dt.m) →
      Z = unZ (scalingOf dt'.equilibration dt.n dt.m) v.τ (vecFn v.z dt.m) →
      nrm (fun i => mulV p.A X i + S i - p.b i) / max 1 (normb + nrm X + nrm S) < s.full.feas
      ∧ nrm (fun j => mulV p.P X j + mulVT p.A Z j + p.q j) / max 1 (normq + nrm X + nrm Z) < s.full.feas
      ∧ (|(dot X (mulV p.P X) / 2 + dot p.q X) - (-dot p.b Z - dot X (mulV p.P X) / 2)| < s.full.gap_abs
          ∨ |(dot X (mulV p.P X) / 2 + dot p.q X) - (-dot p.b Z - dot X (mulV p.P X) / 2)|
              / max 1 (min |dot X (mulV p.P X) / 2 + dot p.q X| |-dot p.b Z - dot X (mulV p.P X) / 2|)
              < s.full.gap_rel) := by
    intro X S Z hX hS hZ
    rw [hX, hS, hZ]
    exact ⟨hp, hdl, hgap⟩
  obtain ⟨k1, k2, k3⟩ := key x sv z ex es' ez
  exact ⟨k1, k2, k3, ox, os, oz⟩

end Clarabel.InfoUser
