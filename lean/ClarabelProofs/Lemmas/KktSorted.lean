/-
  The KKT matrix assembled in upper-triangular form has sorted columns with the diagonal
  entry last — stated on the fill schedule `kktSchedule P A cones .triu` (the list of all
  writes `(readCol,row,val)` in the order in which `_kkt_assemble_fill` performs them).

  `colRowsOf sched c` is the list of rows written into column `c`, in schedule order.
  Main results:
   * `colRowsOf_diagSchedule`, `colRowsOf_colvecSchedule`, `colRowsOf_denseTriuSchedule`:
     exact description of the pure schedules;
   * `conesSchedule_triu_sorted`: the cone part (Hs blocks + sparse expansions);
   * `colRowsOf_blockN`, `colRowsOf_missingDiag`, `pCol_sorted`: the `P` block and the
     missing-diagonal fill; `colRowsOf_blockT`: the `A'` block;
   * `kktSchedule_triu_sorted`: every column of the whole schedule is strictly increasing and
     ends with its diagonal entry.
-/
import ClarabelProofs.Lemmas.KktSchedule

namespace Clarabel.Lemmas.KktSorted
open Clarabel Clarabel.Csc Clarabel.Kkt

variable {α : Type} [OfNat α 0]

def colRowsOf (sched : List (Entry α)) (c : Nat) : List Nat :=
  (sched.filter (fun e => e.readCol == c)).map (·.row)

omit [OfNat α 0] in
@[simp] theorem colRowsOf_nil (c : Nat) : colRowsOf ([] : List (Entry α)) c = [] := rfl

omit [OfNat α 0] in
@[simp] theorem colRowsOf_append (l1 l2 : List (Entry α)) (c : Nat) :
    colRowsOf (l1 ++ l2) c = colRowsOf l1 c ++ colRowsOf l2 c := by
  simp [colRowsOf]

omit [OfNat α 0] in
theorem colRowsOf_flatMap {β : Type} (l : List β) (g : β → List (Entry α)) (c : Nat) :
    colRowsOf (l.flatMap g) c = l.flatMap (fun i => colRowsOf (g i) c) := by
  induction l with
  | nil => rfl
  | cons a l ih => simp [List.flatMap_cons, ih]

omit [OfNat α 0] in
theorem colRowsOf_cons (e : Entry α) (l : List (Entry α)) (c : Nat) :
    colRowsOf (e :: l) c = (if e.readCol = c then [e.row] else []) ++ colRowsOf l c := by
  simp only [colRowsOf, List.filter_cons]
  by_cases h : e.readCol = c <;> simp [h]

/-- selecting one index out of `range n` -/
theorem flatMap_range_single {β : Type} (n c : Nat) (h : Nat → List β) :
    (List.range n).flatMap (fun i => if i = c then h i else []) = if c < n then h c else [] := by
  induction n with
  | zero => simp
  | succ n ih =>
    rw [List.range_succ, List.flatMap_append, ih]
    by_cases h1 : c < n
    · have : n ≠ c := by omega
      simp [h1, this]; omega
    · by_cases h2 : n = c
      · subst h2; simp
      · have : ¬ c < n + 1 := by omega
        simp [h1, h2, this]

theorem filter_const_true {β : Type} (l : List β) : l.filter (fun _ => true) = l := by
  induction l with
  | nil => rfl
  | cons a l ih => simp

theorem colRowsOf_diagSchedule (off d c : Nat) :
    colRowsOf (diagSchedule off d : List (Entry α)) c = if off ≤ c ∧ c < off + d then [c] else [] := by
  induction d with
  | zero => simp [diagSchedule]
  | succ d ih =>
    have : (diagSchedule off (d+1) : List (Entry α)) = diagSchedule off d ++ [Entry.mk' (off + d) (off + d) 0 d] := by
      simp [diagSchedule, List.range_succ]
    rw [this, colRowsOf_append, ih, colRowsOf_cons]
    simp only [Entry.mk', colRowsOf_nil, List.append_nil]
    by_cases h1 : off ≤ c ∧ c < off + d
    · have : ¬ off + d = c := by omega
      have h3 : off ≤ c ∧ c < off + (d+1) := by omega
      simp [h1, this, h3]
    · by_cases h2 : off + d = c
      · have h3 : off ≤ c ∧ c < off + (d+1) := by omega
        simp [h2, h3]
      · have h3 : ¬ (off ≤ c ∧ c < off + (d+1)) := by omega
        simp [h1, h2, h3]

theorem colRowsOf_colvecSchedule (len row col c : Nat) :
    colRowsOf (colvecSchedule len row col : List (Entry α)) c = if c = col then List.range' row len else [] := by
  simp only [colRowsOf, colvecSchedule, List.filter_map, List.map_map]
  by_cases h : c = col
  · subst h
    simp [Entry.mk', List.range'_eq_map_range, Function.comp_def, filter_const_true]
  · have : ¬ col = c := fun h' => h h'.symm
    simp [Entry.mk', Function.comp_def, this, h]

omit [OfNat α 0] in
/-- the filter/map of a `zipIdx`-built schedule only depends on the cells -/
theorem colRowsOf_zipIdx (v : α) (cells : List (Nat × Nat)) (k c : Nat) :
    colRowsOf ((cells.zipIdx k).map (fun p => Entry.mk' p.1.1 p.1.2 v p.2)) c
      = (cells.filter (fun p => p.1 == c)).map (·.2) := by
  induction cells generalizing k with
  | nil => simp [colRowsOf]
  | cons a cells ih =>
    rw [List.zipIdx_cons, List.map_cons, colRowsOf_cons, ih]
    by_cases h : a.1 = c <;> simp [Entry.mk', h]

theorem colRowsOf_denseTriuSchedule (off d c : Nat) :
    colRowsOf (denseTriuSchedule off d : List (Entry α)) c
      = if off ≤ c ∧ c < off + d then List.range' off (c - off + 1) else [] := by
  unfold denseTriuSchedule
  simp only []
  rw [colRowsOf_zipIdx]
  induction d with
  | zero => simp
  | succ d ih =>
    rw [List.range_succ, List.flatMap_append, List.filter_append, List.map_append, ih]
    simp only [List.flatMap_cons, List.flatMap_nil, List.append_nil, List.filter_map, List.map_map]
    by_cases h1 : off ≤ c ∧ c < off + d
    · have : ¬ off + d = c := by omega
      have h3 : off ≤ c ∧ c < off + (d+1) := by omega
      simp [h1, this, h3, Function.comp_def]
    · by_cases h2 : off + d = c
      · have h3 : off ≤ c ∧ c < off + (d+1) := by omega
        have h4 : c - off + 1 = d + 1 := by omega
        simp [h2, h3, h4, Function.comp_def, List.range'_eq_map_range, filter_const_true]
      · have h3 : ¬ (off ≤ c ∧ c < off + (d+1)) := by omega
        simp [h1, h2, h3, Function.comp_def]


/-! ### column specifications -/

/-- strictly increasing, ends with `c`, every element `≥ lo` -/
def GoodCol (lo c : Nat) (l : List Nat) : Prop :=
  l.Pairwise (· < ·) ∧ l.getLast? = some c ∧ ∀ x ∈ l, lo ≤ x

theorem GoodCol.mono {lo lo' c : Nat} {l : List Nat} (h : GoodCol lo c l) (hlo : lo' ≤ lo) :
    GoodCol lo' c l :=
  ⟨h.1, h.2.1, fun x hx => Nat.le_trans hlo (h.2.2 x hx)⟩

theorem goodCol_range'_concat (lo s d c : Nat) (h1 : lo ≤ s) (h2 : s + d ≤ c) :
    GoodCol lo c (List.range' s d ++ [c]) := by
  refine ⟨?_, List.getLast?_concat, ?_⟩
  · rw [List.pairwise_append]
    refine ⟨List.pairwise_lt_range' .., by simp, ?_⟩
    intro a ha b hb
    simp only [List.mem_range'_1] at ha
    simp only [List.mem_singleton] at hb
    omega
  · intro x hx
    simp only [List.mem_append, List.mem_range'_1, List.mem_singleton] at hx
    omega

theorem goodCol_range'_succ (lo s c : Nat) (h1 : lo ≤ s) (h2 : s ≤ c) :
    GoodCol lo c (List.range' s (c - s + 1)) := by
  refine ⟨List.pairwise_lt_range' .., ?_, ?_⟩
  · rw [List.getLast?_range']; simp; omega
  · intro x hx
    simp only [List.mem_range'_1] at hx
    omega

/-- `s` touches only the columns `[row, row+nrow) ∪ [pcol, pcol+np)`; each of them is
strictly increasing with the diagonal last and all rows `≥ lo`. -/
def ColSpec (s : List (Entry α)) (lo row nrow pcol np : Nat) : Prop :=
  ∀ c, ((row ≤ c ∧ c < row + nrow) ∨ (pcol ≤ c ∧ c < pcol + np) → GoodCol lo c (colRowsOf s c)) ∧
       (¬(row ≤ c ∧ c < row + nrow) → ¬(pcol ≤ c ∧ c < pcol + np) → colRowsOf s c = [])

omit [OfNat α 0] in
theorem ColSpec.mono {s : List (Entry α)} {lo lo' row nrow pcol np : Nat}
    (h : ColSpec s lo row nrow pcol np) (hlo : lo' ≤ lo) : ColSpec s lo' row nrow pcol np :=
  fun c => ⟨fun hc => ((h c).1 hc).mono hlo, (h c).2⟩

omit [OfNat α 0] in
theorem ColSpec.append {s1 s2 : List (Entry α)} {lo row n1 n2 pcol p1 p2 : Nat}
    (h1 : ColSpec s1 lo row n1 pcol p1) (h2 : ColSpec s2 lo (row + n1) n2 (pcol + p1) p2)
    (hle : row + n1 + n2 ≤ pcol) : ColSpec (s1 ++ s2) lo row (n1 + n2) pcol (p1 + p2) := by
  intro c
  rw [colRowsOf_append]
  by_cases a1 : (row ≤ c ∧ c < row + n1) ∨ (pcol ≤ c ∧ c < pcol + p1)
  · have e2 : colRowsOf s2 c = [] := (h2 c).2 (by omega) (by omega)
    rw [e2, List.append_nil]
    exact ⟨fun _ => (h1 c).1 a1, fun h3 h4 => by omega⟩
  · have e1 : colRowsOf s1 c = [] := (h1 c).2 (by omega) (by omega)
    rw [e1, List.nil_append]
    refine ⟨fun h3 => (h2 c).1 (by omega), fun h3 h4 => (h2 c).2 (by omega) (by omega)⟩

omit [OfNat α 0] in
theorem colSpec_nil (lo row pcol : Nat) : ColSpec ([] : List (Entry α)) lo row 0 pcol 0 := by
  intro c
  exact ⟨fun h => by omega, fun _ _ => rfl⟩

theorem colSpec_diag (row d pcol : Nat) :
    ColSpec (diagSchedule row d : List (Entry α)) row row d pcol 0 := by
  intro c
  rw [colRowsOf_diagSchedule]
  by_cases h : row ≤ c ∧ c < row + d
  · rw [if_pos h]
    refine ⟨fun _ => ⟨by simp, by simp, by simp; omega⟩, fun h' => absurd h h'⟩
  · rw [if_neg h]
    exact ⟨fun h' => by omega, fun _ _ => rfl⟩

theorem colSpec_denseTriu (row d pcol : Nat) :
    ColSpec (denseTriuSchedule row d : List (Entry α)) row row d pcol 0 := by
  intro c
  rw [colRowsOf_denseTriuSchedule]
  by_cases h : row ≤ c ∧ c < row + d
  · rw [if_pos h]
    exact ⟨fun _ => goodCol_range'_succ row row c (Nat.le_refl _) h.1, fun h' => absurd h h'⟩
  · rw [if_neg h]
    exact ⟨fun h' => by omega, fun _ _ => rfl⟩

/-- the expansion of a sparse cone (only `p`-columns) -/
theorem colSpec_sparse (cone : ConeSpec) (hsp : cone.isSparseExpandable = true) (row pcol : Nat)
    (hle : row + cone.numel ≤ pcol) :
    ColSpec (sparseSchedule cone row pcol .triu : List (Entry α)) row (row + cone.numel) 0 pcol (conePdim cone) := by
  intro c
  cases cone with
  | soc d =>
    simp only [ConeSpec.numel] at hle
    simp only [sparseSchedule, conePdim, hsp, if_true, colRowsOf_append, colRowsOf_colvecSchedule,
      colRowsOf_diagSchedule]
    by_cases h0 : c = pcol
    · subst h0
      have : ¬ c = c + 1 := by omega
      have h2 : c ≤ c ∧ c < c + 2 := by omega
      simp only [if_neg this, if_pos h2, eq_self, if_true, List.append_nil]
      exact ⟨fun _ => goodCol_range'_concat row row d c (Nat.le_refl _) hle, fun _ h => absurd h2 h⟩
    · by_cases h1 : c = pcol + 1
      · subst h1
        have h2 : pcol ≤ pcol + 1 ∧ pcol + 1 < pcol + 2 := by omega
        simp only [if_neg h0, if_pos h2, eq_self, if_true, List.nil_append]
        exact ⟨fun _ => goodCol_range'_concat row row d _ (Nat.le_refl _) (by omega), fun _ h => absurd h2 h⟩
      · have h2 : ¬ (pcol ≤ c ∧ c < pcol + 2) := by omega
        simp only [if_neg h0, if_neg h1, if_neg h2, List.append_nil]
        exact ⟨fun h => by omega, fun _ _ => trivial⟩
  | genpow a b =>
    simp only [ConeSpec.numel] at hle
    simp only [sparseSchedule, conePdim, hsp, if_true, colRowsOf_append, colRowsOf_colvecSchedule,
      colRowsOf_diagSchedule]
    by_cases h0 : c = pcol
    · subst h0
      have e1 : ¬ c = c + 1 := by omega
      have e2 : ¬ c = c + 2 := by omega
      have h2 : c ≤ c ∧ c < c + 3 := by omega
      simp only [if_neg e1, if_neg e2, if_pos h2, eq_self, if_true, List.append_nil]
      exact ⟨fun _ => goodCol_range'_concat row row a c (Nat.le_refl _) (by omega), fun _ h => absurd h2 h⟩
    · by_cases h1 : c = pcol + 1
      · subst h1
        have e2 : ¬ pcol + 1 = pcol + 2 := by omega
        have h2 : pcol ≤ pcol + 1 ∧ pcol + 1 < pcol + 3 := by omega
        simp only [if_neg h0, if_neg e2, if_pos h2, eq_self, if_true, List.nil_append, List.append_nil]
        exact ⟨fun _ => goodCol_range'_concat row (row + a) b _ (by omega) (by omega), fun _ h => absurd h2 h⟩
      · by_cases h3 : c = pcol + 2
        · subst h3
          have h2 : pcol ≤ pcol + 2 ∧ pcol + 2 < pcol + 3 := by omega
          simp only [if_neg h0, if_neg h1, if_pos h2, eq_self, if_true, List.nil_append]
          exact ⟨fun _ => goodCol_range'_concat row row (a + b) _ (Nat.le_refl _) (by omega), fun _ h => absurd h2 h⟩
        · have h2 : ¬ (pcol ≤ c ∧ c < pcol + 3) := by omega
          simp only [if_neg h0, if_neg h1, if_neg h3, if_neg h2, List.append_nil]
          exact ⟨fun h => by omega, fun _ _ => trivial⟩
  | _ => simp [ConeSpec.isSparseExpandable] at hsp

theorem conePdim_of_not_sparse (cone : ConeSpec) (h : cone.isSparseExpandable = false) :
    conePdim cone = 0 := by simp [conePdim, h]

theorem colSpec_coneSchedule (cone : ConeSpec) (row pcol : Nat) (hle : row + cone.numel ≤ pcol) :
    ColSpec (coneSchedule cone row pcol .triu : List (Entry α)) row row cone.numel pcol (conePdim cone) := by
  have hhs : ColSpec (if cone.hsIsDiagonal then (diagSchedule row cone.numel : List (Entry α))
      else denseTriuSchedule row cone.numel) row row cone.numel pcol 0 := by
    split
    · exact colSpec_diag _ _ _
    · exact colSpec_denseTriu _ _ _
  have hsp : ColSpec (if cone.isSparseExpandable then (sparseSchedule cone row pcol .triu : List (Entry α)) else [])
      row (row + cone.numel) 0 (pcol + 0) (conePdim cone) := by
    by_cases h : cone.isSparseExpandable = true
    · simp only [h, if_true]
      exact colSpec_sparse cone h row pcol hle
    · have h' : cone.isSparseExpandable = false := by simpa using h
      rw [conePdim_of_not_sparse cone h']
      simp only [h', Bool.false_eq_true, if_false]
      exact colSpec_nil _ _ _
  have := ColSpec.append hhs hsp (by omega)
  simpa [coneSchedule] using this

theorem colSpec_conesSchedule (cones : List ConeSpec) (row pcol : Nat)
    (hle : row + (cones.map ConeSpec.numel).sum ≤ pcol) :
    ColSpec (conesSchedule cones row pcol .triu : List (Entry α)) row row
      (cones.map ConeSpec.numel).sum pcol (cones.map conePdim).sum := by
  induction cones generalizing row pcol with
  | nil => simpa [conesSchedule] using colSpec_nil (α := α) row row pcol
  | cons cone rest ih =>
    simp only [List.map_cons, List.sum_cons] at hle ⊢
    simp only [conesSchedule]
    have h1 := colSpec_coneSchedule (α := α) cone row pcol (by omega)
    have h2 := (ih (row + cone.numel) (pcol + conePdim cone) (by
      have : conePdim cone ≥ 0 := Nat.zero_le _
      omega)).mono (Nat.le_add_right row cone.numel)
    exact ColSpec.append h1 h2 (by omega)

/-- **the cone part**: in every column `c` of the cone block / expansion block the rows written
by `conesSchedule` are strictly increasing, end with the diagonal, and are all `≥ row`; no
other column is written. -/
theorem conesSchedule_triu_sorted (cones : List ConeSpec) (row pcol : Nat)
    (hle : row + (cones.map ConeSpec.numel).sum ≤ pcol) (c : Nat) :
    ((row ≤ c ∧ c < row + (cones.map ConeSpec.numel).sum) ∨
       (pcol ≤ c ∧ c < pcol + (cones.map conePdim).sum) →
      (colRowsOf (conesSchedule cones row pcol .triu : List (Entry α)) c).Pairwise (· < ·) ∧
      (colRowsOf (conesSchedule cones row pcol .triu : List (Entry α)) c).getLast? = some c ∧
      ∀ x ∈ colRowsOf (conesSchedule cones row pcol .triu : List (Entry α)) c, row ≤ x) ∧
    (¬(row ≤ c ∧ c < row + (cones.map ConeSpec.numel).sum) →
       ¬(pcol ≤ c ∧ c < pcol + (cones.map conePdim).sum) →
      colRowsOf (conesSchedule cones row pcol .triu : List (Entry α)) c = []) :=
  colSpec_conesSchedule cones row pcol hle c


/-! ### decoding the monadic schedules -/

theorem bind_eq_ok {ε β γ : Type} {x : Except ε β} {f : β → Except ε γ} {c : γ}
    (h : (x >>= f) = .ok c) : ∃ b, x = .ok b ∧ f b = .ok c := by
  cases x with
  | error e => cases h
  | ok b => exact ⟨b, rfl, h⟩

theorem getE_eq_ok {β : Type} {xs : Array β} {i : Nat} {site : String} {v : β}
    (h : getE xs i site = .ok v) : xs[i]? = some v := by
  unfold getE at h
  split at h
  · next w hw => cases h; exact hw
  · cases h

theorem getE_eq_ok_nat {xs : Array Nat} {i : Nat} {site : String} {v : Nat}
    (h : getE xs i site = .ok v) : xs[i]! = v := by
  have := getE_eq_ok h
  simp [getElem!_def, this]

theorem mapM_ok_eq_map {β γ : Type} (f : β → MErr γ) (g : β → γ) :
    ∀ (l : List β) (r : List γ), (∀ i ∈ l, ∀ y, f i = .ok y → y = g i) →
      l.mapM f = .ok r → r = l.map g := by
  intro l
  induction l with
  | nil =>
    intro r _ h
    simp only [List.mapM_nil] at h
    cases h; rfl
  | cons a l ih =>
    intro r hf h
    rw [List.mapM_cons] at h
    obtain ⟨y, hy, h⟩ := bind_eq_ok h
    obtain ⟨ys, hys, h⟩ := bind_eq_ok h
    cases h
    rw [List.map_cons, hf a (by simp) y hy, ih ys (fun i hi => hf i (by simp [hi])) hys]

/-- the entries of column `i` of `M`, as scheduled by `fill_block` -/
def colEntries (M : Csc α) (initrow initcol : Nat) (shape : MatrixShape) (i : Nat) : List (Entry α) :=
  (List.range' M.colptr[i]! (M.colptr[i+1]! - M.colptr[i]!)).map (fun j =>
    match shape with
    | .T => Entry.mk' (M.rowval[j]! + initcol) (i + initrow) (M.nzval.getD j 0) j
    | .N => Entry.mk' (i + initcol) (M.rowval[j]! + initrow) (M.nzval.getD j 0) j)

theorem blockSchedule_ok {M : Csc α} {initrow initcol : Nat} {shape : MatrixShape} {s : List (Entry α)}
    (h : blockSchedule M initrow initcol shape = .ok s) :
    s = (List.range M.n).flatMap (colEntries M initrow initcol shape) := by
  unfold blockSchedule at h
  obtain ⟨cols, hcols, h⟩ := bind_eq_ok h
  cases h
  rw [List.flatMap_def]
  congr 1
  refine mapM_ok_eq_map _ _ _ _ ?_ hcols
  intro i _ y hy
  obtain ⟨start, hstart, hy⟩ := bind_eq_ok hy
  obtain ⟨stop, hstop, hy⟩ := bind_eq_ok hy
  rw [colEntries, getE_eq_ok_nat hstart, getE_eq_ok_nat hstop]
  refine mapM_ok_eq_map _ _ _ _ ?_ hy
  intro j _ e he
  obtain ⟨r, hr, he⟩ := bind_eq_ok he
  obtain ⟨v, hv, he⟩ := bind_eq_ok he
  cases he
  have hr' := getE_eq_ok_nat hr
  have := getE_eq_ok hv
  cases shape <;> simp [Array.getD_eq_getD_getElem?, this, hr']

/-- the pure version of `missingDiagAt` -/
def missingDiag (M : Csc α) (i : Nat) : Bool :=
  M.colptr[i]! == M.colptr[i+1]! || M.rowval[M.colptr[i+1]! - 1]! != i

omit [OfNat α 0] in
theorem missingDiagAt_ok {M : Csc α} {i : Nat} {b : Bool} (h : missingDiagAt M i = .ok b) :
    b = missingDiag M i := by
  unfold missingDiagAt at h
  obtain ⟨lo, hlo, h⟩ := bind_eq_ok h
  obtain ⟨hi, hhi, h⟩ := bind_eq_ok h
  unfold missingDiag
  rw [getE_eq_ok_nat hlo, getE_eq_ok_nat hhi]
  split at h
  · next heq => cases h; simp [heq]
  · next hne =>
    split at h
    · cases h
    · obtain ⟨r, hr, h⟩ := bind_eq_ok h
      cases h
      rw [getE_eq_ok_nat hr]
      simp [hne]

theorem missingDiagSchedule_ok {M : Csc α} {s : List (Entry α)}
    (h : missingDiagSchedule M 0 = .ok s) :
    s = (List.range M.n).flatMap (fun i =>
      if missingDiag M i then [({ readCol := i, incCol := i, row := i, val := 0, k := none } : Entry α)] else []) := by
  unfold missingDiagSchedule at h
  obtain ⟨es, hes, h⟩ := bind_eq_ok h
  cases h
  rw [List.flatMap_def]
  congr 1
  refine mapM_ok_eq_map _ _ _ _ ?_ hes
  intro i _ y hy
  obtain ⟨b, hb, hy⟩ := bind_eq_ok hy
  rw [← missingDiagAt_ok hb]
  cases b <;> · cases hy; simp


/-! ### canonical CSC matrices -/

/-- canonical CSC column structure, stated on the arrays -/
structure Canon (M : Csc α) : Prop where
  colptr_size : M.colptr.size = M.n + 1
  colptr_zero : M.colptr[0]? = some 0
  colptr_mono : ∀ i, i < M.n → M.colptr[i]! ≤ M.colptr[i+1]!
  colptr_last : M.colptr[M.n]? = some M.rowval.size
  nzval_size  : M.nzval.size = M.rowval.size
  rows_lt     : ∀ j, j < M.rowval.size → M.rowval[j]! < M.m
  rows_sorted : ∀ i, i < M.n → ∀ j, M.colptr[i]! ≤ j → j + 1 < M.colptr[i+1]! →
                  M.rowval[j]! < M.rowval[j+1]!

/-- upper triangular: every stored row index is `≤` its column -/
def IsTriu (M : Csc α) : Prop :=
  ∀ i, i < M.n → ∀ j, M.colptr[i]! ≤ j → j < M.colptr[i+1]! → M.rowval[j]! ≤ i

omit [OfNat α 0] in
theorem Canon.colptr_le_last {M : Csc α} (h : Canon M) : ∀ i, i ≤ M.n → M.colptr[i]! ≤ M.rowval.size := by
  have hlast : M.colptr[M.n]! = M.rowval.size := by simp [getElem!_def, h.colptr_last]
  have key : ∀ k i, i + k = M.n → M.colptr[i]! ≤ M.colptr[M.n]! := by
    intro k
    induction k with
    | zero => intro i hi; simp at hi; subst hi; exact Nat.le_refl _
    | succ k ih =>
      intro i hi
      exact Nat.le_trans (h.colptr_mono i (by omega)) (ih (i+1) (by omega))
  intro i hi
  rw [← hlast]
  exact key (M.n - i) i (by omega)

omit [OfNat α 0] in
theorem Canon.rows_strictMono {M : Csc α} (h : Canon M) {i : Nat} (hi : i < M.n) :
    ∀ j1 j2, M.colptr[i]! ≤ j1 → j1 < j2 → j2 < M.colptr[i+1]! → M.rowval[j1]! < M.rowval[j2]! := by
  intro j1 j2 h1 h2 h3
  induction j2 with
  | zero => omega
  | succ j2 ih =>
    by_cases e : j1 = j2
    · subst e; exact h.rows_sorted i hi j1 h1 h3
    · exact Nat.lt_trans (ih (by omega) (by omega)) (h.rows_sorted i hi j2 (by omega) h3)

/-- rows of column `i` of `M` in storage order -/
def rowsN (M : Csc α) (i : Nat) : List Nat :=
  (List.range' M.colptr[i]! (M.colptr[i+1]! - M.colptr[i]!)).map (fun j => M.rowval[j]!)

omit [OfNat α 0] in
theorem Canon.rowsN_pairwise {M : Csc α} (h : Canon M) {i : Nat} (hi : i < M.n) :
    (rowsN M i).Pairwise (· < ·) := by
  unfold rowsN
  rw [List.pairwise_map]
  refine List.Pairwise.imp_of_mem ?_ (List.pairwise_lt_range' (s := M.colptr[i]!) (n := M.colptr[i+1]! - M.colptr[i]!))
  intro a b ha hb hab
  simp only [List.mem_range'_1] at ha hb
  exact h.rows_strictMono hi a b ha.1 hab (by omega)

/-! ### the `P` block and the missing diagonal -/

theorem colRowsOf_colEntries_N (M : Csc α) (i c : Nat) :
    colRowsOf (colEntries M 0 0 .N i) c = if i = c then rowsN M i else [] := by
  simp only [colRowsOf, colEntries, rowsN, List.filter_map, List.map_map]
  by_cases h : i = c
  · subst h
    simp [Entry.mk', Function.comp_def, filter_const_true]
  · simp [Entry.mk', Function.comp_def, h]

theorem colRowsOf_blockN {M : Csc α} {s : List (Entry α)} (h : blockSchedule M 0 0 .N = .ok s) (c : Nat) :
    colRowsOf s c = if c < M.n then rowsN M c else [] := by
  rw [blockSchedule_ok h, colRowsOf_flatMap]
  simp only [colRowsOf_colEntries_N]
  exact flatMap_range_single M.n c (rowsN M)

theorem colRowsOf_missingDiag {M : Csc α} {s : List (Entry α)} (h : missingDiagSchedule M 0 = .ok s) (c : Nat) :
    colRowsOf s c = if c < M.n then (if missingDiag M c then [c] else []) else [] := by
  rw [missingDiagSchedule_ok h, colRowsOf_flatMap]
  have : ∀ i, colRowsOf (if missingDiag M i then
      [({ readCol := i, incCol := i, row := i, val := 0, k := none } : Entry α)] else []) c
      = if i = c then (if missingDiag M i then [i] else []) else [] := by
    intro i
    by_cases h2 : i = c
    · subst h2
      cases missingDiag M i <;> simp [colRowsOf]
    · cases missingDiag M i <;> simp [colRowsOf, h2]
  simp only [this]
  rw [flatMap_range_single M.n c (fun i => if missingDiag M i then [i] else [])]

omit [OfNat α 0] in
theorem pairwise_lt_le_last {l : List Nat} {x : Nat} (hp : l.Pairwise (· < ·)) (hl : l.getLast? = some x) :
    ∀ y ∈ l, y ≤ x := by
  induction l with
  | nil => simp
  | cons a l ih =>
    intro y hy
    rw [List.pairwise_cons] at hp
    cases l with
    | nil => simp at hl hy; omega
    | cons b l' =>
      have hl' : (b :: l').getLast? = some x := by simpa [List.getLast?_cons_cons] using hl
      have hx : x ∈ b :: l' := List.mem_of_getLast? hl'
      rcases List.mem_cons.1 hy with rfl | hy'
      · exact Nat.le_of_lt (hp.1 x hx)
      · exact ih hp.2 hl' y hy'

omit [OfNat α 0] in
/-- columns `< n`: `P` rows, then the missing diagonal -/
theorem pCol_sorted {P : Csc α} (hP : Canon P) (hPt : IsTriu P) {c : Nat} (hc : c < P.n) :
    (rowsN P c ++ (if missingDiag P c then [c] else [])).Pairwise (· < ·) ∧
    (rowsN P c ++ (if missingDiag P c then [c] else [])).getLast? = some c := by
  have hpw := hP.rowsN_pairwise hc
  have hmono := hP.colptr_mono c hc
  have hle : ∀ y ∈ rowsN P c, y ≤ c := by
    intro y hy
    simp only [rowsN, List.mem_map, List.mem_range'_1] at hy
    obtain ⟨j, hj, rfl⟩ := hy
    exact hPt c hc j hj.1 (by omega)
  by_cases e : P.colptr[c]! = P.colptr[c+1]!
  · have h1 : rowsN P c = [] := by simp [rowsN, e]
    have h2 : missingDiag P c = true := by simp [missingDiag, e]
    simp [h1, h2]
  · have hlast : (rowsN P c).getLast? = some P.rowval[P.colptr[c+1]! - 1]! := by
      unfold rowsN
      rw [List.getLast?_map, List.getLast?_range']
      have : ¬ (P.colptr[c+1]! - P.colptr[c]! = 0) := by omega
      rw [if_neg this]
      simp only [Option.map_some]
      congr 2
      omega
    by_cases e2 : P.rowval[P.colptr[c+1]! - 1]! = c
    · have h2 : missingDiag P c = false := by simp [missingDiag, e, e2]
      rw [h2]
      simp only [Bool.false_eq_true, if_false, List.append_nil]
      exact ⟨hpw, by rw [hlast, e2]⟩
    · have h2 : missingDiag P c = true := by simp [missingDiag, e2]
      rw [h2]
      simp only [if_true]
      refine ⟨?_, List.getLast?_concat⟩
      rw [List.pairwise_append]
      refine ⟨hpw, by simp, ?_⟩
      intro a ha b hb
      simp only [List.mem_singleton] at hb
      subst hb
      have h3 := pairwise_lt_le_last hpw hlast a ha
      have h4 := hle _ (List.mem_of_getLast? hlast)
      omega


/-! ### the `A'` block -/

theorem colRowsOf_colEntries_T (M : Csc α) (n i c : Nat) :
    colRowsOf (colEntries M 0 n .T i) c =
      ((List.range' M.colptr[i]! (M.colptr[i+1]! - M.colptr[i]!)).filter
        (fun j => M.rowval[j]! + n == c)).map (fun _ => i) := by
  simp [colRowsOf, colEntries, List.filter_map, List.map_map, Entry.mk', Function.comp_def]

theorem filter_length_le_one {β : Type} (f : β → Nat) (n c : Nat) :
    ∀ l : List β, l.Pairwise (fun a b => f a < f b) → (l.filter (fun j => f j + n == c)).length ≤ 1 := by
  intro l
  induction l with
  | nil => simp
  | cons a l ih =>
    intro hp
    rw [List.pairwise_cons] at hp
    rw [List.filter_cons]
    split
    · next heq =>
      have : l.filter (fun j => f j + n == c) = [] := by
        rw [List.filter_eq_nil_iff]
        intro b hb
        have := hp.1 b hb
        simp only [beq_iff_eq] at heq ⊢
        omega
      simp [this]
    · exact ih hp.2

omit [OfNat α 0] in
theorem Canon.colT_nil_or_single {M : Csc α} (h : Canon M) (n c : Nat) {i : Nat} (hi : i < M.n) :
    let g := ((List.range' M.colptr[i]! (M.colptr[i+1]! - M.colptr[i]!)).filter
        (fun j => M.rowval[j]! + n == c)).map (fun _ => i)
    g = [] ∨ g = [i] := by
  intro g
  have hp : (List.range' M.colptr[i]! (M.colptr[i+1]! - M.colptr[i]!)).Pairwise
      (fun a b => M.rowval[a]! < M.rowval[b]!) := by
    refine List.Pairwise.imp_of_mem ?_ (List.pairwise_lt_range' (s := M.colptr[i]!) (n := M.colptr[i+1]! - M.colptr[i]!))
    intro a b ha hb hab
    simp only [List.mem_range'_1] at ha hb
    exact h.rows_strictMono hi a b ha.1 hab (by omega)
  have hlen := filter_length_le_one (fun j => M.rowval[j]!) n c _ hp
  show List.map _ _ = [] ∨ List.map _ _ = [i]
  generalize (List.range' M.colptr[i]! (M.colptr[i+1]! - M.colptr[i]!)).filter
        (fun j => M.rowval[j]! + n == c) = fl at hlen
  match fl, hlen with
  | [], _ => left; rfl
  | [a], _ => right; rfl
  | _ :: _ :: _, hl => simp at hl

theorem flatMap_range_sorted (g : Nat → List Nat) (n : Nat) (hg : ∀ i, i < n → g i = [] ∨ g i = [i]) :
    ((List.range n).flatMap g).Pairwise (· < ·) ∧ ∀ x ∈ (List.range n).flatMap g, x < n := by
  induction n with
  | zero => simp
  | succ n ih =>
    obtain ⟨ih1, ih2⟩ := ih (fun i hi => hg i (by omega))
    rw [List.range_succ, List.flatMap_append]
    simp only [List.flatMap_cons, List.flatMap_nil, List.append_nil]
    rcases hg n (by omega) with e | e
    · rw [e, List.append_nil]
      exact ⟨ih1, fun x hx => Nat.lt_succ_of_lt (ih2 x hx)⟩
    · rw [e]
      refine ⟨?_, ?_⟩
      · rw [List.pairwise_append]
        refine ⟨ih1, by simp, ?_⟩
        intro a ha b hb
        simp only [List.mem_singleton] at hb
        subst hb
        exact ih2 a ha
      · intro x hx
        simp only [List.mem_append, List.mem_singleton] at hx
        rcases hx with hx | hx
        · exact Nat.lt_succ_of_lt (ih2 x hx)
        · omega

/-- columns of `A'`: rows strictly increasing and `< A.n`; only columns `[n, n + A.m)` are written -/
theorem colRowsOf_blockT {A : Csc α} (hA : Canon A) {n : Nat} {s : List (Entry α)}
    (h : blockSchedule A 0 n .T = .ok s) (c : Nat) :
    (colRowsOf s c).Pairwise (· < ·) ∧ (∀ x ∈ colRowsOf s c, x < A.n) ∧
    ((c < n ∨ n + A.m ≤ c) → colRowsOf s c = []) := by
  rw [blockSchedule_ok h, colRowsOf_flatMap]
  simp only [colRowsOf_colEntries_T]
  obtain ⟨h1, h2⟩ := flatMap_range_sorted _ A.n (fun i hi => hA.colT_nil_or_single n c hi)
  refine ⟨h1, h2, ?_⟩
  intro hc
  rw [List.flatMap_eq_nil_iff]
  intro i hi
  simp only [List.mem_range] at hi
  rw [List.map_eq_nil_iff, List.filter_eq_nil_iff]
  intro j hj
  simp only [List.mem_range'_1] at hj
  have hlt : A.rowval[j]! < A.m := hA.rows_lt j (by
    have := hA.colptr_le_last (i+1) (by omega)
    omega)
  simp only [beq_iff_eq]
  omega

/-! ### the whole schedule -/

theorem kktSchedule_triu_ok {P A : Csc α} {cones : List ConeSpec} {sched : List (Entry α)}
    (hs : kktSchedule P A cones .triu = .ok sched) :
    ∃ sP sD sA, blockSchedule P 0 0 .N = .ok sP ∧ missingDiagSchedule P 0 = .ok sD ∧
      blockSchedule A 0 A.n .T = .ok sA ∧
      sched = sP ++ sD ++ sA ++ conesSchedule cones A.n (A.m + A.n) .triu := by
  unfold kktSchedule at hs
  simp only [] at hs
  obtain ⟨sP, hsP, hs⟩ := bind_eq_ok hs
  obtain ⟨sD, hsD, hs⟩ := bind_eq_ok hs
  obtain ⟨sA, hsA, hs⟩ := bind_eq_ok hs
  obtain ⟨head, hhead, hs⟩ := bind_eq_ok hs
  cases hhead
  cases hs
  exact ⟨sP, sD, sA, hsP, hsD, hsA, rfl⟩

omit [OfNat α 0] in
theorem getLast?_append_of_some {l1 l2 : List Nat} {c : Nat} (h : l2.getLast? = some c) :
    (l1 ++ l2).getLast? = some c := by
  rw [List.getLast?_append, h]; rfl

/-- **Main theorem**: in every column of the assembled upper-triangular KKT matrix the rows are
strictly increasing and the last one is the diagonal. -/
theorem kktSchedule_triu_sorted (P A : Csc α) (cones : List ConeSpec) (sched : List (Entry α))
    (hP : Canon P) (hPt : IsTriu P) (hPsq : P.m = P.n) (hA : Canon A) (hn : P.n = A.n)
    (hm : (cones.map ConeSpec.numel).sum = A.m)
    (hs : kktSchedule P A cones .triu = .ok sched)
    (c : Nat) (hc : c < A.n + A.m + (cones.map conePdim).sum) :
    (colRowsOf sched c).Pairwise (· < ·) ∧ (colRowsOf sched c).getLast? = some c := by
  have _ := hPsq  -- (not needed: `IsTriu P` and `P.n = A.n` suffice)
  obtain ⟨sP, sD, sA, hsP, hsD, hsA, rfl⟩ := kktSchedule_triu_ok hs
  have hcone := colSpec_conesSchedule (α := α) cones A.n (A.m + A.n) (by omega) c
  obtain ⟨hA1, hA2, hA3⟩ := colRowsOf_blockT hA hsA c
  simp only [colRowsOf_append, colRowsOf_blockN hsP, colRowsOf_missingDiag hsD]
  by_cases h1 : c < A.n
  · -- a `P` column
    have e1 : colRowsOf sA c = [] := hA3 (Or.inl h1)
    have e2 : colRowsOf (conesSchedule cones A.n (A.m + A.n) .triu : List (Entry α)) c = [] :=
      hcone.2 (by omega) (by omega)
    have h1' : c < P.n := by omega
    rw [e1, e2, if_pos h1', if_pos h1', List.append_nil, List.append_nil]
    exact pCol_sorted hP hPt h1'
  · have h1' : ¬ c < P.n := by omega
    rw [if_neg h1', if_neg h1', List.nil_append, List.nil_append]
    obtain ⟨g1, g2, g3⟩ := hcone.1 (by omega)
    refine ⟨?_, getLast?_append_of_some g2⟩
    rw [List.pairwise_append]
    refine ⟨hA1, g1, ?_⟩
    intro a ha b hb
    have := hA2 a ha
    have := g3 b hb
    omega

end Clarabel.Lemmas.KktSorted
