/-
  The settings echo and the loop skeleton read one settings record: consequences for the
  progress table (helper lemmas for C20).
-/
import ClarabelProofs.Lemmas.LoopRows
import ClarabelProofs.Lemmas.PrintHeader

namespace Clarabel.Loop

/-- in a non-decreasing chain every element is bounded by the last -/
theorem chain_le_last : ∀ (l : List Nat), List.IsChain StepRel l → ∀ y, l.getLast? = some y →
    ∀ x ∈ l, x ≤ y
  | [], _, _, _, x, hx => by cases hx
  | [a], _, y, h, x, hx => by
    simp at h hx; omega
  | a :: b :: l, hc, y, h, x, hx => by
    rw [List.isChain_cons] at hc
    have hab : StepRel a b := hc.1 b (by simp)
    have hl : (b :: l).getLast? = some y := by
      rw [List.getLast?_cons_cons] at h; exact h
    have ih := chain_le_last (b :: l) hc.2 y hl
    rcases List.mem_cons.mp hx with rfl | hx
    · exact Nat.le_trans hab.1 (ih b (by simp))
    · exact ih x hx

end Clarabel.Loop
