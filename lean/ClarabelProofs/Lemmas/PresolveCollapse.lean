/-
  Helper lemmas about `Cones.newCollapsed` (model of `SupportedConeT::new_collapsed`).
  Pure list reasoning — no Mathlib.
-/
import ClarabelModel.Collapse

namespace Clarabel
namespace Cones
variable {α : Type}

theorem collapsibleDim_eq_nvars {c : ConeT α} {d : Nat} (h : c.collapsibleDim? = some d) :
    d = c.nvars := by
  unfold ConeT.collapsibleDim? at h
  split at h
  · simp_all [ConeT.nvars]
  · cases h; rfl
  · cases h; rfl
  · cases h

theorem collapsibleDim_none_not_nonneg {c : ConeT α} (h : c.collapsibleDim? = none) :
    c.isNonneg = false := by
  cases c <;> simp_all [ConeT.collapsibleDim?, ConeT.isNonneg]

theorem numel_append (l₁ l₂ : List (ConeT α)) : numel (l₁ ++ l₂) = numel l₁ + numel l₂ := by
  induction l₁ with
  | nil => simp [numel]
  | cons c cs ih => simp [numel, ih]; omega

theorem numel_flush (acc : Nat) : numel (flush acc : List (ConeT α)) = acc := by
  unfold flush
  split <;> simp_all [numel, ConeT.nvars]

theorem numel_collapseGo (acc : Nat) (cs : List (ConeT α)) :
    numel (collapseGo acc cs) = acc + numel cs := by
  induction cs generalizing acc with
  | nil => simp [collapseGo, numel_flush, numel]
  | cons c rest ih =>
    unfold collapseGo
    split
    · rename_i h0
      rw [ih]; simp [numel, h0]
    · split
      · rename_i d hd
        rw [ih, collapsibleDim_eq_nvars hd]; simp [numel]; omega
      · rw [numel_append, numel_flush]; simp [numel, ih]

/-- a cone that may appear in a collapsed list: non-empty, and not one of the singletons
that are rolled into a nonnegative cone -/
def Good (c : ConeT α) : Prop := c.nvars ≠ 0 ∧ (c.collapsibleDim? = none ∨ c.isNonneg = true)

/-- normal form of `new_collapsed`: only `Good` cones, no two adjacent nonnegative cones -/
def Normal : List (ConeT α) → Prop
  | [] => True
  | [c] => Good c
  | c :: d :: r => Good c ∧ ¬ (c.isNonneg = true ∧ d.isNonneg = true) ∧ Normal (d :: r)

theorem Normal.tail {c : ConeT α} {l : List (ConeT α)} (h : Normal (c :: l)) : Normal l := by
  cases l with
  | nil => trivial
  | cons d r => exact h.2.2

theorem Normal.head {c : ConeT α} {l : List (ConeT α)} (h : Normal (c :: l)) : Good c := by
  cases l with
  | nil => exact h
  | cons d r => exact h.1

theorem Normal.cons_of_not_nonneg {c : ConeT α} {l : List (ConeT α)} (hl : Normal l) (hc : Good c)
    (hn : c.isNonneg = false) : Normal (c :: l) := by
  cases l with
  | nil => exact hc
  | cons d r => exact ⟨hc, by simp [hn], hl⟩

theorem good_nonneg {a : Nat} (ha : a ≠ 0) : Good (ConeT.nonneg a : ConeT α) :=
  ⟨by simpa [ConeT.nvars] using ha, Or.inr rfl⟩

theorem Normal.flush_cons {c : ConeT α} {l : List (ConeT α)} (acc : Nat) (hl : Normal (c :: l))
    (hn : c.isNonneg = false) : Normal (flush acc ++ c :: l) := by
  unfold flush
  split
  · simpa using hl
  · rename_i ha
    exact ⟨good_nonneg ha, by simp [hn], hl⟩

theorem normal_flush (acc : Nat) : Normal (flush acc : List (ConeT α)) := by
  unfold flush
  split
  · trivial
  · rename_i ha; exact good_nonneg ha

theorem normal_collapseGo (acc : Nat) (cs : List (ConeT α)) : Normal (collapseGo acc cs) := by
  induction cs generalizing acc with
  | nil => simpa [collapseGo] using normal_flush acc
  | cons c rest ih =>
    unfold collapseGo
    split
    · exact ih acc
    · rename_i h0
      split
      · exact ih _
      · rename_i hd
        have hn := collapsibleDim_none_not_nonneg hd
        exact Normal.flush_cons acc (Normal.cons_of_not_nonneg (ih 0) ⟨h0, Or.inl hd⟩ hn) hn

theorem mem_good_of_normal {l : List (ConeT α)} (h : Normal l) : ∀ c ∈ l, Good c := by
  induction l with
  | nil => intro c hc; cases hc
  | cons d r ih =>
    intro c hc
    cases hc with
    | head => exact h.head
    | tail _ hm => exact ih h.tail c hm

/-- a run that is open with `acc ≠ 0` and a normal tail that does not start with a
nonnegative cone is reproduced unchanged -/
theorem collapseGo_normal (l : List (ConeT α)) (h : Normal l) :
    (collapseGo 0 l = l) ∧
    (∀ acc, acc ≠ 0 → (∀ c r, l = c :: r → c.isNonneg = false) →
       collapseGo acc l = ConeT.nonneg acc :: l) := by
  induction l with
  | nil =>
    refine ⟨by simp [collapseGo, flush], ?_⟩
    intro acc ha _
    simp [collapseGo, flush, ha]
  | cons c r ih =>
    have hg := h.head
    have ⟨ih0, ihacc⟩ := ih h.tail
    have hnv : ¬ c.nvars = 0 := hg.1
    constructor
    · unfold collapseGo
      rw [if_neg hnv]
      cases hcd : c.collapsibleDim? with
      | none => simp [flush, ih0]
      | some d =>
        -- then c is a nonnegative cone and the tail does not start with one
        have hnn : c.isNonneg = true := by
          rcases hg.2 with h1 | h1
          · rw [hcd] at h1; cases h1
          · exact h1
        have hd : d = c.nvars := collapsibleDim_eq_nvars hcd
        have hc : c = ConeT.nonneg d := by
          cases c with
          | nonneg k => simp only [ConeT.collapsibleDim?, Option.some.injEq] at hcd; rw [hcd]
          | _ => simp [ConeT.isNonneg] at hnn
        have hstart : ∀ c' r', r = c' :: r' → c'.isNonneg = false := by
          intro c' r' hr
          subst hr
          have := h.2.1
          simp only [hnn, true_and] at this
          simpa using this
        simp only []
        rw [Nat.zero_add, ihacc d (by omega) hstart, hc]
    · intro acc ha hstart
      have hn : c.isNonneg = false := hstart c r rfl
      unfold collapseGo
      rw [if_neg hnv]
      cases hcd : c.collapsibleDim? with
      | none => simp [flush, ha, ih0]
      | some d =>
        rcases hg.2 with h1 | h1
        · rw [hcd] at h1; cases h1
        · rw [hn] at h1; cases h1

theorem collapseGo_congr_prefix (pre l₁ l₂ : List (ConeT α))
    (h : ∀ acc, collapseGo acc l₁ = collapseGo acc l₂) :
    ∀ acc, collapseGo acc (pre ++ l₁) = collapseGo acc (pre ++ l₂) := by
  induction pre with
  | nil => simpa using h
  | cons c r ih =>
    intro acc
    simp only [List.cons_append]
    unfold collapseGo
    split
    · exact ih acc
    · split
      · exact ih _
      · rw [ih 0]

theorem collapseGo_nonneg_cons (acc a : Nat) (l : List (ConeT α)) :
    collapseGo acc (ConeT.nonneg a :: l) = collapseGo (acc + a) l := by
  by_cases ha : a = 0
  · subst ha; simp [collapseGo, ConeT.nvars]
  · simp [collapseGo, ConeT.nvars, ha, ConeT.collapsibleDim?]

end Cones
end Clarabel
