/-
  Helper lemmas about the loop skeleton (`ClarabelModel/Loop.lean`).  All structural: no
  arithmetic law of the scalar type is used, so they hold for `Float` as well.
-/
import ClarabelModel.Loop

namespace Clarabel.Loop

set_option linter.unusedSectionVars false
set_option linter.unusedSimpArgs false

variable {α : Type} [Mul α] [Div α] [Neg α] [OfNat α 0] [OfNat α 1]
  [LT α] [DecidableLT α] [LE α] [DecidableLE α] [BEq α] [FloatLike α]

/-- potential that bounds the number of remaining passes -/
def budget (cfg : Config α) (st : State α) : Nat :=
  (cfg.maxIter - st.iter) + (if st.scaling = .PrimalDual then 1 else 0)

/-- the figures of `info` that the returned `solution` carries (and the table shows) -/
def fig (i : Info α) : Nat × α × α × α × α :=
  (i.iterations, i.costPrimal, i.costDual, i.resPrimal, i.resDual)

/-- the same figures of a printed row -/
def figRow (r : Row α) : Nat × α × α × α × α :=
  (r.iterations, r.costPrimal, r.costDual, r.resPrimal, r.resDual)

theorem figRow_rowOf (i : Info α) : figRow (rowOf i) = fig i := rfl

/-- `check_termination` never leaves `Unsolved` once `iterations = max_iter` -/
theorem checkTermination_maxIter (i : Info α) (d : Dots α) (cfg : Config α) (iter : Nat)
    (h : cfg.maxIter = i.iterations) : checkTermination i d cfg iter ≠ .Unsolved := by
  unfold checkTermination
  split
  · first | decide | (rw [if_pos h]; decide)
  · assumption

theorem checkTermination_unsolved_iter (i : Info α) (d : Dots α) (cfg : Config α) (iter : Nat)
    (h : checkTermination i d cfg iter = .Unsolved) : cfg.maxIter ≠ i.iterations := by
  intro hh
  exact checkTermination_maxIter i d cfg iter hh h

theorem checkTermination_unsolved_time (i : Info α) (d : Dots α) (cfg : Config α) (iter : Nat)
    (h : checkTermination i d cfg iter = .Unsolved) : ¬ (cfg.timeLimit < i.solveTime) := by
  intro hh
  unfold checkTermination at h
  split at h
  · split at h
    · cases h
    · cases h
  · contradiction

theorem checkConvergence_cases (i : Info α) (d : Dots α) (t : Tols α) (a b c : Status) :
    checkConvergence i d t a b c = a ∨ checkConvergence i d t a b c = b
      ∨ checkConvergence i d t a b c = c ∨ checkConvergence i d t a b c = i.status := by
  unfold checkConvergence
  split
  · exact Or.inl rfl
  · split
    · split
      · exact Or.inr (Or.inl rfl)
      · split
        · exact Or.inr (Or.inr (Or.inl rfl))
        · exact Or.inr (Or.inr (Or.inr rfl))
    · exact Or.inr (Or.inr (Or.inr rfl))

theorem postProcess_ne_unsolved (i : Info α) (d : Dots α) (cfg : Config α)
    (h : i.status ≠ .Unsolved) : postProcess i d cfg ≠ .Unsolved := by
  unfold postProcess
  split
  · rcases checkConvergence_cases i d cfg.reduced .AlmostSolved .AlmostPrimalInfeasible
      .AlmostDualInfeasible with h1 | h1 | h1 | h1 <;> rw [h1]
    · decide
    · decide
    · decide
    · exact h
  · exact h

/-! ### one pass -/

section top
variable (cfg : Config α) (o : PassOracle α) (st : State α)
@[simp] theorem top_iter : (top cfg o st).iter = st.iter := rfl
@[simp] theorem top_scaling : (top cfg o st).scaling = st.scaling := rfl
@[simp] theorem top_passes : (top cfg o st).passes = st.passes + 1 := rfl
@[simp] theorem top_saved : (top cfg o st).saved = st.saved := rfl
@[simp] theorem top_staleReset : (top cfg o st).staleReset = st.staleReset := rfl
@[simp] theorem top_alpha : (top cfg o st).alpha = st.alpha := rfl
@[simp] theorem top_sigma : (top cfg o st).sigma = st.sigma := rfl
@[simp] theorem top_vars : (top cfg o st).vars = st.vars := rfl
@[simp] theorem top_prevVars : (top cfg o st).prevVars = st.prevVars := rfl
@[simp] theorem top_info_iterations : (top cfg o st).info.iterations = st.iter := rfl
@[simp] theorem top_log : (top cfg o st).log = st.log := rfl

theorem top_unsolved_iter (h : (top cfg o st).info.status = .Unsolved) : cfg.maxIter ≠ st.iter :=
  checkTermination_unsolved_iter _ _ cfg st.iter h
end top

theorem scaling_pd_of {cfg : Config α} {sc : Scaling}
    (h : (!cfg.symmetric && sc == .PrimalDual) = true) : sc = .PrimalDual := by
  cases sc
  · rfl
  · simp at h

theorem passDone_cont {cfg : Config α} {st1 st' : State α} (h : passDone cfg st1 = .cont st') :
    st'.passes = st1.passes ∧ st'.iter = st1.iter ∧ st1.scaling = .PrimalDual
        ∧ st'.scaling = .Dual ∧ st'.saved = st1.saved ∧ st'.info.status = .Unsolved
        ∧ st'.info.iterations = st1.info.iterations
        ∧ st'.staleReset = (st1.staleReset || !st1.saved)
        ∧ st'.alpha = st1.alpha ∧ st'.rows = st1.rows
        ∧ st1.info.status = .InsufficientProgress
        ∧ st'.rollbackLines = st1.rollbackLines := by
  unfold passDone at h
  simp only at h
  split at h
  · rename_i s hcp
    unfold cpInsufficientProgress at hcp
    split at hcp
    · cases hcp
    · rename_i hip
      simp only [ne_eq, Decidable.not_not] at hip
      split at hcp
      · rename_i hsw
        cases hcp
        cases h
        refine ⟨rfl, rfl, scaling_pd_of hsw, rfl, rfl, ?_, ?_, ?_, rfl, rfl, hip, rfl⟩
        · simp [cpInsufficientProgressStatus, hip, hsw]
        · simp [hip, Info.resetToPrev]
        · simp [hip]
      · cases hcp
  · cases h
  · split at h <;> cases h
theorem cpIPStatus_ne_unsolved {cfg : Config α} {status : Status} {sc : Scaling}
    (hs : status ≠ .Unsolved) (hne : ∀ s, cpInsufficientProgress cfg status sc ≠ .Update s) :
    cpInsufficientProgressStatus cfg status sc ≠ .Unsolved := by
  unfold cpInsufficientProgressStatus
  unfold cpInsufficientProgress at hne
  split
  · exact hs
  · rename_i hip
    split
    · rename_i hsw
      have := hne .Dual
      rw [if_neg hip, if_pos hsw] at this
      exact absurd rfl this
    · exact hs

theorem passDone_brk {cfg : Config α} {st1 st' : State α} (hs : st1.info.status ≠ .Unsolved)
    (h : passDone cfg st1 = .brk st') :
    st'.passes = st1.passes ∧ st'.iter = st1.iter ∧ st'.alpha = st1.alpha
        ∧ st'.info.status ≠ .Unsolved ∧ st'.info.iterations = st1.info.iterations
        ∧ ((st'.rows = st1.rows ∧ st'.rollbackLines = st1.rollbackLines
              ∧ (cfg.rollbackLine = true → fig st'.info = fig st1.info))
            ∨ (st'.rows = printStatus cfg st'.info st1.rows
              ∧ st'.rollbackLines = st1.rollbackLines + 1))
        ∧ st'.staleReset = (st1.staleReset || (decide (st1.info.status = .InsufficientProgress) && !st1.saved))
        ∧ st'.scaling = st1.scaling := by
  have hit : (if decide (st1.info.status = .InsufficientProgress) = true then st1.info.resetToPrev
      else st1.info).iterations = st1.info.iterations := by
    split <;> rfl
  unfold passDone at h
  simp only at h
  split at h
  · cases h
  · rename_i hcp
    cases h
    have hne : st1.info.status ≠ .InsufficientProgress := by
      intro hip
      unfold cpInsufficientProgress at hcp
      rw [if_neg (by simp [hip])] at hcp
      split at hcp <;> cases hcp
    refine ⟨rfl, rfl, rfl, cpIPStatus_ne_unsolved hs (by intro s; rw [hcp]; intro hh; cases hh), hit,
      Or.inl ⟨rfl, rfl, fun _ => ?_⟩, rfl, rfl⟩
    simp [fig, decide_eq_false hne]
  · rename_i hcp
    have hst := cpIPStatus_ne_unsolved (cfg := cfg) (sc := st1.scaling) hs
      (by intro s; rw [hcp]; intro hh; cases hh)
    split at h
    · cases h
      exact ⟨rfl, rfl, rfl, hst, hit, Or.inr ⟨rfl, rfl⟩, rfl, rfl⟩
    · rename_i hrb
      cases h
      exact ⟨rfl, rfl, rfl, hst, hit, Or.inl ⟨rfl, rfl, fun hh => absurd hh hrb⟩, rfl, rfl⟩

theorem passDone_ne_panic {cfg : Config α} {st1 : State α} {site : String} :
    passDone cfg st1 ≠ .panic site := by
  intro h
  unfold passDone at h
  simp only at h
  split at h
  · cases h
  · cases h
  · split at h <;> cases h

theorem cpNumericalError_update {cfg : Config α} {ok : Bool} {sc s : Scaling}
    (h : cpNumericalError cfg ok sc = .Update s) : sc = .PrimalDual ∧ s = .Dual := by
  unfold cpNumericalError at h
  split at h
  · cases h
  · split at h
    · rename_i hsw
      cases h
      exact ⟨scaling_pd_of hsw, rfl⟩
    · cases h

theorem cpSmallStep_update {cfg : Config α} {a : α} {sc s : Scaling}
    (h : cpSmallStep cfg a sc = .Update s) : sc = .PrimalDual ∧ s = .Dual := by
  unfold cpSmallStep at h
  split at h
  · rename_i hsw
    cases h
    have : (!cfg.symmetric && sc == .PrimalDual) = true := by
      simp only [Bool.and_eq_true] at hsw ⊢
      exact hsw.1
    exact ⟨scaling_pd_of this, rfl⟩
  · split at h <;> cases h

theorem passKkt_cont {cfg : Config α} {o : PassOracle α} {st1 st' : State α}
    (hs : st1.info.status = .Unsolved) (h : passKkt cfg o st1 = .cont st') :
    st'.passes = st1.passes ∧ st'.iter = st1.iter + 1 ∧ st'.info.status = .Unsolved
      ∧ st'.info.iterations = st1.info.iterations ∧ st'.rows = st1.rows
      ∧ st'.staleReset = st1.staleReset
      ∧ ((st1.scaling = .PrimalDual ∧ st'.scaling = .Dual ∧ st'.saved = st1.saved)
          ∨ (st'.scaling = st1.scaling ∧ st'.saved = true))
      ∧ st'.rollbackLines = st1.rollbackLines := by
  unfold passKkt at h
  simp only at h
  split at h
  · rename_i s hcp
    cases h
    have := cpNumericalError_update hcp
    refine ⟨rfl, rfl, ?_, rfl, rfl, rfl, Or.inl ⟨this.1, this.2, rfl⟩, rfl⟩
    unfold cpNumericalError at hcp
    simp only [cpNumericalErrorStatus]
    split at hcp
    · cases hcp
    · rename_i hok
      rw [if_neg hok]
      split at hcp
      · rename_i hsw
        rw [if_pos hsw]; exact hs
      · cases hcp
  · cases h
  · rename_i hcp
    have hst : cpNumericalErrorStatus cfg (o.kktAffOk && o.kktCombOk) st1.info.status st1.scaling = .Unsolved := by
      unfold cpNumericalError at hcp
      simp only [cpNumericalErrorStatus]
      split at hcp
      · rename_i hok; rw [if_pos hok]; exact hs
      · split at hcp <;> cases hcp
    split at h
    · rename_i s hsm
      cases h
      have := cpSmallStep_update hsm
      refine ⟨rfl, rfl, ?_, rfl, rfl, rfl, Or.inl ⟨this.1, this.2, rfl⟩, rfl⟩
      simp only [hst]
      unfold cpSmallStep at hsm
      simp only [cpSmallStepStatus]
      split at hsm
      · rename_i hsw; rw [if_pos hsw]
      · split at hsm <;> cases hsm
    · cases h
    · rename_i hsm
      cases h
      refine ⟨rfl, rfl, ?_, rfl, rfl, rfl, Or.inr ⟨rfl, rfl⟩, rfl⟩
      simp only [stepped, Info.savePrev, hst]
      unfold cpSmallStep at hsm
      simp only [cpSmallStepStatus]
      split at hsm
      · cases hsm
      · rename_i hsw
        rw [if_neg hsw]
        split at hsm
        · cases hsm
        · rename_i hle; rw [if_neg hle]

theorem passKkt_brk {cfg : Config α} {o : PassOracle α} {st1 st' : State α}
    (h : passKkt cfg o st1 = .brk st') :
    st'.passes = st1.passes ∧ st'.iter = st1.iter + 1 ∧ st'.info.status ≠ .Unsolved
      ∧ st'.info.iterations = st1.info.iterations ∧ st'.rows = st1.rows
      ∧ st'.staleReset = st1.staleReset ∧ st'.alpha = 0 ∧ st'.scaling = st1.scaling
      ∧ st'.rollbackLines = st1.rollbackLines ∧ fig st'.info = fig st1.info := by
  unfold passKkt at h
  simp only at h
  split at h
  · cases h
  · rename_i hcp
    cases h
    refine ⟨rfl, rfl, ?_, rfl, rfl, rfl, rfl, rfl, rfl, rfl⟩
    unfold cpNumericalError at hcp
    simp only [cpNumericalErrorStatus]
    split at hcp
    · cases hcp
    · rename_i hok
      rw [if_neg hok]
      split at hcp
      · cases hcp
      · rename_i hsw; rw [if_neg hsw]; decide
  · split at h
    · cases h
    · rename_i hsm
      cases h
      refine ⟨rfl, rfl, ?_, rfl, rfl, rfl, rfl, rfl, rfl, rfl⟩
      unfold cpSmallStep at hsm
      simp only [cpSmallStepStatus]
      split at hsm
      · cases hsm
      · rename_i hsw
        rw [if_neg hsw]
        split at hsm
        · rename_i hle; rw [if_pos hle]; decide
        · cases hsm
    · cases h

theorem passKkt_ne_panic {cfg : Config α} {o : PassOracle α} {st1 : State α} {site : String} :
    passKkt cfg o st1 ≠ .panic site := by
  intro h
  unfold passKkt at h
  simp only at h
  split at h
  · cases h
  · cases h
  · split at h <;> cases h

theorem passStep_cont {cfg : Config α} {o : PassOracle α} {st1 st' : State α}
    (hs : st1.info.status = .Unsolved) (h : passStep cfg o st1 = .cont st') :
    passKkt cfg o st1 = .cont st' := by
  unfold passStep at h
  split at h
  · cases h
  · cases h
  · exact h

theorem passStep_brk {cfg : Config α} {o : PassOracle α} {st1 st' : State α}
    (h : passStep cfg o st1 = .brk st') :
    passKkt cfg o st1 = .brk st' ∨
      (st'.passes = st1.passes ∧ st'.iter = st1.iter ∧ st'.alpha = st1.alpha
        ∧ st'.info.status = .NumericalError ∧ st'.info.iterations = st1.info.iterations
        ∧ st'.rows = st1.rows ∧ st'.staleReset = st1.staleReset ∧ st'.scaling = st1.scaling
        ∧ st'.rollbackLines = st1.rollbackLines ∧ fig st'.info = fig st1.info) := by
  unfold passStep at h
  split at h
  · cases h
  · rename_i hcp
    cases h
    refine Or.inr ⟨rfl, rfl, rfl, ?_, rfl, rfl, rfl, rfl, rfl, rfl⟩
    unfold cpIsScalingSuccess at hcp
    simp only [cpIsScalingSuccessStatus]
    split at hcp
    · cases hcp
    · rename_i hok; rw [if_neg hok]
  · exact Or.inl h

theorem passStep_ne_panic {cfg : Config α} {o : PassOracle α} {st1 : State α} {site : String} :
    passStep cfg o st1 ≠ .panic site := by
  intro h
  unfold passStep at h
  split at h
  · rename_i s hcp
    unfold cpIsScalingSuccess at hcp
    split at hcp <;> cases hcp
  · cases h
  · exact passKkt_ne_panic h

/-- the loop never reaches the `unreachable!()` arm -/
theorem pass_ne_panic (cfg : Config α) (o : PassOracle α) (st : State α) (site : String) :
    pass cfg o st ≠ .panic site := by
  unfold pass
  split
  · exact passDone_ne_panic
  · exact passStep_ne_panic

theorem poorProgress_cases (i : Info α) (t : Tols α) :
    poorProgress i t = .InsufficientProgress ∨ poorProgress i t = .Unsolved := by
  unfold poorProgress
  simp only
  split
  · exact Or.inl rfl
  · split
    · exact Or.inl rfl
    · exact Or.inr rfl

/-- `InsufficientProgress` out of `check_termination` needs `iter > 1` (or was there before) -/
theorem checkTermination_ip {i : Info α} {d : Dots α} {cfg : Config α} {iter : Nat}
    (h : checkTermination i d cfg iter = .InsufficientProgress) :
    i.status = .InsufficientProgress ∨ iter > 1 := by
  unfold checkTermination at h
  split at h
  · split at h
    · cases h
    · split at h <;> cases h
  · unfold verdict at h
    simp only at h
    split at h
    · rename_i hc; exact Or.inr hc.2.1
    · rcases checkConvergence_cases i d cfg.full .Solved .PrimalInfeasible .DualInfeasible
        with h1 | h1 | h1 | h1 <;> rw [h1] at h
      · cases h
      · cases h
      · cases h
      · exact Or.inl h

theorem top_info_status_in (cfg : Config α) (o : PassOracle α) (st : State α) :
    (top cfg o st).info.status = checkTermination
      { (st.info.saveScalars o.mu st.alpha st.sigma st.iter) with
        costPrimal := o.costPrimal, costDual := o.costDual, resPrimal := o.resPrimal,
        resDual := o.resDual, resPrimalInf := o.resPrimalInf, resDualInf := o.resDualInf,
        gapAbs := o.gapAbs, gapRel := o.gapRel, ktratio := o.ktratio, solveTime := o.solveTime }
      ⟨o.dotBz, o.dotQx⟩ cfg st.iter := rfl

theorem top_ip {cfg : Config α} {o : PassOracle α} {st : State α}
    (h : (top cfg o st).info.status = .InsufficientProgress) :
    st.info.status = .InsufficientProgress ∨ st.iter > 1 := by
  rw [top_info_status_in] at h
  have := checkTermination_ip h
  exact this

/-- control fields after a pass that goes on -/
structure ContSpec (cfg : Config α) (st st' : State α) : Prop where
  passes : st'.passes = st.passes + 1
  status : st'.info.status = .Unsolved
  iterations : st'.info.iterations = st.iter
  kind :
    -- a strategy switch after a rollback, no KKT update
    (st'.iter = st.iter ∧ st.scaling = .PrimalDual ∧ st'.scaling = .Dual ∧ st'.saved = st.saved
        ∧ st'.staleReset = (st.staleReset || !st.saved) ∧ st'.alpha = st.alpha
        ∧ (st.info.status = .InsufficientProgress ∨ st.iter > 1))
    -- a KKT update and a strategy switch, no step
    ∨ (st'.iter = st.iter + 1 ∧ cfg.maxIter ≠ st.iter ∧ st.scaling = .PrimalDual ∧ st'.scaling = .Dual
        ∧ st'.saved = st.saved ∧ st'.staleReset = st.staleReset)
    -- a KKT update and a step
    ∨ (st'.iter = st.iter + 1 ∧ cfg.maxIter ≠ st.iter ∧ st'.scaling = st.scaling ∧ st'.saved = true
        ∧ st'.staleReset = st.staleReset)

theorem pass_cont {cfg : Config α} {o : PassOracle α} {st st' : State α}
    (h : pass cfg o st = .cont st') : ContSpec cfg st st' := by
  unfold pass at h
  split at h
  · have := passDone_cont h
    obtain ⟨h1, h2, h3, h4, h5, h6, h7, h8, h9, _, h11, _⟩ := this
    exact ⟨h1, h6, h7, Or.inl ⟨h2, h3, h4, h5, h8, h9, top_ip h11⟩⟩
  · rename_i hs
    simp only [ne_eq, Decidable.not_not] at hs
    have hk := passStep_cont hs h
    have := passKkt_cont hs hk
    obtain ⟨h1, h2, h3, h4, _, h6, h7, _⟩ := this
    have hm := top_unsolved_iter cfg o st hs
    refine ⟨h1, h3, h4, ?_⟩
    rcases h7 with ⟨a, b, c⟩ | ⟨a, b⟩
    · exact Or.inr (Or.inl ⟨h2, hm, a, b, c, h6⟩)
    · exact Or.inr (Or.inr ⟨h2, hm, a, b, h6⟩)

/-- control fields after a pass that leaves the loop -/
structure BrkSpec (cfg : Config α) (st st' : State α) : Prop where
  passes : st'.passes = st.passes + 1
  status : st'.info.status ≠ .Unsolved
  iterations : st'.info.iterations = st.iter
  scaling : st'.scaling = st.scaling
  kind : (st'.iter = st.iter ∧ st'.alpha = st.alpha)
    ∨ (st'.iter = st.iter + 1 ∧ cfg.maxIter ≠ st.iter ∧ st'.alpha = 0)
  stale : st'.staleReset = st.staleReset
    ∨ (st'.staleReset = (st.staleReset || !st.saved) ∧ (st.info.status = .InsufficientProgress ∨ st.iter > 1))

theorem pass_brk {cfg : Config α} {o : PassOracle α} {st st' : State α}
    (h : pass cfg o st = .brk st') : BrkSpec cfg st st' := by
  unfold pass at h
  split at h
  · rename_i hs
    have := passDone_brk hs h
    obtain ⟨h1, h2, h3, h4, h5, _, h7, h8⟩ := this
    refine ⟨h1, h4, h5, h8, Or.inl ⟨h2, h3⟩, ?_⟩
    simp only [top_staleReset, top_saved] at h7
    by_cases hip : (top cfg o st).info.status = .InsufficientProgress
    · right
      refine ⟨?_, top_ip hip⟩
      rw [h7, decide_eq_true hip]; rfl
    · left
      rw [h7, decide_eq_false hip]; simp
  · rename_i hs
    simp only [ne_eq, Decidable.not_not] at hs
    have hm := top_unsolved_iter cfg o st hs
    rcases passStep_brk h with hk | hk
    · have := passKkt_brk hk
      obtain ⟨h1, h2, h3, h4, _, h6, h7, h8, _, _⟩ := this
      exact ⟨h1, h3, h4, h8, Or.inr ⟨h2, hm, h7⟩, Or.inl h6⟩
    · obtain ⟨h1, h2, h3, h4, h5, _, h7, h8, _, _⟩ := hk
      exact ⟨h1, by rw [h4]; decide, h5, h8, Or.inl ⟨h2, h3⟩, Or.inl h7⟩

/-! ### the loop -/

/-- loop invariant at the top of a pass -/
structure Inv (cfg : Config α) (st : State α) : Prop where
  iter_le : st.iter ≤ cfg.maxIter
  status : st.info.status = .Unsolved
  iterations_le : st.info.iterations ≤ st.iter
  /-- `prev_*` have been written, or no path can read them yet -/
  saved : st.saved = true ∨ st.iter = 0 ∨ (st.iter = 1 ∧ st.scaling = .Dual)
  stale : st.staleReset = false

theorem budget_cont {cfg : Config α} {st st' : State α} (hi : st.iter ≤ cfg.maxIter)
    (h : ContSpec cfg st st') : budget cfg st' + 1 ≤ budget cfg st ∧ st'.iter ≤ cfg.maxIter := by
  unfold budget
  rcases h.kind with ⟨a, b, c, _⟩ | ⟨a, m, b, c, _⟩ | ⟨a, m, b, _⟩
  · rw [a, b, c]; simp; exact hi
  · rw [a, b, c]; simp; omega
  · rw [a, b]; constructor <;> (try split) <;> omega

theorem saved_of_iter {cfg : Config α} {st : State α} (hI : Inv cfg st)
    (h : st.info.status = .InsufficientProgress ∨ st.iter > 1) : st.saved = true := by
  rcases h with h | h
  · rw [hI.status] at h; cases h
  · rcases hI.saved with s | s | s
    · exact s
    · omega
    · omega

theorem inv_cont {cfg : Config α} {st st' : State α} (hI : Inv cfg st)
    (h : ContSpec cfg st st') : Inv cfg st' := by
  have hb := budget_cont hI.iter_le h
  refine ⟨hb.2, h.status, ?_, ?_, ?_⟩
  · rw [h.iterations]
    rcases h.kind with ⟨a, _⟩ | ⟨a, _⟩ | ⟨a, _⟩ <;> omega
  · rcases h.kind with ⟨a, b, c, d, e, f, g⟩ | ⟨a, m, b, c, d, e⟩ | ⟨a, m, b, c, e⟩
    · left; rw [d]; exact saved_of_iter hI g
    · rcases hI.saved with s | s | s
      · left; rw [d]; exact s
      · right; right; exact ⟨by omega, c⟩
      · rw [s.2] at b; cases b
    · left; exact c
  · rcases h.kind with ⟨a, b, c, d, e, f, g⟩ | ⟨a, m, b, c, d, e⟩ | ⟨a, m, b, c, e⟩
    · rw [e, hI.stale, saved_of_iter hI g]; rfl
    · rw [e]; exact hI.stale
    · rw [e]; exact hI.stale

/-- what holds of the state with which the loop is left -/
structure Exit (cfg : Config α) (st' : State α) : Prop where
  iter_le : st'.iter ≤ cfg.maxIter
  status : st'.info.status ≠ .Unsolved
  iterations : st'.info.iterations = st'.iter ∨ (st'.info.iterations + 1 = st'.iter ∧ st'.alpha = 0)
  stale : st'.staleReset = false

theorem exit_of_brk {cfg : Config α} {st st' : State α} (hI : Inv cfg st)
    (h : BrkSpec cfg st st') : Exit cfg st' := by
  refine ⟨?_, h.status, ?_, ?_⟩
  · have := hI.iter_le
    rcases h.kind with ⟨a, _⟩ | ⟨a, m, _⟩ <;> omega
  · rw [h.iterations]
    rcases h.kind with ⟨a, _⟩ | ⟨a, m, z⟩
    · left; omega
    · right; exact ⟨by omega, z⟩
  · rcases h.stale with e | ⟨e, g⟩
    · rw [e]; exact hI.stale
    · rw [e, hI.stale, saved_of_iter hI g]; rfl

/-- the loop ends within `budget + 1` passes, in a state satisfying `Exit` -/
theorem loop_done {cfg : Config α} : ∀ (os : List (PassOracle α)) (st : State α), Inv cfg st →
    budget cfg st < os.length →
    ∃ st', loop cfg os st = .done st' ∧ st'.passes ≤ st.passes + budget cfg st + 1
      ∧ st.passes < st'.passes ∧ Exit cfg st'
  | [], st, _, hl => by simp at hl
  | o :: os, st, hI, hl => by
    unfold loop
    cases hp : pass cfg o st with
    | brk st' =>
      have hb := pass_brk hp
      exact ⟨st', rfl, by rw [hb.passes]; omega, by rw [hb.passes]; omega, exit_of_brk hI hb⟩
    | cont st' =>
      have hc := pass_cont hp
      have hb := budget_cont hI.iter_le hc
      have hlen : budget cfg st' < os.length := by
        simp only [List.length_cons] at hl; omega
      obtain ⟨st'', h1, h2, h3, h4⟩ := loop_done os st' (inv_cont hI hc) hlen
      refine ⟨st'', h1, ?_, ?_, h4⟩
      · rw [hc.passes] at h2; omega
      · rw [hc.passes] at h3; omega
    | panic s => exact absurd hp (pass_ne_panic cfg o st s)

/-- whatever the oracle list, the loop never panics and keeps its invariants -/
theorem loop_safe {cfg : Config α} : ∀ (os : List (PassOracle α)) (st : State α), Inv cfg st →
    match loop cfg os st with
    | .done st' => Exit cfg st'
    | .exhausted st' => Inv cfg st'
    | .panic _ => False
  | [], st, hI => by unfold loop; exact hI
  | o :: os, st, hI => by
    unfold loop
    cases hp : pass cfg o st with
    | brk st' => exact exit_of_brk hI (pass_brk hp)
    | cont st' => exact loop_safe os st' (inv_cont hI (pass_cont hp))
    | panic s => exact absurd hp (pass_ne_panic cfg o st s)

theorem inv_init (cfg : Config α) (z : α) : Inv cfg (initState cfg z) :=
  ⟨Nat.zero_le _, rfl, Nat.le_refl _, Or.inr (Or.inl rfl), rfl⟩

theorem budget_init (cfg : Config α) (z : α) : budget cfg (initState cfg z) ≤ cfg.maxIter + 1 := by
  unfold budget initState
  cases cfg.allowsPD <;> simp


/-- a pass whose check settles on a status other than `InsufficientProgress` leaves the loop
with that status and without touching the iterate -/
theorem pass_done_brk {cfg : Config α} {o : PassOracle α} {st : State α}
    (h1 : (top cfg o st).info.status ≠ .Unsolved)
    (h2 : (top cfg o st).info.status ≠ .InsufficientProgress) :
    ∃ st', pass cfg o st = .brk st' ∧ st'.info.status = (top cfg o st).info.status
      ∧ st'.iter = st.iter ∧ st'.vars = st.vars ∧ st'.passes = st.passes + 1 := by
  unfold pass
  rw [if_pos h1]
  unfold passDone
  simp only
  have hcp : cpInsufficientProgress cfg (top cfg o st).info.status (top cfg o st).scaling = .NoUpdate := by
    unfold cpInsufficientProgress; rw [if_pos h2]
  rw [hcp]
  refine ⟨_, rfl, ?_, rfl, ?_, rfl⟩
  · simp only [cpInsufficientProgressStatus]; rw [if_pos h2]
  · simp only [decide_eq_false h2]; rfl

theorem exit_of_done {cfg : Config α} {z : α} {os : List (PassOracle α)} {r : Result α}
    (h : solve cfg z os = .done r) : ∃ st, Exit cfg st ∧ r = finish cfg st := by
  unfold solve at h
  have hs := loop_safe os (initState cfg z) (inv_init cfg z)
  split at h
  · rename_i st hl
    rw [hl] at hs
    cases h
    exact ⟨st, hs, rfl⟩
  · cases h
  · cases h

end Clarabel.Loop
