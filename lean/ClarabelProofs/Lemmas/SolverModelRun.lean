/-
  The loop of the whole-solver model, directly: the invariant of the loop state at the top of a
  pass, what holds when the loop is left, the pass budget `max_iter + 2` is never exhausted
  (`runLoopO`), what `finishInfo` reports.  All structural ([S]).
-/
import ClarabelProofs.Lemmas.SolverModelLoop
namespace Clarabel.Solver
open Clarabel Info
set_option linter.unusedSectionVars false
set_option linter.unusedVariables false
variable {α : Type}

theorem cti_unsolved {s1 : SolverStatus} {g r p1 p23 mx tm : Bool}
    (h : cti s1 g r p1 p23 mx tm = .unsolved) : mx = false ∧ tm = false ∧ s1 = .unsolved := by
  cases s1 <;> cases g <;> cases r <;> cases p1 <;> cases p23 <;> cases mx <;> cases tm <;>
    first | exact ⟨rfl, rfl, rfl⟩ | cases h

theorem cti_ip {s1 : SolverStatus} {g r p1 p23 mx tm : Bool}
    (h : cti s1 g r p1 p23 mx tm = .insufficientProgress) : s1 = .insufficientProgress ∨ g = true := by
  cases s1 <;> cases g <;> cases r <;> cases p1 <;> cases p23 <;> cases mx <;> cases tm <;>
    first | exact Or.inl rfl | exact Or.inr rfl | cases h

section
variable [Add α] [Sub α] [Mul α] [Div α] [Neg α] [OfNat α 0] [OfNat α 1] [OfNat α 2]
  [OfNat α 100] [OfNat α 1000] [LT α] [DecidableLT α] [LE α] [DecidableLE α] [BEq α] [FloatLike α]

/-- `check_convergence` yields one of its three verdicts or the status it was given -/
theorem checkConvergence_status_cases (i : InfoS α) (dbz dqx : α) (t : Info.Tols α) (a b c : SolverStatus) :
    (Info.checkConvergence i dbz dqx t a b c).status = a ∨ (Info.checkConvergence i dbz dqx t a b c).status = b
    ∨ (Info.checkConvergence i dbz dqx t a b c).status = c
    ∨ (Info.checkConvergence i dbz dqx t a b c).status = i.status := by
  unfold Info.checkConvergence
  split
  · exact Or.inl rfl
  · split
    · split
      · exact Or.inr (Or.inl rfl)
      · split
        · exact Or.inr (Or.inr (Or.inl rfl))
        · exact Or.inr (Or.inr (Or.inr rfl))
    · exact Or.inr (Or.inr (Or.inr rfl))

/-- a pass that `check_termination` lets through has not used up its iteration budget -/
theorem checkTermination_unsolved_maxiter {i : InfoS α} {dbz dqx : α} {s : Info.Settings α} {iter : Nat}
    {to : Bool} (h : (Info.checkTermination i dbz dqx s iter to).1.status = .unsolved) :
    s.max_iter ≠ i.iterations := by
  rw [info_checkTermination_table] at h
  have := (cti_unsolved h).1
  intro e
  rw [e] at this
  simp at this

/-- an insufficient-progress verdict of `check_termination` needs `iter > 1` (when the status
it starts from is `Unsolved`) -/
theorem checkTermination_ip_iter {i : InfoS α} {dbz dqx : α} {s : Info.Settings α} {iter : Nat}
    {to : Bool} (hi : i.status = .unsolved)
    (h : (Info.checkTermination i dbz dqx s iter to).1.status = .insufficientProgress) : 1 < iter := by
  rw [info_checkTermination_table] at h
  rcases cti_ip h with h1 | h1
  · rcases checkConvergence_status_cases i dbz dqx s.full .solved .primalInfeasible .dualInfeasible with
      h2 | h2 | h2 | h2 <;> rw [h2] at h1
    · cases h1
    · cases h1
    · cases h1
    · rw [hi] at h1; cases h1
  · simpa using h1

/-- `copy_from` returns its source (and asserts equal lengths) -/
theorem copyInto_eq {dst src v : Array α} {site : String} (h : copyInto dst src site = .ok v) :
    v = src ∧ dst.size = src.size := by
  unfold copyInto at h
  split at h
  · cases h
  · rename_i hne
    cases h
    exact ⟨rfl, by simpa using hne⟩

theorem varsCopyFrom_eq {dst src v : Residuals.Vars α} (h : varsCopyFrom dst src = .ok v) : v = src := by
  unfold varsCopyFrom at h
  obtain ⟨x, hx, h⟩ := bind_ok_inv h
  obtain ⟨s, hs, h⟩ := bind_ok_inv h
  obtain ⟨z, hz, h⟩ := bind_ok_inv h
  cases h
  rw [(copyInto_eq hx).1, (copyInto_eq hs).1, (copyInto_eq hz).1]

/-- number of passes that reached `kktsystem.update` -/
def kktUpdates (t : List (PassRec α)) : Nat := (t.filter (fun r => r.kktSuccess.isSome)).length

theorem kktUpdates_append (t : List (PassRec α)) (r : PassRec α) :
    kktUpdates (t ++ [r]) = kktUpdates t + (if r.kktSuccess.isSome then 1 else 0) := by
  unfold kktUpdates
  rw [List.filter_append, List.length_append]
  cases h : r.kktSuccess.isSome <;> simp [List.filter, h]

/-- invariant of the model's loop state at the top of a pass -/
structure LInv (st : Settings α) (L : LoopSt α) : Prop where
  iter_le : L.iter ≤ st.info.max_iter
  passes : L.traj.length = L.iter
  kkt : kktUpdates L.traj = L.iter
  status : L.S.info.status = .unsolved
  /-- `prev_vars` holds the iterate recorded by the last pass (once a step has been taken) -/
  prev : L.iter = 0 ∨ ∃ r, L.traj.getLast? = some r ∧ L.S.prevVars = r.vars

/-- what holds of the loop state with which the loop is left -/
structure LExit (st : Settings α) (Lf : LoopSt α) : Prop where
  iter_le : Lf.iter ≤ st.info.max_iter
  passes : Lf.traj.length = Lf.iter ∨ Lf.traj.length = Lf.iter + 1
  passes_pos : 1 ≤ Lf.traj.length
  kkt : kktUpdates Lf.traj = Lf.iter
  status : Lf.S.info.status ≠ .unsolved
  iterations : Lf.S.info.iterations = Lf.iter ∨ (Lf.S.info.iterations + 1 = Lf.iter ∧ Lf.alpha = 0)
  /-- after a rollback the iterate is the one recorded by the last pass but one -/
  rollback : ∀ r, Lf.traj.getLast? = some r → r.isdone = true → r.status = .insufficientProgress →
    ∃ pre r1, Lf.traj = pre ++ [r1, r] ∧ Lf.S.variables = r1.vars

theorem pass_cont_inv {st : Settings α} {L L' : LoopSt α} (hI : LInv st L)
    (hp : pass st L = .ok (true, L')) : LInv st L' := by
  cases pass_inv hp with
  | step residuals mu info1 scl k a pv htop hdone hsc hok hk hkok ha hsmall hpv =>
    obtain ⟨f1, f2, f3, f4, f5, f6, f7, f8⟩ := topNumerics_frame htop
    have hfr := (checkTermination_frame info1 residuals.dot_bz residuals.dot_qx st.info L.iter false).2
    have hun : (Info.checkTermination info1 residuals.dot_bz residuals.dot_qx st.info L.iter false).1.status
        = .unsolved := by
      rw [hfr] at hdone
      exact Decidable.byContradiction fun h => by rw [(status_bne _ _).mpr h] at hdone; cases hdone
    have hmx := checkTermination_unsolved_maxiter hun
    rw [f7] at hmx
    obtain ⟨hkS, haff⟩ := kktNumerics_frame hk
    have e1 : k.S.info = (Info.checkTermination info1 residuals.dot_bz residuals.dot_qx st.info L.iter false).1 := by
      rw [hkS]; rfl
    have e6 : k.S.variables = L.S.variables := by rw [hkS]; rfl
    unfold stepVars at hpv
    obtain ⟨pvars, hc, hpv⟩ := bind_ok_inv hpv
    obtain ⟨nv, hadd, hpv⟩ := bind_ok_inv hpv
    cases hpv
    have hpvars := varsCopyFrom_eq hc
    refine ⟨?_, ?_, ?_, ?_, ?_⟩
    · show L.iter + 1 ≤ st.info.max_iter
      have := hI.iter_le
      omega
    · show (L.traj ++ [_]).length = L.iter + 1
      rw [List.length_append, hI.passes]; rfl
    · show kktUpdates (L.traj ++ [_]) = L.iter + 1
      rw [kktUpdates_append, hI.kkt]; rfl
    · show (Info.savePrev k.S.info).status = .unsolved
      rw [e1]; exact hun
    · right
      refine ⟨_, List.getLast?_concat .., ?_⟩
      show pvars = L.S.variables
      rw [hpvars, e6]

theorem pass_brk_exit {st : Settings α} {L L' : LoopSt α} (hI : LInv st L)
    (hp : pass st L = .ok (false, L')) : LExit st L' := by
  cases pass_inv hp with
  | done residuals mu info1 htop hdone hip =>
    obtain ⟨f1, f2, f3, f4, f5, f6, f7, f8⟩ := topNumerics_frame htop
    have hfr := checkTermination_frame info1 residuals.dot_bz residuals.dot_qx st.info L.iter false
    refine ⟨hI.iter_le, ?_, ?_, ?_, ?_, ?_, ?_⟩
    · right
      show (L.traj ++ [_]).length = L.iter + 1
      rw [List.length_append, hI.passes]; rfl
    · show 1 ≤ (L.traj ++ [_]).length
      rw [List.length_append]; simp
    · show kktUpdates (L.traj ++ [_]) = L.iter
      rw [kktUpdates_append, hI.kkt]; rfl
    · rw [hfr.2, status_bne] at hdone; exact hdone
    · left
      show (Info.checkTermination info1 residuals.dot_bz residuals.dot_qx st.info L.iter false).1.iterations = L.iter
      rw [hfr.1]; exact f7
    · intro r hr _ hs
      rw [List.getLast?_concat] at hr
      cases hr
      exact absurd hs hip
  | rollback residuals mu info1 variables htop hdone hip hcopy =>
    obtain ⟨f1, f2, f3, f4, f5, f6, f7, f8⟩ := topNumerics_frame htop
    have hfr := checkTermination_frame info1 residuals.dot_bz residuals.dot_qx st.info L.iter false
    have hiter : 1 < L.iter := checkTermination_ip_iter (by rw [f8]; exact hI.status) hip
    obtain ⟨r1, hr1, hpv⟩ : ∃ r, L.traj.getLast? = some r ∧ L.S.prevVars = r.vars := by
      rcases hI.prev with h | h
      · omega
      · exact h
    obtain ⟨pre, hpre⟩ : ∃ pre, L.traj = pre ++ [r1] := by
      rcases List.eq_nil_or_concat L.traj with h | ⟨pre, x, h⟩
      · rw [h] at hr1; cases hr1
      · rw [List.concat_eq_append] at h
        rw [h, List.getLast?_concat] at hr1
        cases hr1
        exact ⟨pre, h⟩
    refine ⟨hI.iter_le, ?_, ?_, ?_, ?_, ?_, ?_⟩
    · right
      show (L.traj ++ [_]).length = L.iter + 1
      rw [List.length_append, hI.passes]; rfl
    · show 1 ≤ (L.traj ++ [_]).length
      rw [List.length_append]; simp
    · show kktUpdates (L.traj ++ [_]) = L.iter
      rw [kktUpdates_append, hI.kkt]; rfl
    · show (Info.resetToPrev _).status ≠ .unsolved
      show (Info.checkTermination info1 residuals.dot_bz residuals.dot_qx st.info L.iter false).1.status ≠ .unsolved
      rw [hip]; decide
    · left
      show (Info.checkTermination info1 residuals.dot_bz residuals.dot_qx st.info L.iter false).1.iterations = L.iter
      rw [hfr.1]; exact f7
    · intro r hr _ _
      rw [List.getLast?_concat] at hr
      cases hr
      refine ⟨pre, r1, ?_, ?_⟩
      · show L.traj ++ [_] = pre ++ [r1, _]
        rw [hpre]; simp
      · show variables = r1.vars
        rw [varsCopyFrom_eq hcopy, hpv]
  | scaleFail residuals mu info1 scl htop hdone hsc hok =>
    obtain ⟨f1, f2, f3, f4, f5, f6, f7, f8⟩ := topNumerics_frame htop
    have hfr := checkTermination_frame info1 residuals.dot_bz residuals.dot_qx st.info L.iter false
    have hun : (Info.checkTermination info1 residuals.dot_bz residuals.dot_qx st.info L.iter false).1.status
        = .unsolved := by
      rw [hfr.2] at hdone
      exact Decidable.byContradiction fun h => by rw [(status_bne _ _).mpr h] at hdone; cases hdone
    refine ⟨hI.iter_le, ?_, ?_, ?_, ?_, ?_, ?_⟩
    · right
      show (L.traj ++ [_]).length = L.iter + 1
      rw [List.length_append, hI.passes]; rfl
    · show 1 ≤ (L.traj ++ [_]).length
      rw [List.length_append]; simp
    · show kktUpdates (L.traj ++ [_]) = L.iter
      rw [kktUpdates_append, hI.kkt]; rfl
    · intro h; cases h
    · left
      show (Info.checkTermination info1 residuals.dot_bz residuals.dot_qx st.info L.iter false).1.iterations = L.iter
      rw [hfr.1]; exact f7
    · intro r hr hd _
      rw [List.getLast?_concat] at hr
      cases hr
      have hd' : (Info.checkTermination info1 residuals.dot_bz residuals.dot_qx st.info L.iter false).2 = true := hd
      rw [hdone] at hd'
      cases hd'
  | kktFail residuals mu info1 scl k htop hdone hsc hok hk hkok =>
    obtain ⟨f1, f2, f3, f4, f5, f6, f7, f8⟩ := topNumerics_frame htop
    have hfr := checkTermination_frame info1 residuals.dot_bz residuals.dot_qx st.info L.iter false
    have hun : (Info.checkTermination info1 residuals.dot_bz residuals.dot_qx st.info L.iter false).1.status
        = .unsolved := by
      rw [hfr.2] at hdone
      exact Decidable.byContradiction fun h => by rw [(status_bne _ _).mpr h] at hdone; cases hdone
    have hmx := checkTermination_unsolved_maxiter hun
    rw [f7] at hmx
    obtain ⟨hkS, haff⟩ := kktNumerics_frame hk
    have e1 : k.S.info = (Info.checkTermination info1 residuals.dot_bz residuals.dot_qx st.info L.iter false).1 := by
      rw [hkS]; rfl
    have hit : (Info.checkTermination info1 residuals.dot_bz residuals.dot_qx st.info L.iter false).1.iterations
        = L.iter := by rw [hfr.1]; exact f7
    refine ⟨?_, ?_, ?_, ?_, ?_, ?_, ?_⟩
    · show L.iter + 1 ≤ st.info.max_iter
      have := hI.iter_le
      omega
    · left
      show (L.traj ++ [_]).length = L.iter + 1
      rw [List.length_append, hI.passes]; rfl
    · show 1 ≤ (L.traj ++ [_]).length
      rw [List.length_append]; simp
    · show kktUpdates (L.traj ++ [_]) = L.iter + 1
      rw [kktUpdates_append, hI.kkt]; rfl
    · intro h; cases h
    · right
      refine ⟨?_, rfl⟩
      show k.S.info.iterations + 1 = L.iter + 1
      rw [e1, hit]
    · intro r hr hd _
      rw [List.getLast?_concat] at hr
      cases hr
      have hd' : (Info.checkTermination info1 residuals.dot_bz residuals.dot_qx st.info L.iter false).2 = true := hd
      rw [hdone] at hd'
      cases hd'
  | smallStep residuals mu info1 scl k a htop hdone hsc hok hk hkok ha hsmall =>
    obtain ⟨f1, f2, f3, f4, f5, f6, f7, f8⟩ := topNumerics_frame htop
    have hfr := checkTermination_frame info1 residuals.dot_bz residuals.dot_qx st.info L.iter false
    have hun : (Info.checkTermination info1 residuals.dot_bz residuals.dot_qx st.info L.iter false).1.status
        = .unsolved := by
      rw [hfr.2] at hdone
      exact Decidable.byContradiction fun h => by rw [(status_bne _ _).mpr h] at hdone; cases hdone
    have hmx := checkTermination_unsolved_maxiter hun
    rw [f7] at hmx
    obtain ⟨hkS, haff⟩ := kktNumerics_frame hk
    have e1 : k.S.info = (Info.checkTermination info1 residuals.dot_bz residuals.dot_qx st.info L.iter false).1 := by
      rw [hkS]; rfl
    have hit : (Info.checkTermination info1 residuals.dot_bz residuals.dot_qx st.info L.iter false).1.iterations
        = L.iter := by rw [hfr.1]; exact f7
    refine ⟨?_, ?_, ?_, ?_, ?_, ?_, ?_⟩
    · show L.iter + 1 ≤ st.info.max_iter
      have := hI.iter_le
      omega
    · left
      show (L.traj ++ [_]).length = L.iter + 1
      rw [List.length_append, hI.passes]; rfl
    · show 1 ≤ (L.traj ++ [_]).length
      rw [List.length_append]; simp
    · show kktUpdates (L.traj ++ [_]) = L.iter + 1
      rw [kktUpdates_append, hI.kkt]; rfl
    · intro h; cases h
    · right
      refine ⟨?_, rfl⟩
      show k.S.info.iterations + 1 = L.iter + 1
      rw [e1, hit]
    · intro r hr hd _
      rw [List.getLast?_concat] at hr
      cases hr
      have hd' : (Info.checkTermination info1 residuals.dot_bz residuals.dot_qx st.info L.iter false).2 = true := hd
      rw [hdone] at hd'
      cases hd'


/-- `runLoop` with the exhaustion of the pass budget made observable: `none` instead of the
`panic` of the `0` case -/
def runLoopO (st : Settings α) : Nat → LoopSt α → MErr (Option (LoopSt α))
  | 0, _ => pure none
  | fuel + 1, L => do
    let r ← pass st L
    if r.1 then runLoopO st fuel r.2 else pure (some r.2)

/-- how `runLoop` reads a result of `runLoopO` -/
def liftO : Option (LoopSt α) → MErr (LoopSt α)
  | some L => pure L
  | none => throw (.panic "model: pass budget exhausted")

theorem runLoop_eq_runLoopO (st : Settings α) : ∀ (fuel : Nat) (L : LoopSt α),
    runLoop st fuel L = runLoopO st fuel L >>= liftO
  | 0, _ => rfl
  | fuel + 1, L => by
    unfold runLoop runLoopO
    cases hp : pass st L with
    | error e => rfl
    | ok r =>
      show (if r.1 = true then runLoop st fuel r.2 else pure r.2) = (if r.1 = true then runLoopO st fuel r.2 else pure (some r.2)) >>= liftO
      split
      · exact runLoop_eq_runLoopO st fuel r.2
      · rfl

/-- `L'` is reached from `L` through passes that all fall through to the next pass -/
inductive Reach (st : Settings α) : LoopSt α → LoopSt α → Prop
  | refl (L) : Reach st L L
  | step {L L' L''} (hp : pass st L = .ok (true, L')) (h : Reach st L' L'') : Reach st L L''

theorem Reach.inv {st : Settings α} {L L' : LoopSt α} (h : Reach st L L') (hI : LInv st L) : LInv st L' := by
  induction h with
  | refl => exact hI
  | step hp _ ih => exact ih (pass_cont_inv hI hp)

/-- the loop of the model: with more fuel than remaining iterations the budget is never
exhausted; a result satisfies `LExit`; an error is the error of the numerics of some pass -/
theorem runLoopO_spec (st : Settings α) : ∀ (fuel : Nat) (L : LoopSt α), LInv st L →
    st.info.max_iter - L.iter < fuel →
    match runLoopO st fuel L with
    | .ok none => False
    | .ok (some Lf) => LExit st Lf ∧ ∃ L', Reach st L L' ∧ pass st L' = .ok (false, Lf)
    | .error e => ∃ L', Reach st L L' ∧ pass st L' = .error e
  | 0, L, _, hf => by omega
  | fuel + 1, L, hI, hf => by
    unfold runLoopO
    cases hp : pass st L with
    | error e => exact ⟨L, .refl L, hp⟩
    | ok r =>
      obtain ⟨c, L'⟩ := r
      cases c with
      | false => exact ⟨pass_brk_exit hI hp, L, .refl L, hp⟩
      | true =>
        have hI' := pass_cont_inv hI hp
        have hit : L'.iter = L.iter + 1 := by
          have h1 := hI'.passes
          have h2 := hI.passes
          cases pass_inv hp with
          | step => rfl
        have hle := hI'.iter_le
        have := runLoopO_spec st fuel L' hI' (by omega)
        show match runLoopO st fuel L' with
          | .ok none => False
          | .ok (some Lf) => LExit st Lf ∧ ∃ L'', Reach st L L'' ∧ pass st L'' = .ok (false, Lf)
          | .error e => ∃ L'', Reach st L L'' ∧ pass st L'' = .error e
        cases hr : runLoopO st fuel L' with
        | error e =>
          rw [hr] at this
          obtain ⟨L'', h1, h2⟩ := this
          exact ⟨L'', .step hp h1, h2⟩
        | ok o =>
          rw [hr] at this
          cases o with
          | none => exact this
          | some Lf =>
            obtain ⟨h0, L'', h1, h2⟩ := this
            exact ⟨h0, L'', .step hp h1, h2⟩

/-- `default_start` writes the cone scalings, the KKT system and the iterate only -/
theorem defaultStart_frame {S S' : SolverSt α} {st : Settings α} (h : S.defaultStart st = .ok S') :
    S' = { S with cones := S'.cones, kktsystem := S'.kktsystem, variables := S'.variables } := by
  unfold SolverSt.defaultStart at h
  repeat (first | (obtain ⟨_, _, h⟩ := bind_ok_inv h) | (dsimp only at h))
  cases h
  rfl

/-- the loop state `runSolve` enters its loop with -/
def initLoopSt (S : SolverSt α) : LoopSt α :=
  { S, iter := 0, sigma := 1, alpha := 0, mu := 0, traj := [] }

/-- `info.reset` -/
def resetInfo (S : SolverSt α) : SolverSt α :=
  { S with info := { S.info with status := .unsolved, iterations := 0 } }

/-- `runSolve` with the exhaustion of the pass budget made observable -/
def SolverSt.runSolveO (S : SolverSt α) (st : Settings α) : MErr (Option (LoopSt α)) := do
  let S ← (resetInfo S).defaultStart st
  runLoopO st (st.info.max_iter + 2) (initLoopSt S)

theorem runSolve_eq_runSolveO (S : SolverSt α) (st : Settings α) :
    S.runSolve st = S.runSolveO st >>= liftO := by
  unfold SolverSt.runSolve SolverSt.runSolveO
  show ((resetInfo S).defaultStart st >>= fun S' => runLoop st (st.info.max_iter + 2) (initLoopSt S')) = _
  cases (resetInfo S).defaultStart st with
  | error e => rfl
  | ok S' => exact runLoop_eq_runLoopO st _ _

theorem initLoopSt_inv {S S' : SolverSt α} {st : Settings α} (h : (resetInfo S).defaultStart st = .ok S') :
    LInv st (initLoopSt S') := by
  refine ⟨Nat.zero_le _, rfl, rfl, ?_, Or.inl rfl⟩
  show S'.info.status = .unsolved
  rw [defaultStart_frame h]
  rfl

/-- `runSolve`: the budget `max_iter + 2` handed to the loop is never exhausted, and a result
satisfies `LExit` -/
theorem runSolveO_spec (S : SolverSt α) (st : Settings α) :
    match S.runSolveO st with
    | .ok none => False
    | .ok (some Lf) => LExit st Lf
    | .error _ => True := by
  unfold SolverSt.runSolveO
  cases h : (resetInfo S).defaultStart st with
  | error e => trivial
  | ok S' =>
    have := runLoopO_spec st (st.info.max_iter + 2) (initLoopSt S') (initLoopSt_inv h)
      (by show st.info.max_iter - 0 < st.info.max_iter + 2; omega)
    show match runLoopO st (st.info.max_iter + 2) (initLoopSt S') with
      | .ok none => False
      | .ok (some Lf) => LExit st Lf
      | .error _ => True
    cases hr : runLoopO st (st.info.max_iter + 2) (initLoopSt S') with
    | error e => trivial
    | ok o =>
      rw [hr] at this
      cases o with
      | none => exact this
      | some Lf => exact this.1

theorem runSolve_exit {S : SolverSt α} {st : Settings α} {L : LoopSt α} (h : S.runSolve st = .ok L) :
    LExit st L := by
  rw [runSolve_eq_runSolveO] at h
  obtain ⟨o, ho, hl⟩ := bind_ok_inv h
  have := runSolveO_spec S st
  rw [ho] at this
  cases o with
  | none => exact this.elim
  | some Lf =>
    cases hl
    exact this

/-- `Info::post_process` keeps everything but `status`, and keeps a terminal status terminal -/
theorem postProcess_frame (i : InfoS α) (dbz dqx : α) (s : Info.Settings α) :
    Info.postProcess i dbz dqx s = { i with status := (Info.postProcess i dbz dqx s).status }
      ∧ (i.status ≠ .unsolved → (Info.postProcess i dbz dqx s).status ≠ .unsolved) := by
  unfold Info.postProcess
  split
  · refine ⟨checkConvergence_frame _ _ _ _ _ _ _, fun hi => ?_⟩
    unfold Info.checkConvergenceAlmost
    rcases checkConvergence_status_cases i dbz dqx s.reduced .almostSolved .almostPrimalInfeasible
      .almostDualInfeasible with h | h | h | h <;> rw [h]
    · decide
    · decide
    · decide
    · exact hi
  · exact ⟨rfl, id⟩

/-- what `finishInfo` reports: a terminal status and an iteration count within the budget, which
is the number of KKT updates performed (the latter needs `0 == 0` on the scalar type: the
final `save_scalars` is guarded by `α == 0`) -/
theorem finishInfo_spec {st : Settings α} {L : LoopSt α} (hE : LExit st L) :
    (finishInfo st L).info.status ≠ .unsolved
      ∧ (finishInfo st L).info.iterations ≤ st.info.max_iter
      ∧ (((0 : α) == 0) = true → (finishInfo st L).info.iterations = kktUpdates L.traj) := by
  unfold finishInfo
  dsimp only
  by_cases ha : (L.alpha == 0) = true
  · rw [if_pos ha]
    dsimp only
    refine ⟨?_, ?_, fun _ => ?_⟩
    · exact (postProcess_frame _ _ _ _).2 hE.status
    · rw [(postProcess_frame _ _ _ _).1]; exact hE.iter_le
    · rw [(postProcess_frame _ _ _ _).1]; exact hE.kkt.symm
  · rw [if_neg ha]
    refine ⟨?_, ?_, fun h0 => ?_⟩
    · exact (postProcess_frame _ _ _ _).2 hE.status
    · rw [(postProcess_frame _ _ _ _).1]
      have := hE.iter_le
      rcases hE.iterations with h | ⟨h, _⟩ <;> (show L.S.info.iterations ≤ _; omega)
    · rw [(postProcess_frame _ _ _ _).1]
      show L.S.info.iterations = _
      rcases hE.iterations with h | ⟨_, h⟩
      · rw [h, hE.kkt]
      · rw [h] at ha; exact absurd h0 ha
end
end Clarabel.Solver
