/-
  Bridge between the two executable models of the sparse kernels `_csc_axpby_N`,
  `_csc_axpby_T`, `_csc_symv`:

  * the imperative copies `Residuals.gemvN / gemvT / symv` (`ClarabelModel/Residuals.lean`,
    nested `for` loops with bounds-checked accesses) used by `Residuals.update`, and
  * the fold-style `Csc.gemvN / gemvT / symv` (`ClarabelModel/CscMath.lean`) about which C16
    proved `gemvN_spec / gemvT_spec / symv_spec`, used by `Residuals.updateK`.

  On canonical encodings and correctly sized vectors the two agree (as `MErr` values), hence
  `Residuals.update = Residuals.updateK` there.
-/
import ClarabelModel.ResidualsK
import ClarabelProofs.Lemmas.CscGemv
import ClarabelProofs.Lemmas.CscSym
import ClarabelProofs.Lemmas.CscMisc
import Mathlib.Algebra.Field.Defs
import Mathlib.Algebra.Field.Rat

namespace Clarabel.Residuals
open Clarabel Clarabel.Csc Clarabel.C16

variable {α : Type}

/-! ### generic loop lemmas -/

/-- [S] a yield-only `for` loop over a list in `MErr` is a `foldlM` -/
theorem forIn_list_eq_foldlM {σ β : Type} (l : List β) (init : σ)
    (body : β → σ → MErr (ForInStep σ)) (f : σ → β → MErr σ)
    (h : ∀ k ∈ l, ∀ s, body k s = (f s k).map ForInStep.yield) :
    forIn (m := MErr) l init body = l.foldlM f init := by
  induction l generalizing init with
  | nil => rfl
  | cons k t ih =>
    rw [List.forIn_cons, List.foldlM_cons, h k (by simp)]
    cases hf : f init k with
    | error e => rfl
    | ok s => exact ih s (fun k' hk' => h k' (List.mem_cons_of_mem _ hk'))

/-- [S] a yield-only `for k in [lo:hi]` loop in `MErr` is a `foldlM` over `List.range'` -/
theorem forIn_range_eq_foldlM {σ : Type} (lo hi : Nat) (init : σ)
    (body : Nat → σ → MErr (ForInStep σ)) (f : σ → Nat → MErr σ)
    (h : ∀ k, lo ≤ k → k < hi → ∀ s, body k s = (f s k).map ForInStep.yield) :
    forIn (m := MErr) [lo:hi] init body = (List.range' lo (hi - lo)).foldlM f init := by
  rw [Std.Legacy.Range.forIn_eq_forIn_range']
  simp only [Std.Legacy.Range.size, Nat.add_sub_cancel, Nat.div_one]
  apply forIn_list_eq_foldlM
  intro k hk
  rw [List.mem_range'_1] at hk
  exact h k hk.1 (by omega)

theorem foldlM_congr_mem {σ β : Type} (l : List β) (f g : σ → β → MErr σ)
    (h : ∀ b ∈ l, ∀ s, f s b = g s b) (init : σ) : l.foldlM f init = l.foldlM g init := by
  induction l generalizing init with
  | nil => rfl
  | cons b t ih =>
    rw [List.foldlM_cons, List.foldlM_cons, h b (by simp)]
    congr 1
    funext s
    exact ih (fun b' hb' => h b' (List.mem_cons_of_mem _ hb')) s

theorem getE_ok_getElem {β : Type} (xs : Array β) (i : Nat) (s : String) (h : i < xs.size) :
    getE xs i s = .ok xs[i] := by
  simp [getE, h]; rfl

theorem zip_extract_cons (rv : Array Nat) (nz : Array α) (lo hi : Nat) (h1 : lo < hi)
    (h2 : hi ≤ rv.size) (h3 : hi ≤ nz.size) :
    ((rv.extract lo hi).toList).zip ((nz.extract lo hi).toList) =
      (rv[lo], nz[lo]) :: ((rv.extract (lo+1) hi).toList).zip ((nz.extract (lo+1) hi).toList) := by
  simp only [Array.toList_extract, List.extract_eq_drop_take']
  rw [List.drop_eq_getElem_cons (i := lo) (l := List.take hi rv.toList) (by simp; omega),
    List.drop_eq_getElem_cons (i := lo) (l := List.take hi nz.toList) (by simp; omega)]
  simp

/-- [S] reading `rowval[k]`, `nzval[k]` for `k` in `lo..hi` is a fold over the zipped slices -/
theorem foldlM_range'_zip {σ : Type} (rv : Array Nat) (nz : Array α) (s1 s2 : String)
    (g : σ → Nat × α → MErr σ) (d : Nat) (lo hi : Nat) (init : σ) (hd : hi - lo = d)
    (h2 : hi ≤ rv.size) (h3 : hi ≤ nz.size) :
    (List.range' lo d).foldlM (fun s k => do
        let r ← getE rv k s1
        let v ← getE nz k s2
        g s (r, v)) init
      = (((rv.extract lo hi).toList).zip ((nz.extract lo hi).toList)).foldlM g init := by
  induction d generalizing lo init with
  | zero =>
    have : hi ≤ lo := by omega
    simp [this]
  | succ d ih =>
    rw [zip_extract_cons rv nz lo hi (by omega) h2 h3, List.range'_succ, List.foldlM_cons,
      List.foldlM_cons, getE_ok_getElem rv lo s1 (by omega), getE_ok_getElem nz lo s2 (by omega)]
    show (g init (rv[lo], nz[lo]) >>= _) = _
    congr 1
    funext s
    exact ih (lo + 1) s (by omega)

/-- [S] the column pointers of a canonical encoding: in range, ordered, inside the storage -/
theorem colptr_facts {A : Csc α} (hA : Canonical A) (j : Nat) (hj : j < A.n) :
    j + 1 < A.colptr.size ∧ A.colptr.getD j 0 ≤ A.colptr.getD (j + 1) 0 ∧
      A.colptr.getD (j + 1) 0 ≤ A.rowval.size ∧ A.colptr.getD (j + 1) 0 ≤ A.nzval.size := by
  have hs := hA.colptr_size
  have hmono := colptr_mono_of_canonical A hA
  have hle : ∀ d k, k + d = A.n → A.colptr.getD k 0 ≤ A.colptr.getD A.n 0 := by
    intro d
    induction d with
    | zero => intro k hk; rw [← hk]; exact Nat.le_refl _
    | succ d ih =>
      intro k hk
      exact Nat.le_trans (hmono k (by omega)) (ih (k + 1) (by omega))
  have h1 := hle (A.n - (j + 1)) (j + 1) (by omega)
  rw [hA.colptr_last] at h1
  have := hA.len_eq
  exact ⟨by omega, hmono j hj, h1, by omega⟩

/-- [S] the inner `for k in [colptr[j]:colptr[j+1]]` loop of all three kernels as a fold
over the column's entry list -/
theorem forIn_col_eq {σ : Type} {A : Csc α} (hA : Canonical A) (j : Nat) (hj : j < A.n)
    (s1 s2 : String) (init : σ) (body : Nat → σ → MErr (ForInStep σ))
    (g : σ → Nat × α → MErr σ)
    (h : ∀ k s, body k s = (do
        let r ← getE A.rowval k s1
        let v ← getE A.nzval k s2
        g s (r, v) : MErr σ).map ForInStep.yield) :
    forIn (m := MErr) [A.colptr.getD j 0 : A.colptr.getD (j + 1) 0] init body
      = (A.col j).foldlM g init := by
  obtain ⟨_, _, h2, h3⟩ := colptr_facts hA j hj
  rw [forIn_range_eq_foldlM _ _ init body _ (fun k _ _ => h k),
    foldlM_range'_zip A.rowval A.nzval s1 s2 g _ _ _ init rfl h2 h3]
  rfl

/-! ### scatter with a caller-chosen panic site -/

/-- `Csc.scatter` with the panic site as a parameter -/
def scatterS (site : String) (f : α → α → α) (y : Array α) (l : List (Nat × α)) :
    MErr (Array α) :=
  l.foldlM (fun y e => do
    let yi ← getE y e.1 site
    setE y e.1 (f yi e.2) site) y

theorem scatterS_eq_scatter (site : String) (f : α → α → α) (y : Array α) (l : List (Nat × α))
    (h : ∀ e ∈ l, e.1 < y.size) : scatterS site f y l = scatter f y l := by
  induction l generalizing y with
  | nil => rfl
  | cons e t ih =>
    have he : e.1 < y.size := h e (by simp)
    rw [scatter_cons f y e t he, ← ih _ (fun e' he' => by simpa using h e' (List.mem_cons_of_mem _ he'))]
    simp [scatterS, List.foldlM_cons, getE, setE, he]

theorem scatterS_append (site : String) (f : α → α → α) (y : Array α) (l l' : List (Nat × α)) :
    scatterS site f y (l ++ l') = scatterS site f y l >>= fun y' => scatterS site f y' l' := by
  unfold scatterS
  rw [List.foldlM_append]

/-- [S] a loop of scatters is the scatter of the concatenated term lists -/
theorem foldlM_scatterS_flatten {β : Type} (site : String) (f : α → α → α) (L : List β)
    (terms : β → List (Nat × α)) (y : Array α) :
    L.foldlM (fun y j => scatterS site f y (terms j)) y
      = scatterS site f y (L.map terms).flatten := by
  induction L generalizing y with
  | nil => rfl
  | cons j t ih =>
    rw [List.foldlM_cons, List.map_cons, List.flatten_cons, scatterS_append]
    congr 1
    funext y'
    exact ih y'

/-! ### `_csc_axpby_N` -/

section gemv
variable [CommRing α] [DecidableEq α]

theorem scaleY_eq_applyB (y : Array α) (b : α) : scaleY y b = applyB b y := by
  unfold scaleY applyB Vec.negate Vec.scale
  rfl

/-- the `a`-dispatch of `Csc.gemvN`, as data -/
def updOf (a : α) : α → α → α := if a == 1 then (fun yi t => yi + t) else if a == -1 then (fun yi t => yi - t) else (fun yi t => yi + t)
def termOf (a : α) : α → α → α := if a == 1 then (fun v xj => v * xj) else if a == -1 then (fun v xj => v * xj) else (fun v xj => a * v * xj)

theorem accum_eq (a acc v xv : α) : accum a acc v xv = updOf a acc (termOf a v xv) := by
  unfold accum updOf termOf
  split_ifs <;> rfl

theorem gemvN_loop_eq (A : Csc α) (y x : Array α) (a : α)
    (hA : Canonical A) (hx : x.size = A.n) :
    forIn (m := MErr) [:A.n] y (fun j __s =>
        have y := __s;
        do
        let xj ← getE x j "gemv: x"
        let lo ← getE A.colptr j "gemv: colptr"
        let hi ← getE A.colptr (j + 1) "gemv: colptr"
        let __s ←
          forIn [lo:hi] y fun k __s =>
              have y := __s;
              do
              let r ← getE A.rowval k "gemv: rowval"
              let v ← getE A.nzval k "gemv: nzval"
              let yr ← getE y r "gemv: y"
              let y ← setE y r (Residuals.accum a yr v xj) "gemv: y"
              pure (ForInStep.yield y)
        have y : Array α := __s
        pure (ForInStep.yield y))
      = scatterS "gemv: y" (updOf a) y (gemvTerms A x (termOf a)) := by
  rw [gemvTerms_eq A x (termOf a) 0, hx, ← foldlM_scatterS_flatten]
  rw [forIn_range_eq_foldlM 0 A.n y _ (fun y j => scatterS "gemv: y" (updOf a) y
    ((A.col j).map (fun e => (e.1, termOf a e.2 (x.getD j 0)))))]
  · simp [List.range_eq_range']
  · intro j _ hj y
    obtain ⟨hc, _, _, _⟩ := colptr_facts hA j hj
    simp only []
    rw [getE_eq_ok x j 0 _ (by omega), getE_eq_ok A.colptr j 0 _ (by omega),
      getE_eq_ok A.colptr (j+1) 0 _ (by omega)]
    show (forIn (m := MErr) (ρ := Std.Legacy.Range) [A.colptr.getD j 0 : A.colptr.getD (j + 1) 0] y _ >>= _) = _
    rw [forIn_col_eq hA j hj "gemv: rowval" "gemv: nzval" y _ (fun y e => do
      let yr ← getE y e.1 "gemv: y"
      setE y e.1 (updOf a yr (termOf a e.2 (x.getD j 0))) "gemv: y")]
    · unfold scatterS
      rw [List.foldlM_map]
      cases List.foldlM (m := MErr) _ y (A.col j) <;> rfl
    · intro k s
      simp only [accum_eq]
      rw [show Except.map (ε := ModelErr) (ForInStep.yield (α := Array α)) = Functor.map ForInStep.yield from rfl]
      simp only [map_eq_pure_bind, bind_assoc]

omit [DecidableEq α] in
theorem gemvTerms_bound (A : Csc α) (x : Array α) (g : α → α → α) (hA : Canonical A)
    (hx : x.size = A.n) : ∀ e ∈ gemvTerms A x g, e.1 < A.m := by
  intro e he
  rw [gemvTerms_eq A x g 0] at he
  simp only [List.mem_flatten, List.mem_map, List.mem_range] at he
  obtain ⟨_, ⟨j, hj, rfl⟩, he⟩ := he
  simp only [List.mem_map] at he
  obtain ⟨e', he', rfl⟩ := he
  exact (colOK_of_canonical hA j (by omega)).2 e' he'

/-- [S] `_csc_axpby_N`: the imperative model and C16's fold-style model agree on canonical
encodings with correctly sized vectors (as `MErr` values, for every `a`, `b`) -/
theorem gemvN_eq (A : Csc α) (y x : Array α) (a b : α)
    (hA : Canonical A) (hx : x.size = A.n) (hy : y.size = A.m) :
    Residuals.gemvN A y x a b = Csc.gemvN A y x a b := by
  unfold Residuals.gemvN Csc.gemvN
  simp only [scaleY_eq_applyB]
  by_cases ha0 : (a == 0) = true
  · simp only [ha0, if_true]
  · have hcs : (A.colptr.size == 0) = false := by
      have := hA.colptr_size
      rw [this]; rfl
    have hnz : (A.nzval.size != A.colptr.getD (A.colptr.size - 1) 0) = false := by
      rw [hA.colptr_size, Nat.add_sub_cancel, hA.colptr_last, hA.len_eq]; simp
    simp only [ha0, if_false, hcs, hnz, hx, bne_self_eq_false, Bool.false_eq_true,
      nzvalMatchesColptr_of_canonical hA]
    rw [gemvN_loop_eq A _ x a hA hx,
      scatterS_eq_scatter _ _ _ _ (fun e he => by
        rw [applyB_size, hy]; exact gemvTerms_bound A x _ hA hx e he)]
    unfold updOf termOf
    rw [bind_pure]
    split_ifs <;> rfl
end gemv

theorem merr_ok_bind {β γ : Type} (v : β) (f : β → MErr γ) : (Except.ok v >>= f) = f v := rfl

/-! ### `_csc_symv` -/

section symv
variable [CommRing α] [DecidableEq α]

/-- one inner-loop step of `Residuals.symv` -/
def symvStep (x : Array α) (a : α) (col : Nat) (xcol : α) (y : Array α) (e : Nat × α) :
    MErr (Array α) := do
  let yr ← getE y e.1 "symv: y"
  let y ← setE y e.1 (yr + a * e.2 * xcol) "symv: y"
  if e.1 != col then
    let xr ← getE x e.1 "symv: x"
    let yc ← getE y col "symv: y"
    setE y col (yc + a * e.2 * xr) "symv: y"
  else pure y

theorem symvStep_eq (x : Array α) (a : α) (col : Nat) (xcol : α) (y : Array α) (e : Nat × α)
    (he : e.1 < x.size) :
    symvStep x a col xcol y e
      = scatterS "symv: y" (fun yi t => yi + t) y (symvEntry a col xcol e (x.getD e.1 0)) := by
  unfold symvStep scatterS symvEntry
  rw [getE_eq_ok x e.1 0 _ he]
  by_cases h : (e.1 != col) = true
  · simp only [h, if_true, List.foldlM_cons, List.foldlM_nil]
    simp only [bind_assoc, bind_pure]
    rfl
  · simp only [h, Bool.false_eq_true, ↓reduceIte, List.foldlM_cons, List.foldlM_nil]
    simp only [bind_pure]

/-- [S] `_csc_symv`: the imperative model and C16's fold-style model agree on canonical square
encodings with correctly sized vectors (as `MErr` values, for every `a`, `b`) -/
theorem symv_eq (A : Csc α) (y x : Array α) (a b : α)
    (hA : Canonical A) (hsq : A.m = A.n) (hx : x.size = A.n) (hy : y.size = A.n) :
    Residuals.symv A y x a b = Csc.symv A y x a b := by
  unfold Residuals.symv Csc.symv
  -- the two prologues (zero fill for `b == 0`, scaling otherwise; /repo 1706c1f) are the same term
  have hpro : (if (b == 0) = true then Array.map (fun _ => (0 : α)) y
      else Array.map (fun v => v * b) y) = symvB b y := by
    unfold symvB Vec.scale; rfl
  have hsz : (symvB b y).size = A.n := by rw [symvB_size, hy]
  simp only [hpro, hx, hsz, hsq, bne_self_eq_false, Bool.false_eq_true, if_false,
    symv_mapM_eq A x a hA hsq hx]
  rw [bind_pure, List.flatten_flatten, symvTerms, List.map_map,
    ← scatterS_eq_scatter "symv: y", ← foldlM_scatterS_flatten]
  · rw [forIn_range_eq_foldlM 0 A.n _ _ (fun y j => scatterS "symv: y" (fun yi t => yi + t) y
      ((A.col j).map (fun e => symvEntry a j (x.getD j 0) e (x.getD e.1 0))).flatten)]
    · simp [List.range_eq_range', Vec.scale]
    · intro j _ hj y
      obtain ⟨hc, h1, h2, h3⟩ := colptr_facts hA j hj
      rw [getE_eq_ok x j 0 _ (by omega), getE_eq_ok A.colptr j 0 _ (by omega),
        getE_eq_ok A.colptr (j+1) 0 _ (by omega)]
      simp only [merr_ok_bind]
      have hlt : ¬ A.colptr.getD (j + 1) 0 < A.colptr.getD j 0 := by omega
      have hor : (decide (A.rowval.size < A.colptr.getD (j + 1) 0) ||
          decide (A.nzval.size < A.colptr.getD (j + 1) 0)) = false := by
        simp only [Bool.or_eq_false_iff, decide_eq_false_iff_not]; omega
      rw [if_neg hlt, hor]
      simp only [Bool.false_eq_true, ↓reduceIte]
      rw [forIn_col_eq hA j hj "symv: rowval" "symv: nzval" y _
        (symvStep x a j (x.getD j 0)),
        foldlM_congr_mem (A.col j) _ _ (fun e he s => symvStep_eq x a j (x.getD j 0) s e
          (by have := (colOK_of_canonical hA j hj).2 e he; omega)),
        foldlM_scatterS_flatten]
      · cases scatterS "symv: y" (fun yi t => yi + t) y
          (List.map (fun e => symvEntry a j (x.getD j 0) e (x.getD e.1 0)) (A.col j)).flatten <;> rfl
      · intro k s
        unfold symvStep
        rw [show Except.map (ε := ModelErr) (ForInStep.yield (α := Array α)) = Functor.map ForInStep.yield from rfl]
        simp only [map_eq_pure_bind, bind_assoc]
        refine bind_congr fun row => bind_congr fun aij => bind_congr fun yr =>
          bind_congr fun y' => ?_
        split_ifs
        · simp only [bind_assoc]
        · simp only [pure_bind]
  · intro e he
    rw [hsz]
    have := symvTerms_bound A x a hA hsq e
    rw [List.flatten_flatten, symvTerms, List.map_map] at this
    exact this he
end symv
/-! ### `_csc_axpby_T` -/

/-- the array after the first `k` slots were updated by `F` -/
def prefixMap (F : Nat → α → α) (y : Array α) (k : Nat) : Array α :=
  (y.toList.zipIdx.map (fun (p : α × Nat) => if p.2 < k then F p.2 p.1 else p.1)).toArray

theorem prefixMap_size (F : Nat → α → α) (y : Array α) (k : Nat) :
    (prefixMap F y k).size = y.size := by simp [prefixMap]

theorem prefixMap_get (F : Nat → α → α) (y : Array α) (k i : Nat) (hi : i < y.size) :
    (prefixMap F y k)[i]'(by rw [prefixMap_size]; exact hi) = if i < k then F i y[i] else y[i] := by
  simp [prefixMap]

/-- [S] `for j in 0..k { y[j] = F j y[j] }` with bounds-checked accesses -/
theorem foldlM_prefixMap (F : Nat → α → α) (y : Array α) (s1 s2 : String) (k : Nat)
    (hk : k ≤ y.size) :
    (List.range k).foldlM (fun y j => do
        let yj ← getE y j s1
        setE y j (F j yj) s2) y = .ok (prefixMap F y k) := by
  induction k with
  | zero =>
    simp [prefixMap]
    rfl
  | succ k ih =>
    rw [List.range_succ, List.foldlM_append, ih (by omega)]
    have hks : k < (prefixMap F y k).size := by rw [prefixMap_size]; omega
    simp only [merr_ok_bind, List.foldlM_cons, List.foldlM_nil]
    rw [getE_ok_getElem _ k s1 hks]
    simp only [merr_ok_bind, setE, hks, dite_true, bind_pure]
    show Except.ok _ = _
    congr 1
    apply Array.ext
    · simp [prefixMap_size]
    · intro i h1 h2
      have hi : i < y.size := by rw [prefixMap_size] at h2; exact h2
      rw [Array.getElem_set, prefixMap_get F y (k+1) i hi]
      by_cases hik : k = i
      · subst hik
        simp [prefixMap_get F y k k hi]
      · simp only [hik, if_false, prefixMap_get F y k i hi]
        by_cases h : i < k
        · have : i < k + 1 := by omega
          simp [h, this]
        · have : ¬ i < k + 1 := by omega
          simp [h, this]


section gemvT
variable [CommRing α] [DecidableEq α]

/-- the `a`-dispatch of `Csc.gemvT` -/
def updT (a : α) : α → α → α :=
  fun (acc t : α) => if a == 1 then acc + t else if a == -1 then acc - t else acc + t
def termT (a : α) : α → α → α :=
  fun (v xr : α) => if a == 1 then v * xr else if a == -1 then v * xr else a * v * xr

theorem accum_eq_T (a acc v xv : α) : accum a acc v xv = updT a acc (termT a v xv) := by
  unfold accum updT termT
  split_ifs <;> rfl

/-- the value the column loop of `_csc_axpby_T` leaves in `y[j]` -/
def colAcc (A : Csc α) (x : Array α) (a : α) (j : Nat) (y0 : α) : α :=
  (A.col j).foldl (fun acc e => updT a acc (termT a e.2 (x.getD e.1 0))) y0

theorem foldlM_ok_eq_foldl {σ β : Type} (l : List β) (f : σ → β → MErr σ) (g : σ → β → σ)
    (h : ∀ b ∈ l, ∀ s, f s b = .ok (g s b)) (init : σ) :
    l.foldlM f init = .ok (l.foldl g init) := by
  induction l generalizing init with
  | nil => rfl
  | cons b t ih =>
    rw [List.foldlM_cons, h b (by simp), merr_ok_bind, List.foldl_cons]
    exact ih (fun b' hb' => h b' (List.mem_cons_of_mem _ hb')) _

/-- [S] `_csc_axpby_T`: the imperative model and C16's fold-style model agree on canonical
encodings with correctly sized vectors (as `MErr` values, for every `a`, `b`) -/
theorem gemvT_eq (A : Csc α) (y x : Array α) (a b : α)
    (hA : Canonical A) (hx : x.size = A.m) (hy : y.size = A.n) :
    Residuals.gemvT A y x a b = Csc.gemvT A y x a b := by
  unfold Residuals.gemvT Csc.gemvT
  simp only [scaleY_eq_applyB]
  by_cases ha0 : (a == 0) = true
  · simp only [ha0, if_true]
  · have hcs : (A.colptr.size == 0) = false := by
      have := hA.colptr_size
      rw [this]; rfl
    have hnz : (A.nzval.size != A.colptr.getD (A.colptr.size - 1) 0) = false := by
      rw [hA.colptr_size, Nat.add_sub_cancel, hA.colptr_last, hA.len_eq]; simp
    have hsz : (applyB b y).size = A.n := by rw [applyB_size, hy]
    simp only [ha0, if_false, hcs, hnz, hx, bne_self_eq_false, Bool.false_eq_true,
      nzvalMatchesColptr_of_canonical hA, hsz, Nat.min_self]
    have hcolx : ∀ j, j < A.n → ∀ e ∈ A.col j, e.1 < x.size := by
      intro j hj e he
      have := (colOK_of_canonical hA j hj).2 e he; omega
    -- the fold-style side
    rw [mapM_eq_ok (applyB b y).toList.zipIdx _ (fun p => colAcc A x a p.2 p.1)]
    · -- the imperative side
      rw [forIn_range_eq_foldlM 0 A.n _ _ (fun y j => do
        let yj ← getE y j "gemv: y"
        setE y j (colAcc A x a j yj) "gemv: y")]
      · have := foldlM_prefixMap (colAcc A x a) (applyB b y) "gemv: y" "gemv: y" A.n (by omega)
        rw [List.range_eq_range'] at this
        rw [Nat.sub_zero, this]
        show Except.ok _ = Except.ok _
        congr 2
        unfold prefixMap
        congr 1
        apply List.map_congr_left
        intro p hp
        have hp2 : p.2 < A.n := by
          have := List.snd_lt_of_mem_zipIdx hp
          simpa [hsz] using this
        simp [hp2]
      · intro j _ hj y
        obtain ⟨hc, _, _, _⟩ := colptr_facts hA j hj
        rw [getE_eq_ok A.colptr j 0 _ (by omega), getE_eq_ok A.colptr (j+1) 0 _ (by omega)]
        simp only [merr_ok_bind]
        rw [show Except.map (ε := ModelErr) (ForInStep.yield (α := Array α)) = Functor.map ForInStep.yield from rfl]
        simp only [map_eq_pure_bind, bind_assoc]
        refine bind_congr fun yj => ?_
        rw [forIn_col_eq hA j hj "gemv: rowval" "gemv: nzval" yj _ (fun yj e => do
            let xr ← getE x e.1 "gemv: x"
            pure (accum a yj e.2 xr)),
          foldlM_ok_eq_foldl (A.col j) _ (fun acc e => updT a acc (termT a e.2 (x.getD e.1 0)))]
        · rfl
        · intro e he s
          rw [getE_eq_ok x e.1 0 _ (hcolx j hj e he), merr_ok_bind, accum_eq_T]
          rfl
        · intro k s
          rw [show Except.map (ε := ModelErr) (ForInStep.yield (α := α)) = Functor.map ForInStep.yield from rfl]
          simp only [map_eq_pure_bind, bind_assoc, pure_bind]
    · intro p hp
      have hp2 : p.2 < A.n := by
        have := List.snd_lt_of_mem_zipIdx hp
        simpa [hsz] using this
      rw [if_pos hp2, colDotM_eq _ x _ _ p.1 0 (hcolx p.2 hp2)]
      rfl
end gemvT
/-! ### `DefaultResiduals::update` -/

/-- [S] on canonical `P`, `A` and correctly sized vectors, `DefaultResiduals::update` modelled
with the imperative kernels equals the one modelled with C16's kernels -/
theorem update_eq_updateK [Field α] [DecidableEq α] (r : Resid α) (v : Vars α) (d : Data α)
    (hP : Canonical d.P) (hA : Canonical d.A) (hPsq : d.P.m = d.P.n)
    (hx : v.x.size = d.P.n) (hxA : v.x.size = d.A.n) (hz : v.z.size = d.A.m)
    (hs : v.s.size = d.A.m) (hPx : r.Px.size = d.P.n) (hrxi : r.rx_inf.size = d.A.n) :
    Residuals.update r v d = Residuals.updateK r v d := by
  unfold Residuals.update Residuals.updateK
  rw [symv_eq d.P r.Px v.x 1 0 hP hPsq hx hPx, gemvT_eq d.A r.rx_inf v.z (-1) 0 hA hz hrxi,
    gemvN_eq d.A v.s v.x 1 1 hA hxA hs]

/-! ### non-vacuity -/

/-- upper triangle of `[[2,1],[1,3]]` -/
def kbExP : Csc ℚ := ⟨2, 2, #[0, 1, 3], #[0, 0, 1], #[2, 1, 3]⟩
/-- the `3 × 2` matrix `[[1,0],[4,5],[0,6]]` -/
def kbExA : Csc ℚ := ⟨3, 2, #[0, 2, 4], #[0, 1, 1, 2], #[1, 4, 5, 6]⟩

theorem kbExP_canonical : Canonical kbExP := ((checkFormat_iff0 kbExP).mp (by rfl)).canon
theorem kbExA_canonical : Canonical kbExA := ((checkFormat_iff0 kbExA).mp (by rfl)).canon

example : Residuals.gemvN kbExA #[1, 1, 1] #[1, 2] 2 (-1) = Csc.gemvN kbExA #[1, 1, 1] #[1, 2] 2 (-1) :=
  gemvN_eq kbExA _ _ _ _ kbExA_canonical rfl rfl

example : Residuals.gemvT kbExA #[1, 1] #[1, 2, 3] (-1) 0 = Csc.gemvT kbExA #[1, 1] #[1, 2, 3] (-1) 0 :=
  gemvT_eq kbExA _ _ _ _ kbExA_canonical rfl rfl

example : Residuals.symv kbExP #[1, 1] #[1, 2] 1 0 = Csc.symv kbExP #[1, 1] #[1, 2] 1 0 :=
  symv_eq kbExP _ _ _ _ kbExP_canonical rfl rfl rfl

example :
    let r : Resid ℚ := ⟨#[0, 0], #[0, 0, 0], 0, #[0, 0], #[0, 0, 0], 0, 0, 0, 0, #[0, 0]⟩
    let v : Vars ℚ := ⟨#[1, 2], #[1, 1, 1], #[1, 2, 3], 1, 1⟩
    let d : Data ℚ := ⟨kbExP, #[1, 1], kbExA, #[1, 1, 1]⟩
    Residuals.update r v d = Residuals.updateK r v d :=
  update_eq_updateK _ _ _ kbExP_canonical kbExA_canonical rfl rfl rfl rfl rfl rfl rfl

end Clarabel.Residuals
