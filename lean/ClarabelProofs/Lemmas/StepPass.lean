/-
  C06, round 6 — anatomy of one ACCEPTED pass of the whole-solver model (`Solver.pass`, the
  function whose trajectories the `solve.full` channel ties bit-for-bit to the implementation),
  for zero / nonnegative / second-order cones, scalar ℝ.

  `pass_step_anatomy`: if `pass st L = .ok (true, L')` on a well-shaped state, then
    * the residuals `res` computed at the top of the pass are the dense residuals of the iterate,
    * the combined right-hand side left in `L'.S.stepRhs` is `(1 − σ)·(rx, rz, rτ)` with
      `σ = L'.sigma`,
    * the step left in `L'.S.stepLhs` is `KktSystem.solveAssemble` (C06's model of the assembly in
      `DefaultKKTSystem::solve`) applied to the linear-solver outputs stored in
      `L'.S.kktsystem.{x1,z1,x2,z2}` and the `Δs_const_term` stored in `….workConic`,
    * the new iterate is `add_step(L'.alpha)` of the old one along that step.
  The Newton-step / contraction theorems (`Props/C06.lean`) are then the existing C06 theorems about
  `solveAssemble`, with `Hs = hsMat L'.S.cones` (`StepPassHs.lean`).
-/
import ClarabelProofs.Lemmas.StepPassHs
import ClarabelProofs.Lemmas.StepPassInv
import ClarabelProofs.Lemmas.StepPassResid

namespace Clarabel.Solver
open Clarabel Clarabel.Lemmas Matrix Residuals

set_option linter.unusedVariables false

/-- the shape invariant of the state at the start of a pass (sizes only; C04's no-panic theorems
establish it along `solve()`), with `n` variables and `m` cone rows -/
structure PassShape (S : SolverSt ℝ) (n m : ℕ) : Prop where
  canP : C16.Canonical S.data.P
  canA : C16.Canonical S.data.A
  Pn : S.data.P.n = n
  Pm : S.data.P.m = n
  An : S.data.A.n = n
  Am : S.data.A.m = m
  q : S.data.q.size = n
  b : S.data.b.size = m
  vx : S.variables.x.size = n
  vs : S.variables.s.size = m
  vz : S.variables.z.size = m
  rPx : S.residuals.Px.size = n
  rrx : S.residuals.rx.size = n
  rrz : S.residuals.rz.size = m
  rrxi : S.residuals.rx_inf.size = n
  rrzi : S.residuals.rz_inf.size = m
  lx : S.stepLhs.x.size = n
  lz : S.stepLhs.z.size = m
  cones : ConesFull S.cones
  numel : numelAll S.cones = m

/-- what an accepted pass leaves behind, in dense form -/
structure PassAnatomy (st : Settings ℝ) (L L' : LoopSt ℝ) (n m : ℕ) (res : Resid ℝ) (ys : Array ℝ) :
    Prop where
  data : L'.S.data = L.S.data
  mu : L'.mu = (toFn L.S.variables.s m ⬝ᵥ toFn L.S.variables.z m + L.S.variables.τ * L.S.variables.κ)
        / ((degreeAll L.S.cones : ℝ) + 1)
  -- the residuals of the iterate
  rx_size : res.rx.size = n
  rz_size : res.rz.size = m
  rx : toFn res.rx n = -((denseA L.S.data.A m n)ᵀ *ᵥ toFn L.S.variables.z m)
        - KktSystem.symMat L.S.data.P n *ᵥ toFn L.S.variables.x n - L.S.variables.τ • toFn L.S.data.q n
  rz : toFn res.rz m = denseA L.S.data.A m n *ᵥ toFn L.S.variables.x n + toFn L.S.variables.s m
        - L.S.variables.τ • toFn L.S.data.b m
  rτ : res.rτ = toFn L.S.data.q n ⬝ᵥ toFn L.S.variables.x n + toFn L.S.data.b m ⬝ᵥ toFn L.S.variables.z m
        + L.S.variables.κ
        + (toFn L.S.variables.x n ⬝ᵥ KktSystem.symMat L.S.data.P n *ᵥ toFn L.S.variables.x n)
            / L.S.variables.τ
  -- the scaled cones
  conesFull : ConesFull L'.S.cones
  numel : numelAll L'.S.cones = m
  degree : degreeAll L'.S.cones = degreeAll L.S.cones
  -- the combined right-hand side
  rhs_x_size : L'.S.stepRhs.x.size = n
  rhs_z_size : L'.S.stepRhs.z.size = m
  rhs_x : toFn L'.S.stepRhs.x n = (1 - L'.sigma) • toFn res.rx n
  rhs_z : toFn L'.S.stepRhs.z m = (1 - L'.sigma) • toFn res.rz m
  rhs_τ : L'.S.stepRhs.τ = (1 - L'.sigma) * res.rτ
  -- the linear-solver outputs and `Δs_const_term`
  x1 : L'.S.kktsystem.x1.size = n
  z1 : L'.S.kktsystem.z1.size = m
  x2 : L'.S.kktsystem.x2.size = n
  z2 : L'.S.kktsystem.z2.size = m
  wc : L'.S.kktsystem.workConic.size = m
  ys_size : ys.size = m
  -- the step
  lhs_x : L'.S.stepLhs.x.size = n
  lhs_s : L'.S.stepLhs.s.size = m
  lhs_z : L'.S.stepLhs.z.size = m
  assemble : KktSystem.solveAssemble (KktSystem.quadForm L.S.data.P) (mulHsT L'.S.cones ys)
      L.S.data.q L.S.data.b (toStep L.S.variables) (toStep L'.S.stepRhs) L'.S.kktsystem.workConic
      L'.S.kktsystem.x1 L'.S.kktsystem.z1 L'.S.kktsystem.x2 L'.S.kktsystem.z2
    = .ok (toStep L'.S.stepLhs, L'.S.stepRhs.x,
        Vec.waxpby 1 L'.S.kktsystem.workConic (-1) L'.S.stepRhs.z)
  -- the new iterate
  step : addStep L.S.variables L'.S.stepLhs L'.alpha = .ok L'.S.variables

theorem degreeAll_of_kktSpec {cs cs' : List (ConeSt ℝ)}
    (h : cs'.map ConeSt.kktSpec = cs.map ConeSt.kktSpec) : degreeAll cs' = degreeAll cs := by
  unfold degreeAll
  congr 1
  have hd : ∀ c : ConeSt ℝ, c.degree = (match c.kktSpec with
      | .zero _ => 0 | .nonneg k => k | .soc _ => 1 | _ => 0) := by
    intro c; cases c <;> rfl
  have : cs'.map ConeSt.degree = (cs'.map ConeSt.kktSpec).map (fun sp => match sp with
      | .zero _ => 0 | .nonneg k => k | .soc _ => 1 | _ => 0) := by
    rw [List.map_map]; apply List.map_congr_left; intro c _; exact hd c
  rw [this, h, List.map_map]
  apply List.map_congr_left
  intro c _
  exact (hd c).symm

/-- **anatomy of an accepted pass** -/
theorem pass_step_anatomy {st : Settings ℝ} {L L' : LoopSt ℝ} {n m : ℕ} (hS : PassShape L.S n m)
    (hp : pass st L = .ok (true, L')) : ∃ res ys, PassAnatomy st L L' n m res ys := by
  have hcase := pass_inv hp
  cases hcase with
  | step residuals mu info1 sc k a pv htop hdone hsc hok hk hkok ha hsmall hpv =>
    -- top of the pass
    obtain ⟨_, r1, r2, r3, r4, r5, r6, r7⟩ := topNumerics_dense L.S L.iter n m residuals mu info1
      hS.canP hS.canA hS.Pn hS.Pm hS.An hS.Am hS.q hS.b hS.vx hS.vs hS.vz hS.rPx hS.rrx hS.rrz hS.rrxi
      hS.rrzi htop
    -- scaled cones
    obtain ⟨r, hr, cf, ck, cn⟩ := updateScaling_ok (cones := L.S.cones) (s := L.S.variables.s)
      (z := L.S.variables.z) hS.cones (by rw [hS.numel]; exact hS.vs) (by rw [hS.numel]; exact hS.vz)
    have hsc' : updateScaling L.S.cones L.S.variables.s L.S.variables.z = .ok sc := hsc
    rw [hr] at hsc'
    cases hsc'
    -- the KKT stage
    obtain ⟨kk1, rhsA, lhsA, kk2, aAff, rhsC, lhsA', lhsC, kk3, hupd, hrA, hsA, haA, hrC, hsC, hkS, hkaff⟩ :=
      kktNumerics_inv hk hkok
    dsimp only [topS] at hupd hrA hsA haA hrC hsC hkS
    obtain ⟨ax, az, aτ, aκ, _, _, _⟩ := affineStepRhs_inv hrA
    obtain ⟨s1, s2, s3, s4, _, _, s7, s8, s9⟩ := KktSys.solve_sizes hsA hS.vx hS.lx hS.lz
      (by rw [az]; exact r2)
    obtain ⟨c1, c2, c3, c4⟩ := combinedStepRhs_dense hrC r1 r2
    obtain ⟨_, _, cτ, _, cx, _, _, _⟩ := combinedStepRhs_inv hrC
    -- the combined solve
    obtain ⟨dsConst, hs, _, _, hwc, hx2, hz2, _, _, _, hwz1, hwz2, _, _, hx1, hx2', hz1, hz2', hhs, hlx', hlz',
      hls', hmul, _, hasm⟩ := KktSys.solve_inv hsC
    obtain ⟨_, _, _, _, _, _, _, _, _, _, _, _, _, _, _, ax2, _, az2, _⟩ := KktSys.solve_inv hsA
    have hd : dsConst.size = m := by rw [← hwz1, hwz2, c2]
    have hA'x : lhsA'.x.size = n := by rw [cx]; exact s7
    have hkk2x2 : kk2.x2.size = n := by
      have : kk2.x2 = kk1.x2 := by
        obtain ⟨_, _, _, _, _, e, _⟩ := KktSys.solve_inv hsA
        exact e
      rw [this]; exact s2
    have hkk2z2 : kk2.z2.size = m := by
      have : kk2.z2 = kk1.z2 := by
        obtain ⟨_, _, _, _, _, _, e, _⟩ := KktSys.solve_inv hsA
        exact e
      rw [this]; exact s4
    have hA'z : lhsA'.z.size = m := by rw [hz2', hkk2z2]
    have hys : lhsA'.s.size = m := by
      rw [← mulHs_size cf.ok hmul, hhs, hd]
    -- the step taken
    obtain ⟨hadd, _⟩ := stepVars_inv hpv
    rw [hkS] at hadd
    dsimp only at hadd
    have hσ : sigmaOf k L = Step.centeringParameter aAff := by
      unfold sigmaOf; rw [hkaff]
    refine ⟨residuals, lhsA'.s, ?_⟩
    rw [hkS]
    exact {
      data := rfl
      mu := r7
      rx_size := r1
      rz_size := r2
      rx := r3
      rz := r4
      rτ := r5
      conesFull := cf
      numel := cn.trans hS.numel
      degree := degreeAll_of_kktSpec ck
      rhs_x_size := c1
      rhs_z_size := c2
      rhs_x := by dsimp only; rw [hσ]; exact c3
      rhs_z := by dsimp only; rw [hσ]; exact c4
      rhs_τ := by dsimp only; rw [hσ]; exact cτ
      x1 := by dsimp only; rw [← hx1]; exact hA'x
      z1 := by dsimp only; rw [← hz1]; exact hA'z
      x2 := by dsimp only; rw [hx2]; exact hkk2x2
      z2 := by dsimp only; rw [hz2]; exact hkk2z2
      wc := by dsimp only; rw [hwc]; exact hd
      ys_size := hys
      lhs_x := by dsimp only; rw [hlx']; exact hA'x
      lhs_s := by dsimp only; rw [hls']; exact hd
      lhs_z := by dsimp only; rw [hlz']; exact hA'z
      assemble := by
        dsimp only
        rw [hwc, hx2, hz2]
        exact hasm
      step := hadd }

end Clarabel.Solver
