/-
  Clique-graph merge strategy (`ClarabelModel/Chordal/MergeCG.lean`, Rust
  `src/solver/chordal/merge/clique_graph.rs`): A CANDIDATE RETURNED BY `traverse` IS PERMISSIBLE
  (`TraversePermSpec` of `ChordalCGExactDefs.lean`).

  1. `ispermissible_sound` : `ispermissible (c1, c2) = .ok true` forces every iteration of its loop to
     pass: for every common neighbour `n` of `c1`, `c2` in the adjacency table the two intersections
     `snode[c1] ∩ snode[n]`, `snode[c2] ∩ snode[n]` are equal (as arrays, hence as sets:
     `ispermissible_sound_mem`);
  2. `traverse_some_ispermissible` : whenever `traverse` returns `some edge`, the test
     `ispermissible edge s.adjacencyTable t.snode` was evaluated to `.ok true` (with the adjacency
     table and the cliques of the state `traverse` was called on; no hypotheses);
  3. `traverse_permissible : TraversePermSpec` : under the loop invariant `CGInv` the adjacency table
     holds exactly the neighbours in the edge matrix, so the returned candidate is permissible at
     set level (`CGPermissible`).
  All theorems here are class [S].
-/
import ClarabelProofs.Lemmas.ChordalCGTraverse
import ClarabelProofs.Lemmas.ChordalCGExactDefs

namespace Clarabel.Chordal
open Clarabel

/-! ## `ispermissible` returned `true`: every iteration passed -/

/-- [S] `inter` is intersection (as `VSet.mem_inter` of `ChordalSplit.lean`) -/
theorem TravPerm.mem_inter (a b : VSet) (v : Nat) :
    v ∈ (a.inter b).toList ↔ v ∈ a.toList ∧ v ∈ b.toList := by
  simp [VSet.inter]

/-- [S] a loop in `MErr` that ended without panic: a property of the state that every successful
pass of the body re-establishes (whatever the state before) holds at the end, provided it held at
the start -/
theorem TravPerm.forIn_list_post {α β : Type} (P : β → Prop) (f : α → β → MErr (ForInStep β)) :
    ∀ (l : List α), (∀ x ∈ l, ∀ b r, f x b = .ok r → P r.value) →
      ∀ b r, P b → forIn l b f = .ok r → P r := by
  intro l
  induction l with
  | nil =>
    intro _ b r hb hr
    have : b = r := by simpa [pure, Except.pure] using hr
    exact this ▸ hb
  | cons a l ih =>
    intro hl b r hb hr
    rw [List.forIn_cons] at hr
    cases hfa : f a b with
    | error e => rw [hfa] at hr; simp [bind, Except.bind] at hr
    | ok st =>
      rw [hfa] at hr
      have hP := hl a (by simp) b st hfa
      cases st with
      | done b' =>
        have : b' = r := by simpa [bind, Except.bind, pure, Except.pure] using hr
        exact this ▸ hP
      | yield b' =>
        exact ih (fun x hx => hl x (by simp [hx])) b' r hP (by simpa [bind, Except.bind] using hr)

/-- [S] the loop of `ispermissible` ended without panic and without the verdict `false`: every
neighbour in the list passed the test (the two intersections are equal arrays) -/
theorem TravPerm.forIn_ispermStep {snode : Array VSet} {c1 c2 : Nat}
    (hc1 : c1 < snode.size) (hc2 : c2 < snode.size) :
    ∀ (l : List Nat), (∀ x ∈ l, x < snode.size) → ∀ (b r : Option Bool × Unit),
      forIn l b (ispermStep snode c1 c2) = .ok r → r.1 ≠ some false →
      ∀ n ∈ l, (snode.getD c1 #[]).inter (snode.getD n #[]) =
        (snode.getD c2 #[]).inter (snode.getD n #[]) := by
  intro l
  induction l with
  | nil => intro _ _ _ _ _ n hn; simp at hn
  | cons a l ih =>
    intro hl b r hr hne n hn
    rw [List.forIn_cons] at hr
    simp only [ispermStep, Kr.getE_ok snode c1 _ #[] hc1, Kr.getE_ok snode c2 _ #[] hc2,
      Kr.getE_ok snode a _ #[] (hl a (by simp)), bind, Except.bind, pure, Except.pure] at hr
    by_cases hx : ((snode.getD c1 #[]).inter (snode.getD a #[]) !=
        (snode.getD c2 #[]).inter (snode.getD a #[])) = true
    · rw [if_pos hx] at hr
      simp only [Except.ok.injEq] at hr
      exact absurd (by rw [← hr]) hne
    · rw [if_neg hx] at hr
      rcases List.mem_cons.mp hn with e | hn'
      · rw [e]
        simpa using hx
      · exact ih (fun x hx => hl x (by simp [hx])) _ r hr hne n hn'

/-- [S] **ispermissible_sound**: if `ispermissible (c1, c2)` returned `true` then for every common
neighbour `n` of `c1` and `c2` in the adjacency table the intersections `snode[c1] ∩ snode[n]` and
`snode[c2] ∩ snode[n]` are equal (as arrays) -/
theorem ispermissible_sound {tb : HMap VSet} {snode : Array VSet} {c1 c2 : Nat} {a1 a2 : VSet}
    (h : ispermissible (c1, c2) tb snode = .ok true)
    (h1 : tb.get? c1 = some a1) (h2 : tb.get? c2 = some a2)
    (hc1 : c1 < snode.size) (hc2 : c2 < snode.size)
    (hn : ∀ n ∈ a1.toList, n ∈ a2.toList → n < snode.size) :
    ∀ n, n ∈ a1.toList → n ∈ a2.toList →
      (snode.getD c1 #[]).inter (snode.getD n #[]) = (snode.getD c2 #[]).inter (snode.getD n #[]) := by
  intro n hn1 hn2
  rw [ispermissible_eq] at h
  have hp1 : tb.getP c1 "ispermissible" = .ok a1 := by unfold HMap.getP; rw [h1]; rfl
  have hp2 : tb.getP c2 "ispermissible" = .ok a2 := by unfold HMap.getP; rw [h2]; rfl
  rw [hp1, hp2] at h
  simp only [bind, Except.bind] at h
  cases hf : forIn (a1.inter a2).toList ((none : Option Bool), ()) (ispermStep snode c1 c2) with
  | error e => rw [hf] at h; simp at h
  | ok r =>
    rw [hf] at h
    have hne : r.1 ≠ some false := by
      intro e
      rcases r with ⟨r1, u⟩
      simp only at e
      subst e
      simp [pure, Except.pure] at h
    refine TravPerm.forIn_ispermStep hc1 hc2 (a1.inter a2).toList ?_ _ r hf hne n
      ((TravPerm.mem_inter a1 a2 n).mpr ⟨hn1, hn2⟩)
    intro x hx
    obtain ⟨hx1, hx2⟩ := (TravPerm.mem_inter a1 a2 x).mp hx
    exact hn x hx1 hx2

/-- [S] `ispermissible_sound` at set level: every common neighbour meets the two cliques in the same
set -/
theorem ispermissible_sound_mem {tb : HMap VSet} {snode : Array VSet} {c1 c2 : Nat} {a1 a2 : VSet}
    (h : ispermissible (c1, c2) tb snode = .ok true)
    (h1 : tb.get? c1 = some a1) (h2 : tb.get? c2 = some a2)
    (hc1 : c1 < snode.size) (hc2 : c2 < snode.size)
    (hn : ∀ n ∈ a1.toList, n ∈ a2.toList → n < snode.size) :
    ∀ n, n ∈ a1.toList → n ∈ a2.toList → ∀ v,
      (v ∈ (snode.getD c1 #[]).toList ∧ v ∈ (snode.getD n #[]).toList) ↔
      (v ∈ (snode.getD c2 #[]).toList ∧ v ∈ (snode.getD n #[]).toList) := by
  intro n hn1 hn2 v
  have := ispermissible_sound h h1 h2 hc1 hc2 hn n hn1 hn2
  rw [← TravPerm.mem_inter, ← TravPerm.mem_inter, this]

/-! ## `traverse` returned a candidate: `ispermissible` said `true` -/

/-- [S] **traverse_some_ispermissible**: whenever `traverse` returns a candidate, the test
`ispermissible` on that candidate — with the adjacency table of the strategy and the cliques of the
tree `traverse` was called on — was evaluated to `true` (no hypotheses) -/
theorem traverse_some_ispermissible (s s' : CGStrategy) (t : SuperNodeTree) (e : Nat × Nat)
    (h : s.traverse t = .ok (s', some e)) :
    ispermissible e s.adjacencyTable t.snode = .ok true := by
  rw [traverse_eq_forIn] at h
  cases hm : maxElem s.edges with
  | error x => rw [hm] at h; simp [bind, Except.bind] at h
  | ok edge =>
    rw [hm] at h
    simp only [bind, Except.bind] at h
    cases hb : ispermissible edge s.adjacencyTable t.snode with
    | error x => rw [hb] at h; simp at h
    | ok b =>
      rw [hb] at h
      simp only at h
      by_cases hbt : b = true
      · rw [if_pos hbt] at h
        simp only [pure, Except.pure, Except.ok.injEq, Prod.mk.injEq, Option.some.injEq] at h
        rw [← h.2, hb, hbt]
      · rw [if_neg hbt] at h
        by_cases hnz : s.edges.nzval.size > s.p.size
        · rw [if_pos hnz] at h; simp [throw, throwThe, MonadExceptOf.throw] at h
        · rw [if_neg hnz] at h
          generalize hp : sortpermRev s.edges.nzval ++ s.p.extract s.edges.nzval.size s.p.size = p
            at h
          cases hf : forIn (List.range' 1 (s.edges.nzval.size - 1))
              ((none : Option (CGStrategy × Option (Nat × Nat))), ())
              (travStep { s with p := p } t p) with
          | error x => rw [hf] at h; simp at h
          | ok st =>
            rw [hf] at h
            simp only at h
            have hP := TravPerm.forIn_list_post
              (fun st : Option (CGStrategy × Option (Nat × Nat)) × Unit =>
                ∀ res e, st.1 = some res → res.2 = some e →
                  ispermissible e s.adjacencyTable t.snode = .ok true)
              (travStep { s with p := p } t p) (List.range' 1 (s.edges.nzval.size - 1)) (by
                intro k _ b0 r hr res e' hres he'
                unfold travStep at hr
                cases hg : getE p k "traverse" with
                | error x => rw [hg] at hr; simp [bind, Except.bind] at hr
                | ok pk =>
                  rw [hg] at hr
                  simp only [bind, Except.bind] at hr
                  cases hed : edgeFromIndex s.edges pk with
                  | error x => rw [hed] at hr; simp at hr
                  | ok ed =>
                    rw [hed] at hr
                    simp only at hr
                    cases hi : ispermissible ed s.adjacencyTable t.snode with
                    | error x => rw [hi] at hr; simp at hr
                    | ok bb =>
                      rw [hi] at hr
                      simp only at hr
                      by_cases hbb : bb = true
                      · rw [if_pos hbb] at hr
                        simp only [pure, Except.pure, Except.ok.injEq] at hr
                        rw [← hr] at hres
                        simp only [ForInStep.value, Option.some.injEq] at hres
                        rw [← hres] at he'
                        simp only [Option.some.injEq] at he'
                        rw [← he', hi, hbb]
                      · rw [if_neg hbb] at hr
                        simp only [pure, Except.pure, Except.ok.injEq] at hr
                        rw [← hr] at hres
                        simp [ForInStep.value] at hres)
              (none, ()) st (by intro res e' hres; simp at hres) hf
            rcases st with ⟨_ | res, _⟩
            · simp [pure, Except.pure] at h
            · simp only [pure, Except.pure, Except.ok.injEq] at h
              exact hP res e rfl (by rw [h])

/-! ## the candidate is permissible at set level -/

/-- [S] **traverse_permissible**: under the loop invariant with at least two live cliques a
candidate `(r, c)` returned by `traverse` is permissible: every live clique `n` adjacent to both `r`
and `c` in the edge matrix meets the cliques `r` and `c` in the same set -/
theorem traverse_permissible : TraversePermSpec := by
  intro N nv s t hinv h2 s' r c hrun
  have hperm := traverse_some_ispermissible s s' t (r, c) hrun
  -- the candidate is a stored entry, hence both end points are live
  obtain ⟨p', cand?, heq, _, hstored⟩ := traverse_spec N nv s t hinv h2
  rw [hrun] at heq
  simp only [Except.ok.injEq, Prod.mk.injEq] at heq
  have hst := hstored r c heq.2.symm
  obtain ⟨hr, hc⟩ := hinv.edge_live r c hst
  obtain ⟨a1, hg1, _⟩ := Trav.getP_of_containsKey ((hinv.adj_key r).mpr hr) "ispermissible"
  obtain ⟨a2, hg2, _⟩ := Trav.getP_of_containsKey ((hinv.adj_key c).mpr hc) "ispermissible"
  have hn1 : s.adjacencyTable.nbrs r = a1 := by unfold HMap.nbrs; rw [hg1]; rfl
  have hn2 : s.adjacencyTable.nbrs c = a2 := by unfold HMap.nbrs; rw [hg2]; rfl
  -- the neighbours of `r` in the table are live, hence stored
  have hlt : ∀ n ∈ a1.toList, n ∈ a2.toList → n < t.snode.size := by
    intro n hn _
    rw [← hn1] at hn
    obtain ⟨hadj, _⟩ := (hinv.adj_iff r n hr).mp hn
    obtain ⟨h1, h2'⟩ := hinv.edge_live _ _ hadj
    rcases Nat.le_total r n with hle | hle
    · rw [Nat.max_eq_right hle] at h1; exact h1.1
    · rw [Nat.min_eq_right hle] at h2'; exact h2'.1
  intro n _ hnr hnc hadjr hadjc v
  have hm1 : n ∈ a1.toList := by
    rw [← hn1]; exact (hinv.adj_iff r n hr).mpr ⟨hadjr, fun e => hnr e.symm⟩
  have hm2 : n ∈ a2.toList := by
    rw [← hn2]; exact (hinv.adj_iff c n hc).mpr ⟨hadjc, fun e => hnc e.symm⟩
  have := ispermissible_sound_mem hperm hg1 hg2 hr.1 hc.1 hlt n hm1 hm2 v
  rw [cgCl_iff, cgCl_iff, cgCl_iff]
  exact this

/-! ## non-vacuity -/

/-- the three cliques `{0,1}`, `{0,2}`, `{0,3}` with the complete clique graph on them: the
candidate `(1, 0)` passes `ispermissible` (its only common neighbour `2` meets both in `{0}`) -/
example : ispermissible (1, 0)
    ⟨#[some #[1, 2], some #[0, 2], some #[0, 1]]⟩ #[#[0, 1], #[0, 2], #[0, 3]] = .ok true := by
  rw [ispermissible_eq]
  simp [HMap.getP, HMap.get?, VSet.inter, ispermStep, getE, bind, Except.bind, pure, Except.pure]

/-- `ispermissible_sound` applies to that instance and yields equal intersections for the common
neighbour `2` -/
example : VSet.inter #[0, 2] #[0, 3] = VSet.inter #[0, 1] #[0, 3] :=
  ispermissible_sound (tb := ⟨#[some #[1, 2], some #[0, 2], some #[0, 1]]⟩)
    (snode := #[#[0, 1], #[0, 2], #[0, 3]]) (c1 := 1) (c2 := 0) (a1 := #[0, 2]) (a2 := #[1, 2])
    (by
      rw [ispermissible_eq]
      simp [HMap.getP, HMap.get?, VSet.inter, ispermStep, getE, bind, Except.bind, pure,
        Except.pure])
    rfl rfl (by decide) (by decide) (by decide) 2 (by decide) (by decide)

/-- a candidate that is NOT permissible is rejected: cliques `{0,1}`, `{1,2}`, `{0,2,3}` (pairwise
adjacent), candidate `(1, 0)`: the common neighbour `2` meets clique 1 in `{2}` and clique 0 in
`{0}` -/
example : ispermissible (1, 0)
    ⟨#[some #[1, 2], some #[0, 2], some #[0, 1]]⟩ #[#[0, 1], #[1, 2], #[0, 2, 3]] = .ok false := by
  rw [ispermissible_eq]
  simp [HMap.getP, HMap.get?, VSet.inter, ispermStep, getE, bind, Except.bind, pure, Except.pure]

end Clarabel.Chordal
