/-
  Solving twice (C05), the relational part — from the structural facts (`SameShape`, `WellSized`) and
  the two `0 · stale` side conditions to `Stale`; the concrete linear solver (`qdldl_kktSim`).
-/
import ClarabelProofs.Lemmas.SolverStaleSolve
import ClarabelProofs.Lemmas.SolverStaleQdldl
import ClarabelProofs.Lemmas.SolverStaleFrame
import ClarabelProofs.Lemmas.SolverStaleWorkx
import ClarabelProofs.Lemmas.SolverNormCaches

namespace Clarabel.Solver
open Clarabel Info Residuals

set_option linter.unusedSectionVars false
set_option linter.unusedVariables false

variable {α : Type}

theorem SameFrom.of_le {n : Nat} {a a' : Array α} (h : a.size = a'.size) (hn : a.size ≤ n) : SameFrom n a a' := by
  refine ⟨h, ?_⟩
  rw [Array.extract_eq_empty_of_le (by omega), Array.extract_eq_empty_of_le (by omega)]

section
variable [Mul α] [OfNat α 0]

/-- in a ring `0 · y` does not depend on `y` -/
theorem zmulL_of_size (h0 : ∀ a : α, 0 * a = 0) {y y' : Array α} (h : y.size = y'.size) : zmulL y = zmulL y' := by
  unfold zmulL
  simp only [h0]
  exact map_const_congr (0 : α) h

theorem zmulR_of_size (h0 : ∀ a : α, a * 0 = 0) {y y' : Array α} (h : y.size = y'.size) : zmulR y = zmulR y' := by
  unfold zmulR
  simp only [h0]
  exact map_const_congr (0 : α) h

end

section
variable [Add α] [Sub α] [Mul α] [Div α] [Neg α] [OfNat α 0] [OfNat α 1] [OfNat α 2]
  [OfNat α 100] [OfNat α 1000] [LT α] [DecidableLT α] [LE α] [DecidableLE α] [BEq α] [FloatLike α]

/-- `Stale` from its structural part and the relation of the two linear solver objects (since /repo
1706c1f there is no `0 · stale` side condition left) -/
theorem Stale.of_sameShape {Bw : KktSolver α → KktSolver α → Prop} {S S' : SolverSt α} (h : SameShape S S')
    (hw : WellSized S) (hq : WorkxSized S) (hB : Bw S.kktsystem.kktsolver S'.kktsystem.kktsolver) : Stale Bw S S' :=
  { data := h.data
    variables := h.variables
    residuals := ⟨h.rx, h.rz, h.rx_inf, h.rz_inf, h.Px⟩
    kktsystem := ⟨hB, h.x1, h.z1, h.x2, h.z2, SameFrom.of_le h.workx hq, h.workz,
      SameFrom.of_le h.workConic hw.workConic⟩
    cones := h.cones
    stepLhs := ⟨h.stepLhs.x, SameFrom.of_le h.stepLhs.s hw.stepLhs, h.stepLhs.z⟩
    stepRhs := ⟨h.stepRhs.x, SameFrom.of_le h.stepRhs.s hw.stepRhs, h.stepRhs.z⟩
    prevVars := h.prevVars }

theorem solve_workxSized {S : Solver α} {st : Settings α} {r : SolveResult α} (h : S.solve st = .ok r)
    (hc : ConesOk S.st.cones) (hq : WorkxSized S.st) : WorkxSized r.S.st := by
  have hsh := solve_sameShape h hc
  obtain ⟨_, _, _, _, e⟩ := solve_data_eq h
  unfold WorkxSized at hq ⊢
  rw [e]
  have w : S.st.kktsystem.workx.size = r.S.st.kktsystem.workx.size := hsh.workx
  show r.S.st.kktsystem.workx.size ≤ S.st.data.q.size
  omega

/-- a solver state is `Stale`-related to the same state with another linear-solver object -/
theorem Stale.swapSolver {Bw : KktSolver α → KktSolver α → Prop} (S : SolverSt α) (K' : KktSolver α)
    (hB : Bw S.kktsystem.kktsolver K') :
    Stale Bw S { S with kktsystem := { S.kktsystem with kktsolver := K' } } :=
  { data := rfl
    variables := VarsShape.of_eq rfl
    residuals := ResidShape.of_eq rfl
    kktsystem := ⟨hB, rfl, rfl, rfl, rfl, SameFrom.rfl' _ _, rfl, SameFrom.rfl' _ _⟩
    cones := ConesShape.rfl' _
    stepLhs := StepShape.of_eq rfl
    stepRhs := StepShape.of_eq rfl
    prevVars := VarsShape.of_eq rfl }

theorem SolShape.rfl' (k : Option Nat) (sol : Unscale.Solution α) : SolShape k sol sol :=
  ⟨rfl, rfl, rfl, fun _ _ _ _ => rfl, fun _ _ _ _ => rfl⟩

/-- a `solution` object whose `s, z` are not longer than the presolver's row map (always the case
in a solver object built by `DefaultSolver::new`: both have the user's `m` entries) has no entries
that `reverse_presolve` leaves alone -/
theorem SolShape.of_sizes {k : Option Nat} {sol sol' : Unscale.Solution α} (hx : sol.x.size = sol'.x.size)
    (hs : sol.s.size = sol'.s.size) (hz : sol.z.size = sol'.z.size)
    (hk : ∀ n, k = some n → sol.s.size ≤ n ∧ sol.z.size ≤ n) : SolShape k sol sol' := by
  refine ⟨hx, hs, hz, ?_, ?_⟩
  · intro n hn i hi
    have := (hk n hn).1
    rw [Array.getElem?_eq_none (by omega), Array.getElem?_eq_none (by omega)]
  · intro n hn i hi
    have := (hk n hn).2
    rw [Array.getElem?_eq_none (by omega), Array.getElem?_eq_none (by omega)]

/-- **the second of two `solve()` calls on one solver object** gives the observable result of the
first, provided (iii) `solve_initial_point` succeeds and (iv) `KKTSolver::update` forgets (`QW`) -/
theorem solve_twice_obs (hbeq : ((0 : α) == 0) = true) (st : Settings α) {S : Solver α} {r1 : SolveResult α}
    (h1 : S.solve st = .ok r1) (hc : ConesOk S.st.cones) (hw : WellSized S.st) (hq : WorkxSized S.st)
    (hsz : ∀ n, (presolveMap S.st.data).map (fun m => m.keep.size) = some n →
      S.solution.s.size ≤ n ∧ S.solution.z.size ≤ n)
    (hK : QW S.st.kktsystem.kktsolver r1.S.st.kktsystem.kktsolver)
    (hinit : InitPointOk (resetInfo S.st) st) :
    ∃ r2, r1.S.solve st = .ok r2 ∧ SolveObs r1 r2 := by
  have hsh := solve_sameShape h1 hc
  obtain ⟨s1, s2, s3⟩ := solve_solution_shape h1
  have hsol : SolShape ((presolveMap S.st.data).map (fun m => m.keep.size)) S.solution r1.S.solution :=
    SolShape.of_sizes s1.symm s3.symm s2.symm hsz
  -- the second solve is the solve of the returned object with the data at entry put back: the
  -- caches the first solve filled answer `get_normq` / `get_normb` as those at entry (`solve_putBack`)
  have hrel := solve_rel hbeq qdldl_kktSim st (S' := r1.S.withData S.st.data)
    (Stale.of_sameShape hsh hw hq hK) hsol (Or.inl hinit)
  rw [← solve_putBack h1 st] at hrel
  exact hrel.ok_left h1

end

end Clarabel.Solver
