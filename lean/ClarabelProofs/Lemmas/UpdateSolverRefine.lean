/-
  C08 — the whole-solver update model (`ClarabelModel/SolverUpdate.lean`:
  `Solver.updateP / updateQ / updateA / updateB / updateData` on the solver object) REFINES the C08
  state model (`ClarabelModel/Update.lean`: `Update.updateP / … / updateData` on `Update.State`)
  through the projection `Solver.view = Update.State.ofSolver data kktsolver false`.

  * (E1) `updateValuesKKT_exact`, (E2) `qdldl_updateValues_exact`, `kktSolver_updateValues_exact`:
    when the monadic value copies succeed they are the pure copies (`setIfInBounds` folds) of the
    state model; (E3) `updGuard_exact`, `updGuard_ok_or_panic`.
  * `update*_refines`: `S.updateX arg = .ok (S', r) → Update.updateX S.view arg = (S'.view, r)`.
  * `update*_frame` (`UFrame S S'`): of the solver object only `data` and the linear-solver object
    change, and of the latter only `KKT.nzval` and `ldl.triuA.nzval`; `updateQ_kkt / updateB_kkt`.
  * `update*_spec`: both, plus what is kept (`UKeep`: the guard `dataWf`, four value-array lengths).
  * totality (`UReady S`: `dataWf` + in-range maps): `update*_total`, `updateData_total` (no panic,
    and `UReady` holds again afterwards).
  All statements are class [S]: no arithmetic law of the scalar type is used (no `LE α` either).
-/
import ClarabelModel.SolverUpdate
import ClarabelProofs.Lemmas.UpdateQdldlValues

set_option linter.unusedSectionVars false
set_option linter.unusedVariables false
set_option linter.dupNamespace false

namespace Clarabel.Solver
open Clarabel Clarabel.Qdldl
open Clarabel.Lemmas.KktSorted (bind_eq_ok)

variable {α : Type}

/-- the C08 state of a solver object -/
def Solver.view (S : Solver α) : Update.State α :=
  Update.State.ofSolver S.st.data S.st.kktsystem.kktsolver false

/-! ### (E1) `_update_values_KKT` -/

theorem setE_exact {β : Type} {a a' : Array β} {i : Nat} {v : β} {site : String}
    (h : setE a i v site = .ok a') : a' = a.setIfInBounds i v ∧ i < a.size := by
  unfold setE at h
  by_cases hi : i < a.size
  · simp only [hi, dif_pos] at h
    cases h
    exact ⟨by simp [Array.setIfInBounds, hi], hi⟩
  · simp only [hi, dif_neg, not_false_eq_true] at h
    cases h

theorem foldlM_setE_exact (site : String) : ∀ (l : List (Nat × α)) (a a' : Array α),
    l.foldlM (fun (a : Array α) p => setE a p.1 p.2 site) a = .ok a' →
      a' = l.foldl (fun a p => a.setIfInBounds p.1 p.2) a
  | [], a, a', h => by cases h; rfl
  | p :: l, a, a', h => by
    rw [List.foldlM_cons] at h
    obtain ⟨a1, h1, h2⟩ := bind_eq_ok h
    rw [List.foldl_cons, ← (setE_exact h1).1]
    exact foldlM_setE_exact site l a1 a' h2

/-- (E1) a successful `_update_values_KKT` is the pure copy of the C08 state model -/
theorem updateValuesKKT_exact {nz nz' : Array α} {idx : Array Nat} {vals : Array α}
    (h : Kkt.updateValuesKKT nz idx vals = .ok nz') : nz' = Update.updateValuesKKT nz idx vals :=
  foldlM_setE_exact _ _ _ _ h

/-! ### (E2) `QDLDLFactorisation::update_values` -/

/-- a loop over `0..|ps|` whose body only looks at `ps[i]` is the loop over `ps` -/
theorem foldlM_range_eq_list {σ β : Type} : ∀ (ps : List β) (f : σ → Nat → MErr σ) (g : σ → β → MErr σ),
    (∀ s i (h : i < ps.length), f s i = g s ps[i]) →
      ∀ s, (List.range ps.length).foldlM f s = ps.foldlM g s
  | [], f, g, _, s => rfl
  | p :: ps, f, g, hfg, s => by
    have h0 : f s 0 = g s p := hfg s 0 (by simp)
    rw [List.length_cons, List.range_succ_eq_map, List.foldlM_cons, List.foldlM_cons, h0]
    simp only [List.foldlM_map]
    refine congrArg _ (funext fun s1 => ?_)
    exact foldlM_range_eq_list ps (fun s i => f s (i + 1)) g
      (fun s i h => by
        have := hfg s (i + 1) (by rw [List.length_cons]; omega)
        rw [List.getElem_cons_succ] at this
        exact this) s1

section ops
variable [Add α] [Sub α] [Mul α] [Div α] [Neg α] [OfNat α 0] [OfNat α 1] [LT α] [DecidableLT α]
  [BEq α] [FloatLike α]

/-- the body of `update_values` on one `(index, value)` pair -/
def pairStep (F : Factorisation α) (p : Nat × α) : MErr (Factorisation α) := do
  let k ← getE F.AtoPAPt p.1 "update_values: AtoPAPt[idx]"
  let nz ← setE F.triuA.nzval k p.2 "update_values: nzval[AtoPAPt[idx]]"
  pure { F with triuA := { F.triuA with nzval := nz } }

theorem pairStep_exact {F G : Factorisation α} {p : Nat × α} (h : pairStep F p = .ok G) :
    G = { F with triuA := { F.triuA with nzval := F.triuA.nzval.setIfInBounds (F.AtoPAPt.getD p.1 0) p.2 } } := by
  unfold pairStep at h
  obtain ⟨k, hk, h⟩ := bind_eq_ok h
  obtain ⟨nz, hnz, h⟩ := bind_eq_ok h
  cases h
  have hk' := getE_ok_iff.mp hk
  have : F.AtoPAPt.getD p.1 0 = k := by simp [Array.getD_eq_getD_getElem?, hk']
  rw [this, (setE_exact hnz).1]

theorem foldlM_pairStep_exact : ∀ (ps : List (Nat × α)) (F G : Factorisation α),
    ps.foldlM pairStep F = .ok G →
      G = { F with triuA := { F.triuA with
              nzval := ps.foldl (fun a p => a.setIfInBounds (F.AtoPAPt.getD p.1 0) p.2) F.triuA.nzval } }
  | [], F, G, h => by cases h; rfl
  | p :: ps, F, G, h => by
    rw [List.foldlM_cons] at h
    obtain ⟨F1, h1, h2⟩ := bind_eq_ok h
    have e1 := pairStep_exact h1
    have e2 := foldlM_pairStep_exact ps F1 G h2
    rw [e2, e1]
    rfl

/-- a successful `update_values` had a value for every index (no `LE α` needed) -/
theorem qdldl_updateValues_ok_size {F G : Factorisation α} {idx : Array Nat} {vals : Array α}
    (h : Qdldl.updateValues F idx vals = .ok G) : idx.size ≤ vals.size := by
  unfold Qdldl.updateValues at h
  have hall := foldlM_ok_forall _ (fun i => i < vals.size) ?_ _ _ _ h
  · by_contra hc
    have := hall vals.size (List.mem_range.mpr (by omega))
    omega
  · intro H i H1 hs
    obtain ⟨ix, _, hs⟩ := bind_eq_ok hs
    obtain ⟨k, _, hs⟩ := bind_eq_ok hs
    obtain ⟨v, hv, hs⟩ := bind_eq_ok hs
    have := getE_ok_iff.mp hv
    exact (Array.getElem?_eq_some_iff.mp this).1

/-- `update_values` as a loop over the zipped pairs, when there are enough values -/
theorem qdldl_updateValues_eq_pairs (F : Factorisation α) (idx : Array Nat) (vals : Array α)
    (hsz : idx.size ≤ vals.size) :
    Qdldl.updateValues F idx vals = (idx.toList.zip vals.toList).foldlM pairStep F := by
  unfold Qdldl.updateValues
  have hlen : (idx.toList.zip vals.toList).length = idx.size := by
    simp [List.length_zip]; omega
  rw [← hlen]
  refine foldlM_range_eq_list _ _ _ ?_ F
  intro H i hi
  rw [hlen] at hi
  have hv : i < vals.size := by omega
  rw [getE_ok_of_lt idx i _ hi, getE_ok_of_lt vals i _ hv]
  simp only [List.getElem_zip, Array.getElem_toList]
  rfl

/-- (E2) a successful `update_values` is the pure copy of the C08 state model -/
theorem qdldl_updateValues_exact {F G : Factorisation α} {idx : Array Nat} {vals : Array α}
    (h : Qdldl.updateValues F idx vals = .ok G) :
    G = { F with triuA := { F.triuA with
            nzval := Update.ldlUpdateValues F.triuA.nzval F.AtoPAPt idx vals } } := by
  rw [qdldl_updateValues_eq_pairs F idx vals (qdldl_updateValues_ok_size h)] at h
  exact foldlM_pairStep_exact _ _ _ h

/-- `_update_values` of the linear-solver object: both copies, exactly -/
theorem kktSolver_updateValues_exact {K K' : KktSolver α} {idx : Array Nat} {vals : Array α}
    (h : K.updateValues idx vals = .ok K') :
    K' = { K with
      KKT := { K.KKT with nzval := Update.updateValuesKKT K.KKT.nzval idx vals },
      ldl := { K.ldl with triuA := { K.ldl.triuA with
                nzval := Update.ldlUpdateValues K.ldl.triuA.nzval K.ldl.AtoPAPt idx vals } } } := by
  unfold KktSolver.updateValues at h
  obtain ⟨nz, hnz, h⟩ := bind_eq_ok h
  obtain ⟨ldl, hldl, h⟩ := bind_eq_ok h
  cases h
  rw [updateValuesKKT_exact hnz, qdldl_updateValues_exact hldl]

/-! ### (E3) the guard -/

/-- the guard answers the `Result` of the C08 state model … -/
theorem updGuard_exact {S : Solver α} {g : Update.Res} (h : updGuard S = .ok g) :
    g = Update.checkDataUpdateAllowed S.view := by
  unfold updGuard at h
  split at h
  · cases h
  · cases h
    unfold checkDataUpdateAllowed Update.checkDataUpdateAllowed
    show _ = if S.st.data.presolver.isSome = true then _ else if false = true then _ else _
    simp only [Bool.false_eq_true, if_false]

/-- … or panics (ill-formed data): never an `err` -/
theorem updGuard_ok_or_panic (S : Solver α) :
    (∃ g, updGuard S = .ok g) ∨ ∃ msg, updGuard S = .error (.panic msg) := by
  unfold updGuard
  split
  · exact Or.inr ⟨_, rfl⟩
  · exact Or.inl ⟨_, rfl⟩

/-! ### what an update leaves alone -/

/-- the solver state with the data and the linear-solver object replaced -/
def eraseSt (T : SolverSt α) (d : ProblemData α) (K : KktSolver α) : SolverSt α :=
  { T with data := d, kktsystem := { T.kktsystem with kktsolver := K } }

/-- the linear-solver object with its two value arrays replaced -/
def eraseK (K : KktSolver α) (nz tz : Array α) : KktSolver α :=
  { K with KKT := { K.KKT with nzval := nz },
           ldl := { K.ldl with triuA := { K.ldl.triuA with nzval := tz } } }

/-- **frame of a data update**: of the solver object only `data` and the linear-solver object
change, and of the latter only `KKT.nzval` and `ldl.triuA.nzval` -/
structure UFrame (S S' : Solver α) : Prop where
  st : S'.st = { S.st with data := S'.st.data,
                           kktsystem := { S.st.kktsystem with kktsolver := S'.st.kktsystem.kktsolver } }
  solution : S'.solution = S.solution
  kkt : S'.st.kktsystem.kktsolver =
    { S.st.kktsystem.kktsolver with
      KKT := { S.st.kktsystem.kktsolver.KKT with nzval := S'.st.kktsystem.kktsolver.KKT.nzval },
      ldl := { S.st.kktsystem.kktsolver.ldl with
               triuA := { S.st.kktsystem.kktsolver.ldl.triuA with
                          nzval := S'.st.kktsystem.kktsolver.ldl.triuA.nzval } } }

theorem UFrame.rfl' (S : Solver α) : UFrame S S := ⟨rfl, rfl, rfl⟩

theorem UFrame.erase_st {S S' : Solver α} (h : UFrame S S') (d : ProblemData α) (K : KktSolver α) :
    eraseSt S'.st d K = eraseSt S.st d K :=
  (congrArg (fun T => eraseSt T d K) h.st).trans rfl

theorem UFrame.erase_kkt {S S' : Solver α} (h : UFrame S S') (nz tz : Array α) :
    eraseK S'.st.kktsystem.kktsolver nz tz = eraseK S.st.kktsystem.kktsolver nz tz :=
  (congrArg (fun T => eraseK T nz tz) h.kkt).trans rfl

theorem UFrame.of_erase {S S' : Solver α}
    (h1 : ∀ d K, eraseSt S'.st d K = eraseSt S.st d K) (h2 : S'.solution = S.solution)
    (h3 : ∀ nz tz, eraseK S'.st.kktsystem.kktsolver nz tz = eraseK S.st.kktsystem.kktsolver nz tz) :
    UFrame S S' :=
  ⟨h1 S'.st.data S'.st.kktsystem.kktsolver, h2,
    h3 S'.st.kktsystem.kktsolver.KKT.nzval S'.st.kktsystem.kktsolver.ldl.triuA.nzval⟩

theorem UFrame.trans {S S' S'' : Solver α} (h : UFrame S S') (h' : UFrame S' S'') : UFrame S S'' :=
  UFrame.of_erase (fun d K => (h'.erase_st d K).trans (h.erase_st d K)) (h'.solution.trans h.solution)
    (fun nz tz => (h'.erase_kkt nz tz).trans (h.erase_kkt nz tz))

/-- replacing the data -/
theorem UFrame.setData (S : Solver α) (d : ProblemData α) : UFrame S (S.setData d) := ⟨rfl, rfl, rfl⟩

/-- what an update keeps besides the frame: the guard `dataWf` and the four value-array lengths -/
structure UKeep (S S' : Solver α) : Prop extends UFrame S S' where
  wf : dataWf S'.st.data = dataWf S.st.data
  szP : S'.st.data.P.nzval.size = S.st.data.P.nzval.size
  szA : S'.st.data.A.nzval.size = S.st.data.A.nzval.size
  szK : S'.st.kktsystem.kktsolver.KKT.nzval.size = S.st.kktsystem.kktsolver.KKT.nzval.size
  szT : S'.st.kktsystem.kktsolver.ldl.triuA.nzval.size = S.st.kktsystem.kktsolver.ldl.triuA.nzval.size

theorem UKeep.rfl' (S : Solver α) : UKeep S S := ⟨UFrame.rfl' S, rfl, rfl, rfl, rfl, rfl⟩

theorem UKeep.trans {S S' S'' : Solver α} (h : UKeep S S') (h' : UKeep S' S'') : UKeep S S'' :=
  ⟨h.toUFrame.trans h'.toUFrame, h'.wf.trans h.wf, h'.szP.trans h.szP, h'.szA.trans h.szA,
    h'.szK.trans h.szK, h'.szT.trans h.szT⟩

/-- `dataWf` reads the pattern of `P` and the LENGTH of its value array only -/
theorem dataWf_setP (d : ProblemData α) {P' : Csc α} (h1 : P'.n = d.P.n) (h2 : P'.colptr = d.P.colptr)
    (h3 : P'.rowval = d.P.rowval) (h4 : P'.nzval.size = d.P.nzval.size) :
    dataWf { d with P := P' } = dataWf d := by
  unfold dataWf
  dsimp only
  rw [h1, h2, h3, h4]

theorem dataWf_setA (d : ProblemData α) {A' : Csc α} (h0 : A'.m = d.A.m) (h1 : A'.n = d.A.n)
    (h2 : A'.colptr = d.A.colptr) (h3 : A'.rowval = d.A.rowval) (h4 : A'.nzval.size = d.A.nzval.size) :
    dataWf { d with A := A' } = dataWf d := by
  unfold dataWf
  dsimp only
  rw [h0, h1, h2, h3, h4]

theorem dataWf_setQ (d : ProblemData α) {q' : Array α} (nq : Option α) (h : q'.size = d.q.size) :
    dataWf { d with q := q', normq := nq } = dataWf d := by
  unfold dataWf
  dsimp only
  rw [h]

theorem dataWf_setB (d : ProblemData α) {b' : Array α} (nb : Option α) (h : b'.size = d.b.size) :
    dataWf { d with b := b', normb := nb } = dataWf d := by
  unfold dataWf
  dsimp only
  rw [h]

/-! ### the four operations refine the C08 state model -/

/-- `update_P`: refinement, frame and kept lengths in one statement -/
theorem updateP_spec {S S' : Solver α} {arg : Update.MatArg α} {r : Update.Res}
    (h : S.updateP arg = .ok (S', r)) : Update.updateP S.view arg = (S'.view, r) ∧ UKeep S S' := by
  unfold Solver.updateP at h
  obtain ⟨g, hg, h⟩ := bind_eq_ok h
  have eg := updGuard_exact hg
  unfold Update.updateP
  rw [← eg]
  rcases g with e | ⟨⟩
  · cases h
    exact ⟨rfl, UKeep.rfl' _⟩
  · dsimp only at h ⊢
    have hm' : Update.updateMatrix arg S.view.P S.view.d S.view.d (some S.view.c) =
      Update.updateMatrix arg S.st.data.P S.st.data.equilibration.d S.st.data.equilibration.d
        (some S.st.data.equilibration.c) := rfl
    rw [hm']
    have hsh := Update.updateMatrix_shape arg S.st.data.P S.st.data.equilibration.d
      S.st.data.equilibration.d (some S.st.data.equilibration.c)
    rcases hm : Update.updateMatrix arg S.st.data.P S.st.data.equilibration.d S.st.data.equilibration.d
        (some S.st.data.equilibration.c) with ⟨P', e | ⟨⟩⟩
    · rw [hm] at h hsh
      obtain ⟨_, s1, s2, s3, s4⟩ := hsh
      cases h
      exact ⟨rfl, ⟨rfl, rfl, rfl⟩, dataWf_setP _ s1 s2 s3 s4, s4, rfl, rfl, rfl⟩
    · rw [hm] at h hsh
      obtain ⟨_, s1, s2, s3, s4⟩ := hsh
      dsimp only at h ⊢
      obtain ⟨K', hK, h⟩ := bind_eq_ok h
      cases h
      rw [kktSolver_updateValues_exact hK]
      refine ⟨rfl, ⟨rfl, rfl, rfl⟩, dataWf_setP _ s1 s2 s3 s4, s4, rfl, ?_, ?_⟩
      · exact Update.updateValuesKKT_size _ _ _
      · show (Update.ldlUpdateValues _ _ _ _).size = _
        rw [Update.ldlUpdateValues_eq]
        exact Update.updateValuesKKT_size _ _ _

/-- `update_A` -/
theorem updateA_spec {S S' : Solver α} {arg : Update.MatArg α} {r : Update.Res}
    (h : S.updateA arg = .ok (S', r)) : Update.updateA S.view arg = (S'.view, r) ∧ UKeep S S' := by
  unfold Solver.updateA at h
  obtain ⟨g, hg, h⟩ := bind_eq_ok h
  have eg := updGuard_exact hg
  unfold Update.updateA
  rw [← eg]
  rcases g with e | ⟨⟩
  · cases h
    exact ⟨rfl, UKeep.rfl' _⟩
  · dsimp only at h ⊢
    have hm' : Update.updateMatrix arg S.view.A S.view.e S.view.d none =
      Update.updateMatrix arg S.st.data.A S.st.data.equilibration.e S.st.data.equilibration.d none := rfl
    rw [hm']
    have hsh := Update.updateMatrix_shape arg S.st.data.A S.st.data.equilibration.e
      S.st.data.equilibration.d none
    rcases hm : Update.updateMatrix arg S.st.data.A S.st.data.equilibration.e S.st.data.equilibration.d
        none with ⟨A', e | ⟨⟩⟩
    · rw [hm] at h hsh
      obtain ⟨s0, s1, s2, s3, s4⟩ := hsh
      cases h
      exact ⟨rfl, ⟨rfl, rfl, rfl⟩, dataWf_setA _ s0 s1 s2 s3 s4, rfl, s4, rfl, rfl⟩
    · rw [hm] at h hsh
      obtain ⟨s0, s1, s2, s3, s4⟩ := hsh
      dsimp only at h ⊢
      obtain ⟨K', hK, h⟩ := bind_eq_ok h
      cases h
      rw [kktSolver_updateValues_exact hK]
      refine ⟨rfl, ⟨rfl, rfl, rfl⟩, dataWf_setA _ s0 s1 s2 s3 s4, rfl, s4, ?_, ?_⟩
      · exact Update.updateValuesKKT_size _ _ _
      · show (Update.ldlUpdateValues _ _ _ _).size = _
        rw [Update.ldlUpdateValues_eq]
        exact Update.updateValuesKKT_size _ _ _

/-- `update_q` -/
theorem updateQ_spec {S S' : Solver α} {arg : Update.VecArg α} {r : Update.Res}
    (h : S.updateQ arg = .ok (S', r)) : Update.updateQ S.view arg = (S'.view, r) ∧ UKeep S S' := by
  unfold Solver.updateQ at h
  obtain ⟨g, hg, h⟩ := bind_eq_ok h
  have eg := updGuard_exact hg
  unfold Update.updateQ
  rw [← eg]
  rcases g with e | ⟨⟩
  · cases h
    exact ⟨rfl, UKeep.rfl' _⟩
  · dsimp only at h ⊢
    have hm' : Update.updateVector arg S.view.q S.view.d (some S.view.c) =
      Update.updateVector arg S.st.data.q S.st.data.equilibration.d (some S.st.data.equilibration.c) := rfl
    rw [hm']
    have hsz := Update.updateVector_size arg S.st.data.q S.st.data.equilibration.d
      (some S.st.data.equilibration.c)
    rcases hm : Update.updateVector arg S.st.data.q S.st.data.equilibration.d
        (some S.st.data.equilibration.c) with ⟨q', e | ⟨⟩⟩
    · rw [hm] at h hsz
      cases h
      exact ⟨rfl, ⟨rfl, rfl, rfl⟩, dataWf_setQ _ _ hsz, rfl, rfl, rfl, rfl⟩
    · rw [hm] at h hsz
      cases h
      exact ⟨rfl, ⟨rfl, rfl, rfl⟩, dataWf_setQ _ _ hsz, rfl, rfl, rfl, rfl⟩

/-- `update_b` -/
theorem updateB_spec {S S' : Solver α} {arg : Update.VecArg α} {r : Update.Res}
    (h : S.updateB arg = .ok (S', r)) : Update.updateB S.view arg = (S'.view, r) ∧ UKeep S S' := by
  unfold Solver.updateB at h
  obtain ⟨g, hg, h⟩ := bind_eq_ok h
  have eg := updGuard_exact hg
  unfold Update.updateB
  rw [← eg]
  rcases g with e | ⟨⟩
  · cases h
    exact ⟨rfl, UKeep.rfl' _⟩
  · dsimp only at h ⊢
    have hm' : Update.updateVector arg S.view.b S.view.e none =
      Update.updateVector arg S.st.data.b S.st.data.equilibration.e none := rfl
    rw [hm']
    have hsz := Update.updateVector_size arg S.st.data.b S.st.data.equilibration.e none
    rcases hm : Update.updateVector arg S.st.data.b S.st.data.equilibration.e none with ⟨b', e | ⟨⟩⟩
    · rw [hm] at h hsz
      cases h
      exact ⟨rfl, ⟨rfl, rfl, rfl⟩, dataWf_setB _ _ hsz, rfl, rfl, rfl, rfl⟩
    · rw [hm] at h hsz
      cases h
      exact ⟨rfl, ⟨rfl, rfl, rfl⟩, dataWf_setB _ _ hsz, rfl, rfl, rfl, rfl⟩

/-- `update_data` -/
theorem updateData_spec {S S' : Solver α} {p : Update.MatArg α} {q : Update.VecArg α}
    {a : Update.MatArg α} {b : Update.VecArg α} {r : Update.Res}
    (h : S.updateData p q a b = .ok (S', r)) :
    Update.updateData S.view p q a b = (S'.view, r) ∧ UKeep S S' := by
  unfold Solver.updateData at h
  unfold Update.updateData
  obtain ⟨⟨S1, r1⟩, h1, h⟩ := bind_eq_ok h
  obtain ⟨e1, f1⟩ := updateP_spec h1
  rw [e1]
  rcases r1 with e | ⟨⟩
  · cases h
    exact ⟨rfl, f1⟩
  · dsimp only at h ⊢
    obtain ⟨⟨S2, r2⟩, h2, h⟩ := bind_eq_ok h
    obtain ⟨e2, f2⟩ := updateQ_spec h2
    rw [e2]
    rcases r2 with e | ⟨⟩
    · cases h
      exact ⟨rfl, f1.trans f2⟩
    · dsimp only at h ⊢
      obtain ⟨⟨S3, r3⟩, h3, h⟩ := bind_eq_ok h
      obtain ⟨e3, f3⟩ := updateA_spec h3
      rw [e3]
      rcases r3 with e | ⟨⟩
      · cases h
        exact ⟨rfl, (f1.trans f2).trans f3⟩
      · dsimp only at h ⊢
        obtain ⟨e4, f4⟩ := updateB_spec h
        exact ⟨e4, ((f1.trans f2).trans f3).trans f4⟩

/-- [S] **`update_P` refines the C08 state model** -/
theorem updateP_refines {S S' : Solver α} {arg : Update.MatArg α} {r : Update.Res}
    (h : S.updateP arg = .ok (S', r)) : Update.updateP S.view arg = (S'.view, r) := (updateP_spec h).1

/-- [S] **`update_q` refines the C08 state model** -/
theorem updateQ_refines {S S' : Solver α} {arg : Update.VecArg α} {r : Update.Res}
    (h : S.updateQ arg = .ok (S', r)) : Update.updateQ S.view arg = (S'.view, r) := (updateQ_spec h).1

/-- [S] **`update_A` refines the C08 state model** -/
theorem updateA_refines {S S' : Solver α} {arg : Update.MatArg α} {r : Update.Res}
    (h : S.updateA arg = .ok (S', r)) : Update.updateA S.view arg = (S'.view, r) := (updateA_spec h).1

/-- [S] **`update_b` refines the C08 state model** -/
theorem updateB_refines {S S' : Solver α} {arg : Update.VecArg α} {r : Update.Res}
    (h : S.updateB arg = .ok (S', r)) : Update.updateB S.view arg = (S'.view, r) := (updateB_spec h).1

/-- [S] **`update_data` refines the C08 state model** -/
theorem updateData_refines {S S' : Solver α} {p : Update.MatArg α} {q : Update.VecArg α}
    {a : Update.MatArg α} {b : Update.VecArg α} {r : Update.Res}
    (h : S.updateData p q a b = .ok (S', r)) : Update.updateData S.view p q a b = (S'.view, r) :=
  (updateData_spec h).1

/-- [S] nothing else of the solver object changes (`update_P`) -/
theorem updateP_frame {S S' : Solver α} {arg : Update.MatArg α} {r : Update.Res}
    (h : S.updateP arg = .ok (S', r)) : UFrame S S' := (updateP_spec h).2.toUFrame
theorem updateQ_frame {S S' : Solver α} {arg : Update.VecArg α} {r : Update.Res}
    (h : S.updateQ arg = .ok (S', r)) : UFrame S S' := (updateQ_spec h).2.toUFrame
theorem updateA_frame {S S' : Solver α} {arg : Update.MatArg α} {r : Update.Res}
    (h : S.updateA arg = .ok (S', r)) : UFrame S S' := (updateA_spec h).2.toUFrame
theorem updateB_frame {S S' : Solver α} {arg : Update.VecArg α} {r : Update.Res}
    (h : S.updateB arg = .ok (S', r)) : UFrame S S' := (updateB_spec h).2.toUFrame
theorem updateData_frame {S S' : Solver α} {p : Update.MatArg α} {q : Update.VecArg α}
    {a : Update.MatArg α} {b : Update.VecArg α} {r : Update.Res}
    (h : S.updateData p q a b = .ok (S', r)) : UFrame S S' := (updateData_spec h).2.toUFrame

/-- `update_q` / `update_b` do not touch the linear-solver object at all -/
theorem updateQ_kkt {S S' : Solver α} {arg : Update.VecArg α} {r : Update.Res}
    (h : S.updateQ arg = .ok (S', r)) : S'.st.kktsystem = S.st.kktsystem := by
  unfold Solver.updateQ at h
  obtain ⟨g, hg, h⟩ := bind_eq_ok h
  rcases g with e | ⟨⟩
  · cases h; rfl
  · dsimp only at h
    split at h <;> (cases h; rfl)

theorem updateB_kkt {S S' : Solver α} {arg : Update.VecArg α} {r : Update.Res}
    (h : S.updateB arg = .ok (S', r)) : S'.st.kktsystem = S.st.kktsystem := by
  unfold Solver.updateB at h
  obtain ⟨g, hg, h⟩ := bind_eq_ok h
  rcases g with e | ⟨⟩
  · cases h; rfl
  · dsimp only at h
    split at h <;> (cases h; rfl)

/-! ### totality: no panic on an object with in-range maps -/

/-- the index facts under which no update operation panics: the guard `dataWf`, one map entry per
stored value, map entries inside the KKT value array, `AtoPAPt` defined on every KKT slot and
pointing inside QDLDL's value array -/
structure UReady (S : Solver α) : Prop where
  wf : dataWf S.st.data = true
  sizeP : S.st.kktsystem.kktsolver.map.P.size = S.st.data.P.nzval.size
  sizeA : S.st.kktsystem.kktsolver.map.A.size = S.st.data.A.nzval.size
  bound : ∀ i ∈ S.st.kktsystem.kktsolver.map.P.toList ++ S.st.kktsystem.kktsolver.map.A.toList,
    i < S.st.kktsystem.kktsolver.KKT.nzval.size
  atopSize : S.st.kktsystem.kktsolver.ldl.AtoPAPt.size = S.st.kktsystem.kktsolver.KKT.nzval.size
  atopBound : ∀ j ∈ S.st.kktsystem.kktsolver.ldl.AtoPAPt.toList,
    j < S.st.kktsystem.kktsolver.ldl.triuA.nzval.size

/-- the index facts survive every update -/
theorem UReady.keep {S S' : Solver α} (hr : UReady S) (hk : UKeep S S') : UReady S' := by
  have em : S'.st.kktsystem.kktsolver.map = S.st.kktsystem.kktsolver.map :=
    (congrArg (fun K => K.map) hk.kkt).trans rfl
  have ea : S'.st.kktsystem.kktsolver.ldl.AtoPAPt = S.st.kktsystem.kktsolver.ldl.AtoPAPt :=
    (congrArg (fun K => K.ldl.AtoPAPt) hk.kkt).trans rfl
  refine ⟨hk.wf.trans hr.wf, ?_, ?_, ?_, ?_, ?_⟩
  · rw [em, hk.szP]; exact hr.sizeP
  · rw [em, hk.szA]; exact hr.sizeA
  · rw [em, hk.szK]; exact hr.bound
  · rw [ea, hk.szK]; exact hr.atopSize
  · rw [ea, hk.szT]; exact hr.atopBound

theorem foldlM_setE_total (site : String) : ∀ (l : List (Nat × α)) (a : Array α),
    (∀ p ∈ l, p.1 < a.size) → ∃ a', l.foldlM (fun (a : Array α) p => setE a p.1 p.2 site) a = .ok a'
  | [], a, _ => ⟨a, rfl⟩
  | p :: l, a, h => by
    have hp : p.1 < a.size := h p (List.mem_cons_self ..)
    obtain ⟨a', ha'⟩ := foldlM_setE_total site l (a.set p.1 p.2 hp)
      (fun q hq => by rw [Array.size_set]; exact h q (List.mem_cons_of_mem _ hq))
    refine ⟨a', ?_⟩
    rw [List.foldlM_cons]
    have : setE a p.1 p.2 site = .ok (a.set p.1 p.2 hp) := by
      unfold setE
      rw [dif_pos hp]
      rfl
    rw [this]
    exact ha'

theorem foldlM_pairStep_total : ∀ (ps : List (Nat × α)) (F : Factorisation α),
    (∀ p ∈ ps, p.1 < F.AtoPAPt.size) → (∀ k ∈ F.AtoPAPt.toList, k < F.triuA.nzval.size) →
      ∃ G, ps.foldlM pairStep F = .ok G
  | [], F, _, _ => ⟨F, rfl⟩
  | p :: ps, F, h1, h2 => by
    have hp : p.1 < F.AtoPAPt.size := h1 p (List.mem_cons_self ..)
    have hk : F.AtoPAPt[p.1] < F.triuA.nzval.size := h2 _ (Array.getElem_mem_toList hp)
    have hs : pairStep F p = .ok
        { F with triuA := { F.triuA with nzval := F.triuA.nzval.set F.AtoPAPt[p.1] p.2 hk } } := by
      unfold pairStep
      rw [getE_ok_of_lt F.AtoPAPt p.1 _ hp]
      show (setE F.triuA.nzval F.AtoPAPt[p.1] p.2 _ >>= _) = _
      unfold setE
      rw [dif_pos hk]
      rfl
    obtain ⟨G, hG⟩ := foldlM_pairStep_total ps
      { F with triuA := { F.triuA with nzval := F.triuA.nzval.set F.AtoPAPt[p.1] p.2 hk } }
      (fun q hq => h1 q (List.mem_cons_of_mem _ hq))
      (fun k hk' => by
        show k < (F.triuA.nzval.set F.AtoPAPt[p.1] p.2 hk).size
        rw [Array.size_set]; exact h2 k hk')
    refine ⟨G, ?_⟩
    rw [List.foldlM_cons, hs]
    exact hG

/-- `_update_values` does not panic when there are enough values and the maps are in range -/
theorem kktSolver_updateValues_total (K : KktSolver α) (idx : Array Nat) (vals : Array α)
    (hsz : idx.size ≤ vals.size) (hb : ∀ i ∈ idx.toList, i < K.KKT.nzval.size)
    (has : K.ldl.AtoPAPt.size = K.KKT.nzval.size)
    (hab : ∀ j ∈ K.ldl.AtoPAPt.toList, j < K.ldl.triuA.nzval.size) :
    ∃ K', K.updateValues idx vals = .ok K' := by
  obtain ⟨nz, hnz⟩ := foldlM_setE_total "KKT.nzval[idx]" (idx.toList.zip vals.toList) K.KKT.nzval
    (fun p hp => hb _ (List.of_mem_zip hp).1)
  obtain ⟨G, hG⟩ := foldlM_pairStep_total (idx.toList.zip vals.toList) K.ldl
    (fun p hp => by rw [has]; exact hb _ (List.of_mem_zip hp).1) hab
  rw [← qdldl_updateValues_eq_pairs K.ldl idx vals hsz] at hG
  refine ⟨{ K with KKT := { K.KKT with nzval := nz }, ldl := G }, ?_⟩
  unfold KktSolver.updateValues Kkt.updateValuesKKT
  rw [hnz]
  show (Qdldl.updateValues K.ldl idx vals >>= _) = _
  rw [hG]
  rfl

theorem updGuard_of_wf {S : Solver α} (h : dataWf S.st.data = true) :
    updGuard S = .ok (checkDataUpdateAllowed S.st.data) := by
  unfold updGuard
  rw [h]
  rfl

/-- [S] **`update_P` does not panic** on an object with in-range maps -/
theorem updateP_total {S : Solver α} (hr : UReady S) (arg : Update.MatArg α) :
    ∃ S' r, S.updateP arg = .ok (S', r) := by
  unfold Solver.updateP
  rw [updGuard_of_wf hr.wf]
  dsimp only [bind, Except.bind]
  rcases checkDataUpdateAllowed S.st.data with e | ⟨⟩
  · exact ⟨_, _, rfl⟩
  · dsimp only
    have hsh := Update.updateMatrix_shape arg S.st.data.P S.st.data.equilibration.d
      S.st.data.equilibration.d (some S.st.data.equilibration.c)
    rcases hm : Update.updateMatrix arg S.st.data.P S.st.data.equilibration.d S.st.data.equilibration.d
        (some S.st.data.equilibration.c) with ⟨P', e | ⟨⟩⟩
    · exact ⟨_, _, rfl⟩
    · rw [hm] at hsh
      obtain ⟨K', hK⟩ := kktSolver_updateValues_total S.st.kktsystem.kktsolver
        S.st.kktsystem.kktsolver.map.P P'.nzval (by rw [hr.sizeP, hsh.2.2.2.2])
        (fun i hi => hr.bound i (List.mem_append_left _ hi)) hr.atopSize hr.atopBound
      dsimp only
      rw [hK]
      exact ⟨_, _, rfl⟩

/-- [S] **`update_A` does not panic** on an object with in-range maps -/
theorem updateA_total {S : Solver α} (hr : UReady S) (arg : Update.MatArg α) :
    ∃ S' r, S.updateA arg = .ok (S', r) := by
  unfold Solver.updateA
  rw [updGuard_of_wf hr.wf]
  dsimp only [bind, Except.bind]
  rcases checkDataUpdateAllowed S.st.data with e | ⟨⟩
  · exact ⟨_, _, rfl⟩
  · dsimp only
    have hsh := Update.updateMatrix_shape arg S.st.data.A S.st.data.equilibration.e
      S.st.data.equilibration.d none
    rcases hm : Update.updateMatrix arg S.st.data.A S.st.data.equilibration.e S.st.data.equilibration.d
        none with ⟨A', e | ⟨⟩⟩
    · exact ⟨_, _, rfl⟩
    · rw [hm] at hsh
      obtain ⟨K', hK⟩ := kktSolver_updateValues_total S.st.kktsystem.kktsolver
        S.st.kktsystem.kktsolver.map.A A'.nzval (by rw [hr.sizeA, hsh.2.2.2.2])
        (fun i hi => hr.bound i (List.mem_append_right _ hi)) hr.atopSize hr.atopBound
      dsimp only
      rw [hK]
      exact ⟨_, _, rfl⟩

/-- [S] **`update_q` does not panic** when the guard `dataWf` holds -/
theorem updateQ_total {S : Solver α} (hw : dataWf S.st.data = true) (arg : Update.VecArg α) :
    ∃ S' r, S.updateQ arg = .ok (S', r) := by
  unfold Solver.updateQ
  rw [updGuard_of_wf hw]
  dsimp only [bind, Except.bind]
  rcases checkDataUpdateAllowed S.st.data with e | ⟨⟩
  · exact ⟨_, _, rfl⟩
  · dsimp only
    rcases Update.updateVector arg S.st.data.q S.st.data.equilibration.d
        (some S.st.data.equilibration.c) with ⟨q', e | ⟨⟩⟩
    · exact ⟨_, _, rfl⟩
    · exact ⟨_, _, rfl⟩

/-- [S] **`update_b` does not panic** when the guard `dataWf` holds -/
theorem updateB_total {S : Solver α} (hw : dataWf S.st.data = true) (arg : Update.VecArg α) :
    ∃ S' r, S.updateB arg = .ok (S', r) := by
  unfold Solver.updateB
  rw [updGuard_of_wf hw]
  dsimp only [bind, Except.bind]
  rcases checkDataUpdateAllowed S.st.data with e | ⟨⟩
  · exact ⟨_, _, rfl⟩
  · dsimp only
    rcases Update.updateVector arg S.st.data.b S.st.data.equilibration.e none with ⟨b', e | ⟨⟩⟩
    · exact ⟨_, _, rfl⟩
    · exact ⟨_, _, rfl⟩

/-- [S] **`update_data` does not panic** on an object with in-range maps, and the index facts hold
again afterwards (so whole histories of updates never panic) -/
theorem updateData_total {S : Solver α} (hr : UReady S) (p : Update.MatArg α) (q : Update.VecArg α)
    (a : Update.MatArg α) (b : Update.VecArg α) :
    ∃ S' r, S.updateData p q a b = .ok (S', r) ∧ UReady S' := by
  unfold Solver.updateData
  obtain ⟨S1, r1, h1⟩ := updateP_total hr p
  have hr1 := hr.keep (updateP_spec h1).2
  rw [h1]
  dsimp only [bind, Except.bind]
  rcases r1 with e | ⟨⟩
  · exact ⟨_, _, rfl, hr1⟩
  · dsimp only
    obtain ⟨S2, r2, h2⟩ := updateQ_total hr1.wf q
    have hr2 := hr1.keep (updateQ_spec h2).2
    rw [h2]
    dsimp only
    rcases r2 with e | ⟨⟩
    · exact ⟨_, _, rfl, hr2⟩
    · dsimp only
      obtain ⟨S3, r3, h3⟩ := updateA_total hr2 a
      have hr3 := hr2.keep (updateA_spec h3).2
      rw [h3]
      dsimp only
      rcases r3 with e | ⟨⟩
      · exact ⟨_, _, rfl, hr3⟩
      · dsimp only
        obtain ⟨S4, r4, h4⟩ := updateB_total hr3.wf b
        exact ⟨S4, r4, h4, hr3.keep (updateB_spec h4).2⟩

end ops

/-! ### non-vacuity -/

section examples
open Clarabel.Update (exDataOwn exLinOwn exDataOwn_new intFloatLikeOwn exValues_new chkAsmEx_spec asmEx)
attribute [local instance] intFloatLikeOwn

/-- a solver object around the data `exDataOwn` (`P = [5]`, `A = [7]`, `q = b = [1]`) and a
linear-solver object `K`; everything else is arbitrary -/
def exSolverOf (K : KktSolver Int) : Solver Int :=
  { st := ⟨exDataOwn, default, default, ⟨K, #[], #[], #[], #[], #[], #[], #[]⟩, [], default, default,
            default, default, 0, 0, 0⟩,
    solution := default }

/-- non-vacuity of `updateP_refines` / `updateData_refines` / `updateP_total` / `updateData_total`:
the object built by `DirectLDLKKTSolver::new` on `exDataOwn` satisfies `UReady`; `update_P([2])` and
`update_data([2], [3], [4], [6])` succeed on it, are accepted, and the C08 state of the result is the
result of the C08 state model, with KKT values `[2, 7, 0]` after `update_P`. -/
example : ∃ (S S' S'' : Solver Int),
    UReady S ∧ S.updateP (.slice #[2]) = .ok (S', .ok ()) ∧
    Update.updateP S.view (.slice #[2]) = (S'.view, .ok ()) ∧ UFrame S S' ∧
    S'.view.P.nzval = #[2] ∧ S'.view.kkt = #[2, 7, 0] ∧
    S.updateData (.slice #[2]) (.slice #[3]) (.slice #[4]) (.slice #[6]) = .ok (S'', .ok ()) ∧
    Update.updateData S.view (.slice #[2]) (.slice #[3]) (.slice #[4]) (.slice #[6]) = (S''.view, .ok ()) ∧
    S''.view.q = #[3] ∧ S''.view.b = #[6] ∧ S''.view.kkt = #[2, 4, 0] := by
  have h := exValues_new
  have h2 := exDataOwn_new
  cases hn : KktSolver.new exDataOwn.P exDataOwn.A [ConeSt.zero 1] exDataOwn.m exDataOwn.n exLinOwn #[1, 0] with
  | error e => rw [hn] at h; cases h
  | ok K0 =>
    rw [hn] at h h2
    simp only [Except.toOption, Option.map_some, Option.some.injEq] at h
    simp only [Except.toOption, Option.map_some, Option.some.injEq, Prod.mk.injEq] at h2
    have e0 := chkAsmEx_spec h
    have eK : K0.KKT = (asmEx [5, 7, 0]).1 := congrArg Prod.fst e0
    have eM : K0.map = (asmEx [5, 7, 0]).2 := congrArg Prod.snd e0
    have eT : K0.ldl.triuA.nzval = #[0, 5, 7] := Array.toList_inj.mp h2.2.2.2.1
    have eA : K0.ldl.AtoPAPt = #[1, 2, 0] := Array.toList_inj.mp h2.2.2.2.2
    have hr : UReady (exSolverOf K0) := by
      refine ⟨show dataWf exDataOwn = true by decide +kernel, ?_, ?_, ?_, ?_, ?_⟩
      · show K0.map.P.size = _
        rw [eM]; rfl
      · show K0.map.A.size = _
        rw [eM]; rfl
      · show ∀ i ∈ K0.map.P.toList ++ K0.map.A.toList, i < K0.KKT.nzval.size
        rw [eM, eK]
        decide
      · show K0.ldl.AtoPAPt.size = K0.KKT.nzval.size
        rw [eA, eK]; rfl
      · show ∀ j ∈ K0.ldl.AtoPAPt.toList, j < K0.ldl.triuA.nzval.size
        rw [eA, eT]
        decide
    obtain ⟨S', r, hP⟩ := updateP_total hr (.slice #[2])
    obtain ⟨eP, fP⟩ := updateP_spec hP
    obtain ⟨S'', r'', hD, _⟩ := updateData_total hr (.slice #[2]) (.slice #[3]) (.slice #[4]) (.slice #[6])
    have eD := updateData_refines hD
    have er : r = .ok () := (congrArg Prod.snd eP).symm.trans rfl
    have er'' : r'' = .ok () := (congrArg Prod.snd eD).symm.trans rfl
    subst er er''
    have v1 : S'.view.P.nzval = #[2] := (congrArg (fun t => t.1.P.nzval) eP).symm.trans rfl
    have v2 : S'.view.kkt = #[2, 7, 0] := by
      refine (congrArg (fun t => t.1.kkt) eP).symm.trans ?_
      show Update.updateValuesKKT K0.KKT.nzval K0.map.P #[2] = #[2, 7, 0]
      rw [eK, eM]
      rfl
    have v3 : S''.view.q = #[3] := (congrArg (fun t => t.1.q) eD).symm.trans rfl
    have v4 : S''.view.b = #[6] := (congrArg (fun t => t.1.b) eD).symm.trans rfl
    have v5 : S''.view.kkt = #[2, 4, 0] := by
      refine (congrArg (fun t => t.1.kkt) eD).symm.trans ?_
      show Update.updateValuesKKT (Update.updateValuesKKT K0.KKT.nzval K0.map.P #[2]) K0.map.A #[4] =
        #[2, 4, 0]
      rw [eK, eM]
      rfl
    exact ⟨exSolverOf K0, S', S'', hr, hP, eP, fP.toUFrame, v1, v2, hD, eD, v3, v4, v5⟩

end examples

end Clarabel.Solver
