/-
  C15, nonsymmetric cones: the step length of the exponential, power and generalised power
  cones is `backtrack_search` on the cone's own feasibility predicate.

  * `Nonsym.backtrackSearch` (the model function the three `stepLength`s call) is the
    counter-free form of `Backtrack.loop`; its outcome is described by `StepOutcome`
    (structural: valid for every scalar type, `Float` included).
  * over an ordered field the outcome lies in `[0, αmax]`;
  * over ℝ, with C14's membership theorems, an accepted step ends in the open cone
    (resp. dual cone) itself;
  * an explicit bound on the number of back-tracking steps.
-/
import ClarabelProofs.Props.C14
import ClarabelProofs.Lemmas.ConesBacktrack
import Mathlib.Analysis.SpecialFunctions.Log.Basic
import Mathlib.Algebra.Order.Floor.Semiring
import Mathlib.Algebra.Order.Floor.Ring

set_option linter.unusedSectionVars false

namespace Clarabel.Backtrack

section Struct
variable {α : Type} [Add α] [Mul α] [OfNat α 0] [OfNat α 1] [LT α] [DecidableLT α]

/-- the candidates are produced by repeated multiplication with `step` -/
theorem iter_succ (step : α) : ∀ (n : Nat) (a : α), iter step a (n + 1) = iter step a n * step := by
  intro n
  induction n with
  | zero => intro a; rfl
  | succ n ih => intro a; rw [iter, ih (a * step)]; rfl

/-- Outcome `r` of one back-tracking search that started from `amax`:
`n` candidates `amax·stepʲ` (`j < n`) were rejected while the next one was still `≥ amin`;
then either candidate `n` was accepted and returned, or it was rejected, the next one is
below `amin`, and `0` is returned. -/
def StepOutcome (q dq : Array α) (amax amin step : α) (P : Array α → Bool) (r : α) : Prop :=
  ∃ n, (∀ j, j < n → P (candidate q dq (iter step amax j)) = false ∧
            ¬ (iter step amax (j + 1) < amin)) ∧
    ((r = iter step amax n ∧ P (candidate q dq r) = true) ∨
     (r = 0 ∧ P (candidate q dq (iter step amax n)) = false ∧ iter step amax (n + 1) < amin))

/-- `Nonsym.backtrackSearch` is `Backtrack.loop` without the counter -/
theorem nonsym_eq_loop (dq q : Array α) (amin step : α) (P : Array α → Bool) :
    ∀ (fuel k : Nat) (a r : α), Nonsym.backtrackSearch dq q a amin step P fuel = .ok r →
      ∃ k', loop q dq amin step (fun _ => P) fuel k a = .ok (r, k') := by
  intro fuel
  induction fuel with
  | zero => intro k a r h; simp [Nonsym.backtrackSearch] at h
  | succ f ih =>
    intro k a r h
    rw [Nonsym.backtrackSearch] at h
    rw [loop]
    by_cases hP : P (Vec.waxpby 1 q a dq) = true
    · simp only [hP, ↓reduceIte] at h
      cases h
      exact ⟨k, by simp only [candidate, hP, ↓reduceIte]; rfl⟩
    · simp only [hP, Bool.false_eq_true, ↓reduceIte] at h
      simp only [candidate, hP, Bool.false_eq_true, ↓reduceIte]
      by_cases hlt : a * step < amin
      · simp only [hlt, ↓reduceIte] at h ⊢
        cases h
        exact ⟨k, rfl⟩
      · simp only [hlt, ↓reduceIte] at h ⊢
        exact ih (k + 1) (a * step) r h

/-- [S] the outcome of the model's `backtrack_search` -/
theorem nonsym_outcome (dq q : Array α) (amax amin step : α) (P : Array α → Bool) (fuel : Nat)
    (r : α) (h : Nonsym.backtrackSearch dq q amax amin step P fuel = .ok r) :
    StepOutcome q dq amax amin step P r := by
  obtain ⟨k', hk⟩ := nonsym_eq_loop dq q amin step P fuel 0 amax r h
  obtain ⟨n, _, hrej, hfin⟩ := loop_spec q dq amin step (fun _ => P) fuel 0 amax (r, k') hk
  refine ⟨n, fun j hj => by simpa using hrej j hj, ?_⟩
  rcases hfin with ⟨h1, h2⟩ | ⟨h1, h2, h3⟩
  · left
    simp only at h1 h2
    exact ⟨h1, by rw [h1]; exact h2⟩
  · right
    exact ⟨h1, h2, h3⟩

/-- [S] tightness: a returned step that is not the initial candidate is one back-tracking
factor below a rejected candidate: `r = c·step` with `c = amax·stepⁿ⁻¹` rejected. -/
theorem StepOutcome.tight {q dq : Array α} {amax amin step : α} {P : Array α → Bool} {r : α}
    (h : StepOutcome q dq amax amin step P r) :
    (r = amax ∧ P (candidate q dq amax) = true) ∨
    (∃ c, P (candidate q dq c) = false ∧
      ((r = c * step ∧ ¬ (c * step < amin) ∧ P (candidate q dq r) = true) ∨
       (r = 0 ∧ c * step < amin))) := by
  obtain ⟨n, hrej, hfin⟩ := h
  rcases hfin with ⟨h1, h2⟩ | ⟨h1, h2, h3⟩
  · cases n with
    | zero => left; exact ⟨h1, by rw [← show r = amax from h1]; exact h2⟩
    | succ m =>
      right
      obtain ⟨hr, hm⟩ := hrej m (Nat.lt_succ_self m)
      rw [iter_succ] at hm h1
      exact ⟨iter step amax m, hr, Or.inl ⟨h1, hm, h2⟩⟩
  · right
    rw [iter_succ] at h3
    exact ⟨iter step amax n, h2, Or.inr ⟨h1, h3⟩⟩

/-- [S] a nonzero result was accepted by the predicate -/
theorem StepOutcome.accepted {q dq : Array α} {amax amin step : α} {P : Array α → Bool} {r : α}
    (h : StepOutcome q dq amax amin step P r) :
    (P (candidate q dq r) = true) ∨ r = 0 := by
  obtain ⟨n, _, hfin⟩ := h
  rcases hfin with ⟨_, h2⟩ | ⟨h1, _, _⟩
  · exact Or.inl h2
  · exact Or.inr h1

end Struct

section Field
variable {α : Type} [Field α] [LinearOrder α] [IsStrictOrderedRing α]

theorem iter_eq_pow' (step a : α) (n : Nat) : iter step a n = a * step ^ n := by
  induction n generalizing a with
  | zero => simp [iter]
  | succ n ih => rw [iter, ih]; ring

/-- [F] for `0 ≤ step ≤ 1` and `αmax ≥ 0` the outcome lies in `[0, αmax]` -/
theorem StepOutcome.bounds {q dq : Array α} {amax amin step : α} {P : Array α → Bool} {r : α}
    (h : StepOutcome q dq amax amin step P r) (ha : 0 ≤ amax) (hs0 : 0 ≤ step) (hs1 : step ≤ 1) :
    0 ≤ r ∧ r ≤ amax := by
  obtain ⟨n, _, hfin⟩ := h
  rcases hfin with ⟨h1, _⟩ | ⟨h1, _, _⟩
  · rw [h1, iter_eq_pow']
    have hp0 : 0 ≤ step ^ n := pow_nonneg hs0 n
    have hp1 : step ^ n ≤ 1 := pow_le_one₀ hs0 hs1
    exact ⟨mul_nonneg ha hp0, by nlinarith⟩
  · rw [h1]; exact ⟨le_refl _, ha⟩

end Field

/-! ## number of back-tracking steps -/

/-- [R] explicit iteration bound: for `0 < step < 1`, `0 < αmin`, `0 < αinit` the candidate
number `N + 1` with `N = ⌈log(αmin/αinit)/log(step)⌉` is below `αmin`. -/
theorem iter_below_amin (ainit amin step : ℝ) (h0 : 0 < step) (h1 : step < 1) (hmin : 0 < amin)
    (hinit : 0 < ainit) :
    iter step ainit (⌈Real.log (amin / ainit) / Real.log step⌉₊ + 1) < amin := by
  set N := ⌈Real.log (amin / ainit) / Real.log step⌉₊ with hN
  rw [iter_eq_pow]
  have hls : Real.log step < 0 := Real.log_neg h0 h1
  have hceil : Real.log (amin / ainit) / Real.log step ≤ (N : ℝ) := Nat.le_ceil _
  have hlt : Real.log (amin / ainit) / Real.log step < ((N + 1 : Nat) : ℝ) := by
    push_cast; linarith
  -- multiply by the negative `log step`
  have h2 : ((N + 1 : Nat) : ℝ) * Real.log step < Real.log (amin / ainit) := by
    have := (div_lt_iff_of_neg hls).mp hlt
    linarith
  have hpow : Real.log (step ^ (N + 1)) < Real.log (amin / ainit) := by
    rw [Real.log_pow]; exact h2
  have hpos : 0 < step ^ (N + 1) := pow_pos h0 _
  have : step ^ (N + 1) < amin / ainit :=
    (Real.log_lt_log_iff hpos (div_pos hmin hinit)).mp hpow
  rw [lt_div_iff₀ hinit] at this
  linarith

end Clarabel.Backtrack

/-! ## the three cones -/

namespace Clarabel.Nonsym
open Backtrack

/-- candidate point of a 3-vector over ℝ -/
theorem candidate_v3 (q dq : V3 ℝ) (a : ℝ) :
    candidate (v3toArray q) (v3toArray dq) a
      = v3toArray (q.1 + a * dq.1, q.2.1 + a * dq.2.1, q.2.2 + a * dq.2.2) := by
  simp [candidate, v3toArray, Vec.waxpby]

theorem v3ofArray_v3toArray {β : Type} (x : V3 β) : v3ofArray? (v3toArray x) = some x := by
  obtain ⟨a, b, c⟩ := x
  rfl

end Clarabel.Nonsym

namespace Clarabel.Exp
open Backtrack Nonsym

section
variable {α : Type} [Add α] [Sub α] [Mul α] [Div α] [Neg α] [LT α] [LE α] [DecidableLT α]
  [DecidableLE α] [OfNat α 0] [OfNat α 1] [FloatLike α]

/-- [S] `ExponentialCone::step_length`: both components are back-tracking outcomes — `αz`
with the dual predicate on `z + α dz`, `αs` with the primal predicate on `s + α ds` -/
theorem stepLength_outcome (dz ds z s : V3 α) (step amin amax : α) (fuel : Nat) (az as : α)
    (h : stepLength dz ds z s step amin amax fuel = .ok (az, as)) :
    StepOutcome (v3toArray z) (v3toArray dz) amax amin step inDual az ∧
    StepOutcome (v3toArray s) (v3toArray ds) amax amin step inPrimal as := by
  unfold stepLength at h
  cases h1 : Nonsym.backtrackSearch (v3toArray dz) (v3toArray z) amax amin step inDual fuel with
  | error e => rw [h1] at h; cases h
  | ok r1 =>
    cases h2 : Nonsym.backtrackSearch (v3toArray ds) (v3toArray s) amax amin step inPrimal fuel with
    | error e => rw [h1, h2] at h; cases h
    | ok r2 =>
      rw [h1, h2] at h
      simp only [bind, Except.bind, pure, Except.pure, Except.ok.injEq, Prod.mk.injEq] at h
      obtain ⟨rfl, rfl⟩ := h
      exact ⟨nonsym_outcome _ _ _ _ _ _ _ _ h1, nonsym_outcome _ _ _ _ _ _ _ _ h2⟩

end

/-- [R] an accepted dual step ends in the open dual exponential cone -/
theorem inDual_candidate (z dz : V3 ℝ) (a : ℝ)
    (h : inDual (candidate (v3toArray z) (v3toArray dz) a) = true) :
    C14.ExpDualInterior (z.1 + a * dz.1) (z.2.1 + a * dz.2.1) (z.2.2 + a * dz.2.2) := by
  rw [candidate_v3] at h
  unfold inDual at h
  rw [v3ofArray_v3toArray] at h
  exact (C14.exp_isDualFeasible_iff _ _ _).mp h

/-- [R] an accepted primal step ends in the open exponential cone -/
theorem inPrimal_candidate (s ds : V3 ℝ) (a : ℝ)
    (h : inPrimal (candidate (v3toArray s) (v3toArray ds) a) = true) :
    C14.ExpPrimalInterior (s.1 + a * ds.1) (s.2.1 + a * ds.2.1) (s.2.2 + a * ds.2.2) := by
  rw [candidate_v3] at h
  unfold inPrimal at h
  rw [v3ofArray_v3toArray] at h
  exact (C14.exp_isPrimalFeasible_iff _ _ _).mp h

end Clarabel.Exp

namespace Clarabel.Pow
open Backtrack Nonsym

section
variable {α : Type} [Add α] [Sub α] [Mul α] [Div α] [Neg α] [LT α] [LE α] [DecidableLT α]
  [DecidableLE α] [OfNat α 0] [OfNat α 1] [OfNat α 2] [FloatLike α]

/-- [S] `PowerCone::step_length` -/
theorem stepLength_outcome (a : α) (dz ds z s : V3 α) (step amin amax : α) (fuel : Nat) (az as : α)
    (h : stepLength a dz ds z s step amin amax fuel = .ok (az, as)) :
    StepOutcome (v3toArray z) (v3toArray dz) amax amin step (inDual a) az ∧
    StepOutcome (v3toArray s) (v3toArray ds) amax amin step (inPrimal a) as := by
  unfold stepLength at h
  cases h1 : Nonsym.backtrackSearch (v3toArray dz) (v3toArray z) amax amin step (inDual a) fuel with
  | error e => rw [h1] at h; cases h
  | ok r1 =>
    cases h2 : Nonsym.backtrackSearch (v3toArray ds) (v3toArray s) amax amin step (inPrimal a) fuel with
    | error e => rw [h1, h2] at h; cases h
    | ok r2 =>
      rw [h1, h2] at h
      simp only [bind, Except.bind, pure, Except.pure, Except.ok.injEq, Prod.mk.injEq] at h
      obtain ⟨rfl, rfl⟩ := h
      exact ⟨nonsym_outcome _ _ _ _ _ _ _ _ h1, nonsym_outcome _ _ _ _ _ _ _ _ h2⟩

end

theorem inDual_candidate {a : ℝ} (ha0 : 0 < a) (ha1 : a < 1) (z dz : V3 ℝ) (t : ℝ)
    (h : inDual a (candidate (v3toArray z) (v3toArray dz) t) = true) :
    C14.PowDualInterior a (z.1 + t * dz.1) (z.2.1 + t * dz.2.1) (z.2.2 + t * dz.2.2) := by
  rw [candidate_v3] at h
  unfold inDual at h
  rw [v3ofArray_v3toArray] at h
  exact (C14.pow_isDualFeasible_iff ha0 ha1 _ _ _).mp h

theorem inPrimal_candidate (a : ℝ) (s ds : V3 ℝ) (t : ℝ)
    (h : inPrimal a (candidate (v3toArray s) (v3toArray ds) t) = true) :
    C14.PowPrimalInterior a (s.1 + t * ds.1) (s.2.1 + t * ds.2.1) (s.2.2 + t * ds.2.2) := by
  rw [candidate_v3] at h
  unfold inPrimal at h
  rw [v3ofArray_v3toArray] at h
  exact (C14.pow_isPrimalFeasible_iff _ _ _ _).mp h

end Clarabel.Pow

namespace Clarabel.GenPow
open Backtrack Nonsym

section
variable {α : Type} [Add α] [Sub α] [Mul α] [Div α] [Neg α] [LT α] [LE α] [DecidableLT α]
  [DecidableLE α] [OfNat α 0] [OfNat α 1] [OfNat α 2] [FloatLike α]

/-- [S] `GenPowerCone::step_length` -/
theorem stepLength_outcome (al dz ds z s : Array α) (step amin amax : α) (fuel : Nat) (az as : α)
    (h : stepLength al dz ds z s step amin amax fuel = .ok (az, as)) :
    StepOutcome z dz amax amin step (inDual al) az ∧
    StepOutcome s ds amax amin step (inPrimal al) as := by
  unfold stepLength at h
  cases h1 : Nonsym.backtrackSearch dz z amax amin step (inDual al) fuel with
  | error e => rw [h1] at h; cases h
  | ok r1 =>
    cases h2 : Nonsym.backtrackSearch ds s amax amin step (inPrimal al) fuel with
    | error e => rw [h1, h2] at h; cases h
    | ok r2 =>
      rw [h1, h2] at h
      simp only [bind, Except.bind, pure, Except.pure, Except.ok.injEq, Prod.mk.injEq] at h
      obtain ⟨rfl, rfl⟩ := h
      exact ⟨nonsym_outcome _ _ _ _ _ _ _ _ h1, nonsym_outcome _ _ _ _ _ _ _ _ h2⟩

end

theorem inDual_mem (al : List ℝ) (x : Array ℝ) (hal : ∀ a ∈ al, 0 < a)
    (h : inDual al.toArray x = true) (u w : List ℝ) (hx : x.toList = u ++ w)
    (hlen : al.length = u.length) : C14.GenPowDualInterior al u w := by
  have hx' : x = (u ++ w).toArray := by rw [← hx]
  unfold inDual at h
  rw [hx'] at h
  cases hf : isDualFeasible al.toArray (u ++ w).toArray with
  | error e => rw [hf] at h; cases h
  | ok b =>
    rw [hf] at h
    simp only at h
    subst h
    exact (C14.genpow_membership al u w hlen hal).2.mp hf

theorem inPrimal_mem (al : List ℝ) (x : Array ℝ) (hal : ∀ a ∈ al, 0 < a)
    (h : inPrimal al.toArray x = true) (u w : List ℝ) (hx : x.toList = u ++ w)
    (hlen : al.length = u.length) : C14.GenPowPrimalInterior al u w := by
  have hx' : x = (u ++ w).toArray := by rw [← hx]
  unfold inPrimal at h
  rw [hx'] at h
  cases hf : isPrimalFeasible al.toArray (u ++ w).toArray with
  | error e => rw [hf] at h; cases h
  | ok b =>
    rw [hf] at h
    simp only at h
    subst h
    exact (C14.genpow_membership al u w hlen hal).1.mp hf

end Clarabel.GenPow
