/-
  The symmetric Kronecker product of the PSD cone (`psdtrianglecone.rs::skron`, C13): the
  packed block that `get_Hs` writes into the KKT matrix, applied to a vector, is
  `x ↦ svec(A·mat(x)·A)` — the same operator as `mul_Hs` when `A = RRᵀ`.
-/
import ClarabelProofs.Lemmas.ConesPsdOps

namespace Clarabel.PsdTri
open PsdIndex (triangularNumber triangularIndex)
open Finset Matrix

/-- symmetric everywhere (what a `Symmetric` view or `svec_to_mat` produces) -/
def GSymm (A : MatFn ℝ) : Prop := ∀ i j, A i j = A j i

theorem gsymm_symView (U : MatFn ℝ) : GSymm (symView U) := by
  intro i j
  unfold symView
  rcases Nat.lt_trichotomy i j with h | h | h
  · simp [h.le, show ¬ j ≤ i by omega]
  · subst h; rfl
  · simp [h.le, show ¬ i ≤ j by omega]

theorem gsymm_svecToMat (x : Array ℝ) : GSymm (svecToMat x) := svecToMat_symm x

/-- [R] the entry formula of `skron` is symmetric under exchanging the row and column pair -/
theorem skronEntry_symm (A : MatFn ℝ) (hA : GSymm A) (i j k l : Nat) :
    skronEntry A i j k l = skronEntry A k l i j := by
  unfold skronEntry
  by_cases h1 : i = j <;> by_cases h2 : k = l
  · subst h1; subst h2; simp only [if_true]; rw [hA i k]
  · subst h1; simp only [if_true, h2, if_false]; rw [hA k i, hA l i]; ring
  · subst h2; simp only [if_true, h1, if_false]; rw [hA k j, hA k i]; ring
  · simp only [h1, h2, if_false]; rw [hA k i, hA l j, hA k j, hA l i]; ring

theorem size_skronPacked (n : Nat) (A : MatFn ℝ) :
    (skronPacked n A).size = triangularNumber (triangularNumber n) := by
  unfold skronPacked; rw [size_packed]

/-- entry of the packed block at row pair `(i,j)`, column pair `(k,l)` (upper triangle) -/
theorem getD_skronPacked (n : Nat) (A : MatFn ℝ) {i j k l : Nat} (hij : i ≤ j) (hkl : k ≤ l)
    (hl : l < n) (h : triangularNumber j + i ≤ triangularNumber l + k) :
    (skronPacked n A).getD (triangularNumber (triangularNumber l + k) + (triangularNumber j + i)) 0
      = skronEntry A i j k l := by
  unfold skronPacked
  rw [getD_packed _ _ h (tri_add_lt hkl hl), unpack_pair hij, unpack_pair hkl]

/-- the symmetric read of the packed block (`min`/`max` of the two packed positions) -/
theorem symRead_skronPacked (n : Nat) (A : MatFn ℝ) (hA : GSymm A) {i j k l : Nat} (hij : i ≤ j)
    (hj : j < n) (hkl : k ≤ l) (hl : l < n) :
    (if triangularNumber j + i ≤ triangularNumber l + k then
        (skronPacked n A).getD (triangularNumber (triangularNumber l + k) + (triangularNumber j + i)) 0
      else
        (skronPacked n A).getD (triangularNumber (triangularNumber j + i) + (triangularNumber l + k)) 0)
      = skronEntry A i j k l := by
  split
  · next h => exact getD_skronPacked n A hij hkl hl h
  · next h =>
    rw [getD_skronPacked n A hkl hij hj (by omega)]
    exact (skronEntry_symm A hA i j k l).symm

/-- `(A X A)ᵢⱼ` as the model's `mm` computes it -/
def axa (n : Nat) (A X : MatFn ℝ) : MatFn ℝ := mm n (mm n A X) A

theorem axa_eq (n : Nat) (A X : MatFn ℝ) (hA : GSymm A) (hX : GSymm X) (a b : Nat) :
    axa n A X a b = ∑ l ∈ range n,
      ((∑ k ∈ range l, (A a k * A b l + A a l * A b k) * X k l) + A a l * A b l * X l l) := by
  have h1 : axa n A X a b = ∑ l ∈ range n, ∑ k ∈ range n, A a k * X k l * A l b := by
    simp only [axa, mm, sumN_eq]
    apply sum_congr rfl
    intro l _
    rw [sum_mul]
  rw [h1, sum_square_split n (fun k l => A a k * X k l * A l b)]
  apply sum_congr rfl
  intro l _
  congr 1
  · apply sum_congr rfl
    intro k _
    rw [hA l b, hX l k, hA k b]; ring
  · rw [hA l b]; ring

/-- [R] the algebraic core: `Σ_{(k,l)} skron[(i,j),(k,l)]·svec(X)[(k,l)] = svec(AXA)[(i,j)]` -/
theorem skron_core (n : Nat) (A X : MatFn ℝ) (xs : Nat → Nat → ℝ) (hA : GSymm A) (hX : GSymm X)
    (hd : ∀ l, xs l l = X l l) (ho : ∀ k l, k < l → xs k l = sqrt2 * X k l) (i j : Nat) :
    ∑ l ∈ range n, ∑ k ∈ range (l + 1), skronEntry A i j k l * xs k l
      = if i = j then axa n A X i j else (axa n A X i j + axa n A X j i) * isqrt2 := by
  have hs := sqrt2_sq
  have hs2 := sqrt2_eq
  by_cases hij : i = j
  · subst hij
    simp only [if_true]
    rw [axa_eq n A X hA hX]
    apply sum_congr rfl
    intro l _
    rw [sum_range_succ]
    congr 1
    · apply sum_congr rfl
      intro k hk
      have hkl : k < l := by simpa using hk
      have hne : k ≠ l := by omega
      simp only [skronEntry, if_true, hne, if_false]
      rw [ho k l hkl]
      linear_combination (A i l * A i k * X k l) * hs
    · simp only [skronEntry, if_true]
      rw [hd l]
  · simp only [hij, if_false]
    rw [axa_eq n A X hA hX i j, axa_eq n A X hA hX j i, ← sum_add_distrib, sum_mul]
    apply sum_congr rfl
    intro l _
    rw [sum_range_succ]
    have hk : ∑ k ∈ range l, skronEntry A i j k l * xs k l
        = ∑ k ∈ range l, ((A i k * A j l + A i l * A j k) * X k l
            + (A j k * A i l + A j l * A i k) * X k l) * isqrt2 := by
      apply sum_congr rfl
      intro k hk
      have hkl : k < l := by simpa using hk
      have hne : k ≠ l := by omega
      simp only [skronEntry, hij, hne, if_false]
      rw [ho k l hkl, hs2]
      ring
    have hdiag : skronEntry A i j l l * xs l l
        = (A i l * A j l * X l l + A j l * A i l * X l l) * isqrt2 := by
      simp only [skronEntry, hij, if_false, if_true]
      rw [hd l, hs2]
      ring
    rw [hk, hdiag, ← sum_mul, sum_add_distrib]
    ring

theorem getD_map_range (m : Nat) (f : Nat → ℝ) {p : Nat} (hp : p < m) :
    ((List.range m).map f).toArray.getD p 0 = f p := by
  simp [Array.getD_eq_getD_getElem?, hp]

/-- [R] **the block `get_Hs` writes is the operator `x ↦ svec(A·mat(x)·A)`**: the packed
upper triangle of `A ⊗ₛ A` (as produced by `skron` + `pack_triu`), read as a symmetric matrix
of order `n(n+1)/2` and applied to `x`. -/
theorem symPackedMulVec_skron (n : Nat) (A : MatFn ℝ) (hA : GSymm A) (x : Array ℝ) :
    symPackedMulVec (triangularNumber n) (skronPacked n A) x
      = matToSvec n (axa n A (svecToMat x)) := by
  apply Array.ext
  · simp [symPackedMulVec, size_matToSvec]
  · intro p hp1 hp2
    have hp : p < triangularNumber n := by simpa [symPackedMulVec] using hp1
    obtain ⟨i, j, hij, hj, rfl⟩ := exists_pair hp
    have e1 : (symPackedMulVec (triangularNumber n) (skronPacked n A) x).getD
        (triangularNumber j + i) 0 = _ := getD_map_range _ _ hp
    have e2 := getD_matToSvec (axa n A (svecToMat x)) hij hj
    rw [Array.getD_eq_getD_getElem?, Array.getElem?_eq_getElem hp1] at e1
    rw [Array.getD_eq_getD_getElem?, Array.getElem?_eq_getElem hp2] at e2
    simp only [Option.getD_some] at e1 e2
    rw [e1, e2, sumN_eq, sum_tri]
    rw [← skron_core n A (svecToMat x) (fun k l => x.getD (triangularNumber l + k) 0) hA
      (gsymm_svecToMat x) (fun l => by simp [svecToMat])
      (fun k l hkl => by
        have hne : k ≠ l := by omega
        simp only [svecToMat, hne, hkl, if_false, if_true]
        have := sqrt2_mul_isqrt2
        linear_combination (-(x.getD (triangularNumber l + k) 0)) * this) i j]
    apply sum_congr rfl
    intro l hl
    have hln : l < n := by simpa using hl
    apply sum_congr rfl
    intro k hk
    have hkl : k ≤ l := by have := mem_range.mp hk; omega
    rw [symRead_skronPacked n A hA hij hj hkl hln]

end Clarabel.PsdTri
