/-
  C04's TOTAL panic-freedom over ℝ (`solve_total_real`, `Lemmas/SolverNSTotalReal.lean`) in the form the
  certificate theorems C01 / C02 / C03 use: from the USER-level hypotheses (`InputOKN`, `ValidCones cones`,
  no PSD cone, `0 < n`, `PermForN`, `PivotOK`, presolve off or dropping no row, the step-length settings and
  `FuelOK st.ls`) `new` returns `S` AND `S.solve st` returns `.ok r` — the alternative "or stops at one of
  the two numerical-domain sites" of `run_totalN` is gone.

  The hypothesis `ValidCones (layoutN S.st)` of `solve_total_real` is DERIVED here from the user-level
  `ValidCones cones`: the cone layout of the object `new` returns is the collapsed user list
  (`makeCones_typ`, `problemDataNew_off`, `validCones_newCollapsed`).
-/
import ClarabelProofs.Lemmas.SolverNSTotal
import ClarabelProofs.Lemmas.SolverNSTotalReal
import ClarabelProofs.Lemmas.SolverNSFullCompose
import ClarabelProofs.Lemmas.SolverNSBridgeMem

namespace Clarabel.SolverNS
open Clarabel
open Clarabel.Solver (PivotOK)

/-- the cone layout of the object `new` returns has admissible parameters when the user's list has
(presolve off, or on and dropping no row) -/
theorem validCones_layout_of_new {P : Csc ℝ} {q : Array ℝ} {A : Csc ℝ} {b : Array ℝ}
    {cones : List (ConeT ℝ)} {st : Settings ℝ} {perm : Array Nat} {S : Solver ℝ}
    (hvc : Equil.ValidCones cones)
    (hpre : st.presolveEnable = false ∨ ∃ keep,
      Presolve.keepFlags (Presolve.threshold st.infbound) (Cones.newCollapsed cones) b.toList = .ok keep
        ∧ keep.count true = b.size)
    (hnew : Solver.new P q A b cones st perm = .ok S) :
    Equil.ValidCones (layoutN S.st) := by
  obtain ⟨d0, hA⟩ := solverNew_anatomyN hnew
  have hp : ProblemData.new P q A b cones false false st.infbound = .ok d0 := by
    have h0 := hA.pdata
    cases hpe : st.presolveEnable with
    | false => rwa [hpe] at h0
    | true =>
      rw [hpe] at h0
      rcases hpre with h | ⟨keep, hk, hc⟩
      · rw [hpe] at h; cases h
      · exact (Presolve.problemdata_new_nothing_dropped P q A b cones st.infbound keep d0 hk hc h0).2
  obtain ⟨-, -, -, o4, -⟩ := Solver.problemDataNew_off hp
  have hlay : layoutN S.st = d0.cones := makeCones_typ hA.cones
  rw [hlay, o4]
  exact validCones_newCollapsed hvc

/-- **[R] a run of the model with nonsymmetric cones over ℝ RETURNS**: `new` returns a solver object and
its `solve()` returns `.ok r` — no site left (`FuelOK st.ls`) -/
theorem run_total_realN {P : Csc ℝ} {q : Array ℝ} {A : Csc ℝ} {b : Array ℝ}
    {cones : List (ConeT ℝ)} {st : Settings ℝ} {perm : Array Nat} (hin : InputOKN P q A b cones)
    (hvc : Equil.ValidCones cones) (hm : ∀ c ∈ cones, ConeT.modelledN c)
    (hn : 0 < P.n) (hperm : PermForN P q A b cones st perm) (hpiv : PivotOK st.lin)
    (hpre : st.presolveEnable = false ∨ ∃ keep,
      Presolve.keepFlags (Presolve.threshold st.infbound) (Cones.newCollapsed cones) b.toList = .ok keep
        ∧ keep.count true = b.size)
    (hf0 : 0 < st.maxStepFraction) (hf1 : st.maxStepFraction < 1) (hmv : 0 < st.maxValue)
    (hb0 : 0 ≤ st.linesearchBacktrackStep) (hb1 : st.linesearchBacktrackStep ≤ 1)
    (hF : FuelOK st.ls) :
    ∃ S r, Solver.new P q A b cones st perm = .ok S ∧ S.solve st = .ok r
      ∧ SolverInvN S ∧ SolverInvN r.S := by
  obtain ⟨S, hnew, hI, _⟩ := run_totalN hin hm hn hperm hpiv Solver.fmaxOK_real
  obtain ⟨r, hr, hI'⟩ := solve_total_real hf0 hf1 hmv hb0 hb1 hF hI (SizedN.of_new hnew)
    (validCones_layout_of_new hvc hpre hnew)
  exact ⟨S, r, hnew, hr, hI, hI'⟩

/-- an `OkOr` statement about a computation that returns `.ok r` gives its postcondition, packaged for
the `*_total_real` theorems: the solver object of `hnew'` is the one of `hnew` -/
theorem okOr_of_run {P : Csc ℝ} {q : Array ℝ} {A : Csc ℝ} {b : Array ℝ}
    {cones : List (ConeT ℝ)} {st : Settings ℝ} {perm : Array Nat} {S S' : Solver ℝ}
    {r : SolveResult ℝ} {Site : String → Prop} {Q : SolveResult ℝ → Prop}
    (hnew : Solver.new P q A b cones st perm = .ok S)
    (hnew' : Solver.new P q A b cones st perm = .ok S') (hr : S'.solve st = .ok r)
    (hs : OkOr Site (S.solve st) Q) : Q r := by
  have : S = S' := by rw [hnew] at hnew'; cases hnew'; rfl
  subst this
  exact hs.of_ok hr

namespace FullExample

/-- the default line-search settings of `stR` (`linesearch_backtrack_step = 0.8`,
`min_terminate_step_length = 1e-4`, fuel 1000 ≥ 42) fit: `FuelOK` -/
theorem stR_fuelOK : FuelOK stR.ls :=
  FuelOK.of_le (n := 42) (by show (0 : ℝ) ≤ 8 / 10; norm_num) (by show (8 / 10 : ℝ) ≤ 1; norm_num)
    (by omega) (by show 42 ≤ 1000; omega) (by show (8 / 10 : ℝ) ^ 42 < 1 / 10000; norm_num)

end FullExample

end Clarabel.SolverNS
