/-
  The contract of `_csc_quad_form` (hypothesis `hqf` of C06's `…_array` theorems), discharged.

  `KktSystem.quadForm` (`ClarabelModel/KktSystem.lean`, nested `for` loops with bounds-checked
  reads — the copy the `kkt.solve` channel ties bit-for-bit to `matrix_math.rs`) is shown

  * `KktSystem.quadForm_eq_csc` [S]: equal, as an `MErr` value and for every scalar type, to C16's
    fold-style `Csc.quadForm` (`ClarabelModel/CscMath.lean`) on a canonical square
    upper-triangular encoding with correctly sized vectors;
  * `KktSystem.quadForm_dense` [F]: hence (C16's `quadForm_spec`) over a commutative ring it
    returns `toFn a n ⬝ᵥ symMat Pc n *ᵥ toFn b n`, `symMat Pc n` the symmetric dense matrix
    `Pc + Pcᵀ − diag Pc` whose upper triangle `Pc` stores (`symMat_transpose`).

  With `P := symMat Pc n` this is exactly `hqf` (and `hP`) of
  `C06.reduced_solve_is_newton_array` & co.
-/
import ClarabelModel.KktSystem
import ClarabelModel.CscMath
import ClarabelProofs.Props.C16
import ClarabelProofs.Lemmas.InfoKernelBridge
import ClarabelProofs.Lemmas.StepArray

namespace Clarabel
open Clarabel.Csc Clarabel.C16 Clarabel.Residuals Clarabel.Lemmas Matrix

set_option linter.unusedSectionVars false

namespace KktSystem

section structural
variable {α : Type} [Add α] [Sub α] [Mul α] [Div α] [Neg α] [BEq α] [OfNat α 0] [OfNat α 1]

/-- the inner-loop body of `KktSystem.quadForm` on an entry `e = (row, Mv)`: `Csc.quadEntry` with
the panic sites of the imperative copy -/
def quadEntryK (x y : Array α) (col : Nat) (xc yc : α) (st : α × α × α) (e : Nat × α) :
    MErr (α × α × α) :=
  if e.1 < col then do
    let xr ← getE x e.1 "quad_form:x"
    let yr ← getE y e.1 "quad_form:y"
    pure (st.1, st.2.1 + e.2 * xr, st.2.2 + e.2 * yr)
  else if e.1 = col then pure (st.1 + e.2 * xc * yc, st.2.1, st.2.2)
  else throw (.panic "quad_form:not-triu")

/-- [S] on an in-range entry on or above the diagonal the two inner-loop bodies agree -/
theorem quadEntryK_eq (x y : Array α) (col : Nat) (xc yc : α) (st : α × α × α) (e : Nat × α)
    (hle : e.1 ≤ col) (hx : e.1 < x.size) (hy : e.1 < y.size) :
    quadEntryK x y col xc yc st e = quadEntry x y col xc yc st e := by
  unfold quadEntryK quadEntry
  by_cases h : e.1 < col
  · rw [if_pos h, if_pos h, getE_eq_ok x e.1 0 _ hx, getE_eq_ok y e.1 0 _ hy,
      getE_eq_ok x e.1 0 "x[row]" hx, getE_eq_ok y e.1 0 "y[row]" hy]
  · have heq : e.1 = col := by omega
    rw [if_neg h, if_neg h, if_pos heq, if_pos (by simpa using heq)]

/-- [S] in an upper-triangular encoding every entry of column `j` has row index `≤ j` -/
theorem col_le_of_isTriu {M : Csc α} (hM : Canonical M) (htri : M.isTriu = true) (j : Nat)
    (hj : j < M.n) : ∀ e ∈ M.col j, e.1 ≤ j := by
  intro e he
  unfold isTriu at htri
  simp only [List.all_eq_true, List.mem_range, decide_eq_true_eq] at htri
  have := htri j hj e.1
  rw [colRows_eq_map_col M hM.len_eq] at this
  exact this (List.mem_map_of_mem he)

/-- [S] **the two executable models of `_csc_quad_form` agree** (as `MErr` values, every scalar
type — `Float` included) on a canonical square upper-triangular encoding with vectors of
length `n`: the nested `for` loops of `KktSystem.quadForm` are the folds of `Csc.quadForm`. -/
theorem quadForm_eq_csc (M : Csc α) (y x : Array α) (hM : Canonical M) (hsq : M.m = M.n)
    (htri : M.isTriu = true) (hx : x.size = M.n) (hy : y.size = M.n) :
    KktSystem.quadForm M y x = Csc.quadForm M y x := by
  unfold KktSystem.quadForm Csc.quadForm
  have hc : ¬ (M.n ≠ M.m ∨ x.size ≠ M.n ∨ y.size ≠ M.n ∨ M.colptr.size ≠ M.n + 1
      ∨ M.nzval.size ≠ M.rowval.size) := by
    have := hM.colptr_size
    have := hM.len_eq
    omega
  simp only [hc, if_false]
  simp only [hsq, hx, hy, hM.colptr_size, hM.len_eq, bne_self_eq_false, Bool.false_eq_true,
    if_false]
  rw [forIn_range_eq_foldlM 0 M.n 0 _ (quadCol M y x)]
  · by_cases hn : M.n = 0
    · simp [hn]
    · have hn' : (M.n == 0) = false := by simpa using hn
      simp only [hn', Bool.false_eq_true, if_false, Nat.sub_zero, List.range_eq_range', bind_pure]
  · intro j _ hj out
    obtain ⟨hcp, h1, h2, h3⟩ := colptr_facts hM j hj
    unfold quadCol
    rw [getE_eq_ok M.colptr j 0 _ (by omega), getE_eq_ok M.colptr (j+1) 0 _ (by omega),
      getE_eq_ok x j 0 _ (by omega), getE_eq_ok y j 0 _ (by omega),
      getE_eq_ok x j 0 "x[col]" (by omega), getE_eq_ok y j 0 "y[col]" (by omega)]
    simp only [merr_ok_bind]
    rw [forIn_range_eq_foldlM _ _ _ _ (fun s k => do
        let r ← getE M.rowval k "quad_form:rowval"
        let v ← getE M.nzval k "quad_form:nzval"
        quadEntryK x y j (x.getD j 0) (y.getD j 0) s (r, v)),
      foldlM_range'_zip M.rowval M.nzval _ _ (quadEntryK x y j (x.getD j 0) (y.getD j 0)) _ _ _ _
        rfl h2 h3]
    · show (M.col j).foldlM _ _ >>= _ = _
      rw [foldlM_congr_mem (M.col j) _ _ (fun e he s =>
        quadEntryK_eq x y j (x.getD j 0) (y.getD j 0) s e (col_le_of_isTriu hM htri j hj e he)
          (by have := (colOK_of_canonical hM j hj).2 e he; omega)
          (by have := (colOK_of_canonical hM j hj).2 e he; omega))]
      cases (M.col j).foldlM (quadEntry x y j (x.getD j 0) (y.getD j 0)) (out, 0, 0) <;> rfl
    · intro k hk1 hk2 s
      rw [getE_ok_getElem M.nzval k _ (by omega), getE_ok_getElem M.rowval k _ (by omega)]
      simp only [merr_ok_bind]
      unfold quadEntryK
      dsimp only
      split_ifs
      · cases getE x M.rowval[k] "quad_form:x" with
        | error e => rfl
        | ok xr => cases getE y M.rowval[k] "quad_form:y" <;> rfl
      · rfl
      · rfl

end structural

/-! ### dense meaning -/

section dense
variable {α : Type} [Field α] [DecidableEq α] {n : ℕ}

/-- the symmetric dense matrix `Pc + Pcᵀ − diag Pc` whose upper triangle the encoding `Pc`
stores (`Csc.toDense` is C16's dense meaning of an encoding), as an `n × n` matrix -/
def symMat (Pc : Csc α) (n : ℕ) : Matrix (Fin n) (Fin n) α :=
  fun i j => if (i : ℕ) = (j : ℕ) then Pc.toDense i i else Pc.toDense i j + Pc.toDense j i

/-- [F] `symMat Pc n` is symmetric (hypothesis `hP` of the `…_array` theorems) -/
theorem symMat_transpose (Pc : Csc α) (n : ℕ) : (symMat Pc n)ᵀ = symMat Pc n := by
  ext i j
  simp only [transpose_apply, symMat]
  by_cases h : (i : ℕ) = (j : ℕ)
  · rw [if_pos h, if_pos h.symm, h]
  · rw [if_neg h, if_neg (fun h' => h h'.symm), add_comm]

/-- [S] an upper-triangular encoding stores nothing below the diagonal -/
theorem toDense_lower_zero (Pc : Csc α) (hM : Canonical Pc) (htri : Pc.isTriu = true) (i j : ℕ)
    (hj : j < Pc.n) (hij : j < i) : Pc.toDense i j = 0 := by
  unfold toDense
  rw [List.filter_eq_nil_iff.mpr]
  · rfl
  · intro e he
    have := col_le_of_isTriu hM htri j hj e he
    simp only [beq_iff_eq]
    omega

/-- [F] on and above the diagonal `symMat Pc n` is the dense meaning of the (upper-triangular)
encoding `Pc`, below it the transposed entry -/
theorem symMat_of_le (Pc : Csc α) (hM : Canonical Pc) (hn : Pc.n = n) (htri : Pc.isTriu = true)
    (i j : Fin n) (hij : (i : ℕ) ≤ (j : ℕ)) : symMat Pc n i j = Pc.toDense i j := by
  unfold symMat
  by_cases h : (i : ℕ) = (j : ℕ)
  · rw [if_pos h, h]
  · rw [if_neg h, toDense_lower_zero Pc hM htri j i (by omega) (by omega), add_zero]

/-- [F] **the contract of `_csc_quad_form`** (`hqf` of C06's `…_array` theorems, with
`P := symMat Pc n`): on a canonical square upper-triangular encoding `Pc` of order `n`, for
vectors of length `n`, `KktSystem.quadForm Pc a b` does not panic and returns
`aᵀ · (Pc + Pcᵀ − diag Pc) · b`.  (`quadForm_eq_csc` + C16's `quadForm_spec`.) -/
theorem quadForm_dense (Pc : Csc α) (hM : Canonical Pc) (hm : Pc.m = n) (hn : Pc.n = n)
    (htri : Pc.isTriu = true) :
    ∀ a b : Array α, a.size = n → b.size = n →
      KktSystem.quadForm Pc a b = .ok (toFn a n ⬝ᵥ symMat Pc n *ᵥ toFn b n) := by
  intro a b ha hb
  subst hn
  rw [quadForm_eq_csc Pc a b hM hm htri hb ha, C16.quadForm_spec Pc a b hM hm htri hb ha]
  congr 1
  rw [Finset.sum_range]
  simp only [dotProduct, mulVec, toFn, symMat, Finset.mul_sum]
  apply Finset.sum_congr rfl
  intro i _
  rw [Finset.sum_range]
  apply Finset.sum_congr rfl
  intro j _
  rw [mul_assoc]

end dense

/-- [F] `quadForm_dense` over ℝ, literally the hypothesis `hqf` of
`C06.reduced_solve_is_newton_array`, `residual_contraction_array`, `mu_update_nn_array`,
`residual_contraction_affine_array` with `P := symMat Pc n` -/
theorem quadForm_dense_real {n : ℕ} (Pc : Csc ℝ) (hM : Canonical Pc) (hm : Pc.m = n)
    (hn : Pc.n = n) (htri : Pc.isTriu = true) :
    ∀ a b : Array ℝ, a.size = n → b.size = n →
      KktSystem.quadForm Pc a b = .ok (toFn a n ⬝ᵥ symMat Pc n *ᵥ toFn b n) :=
  quadForm_dense Pc hM hm hn htri

/-! ### non-vacuity -/

/-- upper triangle of `[[2,1],[1,3]]` -/
def exP2 : Csc ℝ := ⟨2, 2, #[0, 1, 3], #[0, 0, 1], #[2, 1, 3]⟩

theorem exP2_canonical : Canonical exP2 := ((checkFormat_iff0 exP2).mp (by rfl)).canon

/-- non-vacuity of `quadForm_eq_csc` / `quadForm_dense` / `quadForm_dense_real`: `exP2` is a
canonical square upper-triangular encoding of order 2 -/
example : ∀ a b : Array ℝ, a.size = 2 → b.size = 2 →
    KktSystem.quadForm exP2 a b = .ok (toFn a 2 ⬝ᵥ symMat exP2 2 *ᵥ toFn b 2) :=
  quadForm_dense_real exP2 exP2_canonical rfl rfl (by rfl)

/-- … and its `symMat` is the full symmetric matrix `[[2,1],[1,3]]` -/
example : symMat exP2 2 = !![2, 1; 1, 3] := by
  ext i j
  fin_cases i <;> fin_cases j <;>
    simp [symMat, toDense, Csc.col, exP2]

end KktSystem
end Clarabel
