/-
  C08, field part: the abstraction `State.abs` (internal equilibrated data ↦ user-level data)
  commutes with every data-updating operation — on user-level data an update is a plain
  overwrite (`specStep` / `specRun`).
-/
import ClarabelModel.Update
import Mathlib.Algebra.Field.Basic
import Mathlib.Tactic.FieldSimp
import Mathlib.Tactic.Ring
import Mathlib.Data.Rat.Defs
import Mathlib.Tactic.NormNum

namespace Clarabel.Update

/-! ### structural facts (any carrier) -/

section structural
variable {α : Type}

theorem applyPairs_size_abs (f : Nat → α → α) (ps : List (Nat × α)) (v : Array α) :
    (applyPairs f ps v).1.size = v.size := by
  induction ps generalizing v with
  | nil => rfl
  | cons p rest ih =>
    obtain ⟨i, x⟩ := p
    unfold applyPairs
    split
    · rfl
    · rw [ih, Array.size_setIfInBounds]

theorem mapIdx_setIfInBounds (g : Nat → α → α) (v : Array α) (i : Nat) (y : α) :
    (v.setIfInBounds i y).mapIdx g = (v.mapIdx g).setIfInBounds i (g i y) := by
  apply Array.ext_getElem?
  intro j
  by_cases hij : i = j
  · subst hij
    rw [Array.getElem?_mapIdx, Array.getElem?_setIfInBounds_self,
      Array.getElem?_setIfInBounds_self, Array.size_mapIdx]
    split <;> rfl
  · rw [Array.getElem?_mapIdx, Array.getElem?_setIfInBounds_ne hij,
      Array.getElem?_setIfInBounds_ne hij, Array.getElem?_mapIdx]

/-- un-scaling (`g`) after the sequential scaled writes (`f`) is the sequential plain write on
the un-scaled array, with the same error flag -/
theorem applyPairs_mapIdx (f g : Nat → α → α) (ps : List (Nat × α)) (v : Array α)
    (hg : ∀ k x, k < v.size → g k (f k x) = x) :
    ((applyPairs f ps v).1.mapIdx g, (applyPairs f ps v).2)
      = applyPairs (fun _ x => x) ps (v.mapIdx g) := by
  induction ps generalizing v with
  | nil => rfl
  | cons p rest ih =>
    obtain ⟨i, x⟩ := p
    unfold applyPairs
    rw [Array.size_mapIdx]
    by_cases hi : v.size ≤ i
    · rw [if_pos hi, if_pos hi]
    · rw [if_neg hi, if_neg hi]
      rw [ih (v.setIfInBounds i (f i x)) (by
        intro k y hk
        rw [Array.size_setIfInBounds] at hk
        exact hg k y hk)]
      rw [mapIdx_setIfInBounds, hg i x (Nat.lt_of_not_le hi)]

theorem mapIdx_mapIdx_id (f g : Nat → α → α) (data : Array α)
    (hg : ∀ k x, k < data.size → g k (f k x) = x) :
    (data.mapIdx f).mapIdx g = data := by
  apply Array.ext_getElem?
  intro j
  rw [Array.getElem?_mapIdx, Array.getElem?_mapIdx]
  by_cases hj : j < data.size
  · rw [Array.getElem?_eq_getElem hj]
    simp only [Option.map_some, hg j _ hj]
  · rw [Array.getElem?_eq_none (Nat.le_of_not_lt hj)]
    rfl

/-- `check_equal_sparsity` reads the internal matrix only through `m n colptr rowval` -/
theorem checkEqualSparsity_congr (U pat pat' : Csc α) (hm : pat'.m = pat.m) (hn : pat'.n = pat.n)
    (hc : pat'.colptr = pat.colptr) (hr : pat'.rowval = pat.rowval) :
    checkEqualSparsity U pat' = checkEqualSparsity U pat := by
  unfold checkEqualSparsity
  rw [hm, hn, hc, hr]

theorem specMat_congr (pat pat' : Csc α) (arg : MatArg α) (v : Array α) (hm : pat'.m = pat.m)
    (hn : pat'.n = pat.n) (hc : pat'.colptr = pat.colptr) (hr : pat'.rowval = pat.rowval) :
    specMat pat' arg v = specMat pat arg v := by
  cases arg with
  | matrix U => simp only [specMat, checkEqualSparsity_congr U pat pat' hm hn hc hr]
  | _ => rfl

/-- same dimensions, pattern and number of stored values -/
structure SamePattern (M M' : Csc α) : Prop where
  m : M'.m = M.m
  n : M'.n = M.n
  colptr : M'.colptr = M.colptr
  rowval : M'.rowval = M.rowval
  size : M'.nzval.size = M.nzval.size

theorem SamePattern.refl (M : Csc α) : SamePattern M M := ⟨rfl, rfl, rfl, rfl, rfl⟩

theorem SamePattern.trans {M M' M'' : Csc α} (h : SamePattern M M') (h' : SamePattern M' M'') :
    SamePattern M M'' :=
  ⟨h'.m.trans h.m, h'.n.trans h.n, h'.colptr.trans h.colptr, h'.rowval.trans h.rowval,
    h'.size.trans h.size⟩

end structural

/-! ### `update_matrix` / `update_vector` keep the frame (pattern, sizes) -/

section frame
variable {α : Type} [Mul α] [OfNat α 0]

theorem updateMatrixSlice_pattern (data : Array α) (M : Csc α) (l r : Array α) (cs : Option α) :
    SamePattern M (updateMatrixSlice data M l r cs).1 := by
  unfold updateMatrixSlice
  split
  · exact .refl M
  · split
    · exact .refl M
    · rename_i h1 h2
      refine ⟨rfl, rfl, rfl, rfl, ?_⟩
      simp only [Array.size_mapIdx]
      exact Decidable.not_not.mp h2

theorem updateMatrix_pattern (arg : MatArg α) (M : Csc α) (l r : Array α) (cs : Option α) :
    SamePattern M (updateMatrix arg M l r cs).1 := by
  cases arg with
  | empty0 => exact .refl M
  | slice v => exact updateMatrixSlice_pattern v M l r cs
  | matrix U =>
    simp only [updateMatrix]
    split
    · exact .refl M
    · exact updateMatrixSlice_pattern _ M l r cs
  | pairs idx vals =>
    refine ⟨rfl, rfl, rfl, rfl, ?_⟩
    simp only [updateMatrix]
    exact applyPairs_size_abs _ _ _

theorem updateVector_size_abs (arg : VecArg α) (v vscale : Array α) (cs : Option α) :
    (updateVector arg v vscale cs).1.size = v.size := by
  cases arg with
  | empty0 => rfl
  | slice data =>
    unfold updateVector
    simp only
    split
    · rfl
    · split
      · rfl
      · rename_i h1 h2
        simp only [Array.size_mapIdx]
        exact Decidable.not_not.mp h2
  | pairs idx vals =>
    simp only [updateVector]
    exact applyPairs_size_abs _ _ _

end frame

/-! ### un-scaling after scaling is the identity (field) -/

section field
variable {α : Type} [Field α]

/-- the per-entry function of `absMat` -/
def unscM (M : Csc α) (l r : Array α) (cs : Option α) (k : Nat) (v : α) : α :=
  let s := l.getD (rowOf M k) 0 * r.getD (colOf M.colptr k) 0
  match cs with
  | some c => v / (s * c)
  | none => v / s

/-- the per-entry function of `absVec` -/
def unscV (vscale : Array α) (cs : Option α) (k : Nat) (x : α) : α :=
  match cs with
  | some c => x / (vscale.getD k 0 * c)
  | none => x / vscale.getD k 0

theorem absMat_eq (M : Csc α) (l r : Array α) (cs : Option α) :
    absMat M l r cs = M.nzval.mapIdx (unscM M l r cs) := by
  cases cs <;> rfl

theorem absMat_nzval (M : Csc α) (x : Array α) (l r : Array α) (cs : Option α) :
    absMat { M with nzval := x } l r cs = x.mapIdx (unscM M l r cs) := by
  cases cs <;> rfl

theorem absVec_eq (v vscale : Array α) (cs : Option α) :
    absVec v vscale cs = v.mapIdx (unscV vscale cs) := by
  cases cs <;> rfl

theorem unscM_scaleFull (M : Csc α) (l r : Array α) (cs : Option α) (k : Nat) (v : α)
    (hl : l.getD (rowOf M k) 0 ≠ 0) (hr : r.getD (colOf M.colptr k) 0 ≠ 0)
    (hc : ∀ c, cs = some c → c ≠ 0) :
    unscM M l r cs k (scaleFull M l r cs k v) = v := by
  cases cs with
  | none => simp only [unscM, scaleFull]; field_simp
  | some c =>
    have := hc c rfl
    simp only [unscM, scaleFull]; field_simp

theorem unscM_scalePair (M : Csc α) (l r : Array α) (cs : Option α) (k : Nat) (v : α)
    (hl : l.getD (rowOf M k) 0 ≠ 0) (hr : r.getD (colOf M.colptr k) 0 ≠ 0)
    (hc : ∀ c, cs = some c → c ≠ 0) :
    unscM M l r cs k (scalePair M l r cs k v) = v := by
  cases cs with
  | none => simp only [unscM, scalePair]; field_simp
  | some c =>
    have := hc c rfl
    simp only [unscM, scalePair]; field_simp

theorem unscV_vscaleFull (s : Array α) (cs : Option α) (k : Nat) (x : α)
    (hs : s.getD k 0 ≠ 0) (hc : ∀ c, cs = some c → c ≠ 0) :
    unscV s cs k (vscaleFull s cs k x) = x := by
  cases cs with
  | none => simp only [unscV, vscaleFull]; field_simp
  | some c =>
    have := hc c rfl
    simp only [unscV, vscaleFull]; field_simp

/-- `update_matrix` seen through the abstraction is `specMat` -/
theorem updateMatrixSlice_abs (data : Array α) (M : Csc α) (l r : Array α) (cs : Option α)
    (hlr : ∀ k, k < M.nzval.size →
      l.getD (rowOf M k) 0 ≠ 0 ∧ r.getD (colOf M.colptr k) 0 ≠ 0)
    (hc : ∀ c, cs = some c → c ≠ 0) :
    (absMat (updateMatrixSlice data M l r cs).1 l r cs, (updateMatrixSlice data M l r cs).2)
      = specVec (.slice data) (absMat M l r cs) := by
  have hsz : (absMat M l r cs).size = M.nzval.size := by
    rw [absMat_eq, Array.size_mapIdx]
  unfold updateMatrixSlice specVec
  simp only [hsz]
  by_cases h0 : data.size = 0
  · simp only [if_pos h0]
  · simp only [if_neg h0]
    by_cases h1 : data.size ≠ M.nzval.size
    · simp only [if_pos h1]
    · simp only [if_neg h1]
      have h1' : data.size = M.nzval.size := Decidable.not_not.mp h1
      rw [absMat_nzval, mapIdx_mapIdx_id]
      intro k x hk
      have := hlr k (h1' ▸ hk)
      exact unscM_scaleFull M l r cs k x this.1 this.2 hc

theorem updateMatrix_abs (arg : MatArg α) (M : Csc α) (l r : Array α) (cs : Option α)
    (hlr : ∀ k, k < M.nzval.size →
      l.getD (rowOf M k) 0 ≠ 0 ∧ r.getD (colOf M.colptr k) 0 ≠ 0)
    (hc : ∀ c, cs = some c → c ≠ 0) :
    (absMat (updateMatrix arg M l r cs).1 l r cs, (updateMatrix arg M l r cs).2)
      = specMat M arg (absMat M l r cs) := by
  cases arg with
  | empty0 => rfl
  | slice v => exact updateMatrixSlice_abs v M l r cs hlr hc
  | matrix U =>
    simp only [updateMatrix, specMat]
    split
    · rfl
    · exact updateMatrixSlice_abs U.nzval M l r cs hlr hc
  | pairs idx vals =>
    simp only [updateMatrix, specMat, specVec]
    have h := applyPairs_mapIdx (scalePair M l r cs) (unscM M l r cs)
      (idx.toList.zip vals.toList) M.nzval (by
        intro k x hk
        have := hlr k hk
        exact unscM_scalePair M l r cs k x this.1 this.2 hc)
    rw [absMat_nzval, absMat_eq, ← h]

/-- `update_vector` seen through the abstraction is `specVec` -/
theorem updateVector_abs (arg : VecArg α) (v s : Array α) (cs : Option α)
    (hs : ∀ k, k < v.size → s.getD k 0 ≠ 0) (hc : ∀ c, cs = some c → c ≠ 0) :
    (absVec (updateVector arg v s cs).1 s cs, (updateVector arg v s cs).2)
      = specVec arg (absVec v s cs) := by
  have hsz : (absVec v s cs).size = v.size := by
    rw [absVec_eq, Array.size_mapIdx]
  cases arg with
  | empty0 => rfl
  | slice data =>
    simp only [updateVector, specVec, hsz]
    by_cases h0 : data.size = 0
    · simp only [if_pos h0]
    · simp only [if_neg h0]
      by_cases h1 : data.size ≠ v.size
      · simp only [if_pos h1]
      · simp only [if_neg h1]
        have h1' : data.size = v.size := Decidable.not_not.mp h1
        rw [absVec_eq, mapIdx_mapIdx_id]
        intro k x hk
        exact unscV_vscaleFull s cs k x (hs k (h1' ▸ hk)) hc
  | pairs idx vals =>
    simp only [updateVector, specVec]
    have h := applyPairs_mapIdx (vscaleFull s cs) (unscV s cs)
      (idx.toList.zip vals.toList) v (by
        intro k x hk
        exact unscV_vscaleFull s cs k x (hs k hk) hc)
    rw [absVec_eq, absVec_eq, ← h]

end field

/-! ### the user-level specification of a history -/

section spec
variable {α : Type}

/-- `update_P` on user-level data: guard, then plain overwrite of the `P` values -/
def specP (guard : Res) (patP : Csc α) (u : UserData α) (a : MatArg α) : UserData α × Res :=
  match guard with
  | .error e => (u, .error e)
  | .ok () =>
    let (v, r) := specMat patP a u.P
    ({ u with P := v }, fmtToRes r)

/-- `update_q` on user-level data -/
def specQ (guard : Res) (u : UserData α) (a : VecArg α) : UserData α × Res :=
  match guard with
  | .error e => (u, .error e)
  | .ok () =>
    let (v, r) := specVec a u.q
    ({ u with q := v }, fmtToRes r)

/-- `update_A` on user-level data -/
def specA (guard : Res) (patA : Csc α) (u : UserData α) (a : MatArg α) : UserData α × Res :=
  match guard with
  | .error e => (u, .error e)
  | .ok () =>
    let (v, r) := specMat patA a u.A
    ({ u with A := v }, fmtToRes r)

/-- `update_b` on user-level data -/
def specB (guard : Res) (u : UserData α) (a : VecArg α) : UserData α × Res :=
  match guard with
  | .error e => (u, .error e)
  | .ok () =>
    let (v, r) := specVec a u.b
    ({ u with b := v }, fmtToRes r)

/-- `update_data` on user-level data: `P`, `q`, `A`, `b` in this order, the first error stops
the sequence and the earlier effects stay (mirrors `updateData`) -/
def specData (guard : Res) (patP patA : Csc α) (u : UserData α)
    (p : MatArg α) (q : VecArg α) (a : MatArg α) (b : VecArg α) : UserData α × Res :=
  match specP guard patP u p with
  | (u1, .error e) => (u1, .error e)
  | (u1, .ok ()) =>
    match specQ guard u1 q with
    | (u2, .error e) => (u2, .error e)
    | (u2, .ok ()) =>
      match specA guard patA u2 a with
      | (u3, .error e) => (u3, .error e)
      | (u3, .ok ()) => specB guard u3 b

/-- specification of one operation on USER-LEVEL data: plain overwrite (same acceptance rules,
a rejected pair list keeps the pairs before the bad index), nothing else.  `guard` is the
(constant) answer of `check_data_update_allowed`, `patP`/`patA` the (constant) patterns. -/
def specStep (guard : Res) (patP patA : Csc α) (u : UserData α) : Op α → UserData α × Res
  | .updateP a => specP guard patP u a
  | .updateQ a => specQ guard u a
  | .updateA a => specA guard patA u a
  | .updateB a => specB guard u a
  | .updateData p q a b => specData guard patP patA u p q a b
  | .solve _ => (u, .ok ())
  | .norms => (u, .ok ())

/-- specification of a whole history (mirrors `run`) -/
def specRun (guard : Res) (patP patA : Csc α) (u : UserData α) :
    List (Op α) → UserData α × List Res
  | [] => (u, [])
  | op :: rest =>
    let (u1, r) := specStep guard patP patA u op
    let (u2, rs) := specRun guard patP patA u1 rest
    (u2, r :: rs)

/-- the specification reads the patterns only through `m n colptr rowval` -/
theorem specStep_congr (guard : Res) {patP patA patP' patA' : Csc α}
    (hP : SamePattern patP patP') (hA : SamePattern patA patA') (u : UserData α) (op : Op α) :
    specStep guard patP' patA' u op = specStep guard patP patA u op := by
  have h1 : ∀ a v, specMat patP' a v = specMat patP a v :=
    fun a v => specMat_congr patP patP' a v hP.m hP.n hP.colptr hP.rowval
  have h2 : ∀ a v, specMat patA' a v = specMat patA a v :=
    fun a v => specMat_congr patA patA' a v hA.m hA.n hA.colptr hA.rowval
  cases op <;> simp only [specStep, specData, specP, specA, h1, h2]

/-- what data updating never changes: patterns, sizes, equilibration, flags -/
structure SameFrame (st st' : State α) : Prop where
  P : SamePattern st.P st'.P
  A : SamePattern st.A st'.A
  q : st'.q.size = st.q.size
  b : st'.b.size = st.b.size
  d : st'.d = st.d
  dinv : st'.dinv = st.dinv
  e : st'.e = st.e
  einv : st'.einv = st.einv
  c : st'.c = st.c
  presolved : st'.presolved = st.presolved
  decomposed : st'.decomposed = st.decomposed

theorem SameFrame.refl (st : State α) : SameFrame st st :=
  ⟨.refl _, .refl _, rfl, rfl, rfl, rfl, rfl, rfl, rfl, rfl, rfl⟩

theorem SameFrame.trans {s s' s'' : State α} (h : SameFrame s s') (h' : SameFrame s' s'') :
    SameFrame s s'' :=
  ⟨h.P.trans h'.P, h.A.trans h'.A, h'.q.trans h.q, h'.b.trans h.b, h'.d.trans h.d,
    h'.dinv.trans h.dinv, h'.e.trans h.e, h'.einv.trans h.einv, h'.c.trans h.c,
    h'.presolved.trans h.presolved, h'.decomposed.trans h.decomposed⟩

theorem SameFrame.guard {s s' : State α} (h : SameFrame s s') :
    checkDataUpdateAllowed s' = checkDataUpdateAllowed s := by
  unfold checkDataUpdateAllowed
  rw [h.presolved, h.decomposed]

end spec

/-! ### every operation keeps the frame -/

section opsFrame
variable {α : Type} [Mul α] [OfNat α 0]

theorem updateP_frame (st : State α) (arg : MatArg α) : SameFrame st (updateP st arg).1 := by
  have hp := updateMatrix_pattern arg st.P st.d st.d (some st.c)
  unfold updateP
  split
  · exact .refl st
  · split
    · rename_i P' e heq
      rw [heq] at hp
      exact ⟨hp, .refl _, rfl, rfl, rfl, rfl, rfl, rfl, rfl, rfl, rfl⟩
    · rename_i P' heq
      rw [heq] at hp
      exact ⟨hp, .refl _, rfl, rfl, rfl, rfl, rfl, rfl, rfl, rfl, rfl⟩

theorem updateA_frame (st : State α) (arg : MatArg α) : SameFrame st (updateA st arg).1 := by
  have hp := updateMatrix_pattern arg st.A st.e st.d none
  unfold updateA
  split
  · exact .refl st
  · split
    · rename_i A' e heq
      rw [heq] at hp
      exact ⟨.refl _, hp, rfl, rfl, rfl, rfl, rfl, rfl, rfl, rfl, rfl⟩
    · rename_i A' heq
      rw [heq] at hp
      exact ⟨.refl _, hp, rfl, rfl, rfl, rfl, rfl, rfl, rfl, rfl, rfl⟩

theorem updateQ_frame (st : State α) (arg : VecArg α) : SameFrame st (updateQ st arg).1 := by
  have hp := updateVector_size_abs arg st.q st.d (some st.c)
  unfold updateQ
  split
  · exact .refl st
  · split
    · rename_i q' e heq
      rw [heq] at hp
      exact ⟨.refl _, .refl _, hp, rfl, rfl, rfl, rfl, rfl, rfl, rfl, rfl⟩
    · rename_i q' heq
      rw [heq] at hp
      exact ⟨.refl _, .refl _, hp, rfl, rfl, rfl, rfl, rfl, rfl, rfl, rfl⟩

theorem updateB_frame (st : State α) (arg : VecArg α) : SameFrame st (updateB st arg).1 := by
  have hp := updateVector_size_abs arg st.b st.e none
  unfold updateB
  split
  · exact .refl st
  · split
    · rename_i b' e heq
      rw [heq] at hp
      exact ⟨.refl _, .refl _, rfl, hp, rfl, rfl, rfl, rfl, rfl, rfl, rfl⟩
    · rename_i b' heq
      rw [heq] at hp
      exact ⟨.refl _, .refl _, rfl, hp, rfl, rfl, rfl, rfl, rfl, rfl, rfl⟩

theorem updateData_frame (st : State α) (p : MatArg α) (q : VecArg α) (a : MatArg α)
    (b : VecArg α) : SameFrame st (updateData st p q a b).1 := by
  have h1 := updateP_frame st p
  unfold updateData
  split
  · rename_i s1 e heq; rw [heq] at h1; exact h1
  · rename_i s1 heq
    rw [heq] at h1
    have h2 := updateQ_frame s1 q
    split
    · rename_i s2 e heq2; rw [heq2] at h2; exact h1.trans h2
    · rename_i s2 heq2
      rw [heq2] at h2
      have h3 := updateA_frame s2 a
      split
      · rename_i s3 e heq3; rw [heq3] at h3; exact (h1.trans h2).trans h3
      · rename_i s3 heq3
        rw [heq3] at h3
        exact ((h1.trans h2).trans h3).trans (updateB_frame s3 b)

variable [Div α] [OfNat α 1] [FloatLike α]

/-- [S] no operation changes patterns, sizes, equilibration data or the two flags -/
theorem step_frame (st : State α) (op : Op α) : SameFrame st (step st op).1 := by
  cases op with
  | updateP a => exact updateP_frame st a
  | updateQ a => exact updateQ_frame st a
  | updateA a => exact updateA_frame st a
  | updateB a => exact updateB_frame st a
  | updateData p q a b => exact updateData_frame st p q a b
  | solve sr => exact ⟨.refl _, .refl _, rfl, rfl, rfl, rfl, rfl, rfl, rfl, rfl, rfl⟩
  | norms => exact ⟨.refl _, .refl _, rfl, rfl, rfl, rfl, rfl, rfl, rfl, rfl, rfl⟩

/-- [S] the same along a whole history -/
theorem run_frame (st : State α) (ops : List (Op α)) : SameFrame st (run st ops).1 := by
  induction ops generalizing st with
  | nil => exact .refl st
  | cons op rest ih =>
    simp only [run]
    exact (step_frame st op).trans (ih _)

end opsFrame

/-! ### the abstraction commutes with every operation (field) -/

section opsAbs
variable {α : Type} [Field α]

/-- nothing the abstraction divides by is zero -/
structure State.ScaleOK (st : State α) : Prop where
  c_ne : st.c ≠ 0
  P_ne : ∀ k, k < st.P.nzval.size →
    st.d.getD (rowOf st.P k) 0 ≠ 0 ∧ st.d.getD (colOf st.P.colptr k) 0 ≠ 0
  A_ne : ∀ k, k < st.A.nzval.size →
    st.e.getD (rowOf st.A k) 0 ≠ 0 ∧ st.d.getD (colOf st.A.colptr k) 0 ≠ 0
  q_ne : ∀ k, k < st.q.size → st.d.getD k 0 ≠ 0
  b_ne : ∀ k, k < st.b.size → st.e.getD k 0 ≠ 0

/-- `ScaleOK` only talks about the frame -/
theorem SameFrame.scaleOK {s s' : State α} (f : SameFrame s s') (h : s.ScaleOK) : s'.ScaleOK := by
  refine ⟨?_, ?_, ?_, ?_, ?_⟩
  · rw [f.c]; exact h.c_ne
  · intro k hk
    rw [f.P.size] at hk
    have := h.P_ne k hk
    unfold rowOf at this ⊢
    rw [f.d, f.P.rowval, f.P.colptr]; exact this
  · intro k hk
    rw [f.A.size] at hk
    have := h.A_ne k hk
    unfold rowOf at this ⊢
    rw [f.d, f.e, f.A.rowval, f.A.colptr]; exact this
  · intro k hk
    rw [f.q] at hk
    rw [f.d]; exact h.q_ne k hk
  · intro k hk
    rw [f.b] at hk
    rw [f.e]; exact h.b_ne k hk

private theorem some_ne {c : α} (hc : c ≠ 0) : ∀ c', some c = some c' → c' ≠ 0 := by
  intro c' h; cases h; exact hc

private theorem none_ne : ∀ c' : α, (none : Option α) = some c' → c' ≠ 0 := by
  intro c' h; cases h

/-- [F] `update_P` is a plain overwrite of the user-level `P` values -/
theorem abs_updateP_eq_spec (st : State α) (h : st.ScaleOK) (arg : MatArg α) :
    ((updateP st arg).1.abs, (updateP st arg).2)
      = specP (checkDataUpdateAllowed st) st.P st.abs arg := by
  have hm : specMat st.P arg st.abs.P = _ :=
    (updateMatrix_abs arg st.P st.d st.d (some st.c) h.P_ne (some_ne h.c_ne)).symm
  unfold updateP specP
  cases checkDataUpdateAllowed st with
  | error e => rfl
  | ok u =>
    cases u
    simp only [hm]
    rcases updateMatrix arg st.P st.d st.d (some st.c) with ⟨P', r⟩
    cases r with
    | error e => rfl
    | ok u => cases u; rfl

/-- [F] `update_A` is a plain overwrite of the user-level `A` values -/
theorem abs_updateA_eq_spec (st : State α) (h : st.ScaleOK) (arg : MatArg α) :
    ((updateA st arg).1.abs, (updateA st arg).2)
      = specA (checkDataUpdateAllowed st) st.A st.abs arg := by
  have hm : specMat st.A arg st.abs.A = _ :=
    (updateMatrix_abs arg st.A st.e st.d none h.A_ne none_ne).symm
  unfold updateA specA
  cases checkDataUpdateAllowed st with
  | error e => rfl
  | ok u =>
    cases u
    simp only [hm]
    rcases updateMatrix arg st.A st.e st.d none with ⟨A', r⟩
    cases r with
    | error e => rfl
    | ok u => cases u; rfl

/-- [F] `update_q` is a plain overwrite of the user-level `q` -/
theorem abs_updateQ_eq_spec (st : State α) (h : st.ScaleOK) (arg : VecArg α) :
    ((updateQ st arg).1.abs, (updateQ st arg).2)
      = specQ (checkDataUpdateAllowed st) st.abs arg := by
  have hm : specVec arg st.abs.q = _ :=
    (updateVector_abs arg st.q st.d (some st.c) h.q_ne (some_ne h.c_ne)).symm
  unfold updateQ specQ
  cases checkDataUpdateAllowed st with
  | error e => rfl
  | ok u =>
    cases u
    simp only [hm]
    rcases updateVector arg st.q st.d (some st.c) with ⟨q', r⟩
    cases r with
    | error e => rfl
    | ok u => cases u; rfl

/-- [F] `update_b` is a plain overwrite of the user-level `b` -/
theorem abs_updateB_eq_spec (st : State α) (h : st.ScaleOK) (arg : VecArg α) :
    ((updateB st arg).1.abs, (updateB st arg).2)
      = specB (checkDataUpdateAllowed st) st.abs arg := by
  have hm : specVec arg st.abs.b = _ :=
    (updateVector_abs arg st.b st.e none h.b_ne none_ne).symm
  unfold updateB specB
  cases checkDataUpdateAllowed st with
  | error e => rfl
  | ok u =>
    cases u
    simp only [hm]
    rcases updateVector arg st.b st.e none with ⟨b', r⟩
    cases r with
    | error e => rfl
    | ok u => cases u; rfl

/-- [F] `update_data` is the short-circuiting sequence of the four overwrites -/
theorem abs_updateData_eq_spec (st : State α) (h : st.ScaleOK)
    (p : MatArg α) (q : VecArg α) (a : MatArg α) (b : VecArg α) :
    ((updateData st p q a b).1.abs, (updateData st p q a b).2)
      = specData (checkDataUpdateAllowed st) st.P st.A st.abs p q a b := by
  have e1 := abs_updateP_eq_spec st h p
  have f1 := updateP_frame st p
  unfold updateData specData
  rw [← e1]
  clear e1
  generalize updateP st p = x at f1 ⊢
  obtain ⟨s1, r1⟩ := x
  cases r1 with
  | error e => rfl
  | ok u =>
    cases u
    simp only at f1 ⊢
    have h1 := f1.scaleOK h
    have e2 := abs_updateQ_eq_spec s1 h1 q
    have f2 := updateQ_frame s1 q
    rw [f1.guard] at e2
    rw [← e2]
    clear e2
    generalize updateQ s1 q = x at f2 ⊢
    obtain ⟨s2, r2⟩ := x
    cases r2 with
    | error e => rfl
    | ok u =>
      cases u
      simp only at f2 ⊢
      have f12 := f1.trans f2
      have h2 := f12.scaleOK h
      have e3 := abs_updateA_eq_spec s2 h2 a
      have f3 := updateA_frame s2 a
      have hs : specA (checkDataUpdateAllowed s2) s2.A s2.abs a
          = specA (checkDataUpdateAllowed st) st.A s2.abs a := by
        rw [f12.guard]
        have := specStep_congr (checkDataUpdateAllowed st) (SamePattern.refl st.P) f12.A
          s2.abs (.updateA a)
        simpa only [specStep] using this
      rw [hs] at e3
      rw [← e3]
      clear e3
      generalize updateA s2 a = x at f3 ⊢
      obtain ⟨s3, r3⟩ := x
      cases r3 with
      | error e => rfl
      | ok u =>
        cases u
        simp only at f3 ⊢
        have f123 := f12.trans f3
        have e4 := abs_updateB_eq_spec s3 (f123.scaleOK h) b
        rw [f123.guard] at e4
        exact e4

variable [FloatLike α]

/-- [F] **the abstraction commutes with every operation**: on user-level data, an operation
of a history is exactly `specStep` (overwrite, nothing else) -/
theorem abs_step_eq_spec (st : State α) (h : st.ScaleOK) (op : Op α) :
    ((step st op).1.abs, (step st op).2)
      = specStep (checkDataUpdateAllowed st) st.P st.A st.abs op := by
  cases op with
  | updateP a => exact abs_updateP_eq_spec st h a
  | updateQ a => exact abs_updateQ_eq_spec st h a
  | updateA a => exact abs_updateA_eq_spec st h a
  | updateB a => exact abs_updateB_eq_spec st h a
  | updateData p q a b => exact abs_updateData_eq_spec st h p q a b
  | solve sr => rfl
  | norms => rfl

/-- [F] no operation makes a divisor of the abstraction zero -/
theorem scaleOK_step (st : State α) (h : st.ScaleOK) (op : Op α) : (step st op).1.ScaleOK :=
  (step_frame st op).scaleOK h

/-- [S] what `step` leaves alone, field by field -/
theorem step_unchanged (st : State α) (op : Op α) :
    (step st op).1.P.colptr = st.P.colptr ∧ (step st op).1.P.rowval = st.P.rowval ∧
    (step st op).1.A.colptr = st.A.colptr ∧ (step st op).1.A.rowval = st.A.rowval ∧
    (step st op).1.d = st.d ∧ (step st op).1.e = st.e ∧ (step st op).1.c = st.c ∧
    (step st op).1.presolved = st.presolved ∧ (step st op).1.decomposed = st.decomposed ∧
    checkDataUpdateAllowed (step st op).1 = checkDataUpdateAllowed st :=
  have f := step_frame st op
  ⟨f.P.colptr, f.P.rowval, f.A.colptr, f.A.rowval, f.d, f.e, f.c, f.presolved, f.decomposed,
    f.guard⟩

/-- `abs_run_eq_spec` with the guard and the patterns of any earlier state `st0` of the history -/
theorem abs_run_eq_spec_from (st0 st : State α) (f : SameFrame st0 st) (h : st.ScaleOK)
    (ops : List (Op α)) :
    ((run st ops).1.abs, (run st ops).2)
      = specRun (checkDataUpdateAllowed st0) st0.P st0.A st.abs ops := by
  induction ops generalizing st with
  | nil => rfl
  | cons op rest ih =>
    have e := abs_step_eq_spec st h op
    rw [f.guard, specStep_congr _ f.P f.A] at e
    have ih' := ih (step st op).1 (f.trans (step_frame st op)) (scaleOK_step st h op)
    simp only [run, specRun]
    rw [← e]
    simp only
    rw [← ih']

/-- [F] **refinement of a whole history**: the user-level view of the final state and all
results are those of the overwrite specification run on the user-level view of the initial
state (guard and patterns are those of the initial state: they never change) -/
theorem abs_run_eq_spec (st : State α) (h : st.ScaleOK) (ops : List (Op α)) :
    ((run st ops).1.abs, (run st ops).2)
      = specRun (checkDataUpdateAllowed st) st.P st.A st.abs ops :=
  abs_run_eq_spec_from st st (.refl st) h ops

end opsAbs

/-! ### non-vacuity: a concrete equilibrated 1×1 problem over `ℚ` -/

section example_
/-- internal data `P̂ = 8 = 1·(2·2)·2`, `q̂ = 4`, `Â = 6 = 1·(3·2)`, `b̂ = 3` for the user data
`P = 1, q = 1, A = 1, b = 1` with `d = 2`, `e = 3`, `c = 2` -/
def exStateQ : State ℚ :=
  { P := ⟨1, 1, #[0, 1], #[0], #[8]⟩, q := #[4], A := ⟨1, 1, #[0, 1], #[0], #[6]⟩, b := #[3],
    d := #[2], dinv := #[1/2], e := #[3], einv := #[1/3], c := 2,
    normq := none, normb := none, presolved := false, decomposed := false,
    kkt := #[8, 6, 0], mapP := #[0], mapA := #[1], diagFull := #[0, 2],
    ldl := #[8, 6, 0], atoPAPt := #[0, 1, 2], ldlDiagShifted := false }

theorem exStateQ_scaleOK : exStateQ.ScaleOK := by
  refine ⟨by decide, ?_, ?_, ?_, ?_⟩ <;> intro k hk <;>
    (have hk0 : k = 0 := by simpa [exStateQ] using hk) <;> subst hk0 <;> decide

/-- the hypotheses of `abs_updateP_eq_spec` hold for `exStateQ`, and the conclusion says what
it should: after `update_P(&[5])` the user-level `P` is `[5]` (internally `5·(2·2)·2 = 40`) -/
example : (updateP exStateQ (.slice #[5])).1.abs.P = #[5] ∧
    (updateP exStateQ (.slice #[5])).1.P.nzval = #[40] := by
  constructor
  · have := congrArg (fun x => x.1.P) (abs_updateP_eq_spec exStateQ exStateQ_scaleOK (.slice #[5]))
    simp only at this
    rw [this]
    rfl
  · simp [updateP, checkDataUpdateAllowed, updateMatrix, updateMatrixSlice, exStateQ, scaleFull,
      rowOf, colOf]
    norm_num

/-- `abs_step_eq_spec` / `abs_run_eq_spec` instantiate (with any `FloatLike ℚ`; the update
operations do not use it) -/
example : True := by
  let _ : FloatLike ℚ :=
    ⟨id, id, id, fun a _ => a, max, min, abs, fun _ => false, fun _ => true, 0, fun n => n⟩
  have := abs_run_eq_spec exStateQ exStateQ_scaleOK
    [.updateP (.pairs #[0] #[7]), .updateData .empty0 (.slice #[2]) (.slice #[1, 2]) .empty0]
  trivial

end example_

end Clarabel.Update
