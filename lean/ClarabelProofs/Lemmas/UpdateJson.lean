/-
  `save_to_file` writes the user-level data:
  * with equilibration off (`d = e = 1`, `c = 1`) every written number is the internal number
    multiplied by literal ones only — no arithmetic law is used, so this holds for `Float`;
  * over a field, what is written is exactly the abstraction `State.abs` of C08.
-/
import ClarabelModel.Json
import ClarabelProofs.Lemmas.UpdateAbs

namespace Clarabel.Json

open Update

section structural
variable {α : Type}

theorem getD_of_getElem? (a : Array α) (i : Nat) (d x : α) (h : a[i]? = some x) :
    a.getD i d = x := by
  rw [Array.getD_eq_getD_getElem?, h]; rfl

variable [Mul α] [Div α] [OfNat α 0] [OfNat α 1]

/-- [S] with equilibration off (`dinv = einv = 1`, `c = 1`) every saved entry is the internal
entry multiplied / divided by literal ones only (operation order of the Rust code); no
arithmetic law is used, so the statement holds for `Float` as it is -/
theorem saveData_exact_when_off (st : State α)
    (hd : ∀ i, i < st.dinv.size → st.dinv[i]? = some 1)
    (he : ∀ i, i < st.einv.size → st.einv[i]? = some 1)
    (hc : st.c = 1)
    (hP : ∀ k, k < st.P.nzval.size →
      rowOf st.P k < st.dinv.size ∧ colOf st.P.colptr k < st.dinv.size)
    (hA : ∀ k, k < st.A.nzval.size →
      rowOf st.A k < st.einv.size ∧ colOf st.A.colptr k < st.dinv.size)
    (hq : st.q.size ≤ st.dinv.size) (hb : st.b.size ≤ st.einv.size) :
    (∀ k (h : k < st.P.nzval.size),
        (saveData st).P[k]? = some (st.P.nzval[k] * (1 * 1) * (1 / 1))) ∧
    (∀ k (h : k < st.q.size), (saveData st).q[k]? = some (st.q[k] * 1 * (1 / 1))) ∧
    (∀ k (h : k < st.A.nzval.size), (saveData st).A[k]? = some (st.A.nzval[k] * (1 * 1))) ∧
    (∀ k (h : k < st.b.size), (saveData st).b[k]? = some (st.b[k] * 1)) := by
  refine ⟨?_, ?_, ?_, ?_⟩
  · intro k h
    have h1 := getD_of_getElem? st.dinv _ 0 1 (hd _ (hP k h).1)
    have h2 := getD_of_getElem? st.dinv _ 0 1 (hd _ (hP k h).2)
    simp only [saveData, Array.getElem?_mapIdx, Array.getElem?_eq_getElem h, Option.map_some,
      scaleFull, h1, h2, hc]
  · intro k h
    have h1 := getD_of_getElem? st.dinv _ 0 1 (hd k (Nat.lt_of_lt_of_le h hq))
    simp only [saveData, Array.getElem?_mapIdx, Array.getElem?_eq_getElem h, Option.map_some,
      vscaleFull, h1, hc]
  · intro k h
    have h1 := getD_of_getElem? st.einv _ 0 1 (he _ (hA k h).1)
    have h2 := getD_of_getElem? st.dinv _ 0 1 (hd _ (hA k h).2)
    simp only [saveData, Array.getElem?_mapIdx, Array.getElem?_eq_getElem h, Option.map_some,
      scaleFull, h1, h2]
  · intro k h
    have h1 := getD_of_getElem? st.einv _ 0 1 (he k (Nat.lt_of_lt_of_le h hb))
    simp only [saveData, Array.getElem?_mapIdx, Array.getElem?_eq_getElem h, Option.map_some,
      vscaleFull, h1]

end structural

section field
variable {α : Type} [Field α]

/-- [F] over a field, with `dinv = 1/d` and `einv = 1/e` entrywise, the saved data is the
user-level abstraction `State.abs` of the solver state (out-of-range reads are `0` on both
sides and `0⁻¹ = 0`, so the hypotheses hold for every state with `dinv.size = d.size`,
`einv.size = e.size`) -/
theorem saveData_eq_abs (st : State α)
    (hdinv : ∀ i, st.dinv.getD i 0 = (st.d.getD i 0)⁻¹)
    (heinv : ∀ i, st.einv.getD i 0 = (st.e.getD i 0)⁻¹) :
    saveData st = st.abs := by
  simp only [saveData, State.abs, absMat, absVec, UserData.mk.injEq]
  refine ⟨?_, ?_, ?_, ?_⟩
  · congr 1; funext k v
    simp only [scaleFull, hdinv]
    ring
  · congr 1; funext k v
    simp only [vscaleFull, hdinv]
    ring
  · congr 1; funext k v
    simp only [scaleFull, hdinv, heinv]
    ring
  · congr 1; funext k v
    simp only [vscaleFull, heinv]
    ring

end field

/-! ### non-vacuity -/

section example_

/-- the hypotheses of `saveData_eq_abs` hold for the equilibrated 1×1 state `exStateQ`
(`dinv = [1/2]`, `d = [2]`, …) -/
example : saveData exStateQ = exStateQ.abs :=
  saveData_eq_abs exStateQ
    (by intro i; cases i <;> simp [exStateQ])
    (by intro i; cases i <;> simp [exStateQ])

/-- `exStateQ` with equilibration switched off -/
def exOff : State ℚ := { exStateQ with d := #[1], dinv := #[1], e := #[1], einv := #[1], c := 1 }

/-- the hypotheses of `saveData_exact_when_off` hold for `exOff` -/
example : (saveData exOff).P[0]? = some (8 * (1 * 1) * (1 / 1)) :=
  (saveData_exact_when_off exOff
    (by intro i hi; have : i = 0 := by simpa [exOff] using hi
        subst this; rfl)
    (by intro i hi; have : i = 0 := by simpa [exOff] using hi
        subst this; rfl)
    rfl
    (by intro k hk; have : k = 0 := by simpa [exOff, exStateQ] using hk
        subst this; decide)
    (by intro k hk; have : k = 0 := by simpa [exOff, exStateQ] using hk
        subst this; decide)
    (by decide) (by decide)).1 0 (by decide)

end example_

end Clarabel.Json
