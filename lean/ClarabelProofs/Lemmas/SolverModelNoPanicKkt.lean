/-
  Panic-freedom of the whole-solver model (C04) — stage "linear solver object", part 2:
  `KktSolver` (`DirectLDLKKTSolver` with the QDLDL engine).

  * `KktInvW specs n m K` : invariant of the object before an `update` (what `KktSolver.new`
                            builds; the factorisation may still be symbolic)
  * `KktInvS specs n m K` : after an `update` (numeric factorisation present)
  * `kktTotal2`           : `KktTotal2 (KktInvW specs n m) (KktInvS specs n m) specs n m st`
                            from `SymvOK α` (totality of `_csc_symv`, `symv_ok` of
                            `SolverModelNoPanicTop.lean`) and the `get_Hs` hypothesis.

  The QDLDL part (`update_values`, `scale_values`, `refactor` without `ZeroPivot`, `solve`) is
  `SolverModelNoPanicKktQdldl.lean`.  All structural ([S]).
-/
import ClarabelProofs.Lemmas.SolverModelNoPanicKktQdldl
import ClarabelProofs.Lemmas.KktUpdateTotal

namespace Clarabel.Solver
open Clarabel Qdldl Residuals
open Clarabel.Lemmas.KktUpdateTotal (updateValuesKKT_exists scaleValuesKKT_exists)

set_option linter.unusedSectionVars false
set_option linter.unusedVariables false

variable {α : Type}

section
variable [Add α] [Sub α] [Mul α] [Div α] [Neg α] [OfNat α 0] [OfNat α 1] [OfNat α 2]
  [OfNat α 100] [OfNat α 1000] [LT α] [DecidableLT α] [LE α] [DecidableLE α] [BEq α] [FloatLike α]

/-- totality of `_csc_symv` on a canonical square encoding (`symv_ok` of
`SolverModelNoPanicTop.lean`), as a named hypothesis -/
def SymvOK (α : Type) [Add α] [Mul α] [OfNat α 0] [BEq α] : Prop :=
  ∀ (A : Csc α) (x y : Array α) (a b : α), C16.Canonical A → A.m = A.n → x.size = A.n →
    y.size = A.n → ∃ r, Residuals.symv A y x a b = .ok r

/-- an expansion map of the solver against the template `expansion_map` allocates for the cone:
same kind, same vector lengths, every index a slot of the KKT value array -/
def SparseMapOK (nnz : Nat) : Kkt.SparseMap → Kkt.SparseMap → Prop
  | .soc u v D, .soc u' v' _ => u.size = u'.size ∧ v.size = v'.size ∧ D.size = 2 ∧
      (∀ i ∈ u.toList, i < nnz) ∧ (∀ i ∈ v.toList, i < nnz) ∧ ∀ i ∈ D.toList, i < nnz
  | _, _ => False

/-- **invariant of the linear solver object** (factorisation possibly still symbolic) -/
structure KktInvW (specs : List Kkt.ConeSpec) (n m : Nat) (K : KktSolver α) : Prop where
  n_eq : K.n = n
  m_eq : K.m = m
  p_eq : K.p = Kkt.pdimAll K.map.sparse_maps
  x : K.x.size = n + m + K.p
  b : K.b.size = n + m + K.p
  work1 : K.work1.size = n + m + K.p
  work2 : K.work2.size = n + m + K.p
  dsigns : K.dsigns.size = n + m + K.p
  hs : K.Hsblocks.size = Kkt.hsblocksLen specs
  hsmap : K.map.Hsblocks.size = Kkt.hsblocksLen specs
  hsmap_lt : ∀ i ∈ K.map.Hsblocks.toList, i < K.KKT.nzval.size
  diag_size : K.map.diag_full.size = n + m + K.p
  diag_lt : ∀ i ∈ K.map.diag_full.toList, i < K.KKT.nzval.size
  maps : List.Forall₂ (SparseMapOK K.KKT.nzval.size) K.map.sparse_maps.toList
    (specs.filterMap Kkt.expansionMap)
  kkt_m : K.KKT.m = n + m + K.p
  kkt_n : K.KKT.n = n + m + K.p
  canon : C16.Canonical K.KKT
  ldl : QInv (n + m + K.p) K.KKT.nzval.size K.ldl

/-- the linear solver object after `update`: a numeric factorisation is present -/
structure KktInvS (specs : List Kkt.ConeSpec) (n m : Nat) (K : KktSolver α) : Prop where
  w : KktInvW specs n m K
  s : QInvS (n + m + K.p) K.KKT.nzval.size K.ldl

theorem canonical_set_nzval {M : Csc α} (h : C16.Canonical M) (nz : Array α) (hnz : nz.size = M.nzval.size) :
    C16.Canonical { M with nzval := nz } :=
  ⟨by show M.rowval.size = nz.size; rw [hnz]; exact h.len_eq, h.colptr_size, h.colptr_last,
    h.colptr_mono, h.rows_sorted, h.rows_bound⟩

/-- what the value updates change: the stored values of the two copies of the matrix -/
def VFrame (K K' : KktSolver α) : Prop :=
  ∃ (nz : Array α) (F' : Qdldl.Factorisation α), nz.size = K.KKT.nzval.size ∧ NzOnly K.ldl F' ∧
    K' = { K with KKT := { K.KKT with nzval := nz }, ldl := F' }

theorem VFrame.rfl' (K : KktSolver α) : VFrame K K := ⟨K.KKT.nzval, K.ldl, rfl, NzOnly.rfl' _, rfl⟩

theorem VFrame.trans {K K' K'' : KktSolver α} (h : VFrame K K') (h' : VFrame K' K'') : VFrame K K'' := by
  obtain ⟨nz, F', hnz, ⟨z1, hz1, rfl⟩, rfl⟩ := h
  obtain ⟨nz2, F'', hnz2, ⟨z2, hz2, rfl⟩, rfl⟩ := h'
  exact ⟨nz2, _, by rw [hnz2]; exact hnz, ⟨z2, by rw [hz2]; exact hz1, rfl⟩, rfl⟩

theorem VFrame.inv {specs : List Kkt.ConeSpec} {n m : Nat} {K K' : KktSolver α} (h : VFrame K K')
    (hK : KktInvW specs n m K) : KktInvW specs n m K' := by
  obtain ⟨nz, F', hnz, hF, rfl⟩ := h
  exact
    { n_eq := hK.n_eq, m_eq := hK.m_eq, p_eq := hK.p_eq, x := hK.x, b := hK.b, work1 := hK.work1,
      work2 := hK.work2, dsigns := hK.dsigns, hs := hK.hs, hsmap := hK.hsmap
      hsmap_lt := by intro i hi; show i < nz.size; rw [hnz]; exact hK.hsmap_lt i hi
      diag_size := hK.diag_size
      diag_lt := by intro i hi; show i < nz.size; rw [hnz]; exact hK.diag_lt i hi
      maps := by show List.Forall₂ (SparseMapOK nz.size) _ _; rw [hnz]; exact hK.maps
      kkt_m := hK.kkt_m, kkt_n := hK.kkt_n
      canon := canonical_set_nzval hK.canon nz hnz
      ldl := by show QInv _ nz.size F'; rw [hnz]; exact hF.inv hK.ldl }

theorem VFrame.map {K K' : KktSolver α} (h : VFrame K K') : K'.map = K.map := by
  obtain ⟨nz, F', hnz, hF, rfl⟩ := h; rfl

theorem VFrame.nnz {K K' : KktSolver α} (h : VFrame K K') : K'.KKT.nzval.size = K.KKT.nzval.size := by
  obtain ⟨nz, F', hnz, hF, rfl⟩ := h; exact hnz

/-- [S] the invariant only sees the lengths of the four work vectors -/
theorem KktInvW.set_vecs {specs : List Kkt.ConeSpec} {n m : Nat} {K : KktSolver α}
    (hK : KktInvW specs n m K) (x b w1 w2 : Array α) (hx : x.size = n + m + K.p)
    (hb : b.size = n + m + K.p) (h1 : w1.size = n + m + K.p) (h2 : w2.size = n + m + K.p) (dr : α) :
    KktInvW specs n m { K with x := x, b := b, work1 := w1, work2 := w2, diagonalRegularizer := dr } :=
  { n_eq := hK.n_eq, m_eq := hK.m_eq, p_eq := hK.p_eq, x := hx, b := hb, work1 := h1,
    work2 := h2, dsigns := hK.dsigns, hs := hK.hs, hsmap := hK.hsmap, hsmap_lt := hK.hsmap_lt,
    diag_size := hK.diag_size, diag_lt := hK.diag_lt, maps := hK.maps, kkt_m := hK.kkt_m,
    kkt_n := hK.kkt_n, canon := hK.canon, ldl := hK.ldl }

theorem KktInvS.set_vecs {specs : List Kkt.ConeSpec} {n m : Nat} {K : KktSolver α}
    (hK : KktInvS specs n m K) (x b w1 w2 : Array α) (hx : x.size = n + m + K.p)
    (hb : b.size = n + m + K.p) (h1 : w1.size = n + m + K.p) (h2 : w2.size = n + m + K.p) (dr : α) :
    KktInvS specs n m { K with x := x, b := b, work1 := w1, work2 := w2, diagonalRegularizer := dr } :=
  ⟨hK.w.set_vecs x b w1 w2 hx hb h1 h2 dr, hK.s⟩

/-! ### `solve` side -/

/-- [S] `_get_refine_error` is total (given `SymvOK`) -/
theorem refineError_ok (hsymv : SymvOK α) {KKT : Csc α} {N : Nat} (hc : C16.Canonical KKT)
    (hm : KKT.m = N) (hn : KKT.n = N) (b ξ : Array α) (hb : b.size = N) (hξ : ξ.size = N) :
    ∃ r, refineError b KKT ξ = .ok r ∧ r.2.size = N := by
  obtain ⟨e, he⟩ := hsymv KKT ξ b (-1) 1 hc (by omega) (by omega) (by omega)
  refine ⟨(Vec.normInf e, e), ?_, by rw [symv_size he]; exact hb⟩
  unfold refineError
  rw [he]; rfl

/-- [S] the refinement loop is total and keeps the lengths of its three vectors -/
theorem irLoop_ok (hsymv : SymvOK α) {F : Qdldl.Factorisation α} {N nnz : Nat} (hF : QInvS N nnz F)
    {KKT : Csc α} (hc : C16.Canonical KKT) (hm : KKT.m = N) (hn : KKT.n = N) (b : Array α)
    (hb : b.size = N) (normb : α) (st : LinSettings α) :
    ∀ (k : Nat) (s : IRState α), s.x.size = N → s.dx.size = N → s.e.size = N →
      ∃ r, irLoop F KKT b normb st k s = .ok r ∧ r.2.x.size = N ∧ r.2.dx.size = N ∧ r.2.e.size = N := by
  intro k
  induction k with
  | zero => intro s h1 h2 h3; exact ⟨(true, s), rfl, h1, h2, h3⟩
  | succ k ih =>
    intro s h1 h2 h3
    unfold irLoop
    split
    · exact ⟨(true, s), rfl, h1, h2, h3⟩
    · obtain ⟨dx, hdx, hdxs⟩ := qdldl_solve_ok hF s.e h3
      have hcmp : (dx.size != s.x.size) = false := by simp [hdxs, h1]
      have hax : (Vec.axpby 1 s.x 1 dx).size = N := by
        rw [axpby_size _ _ _ _ (by omega)]; exact hdxs
      obtain ⟨r, hr, hrs⟩ := refineError_ok hsymv hc hm hn b (Vec.axpby 1 s.x 1 dx) hb hax
      obtain ⟨norme, e⟩ := r
      simp only [hdx, hcmp, hr, bind, Except.bind, Bool.false_eq_true, ↓reduceIte]
      split
      · exact ⟨_, rfl, h1, hax, hrs⟩
      · split
        · split
          · exact ⟨_, rfl, hax, h1, hrs⟩
          · exact ⟨_, rfl, h1, hax, hrs⟩
        · exact ih _ hax h1 hrs

/-- [S] `iterative_refinement` is total on `KktInvS` and keeps it -/
theorem iterativeRefinement_ok (hsymv : SymvOK α) {specs : List Kkt.ConeSpec} {n m : Nat}
    {K : KktSolver α} (hK : KktInvS specs n m K) (st : LinSettings α) :
    ∃ r, K.iterativeRefinement st = .ok r ∧ KktInvS specs n m r.2 := by
  have hw := hK.w
  obtain ⟨r0, hr0, hr0s⟩ := refineError_ok hsymv hw.canon hw.kkt_m hw.kkt_n K.b K.x hw.b hw.x
  obtain ⟨norme, e⟩ := r0
  unfold KktSolver.iterativeRefinement
  simp only [hr0, bind, Except.bind]
  split
  · exact ⟨_, rfl, hK.set_vecs K.x K.b e K.work2 hw.x hw.b hr0s hw.work2 K.diagonalRegularizer⟩
  · obtain ⟨r, hr, hx, hdx, he⟩ := irLoop_ok hsymv hK.s hw.canon hw.kkt_m hw.kkt_n K.b hw.b
      (Vec.normInf K.b) st st.irMaxIter { x := K.x, dx := K.work2, e := e, norme := norme } hw.x hw.work2 hr0s
    obtain ⟨ok, s⟩ := r
    simp only [hr]
    exact ⟨_, rfl, hK.set_vecs s.x K.b s.e s.dx hx hw.b he hdx K.diagonalRegularizer⟩

/-- [S] `setrhs; solve` is total on `KktInvS`, returns parts of lengths `n`, `m`, keeps `KktInvS` -/
theorem setrhs_solve_ok (hsymv : SymvOK α) {specs : List Kkt.ConeSpec} {n m : Nat}
    {K : KktSolver α} (hK : KktInvS specs n m K) (st : LinSettings α) (rx rz : Array α)
    (hrx : rx.size = n) (hrz : rz.size = m) :
    ∃ r, (K.setrhs rx rz >>= fun K1 => K1.solve st) = .ok r ∧ r.2.1.size = n ∧ r.2.2.1.size = m
      ∧ KktInvS specs n m r.2.2.2 := by
  have hw := hK.w
  have hbs : (rx ++ rz ++ Array.replicate K.p (0 : α)).size = n + m + K.p := by
    simp only [Array.size_append, Array.size_replicate, hrx, hrz]
  have hK1 := hK.set_vecs K.x (rx ++ rz ++ Array.replicate K.p 0) K.work1 K.work2 hw.x hbs hw.work1 hw.work2
    K.diagonalRegularizer
  have hset : K.setrhs rx rz = .ok { K with b := rx ++ rz ++ Array.replicate K.p 0 } := by
    unfold KktSolver.setrhs
    have c1 : (rx.size != K.n) = false := by simp [hrx, hw.n_eq]
    have c2 : (rz.size != K.m) = false := by simp [hrz, hw.m_eq]
    have c3 : (K.b.size != K.n + K.m + K.p) = false := by simp [hw.b, hw.n_eq, hw.m_eq]
    simp only [c1, c2, c3, Bool.false_eq_true, ↓reduceIte, bind, Except.bind, pure, Except.pure]
  rw [bind_ok_of hset]
  generalize hK1def : ({ K with b := rx ++ rz ++ Array.replicate K.p 0 } : KktSolver α) = K1 at hK1
  have hw1 := hK1.w
  -- the triangular solves
  obtain ⟨x, hx, hxs⟩ := qdldl_solve_ok hK1.s K1.b hw1.b
  have hK2 := hK1.set_vecs x K1.b K1.work1 K1.work2 hxs hw1.b hw1.work1 hw1.work2 K1.diagonalRegularizer
  have tail : ∀ (r : Bool × KktSolver α), KktInvS specs n m r.2 →
      ∃ r', (if r.2.x.size < r.2.n + r.2.m then (throw (ModelErr.panic "getlhs: range") : MErr _)
          else pure (r.1, r.2.getlhs.1, r.2.getlhs.2, r.2)) = .ok r' ∧ r'.2.1.size = n ∧
        r'.2.2.1.size = m ∧ KktInvS specs n m r'.2.2.2 := by
    rintro ⟨ok, K3⟩ h3
    have h3w := h3.w
    have hxs3 := h3w.x
    dsimp only at hxs3 ⊢
    rw [if_neg (by rw [hxs3, h3w.n_eq, h3w.m_eq]; omega)]
    refine ⟨_, rfl, ?_, ?_, h3⟩
    · show (K3.x.extract 0 K3.n).size = n
      rw [Array.size_extract, h3w.n_eq, hxs3]; omega
    · show (K3.x.extract K3.n (K3.n + K3.m)).size = m
      rw [Array.size_extract, h3w.n_eq, h3w.m_eq, hxs3]; omega
  unfold KktSolver.solve
  have c0 : (K1.x.size != K1.b.size) = false := by simp [hw1.x, hw1.b]
  simp only [c0, hx, Bool.false_eq_true, ↓reduceIte, bind, Except.bind]
  split
  · obtain ⟨r, hr, hrI⟩ := iterativeRefinement_ok hsymv hK2 st
    simp only [hr]
    obtain ⟨r', hr', h⟩ := tail r hrI
    refine ⟨r', ?_, h⟩
    split at hr'
    · cases hr'
    · rename_i hlt
      simp only [hlt, ↓reduceIte]
      exact hr'
  · obtain ⟨r', hr', h⟩ := tail (x.all (fun v => FloatLike.isFinite v), _) hK2
    refine ⟨r', ?_, h⟩
    split at hr'
    · cases hr'
    · rename_i hlt
      simp only [pure, Except.pure]
      dsimp only at hlt
      simp only [hlt, ↓reduceIte]
      exact hr'


/-! ### `update` side -/

variable {specs : List Kkt.ConeSpec} {n m : Nat}

/-- [S] `_update_values` (both copies of the matrix) is total for in-range indices -/
theorem updateValues_ok {K : KktSolver α} (hK : KktInvW specs n m K) (index : Array Nat) (values : Array α)
    (hidx : ∀ i ∈ index.toList, i < K.KKT.nzval.size) (hlen : index.size ≤ values.size) :
    ∃ K', K.updateValues index values = .ok K' ∧ VFrame K K' := by
  obtain ⟨nz, hnz, hs⟩ := updateValuesKKT_exists K.KKT.nzval index values hidx
  obtain ⟨F', hF, hFn⟩ := qdldl_updateValues_ok K.ldl index values
    (by rw [hK.ldl.map_size]; exact hidx) hK.ldl.map_lt hlen
  refine ⟨_, ?_, ⟨nz, F', hs, hFn, rfl⟩⟩
  unfold KktSolver.updateValues
  simp only [hnz, hF, bind, Except.bind, pure, Except.pure]

/-- [S] `_scale_values` is total for in-range indices -/
theorem scaleValues_ok {K : KktSolver α} (hK : KktInvW specs n m K) (index : Array Nat) (scale : α)
    (hidx : ∀ i ∈ index.toList, i < K.KKT.nzval.size) :
    ∃ K', K.scaleValues index scale = .ok K' ∧ VFrame K K' := by
  obtain ⟨nz, hnz, hs⟩ := scaleValuesKKT_exists K.KKT.nzval index scale hidx
  obtain ⟨F', hF, hFn⟩ := qdldl_scaleValues_ok K.ldl index scale
    (by rw [hK.ldl.map_size]; exact hidx) hK.ldl.map_lt
  refine ⟨_, ?_, ⟨nz, F', hs, hFn, rfl⟩⟩
  unfold KktSolver.scaleValues
  simp only [hnz, hF, bind, Except.bind, pure, Except.pure]

/-- [S] `csc_update_sparsecone` of a sparse second-order cone is total -/
theorem updateSparseSoc_ok {K : KktSolver α} (hK : KktInvW specs n m K) (mp : Kkt.SparseMap) (d : Nat)
    (hmp : SparseMapOK K.KKT.nzval.size mp
      (.soc (Array.replicate d 0) (Array.replicate d 0) (Array.replicate 2 0)))
    (c : Soc.Cone α) (sp : Soc.Sparse α) (hsp : c.sparse = some sp) (hu : sp.u.size = d) (hv : sp.v.size = d) :
    ∃ K', K.updateSparseSoc mp c = .ok K' ∧ VFrame K K' := by
  cases mp with
  | genpow p q r D => exact absurd hmp id
  | soc mu mv mD =>
    obtain ⟨h1, h2, h3, h4, h5, h6⟩ := hmp
    simp only [Array.size_replicate] at h1 h2
    obtain ⟨K1, e1, f1⟩ := updateValues_ok hK mu sp.u h4 (by omega)
    have hK1 := f1.inv hK
    obtain ⟨K2, e2, f2⟩ := updateValues_ok hK1 mv sp.v (by rw [f1.nnz]; exact h5) (by omega)
    have hK2 := f2.inv hK1
    have n2 : K2.KKT.nzval.size = K.KKT.nzval.size := by rw [f2.nnz, f1.nnz]
    obtain ⟨K3, e3, f3⟩ := scaleValues_ok hK2 mu (-(c.eta * c.eta)) (by rw [n2]; exact h4)
    have hK3 := f3.inv hK2
    have n3 : K3.KKT.nzval.size = K.KKT.nzval.size := by rw [f3.nnz, n2]
    obtain ⟨K4, e4, f4⟩ := scaleValues_ok hK3 mv (-(c.eta * c.eta)) (by rw [n3]; exact h5)
    have hK4 := f4.inv hK3
    have n4 : K4.KKT.nzval.size = K.KKT.nzval.size := by rw [f4.nnz, n3]
    obtain ⟨K5, e5, f5⟩ := updateValues_ok hK4 mD #[-(c.eta * c.eta), c.eta * c.eta] (by rw [n4]; exact h6)
      (by rw [h3]; rfl)
    refine ⟨K5, ?_, f1.trans (f2.trans (f3.trans (f4.trans f5)))⟩
    simp only [KktSolver.updateSparseSoc, hsp, e1, e2, e3, e4, bind, Except.bind]
    exact e5

/-- the body of the loop over the cones in `update` -/
def sparseStep (st : KktSolver α × Nat) (c : ConeSt α) : MErr (KktSolver α × Nat) :=
  match c with
  | .soc sc =>
    if sc.sparse.isSome then do
      let thismap ← getE st.1.map.sparse_maps st.2 "sparse_map_iter.next().unwrap()"
      let K ← st.1.updateSparseSoc thismap sc
      pure (K, st.2 + 1)
    else pure st
  | _ => pure st

theorem drop_cons_inv {β : Type} {l : List β} {c : Nat} {a : β} {t : List β} (h : l.drop c = a :: t) :
    l[c]? = some a ∧ l.drop (c + 1) = t := by
  constructor
  · have : (l.drop c)[0]? = some a := by rw [h]; rfl
    rw [List.getElem?_drop] at this
    simpa using this
  · have : (l.drop c).drop 1 = t := by rw [h]; rfl
    rw [List.drop_drop] at this
    exact this

/-- [S] the loop over the cones (with the sparse-map counter) is total -/
theorem sparseFold_ok (K0 : KktSolver α) (hK0 : KktInvW specs n m K0) :
    ∀ (cones : List (ConeSt α)) (K : KktSolver α) (c : Nat), VFrame K0 K → ConesFull cones →
      List.Forall₂ (SparseMapOK K0.KKT.nzval.size) (K0.map.sparse_maps.toList.drop c)
        ((cones.map ConeSt.kktSpec).filterMap Kkt.expansionMap) →
      ∃ r, cones.foldlM sparseStep (K, c) = .ok r ∧ VFrame K0 r.1 := by
  intro cones
  induction cones with
  | nil => intro K c hf _ _; exact ⟨(K, c), rfl, hf⟩
  | cons cn rest ih =>
    intro K c hf hfull hmaps
    have hrest := hfull.tail
    have hcn := hfull.head
    rw [List.foldlM_cons]
    cases cn with
    | zero dd =>
      have : sparseStep (K, c) (ConeSt.zero dd) = .ok (K, c) := rfl
      rw [this]
      simp only [List.map_cons, List.filterMap_cons, ConeSt.kktSpec, Kkt.expansionMap] at hmaps
      exact ih K c hf hrest hmaps
    | nonneg Kn =>
      have : sparseStep (K, c) (ConeSt.nonneg Kn) = .ok (K, c) := rfl
      rw [this]
      simp only [List.map_cons, List.filterMap_cons, ConeSt.kktSpec, Kkt.expansionMap] at hmaps
      exact ih K c hf hrest hmaps
    | soc sc =>
      obtain ⟨_, _, _, hsome, hsz⟩ := hcn
      cases hsp : sc.sparse with
      | none =>
        have hnot : ¬ sc.dim > Kkt.socNoExpansionMaxSize := by
          rw [hsp] at hsome
          have : decide (sc.dim > Soc.noExpansionMaxSize) = false := by simpa using hsome.symm
          simpa [Soc.noExpansionMaxSize, Kkt.socNoExpansionMaxSize] using this
        have : sparseStep (K, c) (ConeSt.soc sc) = .ok (K, c) := by
          simp only [sparseStep, hsp, Option.isSome_none, Bool.false_eq_true, ↓reduceIte, pure, Except.pure]
        rw [this]
        simp only [List.map_cons, List.filterMap_cons, ConeSt.kktSpec, Kkt.expansionMap, hnot,
          ↓reduceIte] at hmaps
        exact ih K c hf hrest hmaps
      | some sp =>
        have hyes : sc.dim > Kkt.socNoExpansionMaxSize := by
          rw [hsp] at hsome
          have : decide (sc.dim > Soc.noExpansionMaxSize) = true := by simpa using hsome.symm
          simpa [Soc.noExpansionMaxSize, Kkt.socNoExpansionMaxSize] using this
        obtain ⟨hu, hv⟩ := hsz sp hsp
        have hm' : List.Forall₂ (SparseMapOK K0.KKT.nzval.size) (K0.map.sparse_maps.toList.drop c)
            (Kkt.SparseMap.soc (Array.replicate sc.dim 0) (Array.replicate sc.dim 0) (Array.replicate 2 0) ::
              ((rest.map ConeSt.kktSpec).filterMap Kkt.expansionMap)) := by
          simp only [List.map_cons, List.filterMap_cons, ConeSt.kktSpec, Kkt.expansionMap, hyes,
            ↓reduceIte] at hmaps
          exact hmaps
        cases hd : K0.map.sparse_maps.toList.drop c with
        | nil => rw [hd] at hm'; cases hm'
        | cons mp tl =>
          rw [hd] at hm'
          cases hm' with
          | cons hmp htl =>
            obtain ⟨hget, hdrop⟩ := drop_cons_inv hd
            have hK := hf.inv hK0
            obtain ⟨K', hK', fK'⟩ := updateSparseSoc_ok hK mp sc.dim (by rw [hf.nnz]; exact hmp) sc sp hsp hu hv
            have hg : getE K.map.sparse_maps c "sparse_map_iter.next().unwrap()" = .ok mp := by
              rw [hf.map]
              unfold getE
              rw [← Array.getElem?_toList, hget]; rfl
            have : sparseStep (K, c) (ConeSt.soc sc) = .ok (K', c + 1) := by
              simp only [sparseStep, hsp, Option.isSome_some, ↓reduceIte, hg, hK', bind, Except.bind, pure,
                Except.pure]
            rw [this]
            exact ih K' (c + 1) (hf.trans fK') hrest (by rw [hdrop]; exact htl)

theorem mapM_getE_ok (nz : Array α) (site : String) :
    ∀ (l : List Nat), (∀ i ∈ l, i < nz.size) →
      ∃ dk, l.mapM (fun i => getE nz i site) = .ok dk ∧ dk.length = l.length := by
  intro l
  induction l with
  | nil => intro _; exact ⟨[], rfl, rfl⟩
  | cons i t ih =>
    intro h
    obtain ⟨dk, hdk, hl⟩ := ih (fun j hj => h j (List.mem_cons_of_mem _ hj))
    have hi : i < nz.size := h i (List.mem_cons_self ..)
    refine ⟨nz[i] :: dk, ?_, by simp [hl]⟩
    rw [List.mapM_cons, getE_ok _ _ _ hi, hdk]
    rfl

/-- [S] the two diagonal writes of `regularize_and_refactor` are total for in-range `diag_full` -/
theorem regularizeAndRestore_ok (nz : Array α) (diagFull : Array Nat) (dsigns : Array Int) (c p : α)
    (h : ∀ i ∈ diagFull.toList, i < nz.size) :
    ∃ r nzF, Kkt.regularizeAndRestore nz diagFull dsigns true c p = .ok (r, nzF) ∧
      r.diagKkt.size = diagFull.size ∧ r.diagShifted.size = diagFull.size ∧ r.nzval.size = nz.size := by
  obtain ⟨dk, hdk, hdl⟩ := mapM_getE_ok nz "KKT.nzval[diag_full]" diagFull.toList h
  have key : ∀ (sh : Array α) (e : α), sh.size = diagFull.size → ∃ (r : Kkt.Regularized α) (nzF : Array α),
      (Kkt.updateValuesKKT nz diagFull sh >>= fun nzFactor =>
        Kkt.updateValuesKKT nzFactor diagFull dk.toArray >>= fun nzval =>
          (pure ({ nzval := nzval, diagShifted := sh, diagKkt := dk.toArray, eps := e }, nzFactor) :
            MErr (Kkt.Regularized α × Array α))) = .ok (r, nzF) ∧
      r.diagKkt.size = diagFull.size ∧ r.diagShifted.size = diagFull.size ∧ r.nzval.size = nz.size := by
    intro sh e hsh
    obtain ⟨nzF, hnzF, hnzFs⟩ := updateValuesKKT_exists nz diagFull sh h
    obtain ⟨nzv, hnzv, hnzvs⟩ := updateValuesKKT_exists nzF diagFull dk.toArray (by rw [hnzFs]; exact h)
    refine ⟨{ nzval := nzv, diagShifted := sh, diagKkt := dk.toArray, eps := e }, nzF, ?_, ?_, hsh, ?_⟩
    · rw [hnzF]
      show (Kkt.updateValuesKKT nzF diagFull dk.toArray >>= fun nzval => _) = _
      rw [hnzv]
      rfl
    · simp [hdl]
    · show nzv.size = nz.size
      rw [hnzvs, hnzFs]
  unfold Kkt.regularizeAndRestore
  simp only [Bool.not_true, Bool.false_eq_true, ↓reduceIte]
  rw [hdk]
  exact key _ _ (by simp [hdl])

/-- [S] `regularize_and_refactor` is total on `KktInvW` and establishes `KktInvS` -/
theorem regularizeAndRefactor_ok {K : KktSolver α} (hK : KktInvW specs n m K) (st : LinSettings α) :
    ∃ r, K.regularizeAndRefactor st = .ok r ∧ KktInvS specs n m r.2 := by
  unfold KktSolver.regularizeAndRefactor
  split
  · -- static regularisation
    obtain ⟨r, nzF, hreg, hdks', hshs', hnn⟩ := regularizeAndRestore_ok K.KKT.nzval K.map.diag_full K.dsigns
      st.staticRegConstant st.staticRegProportional hK.diag_lt
    have hdks : r.diagKkt.size = n + m + K.p := by rw [hdks', hK.diag_size]
    have hshs : r.diagShifted.size = n + m + K.p := by rw [hshs', hK.diag_size]
    obtain ⟨F1, hF1, hF1n⟩ := qdldl_updateValues_ok K.ldl K.map.diag_full r.diagShifted
      (by rw [hK.ldl.map_size]; exact hK.diag_lt) hK.ldl.map_lt (by rw [hshs, hK.diag_size])
    obtain ⟨F2, hF2, hF2s⟩ := qdldl_refactor_ok (hF1n.inv hK.ldl)
    have c1 : (K.work1.size != r.diagKkt.size || K.work2.size != r.diagShifted.size) = false := by
      rw [hshs, hdks, hK.work1, hK.work2]; simp
    simp only [hreg, c1, hF1, hF2, unwrapQdldl, bind, Except.bind, Bool.false_eq_true, ↓reduceIte]
    refine ⟨_, rfl, ?_⟩
    have fr : VFrame K { K with KKT := { K.KKT with nzval := r.nzval }, ldl := K.ldl } :=
      ⟨r.nzval, K.ldl, hnn, NzOnly.rfl' _, rfl⟩
    have hW := (fr.inv hK).set_vecs K.x K.b r.diagKkt r.diagShifted hK.x hK.b hdks hshs r.eps
    exact
      { w :=
          { n_eq := hW.n_eq, m_eq := hW.m_eq, p_eq := hW.p_eq, x := hW.x, b := hW.b, work1 := hW.work1,
            work2 := hW.work2, dsigns := hW.dsigns, hs := hW.hs, hsmap := hW.hsmap,
            hsmap_lt := hW.hsmap_lt, diag_size := hW.diag_size, diag_lt := hW.diag_lt, maps := hW.maps,
            kkt_m := hW.kkt_m, kkt_n := hW.kkt_n, canon := hW.canon
            ldl := by show QInv _ r.nzval.size F2; rw [hnn]; exact hF2s.inv }
        s := by show QInvS _ r.nzval.size F2; rw [hnn]; exact hF2s }
  · obtain ⟨F2, hF2, hF2s⟩ := qdldl_refactor_ok hK.ldl
    simp only [hF2, unwrapQdldl, bind, Except.bind]
    refine ⟨_, rfl, ?_⟩
    exact
      { w :=
          { n_eq := hK.n_eq, m_eq := hK.m_eq, p_eq := hK.p_eq, x := hK.x, b := hK.b, work1 := hK.work1,
            work2 := hK.work2, dsigns := hK.dsigns, hs := hK.hs, hsmap := hK.hsmap,
            hsmap_lt := hK.hsmap_lt, diag_size := hK.diag_size, diag_lt := hK.diag_lt, maps := hK.maps,
            kkt_m := hK.kkt_m, kkt_n := hK.kkt_n, canon := hK.canon, ldl := hF2s.inv }
        s := hF2s }

/-- [S] **`KKTSolver::update` is total on `KktInvW` and establishes `KktInvS`** -/
theorem update_ok
    (hHs : ∀ cones : List (ConeSt α), ConesFull cones → ∃ hs, getHs cones = .ok hs ∧
      hs.size = Kkt.hsblocksLen (cones.map ConeSt.kktSpec))
    {K : KktSolver α} (hK : KktInvW specs n m K) (cones : List (ConeSt α)) (hfull : ConesFull cones)
    (hspecs : cones.map ConeSt.kktSpec = specs) (st : LinSettings α) :
    ∃ r, K.update cones st = .ok r ∧ KktInvS specs n m r.2 := by
  obtain ⟨hs, hhs, hhss⟩ := hHs cones hfull
  rw [hspecs] at hhss
  have hneg : (Vec.negate hs).size = Kkt.hsblocksLen specs := by
    unfold Vec.negate; simpa using hhss
  have hK0 : KktInvW specs n m { K with Hsblocks := Vec.negate hs } :=
    { n_eq := hK.n_eq, m_eq := hK.m_eq, p_eq := hK.p_eq, x := hK.x, b := hK.b, work1 := hK.work1,
      work2 := hK.work2, dsigns := hK.dsigns, hs := hneg, hsmap := hK.hsmap,
      hsmap_lt := hK.hsmap_lt, diag_size := hK.diag_size, diag_lt := hK.diag_lt, maps := hK.maps,
      kkt_m := hK.kkt_m, kkt_n := hK.kkt_n, canon := hK.canon, ldl := hK.ldl }
  obtain ⟨K1, hK1e, f1⟩ := updateValues_ok hK0 K.map.Hsblocks (Vec.negate hs) hK.hsmap_lt
    (by rw [hneg, hK.hsmap])
  have hK1 := f1.inv hK0
  obtain ⟨r, hr, fr⟩ := sparseFold_ok K1 hK1 cones K1 0 (VFrame.rfl' K1) hfull
    (by rw [hspecs]; exact hK1.maps)
  obtain ⟨r2, hr2, hS⟩ := regularizeAndRefactor_ok (fr.inv hK1) st
  refine ⟨r2, ?_, hS⟩
  unfold KktSolver.update
  have c1 : (hs.size != K.Hsblocks.size) = false := by simp [hhss, hK.hs]
  simp only [hhs, c1, bind, Except.bind, Bool.false_eq_true, ↓reduceIte]
  have hK1e' : KktSolver.updateValues { K with Hsblocks := Vec.negate hs } K.map.Hsblocks (Vec.negate hs)
      = .ok K1 := hK1e
  rw [hK1e']
  dsimp only
  erw [hr]
  exact hr2

/-- [S] **the linear solver object meets the interface the loop of `solve()` needs** -/
theorem kktTotal2 (hsymv : SymvOK α)
    (hHs : ∀ cones : List (ConeSt α), ConesFull cones → ∃ hs, getHs cones = .ok hs ∧
      hs.size = Kkt.hsblocksLen (cones.map ConeSt.kktSpec))
    (specs : List Kkt.ConeSpec) (n m : Nat) (st : LinSettings α) :
    KktTotal2 (KktInvW specs n m) (KktInvS specs n m) specs n m st where
  update := fun K cones hK hfull hspecs => update_ok hHs hK cones hfull hspecs st
  weaken := fun K hK => hK.w
  solve := fun K rx rz hK hrx hrz => setrhs_solve_ok hsymv hK st rx rz hrx hrz


/-
  `KktSolver.new` establishes `KktInvW`: `kktSolverNew_ok` in `SolverModelNoPanicKktNew.lean`
  (fully proved from `DataOK`, `ConesFull`, `PermOK`, `PivotOK`; the symbolic pass of `_qdldl_new`
  is `Qdldl.new_logical` of `QdldlHistoryMain.lean`).
-/

end

end Clarabel.Solver
