/-
  Lemmas about the index ranges of a composite cone (`ClarabelModel/KktRanges.lean`):
  closed form of every range, consecutiveness, disjointness, covering, and the link to the
  start offsets the assembly model uses (`rngConesStart`, `rngBlocksStart`, `hsblocksLen`).
-/
import ClarabelModel.KktRanges
import ClarabelProofs.Lemmas.KktPlace

namespace Clarabel.Lemmas.KktRanges
open Clarabel Clarabel.Csc Clarabel.Kkt Clarabel.Lemmas.KktPlace

theorem makeRangesFrom_length : ∀ (ls : List Nat) (s : Nat), (makeRangesFrom s ls).length = ls.length
  | [], _ => rfl
  | _ :: ls, s => by simp [makeRangesFrom, makeRangesFrom_length ls]

/-- closed form of range `i`: `(s + Σ_{k<i} len k, s + Σ_{k≤i} len k)` -/
theorem makeRangesFrom_getElem : ∀ (ls : List Nat) (s i : Nat) (h : i < (makeRangesFrom s ls).length),
    (makeRangesFrom s ls)[i] = (s + (ls.take i).sum, s + (ls.take (i + 1)).sum)
  | [], s, i, h => by simp [makeRangesFrom] at h
  | l :: ls, s, 0, h => by simp [makeRangesFrom]
  | l :: ls, s, i + 1, h => by
    simp only [makeRangesFrom, List.getElem_cons_succ]
    rw [makeRangesFrom_getElem ls (s + l) i]
    simp [List.take_succ_cons, Nat.add_assoc]

theorem take_succ_sum : ∀ (ls : List Nat) (i : Nat) (h : i < ls.length),
    (ls.take (i + 1)).sum = (ls.take i).sum + ls[i]
  | [], i, h => by simp at h
  | l :: ls, 0, h => by simp
  | l :: ls, i + 1, h => by
    have ih := take_succ_sum ls i (by simpa using h)
    simp only [List.take_succ_cons, List.sum_cons, List.getElem_cons_succ, ih, Nat.add_assoc]

theorem take_sum_mono (ls : List Nat) : ∀ (i j : Nat), i ≤ j → (ls.take i).sum ≤ (ls.take j).sum := by
  intro i j hij
  obtain ⟨d, rfl⟩ := Nat.exists_eq_add_of_le hij
  rw [List.take_add]
  simp

/-- the width of range `i` is `len i` -/
theorem makeRangesFrom_width (ls : List Nat) (s i : Nat) (h : i < (makeRangesFrom s ls).length) :
    ((makeRangesFrom s ls)[i]).2 = ((makeRangesFrom s ls)[i]).1 +
      ls[i]'(by rw [makeRangesFrom_length] at h; exact h) := by
  rw [makeRangesFrom_getElem]
  have h' : i < ls.length := by rw [makeRangesFrom_length] at h; exact h
  simp only
  rw [take_succ_sum ls i h', Nat.add_assoc]

/-- consecutive: range `i + 1` starts where range `i` stops -/
theorem makeRangesFrom_consecutive (ls : List Nat) (s i : Nat) (h : i + 1 < (makeRangesFrom s ls).length) :
    ((makeRangesFrom s ls)[i + 1]).1 = ((makeRangesFrom s ls)[i]'(Nat.lt_of_succ_lt h)).2 := by
  rw [makeRangesFrom_getElem, makeRangesFrom_getElem]

/-- disjoint: an earlier range stops before a later one starts -/
theorem makeRangesFrom_disjoint (ls : List Nat) (s i j : Nat) (hij : i < j)
    (h : j < (makeRangesFrom s ls).length) :
    ((makeRangesFrom s ls)[i]'(Nat.lt_trans hij h)).2 ≤ ((makeRangesFrom s ls)[j]).1 := by
  rw [makeRangesFrom_getElem, makeRangesFrom_getElem]
  exact Nat.add_le_add_left (take_sum_mono ls (i + 1) j hij) s

/-- the last range stops at `s + Σ len` -/
theorem makeRangesFrom_getLast? : ∀ (ls : List Nat) (s : Nat),
    (makeRangesFrom s ls).getLast?.map (·.2) = if ls = [] then none else some (s + ls.sum)
  | [], _ => rfl
  | [l], s => by simp [makeRangesFrom]
  | l :: l' :: ls, s => by
    have ih := makeRangesFrom_getLast? (l' :: ls) (s + l)
    simp only [makeRangesFrom, List.getLast?_cons_cons] at ih ⊢
    rw [ih]
    simp [Nat.add_assoc]

/-- cover: every index of `s .. s + Σ len` lies in some range -/
theorem makeRangesFrom_cover : ∀ (ls : List Nat) (s k : Nat), s ≤ k → k < s + ls.sum →
    ∃ r ∈ makeRangesFrom s ls, r.1 ≤ k ∧ k < r.2
  | [], s, k, h1, h2 => by simp at h2; omega
  | l :: ls, s, k, h1, h2 => by
    by_cases hk : k < s + l
    · exact ⟨(s, s + l), by simp [makeRangesFrom], h1, hk⟩
    · have h2' : k < s + l + ls.sum := by simp only [List.sum_cons] at h2; omega
      obtain ⟨r, hr, hr1, hr2⟩ := makeRangesFrom_cover ls (s + l) k (by omega) h2'
      exact ⟨r, by simp [makeRangesFrom, hr], hr1, hr2⟩

/-- the starts are the offsets the assembly model uses -/
theorem makeRangesFrom_starts (ls : List Nat) :
    (makeRangesFrom 0 ls).map (·.1) = rangeStarts ls := by
  unfold rangeStarts
  rw [exclusiveCumsum_eq]
  apply List.ext_getElem
  · simp [makeRangesFrom_length]
  · intro i h1 h2
    simp only [List.getElem_map, List.getElem_range]
    rw [makeRangesFrom_getElem]
    simp

theorem foldl_add_eq_sum : ∀ (ls : List Nat) (a : Nat), ls.foldl (· + ·) a = a + ls.sum
  | [], a => by simp
  | l :: ls, a => by simp [foldl_add_eq_sum ls, Nat.add_assoc]

/-- `allocate_kkt_Hsblocks` allocates `Σ blockLen` entries (`hsblocksLen` of the assembly model) -/
theorem allocateKktHsblocksLen_eq (cones : List ConeSpec) :
    allocateKktHsblocksLen cones = hsblocksLen cones := by
  unfold allocateKktHsblocksLen hsblocksLen makeRngBlocks
  rw [foldl_add_eq_sum, Nat.zero_add]
  have h := makeRangesFrom_getLast? (cones.map ConeSpec.blockLen) 0
  cases hl : (makeRangesFrom 0 (cones.map ConeSpec.blockLen)).getLast? with
  | none =>
    rw [hl] at h
    by_cases hc : cones.map ConeSpec.blockLen = []
    · simp [hc]
    · simp [hc] at h
  | some r =>
    rw [hl] at h
    by_cases hc : cones.map ConeSpec.blockLen = []
    · simp [hc] at h
    · simp only [hc, if_false, Option.map_some, Option.some.injEq, Nat.zero_add] at h
      exact h

end Clarabel.Lemmas.KktRanges
