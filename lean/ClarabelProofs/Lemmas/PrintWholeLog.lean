/-
  C20 (round 5): the whole log of a solve at TOKEN level.

  `PrintHeader.wholeLog` builds the log with `String` appends inside an `Except` loop.  Here the
  same log is described one level earlier, as a list of tokens (`Tok`: literal pieces of the format
  strings and labelled rendered arguments):

  * `rowToks` / `statusLine_eq_rowToks`   : a table row is the concatenation of its tokens;
  * `wholeToks` / `wholeLog_eq_renderToks`: the log is the concatenation of
        banner ++ configuration tokens ++ table header ++ row tokens … ++ footer tokens;
  * `eventToks` / `wholeToks_eq_events`   : that token list IS the list obtained by rendering the
        print calls `eventsOf rows status` of the loop skeleton one after the other;
  * `delivered_eq_wholeLog`               : hence, for every encoding of text into bytes that
        respects concatenation (`EncHom`; UTF-8 is one: `utf8_hom`), the bytes a buffer target has
        received after `runEvents` are the encoding of `wholeLog`.

  Also the settings echo read back from its tokens (`echoRead`, `echoRead_settingsToks`).
-/
import ClarabelProofs.Lemmas.Print
import ClarabelProofs.Lemmas.PrintHeader

namespace Clarabel.Print
open Clarabel.Loop

/-! ### text → bytes -/

/-- an encoding of text into bytes that respects concatenation -/
structure EncHom (enc : String → Bytes) : Prop where
  empty : enc "" = []
  append : ∀ a b, enc (a ++ b) = enc a ++ enc b

/-- the bytes Rust's `write!` hands to the target: the UTF-8 encoding -/
def utf8 (s : String) : Bytes := s.toUTF8.data.toList

theorem utf8_hom : EncHom utf8 where
  empty := rfl
  append a b := by
    unfold utf8 String.toUTF8
    rw [String.toByteArray_append, ByteArray.data_append, Array.toList_append]

theorem EncHom.join {enc : String → Bytes} (h : EncHom enc) (l : List String) :
    enc (String.join l) = (l.map enc).flatten := by
  induction l with
  | nil => exact h.empty
  | cons a l ih => rw [String.join_cons, h.append, ih, List.map_cons, List.flatten_cons]

/-! ### concatenation of token lists -/

theorem renderToks_append (a b : List Tok) : renderToks (a ++ b) = renderToks a ++ renderToks b := by
  unfold renderToks
  rw [List.map_append, String.join_append]

theorem renderToks_cons (t : Tok) (ts : List Tok) : renderToks (t :: ts) = t.text ++ renderToks ts := by
  unfold renderToks
  rw [List.map_cons, String.join_cons]

theorem renderToks_singleton (t : Tok) : renderToks [t] = t.text := by
  rw [renderToks_cons, renderToks_nil, String.append_empty]

theorem renderToks_flatMap {β : Type} (f : β → List Tok) (l : List β) :
    renderToks (l.flatMap f) = String.join (l.map (fun x => renderToks (f x))) := by
  induction l with
  | nil => rfl
  | cons a l ih => rw [List.flatMap_cons, renderToks_append, ih, List.map_cons, String.join_cons]

/-! ### one table row -/

/-- the tokens of `print_status`: the iteration count right-aligned in three columns, the seven
cells `pcost dcost gap pres dres k/t μ` each followed by two blanks, then the step length (from the
second row on) or the placeholder ` ------   `, and the newline -/
def rowToks (iterations : Nat) (cells : Array String) : List Tok :=
  [.fld "iter" (padLeft 3 (toString iterations)), .lit "  ",
   .fld "pcost" cells[0]!, .lit "  ", .fld "dcost" cells[1]!, .lit "  ", .fld "gap" cells[2]!, .lit "  ",
   .fld "pres" cells[3]!, .lit "  ", .fld "dres" cells[4]!, .lit "  ", .fld "k/t" cells[5]!, .lit "  ",
   .fld "μ" cells[6]!, .lit "  "]
  ++ (if iterations > 0 then [.fld "step" cells[7]!, .lit "  "] else [.lit " ------   "])
  ++ [.lit "\n"]

/-- `print_status` writes exactly its tokens -/
theorem statusLine_eq_rowToks (iterations : Nat) (cells : Array String) (h : cells.size = 8) :
    statusLine iterations cells = .ok (renderToks (rowToks iterations cells)) := by
  obtain ⟨l⟩ := cells
  rcases l with _ | ⟨c0, _ | ⟨c1, _ | ⟨c2, _ | ⟨c3, _ | ⟨c4, _ | ⟨c5, _ | ⟨c6, _ | ⟨c7, _ | ⟨c8, l⟩⟩⟩⟩⟩⟩⟩⟩⟩ <;>
    simp at h
  by_cases hi : iterations > 0
  · simp [statusLine, rowToks, renderToks, String.join, Tok.text, hi, String.append_assoc, pure,
      Except.pure, bind, Except.bind]
  · simp [statusLine, rowToks, renderToks, String.join, Tok.text, hi, String.append_assoc, pure,
      Except.pure, bind, Except.bind]

/-- a row with a number of cells other than eight is refused -/
theorem statusLine_bad (iterations : Nat) (cells : Array String) (h : cells.size ≠ 8) :
    statusLine iterations cells = .error (.err "cells") := by
  unfold statusLine
  simp [h, throw, throwThe, MonadExceptOf.throw, bind, Except.bind]

/-! ### the whole log -/

/-- the tokens of the log of one verbose `solve()` -/
def wholeToks {α : Type} (fmt : FloatFmt α) (lin : LinearSolverInfo) (set : Settings α) (s : Summary)
    (version : String) (debug : Bool) (rows : List RowText) (status : Status) (solveTime : α) : List Tok :=
  [.lit (printBanner true version debug)] ++ configurationToks fmt lin set s ++ [.lit statusHeaderText]
    ++ rows.flatMap (fun r => rowToks r.iterations r.cells) ++ footerToks fmt true status solveTime

/-- the loop of `wholeLog`: appending the rows one by one -/
theorem forIn_rows (rows : List RowText) (hrows : ∀ r ∈ rows, r.cells.size = 8) (init : String) :
    (forIn rows init (fun (r : RowText) (out : String) => (do
        let l ← statusLine r.iterations r.cells
        pure (ForInStep.yield (out ++ l)) : MErr (ForInStep String))) : MErr String)
      = .ok (init ++ renderToks (rows.flatMap (fun r => rowToks r.iterations r.cells))) := by
  induction rows generalizing init with
  | nil => simp [renderToks_nil, String.append_empty, pure, Except.pure]
  | cons r rs ih =>
    rw [List.forIn_cons, statusLine_eq_rowToks _ _ (hrows r (by simp))]
    have h := ih (fun x hx => hrows x (by simp [hx])) (init ++ renderToks (rowToks r.iterations r.cells))
    rw [List.flatMap_cons, renderToks_append, ← String.append_assoc]
    exact h

/-- **the whole log is the concatenation of its tokens** -/
theorem wholeLog_eq_renderToks {α : Type} (fmt : FloatFmt α) (lin : LinearSolverInfo) (set : Settings α)
    (s : Summary) (version : String) (debug : Bool) (rows : List RowText) (status : Status) (t : α)
    (hv : set.verbose = true) (hrows : ∀ r ∈ rows, r.cells.size = 8) :
    wholeLog fmt lin set s version debug rows status t
      = .ok (renderToks (wholeToks fmt lin set s version debug rows status t)) := by
  unfold wholeLog
  simp only [hv, Bool.not_true, Bool.false_eq_true, ↓reduceIte]
  have h := forIn_rows rows hrows
    (printBanner true version debug ++ printConfiguration fmt lin set s ++ printStatusHeader true)
  simp only [bind, Except.bind, pure, Except.pure] at h ⊢
  rw [h]
  simp only [wholeToks, renderToks_append, renderToks_singleton, Tok.text, printConfiguration,
    printFooter, printStatusHeader, Bool.not_true, Bool.false_eq_true, ↓reduceIte, String.append_assoc]

/-- a malformed row is the only way for `wholeLog` to fail, and then nothing is returned -/
theorem wholeLog_ok_rows {α : Type} (fmt : FloatFmt α) (lin : LinearSolverInfo) (set : Settings α)
    (s : Summary) (version : String) (debug : Bool) (rows : List RowText) (status : Status) (t : α)
    (hv : set.verbose = true) (log : String)
    (h : wholeLog fmt lin set s version debug rows status t = .ok log) :
    ∀ r ∈ rows, r.cells.size = 8 := by
  unfold wholeLog at h
  simp only [hv, Bool.not_true, Bool.false_eq_true, ↓reduceIte] at h
  generalize (printBanner true version debug ++ printConfiguration fmt lin set s ++ printStatusHeader true)
    = init at h
  induction rows generalizing init with
  | nil => intro r hr; cases hr
  | cons r rs ih =>
    intro x hx
    by_cases h8 : r.cells.size = 8
    · rcases List.mem_cons.mp hx with rfl | hx
      · exact h8
      · rw [List.forIn_cons, statusLine_eq_rowToks _ _ h8] at h
        exact ih _ h x hx
    · rw [List.forIn_cons, statusLine_bad _ _ h8] at h
      simp [bind, Except.bind] at h

/-! ### the print calls of the loop skeleton -/

/-- the tokens one print call of `solve()` writes; `cellFmt` is the float formatting of a row
(`{:+8.4e}` / `{:6.2e}` and `_exp_str_reformat`, a parameter like `FloatFmt`) -/
def eventToks {α : Type} (fmt : FloatFmt α) (lin : LinearSolverInfo) (set : Settings α) (s : Summary)
    (version : String) (debug : Bool) (cellFmt : Row α → RowText) (solveTime : α) : Event α → List Tok
  | .banner => [.lit (printBanner true version debug)]
  | .configuration => configurationToks fmt lin set s
  | .statusHeader => [.lit statusHeaderText]
  | .status r => rowToks (cellFmt r).iterations (cellFmt r).cells
  | .footer st => footerToks fmt true st solveTime

/-- **token lists are equal**: the tokens of the whole log are the tokens of the print calls
`eventsOf rows status`, in program order -/
theorem wholeToks_eq_events {α : Type} (fmt : FloatFmt α) (lin : LinearSolverInfo) (set : Settings α)
    (s : Summary) (version : String) (debug : Bool) (cellFmt : Row α → RowText) (rows : List (Row α))
    (status : Status) (t : α) :
    wholeToks fmt lin set s version debug (rows.map cellFmt) status t
      = (eventsOf rows status).flatMap (eventToks fmt lin set s version debug cellFmt t) := by
  unfold wholeToks eventsOf
  simp only [List.flatMap_append, List.flatMap_cons, List.flatMap_nil, List.append_nil, eventToks,
    List.flatMap_map, List.append_assoc, List.cons_append, List.nil_append]

/-- the renderer that writes each print call's tokens, encoded by `enc` -/
def logRenderer {α : Type} (enc : String → Bytes) (fmt : FloatFmt α) (lin : LinearSolverInfo)
    (set : Settings α) (s : Summary) (version : String) (debug : Bool) (cellFmt : Row α → RowText)
    (solveTime : α) : Renderer α :=
  ⟨fun e => enc (renderToks (eventToks fmt lin set s version debug cellFmt solveTime e))⟩

/-- **byte level**: what a non-sink target has received after the print calls of a verbose solve
is the encoding of `wholeLog` -/
theorem delivered_eq_wholeLog {α : Type} (enc : String → Bytes) (henc : EncHom enc) (fmt : FloatFmt α)
    (lin : LinearSolverInfo) (set : Settings α) (s : Summary) (version : String) (debug : Bool)
    (cellFmt : Row α → RowText) (rows : List (Row α)) (status : Status) (t : α)
    (hv : set.verbose = true) (log : String)
    (h : wholeLog fmt lin set s version debug (rows.map cellFmt) status t = .ok log)
    (tgt : PrintTarget) (htgt : tgt ≠ .sink) :
    (runEvents set.verbose (logRenderer enc fmt lin set s version debug cellFmt t) tgt
        (eventsOf rows status)).delivered = tgt.delivered ++ enc log := by
  have hrows := wholeLog_ok_rows fmt lin set s version debug _ status t hv log h
  rw [wholeLog_eq_renderToks fmt lin set s version debug _ status t hv hrows] at h
  have hlog : log = renderToks (wholeToks fmt lin set s version debug (rows.map cellFmt) status t) :=
    (Except.ok.inj h).symm
  rw [hv, (delivered_runEvents _ tgt htgt _).1, hlog, wholeToks_eq_events, renderToks_flatMap,
    henc.join, List.map_map]
  rfl

/-! ### the settings echo read back from its tokens -/

/-- the value shown under a label: the first labelled token carrying it -/
def lookupFld (ts : List Tok) (name : String) : Option String := (fieldsOf ts).lookup name

/-- inverse of `_bool_on_off` -/
def parseOnOff (s : String) : Option Bool :=
  if s = "on" then some true else if s = "false" then some false else none

def parseDirect (s : String) : Option Bool :=
  if s = "direct" then some true else if s = "indirect" then some false else none

theorem parseOnOff_boolOnOff (b : Bool) : parseOnOff (boolOnOff b) = some b := by
  cases b <;> decide

theorem parseDirect_text (b : Bool) : parseDirect (if b then "direct" else "indirect") = some b := by
  cases b <;> decide

/-- the labels of the settings echo, in order of appearance -/
def echoLabels : List String :=
  [ "linsolver.direct", "linsolver.name", "size_of<T>", "linsolver.threads", "max_iter", "time_limit",
    "max_step_fraction", "tol_feas", "tol_gap_abs", "tol_gap_rel", "static_regularization_enable",
    "static_regularization_constant", "static_regularization_proportional",
    "dynamic_regularization_enable", "dynamic_regularization_eps", "dynamic_regularization_delta",
    "iterative_refinement_enable", "iterative_refinement_reltol", "iterative_refinement_abstol",
    "iterative_refinement_max_iter", "iterative_refinement_stop_ratio", "equilibrate_enable",
    "equilibrate_min_scaling", "equilibrate_max_scaling", "equilibrate_max_iter" ]

theorem echoLabels_nodup : echoLabels.Nodup := by decide

theorem settingsToks_labels {α : Type} (fmt : FloatFmt α) (lin : LinearSolverInfo) (set : Settings α) :
    (fieldsOf (settingsToks fmt lin set)).map Prod.fst = echoLabels := rfl

/-- with pairwise distinct labels the token list is a finite map: a label shows a value iff the
pair occurs among the labelled tokens -/
theorem lookup_iff_mem_of_nodup : ∀ (l : List (String × String)), (l.map Prod.fst).Nodup →
    ∀ n v, l.lookup n = some v ↔ (n, v) ∈ l
  | [], _, n, v => by simp
  | (a, b) :: l, hnd, n, v => by
    rw [List.map_cons, List.nodup_cons] at hnd
    by_cases hn : n = a
    · subst hn
      simp only [List.lookup_cons_self, Option.some.injEq, List.mem_cons, Prod.mk.injEq, true_and]
      constructor
      · intro h; exact Or.inl h.symm
      · rintro (h | h)
        · exact h.symm
        · exact absurd (List.mem_map_of_mem (f := Prod.fst) h) hnd.1
    · have hne : (n == a) = false := by simpa using hn
      rw [List.lookup_cons, hne]
      simp only [List.mem_cons, Prod.mk.injEq, hn, false_and, false_or]
      exact lookup_iff_mem_of_nodup l hnd.2 n v

/-- the integer / boolean / text part of the settings, parsed from the tokens of the echo -/
def echoRead (ts : List Tok) : Option EchoExact := do
  let direct ← (lookupFld ts "linsolver.direct").bind parseDirect
  let name ← lookupFld ts "linsolver.name"
  let maxIter ← (lookupFld ts "max_iter").bind String.toNat?
  let staticReg ← (lookupFld ts "static_regularization_enable").bind parseOnOff
  let dynamicReg ← (lookupFld ts "dynamic_regularization_enable").bind parseOnOff
  let iterRefine ← (lookupFld ts "iterative_refinement_enable").bind parseOnOff
  let iterRefineMaxIter ← (lookupFld ts "iterative_refinement_max_iter").bind String.toNat?
  let equilibrate ← (lookupFld ts "equilibrate_enable").bind parseOnOff
  let equilibrateMaxIter ← (lookupFld ts "equilibrate_max_iter").bind String.toNat?
  pure { direct, name, maxIter, staticReg, dynamicReg, iterRefine, iterRefineMaxIter, equilibrate,
         equilibrateMaxIter }

/-- the float cells of the echo, read from the tokens (text at the resolution of the formats) -/
def echoReadFloats (ts : List Tok) : Option (List String) :=
  [ "time_limit", "max_step_fraction", "tol_feas", "tol_gap_abs", "tol_gap_rel",
    "static_regularization_constant", "static_regularization_proportional",
    "dynamic_regularization_eps", "dynamic_regularization_delta", "iterative_refinement_reltol",
    "iterative_refinement_abstol", "iterative_refinement_stop_ratio", "equilibrate_min_scaling",
    "equilibrate_max_scaling" ].mapM (lookupFld ts)

/-- the value shown under each label of the echo -/
theorem lookupFld_settingsToks {α : Type} (fmt : FloatFmt α) (lin : LinearSolverInfo) (set : Settings α) :
    let ts := settingsToks fmt lin set
    lookupFld ts "linsolver.direct" = some (if lin.direct then "direct" else "indirect")
    ∧ lookupFld ts "linsolver.name" = some lin.name
    ∧ lookupFld ts "size_of<T>" = some (toString (fmt.sizeOf * 8))
    ∧ lookupFld ts "linsolver.threads" = some (nthreadsText lin.threads)
    ∧ lookupFld ts "max_iter" = some (toString set.maxIter)
    ∧ lookupFld ts "time_limit" = some (timeLimStr fmt set.timeLimit)
    ∧ lookupFld ts "max_step_fraction" = some (fmt.f3 set.maxStepFraction)
    ∧ lookupFld ts "tol_feas" = some (fmt.e1 set.tolFeas)
    ∧ lookupFld ts "tol_gap_abs" = some (fmt.e1 set.tolGapAbs)
    ∧ lookupFld ts "tol_gap_rel" = some (fmt.e1 set.tolGapRel)
    ∧ lookupFld ts "static_regularization_enable" = some (boolOnOff set.staticRegularizationEnable)
    ∧ lookupFld ts "static_regularization_constant" = some (fmt.e1 set.staticRegularizationConstant)
    ∧ lookupFld ts "static_regularization_proportional" = some (fmt.e1 set.staticRegularizationProportional)
    ∧ lookupFld ts "dynamic_regularization_enable" = some (boolOnOff set.dynamicRegularizationEnable)
    ∧ lookupFld ts "dynamic_regularization_eps" = some (fmt.e1 set.dynamicRegularizationEps)
    ∧ lookupFld ts "dynamic_regularization_delta" = some (fmt.e1 set.dynamicRegularizationDelta)
    ∧ lookupFld ts "iterative_refinement_enable" = some (boolOnOff set.iterativeRefinementEnable)
    ∧ lookupFld ts "iterative_refinement_reltol" = some (fmt.e1 set.iterativeRefinementReltol)
    ∧ lookupFld ts "iterative_refinement_abstol" = some (fmt.e1 set.iterativeRefinementAbstol)
    ∧ lookupFld ts "iterative_refinement_max_iter" = some (toString set.iterativeRefinementMaxIter)
    ∧ lookupFld ts "iterative_refinement_stop_ratio" = some (fmt.f1 set.iterativeRefinementStopRatio)
    ∧ lookupFld ts "equilibrate_enable" = some (boolOnOff set.equilibrateEnable)
    ∧ lookupFld ts "equilibrate_min_scaling" = some (fmt.e1 set.equilibrateMinScaling)
    ∧ lookupFld ts "equilibrate_max_scaling" = some (fmt.e1 set.equilibrateMaxScaling)
    ∧ lookupFld ts "equilibrate_max_iter" = some (toString set.equilibrateMaxIter) := by
  intro ts
  refine ⟨?_, ?_, ?_, ?_, ?_, ?_, ?_, ?_, ?_, ?_, ?_, ?_, ?_, ?_, ?_, ?_, ?_, ?_, ?_, ?_, ?_, ?_, ?_, ?_, ?_⟩ <;>
    (show List.lookup _ (fieldsOf (settingsToks fmt lin set)) = _
     rw [fieldsOf_settingsToks]
     simp [List.lookup, timeLimStr])

theorem echoRead_settingsToks {α : Type} (fmt : FloatFmt α) (lin : LinearSolverInfo) (set : Settings α) :
    echoRead (settingsToks fmt lin set) = some (echoExact lin set) := by
  obtain ⟨h1, h2, _, _, h5, _, _, _, _, _, h11, _, _, h14, _, _, h17, _, _, h20, _, h22, _, _, h25⟩ :=
    lookupFld_settingsToks fmt lin set
  unfold echoRead
  rw [h1, h2, h5, h11, h14, h17, h20, h22, h25]
  simp only [Option.bind_some, parseDirect_text, parseOnOff_boolOnOff]
  have hn : ∀ k : Nat, (toString k).toNat? = some k := fun k => Nat.toNat?_repr k
  rw [hn, hn, hn]
  rfl

theorem echoReadFloats_settingsToks {α : Type} (fmt : FloatFmt α) (lin : LinearSolverInfo) (set : Settings α) :
    echoReadFloats (settingsToks fmt lin set) = some (echoFloats fmt set) := by
  obtain ⟨_, _, _, _, _, h6, h7, h8, h9, h10, _, h12, h13, _, h15, h16, _, h18, h19, _, h21, _, h23, h24, _⟩ :=
    lookupFld_settingsToks fmt lin set
  unfold echoReadFloats
  simp only [List.mapM_cons, List.mapM_nil, h6, h7, h8, h9, h10, h12, h13, h15, h16, h18, h19, h21,
    h23, h24, Option.bind_eq_bind, Option.bind_some, Option.pure_def]
  rfl

end Clarabel.Print
