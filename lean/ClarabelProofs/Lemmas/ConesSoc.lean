/-
  Helper lemmas about the second-order-cone model (`ClarabelModel/Cones/Soc.lean`) over ℝ:
  list dot products, the residual polynomial, and the scalar branch logic of the step
  length (C15) — used by `Props/C13.lean` and `Props/C15.lean`.
-/
import ClarabelModel.Cones.Soc
import ClarabelProofs.Lemmas.ScalarInst
import Mathlib.Tactic.Linarith
import Mathlib.Tactic.FieldSimp
import Mathlib.Tactic.LinearCombination

namespace Clarabel.Soc

theorem foldl_dot_init (l : List (ℝ × ℝ)) (init : ℝ) :
    l.foldl (fun acc p => acc + p.1 * p.2) init = init + l.foldl (fun acc p => acc + p.1 * p.2) 0 := by
  induction l generalizing init with
  | nil => simp
  | cons p t ih =>
    simp only [List.foldl_cons]
    rw [ih (init + p.1 * p.2), ih (0 + p.1 * p.2)]
    ring

@[simp] theorem dotL_nil_left (y : List ℝ) : dotL [] y = 0 := by
  simp [dotL, Vec.dot]
@[simp] theorem dotL_nil_right (x : List ℝ) : dotL x [] = 0 := by
  simp [dotL, Vec.dot]

@[simp] theorem dotL_cons (x y : ℝ) (xs ys : List ℝ) :
    dotL (x :: xs) (y :: ys) = x * y + dotL xs ys := by
  simp only [dotL, Vec.dot, List.zip_cons_cons, List.foldl_cons]
  rw [foldl_dot_init]
  ring

theorem sumsqL_eq (x : List ℝ) : sumsqL x = dotL x x := rfl

theorem vecdot_join (x0 : ℝ) (x1 : List ℝ) (y0 : ℝ) (y1 : List ℝ) :
    Vec.dot (join x0 x1) (join y0 y1) = x0 * y0 + dotL x1 y1 := by
  have := dotL_cons x0 y0 x1 y1
  simpa [dotL, join] using this

theorem dotL_comm (x y : List ℝ) : dotL x y = dotL y x := by
  induction x generalizing y with
  | nil => simp
  | cons a t ih => cases y with
    | nil => simp
    | cons b u => simp [ih u, mul_comm]

theorem dotL_self_nonneg (x : List ℝ) : 0 ≤ dotL x x := by
  induction x with
  | nil => simp
  | cons a t ih => simp; nlinarith [mul_self_nonneg a]

/-- `x + α·y` on tails -/
def axpyL (x : List ℝ) (α : ℝ) (y : List ℝ) : List ℝ := List.zipWith (fun xi yi => xi + α * yi) x y

theorem dotL_axpy_self (x y : List ℝ) (α : ℝ) (h : x.length = y.length) :
    dotL (axpyL x α y) (axpyL x α y) = dotL x x + 2 * α * dotL x y + α ^ 2 * dotL y y := by
  induction x generalizing y with
  | nil => cases y with
    | nil => simp [axpyL]
    | cons b u => simp at h
  | cons a t ih => cases y with
    | nil => simp at h
    | cons b u =>
      simp only [List.length_cons, add_left_inj] at h
      have := ih u h
      simp only [axpyL, List.zipWith_cons_cons, dotL_cons] at this ⊢
      rw [this]; ring

theorem normL_sq (x : List ℝ) : normL x * normL x = dotL x x := by
  show Real.sqrt (dotL x x) * Real.sqrt (dotL x x) = _
  exact Real.mul_self_sqrt (dotL_self_nonneg x)

theorem normL_nonneg (x : List ℝ) : 0 ≤ normL x := Real.sqrt_nonneg _

theorem socResidual_eq (z0 : ℝ) (z1 : List ℝ) : socResidual z0 z1 = z0 ^ 2 - dotL z1 z1 := by
  simp only [socResidual]
  have := normL_sq z1
  nlinarith


@[simp] theorem two_real : (two : ℝ) = 2 := by norm_num [two]
@[simp] theorem four_real : (four : ℝ) = 4 := by norm_num [four]
@[simp] theorem half_real : (half : ℝ) = 1 / 2 := by norm_num [half]

theorem isZero_real (x : ℝ) : isZero x = true ↔ x = 0 := by
  simp only [isZero, Bool.and_eq_true, Bool.not_eq_eq_eq_not, Bool.not_true, decide_eq_false_iff_not,
    not_lt]
  constructor
  · intro ⟨h1, h2⟩; exact le_antisymm h2 h1
  · intro h; simp [h]

/-- what the step-length theorems assert about a returned step `t` for the residual
polynomial `r(α) = c + bα + aα²` -/
def QuadSpec (a b c amax t : ℝ) : Prop :=
  0 ≤ t ∧ t ≤ amax ∧ (∀ α, 0 ≤ α → α ≤ t → 0 ≤ c + b * α + a * α ^ 2) ∧
    (t < amax → c + b * t + a * t ^ 2 = 0)

theorem minRoots_spec (a b c amax r1 r2 : ℝ) (hc : 0 < c) (ham : 0 ≤ amax) (ha : a ≠ 0)
    (hprod : a * r1 * r2 = c) (hsum : a * (r1 + r2) = -b) (hb : 0 < a → b ≤ 0) :
    QuadSpec a b c amax
      (minRoots amax (if r1 < 0 then none else some r1) (if r2 < 0 then none else some r2)) := by
  have hfac : ∀ α : ℝ, c + b * α + a * α ^ 2 = a * (α - r1) * (α - r2) := by
    intro α; linear_combination (-1 : ℝ) * hprod + α * hsum
  have h1 : r1 ≠ 0 := by rintro rfl; simp at hprod; linarith
  have h2 : r2 ≠ 0 := by rintro rfl; simp at hprod; linarith
  unfold QuadSpec
  rcases lt_or_gt_of_ne ha with han | hap
  · -- a < 0 : the roots have opposite signs
    have hp : r1 * r2 < 0 := by
      by_contra hh; rw [not_lt] at hh; nlinarith
    rcases lt_or_gt_of_ne h1 with h1n | h1p
    · have h2p : 0 < r2 := by
        rcases lt_or_gt_of_ne h2 with h | h
        · nlinarith
        · exact h
      simp only [h1n, ↓reduceIte, not_lt.mpr h2p.le, minRoots, real_fmin_eq]
      refine ⟨le_min ham h2p.le, min_le_left _ _, ?_, ?_⟩
      · intro α h0 hα
        rw [hfac]
        have : α ≤ r2 := le_trans hα (min_le_right _ _)
        nlinarith [mul_nonneg (sub_nonneg.mpr this) (by linarith : (0:ℝ) ≤ α - r1)]
      · intro hlt
        have : min amax r2 = r2 := by
          rcases min_choice amax r2 with h | h
          · rw [h] at hlt; exact absurd hlt (lt_irrefl _)
          · exact h
        rw [hfac, this]; ring
    · have h2n : r2 < 0 := by
        rcases lt_or_gt_of_ne h2 with h | h
        · exact h
        · nlinarith
      simp only [not_lt.mpr h1p.le, ↓reduceIte, h2n, minRoots, real_fmin_eq]
      refine ⟨le_min ham h1p.le, min_le_left _ _, ?_, ?_⟩
      · intro α h0 hα
        rw [hfac]
        have : α ≤ r1 := le_trans hα (min_le_right _ _)
        nlinarith [mul_nonneg (sub_nonneg.mpr this) (by linarith : (0:ℝ) ≤ α - r2)]
      · intro hlt
        have : min amax r1 = r1 := by
          rcases min_choice amax r1 with h | h
          · rw [h] at hlt; exact absurd hlt (lt_irrefl _)
          · exact h
        rw [hfac, this]; ring
  · -- a > 0 : both roots are positive
    have hbn := hb hap
    have hp : 0 < r1 * r2 := by
      by_contra hh; rw [not_lt] at hh; nlinarith
    have hs : 0 ≤ r1 + r2 := by
      by_contra hh; rw [not_le] at hh; nlinarith
    have h1p : 0 < r1 := by
      rcases lt_or_gt_of_ne h1 with h | h
      · have : r2 < 0 := by nlinarith
        linarith
      · exact h
    have h2p : 0 < r2 := by nlinarith
    simp only [not_lt.mpr h1p.le, ↓reduceIte, not_lt.mpr h2p.le, minRoots, real_fmin_eq]
    refine ⟨le_min ham (le_min h1p.le h2p.le), min_le_left _ _, ?_, ?_⟩
    · intro α h0 hα
      rw [hfac]
      have hm : α ≤ min r1 r2 := le_trans hα (min_le_right _ _)
      have ha1 : α ≤ r1 := le_trans hm (min_le_left _ _)
      have ha2 : α ≤ r2 := le_trans hm (min_le_right _ _)
      nlinarith [mul_nonneg (sub_nonneg.mpr ha1) (sub_nonneg.mpr ha2)]
    · intro hlt
      have : min amax (min r1 r2) = min r1 r2 := by
        rcases min_choice amax (min r1 r2) with h | h
        · rw [h] at hlt; exact absurd hlt (lt_irrefl _)
        · exact h
      rw [hfac, this]
      rcases min_choice r1 r2 with h | h <;> rw [h] <;> ring



/-- [R] the branch logic of `_step_length_soc_component` (as repaired) is safe and tight
for the residual polynomial `r(α) = c + bα + aα²` of an interior point (`c > 0`). -/
theorem stepLengthQuad_spec (a b c amax : ℝ) (hc : 0 < c) (ham : 0 ≤ amax) :
    ∃ t, stepLengthQuad a b c amax = .ok t ∧ QuadSpec a b c amax t := by
  unfold stepLengthQuad
  simp only [four_real, two_real, not_lt.mpr hc.le, ↓reduceIte, real_sqrt_eq, real_fmin_eq]
  have hcz : isZero c = false := by
    rw [← Bool.not_eq_true, isZero_real]; exact hc.ne'
  by_cases h1 : (0 < a ∧ 0 < b) ∨ b * b - 4 * a * c < 0
  · rw [if_pos h1]
    refine ⟨amax, rfl, ham, le_refl _, ?_, fun h => absurd h (lt_irrefl _)⟩
    intro α h0 _
    rcases h1 with ⟨ha, hb⟩ | hd
    · positivity
    · have ha : 0 < a := by
        by_contra hh; rw [not_lt] at hh
        nlinarith [mul_nonneg_of_nonpos_of_nonpos hh (by linarith : -c ≤ 0), mul_self_nonneg b]
      have : 0 < 4 * a * (c + b * α + a * α ^ 2) := by nlinarith [mul_self_nonneg (2 * a * α + b)]
      rcases (mul_pos_iff.mp this) with ⟨_, h⟩ | ⟨h', _⟩
      · exact h.le
      · linarith
  · rw [if_neg h1]
    rw [not_or, not_lt] at h1
    obtain ⟨hab, hd⟩ := h1
    by_cases haz : isZero a = true
    · rw [if_pos haz]
      have ha0 : a = 0 := (isZero_real a).mp haz
      subst ha0
      by_cases hb : b < 0
      · rw [if_pos hb]
        have hr : 0 < -c / b := div_pos_of_neg_of_neg (by linarith) hb
        refine ⟨_, rfl, le_min ham hr.le, min_le_left _ _, ?_, ?_⟩
        · intro α h0 hα
          have : α ≤ -c / b := le_trans hα (min_le_right _ _)
          rw [le_div_iff_of_neg hb] at this
          nlinarith
        · intro hlt
          have : min amax (-c / b) = -c / b := by
            rcases min_choice amax (-c / b) with h | h
            · rw [h] at hlt; exact absurd hlt (lt_irrefl _)
            · exact h
          rw [this]
          have hb0 : b ≠ 0 := ne_of_lt hb
          field_simp
          ring
      · rw [if_neg hb]
        rw [not_lt] at hb
        refine ⟨amax, rfl, ham, le_refl _, ?_, fun h => absurd h (lt_irrefl _)⟩
        intro α h0 _
        nlinarith [mul_nonneg hb h0]
    · rw [if_neg haz, hcz]
      simp only [Bool.false_eq_true, ↓reduceIte]
      have ha : a ≠ 0 := fun h => haz ((isZero_real a).mpr h)
      have hb : 0 < a → b ≤ 0 := fun h => by
        by_contra hh; rw [not_le] at hh; exact hab ⟨h, hh⟩
      set d := b * b - 4 * a * c with hd_def
      have hsq : Real.sqrt d * Real.sqrt d = d := Real.mul_self_sqrt hd
      refine ⟨_, rfl, ?_⟩
      -- t is a root of t² + 2bt + 4ac = 0 and is not zero
      have key : ∀ t : ℝ, (t + b) * (t + b) = d → t ≠ 0 →
          a * (2 * c / t) * (t / (2 * a)) = c ∧ a * (2 * c / t + t / (2 * a)) = -b := by
        intro t ht ht0
        constructor
        · field_simp
        · field_simp
          have : t * t + 2 * b * t + 4 * a * c = 0 := by rw [hd_def] at ht; linarith
          linear_combination this
      by_cases hbn : b < 0
      · simp only [hbn, ↓reduceIte]
        have ht0 : -b + Real.sqrt d ≠ 0 := by
          have := Real.sqrt_nonneg d; linarith
        obtain ⟨k1, k2⟩ := key (-b + Real.sqrt d) (by ring_nf; rw [Real.sq_sqrt hd]) ht0
        exact minRoots_spec a b c amax _ _ hc ham ha k1 k2 hb
      · simp only [hbn, ↓reduceIte]
        rw [not_lt] at hbn
        have ht0 : -b - Real.sqrt d ≠ 0 := by
          intro h
          have hs0 := Real.sqrt_nonneg d
          have hb0 : b = 0 := by linarith
          have hs : Real.sqrt d = 0 := by linarith
          have hd0 : d = 0 := by rw [← hsq, hs]; ring
          rw [hd_def, hb0] at hd0
          have : a * c = 0 := by linarith
          rcases mul_eq_zero.mp this with h | h
          · exact ha h
          · linarith
        obtain ⟨k1, k2⟩ := key (-b - Real.sqrt d) (by ring_nf; rw [Real.sq_sqrt hd]) ht0
        exact minRoots_spec a b c amax _ _ hc ham ha k1 k2 hb


/-! ### the step length on vectors -/

/-- membership in the (closed) second-order cone, in the split form -/
def InCone (x0 : ℝ) (x1 : List ℝ) : Prop := 0 ≤ x0 ∧ dotL x1 x1 ≤ x0 ^ 2

/-- interior of the second-order cone -/
def Interior (x0 : ℝ) (x1 : List ℝ) : Prop := 0 < x0 ∧ dotL x1 x1 < x0 ^ 2

/-- the residual `r(α) = (x₀+αy₀)² − ‖x₁+αy₁‖²` along the ray -/
noncomputable def rayResidual (x0 : ℝ) (x1 : List ℝ) (y0 : ℝ) (y1 : List ℝ) (α : ℝ) : ℝ :=
  (x0 + α * y0) ^ 2 - dotL (axpyL x1 α y1) (axpyL x1 α y1)

theorem rayResidual_poly (x0 : ℝ) (x1 : List ℝ) (y0 : ℝ) (y1 : List ℝ) (α : ℝ)
    (h : x1.length = y1.length) :
    rayResidual x0 x1 y0 y1 α =
      socResidual x0 x1 + (2 * (x0 * y0 - dotL x1 y1)) * α + socResidual y0 y1 * α ^ 2 := by
  rw [rayResidual, dotL_axpy_self x1 y1 α h, socResidual_eq, socResidual_eq]
  ring

theorem capScalar_le (x0 y0 amax : ℝ) : capScalar x0 y0 amax ≤ amax := by
  unfold capScalar; split
  · exact min_le_left _ _
  · exact le_refl _

theorem stepLengthComponentCore_spec (x0 : ℝ) (x1 : List ℝ) (y0 : ℝ) (y1 : List ℝ) (amax : ℝ)
    (hx : Interior x0 x1) (hlen : x1.length = y1.length) (ham : 0 ≤ amax) :
    ∃ t, stepLengthComponentCore x0 x1 y0 y1 amax = .ok t ∧ 0 ≤ t ∧ t ≤ amax ∧
      (∀ α, 0 ≤ α → α ≤ t → InCone (x0 + α * y0) (axpyL x1 α y1)) ∧
      (t < amax → rayResidual x0 x1 y0 y1 t = 0) := by
  obtain ⟨hx0, hxr⟩ := hx
  have hc : 0 < socResidual x0 x1 := by rw [socResidual_eq]; linarith
  have hcm : fmax 0 (socResidual x0 x1) = socResidual x0 x1 := by
    show max 0 _ = _
    exact max_eq_right hc.le
  -- the capped maximum step
  have hcap0 : 0 ≤ capScalar x0 y0 amax := by
    unfold capScalar; split
    · rename_i h
      exact le_min ham (div_nonneg_of_nonpos (by linarith) h.2.le)
    · exact ham
  obtain ⟨t, ht, h0, hle, hsafe, htight⟩ :=
    stepLengthQuad_spec (socResidual y0 y1) (two * (x0 * y0 - dotL x1 y1)) (socResidual x0 x1)
      (capScalar x0 y0 amax) hc hcap0
  refine ⟨t, ?_, h0, le_trans hle (capScalar_le _ _ _), ?_, ?_⟩
  · simp only [stepLengthComponentCore, hcm]; exact ht
  · intro α hα0 hαt
    have hr := hsafe α hα0 hαt
    have hp := rayResidual_poly x0 x1 y0 y1 α hlen
    rw [two_real] at hr
    constructor
    · by_cases hy : y0 < 0
      · have : capScalar x0 y0 amax ≤ -x0 / y0 := by
          unfold capScalar
          rw [if_pos ⟨not_lt.mpr hx0.le, hy⟩]
          exact min_le_right _ _
        have h2 : α ≤ -x0 / y0 := le_trans hαt (le_trans hle this)
        rw [le_div_iff_of_neg hy] at h2
        linarith
      · rw [not_lt] at hy
        nlinarith [mul_nonneg hα0 hy]
    · have : 0 ≤ rayResidual x0 x1 y0 y1 α := by rw [hp]; linarith
      unfold rayResidual at this
      linarith
  · intro hlt
    have hp := rayResidual_poly x0 x1 y0 y1 t hlen
    rcases lt_or_eq_of_le hle with h | h
    · have := htight h
      rw [two_real] at this
      rw [hp]; linarith
    · -- the cap by the scalar part is active: x₀ + t y₀ = 0
      have hcapne : capScalar x0 y0 amax ≠ amax := by rw [← h]; exact ne_of_lt hlt
      have hy : y0 < 0 := by
        by_contra hh
        apply hcapne
        unfold capScalar
        rw [if_neg (fun hc => hh hc.2)]
      have hcapv : capScalar x0 y0 amax = -x0 / y0 := by
        unfold capScalar
        rw [if_pos ⟨not_lt.mpr hx0.le, hy⟩]
        rcases min_choice amax (-x0 / y0) with h' | h'
        · exfalso; apply hcapne; unfold capScalar
          rw [if_pos ⟨not_lt.mpr hx0.le, hy⟩]; exact h'
        · exact h'
      have hzero : x0 + t * y0 = 0 := by
        rw [h, hcapv]; field_simp [ne_of_lt hy]; ring
      have hge : 0 ≤ rayResidual x0 x1 y0 y1 t := by
        have := hsafe t h0 (le_refl _)
        rw [two_real] at this
        rw [hp]; linarith
      have hle' : rayResidual x0 x1 y0 y1 t ≤ 0 := by
        unfold rayResidual
        rw [hzero]
        have := dotL_self_nonneg (axpyL x1 t y1)
        nlinarith
      exact le_antisymm hle' hge

end Clarabel.Soc
