/-
  Vanderbei's theorem on symmetric quasidefinite matrices, for a dense model of symmetric
  Gaussian elimination (LDLᵀ without numerical pivoting) over an ordered field.

  The KKT matrix `K = [P+εI  Aᵀ; A  −(H+εI)]` (`P ⪰ 0`, `H ⪰ 0`, `ε > 0`) is quasidefinite:
  positive definite on the first block of indices, negative definite on the second.  One step
  of symmetric elimination (Schur complement w.r.t. an arbitrary diagonal pivot `p`) keeps
  this property on the remaining indices (`QuasiDef.elim`), hence for EVERY elimination order
  the pivots `D` of `LDLᵀ` are nonzero and carry exactly the recorded signs
  (`pivots_have_signs`, `kkt_pivot_signs`).

  Everything here is class [F] (linearly ordered field), pure algebra.
-/
import Mathlib.Algebra.BigOperators.Fin
import Mathlib.Algebra.BigOperators.Field
import Mathlib.Algebra.BigOperators.Group.Finset.Basic
import Mathlib.Algebra.BigOperators.Ring.Finset
import Mathlib.Algebra.Order.Field.Basic
import Mathlib.Algebra.Order.Field.Rat
import Mathlib.Algebra.Order.BigOperators.Ring.Finset
import Mathlib.Data.Fintype.Sum
import Mathlib.Data.Fintype.BigOperators
import Mathlib.Tactic.FieldSimp
import Mathlib.Tactic.FinCases
import Mathlib.Tactic.Ring
import Mathlib.Tactic.LinearCombination
import Mathlib.Tactic.Linarith
import Mathlib.Tactic.Positivity
import Mathlib.Tactic.NormNum

namespace Clarabel.Lemmas.KktInertia

open Finset

section General

set_option linter.unusedSectionVars false

variable {ι : Type} [Fintype ι] [DecidableEq ι]
  {α : Type} [Field α] [LinearOrder α] [IsStrictOrderedRing α]

/-- quadratic form `xᵀ K x` -/
def qf (K : ι → ι → α) (x : ι → α) : α := ∑ i, ∑ j, x i * K i j * x j

/-- `(K x)_p`: row `p` of `K` times `x` -/
def rowDot (K : ι → ι → α) (p : ι) (x : ι → α) : α := ∑ j, K p j * x j

/-- `K` is symmetric and, on the active index set `S`, quasidefinite with sign pattern `s`:
positive definite on vectors supported in the `+` indices of `S`, negative definite on vectors
supported in the `−` indices of `S`. -/
structure QuasiDef (K : ι → ι → α) (s : ι → Bool) (S : Finset ι) : Prop where
  symm : ∀ i j, K i j = K j i
  pos : ∀ x : ι → α, (∀ i, x i ≠ 0 → i ∈ S ∧ s i = true) → x ≠ 0 → 0 < qf K x
  neg : ∀ x : ι → α, (∀ i, x i ≠ 0 → i ∈ S ∧ s i = false) → x ≠ 0 → qf K x < 0

/-- one step of symmetric elimination with pivot `p` (Schur complement; row/column `p` are
simply dropped from the active set afterwards) -/
def elim (K : ι → ι → α) (p : ι) : ι → ι → α := fun i j => K i j - K i p * K p j / K p p

/-! ### Algebraic identities -/

theorem qf_single (K : ι → ι → α) (p : ι) (t : α) :
    qf K (Pi.single p t) = t * K p p * t := by
  simp [qf, Pi.single_apply, ite_mul, mul_ite, Finset.sum_ite_eq']

/-- [F] the Schur complement's form is the original form minus `(K x)_p² / K_pp`. -/
theorem qf_elim (K : ι → ι → α) (hs : ∀ i j, K i j = K j i) (p : ι) (x : ι → α) :
    qf (elim K p) x = qf K x - (rowDot K p x) ^ 2 / K p p := by
  have h1 : ∀ i j, x i * elim K p i j * x j
      = x i * K i j * x j - (K p i * x i) * (K p j * x j) / K p p := by
    intro i j
    simp only [elim]
    rw [hs i p]
    ring
  simp only [qf, h1, Finset.sum_sub_distrib, rowDot]
  congr 1
  rw [sq, Finset.sum_mul_sum, Finset.sum_div]
  refine Finset.sum_congr rfl fun i _ => ?_
  rw [Finset.sum_div]

/-- `x + t·e_p` -/
def addAt (x : ι → α) (p : ι) (t : α) : ι → α := fun i => x i + if i = p then t else 0

/-- [F] the form at `x + t·e_p`. -/
theorem qf_addAt (K : ι → ι → α) (hs : ∀ i j, K i j = K j i) (p : ι) (x : ι → α) (t : α) :
    qf K (addAt x p t) = qf K x + 2 * t * rowDot K p x + t ^ 2 * K p p := by
  have h1 : ∀ i j, addAt x p t i * K i j * addAt x p t j
      = x i * K i j * x j + (K p i * x i) * (if j = p then t else 0)
        + (if i = p then t else 0) * (K p j * x j)
        + (if i = p then t else 0) * K i j * (if j = p then t else 0) := by
    intro i j
    simp only [addAt]
    by_cases hi : i = p <;> by_cases hj : j = p
    · subst hi; subst hj; simp; ring
    · subst hi; simp [hj]; ring
    · subst hj; simp [hi, hs i j]; ring
    · simp [hi, hj]
  simp only [qf, h1, Finset.sum_add_distrib, rowDot]
  simp [ite_mul, mul_ite, Finset.sum_ite_eq', ← Finset.mul_sum, ← Finset.sum_mul]
  ring

/-! ### (1) the pivot has the recorded sign -/

/-- [F] a diagonal entry of a quasidefinite matrix at an active index has the sign recorded in
`s` (in particular it is nonzero, so it can be used as a pivot). -/
theorem QuasiDef.pivot_sign {K : ι → ι → α} {s : ι → Bool} {S : Finset ι} {p : ι}
    (h : QuasiDef K s S) (hp : p ∈ S) : if s p then 0 < K p p else K p p < 0 := by
  have hq : qf K (Pi.single p (1 : α)) = K p p := by rw [qf_single]; ring
  have hne : (Pi.single p (1 : α) : ι → α) ≠ 0 := by
    intro h0
    have := congrFun h0 p
    simp at this
  have hsupp : ∀ b : Bool, s p = b → ∀ i, (Pi.single p (1 : α) : ι → α) i ≠ 0 → i ∈ S ∧ s i = b := by
    intro b hb i hi
    by_cases hip : i = p
    · subst hip; exact ⟨hp, hb⟩
    · exact absurd (Pi.single_eq_of_ne hip _) hi
  cases hsp : s p
  · have := h.neg _ (hsupp false hsp) hne
    simpa [hq] using this
  · have := h.pos _ (hsupp true hsp) hne
    simpa [hq] using this

/-- [F] pivots of a quasidefinite matrix are nonzero. -/
theorem QuasiDef.pivot_ne_zero {K : ι → ι → α} {s : ι → Bool} {S : Finset ι} {p : ι}
    (h : QuasiDef K s S) (hp : p ∈ S) : K p p ≠ 0 := by
  have := h.pivot_sign hp
  cases hsp : s p
  · rw [hsp] at this; exact ne_of_lt (by simpa using this)
  · rw [hsp] at this; exact ne_of_gt (by simpa using this)

/-! ### (2) one elimination step preserves quasidefiniteness -/

private theorem addAt_ne_zero {x : ι → α} {p : ι} {t : α} (hxp : x p = 0) (hx0 : x ≠ 0) :
    addAt x p t ≠ 0 := by
  intro h0
  apply hx0
  funext i
  by_cases hip : i = p
  · subst hip; simpa using hxp
  · have := congrFun h0 i
    simpa [addAt, hip] using this

private theorem addAt_supp {x : ι → α} {p : ι} {t : α} {s : ι → Bool} {S : Finset ι} {b : Bool}
    (hp : p ∈ S) (hsp : s p = b) (hx : ∀ i, x i ≠ 0 → i ∈ S.erase p ∧ s i = b) :
    ∀ i, addAt x p t i ≠ 0 → i ∈ S ∧ s i = b := by
  intro i hi
  by_cases hip : i = p
  · subst hip; exact ⟨hp, hsp⟩
  · have : x i ≠ 0 := by simpa [addAt, hip] using hi
    exact ⟨Finset.mem_of_mem_erase (hx i this).1, (hx i this).2⟩

/-- [F] the completed vector `x − ((K x)_p / K_pp)·e_p` realises the Schur complement's form. -/
theorem qf_elim_eq_qf_addAt (K : ι → ι → α) (hs : ∀ i j, K i j = K j i) (p : ι)
    (hpp : K p p ≠ 0) (x : ι → α) :
    qf (elim K p) x = qf K (addAt x p (-(rowDot K p x) / K p p)) := by
  rw [qf_elim K hs, qf_addAt K hs]
  field_simp
  ring

/-- [F] **Vanderbei's step**: the Schur complement of a symmetric quasidefinite matrix w.r.t.
ANY active diagonal pivot `p` is again quasidefinite, with the same sign pattern, on the
remaining active indices. -/
theorem QuasiDef.elim {K : ι → ι → α} {s : ι → Bool} {S : Finset ι} {p : ι}
    (h : QuasiDef K s S) (hp : p ∈ S) :
    QuasiDef (Clarabel.Lemmas.KktInertia.elim K p) s (S.erase p) := by
  have hsign := h.pivot_sign hp
  have hne : K p p ≠ 0 := h.pivot_ne_zero hp
  have hxp : ∀ (x : ι → α) (b : Bool), (∀ i, x i ≠ 0 → i ∈ S.erase p ∧ s i = b) → x p = 0 := by
    intro x b hx
    by_contra hc
    exact Finset.notMem_erase p S (hx p hc).1
  have hsub : ∀ (x : ι → α) (b : Bool), (∀ i, x i ≠ 0 → i ∈ S.erase p ∧ s i = b) →
      ∀ i, x i ≠ 0 → i ∈ S ∧ s i = b :=
    fun x b hx i hi => ⟨Finset.mem_of_mem_erase (hx i hi).1, (hx i hi).2⟩
  refine ⟨?_, ?_, ?_⟩
  · intro i j
    simp only [Clarabel.Lemmas.KktInertia.elim]
    rw [h.symm i j, h.symm i p, h.symm p j]
    ring
  · intro x hx hx0
    cases hsp : s p
    · -- opposite block: `K p p < 0`, subtracting `r²/K_pp ≤ 0` keeps positivity
      have hK : K p p < 0 := by simpa [hsp] using hsign
      have h1 := h.pos x (hsub x true hx) hx0
      have h2 : (rowDot K p x) ^ 2 / K p p ≤ 0 :=
        div_nonpos_of_nonneg_of_nonpos (sq_nonneg _) hK.le
      rw [qf_elim K h.symm]
      linarith
    · -- same block: complete the vector
      rw [qf_elim_eq_qf_addAt K h.symm p hne]
      exact h.pos _ (addAt_supp hp hsp hx) (addAt_ne_zero (hxp x true hx) hx0)
  · intro x hx hx0
    cases hsp : s p
    · rw [qf_elim_eq_qf_addAt K h.symm p hne]
      exact h.neg _ (addAt_supp hp hsp hx) (addAt_ne_zero (hxp x false hx) hx0)
    · have hK : 0 < K p p := by simpa [hsp] using hsign
      have h1 := h.neg x (hsub x false hx) hx0
      have h2 : 0 ≤ (rowDot K p x) ^ 2 / K p p := div_nonneg (sq_nonneg _) hK.le
      rw [qf_elim K h.symm]
      linarith

/-! ### (3) all pivots, any elimination order -/

/-- eliminate the indices of `order` one after the other -/
def elimAll (K : ι → ι → α) : List ι → ι → ι → α
  | [] => K
  | p :: ps => elimAll (elim K p) ps

/-- the pivots met along the way (the diagonal `D` of `LDLᵀ` in elimination order) -/
def pivots (K : ι → ι → α) : List ι → List α
  | [] => []
  | p :: ps => K p p :: pivots (elim K p) ps

@[simp] theorem length_pivots (K : ι → ι → α) (order : List ι) :
    (pivots K order).length = order.length := by
  induction order generalizing K with
  | nil => rfl
  | cons p ps ih => simp [pivots, ih]

/-- [F] after eliminating `order`, the remaining matrix is quasidefinite on the remaining
indices. -/
theorem QuasiDef.elimAll {K : ι → ι → α} {s : ι → Bool} {S : Finset ι} (order : List ι)
    (h : QuasiDef K s S) (hnd : order.Nodup) (hS : ∀ p ∈ order, p ∈ S) :
    QuasiDef (Clarabel.Lemmas.KktInertia.elimAll K order) s (S \ order.toFinset) := by
  induction order generalizing K S with
  | nil => simpa [Clarabel.Lemmas.KktInertia.elimAll] using h
  | cons p ps ih =>
    have hp : p ∈ S := hS p (List.mem_cons_self ..)
    have hnd' := List.nodup_cons.1 hnd
    have := ih (h.elim hp) hnd'.2 (fun q hq => Finset.mem_erase.2
      ⟨fun hqp => hnd'.1 (hqp ▸ hq), hS q (List.mem_cons_of_mem _ hq)⟩)
    have hset : S \ (p :: ps).toFinset = S.erase p \ ps.toFinset := by
      ext i; simp only [List.toFinset_cons, Finset.mem_sdiff, Finset.mem_insert, Finset.mem_erase]
      tauto
    rw [hset]
    exact this

/-- [F] **Vanderbei's theorem** (list form): for every elimination order (distinct active
indices) every pivot has the sign recorded in `s` for its index. -/
theorem pivots_forall₂ {K : ι → ι → α} {s : ι → Bool} {S : Finset ι} (order : List ι)
    (h : QuasiDef K s S) (hnd : order.Nodup) (hS : ∀ p ∈ order, p ∈ S) :
    List.Forall₂ (fun p d => if s p then 0 < d else d < 0) order (pivots K order) := by
  induction order generalizing K S with
  | nil => exact List.Forall₂.nil
  | cons p ps ih =>
    have hp : p ∈ S := hS p (List.mem_cons_self ..)
    have hnd' := List.nodup_cons.1 hnd
    exact List.Forall₂.cons (h.pivot_sign hp)
      (ih (h.elim hp) hnd'.2 (fun q hq => Finset.mem_erase.2
        ⟨fun hqp => hnd'.1 (hqp ▸ hq), hS q (List.mem_cons_of_mem _ hq)⟩))

/-- [F] **Vanderbei's theorem** (indexed form): the `k`-th pivot has the sign `s order[k]`. -/
theorem pivots_have_signs {K : ι → ι → α} {s : ι → Bool} {S : Finset ι} (order : List ι)
    (h : QuasiDef K s S) (hnd : order.Nodup) (hS : ∀ p ∈ order, p ∈ S)
    (k : Nat) (hk : k < order.length) :
    if s order[k] then 0 < (pivots K order)[k]'(by rw [length_pivots]; exact hk)
    else (pivots K order)[k]'(by rw [length_pivots]; exact hk) < 0 := by
  induction order generalizing K S k with
  | nil => exact absurd hk (Nat.not_lt_zero _)
  | cons p ps ih =>
    have hp : p ∈ S := hS p (List.mem_cons_self ..)
    have hnd' := List.nodup_cons.1 hnd
    cases k with
    | zero => simpa [pivots] using h.pivot_sign hp
    | succ k =>
      have := ih (h.elim hp) hnd'.2 (fun q hq => Finset.mem_erase.2
        ⟨fun hqp => hnd'.1 (hqp ▸ hq), hS q (List.mem_cons_of_mem _ hq)⟩) k
        (Nat.lt_of_succ_lt_succ hk)
      simpa [pivots] using this

/-- [F] every pivot is nonzero: the `LDLᵀ` factorisation exists without pivoting, in any
order. -/
theorem pivots_ne_zero {K : ι → ι → α} {s : ι → Bool} {S : Finset ι} (order : List ι)
    (h : QuasiDef K s S) (hnd : order.Nodup) (hS : ∀ p ∈ order, p ∈ S) :
    ∀ d ∈ pivots K order, d ≠ 0 := by
  intro d hd
  obtain ⟨k, hk, rfl⟩ := List.getElem_of_mem hd
  have hk' : k < order.length := by rw [← length_pivots K order]; exact hk
  have := pivots_have_signs order h hnd hS k hk'
  by_cases hs : s order[k] = true
  · rw [if_pos hs] at this; exact ne_of_gt this
  · rw [if_neg hs] at this; exact ne_of_lt this

end General

/-! ### (4) the block form `[[E, Bᵀ], [B, −F]]` and the regularised KKT matrix -/

section Block

set_option linter.unusedSectionVars false

variable {ι₁ ι₂ : Type} [Fintype ι₁] [Fintype ι₂] [DecidableEq ι₁] [DecidableEq ι₂]
  {α : Type} [Field α] [LinearOrder α] [IsStrictOrderedRing α]

/-- symmetric positive definite (as a quadratic form) -/
structure PosDef {ι : Type} [Fintype ι] (E : ι → ι → α) : Prop where
  symm : ∀ i j, E i j = E j i
  pos : ∀ x : ι → α, x ≠ 0 → 0 < qf E x

/-- symmetric positive semidefinite (as a quadratic form) -/
structure PosSemidef {ι : Type} [Fintype ι] (P : ι → ι → α) : Prop where
  symm : ∀ i j, P i j = P j i
  nonneg : ∀ x : ι → α, 0 ≤ qf P x

/-- `[[E, Bᵀ], [B, −F]]` -/
def blockK (E : ι₁ → ι₁ → α) (B : ι₂ → ι₁ → α) (F : ι₂ → ι₂ → α) :
    ι₁ ⊕ ι₂ → ι₁ ⊕ ι₂ → α
  | .inl i, .inl j => E i j
  | .inl i, .inr j => B j i
  | .inr i, .inl j => B i j
  | .inr i, .inr j => -F i j

/-- `P + ε·I` -/
def addDiag {ι : Type} [DecidableEq ι] (P : ι → ι → α) (ε : α) : ι → ι → α :=
  fun i j => P i j + if i = j then ε else 0

theorem qf_blockK_left (E : ι₁ → ι₁ → α) (B : ι₂ → ι₁ → α) (F : ι₂ → ι₂ → α)
    (x : ι₁ ⊕ ι₂ → α) (hx : ∀ j, x (.inr j) = 0) :
    qf (blockK E B F) x = qf E (fun i => x (.inl i)) := by
  simp [qf, Fintype.sum_sum_type, hx, blockK]

theorem qf_blockK_right (E : ι₁ → ι₁ → α) (B : ι₂ → ι₁ → α) (F : ι₂ → ι₂ → α)
    (x : ι₁ ⊕ ι₂ → α) (hx : ∀ i, x (.inl i) = 0) :
    qf (blockK E B F) x = -qf F (fun j => x (.inr j)) := by
  simp [qf, Fintype.sum_sum_type, hx, blockK]

/-- [F] `[[E, Bᵀ], [B, −F]]` with `E`, `F` symmetric positive definite is quasidefinite with
signs `+` on the left block and `−` on the right block (any `B`). -/
theorem quasiDef_blockK {E : ι₁ → ι₁ → α} (B : ι₂ → ι₁ → α) {F : ι₂ → ι₂ → α}
    (hE : PosDef E) (hF : PosDef F) :
    QuasiDef (blockK E B F) Sum.isLeft Finset.univ := by
  refine ⟨?_, ?_, ?_⟩
  · rintro (i | i) (j | j)
    · exact hE.symm i j
    · rfl
    · rfl
    · simp [blockK, hF.symm i j]
  · intro x hx hx0
    have hr : ∀ j, x (.inr j) = 0 := by
      intro j; by_contra hc; simpa using (hx _ hc).2
    rw [qf_blockK_left E B F x hr]
    apply hE.pos
    intro h0
    apply hx0
    funext k
    cases k with
    | inl i => exact congrFun h0 i
    | inr j => exact hr j
  · intro x hx hx0
    have hl : ∀ i, x (.inl i) = 0 := by
      intro i; by_contra hc; simpa using (hx _ hc).2
    rw [qf_blockK_right E B F x hl]
    have : 0 < qf F (fun j => x (.inr j)) := by
      apply hF.pos
      intro h0
      apply hx0
      funext k
      cases k with
      | inl i => exact hl i
      | inr j => exact congrFun h0 j
    linarith

theorem qf_addDiag {ι : Type} [Fintype ι] [DecidableEq ι] (P : ι → ι → α) (ε : α) (x : ι → α) :
    qf (addDiag P ε) x = qf P x + ε * ∑ i, x i ^ 2 := by
  have h1 : ∀ i j, x i * addDiag P ε i j * x j
      = x i * P i j * x j + (if i = j then ε * x i * x j else 0) := by
    intro i j
    by_cases hij : i = j
    · subst hij; simp [addDiag]; ring
    · simp [addDiag, hij]
  simp only [qf, h1, Finset.sum_add_distrib]
  simp [Finset.mul_sum]
  refine Finset.sum_congr rfl fun i _ => ?_
  ring

/-- [F] static regularisation: `P ⪰ 0`, `ε > 0` ⟹ `P + εI ≻ 0`. -/
theorem posDef_addDiag {ι : Type} [Fintype ι] [DecidableEq ι] {P : ι → ι → α} {ε : α}
    (hP : PosSemidef P) (hε : 0 < ε) : PosDef (addDiag P ε) := by
  refine ⟨?_, ?_⟩
  · intro i j
    by_cases hij : i = j
    · subst hij; rfl
    · simp [addDiag, hij, Ne.symm hij, hP.symm i j]
  · intro x hx0
    rw [qf_addDiag]
    have h1 := hP.nonneg x
    have h2 : 0 < ∑ i, x i ^ 2 := by
      obtain ⟨i, hi⟩ : ∃ i, x i ≠ 0 := by
        by_contra hc
        exact hx0 (funext fun i => by simpa using fun h => hc ⟨i, h⟩)
      exact Finset.sum_pos' (fun i _ => sq_nonneg _) ⟨i, Finset.mem_univ _, by positivity⟩
    have := mul_pos hε h2
    linarith

/-- the regularised KKT matrix `[[P+εI, Aᵀ], [A, −(H+εI)]]` -/
def kkt (P : ι₁ → ι₁ → α) (A : ι₂ → ι₁ → α) (H : ι₂ → ι₂ → α) (ε : α) :
    ι₁ ⊕ ι₂ → ι₁ ⊕ ι₂ → α :=
  blockK (addDiag P ε) A (addDiag H ε)

/-- [F] the regularised KKT matrix is quasidefinite. -/
theorem quasiDef_kkt {P : ι₁ → ι₁ → α} (A : ι₂ → ι₁ → α) {H : ι₂ → ι₂ → α} {ε : α}
    (hP : PosSemidef P) (hH : PosSemidef H) (hε : 0 < ε) :
    QuasiDef (kkt P A H ε) Sum.isLeft Finset.univ :=
  quasiDef_blockK A (posDef_addDiag hP hε) (posDef_addDiag hH hε)

/-- [F] **C11, mathematical core**: for the regularised KKT matrix
`[[P+εI, Aᵀ], [A, −(H+εI)]]` (`P, H ⪰ 0`, `ε > 0`) and ANY elimination order, symmetric
elimination without pivoting never meets a zero pivot, and the `k`-th pivot is positive iff
`order[k]` is a primal (`inl`) index, negative iff it is a dual (`inr`) index. -/
theorem kkt_pivot_signs {P : ι₁ → ι₁ → α} (A : ι₂ → ι₁ → α) {H : ι₂ → ι₂ → α} {ε : α}
    (hP : PosSemidef P) (hH : PosSemidef H) (hε : 0 < ε)
    (order : List (ι₁ ⊕ ι₂)) (hnd : order.Nodup) (k : Nat) (hk : k < order.length) :
    if (order[k]).isLeft then 0 < (pivots (kkt P A H ε) order)[k]'(by rw [length_pivots]; exact hk)
    else (pivots (kkt P A H ε) order)[k]'(by rw [length_pivots]; exact hk) < 0 :=
  pivots_have_signs order (quasiDef_kkt A hP hH hε) hnd (fun _ _ => Finset.mem_univ _) k hk

/-- [F] same, as a statement about all pivots at once. -/
theorem kkt_pivots_forall₂ {P : ι₁ → ι₁ → α} (A : ι₂ → ι₁ → α) {H : ι₂ → ι₂ → α} {ε : α}
    (hP : PosSemidef P) (hH : PosSemidef H) (hε : 0 < ε)
    (order : List (ι₁ ⊕ ι₂)) (hnd : order.Nodup) :
    List.Forall₂ (fun p d => if p.isLeft then 0 < d else d < 0) order
      (pivots (kkt P A H ε) order) :=
  pivots_forall₂ order (quasiDef_kkt A hP hH hε) hnd (fun _ _ => Finset.mem_univ _)

/-- [F] no zero pivot. -/
theorem kkt_pivots_ne_zero {P : ι₁ → ι₁ → α} (A : ι₂ → ι₁ → α) {H : ι₂ → ι₂ → α} {ε : α}
    (hP : PosSemidef P) (hH : PosSemidef H) (hε : 0 < ε)
    (order : List (ι₁ ⊕ ι₂)) (hnd : order.Nodup) :
    ∀ d ∈ pivots (kkt P A H ε) order, d ≠ 0 :=
  pivots_ne_zero order (quasiDef_kkt A hP hH hε) hnd (fun _ _ => Finset.mem_univ _)

end Block

/-! ### (5) non-vacuity: `K = [[2, 1], [1, −3]]` over `ℚ` -/

section Example

/-- `K = [[1+1, 1], [1, −(2+1)]] = [[2, 1], [1, −3]]` as a regularised KKT matrix with
`P = [1]`, `A = [1]`, `H = [2]`, `ε = 1`. -/
def exK : Fin 1 ⊕ Fin 1 → Fin 1 ⊕ Fin 1 → ℚ :=
  kkt (fun _ _ => 1) (fun _ _ => 1) (fun _ _ => 2) 1

theorem exK_entries :
    exK (.inl 0) (.inl 0) = 2 ∧ exK (.inl 0) (.inr 0) = 1 ∧
    exK (.inr 0) (.inl 0) = 1 ∧ exK (.inr 0) (.inr 0) = -3 := by
  norm_num [exK, kkt, blockK, addDiag]

theorem exP_psd : PosSemidef (fun (_ _ : Fin 1) => (1 : ℚ)) :=
  ⟨fun _ _ => rfl, fun x => by simp only [qf, Fin.sum_univ_one]; nlinarith [sq_nonneg (x 0)]⟩

theorem exH_psd : PosSemidef (fun (_ _ : Fin 1) => (2 : ℚ)) :=
  ⟨fun _ _ => rfl, fun x => by simp only [qf, Fin.sum_univ_one]; nlinarith [sq_nonneg (x 0)]⟩

/-- the hypotheses of the theory are satisfiable -/
theorem exK_quasiDef : QuasiDef exK Sum.isLeft Finset.univ :=
  quasiDef_kkt _ exP_psd exH_psd one_pos

/-- pivots in the order (primal, dual): `2, −7/2` -/
theorem exK_pivots_01 : pivots exK [.inl 0, .inr 0] = [2, -7/2] := by
  norm_num [pivots, elim, exK, kkt, blockK, addDiag]

/-- pivots in the order (dual, primal): `−3, 7/3` -/
theorem exK_pivots_10 : pivots exK [.inr 0, .inl 0] = [-3, 7/3] := by
  norm_num [pivots, elim, exK, kkt, blockK, addDiag]

/-- the signs of both pivot sequences, obtained from the theorem (not by computing) -/
example :
    List.Forall₂ (fun (p : Fin 1 ⊕ Fin 1) (d : ℚ) => if p.isLeft then 0 < d else d < 0)
      [.inl 0, .inr 0] (pivots exK [.inl 0, .inr 0]) ∧
    List.Forall₂ (fun (p : Fin 1 ⊕ Fin 1) (d : ℚ) => if p.isLeft then 0 < d else d < 0)
      [.inr 0, .inl 0] (pivots exK [.inr 0, .inl 0]) :=
  ⟨pivots_forall₂ _ exK_quasiDef (by decide) (fun _ _ => Finset.mem_univ _),
   pivots_forall₂ _ exK_quasiDef (by decide) (fun _ _ => Finset.mem_univ _)⟩

/-- ... and they agree with the computed values: `2 > 0`, `−7/2 < 0`; `−3 < 0`, `7/3 > 0`. -/
example : (0 : ℚ) < 2 ∧ (-7/2 : ℚ) < 0 ∧ (-3 : ℚ) < 0 ∧ (0 : ℚ) < 7/3 := by
  have h1 := pivots_forall₂ (K := exK) (s := Sum.isLeft) [.inl 0, .inr 0] exK_quasiDef
    (by decide) (fun _ _ => Finset.mem_univ _)
  have h2 := pivots_forall₂ (K := exK) (s := Sum.isLeft) [.inr 0, .inl 0] exK_quasiDef
    (by decide) (fun _ _ => Finset.mem_univ _)
  rw [exK_pivots_01] at h1
  rw [exK_pivots_10] at h2
  simpa using And.intro h1 h2

/-- a sign pattern that is NOT of two-block form also satisfies `QuasiDef` (hand-made 3×3
example with an auxiliary `+` variable after the `−` block, like the sparse SOC expansion):
`K = diag(2, −3, 1) + off-diagonals`. -/
def exK3 : Fin 3 → Fin 3 → ℚ := fun i j =>
  if i = j then (if i = 0 then 2 else if i = 1 then -3 else 1)
  else if i = 2 ∨ j = 2 then (if i = 0 ∨ j = 0 then 0 else 1) else 1

def exS3 : Fin 3 → Bool := fun i => i ≠ 1

theorem exK3_quasiDef : QuasiDef exK3 exS3 Finset.univ := by
  refine ⟨by decide, ?_, ?_⟩
  · intro x hx hx0
    have h1 : x 1 = 0 := by
      by_contra hc; have := (hx 1 hc).2; simp [exS3] at this
    have hq : qf exK3 x = 2 * x 0 ^ 2 + x 2 ^ 2 := by
      simp [qf, Fin.sum_univ_three, exK3, h1]; ring
    rw [hq]
    have : x 0 ≠ 0 ∨ x 2 ≠ 0 := by
      by_contra hc
      rw [not_or, not_not, not_not] at hc
      apply hx0
      funext i
      fin_cases i
      · exact hc.1
      · exact h1
      · exact hc.2
    rcases this with h | h
    · have := pow_pos (abs_pos.2 h) 2; rw [sq_abs] at this; nlinarith [sq_nonneg (x 2)]
    · have := pow_pos (abs_pos.2 h) 2; rw [sq_abs] at this; nlinarith [sq_nonneg (x 0)]
  · intro x hx hx0
    have h0 : x 0 = 0 := by
      by_contra hc; have := (hx 0 hc).2; simp [exS3] at this
    have h2 : x 2 = 0 := by
      by_contra hc; have := (hx 2 hc).2; simp [exS3] at this
    have hq : qf exK3 x = -3 * x 1 ^ 2 := by
      simp [qf, Fin.sum_univ_three, exK3, h0, h2]; ring
    rw [hq]
    have h1 : x 1 ≠ 0 := by
      intro hc
      apply hx0
      funext i
      fin_cases i
      · exact h0
      · exact hc
      · exact h2
    have := pow_pos (abs_pos.2 h1) 2; rw [sq_abs] at this; nlinarith

/-- all six elimination orders of the 3×3 example give pivots with signs `(+, −, +)` at the
indices `(0, 1, 2)` -/
example (order : List (Fin 3)) (hnd : order.Nodup) :
    List.Forall₂ (fun p d => if exS3 p then 0 < d else d < 0) order (pivots exK3 order) :=
  pivots_forall₂ order exK3_quasiDef hnd (fun _ _ => Finset.mem_univ _)

end Example

end Clarabel.Lemmas.KktInertia
