/-
  Clique-graph merge strategy, `post_process_merge` WHEN AT LEAST TWO CLIQUES ARE LEFT
  (`ClarabelModel/Chordal/MergeCG.lean`, Rust `src/solver/chordal/merge/clique_graph.rs`):
  from the loop invariant `CGInv` to the state `BridgePre` in which `SparsityPattern::new`
  relabels the tree.

  Part 1 (`ChordalCGPostMultiRun.lean`): NO PANIC (`post_multi_run`) + the description `CGPostDesc`
  of the returned tree.  Part 2 (`ChordalCGPostMultiA.lean`): the checks as propositions and the
  set-level reading of `CGPostDesc`.  Here:

  * `CGPostDesc.ctinv` : the result satisfies the clique-tree invariant `CTInv`, ranked by the
    position in the new post-order (disjointness of the supernodes is the checked hypothesis
    `snDisjointB`, the running-intersection property of Kruskal's spanning tree);
  * `CGPostDesc.bridgePre` : `PreReorder` + `BridgePre`;
  * `post_multi_desc`, `post_multi_spec : PostMultiSpec`.

  WITHOUT ITS SECOND ANTECEDENT (`snLiveNonemptyB`) `PostMultiSpec` WOULD BE FALSE.  The clause
  `BridgePre.nonempty` (live supernodes are non-empty) does not follow from `CGInv`, `CGFrame`,
  `CGCover` and `snDisjointB t' = true`: nothing forbids a live clique that is CONTAINED in the
  clique of its spanning-tree parent; `split_cliques` then gives it the supernode
  `clique \ parent clique = ∅`, and an empty set passes the disjointness check.  Counterexample
  (the `#guard` at the end of this file evaluates it on every build): `L` with columns
  `{2,3}, {2,3}, {3}, {}` (filled), `t0 = SuperNodeTree::new L` (supernodes `{0,2,3}`, `{1}`),
  `(s1, t1) = initialise t0`, `t = t1` with the cliques grown to `{0,2,3,1}` and `{1,2,3}`:
  the executable invariant `cgInvWhy 2 4 s1 t` reports no failing clause, `CGFrame t1 t` and
  `CGCover t1 t` hold by construction, `n_cliques = 2`; `post_process_merge` returns the supernodes
  `{0,1,2,3}`, `{}` with parents `NO_PARENT`, `0`: `snDisjointB = true`, but clique `1` is live
  and empty.  Hence the second checked link `snLiveNonemptyB t' = true`
  (evaluated on the result, like `snDisjointB`).
-/
import ClarabelProofs.Lemmas.ChordalCGPostMultiA

namespace Clarabel.Chordal
open Clarabel

/-- [S] a two-element sublist of a duplicate-free list: the first element has the smaller index -/
theorem cgpm_idxOf_lt {l : List Nat} (hnd : l.Nodup) {a b : Nat} (h : List.Sublist [a, b] l) :
    l.idxOf a < l.idxOf b := by
  obtain ⟨i, j, hij, hi, hj⟩ := brg_sublist_pair l h
  obtain ⟨hi1, hi2⟩ := List.getElem?_eq_some_iff.1 hi
  obtain ⟨hj1, hj2⟩ := List.getElem?_eq_some_iff.1 hj
  have e1 := hnd.idxOf_getElem i hi1
  have e2 := hnd.idxOf_getElem j hj1
  rw [hi2] at e1
  rw [hj2] at e2
  omega

/-- [S] **THE RESULT OF `post_process_merge` IS A CLIQUE TREE** (`CTInv`, ranked by the position in
the new post-order) — provided its supernodes are pairwise disjoint (`snDisjointB`, the running
intersection property of the spanning tree, a checked hypothesis) -/
theorem CGPostDesc.ctinv {N : Nat} {t t' : SuperNodeTree} {r : Nat} (h : CGPostDesc N t t' r)
    (hnd : ∀ c, (t.snode.getD c #[]).toList.Nodup) (hdisj : snDisjointB t' = true) :
    CTInv t' (fun c => t'.snodePost.toList.idxOf c) := by
  have hsm := h.tree.small
  have hmk : inactiveNode < noParent := by decide
  have hps := h.tree.size
  have hliveN : ∀ c, Live t' c → c < N := fun c hl => h.live_lt ((h.live_iff c).1 hl)
  refine
    { sz_sep := by rw [h.sep_size, h.sn_size]
      sz_par := by rw [hps, h.sn_size]
      sz_ch := by rw [h.children.size_eq, hps, h.sn_size]
      small := by rw [h.sn_size]; exact hsm
      par_live := ?_
      ch_iff := ?_
      ch_nodup := fun p hp => h.children.nodup p (by rw [hps, ← h.sn_size]; exact hp)
      sep_sub := ?_
      sn_nodup := fun c _ => h.sn_nodup hnd c
      sep_nodup := fun c _ => h.sep_nodup hnd c
      sn_disj := ?_
      ord_lt := ?_
      root_sep := ?_
      dead_snode := fun c hl => h.dead_sn c (fun hm => hl ((h.live_iff c).2 ((mem_cgLiveList t c).1 hm)))
      dead_sep := fun c hl => h.dead_sep c (fun hm => hl ((h.live_iff c).2 ((mem_cgLiveList t c).1 hm)))
      dead_ch := ?_ }
  · intro c hl hnp
    have hc := (h.live_iff c).1 hl
    exact (h.live_iff _).2 (h.par_live hc (fun e => hnp ((h.root_iff hc).2 e)))
  · intro p c hl
    rw [h.children.mem_iff p c hl.1]
    have hpN := hliveN p hl
    constructor
    · rintro ⟨hc, hp⟩; exact ⟨⟨hc, by rw [hp]; omega⟩, hp⟩
    · rintro ⟨hlc, hp⟩; exact ⟨hlc.1, hp⟩
  · intro c hl hnp v hv
    have hc := (h.live_iff c).1 hl
    have hcr : c ≠ r := fun e => hnp ((h.root_iff hc).2 e)
    exact (h.mem_clique (h.par_live hc hcr) v).2 ((h.mem_sep hc hcr v).1 hv).2
  · intro a b hla hlb hab
    have ha : a < t'.snode.size := by rw [h.sn_size]; exact hliveN a hla
    have hb : b < t'.snode.size := by rw [h.sn_size]; exact hliveN b hlb
    exact ((snDisjointB_iff t').1 hdisj).2 a b ha hb hab
  · intro c hl hnp
    have hc := (h.live_iff c).1 hl
    have hcr : c ≠ r := fun e => hnp ((h.root_iff hc).2 e)
    exact cgpm_idxOf_lt h.post_nodup (h.before c ((mem_cgLiveList t c).2 hc) hcr)
  · intro c hl hp
    have hc := (h.live_iff c).1 hl
    rw [(h.root_iff hc).1 hp]; exact h.sep_root
  · intro c hl
    by_cases hc : c < t'.snodeParent.size
    · have hnone : ∀ x, x ∉ (t'.snodeChildren.getD c #[]).toList := by
        intro x hx
        obtain ⟨hxl, hxp⟩ := (h.children.mem_iff c x hc).1 hx
        have hcN : c < N := hps ▸ hc
        have hlx : Live t' x := ⟨hxl, by rw [hxp]; omega⟩
        have hxc := (h.live_iff x).1 hlx
        have hxr : x ≠ r := by
          intro e
          have := (h.root_iff hxc).2 e
          omega
        exact hl (hxp ▸ (h.live_iff _).2 (h.par_live hxc hxr))
      have : (t'.snodeChildren.getD c #[]).toList = [] := List.eq_nil_iff_forall_not_mem.2 hnone
      exact Array.toList_eq_nil_iff.1 this
    · exact pcl_getD_oob _ _ _ (by rw [h.children.size_eq]; exact hc)

/-- [S] **THE RESULT OF `post_process_merge` IS IN THE STATE `BridgePre`** in which
`SparsityPattern::new` relabels it — provided the two checked links hold (supernodes pairwise
disjoint, live supernodes non-empty) and the cliques at loop exit cover the vertices and the
structural non-zeros of `L` -/
theorem CGPostDesc.bridgePre {L : LPat} {N : Nat} {s : CGStrategy} {t t' : SuperNodeTree} {r : Nat}
    (h : CGPostDesc N t t' r) (hinv : CGInv N L.n s t) (hvp : t.post.size = L.n)
    (hcovV : ∀ v, v < L.n → ∃ c, v ∈ (t.snode.getD c #[]).toList)
    (hcovE : ∀ x, x < L.n → ∀ y ∈ L.col x, ∃ c, x ∈ (t.snode.getD c #[]).toList ∧
      y ∈ (t.snode.getD c #[]).toList)
    (hdisj : snDisjointB t' = true) (hne : snLiveNonemptyB t' = true) :
    BridgePre L t' (fun c => t'.snodePost.toList.idxOf c) := by
  have hct := h.ctinv hinv.sn_nodup hdisj
  have hpl : ∀ c, c ∈ t'.snodePost.toList ↔ Live t' c := fun c => by
    rw [h.post_perm.mem_iff, mem_cgLiveList, h.live_iff]
  have hrl : CGLive t r := (mem_cgLiveList t r).1 h.tree.root_mem
  refine
    { pre :=
        { ct := hct
          post_nodup := h.post_nodup
          post_live := hpl
          post_size := by
            have := h.post_perm.length_eq
            rw [Array.length_toList] at this
            rw [this, h.ncl, hinv.ncl]
          vpost_size := by rw [h.post]; exact hvp
          part := ?_
          sep_lt := fun c _ x hx => hinv.sn_lt c x (h.sep_sub' c x hx) }
      nonempty := ?_
      before := ?_
      root := ⟨r, (h.live_iff r).2 hrl, h.last, fun c hl => h.root_iff ((h.live_iff c).1 hl)⟩
      cover := ?_ }
  · intro v
    constructor
    · intro hv
      obtain ⟨c, hc⟩ := hcovV v hv
      obtain ⟨c', hl', hv'⟩ := h.exists_sn hc
      exact ⟨c', (h.live_iff c').2 hl', hv'⟩
    · rintro ⟨c, _, hv⟩
      exact hinv.sn_lt c v (h.sn_sub c v hv)
  · intro c hl
    exact (snLiveNonemptyB_iff t').1 hne c (hct.sz_par ▸ hl.1) hl.2
  · intro c hl hnp
    have hc := (h.live_iff c).1 hl
    exact h.before c ((mem_cgLiveList t c).2 hc) (fun e => hnp ((h.root_iff hc).2 e))
  · intro x hx y hy
    obtain ⟨c, hxc, hyc⟩ := hcovE x hx y hy
    have hc := cgpm_live_of_mem hxc
    exact ⟨c, (h.live_iff c).2 hc, (h.mem_clique hc x).2 hxc, (h.mem_clique hc y).2 hyc⟩

/-- [S] **`post_process_merge` with at least two cliques left** (`PostMultiSpec`): NO PANIC; the
returned tree is described by `CGPostDesc`; and if its supernodes are pairwise disjoint and the
live ones non-empty (both evaluated on the result) it is a clique tree in the state `BridgePre`,
ranked by the position in the new post-order. -/
theorem post_multi_desc (L : LPat) (t0 t1 t : SuperNodeTree) (s : CGStrategy) (hf : L.Filled)
    (hok : SnTreeOk L t0) (hi : CGInitRel t0 t1) (hfr : CGFrame t1 t) (hcov : CGCover t1 t)
    (hinv : CGInv t0.snode.size L.n s t) (h2 : 2 ≤ t.nCliques) :
    ∃ s' t' r, s.postProcessMerge t = .ok (s', t') ∧ CGPostDesc t0.snode.size t t' r ∧
      (snDisjointB t' = true → snLiveNonemptyB t' = true →
        BridgePre L t' (fun c => t'.snodePost.toList.idxOf c)) := by
  have hct0 := hok.ct
  have hch : t.snodeChildren = Array.replicate t0.snode.size #[] := by
    rw [hfr.snodeChildren, hi.children, hct0.sz_par]
  have hsep : t.separators.size = t0.snode.size := by
    rw [hfr.separators, ← hct0.sz_sep]
    simpa using hi.seps.length_eq
  have hpe : t.post = t0.post := hfr.post.trans hi.post
  have hvp : t.post.size = L.n := by
    rw [hpe]; simpa using hok.vpost_perm.length_eq
  have hn := hf.n_pos
  have hpost : t.post.back? = some (t.post.getD (t.post.size - 1) 0) := by
    simp [Array.back?, Array.getD, show t.post.size - 1 < t.post.size by omega]
  have hv0lt : t.post.getD (t.post.size - 1) 0 < L.n := by
    have hm : t.post.getD (t.post.size - 1) 0 ∈ t0.post.toList := by
      rw [← hpe]; exact snp_getD_mem_toList _ _ (by omega)
    exact List.mem_range.1 (hok.vpost_perm.mem_iff.1 hm)
  have hcovV : ∀ v, v < L.n → ∃ c, v ∈ (t.snode.getD c #[]).toList := by
    intro v hv
    obtain ⟨c0, _, hv0⟩ := ((hok.preReorder hf).part v).1 hv
    have hv1 : v ∈ (t1.snode.getD c0 #[]).toList := by
      rw [hi.clique c0 v]; unfold cliqueList; exact List.mem_append_left _ hv0
    obtain ⟨c', _, hsub⟩ := hcov.cover c0 (cgpm_live_of_mem hv1)
    exact ⟨c', hsub v hv1⟩
  have hcovE : ∀ x, x < L.n → ∀ y ∈ L.col x, ∃ c, x ∈ (t.snode.getD c #[]).toList ∧
      y ∈ (t.snode.getD c #[]).toList := by
    intro x hx y hy
    obtain ⟨c0, _, hx0, hy0⟩ := (hok.bridgePre hf).cover x hx y hy
    have hx1 : x ∈ (t1.snode.getD c0 #[]).toList := (hi.clique c0 x).2 hx0
    have hy1 : y ∈ (t1.snode.getD c0 #[]).toList := (hi.clique c0 y).2 hy0
    obtain ⟨c', _, hsub⟩ := hcov.cover c0 (cgpm_live_of_mem hx1)
    exact ⟨c', hsub x hx1, hsub y hy1⟩
  obtain ⟨c0, hc0⟩ := hcovV _ hv0lt
  obtain ⟨s', t', hrun, hdesc⟩ := post_multi_run hinv h2 hch hsep hpost hc0
  exact ⟨s', t', _, hrun, hdesc, fun hd hne => hdesc.bridgePre hinv hvp hcovV hcovE hd hne⟩

/-- [S] `post_process_merge` with at least two cliques left, in the form of the stage
specifications of `ChordalCGSpecs.lean` -/
theorem post_multi_spec : PostMultiSpec := by
  intro L t0 t1 t s hf hok hi hfr hcov hinv h2
  obtain ⟨s', t', _, hrun, _, hB⟩ := post_multi_desc L t0 t1 t s hf hok hi hfr hcov hinv h2
  exact ⟨s', t', hrun, fun hd hne => ⟨_, hB hd hne⟩⟩


/-- [S] WHERE THE SECOND CHECKED LINK COMES FROM: if at loop exit no live clique is contained in
another live clique (true for the maximal cliques `initialise` starts from, but not maintained by
`CGInv`), every live clique of the result has a non-empty supernode -/
theorem CGPostDesc.nonempty_of_antichain {N : Nat} {t t' : SuperNodeTree} {r : Nat}
    (h : CGPostDesc N t t' r)
    (hanti : ∀ a b, CGLive t a → CGLive t b → a ≠ b →
      ∃ v ∈ (t.snode.getD a #[]).toList, v ∉ (t.snode.getD b #[]).toList) :
    snLiveNonemptyB t' = true := by
  rw [snLiveNonemptyB_iff]
  intro c hc hp
  have hl : Live t' c := ⟨by rw [h.tree.size, ← h.sn_size]; exact hc, hp⟩
  have hcl := (h.live_iff c).1 hl
  by_cases hcr : c = r
  · subst hcr
    rw [h.sn_root]
    intro he
    have : (t.snode.getD c #[]).toList = [] := by
      have := (VSet.sort_perm (t.snode.getD c #[])).length_eq
      rw [he] at this
      exact List.eq_nil_of_length_eq_zero this.symm
    exact hcl.2 (Array.toList_eq_nil_iff.1 this)
  · have hpl := h.par_live hcl hcr
    have hne : c ≠ t'.snodeParent.getD c 0 := by
      intro e
      have := cgpm_idxOf_lt h.post_nodup (h.before c ((mem_cgLiveList t c).2 hcl) hcr)
      rw [← e] at this
      omega
    obtain ⟨v, hv1, hv2⟩ := hanti c _ hcl hpl hne
    exact List.ne_nil_of_mem ((h.mem_sn hcl hcr v).2 ⟨hv1, hv2⟩)

/-! ## non-vacuity, and the counterexample to `PostMultiSpec` -/

/-- non-vacuity of `cliqueIntersections_ok`: the weighted triangle of `ChordalKruskal.lean` -/
example : ∃ E', cliqueIntersections KrEx.tri KrEx.cliques = .ok E' ∧
    E'.rowval = KrEx.tri.rowval ∧ E'.colptr = KrEx.tri.colptr :=
  let ⟨_, h, _⟩ := cliqueIntersections_ok KrEx.tri_wfe (snd := KrEx.cliques) (by decide)
  ⟨_, h, rfl, rfl⟩

/-- the tree `post_process_merge` returns on the counterexample state -/
def cgpmExT' : SuperNodeTree :=
  { snode := #[#[0, 1, 2, 3], #[]], snodePost := #[1, 0], snodeParent := #[noParent, 0],
    snodeChildren := #[#[1], #[]], post := #[0, 1, 2, 3], separators := #[#[], #[1, 2, 3]],
    nblk := none, nCliques := 2 }

/-- non-vacuity of `snDisjointB_iff` / `snLiveNonemptyB_iff`: the tree returned on the
counterexample state passes the first check and fails the second -/
example : snDisjointB cgpmExT' = true ∧ snLiveNonemptyB cgpmExT' = false := by
  constructor <;> decide

/-- the pattern of the counterexample: columns `{2,3}`, `{2,3}`, `{3}`, `{}` -/
def cgpmExL : LPat := { n := 4, colptr := #[0, 2, 4, 5, 5], rowval := #[2, 3, 2, 3, 3] }

/-- the counterexample to `PostMultiSpec`, evaluated: hypotheses (`CGInv` through `cgInvWhy`, two
cliques) hold, `post_process_merge` succeeds, `snDisjointB` holds for the result, and yet a live
clique of the result has an empty supernode -/
def cgpmCounterexample : Bool :=
  match (do
    let t0 ← SuperNodeTree.new cgpmExL
    let (s1, t1) ← CGStrategy.new.initialise t0
    let t := { t1 with snode := #[#[0, 2, 3, 1], #[1, 2, 3]] }
    let (_, t') ← s1.postProcessMerge t
    pure ((cgInvWhy t0.snode.size cgpmExL.n s1 t).isNone && t.nCliques == 2 &&
      snDisjointB t' && !snLiveNonemptyB t' &&
      t' == cgpmExT') : MErr Bool) with
  | .ok b => b
  | .error _ => false

#guard cgpmCounterexample

end Clarabel.Chordal
