/-
  Panic-freedom of the whole-solver model (C04) — the `DefaultVariables` stage
  (`affine_step_rhs`, `combined_step_rhs`, `calc_step_length`, `add_step`, `copy_from`,
  `scale_cones`, `symmetric_initialization`) on top of the composite-cone stage.

  The composite-cone facts are consumed through the bundle `ConeStage` (proved in
  `SolverModelNoPanicConesA/B.lean`, assembled in `SolverModelNoPanicAll.lean`).

  `OkAnd x Q` : `x` returns `.ok b` with `Q b` — the totality calculus used by all stage files.
  All structural ([S]).
-/
import ClarabelProofs.Lemmas.SolverModelNoPanicDefs2

namespace Clarabel.Solver
open Clarabel Info Residuals

set_option linter.unusedSectionVars false
set_option linter.unusedVariables false

variable {α : Type}

/-! ### the totality calculus -/

/-- `x` succeeds with a value satisfying `Q` -/
def OkAnd {β : Type} (x : MErr β) (Q : β → Prop) : Prop := ∃ b, x = .ok b ∧ Q b

theorem OkAnd.pure {β : Type} {Q : β → Prop} {a : β} (h : Q a) : OkAnd (Pure.pure a : MErr β) Q :=
  ⟨a, rfl, h⟩

theorem OkAnd.ok {β : Type} {Q : β → Prop} {a : β} (h : Q a) : OkAnd (Except.ok a : MErr β) Q :=
  ⟨a, rfl, h⟩

theorem OkAnd.bind {β γ : Type} {x : MErr β} {f : β → MErr γ} {P : β → Prop} {Q : γ → Prop}
    (hx : OkAnd x P) (hf : ∀ a, P a → OkAnd (f a) Q) : OkAnd (x >>= f) Q := by
  obtain ⟨a, ha, hP⟩ := hx
  subst ha
  exact hf a hP

theorem OkAnd.mono {β : Type} {x : MErr β} {P Q : β → Prop} (hx : OkAnd x P) (h : ∀ a, P a → Q a) :
    OkAnd x Q := by
  obtain ⟨a, ha, hP⟩ := hx
  exact ⟨a, ha, h a hP⟩

/-- keep the equation -/
theorem OkAnd.of_exists {β : Type} {x : MErr β} (h : ∃ b, x = .ok b) : OkAnd x (fun b => x = .ok b) := by
  obtain ⟨b, hb⟩ := h
  exact ⟨b, hb, hb⟩

theorem OkAnd.noPanic {β : Type} {x : MErr β} {Q : β → Prop} (h : OkAnd x Q) : NoPanic x :=
  let ⟨_, hb, _⟩ := h; NoPanic.of_ok hb

theorem OkAnd.exists {β : Type} {x : MErr β} {Q : β → Prop} (h : OkAnd x Q) : ∃ b, x = .ok b :=
  let ⟨b, hb, _⟩ := h; ⟨b, hb⟩

section
variable [Add α] [Sub α] [Mul α] [Div α] [Neg α] [OfNat α 0] [OfNat α 1] [OfNat α 2]
  [OfNat α 100] [OfNat α 1000] [LT α] [DecidableLT α] [LE α] [DecidableLE α] [BEq α] [FloatLike α]

/-! ### the three asserting vector kernels -/

theorem copyInto_ok {dst src : Array α} (site : String) (h : dst.size = src.size) :
    OkAnd (copyInto dst src site) (fun v => v = src) := by
  unfold copyInto
  rw [if_neg (by simp [h])]
  exact .pure rfl

theorem axpbyE_ok {a b : α} {x y : Array α} (site : String) (h : y.size = x.size) :
    OkAnd (axpbyE a x b y site) (fun v => v.size = y.size) := by
  unfold axpbyE
  rw [if_neg (by simp [h])]
  exact .pure (axpby_size a x b y h)

theorem waxpbyE_ok {len : Nat} {a b : α} {x y : Array α} (site : String) (hx : len = x.size)
    (hy : len = y.size) : OkAnd (waxpbyE len a x b y site) (fun v => v.size = len) := by
  unfold waxpbyE
  rw [if_neg (by simp [hx, ← hy])]
  refine .pure ?_
  rw [waxpby_size a x b y (by omega)]
  exact hx.symm

/-! ### the composite-cone stage, as a bundle -/

/-- totality of the composite-cone operations on consistently sized cone objects and vectors of
the composite cone's dimension (`SolverModelNoPanicConesA.lean`, `…ConesB.lean`) -/
structure ConeStage (α : Type) [Add α] [Sub α] [Mul α] [Div α] [Neg α] [OfNat α 0] [OfNat α 1]
    [LT α] [DecidableLT α] [FloatLike α] : Prop where
  setIdentity : ∀ cones : List (ConeSt α), ConesFull cones →
    ConesFull (setIdentityScaling cones)
      ∧ (setIdentityScaling cones).map ConeSt.kktSpec = cones.map ConeSt.kktSpec
      ∧ (setIdentityScaling cones).map ConeSt.compSpec = cones.map ConeSt.compSpec
      ∧ numelAll (setIdentityScaling cones) = numelAll cones
  updateScaling : ∀ (cones : List (ConeSt α)) (s z : Array α), ConesFull cones →
    s.size = numelAll cones → z.size = numelAll cones →
    ∃ r, updateScaling cones s z = .ok r ∧ ConesFull r.2
      ∧ r.2.map ConeSt.kktSpec = cones.map ConeSt.kktSpec ∧ numelAll r.2 = numelAll cones
  affineDs : ∀ (cones : List (ConeSt α)) (ds : Array α), ConesFull cones → ds.size = numelAll cones →
    ∃ o, affineDs cones ds = .ok o
  mulHs : ∀ (cones : List (ConeSt α)) (y x : Array α), ConesFull cones → y.size = numelAll cones →
    x.size = numelAll cones → ∃ o, mulHs cones y x = .ok o
  combinedDsShift : ∀ (cones : List (ConeSt α)) (shift stepZ stepS : Array α) (σμ : α), ConesFull cones →
    shift.size = numelAll cones → stepZ.size = numelAll cones → stepS.size = numelAll cones →
    ∃ o, combinedDsShift cones shift stepZ stepS σμ = .ok o
  dsFromDzOffset : ∀ (cones : List (ConeSt α)) (out ds z : Array α), ConesFull cones →
    out.size = numelAll cones → ds.size = numelAll cones → z.size = numelAll cones →
    ∃ o, dsFromDzOffset cones out ds z = .ok o
  stepLength : ∀ (cones : List (ConeSt α)) (dz ds z s : Array α) (msf amax : α), ConesFull cones →
    dz.size = numelAll cones → ds.size = numelAll cones → z.size = numelAll cones →
    s.size = numelAll cones → ∃ r, stepLength cones dz ds z s msf amax = .ok r
  shiftToConeInterior : ∀ (cones : List (ConeSt α)) (z : Array α) (primal : Bool), ConesFull cones →
    z.size = numelAll cones →
    ∃ z', Composite.shiftToConeInterior (cones.map ConeSt.compSpec) z primal = .ok z'

/-! ### `DefaultVariables` -/

/-- [S] `copy_from` between variables of the same dimensions -/
theorem varsCopyFrom_ok {n m : Nat} {dst src : Vars α} (hd : VarsSized n m dst) (hs : VarsSized n m src) :
    OkAnd (varsCopyFrom dst src) (VarsSized n m) := by
  unfold varsCopyFrom
  refine (copyInto_ok "x" (hd.x.trans hs.x.symm)).bind fun x hx => ?_
  refine (copyInto_ok "s" (hd.s.trans hs.s.symm)).bind fun s hs' => ?_
  refine (copyInto_ok "z" (hd.z.trans hs.z.symm)).bind fun z hz => ?_
  subst hx hs' hz
  exact .pure ⟨hs.x, hs.s, hs.z⟩

/-- [S] `add_step` -/
theorem addStep_ok {n m : Nat} {v step : Vars α} (a : α) (hv : VarsSized n m v) (hs : VarsSized n m step) :
    OkAnd (addStep v step a) (VarsSized n m) := by
  unfold addStep
  refine (axpbyE_ok "x" (hv.x.trans hs.x.symm)).bind fun x hx => ?_
  refine (axpbyE_ok "s" (hv.s.trans hs.s.symm)).bind fun s hs' => ?_
  refine (axpbyE_ok "z" (hv.z.trans hs.z.symm)).bind fun z hz => ?_
  exact .pure ⟨hx.trans hv.x, hs'.trans hv.s, hz.trans hv.z⟩

/-- [S] `affine_step_rhs` -/
theorem affineStepRhs_ok (CS : ConeStage α) {n m : Nat} {self vars : Vars α} {r : Resid α}
    {cones : List (ConeSt α)} (hc : ConesFull cones) (hm : numelAll cones = m)
    (hself : VarsSized n m self) (hr : ResidSized n m r) (hv : VarsSized n m vars) :
    OkAnd (affineStepRhs self r vars cones) (VarsSized n m) := by
  have key : ∃ o, affineStepRhs self r vars cones = .ok o := by
    unfold affineStepRhs
    obtain ⟨x, hx, _⟩ := copyInto_ok (dst := self.x) (src := r.rx) "rhs.x" (hself.x.trans hr.rx.symm)
    obtain ⟨z, hz, _⟩ := copyInto_ok (dst := self.z) (src := r.rz) "rhs.z" (hself.z.trans hr.rz.symm)
    obtain ⟨ps, hps⟩ := cutE_ok (cones := cones) (v := vars.s) "affine_ds s" (by rw [hm, hv.s])
    obtain ⟨s, hs⟩ := CS.affineDs cones self.s hc (by rw [hm]; exact hself.s)
    rw [bind_ok_of hx, bind_ok_of hz, bind_ok_of hps, bind_ok_of hs]
    exact ⟨_, rfl⟩
  obtain ⟨o, ho⟩ := key
  exact ⟨o, ho, hself.of_shape (affineStepRhs_shape ho)⟩

/-- [S] `combined_step_rhs` -/
theorem combinedStepRhs_ok (CS : ConeStage α) {n m : Nat} {self vars step : Vars α} {r : Resid α}
    {cones : List (ConeSt α)} (σ μ mm : α) (hc : ConesFull cones) (hm : numelAll cones = m)
    (hself : VarsSized n m self) (hr : ResidSized n m r) (hv : VarsSized n m vars)
    (hstep : VarsSized n m step) :
    OkAnd (combinedStepRhs self r vars cones step σ μ mm)
      (fun o => VarsSized n m o.1 ∧ VarsSized n m o.2) := by
  have key : ∃ o, combinedStepRhs self r vars cones step σ μ mm = .ok o := by
    unfold combinedStepRhs
    dsimp only
    obtain ⟨x, hx, _⟩ := axpbyE_ok (a := (1 : α) - σ) (b := 0) (x := r.rx) (y := self.x) "rhs.x"
      (hself.x.trans hr.rx.symm)
    rw [bind_ok_of hx]
    have hsz : (if mm < 1 ∨ 1 < mm ∨ FloatLike.isNaN mm = true then Vec.scale step.z mm else step.z).size
        = numelAll cones := by
      split
      · unfold Vec.scale; rw [Array.size_map, hm]; exact hstep.z
      · rw [hm]; exact hstep.z
    obtain ⟨o, ho⟩ := CS.combinedDsShift cones self.z _ step.s (σ * μ) hc (by rw [hm]; exact hself.z) hsz
      (by rw [hm]; exact hstep.s)
    rw [bind_ok_of ho]
    obtain ⟨c1, c2, c3⟩ := combinedDsShift_size hc.ok ho
    obtain ⟨shift, stepz, steps⟩ := o
    dsimp only at c1 c2 c3 ⊢
    obtain ⟨s, hs, _⟩ := axpbyE_ok (a := (1 : α)) (b := 1) (x := shift) (y := self.s) "rhs.s"
      (by rw [c1, hself.s, hself.z])
    rw [bind_ok_of hs]
    obtain ⟨z, hz, _⟩ := axpbyE_ok (a := (1 : α) - σ) (b := 0) (x := r.rz) (y := shift) "rhs.z"
      (by rw [c1, hself.z, hr.rz])
    rw [bind_ok_of hz]
    exact ⟨_, rfl⟩
  obtain ⟨o, ho⟩ := key
  obtain ⟨h1, h2⟩ := combinedStepRhs_shape hc.ok ho
  exact ⟨o, ho, hself.of_shape h1, hstep.of_shape h2⟩

/-- [S] `calc_step_length` -/
theorem calcStepLength_ok (CS : ConeStage α) {n m : Nat} {vars step : Vars α} {cones : List (ConeSt α)}
    (maxValue msf : α) (dir : StepDirection) (hc : ConesFull cones) (hm : numelAll cones = m)
    (hv : VarsSized n m vars) (hs : VarsSized n m step) :
    ∃ a, calcStepLength vars step cones maxValue msf dir = .ok a := by
  unfold calcStepLength
  obtain ⟨r, hr⟩ := CS.stepLength cones step.z step.s vars.z vars.s msf
    (Loop.Step.alphaMax vars.τ vars.κ step.τ step.κ maxValue) hc (by rw [hm]; exact hs.z)
    (by rw [hm]; exact hs.s) (by rw [hm]; exact hv.z) (by rw [hm]; exact hv.s)
  dsimp only
  rw [bind_ok_of hr]
  exact ⟨_, rfl⟩

/-- [S] `symmetric_initialization` -/
theorem symmetricInitialization_ok (CS : ConeStage α) {n m : Nat} {v : Vars α} {cones : List (ConeSt α)}
    (hc : ConesFull cones) (hm : numelAll cones = m) (hv : VarsSized n m v) :
    OkAnd (symmetricInitialization v cones) (VarsSized n m) := by
  have key : ∃ o, symmetricInitialization v cones = .ok o := by
    unfold symmetricInitialization
    dsimp only
    obtain ⟨s, hs⟩ := CS.shiftToConeInterior cones v.s true hc (by rw [hm]; exact hv.s)
    obtain ⟨z, hz⟩ := CS.shiftToConeInterior cones v.z false hc (by rw [hm]; exact hv.z)
    rw [bind_ok_of hs, bind_ok_of hz]
    exact ⟨_, rfl⟩
  obtain ⟨o, ho⟩ := key
  exact ⟨o, ho, hv.of_shape (symmetricInitialization_shape ho)⟩

/-- [S] `scale_cones`: total, and the cone objects stay consistently sized with the same layout -/
theorem scaleCones_ok (CS : ConeStage α) {n m : Nat} {v : Vars α} {cones : List (ConeSt α)}
    (hc : ConesFull cones) (hm : numelAll cones = m) (hv : VarsSized n m v) :
    OkAnd (scaleCones v cones) (fun r => ConesFull r.2
      ∧ r.2.map ConeSt.kktSpec = cones.map ConeSt.kktSpec ∧ numelAll r.2 = m) := by
  unfold scaleCones
  obtain ⟨r, hr, h1, h2, h3⟩ := CS.updateScaling cones v.s v.z hc (by rw [hm]; exact hv.s)
    (by rw [hm]; exact hv.z)
  exact ⟨r, hr, h1, h2, h3.trans hm⟩

end

end Clarabel.Solver
