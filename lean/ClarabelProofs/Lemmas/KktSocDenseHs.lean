/-
  Bridge C11 ↔ C13 for the DENSE block of a small second-order cone (`2 ≤ dim ≤ 4`,
  `SOC_NO_EXPANSION_MAX_SIZE`; no sparse expansion).

  `Kkt.getHs (.socDense w η)` (C11's model, `ClarabelModel/Kkt.lean`) and `Soc.getHs K` with
  `K.sparse = none` (C13's model, `ClarabelModel/Cones/Soc.lean`) model the same Rust function
  `SecondOrderCone::get_Hs`.

  * `socDense_getHs_eq`, `socDense_getHs_eq'` [S]  : the two models return the same array, for every
        scalar type (instance context of `soc_sparse_getHs_eq`);
  * `symPackedMulVec_getD_eq_coneH` [S] : C11's reading of a packed block (`coneH`, `packIdx`) is
        C13's reference semantics `PsdTri.symPackedMulVec` (any non-diagonal cone kind, any order);
  * `socDense_block_eq_mulHs` [R] : `Σ_c coneH (.soc d) H a c · x_c = (mul_Hs x)_a` for ALL `x`
        (through C13 `Soc.getHs_dense_eq_mulHs`);
  * `socDense_block_qf` [R]  : `yᵀHy = ‖W y‖²` for a normalised `w` ("Hs = WᵀW", `W = mul_W`);
  * `socDense_block_psd` [R] : hence the block is positive semidefinite;
  * `form_socDense` [R]      : hence the hypothesis `hform` of
        `KktSymOfMain.assembled_quasiDefGE` holds at a dense second-order cone.
-/
import ClarabelModel.Kkt
import ClarabelModel.Cones.Soc
import ClarabelProofs.Lemmas.KktScalingFits
import ClarabelProofs.Lemmas.ConesSocConverse
import ClarabelProofs.Lemmas.KktSymOfMain

set_option linter.unusedSectionVars false
set_option linter.unusedVariables false

namespace Clarabel.Lemmas.KktSocDenseHs
open Clarabel Clarabel.Kkt
open Clarabel.Lemmas.KktScalingFits Clarabel.Lemmas.KktUpdateAsm

section structural
variable {α : Type} [Add α] [Sub α] [Mul α] [Div α] [Neg α] [OfNat α 0] [OfNat α 1]
  [LT α] [DecidableLT α] [FloatLike α]

/-- [S] the two models of `get_Hs` on a cone of dimension 2 / 3 / 4 (both sides evaluate to the same
literal array) -/
theorem getHs_dense2 (a b η : α) (lam : Array α) :
    Kkt.getHs (.socDense #[a, b] η) = Soc.getHs ⟨2, #[a, b], lam, η, none⟩ := by
  simp only [Kkt.getHs, Soc.getHs, Soc.split, bind, Except.bind, pure, Except.pure]
  simp [getE, Soc.two, List.range_succ, List.range', List.forIn_cons, bind, Except.bind, pure,
    Except.pure]

theorem getHs_dense3 (a b c η : α) (lam : Array α) :
    Kkt.getHs (.socDense #[a, b, c] η) = Soc.getHs ⟨3, #[a, b, c], lam, η, none⟩ := by
  simp only [Kkt.getHs, Soc.getHs, Soc.split, bind, Except.bind, pure, Except.pure]
  simp [getE, Soc.two, List.range_succ, List.range', List.forIn_cons, bind, Except.bind, pure,
    Except.pure]

theorem getHs_dense4 (a b c d η : α) (lam : Array α) :
    Kkt.getHs (.socDense #[a, b, c, d] η) = Soc.getHs ⟨4, #[a, b, c, d], lam, η, none⟩ := by
  simp only [Kkt.getHs, Soc.getHs, Soc.split, bind, Except.bind, pure, Except.pure]
  simp [getE, Soc.two, List.range_succ, List.range', List.forIn_cons, bind, Except.bind, pure,
    Except.pure]

/-- [S] **C11's `get_Hs` on the data of a DENSE second-order cone (`2 ≤ dim ≤ 4`, no sparse
expansion) is the cone model's own `get_Hs`** (C13): the two models of
`SecondOrderCone::get_Hs` (packed upper triangle by `List.range` maps / by nested `for` loops with
checked reads) return the same array, for every scalar type. -/
theorem socDense_getHs_eq' (K : Soc.Cone α) (hsp : K.sparse = none) (hw : K.w.size = K.dim)
    (h2 : 2 ≤ K.dim) (h4 : K.dim ≤ 4) :
    Kkt.getHs (.socDense K.w K.eta) = Soc.getHs K := by
  obtain ⟨dim, w, lam, eta, sparse⟩ := K
  obtain ⟨l⟩ := w
  simp only at hsp hw h2 h4
  subst hsp
  simp only [List.size_toArray] at hw
  subst hw
  match l, h2, h4 with
  | [a, b], _, _ => exact getHs_dense2 a b eta lam
  | [a, b, c], _, _ => exact getHs_dense3 a b c eta lam
  | [a, b, c, d], _, _ => exact getHs_dense4 a b c d eta lam
  | [], h2, _ => simp at h2
  | [_], h2, _ => simp at h2
  | (_ :: _ :: _ :: _ :: _ :: _), _, h4 => simp at h4; omega

/-- [S] the same, on `scalingOfSoc K` (the data `update` reads off the cone object) -/
theorem socDense_getHs_eq (K : Soc.Cone α) (hsp : K.sparse = none) (hw : K.w.size = K.dim)
    (h2 : 2 ≤ K.dim) (h4 : K.dim ≤ 4) :
    Kkt.getHs (scalingOfSoc K) = Soc.getHs K := by
  have e : scalingOfSoc K = .socDense K.w K.eta := by unfold scalingOfSoc; rw [hsp]
  rw [e]
  exact socDense_getHs_eq' K hsp hw h2 h4

end structural

section real
open Clarabel.Soc (join dotL mulHsCore mulWCore)
open Clarabel.Lemmas.KktSymOfValues (packIdx coneH packIdx_le packIdx_comm)
open Clarabel.Lemmas.KktInertia (qf)
open Finset

/-- a small second-order cone has a dense (packed upper triangle) `Hs` block -/
theorem soc_small_not_diag {d : Nat} (h4 : d ≤ 4) : (ConeSpec.soc d).hsIsDiagonal = false := by
  simp [ConeSpec.hsIsDiagonal, socNoExpansionMaxSize]
  omega

/-- [S] **C11's reading of a packed block (`coneH` with `packIdx`) is C13's reference semantics
`PsdTri.symPackedMulVec`**, for every cone kind with a non-diagonal `Hs` block, every order `m`,
every block `H` and vector `x`. -/
theorem symPackedMulVec_getD_eq_coneH (s : ConeSpec) (hs : s.hsIsDiagonal = false) (m : Nat)
    (H x : Array ℝ) (a : Nat) (ha : a < m) :
    (PsdTri.symPackedMulVec m H x).getD a 0 = ∑ c : Fin m, coneH s H a c.val * x.getD c.val 0 := by
  unfold PsdTri.symPackedMulVec
  rw [PsdTri.getD_map_range m _ ha, PsdTri.sumN_eq,
    Fin.sum_univ_eq_sum_range (fun c => coneH s H a c * x.getD c 0) m]
  apply Finset.sum_congr rfl
  intro c _
  congr 1
  unfold coneH
  rw [hs]
  simp only [Bool.false_eq_true, if_false]
  unfold PsdIndex.triangularNumber
  by_cases hac : a ≤ c
  · rw [if_pos hac, packIdx_le hac]
  · rw [if_neg hac, packIdx_comm, packIdx_le (by omega : c ≤ a)]

/-- `get_Hs` of C11's model succeeds on the data of a small dense cone -/
theorem socDense_getHs_ok (w0 : ℝ) (w1 : List ℝ) (η : ℝ) (h1 : 1 ≤ w1.length)
    (h3 : w1.length ≤ 3) : ∃ H, Kkt.getHs (.socDense (join w0 w1) η) = .ok H := by
  let K : Soc.Cone ℝ := ⟨w1.length + 1, join w0 w1, join w0 w1, η, none⟩
  have e := socDense_getHs_eq' K rfl (Soc.size_join w0 w1) (by show 2 ≤ w1.length + 1; omega)
    (by show w1.length + 1 ≤ 4; omega)
  obtain ⟨H, hH, _⟩ := Soc.getHs_dense_eq_mulHs K w0 w1 w0 w1 rfl rfl rfl
    (by show 2 ≤ w1.length + 1; omega) (by show w1.length + 1 ≤ 4; omega) rfl
  exact ⟨H, e.trans hH⟩

/-- [R] **same operator, dense SOC block, in C11's vocabulary**: the block `H` that C11's `get_Hs`
reports for the data `(w, η)` of a small second-order cone (`2 ≤ d ≤ 4`), read the way the KKT
assembly places it (`coneH (.soc d) H a c = H[packIdx a c]`), applied to ANY `x = (x₀, x₁)`, is
`mul_Hs x = η²(2wwᵀ − J)x` of C13 (`Soc.mulHsCore`), row by row. -/
theorem socDense_block_eq_mulHs (w0 : ℝ) (w1 : List ℝ) (η : ℝ) (d : Nat) (hd : w1.length + 1 = d)
    (h2 : 2 ≤ d) (h4 : d ≤ 4) (H : Array ℝ)
    (hH : Kkt.getHs (.socDense (join w0 w1) η) = .ok H)
    (x0 : ℝ) (x1 : List ℝ) (hx : x1.length = w1.length) (a : Nat) (ha : a < d) :
    ∑ c : Fin d, coneH (.soc d) H a c.val * (join x0 x1).getD c.val 0
      = (join (mulHsCore x0 x1 w0 w1 η).1 (mulHsCore x0 x1 w0 w1 η).2).getD a 0 := by
  subst hd
  let K : Soc.Cone ℝ := ⟨w1.length + 1, join w0 w1, join w0 w1, η, none⟩
  have e := socDense_getHs_eq' K rfl (Soc.size_join w0 w1) h2 h4
  obtain ⟨H', hH', hmul⟩ := Soc.getHs_dense_eq_mulHs K w0 w1 x0 x1 rfl rfl rfl h2 h4 hx
  have hHH : H' = H := by
    have := hH'.symm.trans (e.symm.trans hH)
    exact Except.ok.inj this
  subst hHH
  rw [← symPackedMulVec_getD_eq_coneH (.soc (w1.length + 1)) (soc_small_not_diag h4) _ _ _ a ha]
  exact congrArg (fun v => v.getD a 0) hmul

/-! ### the quadratic form of the block: `Hs = WᵀW` -/

/-- `Σₐ lₐ mₐ` over array reads is the list dot product of the model -/
theorem sum_getD_mul_list (l m : List ℝ) (h : l.length = m.length) :
    ∑ a : Fin l.length, l.toArray.getD a.val 0 * m.toArray.getD a.val 0 = dotL l m := by
  induction l generalizing m with
  | nil => simp
  | cons a t ih =>
    cases m with
    | nil => simp at h
    | cons b u =>
      simp only [List.length_cons, add_left_inj] at h
      have := ih u h
      simp only [List.length_cons, Soc.dotL_cons]
      rw [Fin.sum_univ_succ, ← this]
      simp

theorem sum_join_mul (k : Nat) (x0 : ℝ) (x1 : List ℝ) (m0 : ℝ) (m1 : List ℝ) (hx : x1.length = k)
    (hm : m1.length = k) :
    ∑ a : Fin (k + 1), (join x0 x1).getD a.val 0 * (join m0 m1).getD a.val 0
      = x0 * m0 + dotL x1 m1 := by
  subst hx
  have := sum_getD_mul_list (x0 :: x1) (m0 :: m1) (by simp [hm])
  rw [Soc.dotL_cons] at this
  exact this

/-- [R] `⟨x, mul_Hs x⟩ = ‖W x‖²` for a normalised `w` (closed forms of C13) -/
theorem mulHs_form_eq_normW (x0 : ℝ) (x1 : List ℝ) (w0 : ℝ) (w1 : List ℝ) (η : ℝ)
    (hw : w0 ^ 2 - dotL w1 w1 = 1) (hw0 : 0 < w0) (hx : x1.length = w1.length) :
    x0 * (mulHsCore x0 x1 w0 w1 η).1 + dotL x1 (mulHsCore x0 x1 w0 w1 η).2
      = (mulWCore x0 x1 x0 x1 1 0 w0 w1 η).1 ^ 2
        + dotL (mulWCore x0 x1 x0 x1 1 0 w0 w1 η).2 (mulWCore x0 x1 x0 x1 1 0 w0 w1 η).2 := by
  rw [Soc.mulHsCore_eq x0 x1 w0 w1 η hx, Soc.mulWCore_one_zero x0 x1 x0 x1 w0 w1 η hx hx]
  simp only
  have f1 : (fun wi xi : ℝ => η ^ 2 * (2 * (w0 * x0 + dotL w1 x1) * wi + xi))
      = fun wi xi => (η ^ 2 * (2 * (w0 * x0 + dotL w1 x1))) * wi + η ^ 2 * xi := by
    funext wi xi; ring
  rw [f1, Soc.dotL_lin w1 x1 x1 _ _ hx.symm]
  generalize hA : η * (x0 + dotL w1 x1 / (1 + w0)) = A
  have e2 := Soc.dotL_lin w1 x1 (List.zipWith (fun wi xi => A * wi + η * xi) w1 x1) A η hx.symm
  have e3 := Soc.dotL_lin w1 x1 w1 A η hx.symm
  have e4 := Soc.dotL_lin w1 x1 x1 A η hx.symm
  have c2 : dotL (List.zipWith (fun wi xi => A * wi + η * xi) w1 x1) w1
      = A * dotL w1 w1 + η * dotL w1 x1 := by rw [Soc.dotL_comm]; exact e3
  have c3 : dotL (List.zipWith (fun wi xi => A * wi + η * xi) w1 x1) x1
      = A * dotL x1 w1 + η * dotL x1 x1 := by rw [Soc.dotL_comm]; exact e4
  rw [e2, c2, c3, Soc.dotL_comm x1 w1]
  have hww : dotL w1 w1 = (w0 - 1) * (w0 + 1) := by linarith [hw]
  have h1 : (1 + w0) ≠ 0 := by linarith
  rw [hww, ← hA]
  field_simp
  ring

/-- first entry of a `Fin`-indexed vector (the Rust `x[0]`) -/
noncomputable def vhead {d : Nat} (y : Fin d → ℝ) : ℝ := (List.ofFn y).headD 0
/-- the remaining entries (the Rust `x[1..]`) -/
noncomputable def vtail {d : Nat} (y : Fin d → ℝ) : List ℝ := (List.ofFn y).tail

theorem join_vhead_vtail {k : Nat} (y : Fin (k + 1) → ℝ) :
    join (vhead y) (vtail y) = (List.ofFn y).toArray := by
  simp [join, vhead, vtail, List.ofFn_succ]

theorem vtail_length {k : Nat} (y : Fin (k + 1) → ℝ) : (vtail y).length = k := by
  simp [vtail]

theorem join_getD {k : Nat} (y : Fin (k + 1) → ℝ) (c : Fin (k + 1)) :
    (join (vhead y) (vtail y)).getD c.val 0 = y c := by
  rw [join_vhead_vtail, Array.getD_eq_getD_getElem?, List.getElem?_toArray, List.getElem?_ofFn]
  simp [c.isLt]

/-- [R] **`Hs = WᵀW` in C11's vocabulary**: for a normalised `w` (`w₀² − ‖w₁‖² = 1`, `w₀ > 0`: what
C13 `soc_w_normalised` gives after `update_scaling`) the quadratic form of the dense block that the
KKT assembly places is `‖W y‖²`, `W y = mul_W y` of C13 (`Soc.mulWCore … 1 0`). -/
theorem socDense_block_qf (w0 : ℝ) (w1 : List ℝ) (η : ℝ) (d : Nat) (hd : w1.length + 1 = d)
    (h2 : 2 ≤ d) (h4 : d ≤ 4) (H : Array ℝ)
    (hH : Kkt.getHs (.socDense (join w0 w1) η) = .ok H)
    (hw : w0 ^ 2 - dotL w1 w1 = 1) (hw0 : 0 < w0) (y : Fin d → ℝ) :
    qf (fun a a' : Fin d => coneH (.soc d) H a.val a'.val) y
      = (mulWCore (vhead y) (vtail y) (vhead y) (vtail y) 1 0 w0 w1 η).1 ^ 2
        + dotL (mulWCore (vhead y) (vtail y) (vhead y) (vtail y) 1 0 w0 w1 η).2
            (mulWCore (vhead y) (vtail y) (vhead y) (vtail y) 1 0 w0 w1 η).2 := by
  subst hd
  have hx : (vtail y).length = w1.length := vtail_length y
  rw [← mulHs_form_eq_normW (vhead y) (vtail y) w0 w1 η hw hw0 hx]
  have hm : (mulHsCore (vhead y) (vtail y) w0 w1 η).2.length = w1.length := by
    simp [mulHsCore, hx]
  rw [← sum_join_mul w1.length (vhead y) (vtail y) _ _ hx hm]
  unfold qf
  apply Finset.sum_congr rfl
  intro a _
  rw [← socDense_block_eq_mulHs w0 w1 η _ rfl h2 h4 H hH (vhead y) (vtail y) hx a.val a.isLt,
    join_getD, Finset.mul_sum]
  apply Finset.sum_congr rfl
  intro c _
  rw [join_getD]
  ring

/-- [R] **the dense block of a small second-order cone is positive semidefinite** (normalised
`w`): `0 ≤ yᵀ H y` for the block read the way the KKT assembly places it. -/
theorem socDense_block_psd (w0 : ℝ) (w1 : List ℝ) (η : ℝ) (d : Nat) (hd : w1.length + 1 = d)
    (h2 : 2 ≤ d) (h4 : d ≤ 4) (H : Array ℝ)
    (hH : Kkt.getHs (.socDense (join w0 w1) η) = .ok H)
    (hw : w0 ^ 2 - dotL w1 w1 = 1) (hw0 : 0 < w0) (y : Fin d → ℝ) :
    0 ≤ qf (fun a a' : Fin d => coneH (.soc d) H a.val a'.val) y := by
  rw [socDense_block_qf w0 w1 η d hd h2 h4 H hH hw hw0 y]
  exact add_nonneg (sq_nonneg _) (Soc.dotL_self_nonneg _)

/-! ### the bordered block of `listKkt` for a small second-order cone -/

open Clarabel.Lemmas.KktSymOfMain Clarabel.Lemmas.KktInertiaList Clarabel.Lemmas.KktInertiaCones

theorem qf_transport {m d : Nat} (hm : m = d) (Hm : Fin m → Fin m → ℝ) (B : Array ℝ)
    (hHm : ∀ a a', Hm a a' = coneH (.soc d) B a.val a'.val)
    (hpsd : ∀ y : Fin d → ℝ, 0 ≤ qf (fun a a' : Fin d => coneH (.soc d) B a.val a'.val) y)
    (y : Fin m → ℝ) : 0 ≤ qf Hm y := by
  subst hm
  have e : Hm = fun a a' => coneH (.soc m) B a.val a'.val := by
    funext a a'; exact hHm a a'
  rw [e]
  exact hpsd y

/-- [R] **the block of a small (dense) second-order cone in `listKkt`, in terms of the scaling data
that `update` reads**: for the cone `soc d` (`2 ≤ d`) at position `i` whose data are
`.socDense (join w₀ w₁) η` with a normalised `w` (C13 `soc_w_normalised`), the form
`expForm (H i) (V i) (e i)` of `assembled_symOf_eq_listKkt` — the hypothesis `hform` of
`assembled_quasiDefGE` — is nonnegative.  (`d ≤ 4` and `|w| = d` follow from `LayoutFits`.) -/
theorem form_socDense {cones : List ConeSpec} (scal : List (ConeScaling ℝ))
    (hfits : LayoutFits scal cones) (blocks : List (Array ℝ))
    (hget : scal.mapM getHs = .ok blocks) (i : Fin cones.length) {d : Nat}
    (hci : cones[i] = .soc d) (h2 : 2 ≤ d) {w0 η : ℝ} {w1 : List ℝ}
    (hsc : scalAt scal i.val = .socDense (join w0 w1) η)
    (hw : w0 ^ 2 - dotL w1 w1 = 1) (hw0 : 0 < w0)
    (y : Fin (cones[i].numel) → ℝ) (s : Fin (nMinus cones[i]) → ℝ) :
    0 ≤ expForm (HOf cones blocks i) (VOf cones scal i) (eOf cones scal i) y s := by
  have hci' : cones[i.val]'i.isLt = .soc d := hci
  obtain ⟨hi', _, _, hf1, hsa⟩ := layout_at hfits i.val i.isLt
  rw [← hsa, hsc, hci'] at hf1
  obtain ⟨hsz, hsmall⟩ : (join w0 w1).size = d ∧ ¬ d > socNoExpansionMaxSize := hf1
  have hd : w1.length + 1 = d := by rw [← hsz, Soc.size_join]
  have h4 : d ≤ 4 := by unfold socNoExpansionMaxSize at hsmall; omega
  obtain ⟨H, hH⟩ := socDense_getHs_ok w0 w1 η (by omega) (by omega)
  have hb : blockAt blocks i.val = H := by
    apply block_at hget i.val hi'
    rw [← hsa, hsc]
    exact hH
  have h0 : nMinus (cones[i.val]'i.isLt) = 0 := by
    rw [hci']
    simp [nMinus, ConeSpec.isSparseExpandable, hsmall]
  have hm : (cones[i.val]'i.isLt).numel = d := by rw [hci']; rfl
  refine form_of_nonsparse blocks scal i h0 (fun y' => ?_) y s
  refine qf_transport hm _ H (fun a a' => ?_)
    (socDense_block_psd w0 w1 η d hd h2 h4 H hH hw hw0) y'
  show coneH (cones[i.val]'i.isLt) (blockAt blocks i.val) a.val a'.val = _
  rw [hb]
  exact congrArg (fun c => coneH c H a.val a'.val) hci'

/-! ### non-vacuity -/

/-- `w = (1, 0, 0)` is normalised -/
theorem unit_w_normalised : (1 : ℝ) ^ 2 - dotL [0, 0] [0, 0] = 1 := by
  simp [Soc.dotL_cons]

example :
    let K : Soc.Cone ℝ := ⟨3, join 1 [0, 0], join 1 [0, 0], 1, none⟩
    Kkt.getHs (scalingOfSoc K) = Soc.getHs K ∧ Kkt.getHs (.socDense K.w K.eta) = Soc.getHs K := by
  intro K
  exact ⟨socDense_getHs_eq K rfl rfl (by decide) (by decide),
    socDense_getHs_eq' K rfl rfl (by decide) (by decide)⟩

/-- the hypotheses of `socDense_getHs_eq` also hold on a `Float` cone -/
example :
    let K : Soc.Cone Float := ⟨2, #[1.5, 0.5], #[1, 0], 2, none⟩
    Kkt.getHs (scalingOfSoc K) = Soc.getHs K := by
  intro K
  exact socDense_getHs_eq K rfl rfl (by decide) (by decide)

example : ∃ H, Kkt.getHs (.socDense (join (1 : ℝ) [0, 0]) 1) = .ok H ∧
    (∀ (x0 : ℝ) (x1 : List ℝ), x1.length = 2 → ∀ a, a < 3 →
      ∑ c : Fin 3, coneH (.soc 3) H a c.val * (join x0 x1).getD c.val 0
        = (join (mulHsCore x0 x1 1 [0, 0] 1).1 (mulHsCore x0 x1 1 [0, 0] 1).2).getD a 0) ∧
    (∀ y : Fin 3 → ℝ, 0 ≤ qf (fun a a' : Fin 3 => coneH (.soc 3) H a.val a'.val) y) := by
  obtain ⟨H, hH⟩ := socDense_getHs_ok 1 [0, 0] 1 (by decide) (by decide)
  exact ⟨H, hH,
    fun x0 x1 hx a ha =>
      socDense_block_eq_mulHs 1 [0, 0] 1 3 rfl (by decide) (by decide) H hH x0 x1 hx a ha,
    fun y => socDense_block_psd 1 [0, 0] 1 3 rfl (by decide) (by decide) H hH
      unit_w_normalised one_pos y⟩

example : ∃ blocks : List (Array ℝ),
    [ConeScaling.socDense (join (1 : ℝ) [0, 0]) 1].mapM getHs = .ok blocks ∧
    ∀ (y : Fin (([ConeSpec.soc 3])[(⟨0, by decide⟩ : Fin [ConeSpec.soc 3].length)].numel) → ℝ)
      (s : Fin (nMinus ([ConeSpec.soc 3])[(⟨0, by decide⟩ : Fin [ConeSpec.soc 3].length)]) → ℝ),
      0 ≤ expForm (HOf [ConeSpec.soc 3] blocks ⟨0, by decide⟩)
        (VOf [ConeSpec.soc 3] [ConeScaling.socDense (join (1 : ℝ) [0, 0]) 1] ⟨0, by decide⟩)
        (eOf [ConeSpec.soc 3] [ConeScaling.socDense (join (1 : ℝ) [0, 0]) 1] ⟨0, by decide⟩) y s := by
  obtain ⟨H, hH⟩ := socDense_getHs_ok 1 [0, 0] 1 (by decide) (by decide)
  have hget : [ConeScaling.socDense (join (1 : ℝ) [0, 0]) 1].mapM getHs = .ok [H] := by
    simp [List.mapM_cons, hH, bind, Except.bind, pure, Except.pure]
  have hfits : LayoutFits [ConeScaling.socDense (join (1 : ℝ) [0, 0]) 1] [ConeSpec.soc 3] :=
    List.Forall₂.cons ⟨rfl, by decide⟩ List.Forall₂.nil
  exact ⟨[H], hget, fun y s =>
    form_socDense _ hfits [H] hget ⟨0, by decide⟩ (d := 3) rfl (by decide) (w0 := 1) (η := 1)
      (w1 := [0, 0]) rfl unit_w_normalised one_pos y s⟩

end real

end Clarabel.Lemmas.KktSocDenseHs
