/-
  Composition on the whole-solver model WITH NONSYMMETRIC CONES — `default_start()` puts the iterate
  strictly inside the cone (`InteriorN`), counterpart of the second half of `StepKBridge.lean`
  (`Solver.interior_initHyp`) for the model `ClarabelModel/SolverNS/*.lean`.  Scalar type ℝ.

  * symmetric branch (every cone is zero / nonnegative / second-order): `symmetric_initialization`,
    through C07's `StepK.symmetric_init_interior` and the bridge lemmas of `StepKBridge.lean`;
  * nonsymmetric branch: `unit_initialization` cone by cone, through C07's unit-point facts
    (`StepK.soc_unit_interior`, C14's `exp_unit_initialization_central`, `pow_central_point`,
    `StepK.genpow_unit_interior`).

  Main theorem: `Clarabel.SolverNS.interiorN_initHyp`.
-/
import ClarabelProofs.Lemmas.SolverNSBridgeDefs
import ClarabelProofs.Lemmas.StepKBridge
import ClarabelProofs.Lemmas.StepKInitGenPow
import ClarabelProofs.Lemmas.SolverNSNoPanicDefs

namespace Clarabel.SolverNS.BridgeInit
open Clarabel Residuals
open Clarabel.Solver (bind_ok_inv)

set_option linter.unusedVariables false

/-! ## one cone of `unit_initialization` -/

theorem toList_map_const_pos (x : Array ℝ) : ∀ v ∈ (x.map (fun _ => (1 : ℝ))).toList, 0 < v := by
  intro v hv
  simp only [Array.toList_map, List.mem_map] at hv
  obtain ⟨_, _, rfl⟩ := hv
  exact one_pos

/-- the unit point one cone's `unit_initialization` writes has the cone's rows and lies strictly
inside `K* × K` -/
theorem unitInit1_blk {c : ConeSt ℝ} {zb sb : Array ℝ} {o : Array ℝ × Array ℝ} (hc : ConeFull c)
    (hz : zb.size = c.numel) (hs : sb.size = c.numel) (hv : Equil.ValidCone c.typ)
    (h : unitInit1 c zb sb = .ok o) :
    o.1.size = c.typ.nvars ∧ o.2.size = c.typ.nvars ∧ BlkIntN c.typ o.1.toList o.2.toList := by
  cases c with
  | sym c =>
    cases c with
    | zero d =>
      cases h
      refine ⟨?_, ?_, trivial⟩
      · show (zb.map _).size = d
        rw [Array.size_map]; exact hz
      · show (sb.map _).size = d
        rw [Array.size_map]; exact hs
    | nonneg K =>
      cases h
      have e1 : (zb.map (fun _ => (1 : ℝ))).size = K.w.size := by rw [Array.size_map]; exact hz
      have e2 : (sb.map (fun _ => (1 : ℝ))).size = K.w.size := by rw [Array.size_map]; exact hs
      refine ⟨e1, e2, ?_, toList_map_const_pos zb, toList_map_const_pos sb⟩
      show (zb.map (fun _ => (1 : ℝ))).toList.length = (sb.map (fun _ => (1 : ℝ))).toList.length
      rw [Array.length_toList, Array.length_toList, e1, e2]
    | soc K =>
      have hd : 2 ≤ K.dim := hc.1
      have hz' : zb.size = K.dim := hz
      have hs' : sb.size = K.dim := hs
      obtain ⟨z', ez, z0, z1, tz, iz⟩ := StepK.soc_unit_interior zb (by omega)
      obtain ⟨s', es, s0, s1, ts, is⟩ := StepK.soc_unit_interior sb (by omega)
      have h' : Soc.unitInitialization zb sb = .ok o := h
      simp only [Soc.unitInitialization, ez, es, bind, Except.bind, pure, Except.pure] at h'
      cases h'
      refine ⟨?_, ?_, z0, z1, s0, s1, tz, ts, iz, is⟩
      · show z'.size = K.dim
        rw [Solver.soc_scaledUnitShift_size ez, Array.size_map]; exact hz'
      · show s'.size = K.dim
        rw [Solver.soc_scaledUnitShift_size es, Array.size_map]; exact hs'
  | exp K =>
    cases h
    exact ⟨rfl, rfl, _, _, _, _, _, _, rfl, rfl, C14.exp_unit_initialization_central.1,
      C14.exp_unit_initialization_central.2.1⟩
  | pow a K =>
    cases h
    obtain ⟨h0, h1⟩ := (hv : 0 < a ∧ a < 1)
    obtain ⟨_, _, k3, k4⟩ := C14.pow_central_point h0 h1
    exact ⟨rfl, rfl, h0, h1, _, _, _, _, _, _, rfl, rfl, k3, k4⟩
  | genpow al d2 ψ K =>
    cases h
    obtain ⟨hal, hsum⟩ := (hv : GenPow.AllPos al.toList ∧ al.toList.sum = 1)
    refine ⟨StepK.genpow_unit_size al d2, StepK.genpow_unit_size al d2, ?_⟩
    show StepK.GenPowInterior al (GenPow.unitInitialization al d2).toList.toArray
      (GenPow.unitInitialization al d2).toList.toArray
    rw [Array.toArray_toList]
    exact StepK.genpow_unit_interior al hal hsum d2 d2

/-! ## the composite `unit_initialization` -/

theorem foldl_append_toList {β : Type} (parts : List (Array β)) (acc : Array β) :
    (parts.foldl (· ++ ·) acc).toList = acc.toList ++ (parts.map Array.toList).flatten := by
  induction parts generalizing acc with
  | nil => simp only [List.foldl_nil, List.map_nil, List.flatten_nil, List.append_nil]
  | cons p ps ih =>
    simp only [List.foldl_cons, ih, Array.toList_append, List.map_cons, List.flatten_cons, List.append_assoc]

theorem rowsN_cons (t : ConeT ℝ) (l : List (ConeT ℝ)) : rowsN (t :: l) = t.nvars + rowsN l := by
  simp only [rowsN, List.map_cons, List.sum_cons]

/-- the per-cone unit points, glued, are block-wise interior along the layout (whatever follows the
last cone), and cover exactly the rows of the layout -/
theorem unit_rows : ∀ (cones : List (ConeSt ℝ)) (zs ss : List (Array ℝ))
    (outs : List (Array ℝ × Array ℝ)),
    List.Forall₂ (fun c (p : Array ℝ) => p.size = c.numel) cones zs →
    List.Forall₂ (fun c (p : Array ℝ) => p.size = c.numel) cones ss →
    (cones.zip (zs.zip ss)).mapM (fun p => unitInit1 p.1 p.2.1 p.2.2) = .ok outs →
    ConesFull cones → Equil.ValidCones (cones.map ConeSt.typ) →
    ((outs.map (·.1)).map Array.toList).flatten.length = rowsN (cones.map ConeSt.typ) ∧
    ((outs.map (·.2)).map Array.toList).flatten.length = rowsN (cones.map ConeSt.typ) ∧
    ∀ rz rs : List ℝ, IntRowsN (cones.map ConeSt.typ)
      (((outs.map (·.1)).map Array.toList).flatten ++ rz)
      (((outs.map (·.2)).map Array.toList).flatten ++ rs) := by
  intro cones
  induction cones with
  | nil =>
    intro zs ss outs _ _ h _ _
    simp only [List.zip_nil_left, List.mapM_nil] at h
    cases h
    exact ⟨rfl, rfl, fun _ _ => trivial⟩
  | cons c rest ih =>
    intro zs ss outs hz hs h hf hv
    cases hz with
    | cons hz1 hzt =>
    cases hs with
    | cons hs1 hst =>
    rename_i zb zt sb st
    simp only [List.zip_cons_cons, List.mapM_cons] at h
    obtain ⟨o, ho, h⟩ := bind_ok_inv h
    obtain ⟨os, hos, h⟩ := bind_ok_inv h
    cases h
    obtain ⟨b1, b2, b3⟩ := unitInit1_blk hf.head hz1 hs1 (hv _ List.mem_cons_self) ho
    obtain ⟨i1, i2, i3⟩ := ih zt st os hzt hst hos hf.tail
      (fun t ht => hv t (List.mem_cons_of_mem _ ht))
    have l1 : o.1.toList.length = c.typ.nvars := by rw [Array.length_toList]; exact b1
    have l2 : o.2.toList.length = c.typ.nvars := by rw [Array.length_toList]; exact b2
    simp only [List.map_cons, List.flatten_cons, List.length_append, rowsN_cons, i1, i2, l1, l2,
      true_and]
    intro rz rs
    show BlkIntN c.typ _ _ ∧ IntRowsN _ _ _
    rw [List.append_assoc, List.append_assoc, List.take_left' l1, List.take_left' l2,
      List.drop_left' l1, List.drop_left' l2]
    exact ⟨b3, i3 rz rs⟩

/-- `CompositeCone::unit_initialization` on vectors of the cone's dimension: the result has the rows
of the layout and is block-wise interior -/
theorem unitInitialization_rows {cones : List (ConeSt ℝ)} {z s : Array ℝ} {o : Array ℝ × Array ℝ}
    (hf : ConesFull cones) (hv : Equil.ValidCones (cones.map ConeSt.typ))
    (hz : z.size = numelAll cones) (hs : s.size = numelAll cones)
    (h : unitInitialization cones z s = .ok o) :
    o.1.size = rowsN (cones.map ConeSt.typ) ∧ o.2.size = rowsN (cones.map ConeSt.typ) ∧
      IntRowsN (cones.map ConeSt.typ) o.1.toList o.2.toList := by
  unfold unitInitialization at h
  obtain ⟨zs, hzs, h⟩ := bind_ok_inv h
  obtain ⟨ss, hss, h⟩ := bind_ok_inv h
  obtain ⟨outs, houts, h⟩ := bind_ok_inv h
  cases h
  obtain ⟨i1, i2, i3⟩ := unit_rows cones zs ss outs (cutE_forall2 hzs) (cutE_forall2 hss) houts hf hv
  have ez : (pasteBack cones z (outs.map (·.1))).toList
      = ((outs.map (·.1)).map Array.toList).flatten ++ (z.extract (numelAll cones) z.size).toList := by
    unfold pasteBack
    rw [Array.toList_append, foldl_append_toList]; rfl
  have es : (pasteBack cones s (outs.map (·.2))).toList
      = ((outs.map (·.2)).map Array.toList).flatten ++ (s.extract (numelAll cones) s.size).toList := by
    unfold pasteBack
    rw [Array.toList_append, foldl_append_toList]; rfl
  refine ⟨?_, ?_, ?_⟩
  · show (pasteBack cones z (outs.map (·.1))).size = _
    rw [← Array.length_toList, ez, List.length_append, i1, Array.length_toList, Array.size_extract]
    omega
  · show (pasteBack cones s (outs.map (·.2))).size = _
    rw [← Array.length_toList, es, List.length_append, i2, Array.length_toList, Array.size_extract]
    omega
  · show IntRowsN _ (pasteBack cones z (outs.map (·.1))).toList (pasteBack cones s (outs.map (·.2))).toList
    rw [ez, es]
    exact i3 _ _

/-! ## `symmetric_initialization` -/

theorem typ_nvars (c : ConeSt ℝ) : c.typ.nvars = c.numel := by
  cases c with
  | sym c => cases c <;> rfl
  | exp K => rfl
  | pow a K => rfl
  | genpow al d2 ψ K => rfl

theorem rowsN_typ (cones : List (ConeSt ℝ)) : rowsN (cones.map ConeSt.typ) = numelAll cones := by
  induction cones with
  | nil => rfl
  | cons c rest ih => rw [List.map_cons, rowsN_cons, numelAll_cons, ih, typ_nvars]

/-- one cone: the `Composite.Spec` view of a symmetric cone object has the rows of its layout entry,
and the two per-block interior predicates coincide -/
theorem compSpec_blk {c : ConeSt ℝ} {sp : Composite.Spec} (h : c.compSpec? = some sp) :
    sp.numel = c.typ.nvars ∧ ∀ z s, Solver.Bridge.BlkInt sp z s → BlkIntN c.typ z s := by
  cases c with
  | sym c =>
    cases h
    cases c with
    | zero d => exact ⟨rfl, fun _ _ h => h⟩
    | nonneg K => exact ⟨rfl, fun _ _ h => h⟩
    | soc K => exact ⟨rfl, fun _ _ h => h⟩
  | exp K => cases h
  | pow a K => cases h
  | genpow al d2 ψ K => cases h

/-- the `Composite.Spec` list `symmetric_initialization` computes covers the rows of the layout, and
block-wise interior along it is block-wise interior along the layout -/
theorem specs_rows (f : ConeSt ℝ → MErr Composite.Spec)
    (hf : ∀ c sp, f c = .ok sp → c.compSpec? = some sp) :
    ∀ (cones : List (ConeSt ℝ)) (specs : List Composite.Spec), cones.mapM f = .ok specs →
      Composite.totalNumel specs = rowsN (cones.map ConeSt.typ) ∧
      ∀ z s, Solver.Bridge.IntRows specs z s → IntRowsN (cones.map ConeSt.typ) z s := by
  intro cones
  induction cones with
  | nil =>
    intro specs h
    simp only [List.mapM_nil] at h
    cases h
    exact ⟨rfl, fun _ _ _ => trivial⟩
  | cons c rest ih =>
    intro specs h
    simp only [List.mapM_cons] at h
    obtain ⟨sp, hsp, h⟩ := bind_ok_inv h
    obtain ⟨tl, htl, h⟩ := bind_ok_inv h
    cases h
    obtain ⟨n1, b1⟩ := compSpec_blk (hf c sp hsp)
    obtain ⟨n2, b2⟩ := ih tl htl
    refine ⟨?_, ?_⟩
    · rw [List.map_cons, rowsN_cons, ← n2, ← n1]
      simp only [Composite.totalNumel, List.map_cons, List.sum_cons]
    · intro z s hI
      obtain ⟨hb, hr⟩ := (hI : Solver.Bridge.BlkInt sp _ _ ∧ Solver.Bridge.IntRows tl _ _)
      rw [n1] at hb hr
      exact ⟨b1 _ _ hb, b2 _ _ hr⟩

/-- `symmetric_initialization` over sized vectors gives an interior iterate -/
theorem symmetricInitialization_interiorN {cs : List (ConeSt ℝ)} {v v' : Vars ℝ}
    (hz : v.z.size = rowsN (cs.map ConeSt.typ)) (hs : v.s.size = rowsN (cs.map ConeSt.typ))
    (h : symmetricInitialization v cs = .ok v') : InteriorN (cs.map ConeSt.typ) v' := by
  unfold symmetricInitialization at h
  obtain ⟨specs, hsp, h⟩ := bind_ok_inv h
  obtain ⟨s', hs', h⟩ := bind_ok_inv h
  obtain ⟨z', hz', h⟩ := bind_ok_inv h
  cases h
  obtain ⟨hT, hrows⟩ := specs_rows _ (by
    intro c sp hc
    cases c with
    | sym c => cases hc; rfl
    | exp K => cases hc
    | pow a K => cases hc
    | genpow al d2 ψ K => cases hc) cs specs hsp
  have hsym := Solver.Bridge.symSpec_of_shift hs'
  obtain ⟨z'', s'', pz, ps, e1, e2, c2, c1, _, _, hB⟩ :=
    StepK.symmetric_init_interior specs v.x v.z v.s hsym (by rw [hT, hz]) (by rw [hT, hs])
  rw [hs'] at e1; cases e1
  rw [hz'] at e2; cases e2
  refine ⟨one_pos, one_pos, ?_, ?_, ?_⟩
  · show z'.size = _
    rw [Solver.shiftToConeInterior_size hz', hz]
  · show s'.size = _
    rw [Solver.shiftToConeInterior_size hs', hs]
  · exact hrows _ _ (Solver.Bridge.blksOf_intRows _ _ _ pz ps c2 c1 hB)

end Clarabel.SolverNS.BridgeInit

namespace Clarabel.SolverNS
open Clarabel Residuals BridgeInit
open Clarabel.Solver (bind_ok_inv)

/-- **`default_start()` puts the iterate in the interior of the cone** (model with nonsymmetric
cones): on a sized solver state whose power / generalised power cones have admissible exponents,
both branches — `symmetric_initialization` after the initial KKT solve when every cone is symmetric,
`unit_initialization` otherwise — return an iterate with `τ = κ = 1`, `z` and `s` of the rows of the
cone layout, and `(z, s)` strictly inside `K* × K` on every cone's rows. -/
theorem interiorN_initHyp (st : Settings ℝ) (S : SolverSt ℝ) (hS : SizedN S)
    (hv : Equil.ValidCones (layoutN S)) : InitHypN st S InteriorN := by
  intro S0 h
  obtain ⟨hshape, _⟩ := defaultStart_cones h hS.full
  have hl : layoutN S0 = layoutN S := (ConesShape.typ_eq hshape).symm
  rw [hl]
  have hzS : S.variables.z.size = numelAll S.cones := by rw [hS.numel]; exact hS.vars.z
  have hsS : S.variables.s.size = numelAll S.cones := by rw [hS.numel]; exact hS.vars.s
  unfold SolverSt.defaultStart at h
  split at h
  · obtain ⟨cones, hcs, h⟩ := bind_ok_inv h
    obtain ⟨⟨_, kkt1⟩, _, h⟩ := bind_ok_inv h
    try dsimp only at h
    obtain ⟨⟨_, v1, kkt2⟩, hi, h⟩ := bind_ok_inv h
    try dsimp only at h
    obtain ⟨v2, hsy, h⟩ := bind_ok_inv h
    cases h
    obtain ⟨hsh1, _⟩ := setIdentityScaling_shape1 hS.full hcs
    have hl1 : cones.map ConeSt.typ = layoutN S := (ConesShape.typ_eq hsh1).symm
    obtain ⟨i1, _⟩ := Solver.solveInitialPoint_shape hi
    have hr : rowsN (cones.map ConeSt.typ) = numelAll S.cones := by rw [hl1]; exact rowsN_typ S.cones
    have := symmetricInitialization_interiorN (cs := cones) (v := v1) (v' := v2)
      (by rw [hr, ← hzS]; exact i1.z.symm) (by rw [hr, ← hsS]; exact i1.s.symm) hsy
    rw [hl1] at this
    exact this
  · obtain ⟨v, hu, h⟩ := bind_ok_inv h
    cases h
    unfold varsUnitInitialization at hu
    obtain ⟨⟨z, s⟩, hzs, hu⟩ := bind_ok_inv hu
    cases hu
    obtain ⟨g1, g2, g3⟩ := unitInitialization_rows hS.full hv hzS hsS hzs
    exact ⟨one_pos, one_pos, g1, g2, g3⟩

end Clarabel.SolverNS
