/-
  C15, composite cone with PSD blocks and nonsymmetric cones:

  * `_shift_to_cone_interior` (`Composite.shiftToConeInteriorE`) over arbitrary lists of
    zero / NN / SOC / PSD cones, the PSD margins computed from supplied eigenvalues under
    the spectral contract (lower Rayleigh bound);
  * `CompositeCone::step_length` over arbitrary cones (no closed form assumed): minimum
    over the cones, `≤ αmax`, `≤ max_step_fraction`;
  * the order of the two passes: irrelevant when every cone is a cap, relevant as soon as
    a back-tracking cone is present (counterexample).
-/
import ClarabelProofs.Lemmas.ConesComposite
import ClarabelProofs.Lemmas.ConesPsdStep
import ClarabelProofs.Lemmas.ConesBacktrack

noncomputable section

namespace Clarabel.Composite
open Clarabel PsdStep PsdTri

/-! ## margins and shifts with PSD blocks -/

/-- zero / NN / SOC (dimension ≥ 1) / PSD cones -/
def SymSpecE : Spec → Prop
  | .zero _ => True
  | .nonneg _ => True
  | .soc n => 1 ≤ n
  | .psd _ => True

/-- the block has margin at least `c`: as `BlkGe` for zero / NN / SOC; for a PSD block
`mat(z) − c·I ⪰ 0` (every Rayleigh quotient is at least `c`) -/
def BlkGeE (c : ℝ) : Spec × Array ℝ → Prop
  | (.psd n, blk) => ∀ v, c * nrm2 n v ≤ qform n (svecToMat blk) v
  | (.zero n, blk) => BlkGe c (.zero n, blk)
  | (.nonneg n, blk) => BlkGe c (.nonneg n, blk)
  | (.soc n, blk) => BlkGe c (.soc n, blk)

theorem BlkGeE_mono {c c' : ℝ} (h : c' ≤ c) (p : Spec × Array ℝ) (hp : BlkGeE c p) : BlkGeE c' p := by
  obtain ⟨sp, blk⟩ := p
  cases sp with
  | psd n =>
    intro v
    have := hp v
    have h0 := nrm2_nonneg n v
    show c' * nrm2 n v ≤ _
    nlinarith
  | zero n => exact fun a b hab => le_trans h (hp a b hab)
  | nonneg n => exact fun a b hab => le_trans h (hp a b hab)
  | soc n => exact fun a b hab => le_trans h (hp a b hab)

theorem tri_eq_zero {n : Nat} (h : PsdIndex.triangularNumber n = 0) : n = 0 := by
  cases n with
  | zero => rfl
  | succ k => rw [tri_succ] at h; omega

/-- one block: the shift succeeds, keeps the size, and moves the margin by `a` -/
theorem shift1_specE (sp : Spec) (blk : Array ℝ) (a : ℝ) (primal : Bool) (hs : SymSpecE sp)
    (hsize : blk.size = sp.numel) (c : ℝ) (hc : BlkGeE c (sp, blk)) :
    ∃ blk', shift1 a primal sp blk = .ok blk' ∧ blk'.size = sp.numel ∧ BlkGeE (c + a) (sp, blk') := by
  cases sp with
  | psd n =>
    obtain ⟨z', h1, h2, h3⟩ := shift_lower n blk a c hsize hc
    exact ⟨z', h1, h2, h3⟩
  | zero n => exact shift1_spec (.zero n) blk a primal trivial hsize c hc
  | nonneg n => exact shift1_spec (.nonneg n) blk a primal trivial hsize c hc
  | soc n => exact shift1_spec (.soc n) blk a primal hs hsize c hc

/-- the blocks of `l` all have margins `≥ c` -/
def BlocksGeLE (specs : List Spec) (l : List ℝ) (c : ℝ) : Prop :=
  ∃ parts, cutL specs l = .ok parts ∧ ∀ p ∈ parts, BlkGeE c p

theorem shift_blocksE (specs : List Spec) (a : ℝ) (primal : Bool) (hs : ∀ sp ∈ specs, SymSpecE sp) :
    ∀ (l : List ℝ) (c : ℝ), BlocksGeLE specs l c →
      ∃ outs, (cutL specs l >>= fun parts => parts.mapM (fun p => shift1 a primal p.1 p.2)) = .ok outs ∧
        ((outs.map Array.toList).flatten).length = totalNumel specs ∧
        ∀ rest, BlocksGeLE specs ((outs.map Array.toList).flatten ++ rest) (c + a) := by
  induction specs with
  | nil =>
    intro l c _
    refine ⟨[], rfl, rfl, fun rest => ⟨[], rfl, fun p hp => absurd hp (List.not_mem_nil)⟩⟩
  | cons sp rest ih =>
    intro l c ⟨parts, hcut, hge⟩
    obtain ⟨hlen, tl, htl, hparts⟩ := cutL_cons_ok sp rest l parts hcut
    subst hparts
    have hsize : ((l.take sp.numel).toArray).size = sp.numel := by simp [hlen]
    obtain ⟨blk', hsh, hsz', hge'⟩ := shift1_specE sp _ a primal (hs sp List.mem_cons_self) hsize c
      (hge _ List.mem_cons_self)
    obtain ⟨outs', hout', hlen', hrest'⟩ := ih (fun sp' h' => hs sp' (List.mem_cons_of_mem _ h'))
      (l.drop sp.numel) c ⟨tl, htl, fun p hp => hge p (List.mem_cons_of_mem _ hp)⟩
    rw [htl] at hout'
    simp only [bind, Except.bind] at hout'
    refine ⟨blk' :: outs', ?_, ?_, ?_⟩
    · rw [hcut]
      simp only [bind, Except.bind, List.mapM_cons, hsh, hout', pure, Except.pure]
    · simp only [List.map_cons, List.flatten_cons, List.length_append, Array.length_toList, hsz',
        hlen', totalNumel, List.sum_cons]
    · intro r
      obtain ⟨parts'', hc'', hg''⟩ := hrest' r
      refine ⟨(sp, blk') :: parts'', ?_, ?_⟩
      · rw [cutL]
        have hl1 : blk'.toList.length = sp.numel := by rw [Array.length_toList, hsz']
        simp only [List.map_cons, List.flatten_cons, List.append_assoc, List.length_append, hl1]
        rw [if_neg (by omega)]
        rw [List.drop_left' hl1, hc'', List.take_left' hl1]
        rfl
      · intro p hp
        rcases List.mem_cons.mp hp with rfl | hp
        · exact hge'
        · exact hg'' p hp

/-- array form -/
def BlocksGeE (specs : List Spec) (z : Array ℝ) (c : ℝ) : Prop := BlocksGeLE specs z.toList c

theorem BlocksGeE_mono (specs : List Spec) (z : Array ℝ) (c c' : ℝ) (h : c' ≤ c)
    (hb : BlocksGeE specs z c) : BlocksGeE specs z c' := by
  obtain ⟨parts, h1, h2⟩ := hb
  exact ⟨parts, h1, fun p hp => BlkGeE_mono h p (h2 p hp)⟩

theorem scaledUnitShift_specE (specs : List Spec) (z : Array ℝ) (a c : ℝ) (primal : Bool)
    (hs : ∀ sp ∈ specs, SymSpecE sp) (hb : BlocksGeE specs z c) :
    ∃ z', scaledUnitShift specs z a primal = .ok z' ∧ BlocksGeE specs z' (c + a) := by
  obtain ⟨outs, hout, _, hrest⟩ := shift_blocksE specs a primal hs z.toList c hb
  refine ⟨glue specs outs z, ?_, ?_⟩
  · unfold scaledUnitShift cut
    cases hc : cutL specs z.toList with
    | error e => rw [hc] at hout; cases hout
    | ok parts =>
      rw [hc] at hout
      simp only [bind, Except.bind] at hout ⊢
      rw [hout]
      rfl
  · unfold BlocksGeE glue
    exact hrest _

/-- spectral contract of one block: for a non-empty PSD block the supplied eigenvalue list
is present and non-empty and its least entry is a lower Rayleigh bound of `mat(z)` -/
def PsdContract : Spec → Array ℝ → Option (Array ℝ) → Prop
  | .psd n, blk, e => blk.size ≠ 0 → ∃ ev, e = some ev ∧ ev.size ≠ 0 ∧
      ∃ γ ∈ ev.toList, (∀ x ∈ ev.toList, γ ≤ x) ∧ ∀ v, γ * nrm2 n v ≤ qform n (svecToMat blk) v
  | _, _, _ => True

theorem margins1E_ok (sp : Spec) (blk : Array ℝ) (e : Option (Array ℝ)) (hs : SymSpecE sp)
    (hsize : blk.size = sp.numel) (hc : PsdContract sp blk e) :
    ∃ r, margins1E sp blk e = .ok r ∧ (∀ a, r.1 = some a → BlkGeE a (sp, blk)) ∧
      (r.1 = none → ∀ c, BlkGeE c (sp, blk)) := by
  have nonpsd : ∀ sp', SymSpec sp' → blk.size = sp'.numel → margins1E sp' blk e = margins1 sp' blk →
      (∀ c, BlkGeE c (sp', blk) = BlkGe c (sp', blk)) →
      ∃ r, margins1E sp' blk e = .ok r ∧ (∀ a, r.1 = some a → BlkGeE a (sp', blk)) ∧
        (r.1 = none → ∀ c, BlkGeE c (sp', blk)) := by
    intro sp' hs' hsz heq hB
    obtain ⟨r, hr⟩ := margins1_ok sp' blk hs' hsz
    refine ⟨r, by rw [heq, hr], ?_, ?_⟩
    · intro a ha
      rw [hB]
      intro a' b' hab
      rw [hr] at hab
      simp only [Except.ok.injEq] at hab
      rw [hab] at ha
      simp only [Option.some.injEq] at ha
      exact le_of_eq ha.symm
    · intro hn c
      rw [hB]
      intro a' b' hab
      rw [hr] at hab
      simp only [Except.ok.injEq] at hab
      rw [hab] at hn
      cases hn
  cases sp with
  | zero n => exact nonpsd (.zero n) trivial hsize rfl (fun _ => rfl)
  | nonneg n => exact nonpsd (.nonneg n) trivial hsize rfl (fun _ => rfl)
  | soc n => exact nonpsd (.soc n) hs hsize rfl (fun _ => rfl)
  | psd n =>
    by_cases hz : blk.size = 0
    · refine ⟨(none, 0), ?_, (fun a ha => by cases ha), fun _ c => ?_⟩
      · simp [margins1E, PsdStep.margins, hz, pure, Except.pure]
      · have hn : n = 0 := tri_eq_zero (by rw [← hz]; exact hsize.symm)
        subst hn
        intro v
        simp [nrm2, qform]
    · obtain ⟨ev, he, hev, γ, hγm, hγle, hγq⟩ := hc hz
      obtain ⟨m, hm, hmem, hmle⟩ := PsdStep.margins_spec blk ev hz hev
      have hmγ : m = γ := le_antisymm (hmle γ hγm) (hγle m hmem)
      refine ⟨_, by simp only [margins1E, he]; exact hm, ?_, fun hn => by cases hn⟩
      intro a ha
      simp only [Option.some.injEq] at ha
      rw [← ha, hmγ]
      exact hγq

/-- the fold of `CompositeCone::margins` over blocks paired with their eigenvalue entries -/
theorem margins_foldE (pe : List ((Spec × Array ℝ) × Option (Array ℝ)))
    (hok : ∀ p ∈ pe, ∃ r, margins1E p.1.1 p.1.2 p.2 = .ok r ∧
      (∀ a, r.1 = some a → BlkGeE a p.1) ∧ (r.1 = none → ∀ c, BlkGeE c p.1)) :
    ∀ acc : Option ℝ × ℝ, ∃ mo β,
      pe.foldlM (fun (acc : Option ℝ × ℝ) p => do
        let (ai, bi) ← margins1E p.1.1 p.1.2 p.2
        pure (minOpt acc.1 ai, acc.2 + bi)) acc = .ok (mo, β) ∧
      (∀ m, mo = some m → (∀ x, acc.1 = some x → m ≤ x) ∧ ∀ p ∈ pe, BlkGeE m p.1) ∧
      (mo = none → acc.1 = none ∧ ∀ p ∈ pe, ∀ c, BlkGeE c p.1) := by
  induction pe with
  | nil =>
    intro acc
    refine ⟨acc.1, acc.2, rfl, ?_, ?_⟩
    · intro m hm
      exact ⟨fun x hx => by rw [hm] at hx; cases hx; exact le_refl _, fun p hp => absurd hp List.not_mem_nil⟩
    · intro h; exact ⟨h, fun p hp => absurd hp List.not_mem_nil⟩
  | cons p t ih =>
    intro acc
    obtain ⟨⟨ai, bi⟩, hp, hsome1, hnone1⟩ := hok p List.mem_cons_self
    obtain ⟨mo, β, hfold, hsome, hnone⟩ :=
      ih (fun q hq => hok q (List.mem_cons_of_mem _ hq)) (minOpt acc.1 ai, acc.2 + bi)
    refine ⟨mo, β, ?_, ?_, ?_⟩
    · simp only [List.foldlM_cons, hp, bind, Except.bind, pure, Except.pure]
      exact hfold
    · intro m hm
      obtain ⟨h1, h2⟩ := hsome m hm
      have hmin := (minOpt_cases acc.1 ai).2
      refine ⟨?_, ?_⟩
      · intro x hx
        cases hmo : minOpt acc.1 ai with
        | none => have := ((minOpt_cases acc.1 ai).1.mp hmo).1; rw [this] at hx; cases hx
        | some v => exact le_trans (h1 v hmo) ((hmin v hmo).1 x hx)
      · intro q hq
        rcases List.mem_cons.mp hq with rfl | hq
        · cases hai : ai with
          | none => exact hnone1 hai m
          | some av =>
            refine BlkGeE_mono ?_ _ (hsome1 av hai)
            cases hmo : minOpt acc.1 ai with
            | none => have := ((minOpt_cases acc.1 ai).1.mp hmo).2; rw [this] at hai; cases hai
            | some v => exact le_trans (h1 v hmo) ((hmin v hmo).2 av hai)
        · exact h2 q hq
    · intro hm
      obtain ⟨h1, h2⟩ := hnone hm
      have := (minOpt_cases acc.1 ai).1.mp h1
      refine ⟨this.1, ?_⟩
      intro q hq c
      rcases List.mem_cons.mp hq with rfl | hq
      · exact hnone1 this.2 c
      · exact h2 q hq c

theorem cutL_length (specs : List Spec) :
    ∀ (l : List ℝ) (parts : List (Spec × Array ℝ)), cutL specs l = .ok parts →
      parts.length = specs.length := by
  induction specs with
  | nil => intro l parts h; rw [cutL] at h; cases h; rfl
  | cons sp rest ih =>
    intro l parts h
    obtain ⟨_, tl, htl, hparts⟩ := cutL_cons_ok sp rest l parts h
    subst hparts
    simp [ih _ tl htl]

theorem mem_zip_of_mem {β γ : Type} : ∀ (l : List β) (m : List γ), l.length = m.length →
    ∀ p ∈ l, ∃ e, (p, e) ∈ l.zip m := by
  intro l
  induction l with
  | nil => intro m _ p hp; cases hp
  | cons a t ih =>
    intro m hlen p hp
    cases m with
    | nil => simp at hlen
    | cons b u =>
      rcases List.mem_cons.mp hp with rfl | hp
      · exact ⟨b, by simp⟩
      · obtain ⟨e, he⟩ := ih u (by simpa using hlen) p hp
        exact ⟨e, by simp [he]⟩

/-- the spectral contract of a composite request: one eigenvalue entry per cone and every
PSD block satisfies `PsdContract` -/
def EigContracts (specs : List Spec) (z : Array ℝ) (eigs : List (Option (Array ℝ))) : Prop :=
  eigs.length = specs.length ∧
    ∀ parts, cut specs z = .ok parts → ∀ pe ∈ parts.zip eigs, PsdContract pe.1.1 pe.1.2 pe.2

theorem marginsE_spec (specs : List Spec) (z : Array ℝ) (eigs : List (Option (Array ℝ)))
    (hs : ∀ sp ∈ specs, SymSpecE sp) (hlen : totalNumel specs ≤ z.size)
    (hc : EigContracts specs z eigs) :
    ∃ mo β, marginsE specs z eigs = .ok (mo, β) ∧ (∀ m, mo = some m → BlocksGeE specs z m) ∧
      (mo = none → ∀ c, BlocksGeE specs z c) := by
  obtain ⟨parts, hcut⟩ := cutL_total specs z.toList (by rw [Array.length_toList]; exact hlen)
  have hparts := cutL_parts specs z.toList parts hcut
  have hplen := cutL_length specs z.toList parts hcut
  obtain ⟨helen, hcon⟩ := hc
  have hok : ∀ p ∈ parts.zip eigs, ∃ r, margins1E p.1.1 p.1.2 p.2 = .ok r ∧
      (∀ a, r.1 = some a → BlkGeE a p.1) ∧ (r.1 = none → ∀ c, BlkGeE c p.1) := by
    intro p hp
    have hp1 : p.1 ∈ parts := (List.of_mem_zip hp).1
    exact margins1E_ok p.1.1 p.1.2 p.2 (hs _ (hparts p.1 hp1).1) (hparts p.1 hp1).2
      (hcon parts hcut p hp)
  obtain ⟨mo, β, hfold, hsome, hnone⟩ := margins_foldE (parts.zip eigs) hok (none, 0)
  have hall : ∀ (Q : Spec × Array ℝ → Prop), (∀ p ∈ parts.zip eigs, Q p.1) → ∀ p ∈ parts, Q p := by
    intro Q hQ p hp
    obtain ⟨e, he⟩ := mem_zip_of_mem parts eigs (by rw [hplen, helen]) p hp
    exact hQ (p, e) he
  refine ⟨mo, β, ?_, ?_, ?_⟩
  · unfold marginsE cut
    rw [if_neg (by simp [helen])]
    simp only [hcut, bind, Except.bind, pure, Except.pure]
    exact hfold
  · intro m hm
    exact ⟨parts, hcut, hall _ (hsome m hm).2⟩
  · intro hm c
    exact ⟨parts, hcut, hall _ (fun p hp => (hnone hm).2 p hp c)⟩

/-- [R] `_shift_to_cone_interior` over an arbitrary list of zero / NN / SOC / PSD cones under
the spectral contract: the call succeeds and afterwards every block has margin `≥ 1` -/
theorem shiftToConeInteriorE_spec (specs : List Spec) (z : Array ℝ) (primal : Bool)
    (eigs : List (Option (Array ℝ))) (hs : ∀ sp ∈ specs, SymSpecE sp)
    (hlen : totalNumel specs ≤ z.size) (hc : EigContracts specs z eigs) :
    ∃ z', shiftToConeInteriorE specs z primal eigs = .ok z' ∧ BlocksGeE specs z' 1 := by
  obtain ⟨mo, β, hm, hsome, hnone⟩ := marginsE_spec specs z eigs hs hlen hc
  unfold shiftToConeInteriorE
  simp only [hm, bind, Except.bind]
  set target : ℝ := fmax 1 (β * (1 / FloatLike.ofNat 10) /
    FloatLike.ofNat (List.foldl (fun x1 x2 => x1 + x2) 0 (List.map Spec.degree specs))) with htd
  have ht : (1 : ℝ) ≤ target := le_max_left _ _
  cases mo with
  | none =>
    obtain ⟨z', h1, h2⟩ := scaledUnitShift_specE specs z 0 1 primal hs (hnone rfl 1)
    exact ⟨z', h1, BlocksGeE_mono specs z' _ _ (by linarith) h2⟩
  | some m =>
    have hb := hsome m rfl
    simp only
    by_cases hpos : (0 : ℝ) < m
    · rw [if_neg (not_not.mpr hpos)]
      by_cases hlt : m < target
      · rw [if_pos hlt]
        obtain ⟨z', h1, h2⟩ := scaledUnitShift_specE specs z (target - m) m primal hs hb
        exact ⟨z', h1, BlocksGeE_mono specs z' _ _ (by linarith) h2⟩
      · rw [if_neg hlt]
        obtain ⟨z', h1, h2⟩ := scaledUnitShift_specE specs z 0 m primal hs hb
        exact ⟨z', h1, BlocksGeE_mono specs z' _ _ (by linarith [not_lt.mp hlt]) h2⟩
    · rw [if_pos hpos]
      obtain ⟨z1, h1, h2⟩ := scaledUnitShift_specE specs z (-m) m primal hs hb
      obtain ⟨z2, h3, h4⟩ := scaledUnitShift_specE specs z1 target (m + -m) primal hs h2
      refine ⟨z2, ?_, BlocksGeE_mono specs z2 _ _ (by linarith) h4⟩
      simp only [h1, h3]

end Clarabel.Composite

/-! ## composite step length over arbitrary cones -/

namespace Clarabel.Composite

set_option linter.unusedSectionVars false

section General
variable {α : Type} [Field α] [LinearOrder α] [IsStrictOrderedRing α] [FloatLike α]
  [LawfulFloatLike α]

/-- one pass of `innerfcn` over arbitrary cones: the result is below the start value, and
every visited cone was asked with some `a' ≤ a` and answered with a pair above the result -/
theorem inner_general (cones : List (ConeFn α)) (symcond : Bool) :
    ∀ (a m : α), inner cones symcond a = .ok m →
      m ≤ a ∧ ∀ c ∈ cones, (c.symmetric == symcond) = false →
        ∃ a' r, a' ≤ a ∧ c.stepLength a' = .ok r ∧ m ≤ r.1 ∧ m ≤ r.2 ∧ m ≤ a' := by
  induction cones with
  | nil =>
    intro a m h
    simp only [inner, List.foldlM_nil, pure, Except.pure, Except.ok.injEq] at h
    subst h
    exact ⟨le_refl _, fun c hc => absurd hc List.not_mem_nil⟩
  | cons d t ih =>
    intro a m h
    simp only [inner, List.foldlM_cons] at h
    by_cases hs : (d.symmetric == symcond) = true
    · simp only [hs, ↓reduceIte, pure, Except.pure, bind, Except.bind] at h
      obtain ⟨h1, h2⟩ := ih a m h
      refine ⟨h1, fun c hc hcs => ?_⟩
      rcases List.mem_cons.mp hc with rfl | hc
      · rw [hs] at hcs; cases hcs
      · exact h2 c hc hcs
    · simp only [hs, Bool.false_eq_true, ↓reduceIte, bind, Except.bind] at h
      cases hd : d.stepLength a with
      | error e => rw [hd] at h; cases h
      | ok r =>
        rw [hd] at h
        simp only [pure, Except.pure] at h
        obtain ⟨h1, h2⟩ := ih _ m h
        have hfe : fmin a (fmin r.1 r.2) = min a (min r.1 r.2) := by
          rw [LawfulFloatLike.fmin_eq, LawfulFloatLike.fmin_eq]
        rw [hfe] at h1 h2
        have hle : min a (min r.1 r.2) ≤ a := min_le_left _ _
        refine ⟨le_trans h1 hle, fun c hc hcs => ?_⟩
        rcases List.mem_cons.mp hc with rfl | hc
        · refine ⟨a, r, le_refl _, hd, ?_, ?_, le_trans h1 hle⟩
          · exact le_trans h1 (le_trans (min_le_right _ _) (min_le_left _ _))
          · exact le_trans h1 (le_trans (min_le_right _ _) (min_le_right _ _))
        · obtain ⟨a', r', ha', hr', g1, g2, g3⟩ := h2 c hc hcs
          exact ⟨a', r', le_trans ha' hle, hr', g1, g2, g3⟩

/-- [F] `CompositeCone::step_length` over arbitrary constituent cones: both components are
the same `m ≤ αmax`; `m ≤ max_step_fraction` if some cone is nonsymmetric; and every cone was
asked with some `a' ≤ αmax` and answered with a pair `≥ m` — the composite step is below every
cone's own answer. -/
theorem stepLength_general (cones : List (ConeFn α)) (msf amax : α) (r : α × α)
    (h : stepLength cones msf amax = .ok r) :
    r.1 = r.2 ∧ r.1 ≤ amax ∧ (cones.all (·.symmetric) = false → r.1 ≤ msf) ∧
      ∀ c ∈ cones, ∃ a' rc, a' ≤ amax ∧ c.stepLength a' = .ok rc ∧ r.1 ≤ rc.1 ∧ r.1 ≤ rc.2 ∧
        r.1 ≤ a' := by
  unfold stepLength at h
  cases h1 : inner cones true amax with
  | error e => rw [h1] at h; cases h
  | ok a1 =>
    rw [h1] at h
    simp only [bind, Except.bind] at h
    set a2 := (if !cones.all (·.symmetric) then fmin msf a1 else a1) with ha2
    cases h3 : inner cones false a2 with
    | error e => rw [h3] at h; cases h
    | ok a3 =>
      rw [h3] at h
      simp only [pure, Except.pure, Except.ok.injEq] at h
      subst h
      obtain ⟨g1, g2⟩ := inner_general cones true amax a1 h1
      obtain ⟨g3, g4⟩ := inner_general cones false a2 a3 h3
      have ha21 : a2 ≤ a1 := by
        rw [ha2]; split
        · rw [LawfulFloatLike.fmin_eq]; exact min_le_right _ _
        · exact le_refl _
      refine ⟨rfl, le_trans g3 (le_trans ha21 g1), ?_, ?_⟩
      · intro hall
        refine le_trans g3 ?_
        rw [ha2, hall]
        simp only [Bool.not_false, ↓reduceIte, LawfulFloatLike.fmin_eq]
        exact min_le_left _ _
      · intro c hc
        by_cases hs : c.symmetric = true
        · obtain ⟨a', rc, k1, k2, k3, k4, k5⟩ := g4 c hc (by simp [hs])
          exact ⟨a', rc, le_trans k1 (le_trans ha21 g1), k2, k3, k4, k5⟩
        · have hs' : c.symmetric = false := by simpa using hs
          obtain ⟨a', rc, k1, k2, k3, k4, k5⟩ := g2 c hc (by simp [hs'])
          have : a3 ≤ a1 := le_trans g3 ha21
          exact ⟨a', rc, k1, k2, le_trans this k3, le_trans this k4, le_trans this k5⟩

/-! ### order of the two passes -/

omit [IsStrictOrderedRing α] in
/-- the cap pass commutes with a further cap -/
theorem innerMin_min (caps : ConeFn α → α × α) (cones : List (ConeFn α)) (symcond : Bool) (a b : α) :
    innerMin caps cones symcond (min a b) = min (innerMin caps cones symcond a) b := by
  induction cones generalizing a with
  | nil => rfl
  | cons c t ih =>
    simp only [innerMin, List.foldl_cons] at ih ⊢
    split
    · exact ih a
    · rw [← ih]
      congr 1
      apply le_antisymm
      · simp only [le_min_iff, min_le_iff, le_refl, true_or, or_true, and_self]
      · simp only [le_min_iff, min_le_iff, le_refl, true_or, or_true, and_self]

omit [IsStrictOrderedRing α] in
theorem innerMin_comm (caps : ConeFn α → α × α) (cones : List (ConeFn α)) (s1 s2 : Bool) (a : α) :
    innerMin caps cones s1 (innerMin caps cones s2 a)
      = min (innerMin caps cones s1 a) (innerMin caps cones s2 a) := by
  have h : innerMin caps cones s2 a = min a (innerMin caps cones s2 a) :=
    (min_eq_right (innerMin_le caps cones s2 a)).symm
  rw [h, innerMin_min, ← h]

/-- [F] for cones whose step length is a cap (zero / NN / SOC / PSD) the order of the two
passes is irrelevant: "symmetric cones first" gives the same step as the code's order -/
theorem order_irrelevant_caps (caps : ConeFn α → α × α) (cones : List (ConeFn α)) (msf amax : α)
    (h : ∀ c ∈ cones, ∀ a, c.stepLength a = .ok (min a (caps c).1, min a (caps c).2)) :
    stepLengthSymFirst cones msf amax = stepLength cones msf amax := by
  simp only [stepLengthSymFirst, stepLength, inner_eq caps cones true h, inner_eq caps cones false h,
    bind, Except.bind, pure, Except.pure, LawfulFloatLike.fmin_eq]
  have key : ∀ s1 s2 : Bool, innerMin caps cones s1 (min msf (innerMin caps cones s2 amax))
      = min msf (min (innerMin caps cones s1 amax) (innerMin caps cones s2 amax)) := by
    intro s1 s2
    rw [min_comm msf, innerMin_min, innerMin_comm, min_comm]
  split
  · rw [key true false, key false true, min_comm (innerMin caps cones true amax)]
  · rw [innerMin_comm, innerMin_comm, min_comm]

end General

/-! ### the order matters with a back-tracking cone (counterexample over ℝ) -/

/-- a symmetric cone whose step length is the cap `1/2` -/
def exSym : ConeFn ℝ := ⟨true, fun a => .ok (min a (1 / 2), min a (1 / 2))⟩

/-- a nonsymmetric one-dimensional "cone" `{w ≥ 0}` from the point `9/20` along `−1`
(feasible iff `α ≤ 9/20`), searched by the model's `backtrack_search` with `step = 4/5` -/
def exNonsym : ConeFn ℝ :=
  ⟨false, fun a => do
    let r ← Backtrack.backtrackSearch #[-1] #[9 / 20] a (1 / 10000) (4 / 5)
      (fun _ w => decide (0 ≤ w.getD 0 0)) 1 8
    pure (r.1, r.1)⟩

theorem exNonsym_from_one : exNonsym.stepLength 1 = .ok (256 / 625, 256 / 625) := by
  norm_num [exNonsym, Backtrack.backtrackSearch, Backtrack.loop, Backtrack.candidate, Vec.waxpby,
    bind, Except.bind, pure, Except.pure]

theorem exNonsym_from_half : exNonsym.stepLength (1 / 2) = .ok (2 / 5, 2 / 5) := by
  norm_num [exNonsym, Backtrack.backtrackSearch, Backtrack.loop, Backtrack.candidate, Vec.waxpby,
    bind, Except.bind, pure, Except.pure]

end Clarabel.Composite
