/-
  `reverse_compact.rs` : the double loop of `add_blocks_with_sparsity_pattern` for one clique
  block — the block's entries are ADDED to `s` and WRITTEN (last writer wins) to `z` at the
  original rows of the clique's entries; everything else is left alone.
-/
import ClarabelProofs.Lemmas.ChordalCompactUnique

namespace Clarabel.Chordal
variable {α : Type}

/-- original row (inside a cone starting at `rowStart`) of the entry of clique positions `(x, y)` -/
def blockTarget (C : List Nat) (rowStart x y : Nat) : Nat :=
  rowStart + coordToUpperTriangularIndex (C.getD x 0, C.getD y 0)

theorem blockTarget_inj (C : List Nat) (hC : C.Pairwise (· < ·)) (rowStart : Nat) {x y x' y' : Nat}
    (hxy : x ≤ y) (hy : y < C.length) (hxy' : x' ≤ y') (hy' : y' < C.length)
    (h : blockTarget C rowStart x y = blockTarget C rowStart x' y') : x = x' ∧ y = y' := by
  unfold blockTarget at h
  have h1 := (getD_le_iff_of_sorted hC (by omega) hy).2 hxy
  have h2 := (getD_le_iff_of_sorted hC (by omega) hy').2 hxy'
  obtain ⟨ea, eb⟩ := tri_pair_inj h1 h2 (by omega)
  exact ⟨getD_inj_of_sorted hC (by omega) (by omega) ea, getD_inj_of_sorted hC hy hy' eb⟩

/-- the pairs handled when the outer loop is at column position `yj` and the inner at `xi` -/
def BlkDone (yj xi x y : Nat) : Prop := x ≤ y ∧ (y < yj ∨ (y = yj ∧ x < xi))

/-- state invariant of the double loop -/
def BlkInv [Add α] [OfNat α 0] (oldS oldZ : Array α) (rowStart rowPtr : Nat) (C : List Nat)
    (s z : Array α) (yj xi : Nat) (st : Array α × Array α × Nat) : Prop :=
  st.2.2 = triangularNumber yj + min xi (yj + 1) ∧ st.1.size = s.size ∧ st.2.1.size = z.size ∧
  (∀ x y, BlkDone yj xi x y → y < C.length →
    st.1.getD (blockTarget C rowStart x y) 0 =
      s.getD (blockTarget C rowStart x y) 0 + oldS.getD (rowPtr + coordToUpperTriangularIndex (x, y)) 0 ∧
    st.2.1.getD (blockTarget C rowStart x y) 0 = oldZ.getD (rowPtr + coordToUpperTriangularIndex (x, y)) 0) ∧
  (∀ slot, (∀ x y, BlkDone yj xi x y → y < C.length → slot ≠ blockTarget C rowStart x y) →
    st.1.getD slot 0 = s.getD slot 0 ∧ st.2.1.getD slot 0 = z.getD slot 0)

theorem addBlockEntry_step [Add α] [OfNat α 0] (oldS oldZ : Array α) (rowStart rowPtr : Nat) (C : List Nat)
    (hC : C.Pairwise (· < ·)) (s z : Array α)
    (hT : ∀ x y, x ≤ y → y < C.length → blockTarget C rowStart x y < s.size)
    (hTz : ∀ x y, x ≤ y → y < C.length → blockTarget C rowStart x y < z.size)
    (hO : rowPtr + triangularNumber C.length ≤ oldS.size)
    (hOz : rowPtr + triangularNumber C.length ≤ oldZ.size)
    (yj xi : Nat) (hyj : yj < C.length) (hxi : xi < C.length) (st : Array α × Array α × Nat)
    (hI : BlkInv oldS oldZ rowStart rowPtr C s z yj xi st) :
    ∃ st', addBlockEntry oldS oldZ rowStart rowPtr (C.getD yj 0) st (C.getD xi 0) = .ok st' ∧
      BlkInv oldS oldZ rowStart rowPtr C s z yj (xi + 1) st' := by
  obtain ⟨s1, z1, cnt⟩ := st
  obtain ⟨hcnt, hs1, hz1, hA, hB⟩ := hI
  simp only at hcnt hs1 hz1 hA hB
  unfold addBlockEntry
  by_cases hle : xi ≤ yj
  · have hij : C.getD xi 0 ≤ C.getD yj 0 := (getD_le_iff_of_sorted hC hxi hyj).2 hle
    rw [if_pos hij]
    simp only
    have hTlt := hT xi yj hle hyj
    have hTltz := hTz xi yj hle hyj
    have hcnt' : cnt = coordToUpperTriangularIndex (xi, yj) := by
      rw [coord_to_index_of_le hle, hcnt, Nat.min_eq_left (by omega)]
    have hclt := coord_index_lt hle hyj
    have hnew : ∀ x y, BlkDone yj xi x y → y < C.length →
        blockTarget C rowStart xi yj ≠ blockTarget C rowStart x y := by
      intro x y hd hy he
      obtain ⟨e1, e2⟩ := blockTarget_inj C hC rowStart hle hyj hd.1 hy he
      rcases hd.2 with h | ⟨_, h⟩ <;> omega
    have hkeep := hB (blockTarget C rowStart xi yj) hnew
    rw [getE_ok s1 _ _ 0 (by rw [hs1]; exact hTlt)]
    simp only [bind, Except.bind]
    rw [getE_ok oldS _ _ 0 (by omega), getE_ok oldZ _ _ 0 (by omega)]
    simp only
    rw [setE_ok s1 _ _ _ (by rw [hs1]; exact hTlt), setE_ok z1 _ _ _ (by rw [hz1]; exact hTltz)]
    refine ⟨_, rfl, ?_, by simpa using hs1, by simpa using hz1, ?_, ?_⟩
    · show cnt + 1 = _
      rw [hcnt, Nat.min_eq_left (by omega), Nat.min_eq_left (by omega)]; omega
    · intro x y hd hy
      simp only
      by_cases hnewp : x = xi ∧ y = yj
      · obtain ⟨rfl, rfl⟩ := hnewp
        rw [getD_setIfInBounds', if_pos ⟨rfl, by rw [hs1]; exact hTlt⟩,
          getD_setIfInBounds', if_pos ⟨rfl, by rw [hz1]; exact hTltz⟩, hcnt']
        have hk1 := hkeep.1
        unfold blockTarget at hk1 ⊢
        rw [hk1]
        exact ⟨rfl, rfl⟩
      · have hold : BlkDone yj xi x y := by
          refine ⟨hd.1, ?_⟩
          rcases hd.2 with h | ⟨h1, h2⟩
          · exact Or.inl h
          · right; refine ⟨h1, ?_⟩
            rcases Nat.lt_succ_iff_lt_or_eq.1 h2 with h | h
            · exact h
            · exact absurd ⟨h, h1⟩ hnewp
        have hne := hnew x y hold hy
        rw [getD_setIfInBounds', if_neg (fun hh => hne hh.1),
          getD_setIfInBounds', if_neg (fun hh => hne hh.1)]
        exact hA x y hold hy
    · intro slot hslot
      simp only
      have hne : slot ≠ blockTarget C rowStart xi yj := hslot xi yj ⟨hle, Or.inr ⟨rfl, by omega⟩⟩ hyj
      rw [getD_setIfInBounds', if_neg (fun hh => hne hh.1.symm),
        getD_setIfInBounds', if_neg (fun hh => hne hh.1.symm)]
      exact hB slot (fun x y hd hy => hslot x y ⟨hd.1, by
        rcases hd.2 with h | ⟨h1, h2⟩
        · exact Or.inl h
        · exact Or.inr ⟨h1, by omega⟩⟩ hy)
  · have hij : ¬ C.getD xi 0 ≤ C.getD yj 0 := fun h => hle ((getD_le_iff_of_sorted hC hxi hyj).1 h)
    rw [if_neg hij]
    have hsame : ∀ x y, BlkDone yj (xi + 1) x y ↔ BlkDone yj xi x y := by
      intro x y
      unfold BlkDone
      constructor
      · rintro ⟨h1, h2⟩
        refine ⟨h1, ?_⟩
        rcases h2 with h | ⟨h3, h4⟩
        · exact Or.inl h
        · exact Or.inr ⟨h3, by omega⟩
      · rintro ⟨h1, h2⟩
        refine ⟨h1, ?_⟩
        rcases h2 with h | ⟨h3, h4⟩
        · exact Or.inl h
        · exact Or.inr ⟨h3, by omega⟩
    refine ⟨_, rfl, ?_, hs1, hz1, ?_, ?_⟩
    · show cnt = _
      rw [hcnt, Nat.min_eq_right (by omega), Nat.min_eq_right (by omega)]
    · intro x y hd hy
      exact hA x y ((hsame x y).1 hd) hy
    · intro slot hslot
      exact hB slot (fun x y hd hy => hslot x y ((hsame x y).2 hd) hy)

/-- **one clique block of `decomp_reverse_compact`**: no panic; the entry of clique positions
`(x, y)`, stored at `old[row_ptr + tri(x, y)]`, is added to `s` and written to `z` at the original
row of the matrix entry `(C[x], C[y])`; all other rows are untouched -/
theorem addBlockLoop_spec [Add α] [OfNat α 0] (oldS oldZ : Array α) (rowStart rowPtr : Nat) (C : List Nat)
    (hC : C.Pairwise (· < ·)) (s z : Array α)
    (hT : ∀ x y, x ≤ y → y < C.length → blockTarget C rowStart x y < s.size)
    (hTz : ∀ x y, x ≤ y → y < C.length → blockTarget C rowStart x y < z.size)
    (hO : rowPtr + triangularNumber C.length ≤ oldS.size)
    (hOz : rowPtr + triangularNumber C.length ≤ oldZ.size) :
    ∃ s' z', addBlockLoop oldS oldZ rowStart rowPtr C s z = .ok (s', z', triangularNumber C.length) ∧
      s'.size = s.size ∧ z'.size = z.size ∧
      (∀ x y, x ≤ y → y < C.length →
        s'.getD (blockTarget C rowStart x y) 0 =
          s.getD (blockTarget C rowStart x y) 0 + oldS.getD (rowPtr + coordToUpperTriangularIndex (x, y)) 0 ∧
        z'.getD (blockTarget C rowStart x y) 0 = oldZ.getD (rowPtr + coordToUpperTriangularIndex (x, y)) 0) ∧
      (∀ slot, (∀ x y, x ≤ y → y < C.length → slot ≠ blockTarget C rowStart x y) →
        s'.getD slot 0 = s.getD slot 0 ∧ z'.getD slot 0 = z.getD slot 0) := by
  have hCget : ∀ k (hk : k < C.length), C[k] = C.getD k 0 := by
    intro k hk; simp [List.getD_eq_getElem?_getD, List.getElem?_eq_getElem hk]
  unfold addBlockLoop
  have outer := foldlM_inv (fun acc j => C.foldlM (addBlockEntry oldS oldZ rowStart rowPtr j) acc) C
    (fun yj st => yj ≤ C.length → BlkInv oldS oldZ rowStart rowPtr C s z yj 0 st) (s, z, 0)
    (fun _ => ⟨by simp [triangularNumber], rfl, rfl, fun x y hd => by
        rcases hd.2 with h | ⟨_, h⟩ <;> omega, fun _ _ => ⟨rfl, rfl⟩⟩)
    (by
      intro yj hyj st hI
      have hI0 := hI (by omega)
      rw [hCget yj hyj]
      have inner := foldlM_inv (addBlockEntry oldS oldZ rowStart rowPtr (C.getD yj 0)) C
        (fun xi st' => xi ≤ C.length → BlkInv oldS oldZ rowStart rowPtr C s z yj xi st') st
        (fun _ => hI0)
        (by
          intro xi hxi st' hI'
          rw [hCget xi hxi]
          obtain ⟨st'', h1, h2⟩ := addBlockEntry_step oldS oldZ rowStart rowPtr C hC s z hT hTz hO hOz yj xi hyj hxi
            st' (hI' (by omega))
          exact ⟨st'', h1, fun _ => h2⟩)
      obtain ⟨st', hfold, hI'⟩ := inner
      refine ⟨st', hfold, fun _ => ?_⟩
      obtain ⟨hcnt, hs1, hz1, hA, hB⟩ := hI' (Nat.le_refl _)
      have hsame : ∀ x y, y < C.length → (BlkDone (yj + 1) 0 x y ↔ BlkDone yj C.length x y) := by
        intro x y hy
        unfold BlkDone
        constructor
        · rintro ⟨h1, h2⟩
          refine ⟨h1, ?_⟩
          rcases h2 with h | ⟨_, h⟩
          · rcases Nat.lt_succ_iff_lt_or_eq.1 h with h' | h'
            · exact Or.inl h'
            · exact Or.inr ⟨h', by omega⟩
          · omega
        · rintro ⟨h1, h2⟩
          refine ⟨h1, ?_⟩
          rcases h2 with h | ⟨h3, _⟩
          · exact Or.inl (by omega)
          · exact Or.inl (by omega)
      refine ⟨?_, hs1, hz1, ?_, ?_⟩
      · rw [hcnt, Nat.min_eq_right (by omega), triangularNumber_succ]; omega
      · intro x y hd hy
        exact hA x y ((hsame x y hy).1 hd) hy
      · intro slot hslot
        exact hB slot (fun x y hd hy => hslot x y ((hsame x y hy).2 hd) hy))
  obtain ⟨⟨s', z', cnt⟩, hfold, hI⟩ := outer
  obtain ⟨hcnt, hs1, hz1, hA, hB⟩ := hI (Nat.le_refl _)
  simp only at hcnt hs1 hz1 hA hB
  refine ⟨s', z', ?_, hs1, hz1, ?_, ?_⟩
  · rw [hfold, hcnt]; simp
  · intro x y hxy hy
    exact hA x y ⟨hxy, Or.inl hy⟩ hy
  · intro slot hslot
    exact hB slot (fun x y hd hy => hslot x y hd.1 hy)

/-! ## `add_blocks_with_sparsity_pattern` on a valid pattern -/

theorem sortO_extend_eq (p : SPattern) (hp : ValidPattern p) (j : Nat) (hj : j < p.sntree.nCliques) :
    p.sortO ((p.sntree.snode.getD (p.sntree.postIdx j) #[]).extend
      (p.sntree.separators.getD (p.sntree.postIdx j) #[]).toList).toList = p.cliqueO j := by
  have h := parentClique_ok p hp j hj
  have hlt : ∀ v ∈ ((p.sntree.snode.getD (p.sntree.postIdx j) #[]).extend
      (p.sntree.separators.getD (p.sntree.postIdx j) #[]).toList).toList, v < p.ordering.size := by
    intro v hv
    rw [VSet.mem_extend_decomp] at hv
    apply hp.tree.clique_lt j hj v
    unfold SuperNodeTree.cliqueAt SuperNodeTree.snodeAt SuperNodeTree.sepAt
    exact List.mem_append.2 hv
  rw [mapSorted_ok p _ hlt] at h
  have := congrArg (fun r => match r with | Except.ok a => a.toList | Except.error _ => []) h
  simpa using this

/-- one clique block of the reversal on a valid pattern: no panic, `row_ptr` advances by the
block size, and the block `S_i` (resp. `Z_i`) stored at `old[row_ptr ..]` in the layout of the
clique's PSD triangle is scattered into the original rows: added to `s`, written to `z` -/
theorem addBlocksWithSparsityPattern_spec [Add α] [OfNat α 0] (p : SPattern) (hp : ValidPattern p)
    (i : Nat) (hi : i < p.sntree.nCliques) (s z oldS oldZ : Array α) (rowStart rowPtr : Nat)
    (hT : ∀ x y, x ≤ y → y < (p.cliqueO i).length → blockTarget (p.cliqueO i) rowStart x y < s.size)
    (hTz : ∀ x y, x ≤ y → y < (p.cliqueO i).length → blockTarget (p.cliqueO i) rowStart x y < z.size)
    (hO : rowPtr + p.blk i ≤ oldS.size) (hOz : rowPtr + p.blk i ≤ oldZ.size) :
    ∃ s' z', addBlocksWithSparsityPattern s z oldS oldZ rowStart p i rowPtr = .ok (s', z', rowPtr + p.blk i) ∧
      s'.size = s.size ∧ z'.size = z.size ∧
      (∀ x y, x ≤ y → y < (p.cliqueO i).length →
        s'.getD (blockTarget (p.cliqueO i) rowStart x y) 0 =
          s.getD (blockTarget (p.cliqueO i) rowStart x y) 0 +
            oldS.getD (rowPtr + coordToUpperTriangularIndex (x, y)) 0 ∧
        z'.getD (blockTarget (p.cliqueO i) rowStart x y) 0 =
          oldZ.getD (rowPtr + coordToUpperTriangularIndex (x, y)) 0) ∧
      (∀ slot, (∀ x y, x ≤ y → y < (p.cliqueO i).length → slot ≠ blockTarget (p.cliqueO i) rowStart x y) →
        s'.getD slot 0 = s.getD slot 0 ∧ z'.getD slot 0 = z.getD slot 0) := by
  have ht := hp.tree
  have hf := cliqueFacts p hp i hi
  have hblk : p.blk i = triangularNumber (p.cliqueO i).length := by
    unfold SPattern.blk; rw [hf.clique_len]
  obtain ⟨s', z', hloop, h1, h2, h3, h4⟩ := addBlockLoop_spec oldS oldZ rowStart rowPtr (p.cliqueO i)
    hf.clique_sorted s z hT hTz (by rw [← hblk]; exact hO) (by rw [← hblk]; exact hOz)
  refine ⟨s', z', ?_, h1, h2, h3, h4⟩
  obtain ⟨sn, hsn1, hsn2⟩ := getSnode_okV p.sntree _ ht i hi
  obtain ⟨sp, hsp1, hsp2⟩ := getSeparators_okV p.sntree _ ht i hi
  have hsn : sn = p.sntree.snode.getD (p.sntree.postIdx i) #[] := by
    apply Array.ext'; rw [hsn2]; rfl
  have hsp : sp = p.sntree.separators.getD (p.sntree.postIdx i) #[] := by
    apply Array.ext'; rw [hsp2]; rfl
  have hext := sortO_extend_eq p hp i hi
  have hlt : ∀ v ∈ (sn.extend sp.toList).toList, v < p.ordering.size := by
    intro v hv
    rw [VSet.mem_extend_decomp, hsn2, hsp2] at hv
    exact ht.clique_lt i hi v (List.mem_append.2 hv)
  have hsize : (sn.extend sp.toList).size = (p.sntree.cliqueAt i).length := by
    have := p.length_sortO (sn.extend sp.toList).toList
    rw [hsn, hsp, hext, hf.clique_len] at this
    rw [hsn, hsp]
    simpa using this.symm
  unfold addBlocksWithSparsityPattern SuperNodeTree.getClique
  rw [hsn1]
  simp only [bind, Except.bind]
  rw [hsp1]
  simp only [pure, Except.pure]
  rw [mapM_getE_ok p.ordering _ _ hlt]
  simp only
  have hbuf : (VSet.sort (List.map (fun v => p.ordering.getD v 0) (sn.extend sp.toList).toList).toArray).toList =
      p.cliqueO i := by
    rw [← hext, hsn, hsp]
    rfl
  rw [hbuf, hloop]
  simp only
  rw [hsize]
  rfl

/-- the original row of a clique entry lies inside the cone's triangle -/
theorem blockTarget_lt (p : SPattern) (hp : ValidPattern p) (i : Nat) (hi : i < p.sntree.nCliques)
    (rowStart x y : Nat) (hxy : x ≤ y) (hy : y < (p.cliqueO i).length) :
    blockTarget (p.cliqueO i) rowStart x y < rowStart + triangularNumber p.ordering.size := by
  have hf := cliqueFacts p hp i hi
  have h1 := (getD_le_iff_of_sorted hf.clique_sorted (by omega) hy).2 hxy
  have h2 := hf.clique_lt _ (getD_mem_of_lt hy)
  have := coord_index_lt h1 h2
  unfold blockTarget
  omega

end Clarabel.Chordal
