/-
  Quasidefiniteness of the regularised KKT matrix with ONE sparse (expanded) second-order-cone
  block, and hence (Vanderbei, `KktInertia.pivots_have_signs`) the recorded LDLᵀ pivot signs
  `(+ … +, − … −, −, +)` for (primal, cone rows, v-aux, u-aux) in ANY elimination order.

  ```
            x          cone rows        v-aux        u-aux
  x      [ P+εI          Aᵀ              0            0     ]
  cone   [ A         −(η²·D + εI)      −η²·v        −η²·u   ]
  v-aux  [ 0           −η²·v'          −η² − ε        0     ]
  u-aux  [ 0           −η²·u'            0          η² + ε  ]
  ```

  Everything is class [F] (linearly ordered field), pure algebra; the example at the end is
  over `ℝ` (class [R]) because the SOC data needs square roots.
-/
import ClarabelProofs.Lemmas.KktInertia
import ClarabelProofs.Lemmas.KktExpansion

namespace Clarabel.Lemmas.KktInertiaSoc

open Finset
open Clarabel.Lemmas.KktInertia
open Clarabel.Lemmas.KktExpansion

set_option linter.unusedSectionVars false

variable {α : Type} [Field α] [LinearOrder α] [IsStrictOrderedRing α] {k : ℕ}

/-! ### (1) `D − vv' ⪰ 0` -/

/-- scalar core: with `W = wsq ≥ 1`, `‖w1‖² = (W − 1)/2` and
`v1² = 2(2 + W⁻¹)/(2W − W⁻¹)` we get `v1²·‖w1‖² ≤ 1`. -/
theorem soc_scalar_v1sq_le {W n v1 : α} (hW : 1 ≤ W) (hn : 2 * n = W - 1)
    (hv1 : v1 * v1 = 2 * (2 + W⁻¹) / (2 * W - W⁻¹)) : v1 * v1 * n ≤ 1 := by
  have hWpos : 0 < W := lt_of_lt_of_le one_pos hW
  have hc : W * W⁻¹ = 1 := mul_inv_cancel₀ (ne_of_gt hWpos)
  have hc0 : 0 < W⁻¹ := inv_pos.mpr hWpos
  have hden : 0 < 2 * W - W⁻¹ := by
    have := wsq_sub_d_pos hW
    linarith
  rw [hv1, div_mul_eq_mul_div, div_le_one hden]
  have : 2 * (2 + W⁻¹) * n = 2 * W - 1 - W⁻¹ := by
    linear_combination (2 + W⁻¹) * hn + hc
  linarith

/-- [F] `v1²·‖w1‖² ≤ 1` for the sparse SOC data. -/
theorem soc_v1sq_mul_nsq_le_one {w0 : α} {w1 : Fin k → α} {d u0 u1 v1 : α}
    (h : SocSparse w0 w1 d u0 u1 v1) : v1 * v1 * dot w1 w1 ≤ 1 :=
  soc_scalar_v1sq_le (wsq_ge_one h.unit) (by linear_combination -h.unit) h.hv1

/-- [F] `0 < d`. -/
theorem soc_d_pos {w0 : α} {w1 : Fin k → α} {d u0 u1 v1 : α}
    (h : SocSparse w0 w1 d u0 u1 v1) : 0 < d := by
  have hW := wsq_ge_one h.unit
  have hWpos : 0 < w0 * w0 + dot w1 w1 := lt_of_lt_of_le one_pos hW
  rw [h.hd]
  have := inv_pos.mpr hWpos
  positivity

/-- [F] **`D − vv' ⪰ 0`**: for the sparse SOC data, `(v·y)² ≤ Σ D_i y_i²` for every `y`. -/
theorem soc_D_sub_vv_nonneg {w0 : α} {w1 : Fin k → α} {d u0 u1 v1 : α}
    (h : SocSparse w0 w1 d u0 u1 v1) (y : Fin (k + 1) → α) :
    (dot (socV v1 w1) y) ^ 2 ≤ ∑ i, socD d i * y i * y i := by
  have hd := soc_d_pos h
  have hle := soc_v1sq_mul_nsq_le_one h
  have hcs := Finset.sum_mul_sq_le_sq_mul_sq Finset.univ w1 (fun i => y i.succ)
  have hY : 0 ≤ ∑ i : Fin k, y i.succ ^ 2 := Finset.sum_nonneg fun i _ => sq_nonneg _
  have hN : dot w1 w1 = ∑ i, w1 i ^ 2 := by
    simp only [dot, sq]
  have hv0 : 0 ≤ v1 * v1 := mul_self_nonneg v1
  have hrhs : ∑ i, socD d i * y i * y i = d * y 0 * y 0 + ∑ i : Fin k, y i.succ ^ 2 := by
    rw [Fin.sum_univ_succ]
    simp [socD, sq]
  rw [dot_socV, hrhs, mul_pow]
  have h1 : v1 ^ 2 * (∑ i, w1 i * y i.succ) ^ 2
      ≤ v1 * v1 * ((∑ i, w1 i ^ 2) * ∑ i : Fin k, y i.succ ^ 2) := by
    rw [sq v1]
    exact mul_le_mul_of_nonneg_left hcs hv0
  have h2 : v1 * v1 * ((∑ i, w1 i ^ 2) * ∑ i : Fin k, y i.succ ^ 2)
      ≤ 1 * ∑ i : Fin k, y i.succ ^ 2 := by
    rw [← mul_assoc, ← hN]
    exact mul_le_mul_of_nonneg_right hle hY
  have h3 : 0 ≤ d * y 0 * y 0 := by
    rw [mul_assoc]
    exact mul_nonneg hd.le (mul_self_nonneg _)
  linarith

/-! ### (2) the expanded KKT matrix for one sparse SOC cone -/

section Kkt

variable {ι₁ : Type} [Fintype ι₁] [DecidableEq ι₁]

/-- the two auxiliary columns of the expansion: `0 ↦ v`, `1 ↦ u` -/
def socCol (u0 u1 v1 : α) (w1 : Fin k → α) (a : Fin 2) : Fin (k + 1) → α :=
  if a = 0 then socV v1 w1 else socU u0 u1 w1

/-- the two auxiliary diagonal entries after regularisation: `0 ↦ −η² − ε`, `1 ↦ η² + ε` -/
def socAuxDiag (η ε : α) (a : Fin 2) : α :=
  if a = 0 then -(η * η) - ε else η * η + ε

/-- the regularised KKT matrix with one expanded sparse SOC block; index type
`primal ⊕ (cone rows ⊕ aux)`, aux `0` = v-variable, aux `1` = u-variable. -/
def socKkt (P : ι₁ → ι₁ → α) (A : Fin (k + 1) → ι₁ → α) (η ε d u0 u1 v1 : α)
    (w1 : Fin k → α) :
    ι₁ ⊕ (Fin (k + 1) ⊕ Fin 2) → ι₁ ⊕ (Fin (k + 1) ⊕ Fin 2) → α
  | .inl i, .inl j => P i j + if i = j then ε else 0
  | .inl i, .inr (.inl j) => A j i
  | .inr (.inl i), .inl j => A i j
  | .inl _, .inr (.inr _) => 0
  | .inr (.inr _), .inl _ => 0
  | .inr (.inl i), .inr (.inl j) =>
      -((if i = j then η * η * socD d i else 0) + if i = j then ε else 0)
  | .inr (.inl i), .inr (.inr a) => -(η * η) * socCol u0 u1 v1 w1 a i
  | .inr (.inr a), .inr (.inl i) => -(η * η) * socCol u0 u1 v1 w1 a i
  | .inr (.inr a), .inr (.inr b) => if a = b then socAuxDiag η ε a else 0

/-- the recorded pivot signs: `+` primal, `−` cone rows, `−` v-aux, `+` u-aux -/
def socSigns : ι₁ ⊕ (Fin (k + 1) ⊕ Fin 2) → Bool
  | .inl _ => true
  | .inr (.inl _) => false
  | .inr (.inr a) => decide (a = 1)

@[simp] theorem socSigns_inl (i : ι₁) : socSigns (k := k) (.inl i : ι₁ ⊕ _) = true := rfl
@[simp] theorem socSigns_cone (i : Fin (k + 1)) :
    socSigns (.inr (.inl i) : ι₁ ⊕ _) = false := rfl
@[simp] theorem socSigns_vaux : socSigns (k := k) (.inr (.inr 0) : ι₁ ⊕ _) = false := rfl
@[simp] theorem socSigns_uaux : socSigns (k := k) (.inr (.inr 1) : ι₁ ⊕ _) = true := rfl

/-- the entries of the matrix, as announced -/
theorem socKkt_entries (P : ι₁ → ι₁ → α) (A : Fin (k + 1) → ι₁ → α) (η ε d u0 u1 v1 : α)
    (w1 : Fin k → α) (x x' : ι₁) (i j : Fin (k + 1)) :
    let K := socKkt P A η ε d u0 u1 v1 w1
    K (.inl x) (.inl x') = addDiag P ε x x' ∧
    K (.inl x) (.inr (.inl i)) = A i x ∧ K (.inr (.inl i)) (.inl x) = A i x ∧
    K (.inl x) (.inr (.inr 0)) = 0 ∧ K (.inl x) (.inr (.inr 1)) = 0 ∧
    K (.inr (.inl i)) (.inr (.inl j)) = -(if i = j then η * η * socD d i + ε else 0) ∧
    K (.inr (.inl i)) (.inr (.inr 0)) = -(η * η) * socV v1 w1 i ∧
    K (.inr (.inr 0)) (.inr (.inl i)) = -(η * η) * socV v1 w1 i ∧
    K (.inr (.inl i)) (.inr (.inr 1)) = -(η * η) * socU u0 u1 w1 i ∧
    K (.inr (.inr 1)) (.inr (.inl i)) = -(η * η) * socU u0 u1 w1 i ∧
    K (.inr (.inr 0)) (.inr (.inr 0)) = -(η * η) - ε ∧
    K (.inr (.inr 1)) (.inr (.inr 1)) = η * η + ε ∧
    K (.inr (.inr 0)) (.inr (.inr 1)) = 0 ∧ K (.inr (.inr 1)) (.inr (.inr 0)) = 0 := by
  refine ⟨rfl, rfl, rfl, rfl, rfl, ?_, ?_, ?_, ?_, ?_, ?_, ?_, ?_, ?_⟩ <;>
    simp [socKkt, socCol, socAuxDiag]
  by_cases hij : i = j <;> simp [hij]

theorem socKkt_symm (P : ι₁ → ι₁ → α) (hP : ∀ i j, P i j = P j i)
    (A : Fin (k + 1) → ι₁ → α) (η ε d u0 u1 v1 : α) (w1 : Fin k → α) :
    ∀ a b, socKkt P A η ε d u0 u1 v1 w1 a b = socKkt P A η ε d u0 u1 v1 w1 b a := by
  rintro (i | i | a) (j | j | b)
  · by_cases hij : i = j
    · subst hij; rfl
    · simp [socKkt, hij, Ne.symm hij, hP i j]
  · rfl
  · rfl
  · rfl
  · by_cases hij : i = j
    · subst hij; rfl
    · simp [socKkt, hij, Ne.symm hij]
  · rfl
  · rfl
  · rfl
  · by_cases hab : a = b
    · subst hab; rfl
    · simp [socKkt, hab, Ne.symm hab]

/-- [F] the form on a vector supported on the `+` indices (primal and u-aux): no coupling. -/
theorem qf_socKkt_plus (P : ι₁ → ι₁ → α) (A : Fin (k + 1) → ι₁ → α) (η ε d u0 u1 v1 : α)
    (w1 : Fin k → α) (x : ι₁ ⊕ (Fin (k + 1) ⊕ Fin 2) → α)
    (hc : ∀ i, x (.inr (.inl i)) = 0) (hv : x (.inr (.inr 0)) = 0) :
    qf (socKkt P A η ε d u0 u1 v1 w1) x
      = qf (addDiag P ε) (fun i => x (.inl i)) + (η * η + ε) * x (.inr (.inr 1)) ^ 2 := by
  simp [qf, Fintype.sum_sum_type, Fin.sum_univ_two, hc, hv, socKkt, addDiag, socAuxDiag]
  ring

/-- [F] the form on a vector supported on the `−` indices (cone rows `y`, v-aux `s`). -/
theorem qf_socKkt_minus (P : ι₁ → ι₁ → α) (A : Fin (k + 1) → ι₁ → α) (η ε d u0 u1 v1 : α)
    (w1 : Fin k → α) (x : ι₁ ⊕ (Fin (k + 1) ⊕ Fin 2) → α)
    (hp : ∀ i, x (.inl i) = 0) (hu : x (.inr (.inr 1)) = 0) :
    qf (socKkt P A η ε d u0 u1 v1 w1) x
      = -(ε * (∑ i, x (.inr (.inl i)) ^ 2 + x (.inr (.inr 0)) ^ 2)
          + η * η * (∑ i, socD d i * x (.inr (.inl i)) * x (.inr (.inl i))
              + 2 * x (.inr (.inr 0)) * dot (socV v1 w1) (fun i => x (.inr (.inl i)))
              + x (.inr (.inr 0)) ^ 2)) := by
  have hL : qf (socKkt P A η ε d u0 u1 v1 w1) x
      = -∑ i, x (.inr (.inl i)) * ε * x (.inr (.inl i))
        + -∑ i, x (.inr (.inl i)) * (η * η * socD d i) * x (.inr (.inl i))
        + -∑ i, x (.inr (.inr 0)) * (η * η * socV v1 w1 i) * x (.inr (.inl i))
        + (-∑ i, x (.inr (.inl i)) * (η * η * socV v1 w1 i) * x (.inr (.inr 0))
          + x (.inr (.inr 0)) * (-(η * η) - ε) * x (.inr (.inr 0))) := by
    simp [qf, Fintype.sum_sum_type, Fin.sum_univ_two, hp, hu, socKkt, socCol, socAuxDiag,
      Finset.sum_add_distrib, mul_add, add_mul]
  have e1 : ∑ i, x (.inr (.inl i)) * ε * x (.inr (.inl i))
      = ε * ∑ i, x (.inr (.inl i)) ^ 2 := by
    rw [Finset.mul_sum]; exact Finset.sum_congr rfl fun i _ => by ring
  have e2 : ∑ i, x (.inr (.inl i)) * (η * η * socD d i) * x (.inr (.inl i))
      = η * η * ∑ i, socD d i * x (.inr (.inl i)) * x (.inr (.inl i)) := by
    rw [Finset.mul_sum]; exact Finset.sum_congr rfl fun i _ => by ring
  have e3 : ∑ i, x (.inr (.inr 0)) * (η * η * socV v1 w1 i) * x (.inr (.inl i))
      = η * η * x (.inr (.inr 0)) * dot (socV v1 w1) (fun i => x (.inr (.inl i))) := by
    rw [dot, Finset.mul_sum]; exact Finset.sum_congr rfl fun i _ => by ring
  have e4 : ∑ i, x (.inr (.inl i)) * (η * η * socV v1 w1 i) * x (.inr (.inr 0))
      = η * η * x (.inr (.inr 0)) * dot (socV v1 w1) (fun i => x (.inr (.inl i))) := by
    rw [dot, Finset.mul_sum]; exact Finset.sum_congr rfl fun i _ => by ring
  rw [hL, e1, e2, e3, e4]
  ring

/-- [F] **the regularised expanded SOC KKT matrix is quasidefinite** w.r.t. the recorded sign
pattern `(+ primal, − cone rows, − v-aux, + u-aux)`.  (`η ≠ 0` is not needed: `ε > 0` already
makes both forms definite.) -/
theorem quasiDef_socKkt_of_eps {P : ι₁ → ι₁ → α} (A : Fin (k + 1) → ι₁ → α) {η ε : α}
    {w0 : α} {w1 : Fin k → α} {d u0 u1 v1 : α}
    (hP : PosSemidef P) (hε : 0 < ε) (h : SocSparse w0 w1 d u0 u1 v1) :
    QuasiDef (socKkt P A η ε d u0 u1 v1 w1) socSigns Finset.univ := by
  refine ⟨socKkt_symm P hP.symm A η ε d u0 u1 v1 w1, ?_, ?_⟩
  · intro x hx hx0
    have hc : ∀ i, x (.inr (.inl i)) = 0 := by
      intro i; by_contra hne; simpa using (hx _ hne).2
    have hv : x (.inr (.inr 0)) = 0 := by
      by_contra hne; simpa using (hx _ hne).2
    rw [qf_socKkt_plus P A η ε d u0 u1 v1 w1 x hc hv]
    have hηε : 0 < η * η + ε := by
      have := mul_self_nonneg η
      linarith
    have ht : 0 ≤ (η * η + ε) * x (.inr (.inr 1)) ^ 2 :=
      mul_nonneg hηε.le (sq_nonneg _)
    by_cases h1 : (fun i => x (.inl i)) = 0
    · have htne : x (.inr (.inr 1)) ≠ 0 := by
        intro h0
        apply hx0
        funext a
        rcases a with i | i | a
        · exact congrFun h1 i
        · exact hc i
        · fin_cases a
          · exact hv
          · exact h0
      have h2 : qf (addDiag P ε) (fun i => x (.inl i)) = 0 := by
        rw [h1]; simp [qf]
      rw [h2, zero_add]
      exact mul_pos hηε (by positivity)
    · have := (posDef_addDiag hP hε).pos _ h1
      linarith
  · intro x hx hx0
    have hp : ∀ i, x (.inl i) = 0 := by
      intro i; by_contra hne; simpa using (hx _ hne).2
    have hu : x (.inr (.inr 1)) = 0 := by
      by_contra hne; simpa using (hx _ hne).2
    rw [qf_socKkt_minus P A η ε d u0 u1 v1 w1 x hp hu]
    have hD := soc_D_sub_vv_nonneg h (fun i => x (.inr (.inl i)))
    have hY : 0 ≤ ∑ i, x (.inr (.inl i)) ^ 2 := Finset.sum_nonneg fun i _ => sq_nonneg _
    have hS : 0 ≤ x (.inr (.inr 0)) ^ 2 := sq_nonneg _
    have hpos : 0 < ∑ i, x (.inr (.inl i)) ^ 2 + x (.inr (.inr 0)) ^ 2 := by
      by_cases hs : x (.inr (.inr 0)) = 0
      · have : ∃ i, x (.inr (.inl i)) ≠ 0 := by
          by_contra hcon
          apply hx0
          funext a
          rcases a with i | i | a
          · exact hp i
          · by_contra hne; exact hcon ⟨i, hne⟩
          · fin_cases a
            · exact hs
            · exact hu
        obtain ⟨i, hi⟩ := this
        have : 0 < ∑ i, x (.inr (.inl i)) ^ 2 :=
          Finset.sum_pos' (fun i _ => sq_nonneg _) ⟨i, Finset.mem_univ _, by positivity⟩
        linarith
      · have : 0 < x (.inr (.inr 0)) ^ 2 := by positivity
        linarith
    have hη : 0 ≤ η * η := mul_self_nonneg η
    have hform : 0 ≤ ∑ i, socD d i * x (.inr (.inl i)) * x (.inr (.inl i))
        + 2 * x (.inr (.inr 0)) * dot (socV v1 w1) (fun i => x (.inr (.inl i)))
        + x (.inr (.inr 0)) ^ 2 := by
      nlinarith [sq_nonneg (dot (socV v1 w1) (fun i => x (.inr (.inl i))) + x (.inr (.inr 0)))]
    have h1 := mul_pos hε hpos
    have h2 := mul_nonneg hη hform
    linarith

/-- [F] the same with the hypothesis list of the solver's setting (`η ≠ 0` is superfluous). -/
theorem quasiDef_socKkt {P : ι₁ → ι₁ → α} (A : Fin (k + 1) → ι₁ → α) {η ε : α}
    {w0 : α} {w1 : Fin k → α} {d u0 u1 v1 : α}
    (hP : PosSemidef P) (hε : 0 < ε) (_hη : η ≠ 0) (h : SocSparse w0 w1 d u0 u1 v1) :
    QuasiDef (socKkt P A η ε d u0 u1 v1 w1) socSigns Finset.univ :=
  quasiDef_socKkt_of_eps A hP hε h

/-! ### (3) pivot signs in any elimination order -/

/-- [F] for ANY elimination order (distinct indices), the `n`-th LDLᵀ pivot of the regularised
expanded SOC KKT matrix is positive iff `order[n]` is a primal or the u-aux index, negative iff
it is a cone row or the v-aux index. -/
theorem socKkt_pivot_signs {P : ι₁ → ι₁ → α} (A : Fin (k + 1) → ι₁ → α) {η ε : α}
    {w0 : α} {w1 : Fin k → α} {d u0 u1 v1 : α}
    (hP : PosSemidef P) (hε : 0 < ε) (hη : η ≠ 0) (h : SocSparse w0 w1 d u0 u1 v1)
    (order : List (ι₁ ⊕ (Fin (k + 1) ⊕ Fin 2))) (hnd : order.Nodup)
    (n : Nat) (hn : n < order.length) :
    if socSigns order[n] then
      0 < (pivots (socKkt P A η ε d u0 u1 v1 w1) order)[n]'(by rw [length_pivots]; exact hn)
    else
      (pivots (socKkt P A η ε d u0 u1 v1 w1) order)[n]'(by rw [length_pivots]; exact hn) < 0 :=
  pivots_have_signs order (quasiDef_socKkt A hP hε hη h) hnd (fun _ _ => Finset.mem_univ _) n hn

/-- [F] same, as a statement about all pivots at once. -/
theorem socKkt_pivots_forall₂ {P : ι₁ → ι₁ → α} (A : Fin (k + 1) → ι₁ → α) {η ε : α}
    {w0 : α} {w1 : Fin k → α} {d u0 u1 v1 : α}
    (hP : PosSemidef P) (hε : 0 < ε) (hη : η ≠ 0) (h : SocSparse w0 w1 d u0 u1 v1)
    (order : List (ι₁ ⊕ (Fin (k + 1) ⊕ Fin 2))) (hnd : order.Nodup) :
    List.Forall₂ (fun p piv => if socSigns p then 0 < piv else piv < 0) order
      (pivots (socKkt P A η ε d u0 u1 v1 w1) order) :=
  pivots_forall₂ order (quasiDef_socKkt A hP hε hη h) hnd (fun _ _ => Finset.mem_univ _)

/-- [F] no zero pivot, in any elimination order. -/
theorem socKkt_pivots_ne_zero {P : ι₁ → ι₁ → α} (A : Fin (k + 1) → ι₁ → α) {η ε : α}
    {w0 : α} {w1 : Fin k → α} {d u0 u1 v1 : α}
    (hP : PosSemidef P) (hε : 0 < ε) (hη : η ≠ 0) (h : SocSparse w0 w1 d u0 u1 v1)
    (order : List (ι₁ ⊕ (Fin (k + 1) ⊕ Fin 2))) (hnd : order.Nodup) :
    ∀ piv ∈ pivots (socKkt P A η ε d u0 u1 v1 w1) order, piv ≠ 0 :=
  pivots_ne_zero order (quasiDef_socKkt A hP hε hη h) hnd (fun _ _ => Finset.mem_univ _)

end Kkt

/-! ### (4) non-vacuity over `ℝ` -/

section Example

theorem exP_psd_real : PosSemidef (fun (_ _ : Fin 1) => (1 : ℝ)) :=
  ⟨fun _ _ => rfl, fun x => by simp only [qf, Fin.sum_univ_one]; nlinarith [sq_nonneg (x 0)]⟩

/-- [R] all hypotheses are simultaneously satisfiable: one primal variable, `P = [1]`, a
2-dimensional second-order cone with scaling point `w = (5/4, 3/4)` (so `w0² − ‖w1‖² = 1`),
`η = 2`, `ε = 1/10`, arbitrary `A`; `d, u0, u1, v1` are the code's square-root formulas. -/
example (A : Fin 2 → Fin 1 → ℝ) : ∃ d u0 u1 v1 : ℝ,
    PosSemidef (fun (_ _ : Fin 1) => (1 : ℝ)) ∧ (0 : ℝ) < 1 / 10 ∧ (2 : ℝ) ≠ 0 ∧
    SocSparse (n := 1) (5 / 4 : ℝ) (fun _ => 3 / 4) d u0 u1 v1 ∧
    QuasiDef (socKkt (fun (_ _ : Fin 1) => (1 : ℝ)) A 2 (1 / 10) d u0 u1 v1 (fun _ => 3 / 4))
      socSigns Finset.univ ∧
    ∀ order : List (Fin 1 ⊕ (Fin 2 ⊕ Fin 2)), order.Nodup →
      List.Forall₂ (fun p piv => if socSigns p then 0 < piv else piv < 0) order
        (pivots (socKkt (fun (_ _ : Fin 1) => (1 : ℝ)) A 2 (1 / 10) d u0 u1 v1
          (fun _ => 3 / 4)) order) := by
  have hs := soc_sparse_real (n := 1) (5 / 4 : ℝ) (fun _ => 3 / 4) (by simp [dot]; norm_num)
  exact ⟨_, _, _, _, exP_psd_real, by norm_num, by norm_num, hs,
    quasiDef_socKkt A exP_psd_real (by norm_num) (by norm_num) hs,
    fun order hnd => socKkt_pivots_forall₂ A exP_psd_real (by norm_num) (by norm_num) hs order hnd⟩

/-- the diagonal of the example carries the recorded signs (obtained from the theorem):
the v-aux entry `−η² − ε` is negative, the u-aux entry `η² + ε` is positive. -/
example : (-(2 * 2) - 1 / 10 : ℝ) < 0 ∧ (0 : ℝ) < 2 * 2 + 1 / 10 := by
  obtain ⟨d, u0, u1, v1, hs⟩ : ∃ d u0 u1 v1 : ℝ,
      SocSparse (n := 1) (5 / 4 : ℝ) (fun _ => 3 / 4) d u0 u1 v1 :=
    ⟨_, _, _, _, soc_sparse_real (n := 1) (5 / 4 : ℝ) (fun _ => 3 / 4) (by simp [dot]; norm_num)⟩
  have hq := quasiDef_socKkt (η := 2) (ε := 1 / 10) (fun (_ : Fin 2) (_ : Fin 1) => (0 : ℝ))
    exP_psd_real (by norm_num) (by norm_num) hs
  have h0 := hq.pivot_sign (p := .inr (.inr 0)) (Finset.mem_univ _)
  have h1 := hq.pivot_sign (p := .inr (.inr 1)) (Finset.mem_univ _)
  simpa [socKkt, socAuxDiag] using And.intro h0 h1

end Example

end Clarabel.Lemmas.KktInertiaSoc
