/-
  Solving twice (C05), the relational part — `pass`, the loop, `default_start`, `runSolve`.
-/
import ClarabelProofs.Lemmas.SolverStalePass

namespace Clarabel.Solver
open Clarabel Info Residuals

set_option linter.unusedSectionVars false
set_option linter.unusedVariables false

variable {α : Type}
variable [Add α] [Sub α] [Mul α] [Div α] [Neg α] [OfNat α 0] [OfNat α 1] [OfNat α 2]
  [OfNat α 100] [OfNat α 1000] [LT α] [DecidableLT α] [LE α] [DecidableLE α] [BEq α] [FloatLike α]

/-- one pass of the loop on two related loop states -/
theorem pass_rel (hbeq : ((0 : α) == 0) = true) {Bw Bs : KktSolver α → KktSolver α → Prop} (hsim : KktSim Bw Bs)
    (st : Settings α) {L L' : LoopSt α} (h : PRel Bw L L') : RelM (PassOut Bw) (pass st L) (pass st L') := by
  rw [pass_eq, pass_eq]
  obtain ⟨p, hp, hpl⟩ := h.info
  rw [← h.iter]
  refine RelM.bind' (topNumerics_rel hbeq L.iter p h.data h.variables h.residuals h.cones hp) ?_
  rintro ⟨r0, mu0, i1⟩ ⟨r, mu, i1'⟩ e1 e2 ⟨g1, g2, g3⟩
  dsimp only at g1 g2 g3 ⊢
  subst g1 g2 g3
  obtain ⟨a1, a2, a3, a4, a5, a6, a7, a8⟩ := topNumerics_frame e1
  have hor : L.iter ≤ 1 ∨ PrevEq p i1 := by
    by_cases h0 : 1 ≤ L.iter
    · right
      obtain ⟨b1, b2, b3, b4, b5, b6⟩ := hpl h0
      exact ⟨b1.trans a1.symm, b2.trans a2.symm, b3.trans a3.symm, b4.trans a4.symm, b5.trans a5.symm,
        b6.trans a6.symm⟩
    · left; omega
  obtain ⟨c1, c2⟩ := checkTermination_carryPrev i1 p r.dot_bz r.dot_qx st.info L.iter false hor
  have hct : Info.checkTermination (carryPrev i1 p) r.dot_bz r.dot_qx st.info L.iter false =
      (carryPrev (Info.checkTermination i1 r.dot_bz r.dot_qx st.info L.iter false).1 p,
        (Info.checkTermination i1 r.dot_bz r.dot_qx st.info L.iter false).2) := Prod.ext c1 c2
  rw [hct]
  have fr := checkTermination_frame i1 r.dot_bz r.dot_qx st.info L.iter false
  refine passRest_rel hsim st h r mu i1 p _ fr.2 ?_ ?_
  · exact checkTermination_ip_iter (a8.trans h.status)
  · intro h0
    rcases hor with h1 | h1
    · have : L.iter = 1 := by omega
      obtain ⟨b1, b2, b3, b4, b5, b6⟩ := hpl h0
      rw [fr.1]
      exact ⟨b1.trans a1.symm, b2.trans a2.symm, b3.trans a3.symm, b4.trans a4.symm, b5.trans a5.symm,
        b6.trans a6.symm⟩
    · rw [fr.1]
      exact h1

/-- the loop on two related loop states: same number of passes, same records, related final states -/
theorem runLoop_rel (hbeq : ((0 : α) == 0) = true) {Bw Bs : KktSolver α → KktSolver α → Prop} (hsim : KktSim Bw Bs)
    (st : Settings α) : ∀ (fuel : Nat) {L L' : LoopSt α}, PRel Bw L L' →
      RelM FRel (runLoop st fuel L) (runLoop st fuel L') := by
  intro fuel
  induction fuel with
  | zero => intro L L' _; rfl
  | succ n ih =>
    intro L L' h
    unfold runLoop
    refine RelM.bind (pass_rel hbeq hsim st h) ?_
    rintro ⟨c, L1⟩ ⟨c', L1'⟩ ⟨h1, h2⟩
    dsimp only at h1 h2 ⊢
    subst h1
    cases c with
    | false =>
      simp only [Bool.false_eq_true, if_false] at h2 ⊢
      exact h2
    | true =>
      simp only [if_true] at h2 ⊢
      exact ih h2

/-! ### `default_start` -/

theorem ConesShape.numel {cs cs' : List (ConeSt α)} (h : ConesShape cs cs') :
    cs.map ConeSt.numel = cs'.map ConeSt.numel := by
  induction h with
  | nil => rfl
  | @cons c c' _ _ hc _ ih =>
    simp only [List.map_cons, ih]
    congr 1
    cases c <;> cases c' <;> try exact hc.elim
    · exact hc
    · exact hc.1
    · exact hc.1

theorem KktSys.update_congr_lam (K : KktSys α) (data : ProblemData α) {cones cones' : List (ConeSt α)}
    (st : LinSettings α) (h : ConesEqvLam cones cones') : K.update data cones st = K.update data cones' st := by
  unfold KktSys.update
  rw [KktSolver.update_congr_lam _ st h]

theorem symmetricInitialization_congr {v v' : Vars α} {cones cones' : List (ConeSt α)} (hv : VarsXSZ v v')
    (hc : ConesEqvLam cones cones') : symmetricInitialization v cones = symmetricInitialization v' cones' := by
  obtain ⟨x, s, z, t, k⟩ := v
  obtain ⟨x', s', z', t', k'⟩ := v'
  obtain ⟨h1, h2, h3⟩ := hv
  dsimp only at h1 h2 h3
  subst h1 h2 h3
  unfold symmetricInitialization
  rw [compSpec_eqv hc]

/-- **(iii)** `solve_initial_point` succeeds on this state (its result is not checked by
`default_start`; when it fails the iterate left by the previous solve is kept) -/
def InitPointOk (S : SolverSt α) (st : Settings α) : Prop :=
  ∀ u v, S.kktsystem.update S.data (setIdentityScaling S.cones) st.lin = .ok u →
    u.2.solveInitialPoint S.variables S.data st.lin = .ok v → v.1 = true

/-- `default_start` on two `Stale`-related states whose `info` blocks agree up to `prev_*` -/
theorem defaultStart_rel {Bw Bs : KktSolver α → KktSolver α → Prop} (hsim : KktSim Bw Bs) (st : Settings α)
    {S S' : SolverSt α} (h : Stale Bw S S') (hst : S.info.status = .unsolved)
    (hi : ∃ p : InfoS α, S'.info = carryPrev S.info p)
    (hinit : InitPointOk S st ∨ VarsXSZ S.variables S'.variables) :
    RelM (fun S0 S0' => PRel Bw (initLoopSt S0) (initLoopSt S0')) (S.defaultStart st) (S'.defaultStart st) := by
  obtain ⟨hdata, hvars, hres, hkkt, hcones, hlhs, hrhs, hpv⟩ := h
  have hce := setIdentityScaling_eqv hcones
  have hn : numelAll (setIdentityScaling S.cones) = numelAll S.cones :=
    numelAll_congr (setIdentityScaling_numel S.cones)
  unfold SolverSt.defaultStart
  dsimp only
  rw [← hdata, ← KktSys.update_congr_lam _ _ _ hce]
  refine RelM.bind' (KktSys.update_rel hsim S.data _ st.lin hkkt) ?_
  rintro ⟨ok1, K1⟩ ⟨ok1', K1'⟩ e1 e1' ⟨g1, g2, g3⟩
  dsimp only at g1 g2 g3 ⊢
  refine RelM.bind' (KktSys.solveInitialPoint_rel hsim S.data st.lin g2 hvars) ?_
  rintro ⟨ok2, v2, K2⟩ ⟨ok2', v2', K2'⟩ e2 e2' ⟨f1, f2, f3, f4⟩
  dsimp only at f1 f2 f3 f4 ⊢
  have hxsz : VarsXSZ v2 v2' := by
    apply f2
    rcases hinit with hinit | hinit
    · left; exact hinit _ _ e1 e2
    · right; exact hinit
  rw [← symmetricInitialization_congr hxsz hce]
  refine RelM.bind (RelM.refl_eq _) ?_
  intro v3 _ e
  subst e
  obtain ⟨p, hp⟩ := hi
  refine ⟨rfl, rfl, rfl, rfl, .nil, rfl, rfl, hst, ⟨p, hp, fun h => (Nat.not_succ_le_zero 0 h).elim⟩, hpv,
    fun h => (Nat.not_succ_le_zero 0 h).elim, hres, ?_, hce, ?_, ?_⟩
  · show KRel Bw (numelAll (setIdentityScaling S.cones)) S.data.q.size K2 K2'
    rw [hn]
    exact { f4 with solver := hsim.weaken f4.solver }
  · show StepShape (numelAll (setIdentityScaling S.cones)) S.stepLhs S'.stepLhs
    rw [hn]; exact hlhs
  · show StepShape (numelAll (setIdentityScaling S.cones)) S.stepRhs S'.stepRhs
    rw [hn]; exact hrhs

theorem Stale.resetInfo {Bw : KktSolver α → KktSolver α → Prop} {S S' : SolverSt α} (h : Stale Bw S S') :
    Stale Bw (resetInfo S) (resetInfo S') :=
  ⟨h.data, h.variables, h.residuals, h.kktsystem, h.cones, h.stepLhs, h.stepRhs, h.prevVars⟩

/-- `info.reset`, `default_start` and the loop on two `Stale`-related states whose `info` blocks agree
up to `prev_*` -/
theorem runSolve_rel_eqv (hbeq : ((0 : α) == 0) = true) {Bw Bs : KktSolver α → KktSolver α → Prop}
    (hsim : KktSim Bw Bs) (st : Settings α) {S S' : SolverSt α} (h : Stale Bw S S')
    (hi : ∃ p : InfoS α, S'.info = carryPrev S.info p)
    (hinit : InitPointOk (resetInfo S) st ∨ VarsXSZ S.variables S'.variables) :
    RelM FRel (S.runSolve st) (S'.runSolve st) := by
  have e : ∀ T : SolverSt α, T.runSolve st =
      ((resetInfo T).defaultStart st >>= fun S0 => runLoop st (st.info.max_iter + 2) (initLoopSt S0)) := fun _ => rfl
  rw [e, e]
  obtain ⟨p, hp⟩ := hi
  refine RelM.bind (defaultStart_rel hsim st h.resetInfo rfl ⟨p, ?_⟩ hinit) ?_
  · show ({ S'.info with status := SolverStatus.unsolved, iterations := 0 } : InfoS α) = _
    rw [hp]; rfl
  · intro S0 S0' h0
    exact runLoop_rel hbeq hsim st _ h0

/-- the same without any hypothesis on the `info` blocks (the rest of `info` is dead:
`runSolve_withInfo`) -/
theorem runSolve_rel (hbeq : ((0 : α) == 0) = true) {Bw Bs : KktSolver α → KktSolver α → Prop}
    (hsim : KktSim Bw Bs) (st : Settings α) {S S' : SolverSt α} (h : Stale Bw S S')
    (hinit : InitPointOk (resetInfo S) st ∨ VarsXSZ S.variables S'.variables) :
    RelM FRel (S.runSolve st) (S'.runSolve st) := by
  have e := runSolve_withInfo S' st (carryPrev S.info S'.info) S.infoMu S.infoSigma S.infoStepLength
    (carryPrev_prevEq _ _)
  rw [← e]
  refine runSolve_rel_eqv hbeq hsim st ?_ ⟨S'.info, rfl⟩ hinit
  exact ⟨h.data, h.variables, h.residuals, h.kktsystem, h.cones, h.stepLhs, h.stepRhs, h.prevVars⟩

/-! ### after the loop -/

/-- `reverse_presolve` writes the entries `idx ..< idx + keep.len()` of `solution.s / z` without
reading them; two targets that agree everywhere else give the same result -/
theorem reverseLoop_congr (infb : α) (vs vz : Array α) :
    ∀ (keep : List Bool) (idx ctr : Nat) (s s' z z' : Array α), s.size = s'.size → z.size = z'.size →
      (∀ i, i < idx ∨ idx + keep.length ≤ i → s[i]? = s'[i]?) →
      (∀ i, i < idx ∨ idx + keep.length ≤ i → z[i]? = z'[i]?) →
      Unscale.reverseLoop infb vs vz keep idx ctr s z = Unscale.reverseLoop infb vs vz keep idx ctr s' z' := by
  intro keep
  induction keep with
  | nil =>
    intro idx ctr s s' z z' hs hz as az
    have e1 : s = s' := Array.ext_getElem? fun i => as i (by
      simp only [List.length_nil, Nat.add_zero]; omega)
    have e2 : z = z' := Array.ext_getElem? fun i => az i (by
      simp only [List.length_nil, Nat.add_zero]; omega)
    rw [e1, e2]
  | cons k rest ih =>
    intro idx ctr s s' z z' hs hz as az
    have step : ∀ (a a' : Array α) (v : α), a.size = a'.size →
        (∀ i, i < idx ∨ idx + (k :: rest).length ≤ i → a[i]? = a'[i]?) →
        RelM (fun b b' => b.size = b'.size ∧ ∀ i, i < idx + 1 ∨ idx + 1 + rest.length ≤ i → b[i]? = b'[i]?)
          (setE a idx v "reverse_presolve: solution.s") (setE a' idx v "reverse_presolve: solution.s") := by
      intro a a' v ha hag
      unfold setE
      by_cases hlt : idx < a.size
      · have hlt' : idx < a'.size := ha ▸ hlt
        simp only [hlt, hlt', dif_pos]
        refine ⟨by simp [ha], ?_⟩
        intro i hi
        by_cases hii : i = idx
        · subst hii
          simp [hlt, hlt']
        · rw [Array.getElem?_set_ne hlt (fun h => hii h.symm), Array.getElem?_set_ne hlt' (fun h => hii h.symm)]
          apply hag
          simp only [List.length_cons]
          omega
      · have hlt' : ¬ idx < a'.size := ha ▸ hlt
        simp only [hlt, hlt', dif_neg, not_false_eq_true]
        rfl
    have step' : ∀ (a a' : Array α) (v : α), a.size = a'.size →
        (∀ i, i < idx ∨ idx + (k :: rest).length ≤ i → a[i]? = a'[i]?) →
        RelM (fun b b' => b.size = b'.size ∧ ∀ i, i < idx + 1 ∨ idx + 1 + rest.length ≤ i → b[i]? = b'[i]?)
          (setE a idx v "reverse_presolve: solution.z") (setE a' idx v "reverse_presolve: solution.z") := by
      intro a a' v ha hag
      have := step a a' v ha hag
      unfold setE at this ⊢
      by_cases hlt : idx < a.size
      · have hlt' : idx < a'.size := ha ▸ hlt
        simp only [hlt, hlt', dif_pos] at this ⊢
        exact this
      · have hlt' : ¬ idx < a'.size := ha ▸ hlt
        simp only [hlt, hlt', dif_neg, not_false_eq_true]
        rfl
    apply RelM.eq
    unfold Unscale.reverseLoop
    cases k with
    | true =>
      simp only [if_true]
      refine RelM.bind (RelM.refl_eq _) ?_
      intro sv _ e
      subst e
      refine RelM.bind (step s s' sv hs as) ?_
      intro s1 s1' ⟨hs1, as1⟩
      refine RelM.bind (RelM.refl_eq _) ?_
      intro zv _ e
      subst e
      refine RelM.bind (step' z z' zv hz az) ?_
      intro z1 z1' ⟨hz1, az1⟩
      rw [ih (idx + 1) (ctr + 1) s1 s1' z1 z1' hs1 hz1 as1 az1]
      exact RelM.refl_eq _
    | false =>
      simp only [Bool.false_eq_true, if_false]
      refine RelM.bind (step s s' infb hs as) ?_
      intro s1 s1' ⟨hs1, as1⟩
      refine RelM.bind (step' z z' 0 hz az) ?_
      intro z1 z1' ⟨hz1, az1⟩
      rw [ih (idx + 1) ctr s1 s1' z1 z1' hs1 hz1 as1 az1]
      exact RelM.refl_eq _

/-- what `solution.post_process` reads of the `solution` object it writes into: the lengths, and —
with a presolver — the entries past the presolver's row map (there are none in a solver object
built by `DefaultSolver::new`) -/
structure SolShape (keepLen : Option Nat) (sol sol' : Unscale.Solution α) : Prop where
  x : sol.x.size = sol'.x.size
  s : sol.s.size = sol'.s.size
  z : sol.z.size = sol'.z.size
  sTail : ∀ n, keepLen = some n → ∀ i, n ≤ i → sol.s[i]? = sol'.s[i]?
  zTail : ∀ n, keepLen = some n → ∀ i, n ≤ i → sol.z[i]? = sol'.z[i]?

theorem postProcess_carryPrev (i p : InfoS α) (dbz dqx : α) (s : Info.Settings α) :
    Info.postProcess (carryPrev i p) dbz dqx s = carryPrev (Info.postProcess i dbz dqx s) p := by
  unfold Info.postProcess
  show (if (i.status.isErrored || i.status == .maxIterations || i.status == .maxTime) = true then _ else _) = _
  split
  · unfold Info.checkConvergenceAlmost
    rw [checkConvergence_frame, checkConvergence_carryPrev]
    conv => rhs; rw [checkConvergence_frame]
    rfl
  · rfl

theorem unscale_postProcess_congr {keepLen : Option Nat} {sol sol' : Unscale.Solution α} (eq : Info.Equil α)
    (pm : Option (Unscale.PresolveMap α)) (v : Vars α) (i p : InfoS α)
    (hk : keepLen = pm.map (fun m => m.keep.size)) (h : SolShape keepLen sol sol') :
    Unscale.postProcess sol eq pm v i = Unscale.postProcess sol' eq pm v (carryPrev i p) := by
  unfold Unscale.postProcess
  show (match pm with | some q => _ | none => _) = (match pm with | some q => _ | none => _)
  cases pm with
  | none =>
    dsimp only
    unfold Unscale.copyFrom
    rw [h.x, h.z, h.s]
    rfl
  | some q =>
    dsimp only
    unfold Unscale.reversePresolve Unscale.copyFrom
    dsimp only
    rw [h.x]
    have hk' : keepLen = some q.keep.size := hk
    rw [reverseLoop_congr q.infbound _ _ q.keep.toList 0 0 sol.s sol'.s sol.z sol'.z h.s h.z
      (fun i hi => h.sTail _ hk' i (by simp at hi; simpa using hi))
      (fun i hi => h.zTail _ hk' i (by simp at hi; simpa using hi))]
    rfl

theorem finishInfo_rel (st : Settings α) {L L' : LoopSt α} (h : FRel L L') :
    (finishInfo st L').data = (finishInfo st L).data ∧ (finishInfo st L').variables = (finishInfo st L).variables
      ∧ (∃ p : InfoS α, (finishInfo st L').info = carryPrev (finishInfo st L).info p)
      ∧ (finishInfo st L').infoMu = (finishInfo st L).infoMu
      ∧ (finishInfo st L').infoSigma = (finishInfo st L).infoSigma
      ∧ (finishInfo st L').infoStepLength = (finishInfo st L).infoStepLength := by
  obtain ⟨S', iter', sigma', alpha', mu', traj'⟩ := L'
  obtain ⟨hiter, hsigma, halpha, hmu, htraj, hdata, hvars, hinfo, hres, him, his, hil⟩ := h
  obtain ⟨data', vars', res', kkt', cones', lhs', rhs', pv', info', im', is', isl'⟩ := S'
  dsimp only at hiter hsigma halpha hmu htraj hdata hvars hinfo hres him his hil
  obtain ⟨p, hp⟩ := hinfo
  subst hiter hsigma halpha hmu hdata hvars hres him his hil hp
  unfold finishInfo
  dsimp only
  split
  · refine ⟨rfl, rfl, ⟨p, ?_⟩, rfl, rfl, rfl⟩
    dsimp only
    rw [← postProcess_carryPrev]
    rfl
  · refine ⟨rfl, rfl, ⟨p, ?_⟩, rfl, rfl, rfl⟩
    dsimp only
    rw [← postProcess_carryPrev]

/-- what a caller can observe of a `solve()`: the solution object, the recorded trajectory (up to
the private `prev_*` copies inside the `info` snapshots), the final iterate and the final `info`
block (again up to `prev_*`) -/
structure SolveObs (r r' : SolveResult α) : Prop where
  solution : r.S.solution = r'.S.solution
  traj : ListRel RecEqv r.traj r'.traj
  data : r.S.st.data = r'.S.st.data
  variables : r.S.st.variables = r'.S.st.variables
  info : InfoEqv r.S.st.info r'.S.st.info
  infoMu : r.S.st.infoMu = r'.S.st.infoMu
  infoSigma : r.S.st.infoSigma = r'.S.st.infoSigma
  infoStepLength : r.S.st.infoStepLength = r'.S.st.infoStepLength

theorem runSolve_data {S : SolverSt α} {st : Settings α} {L : LoopSt α} (hL : S.runSolve st = .ok L) :
    L.S.data = S.data := by
  rw [runSolve_eq_runSolveO] at hL
  obtain ⟨o, ho, hl⟩ := bind_ok_inv hL
  unfold SolverSt.runSolveO at ho
  obtain ⟨S0, hds, ho⟩ := bind_ok_inv ho
  have hI := initLoopSt_inv hds
  have hspec := runLoopO_spec st (st.info.max_iter + 2) (initLoopSt S0) hI
    (by show st.info.max_iter - 0 < st.info.max_iter + 2; omega)
  rw [ho] at hspec
  cases o with
  | none => exact hspec.elim
  | some Lf =>
    cases hl
    obtain ⟨_, Lm, hr, hpm⟩ := hspec
    rw [pass_data hpm, reach_data hr]
    show S0.data = _
    rw [defaultStart_frame hds]
    rfl

theorem finish_rel (st : Settings α) {L L' : LoopSt α} {sol sol' : Unscale.Solution α} (hF : FRel L L')
    (hsol : SolShape ((presolveMap L.S.data).map (fun m => m.keep.size)) sol sol') :
    RelM (fun a a' => a.2 = a'.2 ∧ a.1.data = a'.1.data ∧ a.1.variables = a'.1.variables
        ∧ InfoEqv a.1.info a'.1.info ∧ a.1.infoMu = a'.1.infoMu ∧ a.1.infoSigma = a'.1.infoSigma
        ∧ a.1.infoStepLength = a'.1.infoStepLength)
      (finish st L sol) (finish st L' sol') := by
  obtain ⟨f1, f2, ⟨p, f3⟩, f4, f5, f6⟩ := finishInfo_rel st hF
  have hd : (finishInfo st L).data = L.S.data := finishInfo_data st L
  unfold finish
  dsimp only
  rw [f1, f2, f3, ← unscale_postProcess_congr _ _ _ _ p (by rw [hd]) hsol]
  refine RelM.bind (RelM.refl_eq _) ?_
  intro r _ e
  subst e
  exact ⟨rfl, rfl, rfl, ⟨p, rfl⟩, f4.symm, f5.symm, f6.symm⟩

/-- **`solve()` on two `Stale`-related solver objects**: both fail with the same error, or both succeed
with the same observable result. -/
theorem solve_rel (hbeq : ((0 : α) == 0) = true) {Bw Bs : KktSolver α → KktSolver α → Prop}
    (hsim : KktSim Bw Bs) (st : Settings α) {S S' : Solver α} (h : Stale Bw S.st S'.st)
    (hsol : SolShape ((presolveMap S.st.data).map (fun m => m.keep.size)) S.solution S'.solution)
    (hinit : InitPointOk (resetInfo S.st) st ∨ VarsXSZ S.st.variables S'.st.variables) :
    RelM SolveObs (S.solve st) (S'.solve st) := by
  unfold Solver.solve
  refine RelM.bind' (runSolve_rel hbeq hsim st h hinit) ?_
  intro L L' eL eL' hF
  have hsol' : SolShape ((presolveMap L.S.data).map (fun m => m.keep.size)) S.solution S'.solution := by
    rw [runSolve_data eL]; exact hsol
  refine RelM.bind (finish_rel st hF hsol') ?_
  rintro ⟨S1, sol1⟩ ⟨S1', sol1'⟩ ⟨g1, g2, g3, g4, g5, g6, g7⟩
  -- the norm caches `Info.update` filled: the same `get_normq` / `get_normb` on the same data
  show RelM SolveObs (fillNorms S1.data >>= fun data => _) (fillNorms S1'.data >>= fun data => _)
  have g2' : S1'.data = S1.data := g2.symm
  rw [g2']
  cases hfn : fillNorms S1.data with
  | error e => exact rfl
  | ok d => exact ⟨g1, hF.traj, rfl, g3, g4, g5, g6, g7⟩

end Clarabel.Solver
