/-
  Clique-graph merge strategy: `SparsityPattern::new(·, ·, "clique_graph")` END TO END, composed
  from the stage specifications of `ChordalCGSpecs.lean` (`initialise`, the loop via
  `ChordalCGLoop.lean`, `post_process_merge` in its two branches) and the tail of
  `SparsityPattern::new` (`BridgePre.tail`, `ChordalBridge.lean`).

  Two links are not discharged by a theorem: the running-intersection property of the spanning
  tree chosen by `kruskal` on the merged clique graph, and that no live clique is swallowed by its
  tree parent; they enter as the executable hypotheses `cgRipB L = true` ("the supernodes of the
  tree returned by `merge_cliques` are pairwise disjoint") and `cgNonemptyB L = true` ("the live
  ones are not empty", both in `ClarabelModel/Chordal/CGCheck.lean`), which the driver evaluates on
  every generated pattern (channel `cg.trace`, fields `rip`, `ne`).
-/
import ClarabelProofs.Lemmas.ChordalCGLoop

namespace Clarabel.Chordal
open Clarabel

/-- [S] `SparsityPattern::new` with `merge_method = "clique_graph"` -/
theorem sparsityPatternNewCG_eq (L : LPat) (ordering : Array Nat) {t0 : SuperNodeTree}
    (hnew : SuperNodeTree.new L = .ok t0) :
    sparsityPatternNewCG L ordering =
      if t0.nCliques > 1 then CGStrategy.mergeCliques t0 >>= (fun t => spTail t ordering)
      else spTail t0 ordering := by
  unfold sparsityPatternNewCG
  rw [hnew, ok_bind']
  show (if t0.nCliques > 1 then _ else _) = _
  split <;> rfl

/-- [S] `merge_cliques` (clique-graph strategy) = `initialise`, the loop, `post_process_merge` -/
theorem cg_mergeCliques_eq {t0 t1 t t' : SuperNodeTree} {s1 s s' : CGStrategy}
    (hi : CGStrategy.new.initialise t0 = .ok (s1, t1))
    (hl : CGStrategy.loop (t1.snode.size + 2) s1 t1 = .ok (s, t))
    (hp : s.postProcessMerge t = .ok (s', t')) : CGStrategy.mergeCliques t0 = .ok t' := by
  unfold CGStrategy.mergeCliques
  simp only [hi, hl, hp, bind, Except.bind, pure, Except.pure]

/-- [S] **the clique-graph strategy up to the end of the loop**: on the tree of
`SuperNodeTree::new` (filled pattern, ≥ 2 cliques) `initialise` and the whole merge loop run
without panic (the loop within the fuel the model hands out), THE LOOP INVARIANT `CGInv` HOLDS AT
EXIT (edge matrix well-formed, strictly lower, sorted, without zero weight, joining live cliques
only; live cliques connected; adjacency table = edge matrix, never mentioning a removed clique;
`n_cliques` = number of live cliques ≥ 1), the bookkeeping fields are untouched and COVERAGE IS
MONOTONE (`CGCover`: every clique of the initial tree lies inside a live clique) -/
theorem cg_front_spec (hInit : InitialiseSpec) (hTr : TraverseSpec) (hEv : EvaluateSpec)
    (hMU : MergeUpdateSpec) {L : LPat} (h : L.Filled) {t0 : SuperNodeTree}
    (hok : SnTreeOk L t0) (h2 : 2 ≤ t0.snode.size) :
    ∃ s1 t1 s t, CGStrategy.new.initialise t0 = .ok (s1, t1) ∧
      CGStrategy.loop (t1.snode.size + 2) s1 t1 = .ok (s, t) ∧
      CGInitRel t0 t1 ∧ CGInv t0.snode.size L.n s1 t1 ∧
      CGInv t0.snode.size L.n s t ∧ CGFrame t1 t ∧ CGCover t1 t ∧ 1 ≤ t.nCliques := by
  obtain ⟨s1, t1, hi, hst, hinv1, hrel⟩ := hInit L t0 h hok h2
  have hn1 : t1.nCliques = t1.snode.size := by rw [hrel.ncl, hok.ncl, hrel.size]
  obtain ⟨s, t, hl, hinv, hfr, hcov, hn⟩ :=
    cg_loop_spec hTr hEv hMU t0.snode.size L.n (t1.snode.size + 2) s1 t1 hinv1
      (by rw [hn1, hrel.size]; exact h2)
      (by simp only [hst, Bool.false_eq_true, if_false]; omega)
  exact ⟨s1, t1, s, t, hi, hl, hrel, hinv1, hinv, hfr, hcov, hn⟩

/-- [S] **C17 FOR THE STRATEGY `clique_graph`, up to two tested links**: for a filled pattern `L`,
an `ordering` that is a permutation and pattern entries inside `L`, if the supernodes of the tree
returned by `merge_cliques` are pairwise disjoint (`cgRipB L`, the running-intersection property
of Kruskal's spanning tree) and the live ones non-empty (`cgNonemptyB L`; both evaluated by the
driver on every case), `SparsityPattern::new(L, ordering, "clique_graph")` returns without panic a
tree and an ordering that satisfy `ValidCliqueTree`. -/
theorem analysis_cg_valid_of_specs (hInit : InitialiseSpec) (hTr : TraverseSpec)
    (hEv : EvaluateSpec) (hMU : MergeUpdateSpec) (hPM : PostMultiSpec) (hPS : PostSingleSpec)
    {L : LPat} (h : L.Filled) (ordering : Array Nat)
    (ho : ordering.toList.Perm (List.range L.n)) (edges : List (Nat × Nat))
    (hedges : EdgesIn L ordering edges) (hrip : cgRipB L = true)
    (hne : cgNonemptyB L = true) :
    ∃ tf ord', sparsityPatternNewCG L ordering = .ok (tf, ord') ∧
      ValidCliqueTree L.n edges tf ord' ∧ validCliqueTreeB L.n edges tf ord' = true := by
  obtain ⟨t0, hnew, hok⟩ := sntree_new_ok h
  rw [sparsityPatternNewCG_eq L ordering hnew]
  by_cases hgt : t0.nCliques > 1
  · rw [if_pos hgt]
    have h2 : 2 ≤ t0.snode.size := by rw [← hok.ncl]; omega
    obtain ⟨s1, t1, s, t, hi, hl, hrel, _, hinv, hfr, hcov, hn⟩ :=
      cg_front_spec hInit hTr hEv hMU h hok h2
    by_cases h1 : t.nCliques = 1
    · obtain ⟨s', t', tf, ord', hp, htail, hv⟩ :=
        hPS L t0 t1 t s h hok hrel hfr hcov hinv h1 ordering ho edges
      rw [cg_mergeCliques_eq hi hl hp, ok_bind']
      exact ⟨tf, ord', htail, hv, (validCliqueTreeB_iff _ _ _ _).2 hv⟩
    · obtain ⟨s', t', hp, hB⟩ := hPM L t0 t1 t s h hok hrel hfr hcov hinv (by omega)
      have hmc := cg_mergeCliques_eq hi hl hp
      have hdisj : snDisjointB t' = true := by
        unfold cgRipB at hrip
        simpa only [hnew, hgt, if_true, hmc] using hrip
      have hnon : snLiveNonemptyB t' = true := by
        unfold cgNonemptyB at hne
        simpa only [hnew, hgt, if_true, hmc] using hne
      obtain ⟨ord, hBP⟩ := hB hdisj hnon
      rw [hmc, ok_bind']
      exact hBP.tail ordering ho edges hedges
  · rw [if_neg hgt]
    exact (hok.bridgePre h).tail ordering ho edges hedges

/-- [S] NO PANIC, unconditionally: for a filled pattern and a permutation ordering the
clique-graph analysis returns (whether or not the tested link holds) — all index reads in range,
no `usize` underflow, no `unwrap` of `None`, no fuel exhausted up to and including
`post_process_merge`. -/
theorem merge_cliques_cg_ok (hInit : InitialiseSpec) (hTr : TraverseSpec)
    (hEv : EvaluateSpec) (hMU : MergeUpdateSpec) (hPM : PostMultiSpec) (hPS : PostSingleSpec)
    {L : LPat} (h : L.Filled) {t0 : SuperNodeTree} (hok : SnTreeOk L t0)
    (h2 : 2 ≤ t0.snode.size) : ∃ t', CGStrategy.mergeCliques t0 = .ok t' := by
  obtain ⟨s1, t1, s, t, hi, hl, hrel, _, hinv, hfr, hcov, hn⟩ :=
    cg_front_spec hInit hTr hEv hMU h hok h2
  by_cases h1 : t.nCliques = 1
  · obtain ⟨s', t', _, _, hp, _, _⟩ :=
      hPS L t0 t1 t s h hok hrel hfr hcov hinv h1 (Array.range L.n)
        (by simp [Array.toList_range]) []
    exact ⟨t', cg_mergeCliques_eq hi hl hp⟩
  · obtain ⟨s', t', hp, _⟩ := hPM L t0 t1 t s h hok hrel hfr hcov hinv (by omega)
    exact ⟨t', cg_mergeCliques_eq hi hl hp⟩

end Clarabel.Chordal
