/-
  `psd_complete` (`ClarabelModel/Chordal/PsdCompletion.lean`) writes only entries outside the
  clique pattern, hence the completed matrix agrees with the input on every clique block.

  * combinatorial core (`ValidTree.no_common_clique`): in a valid clique tree with the
    consecutive post-order numbering of the supernodes, if `v` is in the supernode of clique `j`,
    `x` is not smaller than the first number of that supernode and `x` is not in clique `j`, then
    no clique contains both `x` and `v`;
  * index level: `psdCompleteWritten_spec` (no panic, written positions outside the pattern),
    `psdCompleteChanged_spec` (the same in the coordinates of `A`), `psdCompleteWritten_covers`
    (every position outside the pattern is written);
  * data level, for an arbitrary external LAPACK/BLAS step: `psdComplete_frame`,
    `psdComplete_agrees`, `psdComplete_ok`.
-/
import ClarabelModel.Chordal.PsdCompletion
import ClarabelProofs.Lemmas.ChordalValidTree
import ClarabelProofs.Lemmas.ChordalReorder

namespace Clarabel.Chordal

/-! ### the supernode offsets -/

namespace SuperNodeTree

theorem snodeOffset_succ (t : SuperNodeTree) (i : Nat) :
    t.snodeOffset (i + 1) = t.snodeOffset i + (t.snodeAt i).length := by
  unfold snodeOffset
  rw [List.range_succ, List.map_append, List.sum_append]
  simp

theorem snodeOffset_mono (t : SuperNodeTree) {a b : Nat} (h : a ≤ b) :
    t.snodeOffset a ≤ t.snodeOffset b := by
  induction b with
  | zero =>
    have : a = 0 := by omega
    subst this
    exact Nat.le_refl _
  | succ b ih =>
    rcases Nat.lt_or_ge a (b + 1) with h' | h'
    · have := ih (by omega)
      rw [snodeOffset_succ]
      omega
    · have : a = b + 1 := by omega
      subst this
      exact Nat.le_refl _

end SuperNodeTree

namespace ValidTree
variable {t : SuperNodeTree} {n : Nat}

/-- a vertex of the supernode of a clique earlier in the post-order has a smaller number than
every vertex of the supernode of clique `j` -/
theorem snode_lt_offset (h : ValidTree t n) {m j x : Nat} (hj : j < t.nCliques) (hm : m < j)
    (hx : x ∈ t.snodeAt m) : x < t.snodeOffset j := by
  have h1 := ((h.snode_consec m (by omega) x).1 hx).2
  have h2 := t.snodeOffset_mono (show m + 1 ≤ j by omega)
  omega

/-- walking up the tree: if `v` lies in the supernode of clique `j` and in clique `k`, then `k`
is `j` or one of its descendants (`k ≤ j` in post-order), and every other vertex `x` of clique
`k` is either in clique `j` or in the supernode of a clique that precedes `j`. -/
theorem walk_up (h : ValidTree t n) {j v : Nat} (hj : j < t.nCliques) (hv : v ∈ t.snodeAt j) :
    ∀ d k, t.nCliques - k = d → k < t.nCliques → v ∈ t.cliqueAt k →
      k ≤ j ∧ ∀ x, x ∈ t.cliqueAt k → x ∈ t.cliqueAt j ∨ ∃ m, m < j ∧ x ∈ t.snodeAt m := by
  intro d
  induction d using Nat.strong_induction_on with
  | _ d ih =>
    intro k hd hk hvk
    rcases h.snode_or_sep hk hvk with ⟨hs, _⟩ | ⟨hsep, _⟩
    · -- `v` is in the supernode of `k`: `k = j`
      have : k = j := h.snode_disj k j v hk hj hs hv
      subst this
      exact ⟨Nat.le_refl _, fun x hx => Or.inl hx⟩
    · -- `v` is in the separator of `k`: go to the parent
      have hnr : k + 1 < t.nCliques := by
        rcases Nat.lt_or_ge (k + 1) t.nCliques with h' | h'
        · exact h'
        · exfalso
          have : k = t.nCliques - 1 := by omega
          rw [this, h.root_sep] at hsep
          exact absurd hsep List.not_mem_nil
      obtain ⟨k', hkk', hpar, hsepiff⟩ := h.parent k hnr
      have hk' : k' < t.nCliques := hpar.1
      have hvk' : v ∈ t.cliqueAt k' := ((hsepiff v).1 hsep).2
      obtain ⟨hle, hall⟩ := ih (t.nCliques - k') (by omega) k' rfl hk' hvk'
      refine ⟨by omega, fun x hx => ?_⟩
      rcases h.snode_or_sep hk hx with ⟨hxs, _⟩ | ⟨hxsep, _⟩
      · exact Or.inr ⟨k, by omega, hxs⟩
      · exact hall x ((hsepiff x).1 hxsep).2

/-- **the entries written by the completion are outside the clique pattern**: `v` in the
supernode of clique `j`, `x` at least the first number of that supernode and outside clique
`j` — then no clique contains both. -/
theorem no_common_clique (h : ValidTree t n) {j v x : Nat} (hj : j < t.nCliques)
    (hv : v ∈ t.snodeAt j) (hx : t.snodeOffset j ≤ x) (hxj : x ∉ t.cliqueAt j) :
    ∀ k, k < t.nCliques → ¬ (x ∈ t.cliqueAt k ∧ v ∈ t.cliqueAt k) := by
  intro k hk ⟨hxk, hvk⟩
  obtain ⟨_, hall⟩ := h.walk_up hj hv (t.nCliques - k) k rfl hk hvk
  rcases hall x hxk with h1 | ⟨m, hm, hxm⟩
  · exact hxj h1
  · have := h.snode_lt_offset hj hm hxm
    omega

end ValidTree

/-! ### the accessors on a valid tree -/

private theorem getE_ok' {β : Type} (xs : Array β) (i : Nat) (s : String) (d : β)
    (h : i < xs.size) : getE xs i s = .ok (xs.getD i d) := by
  unfold getE
  simp [h, Array.getD, pure, Except.pure]

theorem getSnode_ok {t : SuperNodeTree} {n : Nat} (h : ValidTree t n) {j : Nat}
    (hj : j < t.nCliques) : ∃ ν, t.getSnode j = .ok ν ∧ ν.toList = t.snodeAt j := by
  refine ⟨t.snode.getD (t.postIdx j) #[], ?_, rfl⟩
  unfold SuperNodeTree.getSnode
  rw [getE_ok' t.snodePost j _ 0 (by rw [h.post_size]; exact hj)]
  exact getE_ok' t.snode _ _ #[] (h.post_lt j hj)

theorem getSeparators_ok {t : SuperNodeTree} {n : Nat} (h : ValidTree t n) {j : Nat}
    (hj : j < t.nCliques) : ∃ α, t.getSeparators j = .ok α ∧ α.toList = t.sepAt j := by
  refine ⟨t.separators.getD (t.postIdx j) #[], ?_, rfl⟩
  unfold SuperNodeTree.getSeparators
  rw [getE_ok' t.snodePost j _ 0 (by rw [h.post_size]; exact hj)]
  exact getE_ok' t.separators _ _ #[] (by rw [h.sep_size]; exact h.post_lt j hj)

/-! ### index sets of `subsref` / `subsasgn` -/

theorem mem_subsPositions {rows cols : List Nat} {rc : Nat × Nat} :
    rc ∈ subsPositions rows cols ↔ rc.1 ∈ rows ∧ rc.2 ∈ cols := by
  obtain ⟨r, c⟩ := rc
  unfold subsPositions
  simp only [List.mem_flatMap, List.mem_map, Prod.mk.injEq]
  constructor
  · rintro ⟨c', hc', r', hr', rfl, rfl⟩
    exact ⟨hr', hc'⟩
  · rintro ⟨hr, hc⟩
    exact ⟨c, hc, r, hr, rfl, rfl⟩

theorem mem_etaOf {i N x : Nat} {α ν : VSet} :
    x ∈ etaOf i N α ν ↔ i < x ∧ x < N ∧ x ∉ α.toList ∧ x ∉ ν.toList := by
  unfold etaOf
  simp only [List.mem_filter, List.mem_range'_1, Bool.and_eq_true, Bool.not_eq_true',
    List.contains_eq_mem, decide_eq_false_iff_not]
  constructor
  · rintro ⟨⟨h1, h2⟩, h3, h4⟩
    exact ⟨by omega, by omega, h3, h4⟩
  · rintro ⟨h1, h2, h3, h4⟩
    exact ⟨⟨by omega, by omega⟩, h3, h4⟩

theorem lin_lt {N r c : Nat} (hr : r < N) (hc : c < N) : linIdx N (r, c) < N * N := by
  unfold linIdx
  have : N * (c + 1) ≤ N * N := Nat.mul_le_mul_left N hc
  rw [Nat.mul_succ] at this
  simp only
  omega

theorem checkIndex_ok {N : Nat} {ps : List (Nat × Nat)} (s : String)
    (h : ∀ rc ∈ ps, rc.1 < N ∧ rc.2 < N) : checkIndex N (N * N) ps s = .ok () := by
  unfold checkIndex
  rw [if_pos]
  · rfl
  · rw [List.all_eq_true]
    intro rc hrc
    exact decide_eq_true (lin_lt (h rc hrc).1 (h rc hrc).2)

/-! ### one pass of the main loop -/

/-- `(row, col)` is a position of the `N × N` matrix outside the clique pattern of `t` -/
def OutsidePattern (t : SuperNodeTree) (N : Nat) (rc : Nat × Nat) : Prop :=
  rc.1 < N ∧ rc.2 < N ∧ ∀ k, k < t.nCliques → ¬ (rc.1 ∈ t.cliqueAt k ∧ rc.2 ∈ t.cliqueAt k)

/-- on a valid tree pass `j` of the loop does not panic; it writes `η × ν` and then `ν × η`
where `ν`, `α` are supernode and separator of clique `j` and `η = etaOf ν[0] N α ν` -/
theorem psdCompleteStep_ok {t : SuperNodeTree} {N : Nat} (h : ValidTree t N) {j : Nat}
    (hj : j < t.nCliques) :
    ∃ (ν α : VSet) (i : Nat), ν.toList = t.snodeAt j ∧ α.toList = t.sepAt j ∧ i ∈ t.snodeAt j ∧
      (0 < ν.size ∧ i = ν.getD 0 0) ∧
      psdCompleteStep t N j =
        .ok (subsPositions (etaOf i N α ν) ν.toList ++ subsPositions ν.toList (etaOf i N α ν)) := by
  obtain ⟨ν, hν, hνl⟩ := getSnode_ok h hj
  obtain ⟨α, hα, hαl⟩ := getSeparators_ok h hj
  have hne : ν.toList ≠ [] := by rw [hνl]; exact h.snode_ne j hj
  have hsz : 0 < ν.size := by
    rcases Nat.eq_zero_or_pos ν.size with h0 | h0
    · exact absurd (by simpa using h0) hne
    · exact h0
  have hi : ν.getD 0 0 ∈ t.snodeAt j := by
    rw [← hνl, Array.mem_toList_iff]
    simp [Array.getD, hsz]
  have hνlt : ∀ v ∈ ν.toList, v < N := fun v hv =>
    h.clique_lt j hj v (ValidTree.snode_sub_clique j v (hνl ▸ hv))
  have hαlt : ∀ v ∈ α.toList, v < N := fun v hv =>
    h.clique_lt j hj v (ValidTree.sep_sub_clique j v (hαl ▸ hv))
  have hηlt : ∀ v ∈ etaOf (ν.getD 0 0) N α ν, v < N := fun v hv => (mem_etaOf.1 hv).2.1
  refine ⟨ν, α, ν.getD 0 0, hνl, hαl, hi, ⟨hsz, rfl⟩, ?_⟩
  unfold psdCompleteStep
  rw [hν, hα]
  simp only [bind, Except.bind, getE_ok' ν 0 _ 0 hsz]
  rw [checkIndex_ok _ (fun rc hrc => ⟨hαlt _ (mem_subsPositions.1 hrc).1, hαlt _ (mem_subsPositions.1 hrc).2⟩)]
  simp only []
  rw [checkIndex_ok _ (fun rc hrc => ⟨hαlt _ (mem_subsPositions.1 hrc).1, hνlt _ (mem_subsPositions.1 hrc).2⟩)]
  simp only []
  rw [checkIndex_ok _ (fun rc hrc => ⟨hηlt _ (mem_subsPositions.1 hrc).1, hαlt _ (mem_subsPositions.1 hrc).2⟩)]
  simp only []
  rw [checkIndex_ok _ (fun rc hrc => ⟨hηlt _ (mem_subsPositions.1 hrc).1, hνlt _ (mem_subsPositions.1 hrc).2⟩)]
  simp only []
  rw [checkIndex_ok _ (fun rc hrc => ⟨hνlt _ (mem_subsPositions.1 hrc).1, hηlt _ (mem_subsPositions.1 hrc).2⟩)]
  rfl

/-- every position written by pass `j` is outside the clique pattern -/
theorem psdCompleteStep_outside {t : SuperNodeTree} {N : Nat} (h : ValidTree t N) {j : Nat}
    (hj : j < t.nCliques) :
    ∃ ws, psdCompleteStep t N j = .ok ws ∧ ∀ rc ∈ ws, OutsidePattern t N rc := by
  obtain ⟨ν, α, i, hνl, hαl, hi, _, hok⟩ := psdCompleteStep_ok h hj
  refine ⟨_, hok, ?_⟩
  have hoff : t.snodeOffset j ≤ i := ((h.snode_consec j hj i).1 hi).1
  -- `x ∈ η`, `v ∈ ν`
  have key : ∀ x v, x ∈ etaOf i N α ν → v ∈ ν.toList →
      x < N ∧ v < N ∧ ∀ k, k < t.nCliques → ¬ (x ∈ t.cliqueAt k ∧ v ∈ t.cliqueAt k) := by
    intro x v hx hv
    obtain ⟨hix, hxN, hxα, hxν⟩ := mem_etaOf.1 hx
    have hvs : v ∈ t.snodeAt j := hνl ▸ hv
    have hxj : x ∉ t.cliqueAt j := by
      unfold SuperNodeTree.cliqueAt
      rw [List.mem_append, ← hνl, ← hαl]
      exact fun hc => hc.elim hxν hxα
    exact ⟨hxN, h.clique_lt j hj v (ValidTree.snode_sub_clique j v hvs),
      h.no_common_clique hj hvs (by omega) hxj⟩
  intro rc hrc
  rcases List.mem_append.1 hrc with h1 | h1
  · obtain ⟨hx, hv⟩ := mem_subsPositions.1 h1
    exact key _ _ hx hv
  · obtain ⟨hv, hx⟩ := mem_subsPositions.1 h1
    obtain ⟨a, b, c⟩ := key _ _ hx hv
    exact ⟨b, a, fun k hk hc => c k hk ⟨hc.2, hc.1⟩⟩

/-! ### the whole loop -/

/-- the positions written by pass `j` (`[]` if the pass panics) -/
def stepPositions (t : SuperNodeTree) (N j : Nat) : List (Nat × Nat) :=
  match psdCompleteStep t N j with
  | .ok w => w
  | .error _ => []

private theorem loop_ok (t : SuperNodeTree) (N : Nat) :
    ∀ (js : List Nat) (acc : List (Nat × Nat)),
      (∀ j ∈ js, ∃ w, psdCompleteStep t N j = .ok w) →
      js.foldlM (fun (acc : List (Nat × Nat)) j => do
        let w ← psdCompleteStep t N j
        pure (acc ++ w)) acc = .ok (acc ++ js.flatMap (stepPositions t N)) := by
  intro js
  induction js with
  | nil => intro acc _; simp [pure, Except.pure]
  | cons j js ih =>
    intro acc hall
    obtain ⟨w, hw⟩ := hall j (List.mem_cons_self ..)
    rw [List.foldlM_cons]
    simp only [hw, bind, Except.bind, pure, Except.pure]
    have := ih (acc ++ w) (fun j' hj' => hall j' (List.mem_cons_of_mem _ hj'))
    simp only [bind, Except.bind, pure, Except.pure] at this
    rw [this, List.flatMap_cons, ← List.append_assoc]
    simp [stepPositions, hw]

private theorem nodup_toList_of_getD_inj' (p : Array Nat)
    (h : ∀ i j, i < p.size → j < p.size → p.getD i 0 = p.getD j 0 → i = j) :
    p.toList.Nodup := by
  rw [List.nodup_iff_injective_getElem]
  intro ⟨i, hi⟩ ⟨j, hj⟩ e
  have hi' : i < p.size := by simpa using hi
  have hj' : j < p.size := by simpa using hj
  have : i = j := h i j hi' hj' (by simpa [Array.getD, hi', hj'] using e)
  exact Fin.ext this

private theorem mem_toList_getD (p : Array Nat) {x : Nat} (hx : x ∈ p.toList) :
    ∃ i, i < p.size ∧ p.getD i 0 = x := by
  obtain ⟨i, hi, rfl⟩ := List.mem_iff_getElem.1 hx
  have hi' : i < p.size := by simpa using hi
  exact ⟨i, hi', by simp [Array.getD, hi']⟩

/-- the `ordering` of a valid pattern is a permutation of `0 .. n-1` -/
theorem ValidPattern.ordering_perm {p : SPattern} (h : ValidPattern p) :
    p.ordering.toList.Perm (List.range p.ordering.size) := by
  apply perm_range_of_nodup_lt (nodup_toList_of_getD_inj' _ h.ord_inj)
  · intro v hv
    obtain ⟨i, hi, rfl⟩ := mem_toList_getD _ hv
    exact h.ord_lt i hi
  · simp

/-- **`psd_complete` on a valid pattern** (`N = |ordering|`): no index operation panics, the
list of written positions of `W` is the concatenation of the passes `j = n_cliques-2, …, 0`, and
every written position is outside the clique pattern. -/
theorem psdCompleteWritten_spec {p : SPattern} (h : ValidPattern p) :
    ∃ ws, psdCompleteWritten p p.ordering.size = .ok ws ∧
      ws = (List.range (p.sntree.nCliques - 1)).reverse.flatMap
              (stepPositions p.sntree p.ordering.size) ∧
      ∀ rc ∈ ws, OutsidePattern p.sntree p.ordering.size rc := by
  obtain ⟨q, hq, _, _, _, _⟩ := invperm_utils_spec p.ordering h.ordering_perm
  have hsteps : ∀ j ∈ (List.range (p.sntree.nCliques - 1)).reverse,
      ∃ w, psdCompleteStep p.sntree p.ordering.size j = .ok w := by
    intro j hj
    have hj' : j < p.sntree.nCliques - 1 := List.mem_range.1 (List.mem_reverse.1 hj)
    obtain ⟨w, hw, _⟩ := psdCompleteStep_outside h.tree (show j < p.sntree.nCliques by omega)
    exact ⟨w, hw⟩
  refine ⟨_, ?_, rfl, ?_⟩
  · unfold psdCompleteWritten
    rw [hq]
    simp only [bind, Except.bind]
    rw [checkIndex_ok _ (fun rc hrc => ⟨List.mem_range.1 (mem_subsPositions.1 hrc).1,
      List.mem_range.1 (mem_subsPositions.1 hrc).2⟩)]
    simp only []
    rw [checkIndex_ok _ (fun rc hrc => by
      obtain ⟨h1, h2⟩ := mem_subsPositions.1 hrc
      obtain ⟨i1, hi1, e1⟩ := mem_toList_getD _ h1
      obtain ⟨i2, hi2, e2⟩ := mem_toList_getD _ h2
      exact ⟨e1 ▸ h.ord_lt i1 hi1, e2 ▸ h.ord_lt i2 hi2⟩)]
    simp only []
    rw [if_neg (by have := h.tree.ncl_pos; omega)]
    have := loop_ok p.sntree p.ordering.size _ [] hsteps
    simp only [bind, Except.bind, List.nil_append] at this
    exact this
  · intro rc hrc
    obtain ⟨j, hj, hrcj⟩ := List.mem_flatMap.1 hrc
    have hj' : j < p.sntree.nCliques - 1 := List.mem_range.1 (List.mem_reverse.1 hj)
    obtain ⟨w, hw, hout⟩ := psdCompleteStep_outside h.tree (show j < p.sntree.nCliques by omega)
    have : stepPositions p.sntree p.ordering.size j = w := by simp [stepPositions, hw]
    rw [this] at hrcj
    exact hout rc hrcj

/-! ### back to the original coordinates -/

theorem linIdx_inj {N : Nat} {a b : Nat × Nat} (ha : a.1 < N) (hb : b.1 < N)
    (e : linIdx N a = linIdx N b) : a = b := by
  obtain ⟨r, c⟩ := a
  obtain ⟨r', c'⟩ := b
  unfold linIdx at e
  simp only at e ha hb
  have hN : 0 < N := by omega
  have h1 : (r + N * c) % N = (r' + N * c') % N := by rw [e]
  rw [Nat.add_mul_mod_self_left, Nat.add_mul_mod_self_left, Nat.mod_eq_of_lt ha,
    Nat.mod_eq_of_lt hb] at h1
  subst h1
  have h2 : N * c = N * c' := by omega
  have h3 : c = c' := Nat.eq_of_mul_eq_mul_left hN h2
  subst h3
  rfl

/-- **`psd_complete` on a valid pattern, in the coordinates of `A`**: no panic, and every entry
`A[(i, j)]` of the output that is a copy of a written position of `W` lies outside every clique
block `ordering[clique k] × ordering[clique k]` — so the output agrees with the input on all
clique blocks. -/
theorem psdCompleteChanged_spec {p : SPattern} (h : ValidPattern p) :
    ∃ cs, psdCompleteChanged p p.ordering.size = .ok cs ∧
      ∀ c ∈ cs, ∃ i j, i < p.ordering.size ∧ j < p.ordering.size ∧
        c = i + p.ordering.size * j ∧
        ∀ k, k < p.sntree.nCliques → ∀ x ∈ p.sntree.cliqueAt k, ∀ y ∈ p.sntree.cliqueAt k,
          ¬ (p.ordering.getD x 0 = i ∧ p.ordering.getD y 0 = j) := by
  obtain ⟨ws, hws, _, hout⟩ := psdCompleteWritten_spec h
  obtain ⟨q, hq, hqs, hq1, hq2, _⟩ := invperm_utils_spec p.ordering h.ordering_perm
  refine ⟨((subsPositions (List.range q.size) (List.range q.size)).filter (fun ij =>
    (ws.map (linIdx p.ordering.size)).contains
      (linIdx p.ordering.size (q.getD ij.1 0, q.getD ij.2 0)))).map (linIdx p.ordering.size),
    ?_, ?_⟩
  · unfold psdCompleteChanged
    rw [hws, hq]
    simp only [bind, Except.bind]
    rw [checkIndex_ok _ (fun rc hrc => by
      rw [hqs] at hrc
      exact ⟨List.mem_range.1 (mem_subsPositions.1 hrc).1,
        List.mem_range.1 (mem_subsPositions.1 hrc).2⟩)]
    simp only []
    rw [checkIndex_ok _ (fun rc hrc => by
      obtain ⟨h1, h2⟩ := mem_subsPositions.1 hrc
      obtain ⟨i1, hi1, e1⟩ := mem_toList_getD _ h1
      obtain ⟨i2, hi2, e2⟩ := mem_toList_getD _ h2
      exact ⟨e1 ▸ (hq2 i1 (by omega)).1, e2 ▸ (hq2 i2 (by omega)).1⟩)]
    rfl
  · intro c hc
    obtain ⟨ij, hij, rfl⟩ := List.mem_map.1 hc
    obtain ⟨hpos, hcont⟩ := List.mem_filter.1 hij
    rw [hqs] at hpos
    have hi : ij.1 < p.ordering.size := List.mem_range.1 (mem_subsPositions.1 hpos).1
    have hj : ij.2 < p.ordering.size := List.mem_range.1 (mem_subsPositions.1 hpos).2
    refine ⟨ij.1, ij.2, hi, hj, rfl, ?_⟩
    have hmem : linIdx p.ordering.size (q.getD ij.1 0, q.getD ij.2 0) ∈
        ws.map (linIdx p.ordering.size) := by simpa using hcont
    obtain ⟨rc, hrc, e⟩ := List.mem_map.1 hmem
    obtain ⟨hr1, _, hno⟩ := hout rc hrc
    have : rc = (q.getD ij.1 0, q.getD ij.2 0) := linIdx_inj hr1 (hq2 ij.1 hi).1 e
    subst this
    intro k hk x hx y hy ⟨ex, ey⟩
    have hxN : x < p.ordering.size := h.tree.clique_lt k hk x hx
    have hyN : y < p.ordering.size := h.tree.clique_lt k hk y hy
    have e1 : q.getD ij.1 0 = x := by rw [← ex]; exact hq1 x hxN
    have e2 : q.getD ij.2 0 = y := by rw [← ey]; exact hq1 y hyN
    exact hno k hk ⟨by simpa [e1] using hx, by simpa [e2] using hy⟩

/-! ### non-vacuity -/

example : ∃ ws, psdCompleteWritten exPattern exPattern.ordering.size = .ok ws ∧
    ∀ rc ∈ ws, OutsidePattern exPattern.sntree exPattern.ordering.size rc := by
  obtain ⟨ws, h1, _, h2⟩ := psdCompleteWritten_spec exPattern_valid
  exact ⟨ws, h1, h2⟩

/-- on the path `0 — 1 — 2` the completion writes `W[2,0]` and `W[0,2]` -/
example : psdCompleteWritten exPattern 3 = .ok [(2, 0), (0, 2)] := by rfl

example : psdCompleteChanged exPattern 3 = .ok [2, 6] := by rfl

example : ∃ v x, v ∈ exTreeV.snodeAt 0 ∧ exTreeV.snodeOffset 0 ≤ x ∧ x ∉ exTreeV.cliqueAt 0 ∧
    ∀ k, k < exTreeV.nCliques → ¬ (x ∈ exTreeV.cliqueAt k ∧ v ∈ exTreeV.cliqueAt k) :=
  ⟨0, 2, by decide, by decide, by decide,
    exTreeV_valid.no_common_clique (j := 0) (by decide) (by decide) (by decide) (by decide)⟩

/-! ### every position outside the pattern is written -/

/-- **the completion fills every position outside the clique pattern**: on a valid pattern
whose supernodes are stored with their smallest vertex first (as `reorder_snode_consecutively`
leaves them: `ν = k, k+1, …`), every `(x, y)` that lies in no clique block is written. -/
theorem psdCompleteWritten_covers {p : SPattern} (h : ValidPattern p)
    (hfirst : ∀ j, j < p.sntree.nCliques →
      (p.sntree.snodeAt j).head? = some (p.sntree.snodeOffset j))
    {ws : List (Nat × Nat)} (hws : psdCompleteWritten p p.ordering.size = .ok ws) :
    ∀ rc : Nat × Nat, OutsidePattern p.sntree p.ordering.size rc → rc ∈ ws := by
  obtain ⟨ws', hws', hwsEq, _⟩ := psdCompleteWritten_spec h
  have : ws' = ws := Except.ok.inj (hws'.symm.trans hws)
  subst this
  have ht := h.tree
  -- the case `y < x`
  have key : ∀ x y, y < x → x < p.ordering.size →
      (∀ k, k < p.sntree.nCliques → ¬ (x ∈ p.sntree.cliqueAt k ∧ y ∈ p.sntree.cliqueAt k)) →
      (x, y) ∈ ws' ∧ (y, x) ∈ ws' := by
    intro x y hyx hxN hno
    obtain ⟨j, hj, hyj⟩ := ht.snode_cover y (by omega)
    obtain ⟨m, hm, hxm⟩ := ht.snode_cover x hxN
    have hoffy := ((ht.snode_consec j hj y).1 hyj).1
    have hxj : x ∉ p.sntree.cliqueAt j := fun hx =>
      hno j hj ⟨hx, ValidTree.snode_sub_clique j y hyj⟩
    have hj1 : j + 1 < p.sntree.nCliques := by
      by_contra hge
      rcases Nat.lt_or_ge m j with hmj | hmj
      · have := ht.snode_lt_offset hj hmj hxm
        omega
      · have : m = j := by omega
        subst this
        exact hxj (ValidTree.snode_sub_clique m x hxm)
    obtain ⟨ν, α, i, hνl, hαl, _, ⟨hsz, hi⟩, hok⟩ := psdCompleteStep_ok ht hj
    have hi' : i = p.sntree.snodeOffset j := by
      have h1 := hfirst j hj
      rw [← hνl] at h1
      have h2 : ν.toList.head? = some (ν.getD 0 0) := by
        rw [List.head?_eq_getElem?]
        simp [Array.getD, hsz]
      rw [h2] at h1
      rw [hi]
      exact Option.some.inj h1
    have hxη : x ∈ etaOf i p.ordering.size α ν := by
      refine mem_etaOf.2 ⟨by omega, hxN, ?_, ?_⟩
      · intro hc
        exact hxj (ValidTree.sep_sub_clique j x (hαl ▸ hc))
      · intro hc
        exact hxj (ValidTree.snode_sub_clique j x (hνl ▸ hc))
    have hyν : y ∈ ν.toList := hνl ▸ hyj
    have hjmem : j ∈ (List.range (p.sntree.nCliques - 1)).reverse :=
      List.mem_reverse.2 (List.mem_range.2 (by omega))
    have hsp : stepPositions p.sntree p.ordering.size j =
        subsPositions (etaOf i p.ordering.size α ν) ν.toList ++
          subsPositions ν.toList (etaOf i p.ordering.size α ν) := by
      simp [stepPositions, hok]
    rw [hwsEq]
    constructor
    · refine List.mem_flatMap.2 ⟨j, hjmem, ?_⟩
      rw [hsp]
      exact List.mem_append_left _ (mem_subsPositions.2 ⟨hxη, hyν⟩)
    · refine List.mem_flatMap.2 ⟨j, hjmem, ?_⟩
      rw [hsp]
      exact List.mem_append_right _ (mem_subsPositions.2 ⟨hyν, hxη⟩)
  rintro ⟨x, y⟩ ⟨hx, hy, hno⟩
  simp only at hx hy hno
  rcases Nat.lt_trichotomy x y with hlt | heq | hgt
  · exact (key y x hlt hy (fun k hk hc => hno k hk ⟨hc.2, hc.1⟩)).2
  · exfalso
    subst heq
    obtain ⟨m, hm, hxm⟩ := ht.snode_cover x hx
    exact hno m hm ⟨ValidTree.snode_sub_clique m x hxm, ValidTree.snode_sub_clique m x hxm⟩
  · exact (key x y hgt hx hno).1

example : ∀ rc : Nat × Nat, OutsidePattern exPattern.sntree exPattern.ordering.size rc →
    rc ∈ [(2, 0), (0, 2)] :=
  psdCompleteWritten_covers exPattern_valid (by
    intro j hj
    have : j = 0 ∨ j = 1 := by
      have : j < 2 := hj
      omega
    rcases this with rfl | rfl <;> rfl) (by rfl)


/-! ### the data-level model -/

section datalemmas
variable {α : Type}

theorem mem_subsPositionsIdx {rows cols : List Nat} {q : (Nat × Nat) × (Nat × Nat)} :
    q ∈ subsPositionsIdx rows cols ↔ rows[q.2.1]? = some q.1.1 ∧ cols[q.2.2]? = some q.1.2 := by
  obtain ⟨⟨r, c⟩, ⟨i, j⟩⟩ := q
  unfold subsPositionsIdx
  simp only [List.mem_flatMap, List.mem_map, Prod.mk.injEq]
  constructor
  · rintro ⟨cj, hcj, ri, hri, ⟨rfl, rfl⟩, rfl, rfl⟩
    exact ⟨List.mem_zipIdx_iff_getElem?.1 hri, List.mem_zipIdx_iff_getElem?.1 hcj⟩
  · rintro ⟨hr, hc⟩
    exact ⟨(c, j), List.mem_zipIdx_iff_getElem?.2 hc, (r, i), List.mem_zipIdx_iff_getElem?.2 hr,
      ⟨rfl, rfl⟩, rfl, rfl⟩

theorem mem_subsPositionsIdx_pos {rows cols : List Nat} {q : (Nat × Nat) × (Nat × Nat)}
    (h : q ∈ subsPositionsIdx rows cols) : q.1 ∈ subsPositions rows cols := by
  obtain ⟨h1, h2⟩ := mem_subsPositionsIdx.1 h
  exact mem_subsPositions.2 ⟨List.mem_of_getElem? h1, List.mem_of_getElem? h2⟩

private theorem setE_ok'' {β : Type} (xs : Array β) (i : Nat) (v : β) (s : String)
    (h : i < xs.size) : setE xs i v s = .ok (xs.setIfInBounds i v) := by
  unfold setE
  simp [h, Array.setIfInBounds, pure, Except.pure]

/-- `writeAll` with all positions in range: succeeds, keeps the size, leaves the cells that are
not addressed alone, and every addressed cell holds the value of one of the writes to it -/
theorem writeAll_spec (m : Nat) (site : String) :
    ∀ (ws : List ((Nat × Nat) × α)) (data : Array α),
      (∀ w ∈ ws, linIdx m w.1 < data.size) →
      ∃ d', writeAll m data ws site = .ok d' ∧ d'.size = data.size ∧
        (∀ k, (∀ w ∈ ws, linIdx m w.1 ≠ k) → d'[k]? = data[k]?) ∧
        (∀ w ∈ ws, ∃ w' ∈ ws, linIdx m w'.1 = linIdx m w.1 ∧ d'[linIdx m w.1]? = some w'.2) := by
  intro ws
  induction ws with
  | nil =>
    intro data _
    exact ⟨data, rfl, rfl, fun _ _ => rfl, fun w hw => absurd hw List.not_mem_nil⟩
  | cons w ws ih =>
    intro data hall
    have hw : linIdx m w.1 < data.size := hall w (List.mem_cons_self ..)
    obtain ⟨d', hd', hsz, hframe, hlast⟩ := ih (data.setIfInBounds (linIdx m w.1) w.2)
      (fun w' hw' => by simpa using hall w' (List.mem_cons_of_mem _ hw'))
    refine ⟨d', ?_, by simpa using hsz, ?_, ?_⟩
    · unfold writeAll at hd' ⊢
      rw [List.foldlM_cons, setE_ok'' _ _ _ _ hw]
      exact hd'
    · intro k hk
      rw [hframe k (fun w' hw' => hk w' (List.mem_cons_of_mem _ hw'))]
      have : linIdx m w.1 ≠ k := hk w (List.mem_cons_self ..)
      simp [this]
    · intro w0 hw0
      rcases List.mem_cons.1 hw0 with rfl | hw0
      · by_cases hex : ∃ w'' ∈ ws, linIdx m w''.1 = linIdx m w0.1
        · obtain ⟨w'', hw'', e⟩ := hex
          obtain ⟨w', hw', e', hv⟩ := hlast w'' hw''
          exact ⟨w', List.mem_cons_of_mem _ hw', e'.trans e, e ▸ hv⟩
        · refine ⟨w0, List.mem_cons_self .., rfl, ?_⟩
          rw [hframe _ (fun w' hw' e => hex ⟨w', hw', e⟩)]
          simp [hw]
      · obtain ⟨w', hw', e', hv⟩ := hlast w0 hw0
        exact ⟨w', List.mem_cons_of_mem _ hw', e', hv⟩

private theorem toList_getElem?_getD (a : Array Nat) (i : Nat) (h : i < a.size) :
    a.toList[i]? = some (a.getD i 0) := by
  simp [Array.getD, h]

private theorem mapM_ok' {β γ : Type} (f : β → MErr γ) (g : β → γ) :
    ∀ (l : List β), (∀ a ∈ l, f a = .ok (g a)) → l.mapM f = .ok (l.map g) := by
  intro l
  induction l with
  | nil => intro _; rfl
  | cons a l ih =>
    intro h
    rw [List.mapM_cons, h a (List.mem_cons_self ..), ih (fun b hb => h b (List.mem_cons_of_mem _ hb))]
    rfl

/-- `dst.subsref(src, rows, cols)` on square `N × N` storage with `|rows|, |cols| ≤ N` and all
source indices below `N`: `dst[(i, j)] = src[(rows[i], cols[j])]`, everything else unchanged -/
theorem subsrefInto_spec [Inhabited α] (N : Nat) (dst src : Array α) (rows cols : List Nat)
    (site : String)
    (hd : dst.size = N * N) (hs : src.size = N * N) (hrl : rows.length ≤ N) (hcl : cols.length ≤ N)
    (hr : ∀ r ∈ rows, r < N) (hc : ∀ c ∈ cols, c < N) :
    ∃ d', subsrefInto N dst N src rows cols site = .ok d' ∧ d'.size = N * N ∧
      (∀ i j r c, rows[i]? = some r → cols[j]? = some c →
        d'[linIdx N (i, j)]? = src[linIdx N (r, c)]?) ∧
      (∀ k, (∀ i j, i < rows.length → j < cols.length → linIdx N (i, j) ≠ k) → d'[k]? = dst[k]?) := by
  have hidx : ∀ q ∈ subsPositionsIdx rows cols,
      q.1.1 < N ∧ q.1.2 < N ∧ q.2.1 < rows.length ∧ q.2.2 < cols.length := by
    intro q hq
    obtain ⟨h1, h2⟩ := mem_subsPositionsIdx.1 hq
    exact ⟨hr _ (List.mem_of_getElem? h1), hc _ (List.mem_of_getElem? h2),
      (List.getElem?_eq_some_iff.1 h1).1, (List.getElem?_eq_some_iff.1 h2).1⟩
  have hmap : (subsPositionsIdx rows cols).mapM (fun q => do
        let v ← getE src (linIdx N q.1) site
        pure (q.2, v)) =
      .ok ((subsPositionsIdx rows cols).map (fun q => (q.2, src.getD (linIdx N q.1) default))) := by
    apply mapM_ok'
    intro q hq
    obtain ⟨h1, h2, _, _⟩ := hidx q hq
    have : linIdx N q.1 < src.size := by rw [hs]; exact lin_lt h1 h2
    rw [getE_ok' src _ _ default this]
    rfl
  obtain ⟨d', hd', hsz, hframe, hlast⟩ := writeAll_spec N site
    ((subsPositionsIdx rows cols).map (fun q => (q.2, src.getD (linIdx N q.1) default))) dst
    (by
      intro w hw
      obtain ⟨q, hq, rfl⟩ := List.mem_map.1 hw
      obtain ⟨_, _, h3, h4⟩ := hidx q hq
      rw [hd]
      exact lin_lt (Nat.lt_of_lt_of_le h3 hrl) (Nat.lt_of_lt_of_le h4 hcl))
  refine ⟨d', ?_, by rw [hsz, hd], ?_, ?_⟩
  · unfold subsrefInto
    rw [hmap]
    exact hd'
  · intro i j r c hri hcj
    have hq : ((r, c), (i, j)) ∈ subsPositionsIdx rows cols := mem_subsPositionsIdx.2 ⟨hri, hcj⟩
    obtain ⟨w', hw', e', hv⟩ := hlast ((i, j), src.getD (linIdx N (r, c)) default)
      (List.mem_map.2 ⟨_, hq, rfl⟩)
    obtain ⟨q', hq', rfl⟩ := List.mem_map.1 hw'
    obtain ⟨_, _, h3, h4⟩ := hidx q' hq'
    have hi : i < rows.length := (List.getElem?_eq_some_iff.1 hri).1
    have e2 : q'.2 = (i, j) := linIdx_inj (by simpa using (by omega : q'.2.1 < N)) (by simpa using (by omega : i < N)) e'
    obtain ⟨h1', h2'⟩ := mem_subsPositionsIdx.1 hq'
    rw [e2] at h1' h2'
    simp only at h1' h2'
    have er : q'.1.1 = r := Option.some.inj (h1'.symm.trans hri)
    have ec : q'.1.2 = c := Option.some.inj (h2'.symm.trans hcj)
    have eq1 : q'.1 = (r, c) := Prod.ext er ec
    rw [hv]
    simp only [eq1]
    have hlt : linIdx N (r, c) < src.size := by
      rw [hs]; exact lin_lt (hr r (List.mem_of_getElem? hri)) (hc c (List.mem_of_getElem? hcj))
    simp [Array.getD, hlt]
  · intro k hk
    apply hframe
    intro w hw
    obtain ⟨q, hq, rfl⟩ := List.mem_map.1 hw
    obtain ⟨_, _, h3, h4⟩ := hidx q hq
    exact hk q.2.1 q.2.2 h3 h4

/-- the array after pass `j` for given external values `f` (`psdCompleteStepData` is
`ext j W >>= fun f => pure (..)` on a valid tree) -/
theorem psdCompleteStepData_spec {α : Type} (ext : Nat → Array α → MErr (Nat × Nat → α))
    {t : SuperNodeTree} {N : Nat} (h : ValidTree t N) {j : Nat} (hj : j < t.nCliques)
    (W : Array α) (hW : W.size = N * N) :
    ∃ g : (Nat × Nat → α) → Array α,
      psdCompleteStepData ext t N j W = (ext j W >>= fun f => pure (g f)) ∧
      ∀ f, (g f).size = N * N ∧
        ∀ k, k ∉ (stepPositions t N j).map (linIdx N) → (g f)[k]? = W[k]? := by
  obtain ⟨ν, α', i, hνl, hαl, hi, ⟨hsz, rfl⟩, hok⟩ := psdCompleteStep_ok h hj
  have hν : t.getSnode j = .ok ν := by
    obtain ⟨ν2, hν, hνl2⟩ := getSnode_ok h hj
    rw [hν, Array.toList_inj.1 (hνl.trans hνl2.symm)]
  have hα : t.getSeparators j = .ok α' := by
    obtain ⟨α2, hα, hαl2⟩ := getSeparators_ok h hj
    rw [hα, Array.toList_inj.1 (hαl.trans hαl2.symm)]
  have hsp : stepPositions t N j = subsPositions (etaOf (ν.getD 0 0) N α' ν) ν.toList ++
      subsPositions ν.toList (etaOf (ν.getD 0 0) N α' ν) := by
    simp [stepPositions, hok]
  have hνlt : ∀ v ∈ ν.toList, v < N := fun v hv =>
    h.clique_lt j hj v (ValidTree.snode_sub_clique j v (hνl ▸ hv))
  have hαlt : ∀ v ∈ α'.toList, v < N := fun v hv =>
    h.clique_lt j hj v (ValidTree.sep_sub_clique j v (hαl ▸ hv))
  have hηlt : ∀ v ∈ etaOf (ν.getD 0 0) N α' ν, v < N := fun v hv => (mem_etaOf.1 hv).2.1
  -- the two `subsasgn`
  have w1 : ∀ (f : Nat × Nat → α),
      ∀ q ∈ (subsPositionsIdx (etaOf (ν.getD 0 0) N α' ν) ν.toList).map (fun q => (q.1, f q.2)),
        linIdx N q.1 < W.size := by
    intro f q hq
    obtain ⟨q', hq', rfl⟩ := List.mem_map.1 hq
    obtain ⟨h1, h2⟩ := mem_subsPositions.1 (mem_subsPositionsIdx_pos hq')
    rw [hW]; exact lin_lt (hηlt _ h1) (hνlt _ h2)
  have w2 : ∀ (f : Nat × Nat → α) (W1 : Array α), W1.size = W.size →
      ∀ q ∈ (subsPositionsIdx ν.toList (etaOf (ν.getD 0 0) N α' ν)).map
          (fun q => (q.1, f (q.2.2, q.2.1))),
        linIdx N q.1 < W1.size := by
    intro f W1 hW1 q hq
    obtain ⟨q', hq', rfl⟩ := List.mem_map.1 hq
    obtain ⟨h1, h2⟩ := mem_subsPositions.1 (mem_subsPositionsIdx_pos hq')
    rw [hW1, hW]; exact lin_lt (hνlt _ h1) (hηlt _ h2)
  -- result as a function of `f`
  let W1 : (Nat × Nat → α) → Array α := fun f =>
    (writeAll_spec N "psd_complete: W[η,ν] =" _ W (w1 f)).choose
  have hW1 : ∀ f, writeAll N W ((subsPositionsIdx (etaOf (ν.getD 0 0) N α' ν) ν.toList).map
        (fun q => (q.1, f q.2))) "psd_complete: W[η,ν] =" = .ok (W1 f) ∧ (W1 f).size = W.size ∧
      (∀ k, (∀ w ∈ (subsPositionsIdx (etaOf (ν.getD 0 0) N α' ν) ν.toList).map
        (fun q => (q.1, f q.2)), linIdx N w.1 ≠ k) → (W1 f)[k]? = W[k]?) := fun f =>
    let hs := (writeAll_spec N "psd_complete: W[η,ν] =" _ W (w1 f)).choose_spec
    ⟨hs.1, hs.2.1, hs.2.2.1⟩
  let W2 : (Nat × Nat → α) → Array α := fun f =>
    (writeAll_spec N "psd_complete: W[ν,η] =" _ (W1 f) (w2 f (W1 f) (hW1 f).2.1)).choose
  have hW2 : ∀ f, writeAll N (W1 f) ((subsPositionsIdx ν.toList (etaOf (ν.getD 0 0) N α' ν)).map
        (fun q => (q.1, f (q.2.2, q.2.1)))) "psd_complete: W[ν,η] =" = .ok (W2 f) ∧
      (W2 f).size = (W1 f).size ∧
      (∀ k, (∀ w ∈ (subsPositionsIdx ν.toList (etaOf (ν.getD 0 0) N α' ν)).map
        (fun q => (q.1, f (q.2.2, q.2.1))), linIdx N w.1 ≠ k) → (W2 f)[k]? = (W1 f)[k]?) := fun f =>
    let hs := (writeAll_spec N "psd_complete: W[ν,η] =" _ (W1 f)
      (w2 f (W1 f) (hW1 f).2.1)).choose_spec
    ⟨hs.1, hs.2.1, hs.2.2.1⟩
  refine ⟨W2, ?_, ?_⟩
  · unfold psdCompleteStepData
    rw [hν, hα]
    simp only [bind, Except.bind, getE_ok' ν 0 _ 0 hsz, hW]
    rw [checkIndex_ok _ (fun rc hrc => ⟨hαlt _ (mem_subsPositions.1 hrc).1, hαlt _ (mem_subsPositions.1 hrc).2⟩)]
    simp only []
    rw [checkIndex_ok _ (fun rc hrc => ⟨hαlt _ (mem_subsPositions.1 hrc).1, hνlt _ (mem_subsPositions.1 hrc).2⟩)]
    simp only []
    rw [checkIndex_ok _ (fun rc hrc => ⟨hηlt _ (mem_subsPositions.1 hrc).1, hαlt _ (mem_subsPositions.1 hrc).2⟩)]
    simp only []
    cases hext : ext j W with
    | error e => rfl
    | ok f =>
      simp only []
      rw [(hW1 f).1]
      simp only []
      rw [(hW2 f).1]
      rfl
  · intro f
    refine ⟨by rw [(hW2 f).2.1, (hW1 f).2.1, hW], ?_⟩
    intro k hk
    rw [hsp, List.map_append, List.mem_append, not_or] at hk
    rw [(hW2 f).2.2 k, (hW1 f).2.2 k]
    · intro w hw e
      obtain ⟨q', hq', rfl⟩ := List.mem_map.1 hw
      exact hk.1 (List.mem_map.2 ⟨q'.1, mem_subsPositionsIdx_pos hq', e⟩)
    · intro w hw e
      obtain ⟨q', hq', rfl⟩ := List.mem_map.1 hw
      exact hk.2 (List.mem_map.2 ⟨q'.1, mem_subsPositionsIdx_pos hq', e⟩)

theorem dataLoop_frame {α : Type} (ext : Nat → Array α → MErr (Nat × Nat → α))
    {t : SuperNodeTree} {N : Nat} (h : ValidTree t N) :
    ∀ (js : List Nat), (∀ j ∈ js, j < t.nCliques) → ∀ (W W' : Array α), W.size = N * N →
      js.foldlM (fun W j => psdCompleteStepData ext t N j W) W = .ok W' →
      W'.size = N * N ∧
        ∀ k, k ∉ (js.flatMap (stepPositions t N)).map (linIdx N) → W'[k]? = W[k]? := by
  intro js
  induction js with
  | nil =>
    intro _ W W' hW hf
    have : W = W' := by simpa [pure, Except.pure] using hf
    subst this
    exact ⟨hW, fun _ _ => rfl⟩
  | cons j js ih =>
    intro hjs W W' hW hf
    obtain ⟨g, hstep, hg⟩ := psdCompleteStepData_spec ext h (hjs j (List.mem_cons_self ..)) W hW
    rw [List.foldlM_cons, hstep] at hf
    cases hext : ext j W with
    | error e => rw [hext] at hf; exact absurd hf (by simp [bind, Except.bind])
    | ok f =>
      rw [hext] at hf
      simp only [bind, Except.bind, pure, Except.pure] at hf
      obtain ⟨hs1, hfr1⟩ := hg f
      obtain ⟨hs', hfr'⟩ := ih (fun j' hj' => hjs j' (List.mem_cons_of_mem _ hj')) (g f) W' hs1 hf
      refine ⟨hs', fun k hk => ?_⟩
      rw [List.flatMap_cons, List.map_append, List.mem_append, not_or] at hk
      rw [hfr' k hk.2, hfr1 k hk.1]

/-- the loop does not panic when the external solves do not -/
theorem dataLoop_ok {α : Type} (ext : Nat → Array α → MErr (Nat × Nat → α))
    (hext : ∀ j W, ∃ f, ext j W = .ok f)
    {t : SuperNodeTree} {N : Nat} (h : ValidTree t N) :
    ∀ (js : List Nat), (∀ j ∈ js, j < t.nCliques) → ∀ (W : Array α), W.size = N * N →
      ∃ W', js.foldlM (fun W j => psdCompleteStepData ext t N j W) W = .ok W' := by
  intro js
  induction js with
  | nil => intro _ W _; exact ⟨W, rfl⟩
  | cons j js ih =>
    intro hjs W hW
    obtain ⟨g, hstep, hg⟩ := psdCompleteStepData_spec ext h (hjs j (List.mem_cons_self ..)) W hW
    obtain ⟨f, hf⟩ := hext j W
    obtain ⟨W', hW'⟩ := ih (fun j' hj' => hjs j' (List.mem_cons_of_mem _ hj')) (g f) (hg f).1
    refine ⟨W', ?_⟩
    rw [List.foldlM_cons, hstep, hf]
    exact hW'

/-- **`psd_complete` at the level of data** on a valid pattern, for *any* outcome of the external
factor/solve/product step: if the call returns `B` then `B` is again `N × N` and every entry of
`B` whose position is not in the list `psdCompleteChanged` equals the entry of the input `A`. -/
theorem psdComplete_frame {α : Type} [OfNat α 0] (ext : Nat → Array α → MErr (Nat × Nat → α))
    {p : SPattern} (h : ValidPattern p) (A B : Array α)
    (hB : psdComplete ext A p.ordering.size p = .ok B) :
    A.size = p.ordering.size * p.ordering.size ∧ B.size = p.ordering.size * p.ordering.size ∧
      ∃ cs, psdCompleteChanged p p.ordering.size = .ok cs ∧
        ∀ i j, i < p.ordering.size → j < p.ordering.size →
          linIdx p.ordering.size (i, j) ∉ cs →
          B[linIdx p.ordering.size (i, j)]? = A[linIdx p.ordering.size (i, j)]? := by
  have : Inhabited α := ⟨0⟩
  obtain ⟨ws, hws, hwsEq, hout⟩ := psdCompleteWritten_spec h
  obtain ⟨q, hq, hqs, hq1, hq2, _⟩ := invperm_utils_spec p.ordering h.ordering_perm
  obtain ⟨cs, hcs, _⟩ := psdCompleteChanged_spec h
  generalize hN : p.ordering.size = N at *
  have hA : A.size = N * N := by
    by_contra hne
    unfold psdComplete at hB
    rw [if_pos hne] at hB
    exact absurd hB (by simp [throw, throwThe, MonadExceptOf.throw])
  have hordlt : ∀ r ∈ p.ordering.toList, r < N := by
    intro r hr
    obtain ⟨i, hi, rfl⟩ := mem_toList_getD _ hr
    exact hN ▸ h.ord_lt i (hN ▸ hi)
  have hqlt : ∀ r ∈ q.toList, r < N := by
    intro r hr
    obtain ⟨i, hi, rfl⟩ := mem_toList_getD _ hr
    exact (hq2 i (by omega)).1
  obtain ⟨W0, hW0, hW0s, hW0v, _⟩ := subsrefInto_spec N (Array.replicate (N * N) (0 : α)) A
    p.ordering.toList p.ordering.toList "psd_complete: W = A[p,p]" (by simp) hA
    (by simp [hN]) (by simp [hN]) hordlt hordlt
  unfold psdComplete at hB
  rw [if_neg (by simpa using hA), hq] at hB
  simp only [bind, Except.bind] at hB
  rw [hW0] at hB
  simp only [] at hB
  rw [if_neg (by have := h.tree.ncl_pos; omega)] at hB
  generalize hloop : List.foldlM (fun W j => psdCompleteStepData ext p.sntree N j W) W0
    (List.range (p.sntree.nCliques - 1)).reverse = res at hB
  cases res with
  | error e => exact absurd hB (by simp)
  | ok W' =>
    simp only [] at hB
    have hjs : ∀ j ∈ (List.range (p.sntree.nCliques - 1)).reverse, j < p.sntree.nCliques := by
      intro j hj
      have := List.mem_range.1 (List.mem_reverse.1 hj)
      omega
    obtain ⟨hW's, hW'fr⟩ := dataLoop_frame ext (hN ▸ h.tree) _ hjs W0 W' hW0s hloop
    obtain ⟨B', hB', hB's, hB'v, _⟩ := subsrefInto_spec N A W' q.toList q.toList
      "psd_complete: A = W[ip,ip]" hA hW's (by simp [hqs]) (by simp [hqs]) hqlt hqlt
    rw [hB'] at hB
    have : B' = B := by simpa using hB
    subst this
    refine ⟨hA, hB's, cs, hcs, ?_⟩
    intro i j hi hj hnot
    have hqi : q.toList[i]? = some (q.getD i 0) := toList_getElem?_getD q i (by omega)
    have hqj : q.toList[j]? = some (q.getD j 0) := toList_getElem?_getD q j (by omega)
    rw [hB'v i j _ _ hqi hqj]
    -- the source position was not written
    have hnw : linIdx N (q.getD i 0, q.getD j 0) ∉ ws.map (linIdx N) := by
      intro hmem
      apply hnot
      unfold psdCompleteChanged at hcs
      rw [hws, hq] at hcs
      simp only [bind, Except.bind] at hcs
      rw [checkIndex_ok _ (fun rc hrc => by
        rw [hqs] at hrc
        exact ⟨List.mem_range.1 (mem_subsPositions.1 hrc).1,
          List.mem_range.1 (mem_subsPositions.1 hrc).2⟩)] at hcs
      simp only [] at hcs
      rw [checkIndex_ok _ (fun rc hrc => ⟨hqlt _ (mem_subsPositions.1 hrc).1,
        hqlt _ (mem_subsPositions.1 hrc).2⟩)] at hcs
      have hcs' := Except.ok.inj hcs
      rw [← hcs']
      refine List.mem_map.2 ⟨(i, j), List.mem_filter.2 ⟨mem_subsPositions.2
        ⟨List.mem_range.2 (by omega), List.mem_range.2 (by omega)⟩, ?_⟩, rfl⟩
      simpa using hmem
    rw [hW'fr _ (by rw [← hwsEq]; exact hnw)]
    have hpi : p.ordering.toList[q.getD i 0]? = some (p.ordering.getD (q.getD i 0) 0) :=
      toList_getElem?_getD _ _ (by rw [hN]; exact (hq2 i hi).1)
    have hpj : p.ordering.toList[q.getD j 0]? = some (p.ordering.getD (q.getD j 0) 0) :=
      toList_getElem?_getD _ _ (by rw [hN]; exact (hq2 j hj).1)
    rw [hW0v _ _ _ _ hpi hpj, (hq2 i hi).2, (hq2 j hj).2]

/-- **`completion_agrees` (data level)**: whatever the external factor/solve/product step
returns, the matrix returned by `psd_complete` on a valid pattern has the entries of the input on
every clique block `ordering[clique k] × ordering[clique k]`. -/
theorem psdComplete_agrees {α : Type} [OfNat α 0] (ext : Nat → Array α → MErr (Nat × Nat → α))
    {p : SPattern} (h : ValidPattern p) (A B : Array α)
    (hB : psdComplete ext A p.ordering.size p = .ok B) :
    ∀ k, k < p.sntree.nCliques → ∀ x ∈ p.sntree.cliqueAt k, ∀ y ∈ p.sntree.cliqueAt k,
      B[linIdx p.ordering.size (p.ordering.getD x 0, p.ordering.getD y 0)]? =
        A[linIdx p.ordering.size (p.ordering.getD x 0, p.ordering.getD y 0)]? := by
  obtain ⟨_, _, cs, hcs, hfr⟩ := psdComplete_frame ext h A B hB
  obtain ⟨cs', hcs', hspec⟩ := psdCompleteChanged_spec h
  have : cs' = cs := Except.ok.inj (hcs'.symm.trans hcs)
  subst this
  intro k hk x hx y hy
  have hxN : x < p.ordering.size := h.tree.clique_lt k hk x hx
  have hyN : y < p.ordering.size := h.tree.clique_lt k hk y hy
  apply hfr _ _ (h.ord_lt x hxN) (h.ord_lt y hyN)
  intro hmem
  obtain ⟨i, j, hi, _, e, hno⟩ := hspec _ hmem
  have e' : (p.ordering.getD x 0, p.ordering.getD y 0) = (i, j) :=
    linIdx_inj (N := p.ordering.size) (h.ord_lt x hxN) hi e
  exact hno k hk x hx y hy ⟨congrArg Prod.fst e', congrArg Prod.snd e'⟩

/-- on a valid pattern with an `N × N` input no index operation of `psd_complete` panics: the
call returns as soon as the external factor/solve/product steps do -/
theorem psdComplete_ok {α : Type} [OfNat α 0] (ext : Nat → Array α → MErr (Nat × Nat → α))
    (hext : ∀ j W, ∃ f, ext j W = .ok f)
    {p : SPattern} (h : ValidPattern p) (A : Array α)
    (hA : A.size = p.ordering.size * p.ordering.size) :
    ∃ B, psdComplete ext A p.ordering.size p = .ok B := by
  have : Inhabited α := ⟨0⟩
  obtain ⟨q, hq, hqs, _, hq2, _⟩ := invperm_utils_spec p.ordering h.ordering_perm
  have hordlt : ∀ r ∈ p.ordering.toList, r < p.ordering.size := by
    intro r hr
    obtain ⟨i, hi, rfl⟩ := mem_toList_getD _ hr
    exact h.ord_lt i hi
  have hqlt : ∀ r ∈ q.toList, r < p.ordering.size := by
    intro r hr
    obtain ⟨i, hi, rfl⟩ := mem_toList_getD _ hr
    exact (hq2 i (by omega)).1
  obtain ⟨W0, hW0, hW0s, _, _⟩ := subsrefInto_spec p.ordering.size
    (Array.replicate (p.ordering.size * p.ordering.size) (0 : α)) A
    p.ordering.toList p.ordering.toList "psd_complete: W = A[p,p]" (by simp) hA
    (by simp) (by simp) hordlt hordlt
  have hjs : ∀ j ∈ (List.range (p.sntree.nCliques - 1)).reverse, j < p.sntree.nCliques := by
    intro j hj
    have := List.mem_range.1 (List.mem_reverse.1 hj)
    omega
  obtain ⟨W', hW'⟩ := dataLoop_ok ext hext h.tree _ hjs W0 hW0s
  obtain ⟨hW's, _⟩ := dataLoop_frame ext h.tree _ hjs W0 W' hW0s hW'
  obtain ⟨B, hB, _⟩ := subsrefInto_spec p.ordering.size A W' q.toList q.toList
    "psd_complete: A = W[ip,ip]" hA hW's (by simp [hqs]) (by simp [hqs]) hqlt hqlt
  refine ⟨B, ?_⟩
  unfold psdComplete
  rw [if_neg (by simpa using hA), hq]
  simp only [bind, Except.bind]
  rw [hW0]
  simp only []
  rw [if_neg (by have := h.tree.ncl_pos; omega), hW']
  exact hB

/-! non-vacuity: the path `0 — 1 — 2` with the external step returning the constant `7` -/

example : psdComplete (α := Nat) (fun _ _ => .ok (fun _ => 7)) #[1, 2, 0, 2, 3, 4, 0, 4, 5] 3
    exPattern = .ok #[1, 2, 7, 2, 3, 4, 7, 4, 5] := by rfl

example : ∃ B, psdComplete (α := Nat) (fun _ _ => .ok (fun _ => 7)) #[1, 2, 0, 2, 3, 4, 0, 4, 5]
    exPattern.ordering.size exPattern = .ok B ∧
    ∀ k, k < exPattern.sntree.nCliques → ∀ x ∈ exPattern.sntree.cliqueAt k,
      ∀ y ∈ exPattern.sntree.cliqueAt k,
        B[linIdx 3 (exPattern.ordering.getD x 0, exPattern.ordering.getD y 0)]? =
          (#[1, 2, 0, 2, 3, 4, 0, 4, 5] : Array Nat)[linIdx 3
            (exPattern.ordering.getD x 0, exPattern.ordering.getD y 0)]? := by
  obtain ⟨B, hB⟩ := psdComplete_ok (α := Nat) (fun _ _ => .ok (fun _ => 7))
    (fun _ _ => ⟨_, rfl⟩) exPattern_valid #[1, 2, 0, 2, 3, 4, 0, 4, 5] rfl
  exact ⟨B, hB, psdComplete_agrees _ exPattern_valid _ B hB⟩

end datalemmas

end Clarabel.Chordal
