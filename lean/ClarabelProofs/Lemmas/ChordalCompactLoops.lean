/-
  The write loops of `augment_compact.rs` (model: `ClarabelModel/Chordal/AugCompact.lean`):
  `add_entries_with_cone`, `add_clique_entries`, and the loop over the columns for one clique.

  Method.  Every loop only *writes slots* of the row-index vectors `A_I` / `b_I`.  For a
  relation `T slot value` ("`value` is a legitimate final content of `slot`") we show
    * `Upd T v v'` : every slot of the result either keeps its old content or holds a `T`-value,
    * hits        : the slots the loop is responsible for hold a `T`-value afterwards.
  `Upd` is reflexive and transitive and preserves hits, so the facts compose over the nested
  loops without any reasoning about which slot is written when.
-/
import ClarabelProofs.Lemmas.ChordalCompactBlocks

namespace Clarabel.Chordal

/-! ## slot-update relation -/

/-- every slot of `v'` keeps its content from `v` or holds a value allowed by `T` -/
def Upd (T : Nat → Nat → Prop) (v v' : Array Nat) : Prop :=
  v'.size = v.size ∧ ∀ x, v'.getD x 0 = v.getD x 0 ∨ T x (v'.getD x 0)

theorem Upd.refl (T : Nat → Nat → Prop) (v : Array Nat) : Upd T v v := ⟨rfl, fun _ => Or.inl rfl⟩

theorem Upd.trans {T : Nat → Nat → Prop} {v v' v'' : Array Nat} (h1 : Upd T v v') (h2 : Upd T v' v'') :
    Upd T v v'' := by
  refine ⟨h2.1.trans h1.1, fun x => ?_⟩
  rcases h2.2 x with h | h
  · rcases h1.2 x with h' | h'
    · exact Or.inl (h.trans h')
    · exact Or.inr (h ▸ h')
  · exact Or.inr h

theorem Upd.set {T : Nat → Nat → Prop} (v : Array Nat) (r val : Nat) (h : T r val) :
    Upd T v (v.setIfInBounds r val) := by
  refine ⟨by simp, fun x => ?_⟩
  rw [getD_setIfInBounds']
  by_cases hx : r = x ∧ x < v.size
  · rw [if_pos hx]; exact Or.inr (hx.1 ▸ h)
  · rw [if_neg hx]; exact Or.inl rfl

/-- a slot that already holds a `T`-value still does after an update -/
theorem Upd.keep {T : Nat → Nat → Prop} {v v' : Array Nat} (h : Upd T v v') {x : Nat}
    (hx : T x (v.getD x 0)) : T x (v'.getD x 0) := by
  rcases h.2 x with h' | h'
  · rw [h']; exact hx
  · exact h'

theorem Upd.mono {T T' : Nat → Nat → Prop} {v v' : Array Nat} (h : Upd T v v')
    (hT : ∀ x val, T x val → T' x val) : Upd T' v v' :=
  ⟨h.1, fun x => (h.2 x).imp id (hT x _)⟩

/-! ## `add_entries_with_cone` -/

/-- the row-shifting loop: slots `[s, s+len)` receive `xs[k] + rowPtr - rs`, no panic when the
rows are `≥ rs` -/
theorem shiftRows_spec (v xs : Array Nat) (s len rowPtr rs : Nat) (hsz : s + len ≤ v.size)
    (hge : ∀ k, s ≤ k → k < s + len → rs ≤ xs.getD k 0) :
    ∃ v', shiftRows v xs s len rowPtr rs = .ok v' ∧ v'.size = v.size ∧
      (∀ k, s ≤ k → k < s + len → v'.getD k 0 = xs.getD k 0 + rowPtr - rs) ∧
      (∀ k, ¬(s ≤ k ∧ k < s + len) → v'.getD k 0 = v.getD k 0) := by
  unfold shiftRows
  have := foldlM_inv (fun (v : Array Nat) k => do
      let x := xs.getD k 0
      if x + rowPtr < rs then throw (.panic "checked_add_signed") else
      setE v k (x + rowPtr - rs) "add_entries_with_cone") (List.range' s len)
    (fun i w => w.size = v.size ∧
      (∀ k, s ≤ k → k < s + i → w.getD k 0 = xs.getD k 0 + rowPtr - rs) ∧
      (∀ k, ¬(s ≤ k ∧ k < s + i) → w.getD k 0 = v.getD k 0)) v
    ⟨rfl, fun k h1 h2 => by omega, fun k _ => rfl⟩
    (by
      intro i hi w ⟨hw1, hw2, hw3⟩
      simp only [List.length_range'] at hi
      simp only [List.getElem_range', Nat.one_mul]
      have hx := hge (s + i) (by omega) (by omega)
      rw [if_neg (by omega)]
      refine ⟨_, setE_ok w (s + i) _ _ (by omega), by simpa using hw1, ?_, ?_⟩
      · intro k h1 h2
        rw [getD_setIfInBounds']
        by_cases hk : s + i = k ∧ k < w.size
        · rw [if_pos hk, hk.1]
        · rw [if_neg hk]
          exact hw2 k h1 (by omega)
      · intro k hk
        rw [getD_setIfInBounds']
        rw [if_neg (by omega)]
        exact hw3 k (by omega))
  simpa using this

/-- well-formedness of the CSC arrays that the compact transformation relies on: column
pointers monotone with `colptr[n] = nnz ≤ |rowval|`, rows strictly increasing inside a column -/
structure CscWF {α : Type} (A : Csc α) : Prop where
  cp_size : A.colptr.size = A.n + 1
  cp_zero : A.colptr.getD 0 0 = 0
  cp_mono : ∀ c, c < A.n → A.colptr.getD c 0 ≤ A.colptr.getD (c + 1) 0
  nnz_le : A.colptr.getD A.n 0 ≤ A.rowval.size
  sorted : ∀ c, c < A.n → StrictOn A.rowval (A.colptr.getD c 0) (A.colptr.getD (c + 1) 0)

theorem CscWF.cp_le_nnz {α : Type} {A : Csc α} (h : CscWF A) (c : Nat) (hc : c ≤ A.n) :
    A.colptr.getD c 0 ≤ A.colptr.getD A.n 0 := by
  obtain ⟨d, hd⟩ : ∃ d, A.n = c + d := ⟨A.n - c, by omega⟩
  rw [hd]
  have : ∀ d, c + d ≤ A.n → A.colptr.getD c 0 ≤ A.colptr.getD (c + d) 0 := by
    intro d
    induction d with
    | zero => intro _; exact Nat.le_refl _
    | succ d ih =>
      intro hd
      exact Nat.le_trans (ih (by omega)) (h.cp_mono (c + d) (by omega))
  exact this d (by omega)

/-- every stored position lies in exactly the column whose pointer range contains it -/
theorem CscWF.col_of {α : Type} {A : Csc α} (h : CscWF A) (x : Nat) (hx : x < A.colptr.getD A.n 0) :
    ∃ c, c < A.n ∧ A.colptr.getD c 0 ≤ x ∧ x < A.colptr.getD (c + 1) 0 := by
  have : ∀ m, m ≤ A.n → x < A.colptr.getD m 0 →
      ∃ c, c < m ∧ A.colptr.getD c 0 ≤ x ∧ x < A.colptr.getD (c + 1) 0 := by
    intro m
    induction m with
    | zero => intro _ h0; rw [h.cp_zero] at h0; omega
    | succ m ih =>
      intro hm hx'
      rcases Nat.lt_or_ge x (A.colptr.getD m 0) with h1 | h1
      · obtain ⟨c, hc, h2⟩ := ih (by omega) h1
        exact ⟨c, by omega, h2⟩
      · exact ⟨m, by omega, h1, hx'⟩
  obtain ⟨c, hc, h2⟩ := this A.n (Nat.le_refl _) hx
  exact ⟨c, hc, h2⟩

/-- the row shift of one sorted segment (used for `b`, whose sparse index vector is one segment) -/
theorem shiftSeg_spec (xs v : Array Nat) (lo hi rs re rowPtr : Nat) (hm : MonoOn xs lo hi) (hsz : hi ≤ v.size) :
    ∃ v', shiftSeg v xs lo hi rs re rowPtr = .ok v' ∧ v'.size = v.size ∧
      (∀ x, InSeg xs lo hi rs re x → v'.getD x 0 = xs.getD x 0 + rowPtr - rs) ∧
      (∀ x, ¬ InSeg xs lo hi rs re x → v'.getD x 0 = v.getD x 0) := by
  have hspec := getRowsSubset_spec xs lo hi rs re hm
  unfold shiftSeg
  cases hg : getRowsSubset xs lo hi rs re with
  | none =>
    rw [hg] at hspec
    simp only [Option.getD_none] at hspec
    refine ⟨v, rfl, rfl, ?_, fun _ _ => rfl⟩
    intro x hx
    have := (hspec x).2 hx
    omega
  | some se =>
    obtain ⟨s, e⟩ := se
    rw [hg] at hspec
    simp only [Option.getD_some] at hspec
    obtain ⟨hs1, hs2, _⟩ := getRowsSubset_some _ _ _ _ _ _ _ hg
    by_cases hse : s ≤ e
    · obtain ⟨v', hv', hz, hin, hout⟩ := shiftRows_spec v xs s (e - s) rowPtr rs (by omega) (by
        intro k hk1 hk2
        exact ((hspec k).1 ⟨hk1, by omega⟩).2.2.1)
      refine ⟨v', hv', hz, ?_, ?_⟩
      · intro x hx
        have := (hspec x).2 hx
        exact hin x this.1 (by omega)
      · intro x hx
        exact hout x (fun hh => hx ((hspec x).1 ⟨hh.1, by omega⟩))
    · have he : e - s = 0 := by omega
      refine ⟨v, by dsimp only; rw [he]; rfl, rfl, ?_, fun _ _ => rfl⟩
      intro x hx
      have := (hspec x).2 hx
      omega

/-- the loop over the columns that shifts the rows of a non-decomposed cone -/
theorem shiftCols_spec {α : Type} (A : Csc α) (hA : CscWF A) (v : Array Nat) (rs re rowPtr : Nat)
    (hsz : A.colptr.getD A.n 0 ≤ v.size) :
    ∃ v', (List.range A.n).foldlM (fun (AaI : Array Nat) col => do
        let lo ← getE A.colptr col "get_rows_mat"
        let hi ← getE A.colptr (col + 1) "get_rows_mat"
        shiftSeg AaI A.rowval lo hi rs re rowPtr) v = .ok v' ∧ v'.size = v.size ∧
      (∀ x, x < A.colptr.getD A.n 0 → rs ≤ A.rowval.getD x 0 → A.rowval.getD x 0 < re →
        v'.getD x 0 = A.rowval.getD x 0 + rowPtr - rs) ∧
      (∀ x, ¬(x < A.colptr.getD A.n 0 ∧ rs ≤ A.rowval.getD x 0 ∧ A.rowval.getD x 0 < re) →
        v'.getD x 0 = v.getD x 0) := by
  have := foldlM_inv (fun (AaI : Array Nat) col => do
        let lo ← getE A.colptr col "get_rows_mat"
        let hi ← getE A.colptr (col + 1) "get_rows_mat"
        shiftSeg AaI A.rowval lo hi rs re rowPtr) (List.range A.n)
    (fun i w => i ≤ A.n → (w.size = v.size ∧
      (∀ x, x < A.colptr.getD i 0 → rs ≤ A.rowval.getD x 0 → A.rowval.getD x 0 < re →
        w.getD x 0 = A.rowval.getD x 0 + rowPtr - rs) ∧
      (∀ x, ¬(x < A.colptr.getD i 0 ∧ rs ≤ A.rowval.getD x 0 ∧ A.rowval.getD x 0 < re) →
        w.getD x 0 = v.getD x 0))) v
    (fun _ => ⟨rfl, fun x hx => by rw [hA.cp_zero] at hx; omega, fun _ _ => rfl⟩)
    (by
      intro i hi w hw
      simp only [List.length_range] at hi
      obtain ⟨hw1, hw2, hw3⟩ := hw (by omega)
      simp only [List.getElem_range]
      rw [getE_ok A.colptr i _ 0 (by rw [hA.cp_size]; omega),
        getE_ok A.colptr (i + 1) _ 0 (by rw [hA.cp_size]; omega)]
      simp only [bind, Except.bind]
      have hle := hA.cp_mono i hi
      have hnn := hA.cp_le_nnz (i + 1) (by omega)
      obtain ⟨v', hv', hz, hin, hout⟩ := shiftSeg_spec A.rowval w (A.colptr.getD i 0) (A.colptr.getD (i + 1) 0)
        rs re rowPtr (hA.sorted i hi).mono (by omega)
      refine ⟨v', hv', fun _ => ⟨hz.trans hw1, ?_, ?_⟩⟩
      · intro x hx h1 h2
        rcases Nat.lt_or_ge x (A.colptr.getD i 0) with h | h
        · rw [hout x (fun hh => by have := hh.1; omega)]
          exact hw2 x h h1 h2
        · exact hin x ⟨h, hx, h1, h2⟩
      · intro x hx
        rw [hout x (fun hh => hx ⟨hh.2.1, hh.2.2⟩)]
        apply hw3
        intro hh
        exact hx ⟨by omega, hh.2⟩)
  obtain ⟨v', h1, h2⟩ := this
  simp only [List.length_range] at h2
  exact ⟨v', h1, h2 (Nat.le_refl _)⟩

/-! ## `add_clique_entries` (one clique, one column) -/

/-- number of overlap-flagged entries among the first `q` block indices -/
def ovCount (L : List (Nat × Nat × Bool)) (q : Nat) : Nat := (L.take q).countP (fun e => e.2.2)

theorem ovCount_zero (L : List (Nat × Nat × Bool)) : ovCount L 0 = 0 := by simp [ovCount]

theorem ovCount_succ (L : List (Nat × Nat × Bool)) (q : Nat) (e : Nat × Nat × Bool)
    (h : L[q]? = some e) : ovCount L (q + 1) = ovCount L q + (if e.2.2 then 1 else 0) := by
  unfold ovCount
  rw [List.take_add_one, h]
  simp [List.countP_append, List.countP_cons]

theorem ovCount_length (L : List (Nat × Nat × Bool)) : ovCount L L.length = L.countP (fun e => e.2.2) := by
  simp [ovCount]

theorem ovCount_mono (L : List (Nat × Nat × Bool)) (q : Nat) (hq : q ≤ L.length) :
    ovCount L q ≤ L.countP (fun e => e.2.2) := by
  rw [← ovCount_length]
  obtain ⟨d, hd⟩ : ∃ d, L.length = q + d := ⟨L.length - q, by omega⟩
  rw [hd]
  clear hd
  induction d with
  | zero => exact Nat.le_refl _
  | succ d ih =>
    by_cases h : q + d < L.length
    · rw [show q + (d + 1) = (q + d) + 1 by omega,
        ovCount_succ L (q + d) L[q + d] (List.getElem?_eq_getElem h)]
      omega
    · have h1 : ovCount L (q + (d + 1)) = ovCount L (q + d) := by
        unfold ovCount
        rw [List.take_of_length_le (by omega), List.take_of_length_le (by omega)]
      omega

/-- hypotheses and conclusions of the per-column pass share these parameters -/
structure EntryCtx where
  rowval : Array Nat
  bInd : Array Nat
  parentClique : Array Nat
  parentStart : Nat
  col : Nat
  rowPtr : Nat
  rs : Nat
  rangeCol : Nat × Nat
  rangeB : Nat × Nat

/-- the write loop of `add_clique_entries` for one column: no panic, the new `overlap_ptr`, all
writes are `T`-legitimate (`Upd`) and every slot the pass is responsible for is hit -/
theorem addCliqueEntries_spec (TA TB : Nat → Nat → Prop) (c : EntryCtx)
    (L : List (Nat × Nat × Bool)) (AaI baI : Array Nat) (op : Nat)
    (hszA : c.rangeCol.2 ≤ AaI.size) (hszB : c.rangeB.2 ≤ baI.size)
    (hop : c.col = 0 → op + 2 * L.countP (fun e => e.2.2) ≤ AaI.size)
    (hTA : ∀ (q a b : Nat), L[q]? = some (a, b, false) → ∀ x, c.rangeCol.1 ≤ x → x < c.rangeCol.2 →
      c.rowval.getD x 0 = c.rs + coordToUpperTriangularIndex (a, b) → TA x (c.rowPtr + q))
    (hTB : c.col = 0 → ∀ (q a b : Nat), L[q]? = some (a, b, false) → ∀ x, c.rangeB.1 ≤ x → x < c.rangeB.2 →
      c.bInd.getD x 0 = c.rs + coordToUpperTriangularIndex (a, b) → TB x (c.rowPtr + q))
    (hTO : c.col = 0 → ∀ (q a b : Nat), L[q]? = some (a, b, true) →
      TA (op + 2 * ovCount L q) (c.rowPtr + q) ∧
      TA (op + 2 * ovCount L q + 1) (c.parentStart + parentBlockIndices c.parentClique a b))
    (hsA : StrictOn c.rowval c.rangeCol.1 c.rangeCol.2)
    (hgeA : ∀ y, c.rangeCol.1 ≤ y → y < c.rangeCol.2 → c.rs ≤ c.rowval.getD y 0)
    (hsB : StrictOn c.bInd c.rangeB.1 c.rangeB.2)
    (hgeB : ∀ y, c.rangeB.1 ≤ y → y < c.rangeB.2 → c.rs ≤ c.bInd.getD y 0) :
    ∃ AaI' baI', addCliqueEntries c.rowval c.bInd c.parentClique c.parentStart c.col c.rowPtr c.rs
        c.rangeCol c.rangeB L AaI baI op =
        .ok (AaI', baI', op + (if c.col = 0 then 2 * L.countP (fun e => e.2.2) else 0)) ∧
      Upd TA AaI AaI' ∧ Upd TB baI baI' ∧
      (∀ (q a b x : Nat), L[q]? = some (a, b, false) → c.rangeCol.1 ≤ x → x < c.rangeCol.2 →
        c.rowval.getD x 0 = c.rs + coordToUpperTriangularIndex (a, b) → TA x (AaI'.getD x 0)) ∧
      (c.col = 0 → ∀ (q a b x : Nat), L[q]? = some (a, b, false) → c.rangeB.1 ≤ x → x < c.rangeB.2 →
        c.bInd.getD x 0 = c.rs + coordToUpperTriangularIndex (a, b) → TB x (baI'.getD x 0)) ∧
      (c.col = 0 → ∀ y, op ≤ y → y < op + 2 * L.countP (fun e => e.2.2) → TA y (AaI'.getD y 0)) := by
  have key := foldlM_inv
    (addCliqueEntry c.rowval c.bInd c.parentClique c.parentStart c.col c.rowPtr c.rs c.rangeCol c.rangeB) L
    (fun q st => st.2.2.2 = q ∧
      st.2.2.1 = op + (if c.col = 0 then 2 * ovCount L q else 0) ∧
      Upd TA AaI st.1 ∧ Upd TB baI st.2.1 ∧
      (∀ (q' a b x : Nat), q' < q → L[q']? = some (a, b, false) → c.rangeCol.1 ≤ x → x < c.rangeCol.2 →
        c.rowval.getD x 0 = c.rs + coordToUpperTriangularIndex (a, b) → TA x (st.1.getD x 0)) ∧
      (c.col = 0 → ∀ (q' a b x : Nat), q' < q → L[q']? = some (a, b, false) → c.rangeB.1 ≤ x → x < c.rangeB.2 →
        c.bInd.getD x 0 = c.rs + coordToUpperTriangularIndex (a, b) → TB x (st.2.1.getD x 0)) ∧
      (c.col = 0 → ∀ y, op ≤ y → y < op + 2 * ovCount L q → TA y (st.1.getD y 0)))
    (AaI, baI, op, 0)
    ⟨rfl, by simp [ovCount_zero], Upd.refl _ _, Upd.refl _ _, fun _ _ _ _ h => by omega,
      fun _ _ _ _ _ h => by omega, fun _ y h1 h2 => by rw [ovCount_zero] at h2; omega⟩
    (by
      intro q hq st hI
      obtain ⟨w, wb, o, cnt⟩ := st
      obtain ⟨hcnt, ho, hUA, hUB, hHA, hHB, hHO⟩ := hI
      simp only at hcnt ho hUA hUB hHA hHB hHO
      subst hcnt
      have hLq : L[cnt]? = some L[cnt] := List.getElem?_eq_getElem hq
      rcases hL : L[cnt] with ⟨a, b, f⟩
      rw [hL] at hLq
      have hcs := ovCount_succ L cnt (a, b, f) hLq
      cases f with
      | false =>
        simp only [Bool.false_eq_true, ↓reduceIte, Nat.add_zero] at hcs
        unfold addCliqueEntry
        simp only [Bool.false_eq_true, ↓reduceIte]
        -- the A part
        obtain ⟨w', hw', hwalt⟩ := modifyCliqueRows_ok w (coordToUpperTriangularIndex (a, b)) c.rowval
          (c.rowPtr + cnt) c.rs c.rangeCol (by rw [hUA.1]; exact hszA)
        have hUw : Upd TA w w' := by
          rcases hwalt with rfl | ⟨r, h1, h2, h3, rfl⟩
          · exact Upd.refl _ _
          · exact Upd.set _ _ _ (hTA cnt a b hLq r h1 h2 h3)
        have hHw : ∀ x, c.rangeCol.1 ≤ x → x < c.rangeCol.2 →
            c.rowval.getD x 0 = c.rs + coordToUpperTriangularIndex (a, b) → TA x (w'.getD x 0) := by
          intro x h1 h2 h3
          have := modifyCliqueRows_hit w (coordToUpperTriangularIndex (a, b)) c.rowval (c.rowPtr + cnt) c.rs
            c.rangeCol x (by rw [hUA.1]; exact hszA) hsA hgeA h1 h2 h3
          rw [hw'] at this
          injection this with this
          rw [this, getD_setIfInBounds', if_pos ⟨rfl, by rw [hUA.1]; omega⟩]
          exact hTA cnt a b hLq x h1 h2 h3
        rw [hw']
        simp only [bind, Except.bind]
        by_cases hc0 : c.col = 0
        · simp only [hc0, beq_self_eq_true, ↓reduceIte]
          obtain ⟨wb', hwb', hwbalt⟩ := modifyCliqueRows_ok wb (coordToUpperTriangularIndex (a, b)) c.bInd
            (c.rowPtr + cnt) c.rs c.rangeB (by rw [hUB.1]; exact hszB)
          have hUwb : Upd TB wb wb' := by
            rcases hwbalt with rfl | ⟨r, h1, h2, h3, rfl⟩
            · exact Upd.refl _ _
            · exact Upd.set _ _ _ (hTB hc0 cnt a b hLq r h1 h2 h3)
          have hHwb : ∀ x, c.rangeB.1 ≤ x → x < c.rangeB.2 →
              c.bInd.getD x 0 = c.rs + coordToUpperTriangularIndex (a, b) → TB x (wb'.getD x 0) := by
            intro x h1 h2 h3
            have := modifyCliqueRows_hit wb (coordToUpperTriangularIndex (a, b)) c.bInd (c.rowPtr + cnt) c.rs
              c.rangeB x (by rw [hUB.1]; exact hszB) hsB hgeB h1 h2 h3
            rw [hwb'] at this
            injection this with this
            rw [this, getD_setIfInBounds', if_pos ⟨rfl, by rw [hUB.1]; omega⟩]
            exact hTB hc0 cnt a b hLq x h1 h2 h3
          rw [hwb']
          refine ⟨_, rfl, rfl, ?_, hUA.trans hUw, hUB.trans hUwb, ?_, ?_, ?_⟩
          · simp only [hc0, ↓reduceIte] at ho ⊢; rw [hcs]; exact ho
          · intro q' a' b' x hq' hL' h1 h2 h3
            rcases Nat.lt_succ_iff_lt_or_eq.1 hq' with h | h
            · exact hUw.keep (hHA q' a' b' x h hL' h1 h2 h3)
            · subst h
              rw [hLq] at hL'
              simp only [Option.some.injEq, Prod.mk.injEq, and_true] at hL'
              obtain ⟨rfl, rfl⟩ := hL'
              exact hHw x h1 h2 h3
          · intro _ q' a' b' x hq' hL' h1 h2 h3
            rcases Nat.lt_succ_iff_lt_or_eq.1 hq' with h | h
            · exact hUwb.keep (hHB hc0 q' a' b' x h hL' h1 h2 h3)
            · subst h
              rw [hLq] at hL'
              simp only [Option.some.injEq, Prod.mk.injEq, and_true] at hL'
              obtain ⟨rfl, rfl⟩ := hL'
              exact hHwb x h1 h2 h3
          · intro _ y h1 h2
            rw [hcs] at h2
            exact hUw.keep (hHO hc0 y h1 h2)
        · have hb : (c.col == 0) = false := by simpa using hc0
          simp only [hb, Bool.false_eq_true, ↓reduceIte, pure, Except.pure]
          refine ⟨_, rfl, rfl, ?_, hUA.trans hUw, hUB, ?_, fun h => absurd h hc0, fun h => absurd h hc0⟩
          · simp only [hc0, ↓reduceIte] at ho ⊢; exact ho
          · intro q' a' b' x hq' hL' h1 h2 h3
            rcases Nat.lt_succ_iff_lt_or_eq.1 hq' with h | h
            · exact hUw.keep (hHA q' a' b' x h hL' h1 h2 h3)
            · subst h
              rw [hLq] at hL'
              simp only [Option.some.injEq, Prod.mk.injEq, and_true] at hL'
              obtain ⟨rfl, rfl⟩ := hL'
              exact hHw x h1 h2 h3
      | true =>
        simp only [↓reduceIte] at hcs
        unfold addCliqueEntry
        simp only [↓reduceIte]
        by_cases hc0 : c.col = 0
        · simp only [hc0, beq_self_eq_true, ↓reduceIte]
          simp only [hc0, ↓reduceIte] at ho
          have hbound := hop hc0
          have hmono := ovCount_mono L (cnt + 1) (by omega)
          obtain ⟨hT1, hT2⟩ := hTO hc0 cnt a b hLq
          rw [setE_ok w o _ _ (by rw [hUA.1]; omega)]
          simp only [bind, Except.bind]
          rw [setE_ok _ (o + 1) _ _ (by rw [Array.size_setIfInBounds, hUA.1]; omega)]
          have hU1 : Upd TA w (w.setIfInBounds o (c.rowPtr + cnt)) := Upd.set _ _ _ (ho ▸ hT1)
          have hU2 : Upd TA (w.setIfInBounds o (c.rowPtr + cnt))
              ((w.setIfInBounds o (c.rowPtr + cnt)).setIfInBounds (o + 1)
                (c.parentStart + parentBlockIndices c.parentClique a b)) :=
            Upd.set _ _ _ (by rw [ho]; exact hT2)
          refine ⟨_, rfl, rfl, ?_, hUA.trans (hU1.trans hU2), hUB, ?_, ?_, ?_⟩
          · show o + 2 = op + (if 0 = 0 then 2 * ovCount L (cnt + 1) else 0)
            rw [if_pos rfl, hcs, ho]; omega
          · intro q' a' b' x hq' hL' h1 h2 h3
            rcases Nat.lt_succ_iff_lt_or_eq.1 hq' with h | h
            · exact (hU1.trans hU2).keep (hHA q' a' b' x h hL' h1 h2 h3)
            · subst h
              rw [hLq] at hL'
              simp at hL'
          · intro _ q' a' b' x hq' hL' h1 h2 h3
            rcases Nat.lt_succ_iff_lt_or_eq.1 hq' with h | h
            · exact hHB hc0 q' a' b' x h hL' h1 h2 h3
            · subst h
              rw [hLq] at hL'
              simp at hL'
          · intro _ y h1 h2
            rw [hcs] at h2
            rcases Nat.lt_or_ge y (op + 2 * ovCount L cnt) with h | h
            · exact (hU1.trans hU2).keep (hHO hc0 y h1 h)
            · rcases Nat.eq_or_lt_of_le h with h' | h'
              · -- first slot
                apply hU2.keep
                rw [getD_setIfInBounds', if_pos ⟨by omega, by rw [hUA.1]; omega⟩]
                rw [← h']; exact hT1
              · have hy : y = o + 1 := by omega
                rw [hy, getD_setIfInBounds',
                  if_pos ⟨rfl, by rw [Array.size_setIfInBounds, hUA.1]; omega⟩, ho]
                exact hT2
        · have hb : (c.col == 0) = false := by simpa using hc0
          simp only [hb, Bool.false_eq_true, ↓reduceIte, pure, Except.pure]
          refine ⟨_, rfl, rfl, ?_, hUA, hUB, ?_, fun h => absurd h hc0, fun h => absurd h hc0⟩
          · simp only [hc0, ↓reduceIte] at ho ⊢; exact ho
          · intro q' a' b' x hq' hL' h1 h2 h3
            rcases Nat.lt_succ_iff_lt_or_eq.1 hq' with h | h
            · exact hHA q' a' b' x h hL' h1 h2 h3
            · subst h
              rw [hLq] at hL'
              simp at hL')
  obtain ⟨⟨w, wb, o, cnt⟩, hfold, hcnt, ho, hUA, hUB, hHA, hHB, hHO⟩ := key
  simp only at hcnt ho hUA hUB hHA hHB hHO
  refine ⟨w, wb, ?_, hUA, hUB, ?_, ?_, ?_⟩
  · unfold addCliqueEntries
    rw [hfold]
    simp only [bind, Except.bind, pure, Except.pure]
    rw [ho, ovCount_length]
  · intro q a b x hL
    have hq : q < L.length := by
      rcases Nat.lt_or_ge q L.length with h | h
      · exact h
      · rw [List.getElem?_eq_none h] at hL; cases hL
    exact hHA q a b x hq hL
  · intro h0 q a b x hL
    have hq : q < L.length := by
      rcases Nat.lt_or_ge q L.length with h | h
      · exact h
      · rw [List.getElem?_eq_none h] at hL; cases hL
    exact hHB h0 q a b x hq hL
  · intro h0 y h1 h2
    rw [← ovCount_length] at h2
    exact hHO h0 y h1 h2

/-! ## the loop over the columns for one clique -/

/-- `b`'s sparse index vector seen as one column -/
theorem getRowsSubset_b (bInd : Array Nat) (hb : StrictOn bInd 0 bInd.size) (rs re : Nat) :
    let r := (getRowsSubset bInd 0 bInd.size rs re).getD (0, 0)
    r.2 ≤ bInd.size ∧ StrictOn bInd r.1 r.2 ∧ (∀ y, r.1 ≤ y → y < r.2 → rs ≤ bInd.getD y 0) ∧
    (∀ x, (r.1 ≤ x ∧ x < r.2) ↔ (x < bInd.size ∧ rs ≤ bInd.getD x 0 ∧ bInd.getD x 0 < re)) := by
  intro r
  have hspec := getRowsSubset_spec bInd 0 bInd.size rs re hb.mono
  have hle : r.2 ≤ bInd.size := by
    cases hg : getRowsSubset bInd 0 bInd.size rs re with
    | none => simp [r, hg]
    | some se =>
      obtain ⟨s, e⟩ := se
      have := getRowsSubset_some _ _ _ _ _ _ _ hg
      simp [r, hg]; omega
  refine ⟨hle, hb.sub (Nat.zero_le _) hle, ?_, ?_⟩
  · intro y h1 h2
    exact ((hspec y).1 ⟨h1, h2⟩).2.2.1
  · intro x
    rw [hspec x]
    unfold InSeg
    constructor
    · rintro ⟨_, h2, h3, h4⟩; exact ⟨h2, h3, h4⟩
    · rintro ⟨h2, h3, h4⟩; exact ⟨Nat.zero_le _, h2, h3, h4⟩

theorem addCliqueCols_spec {α : Type} (TA TB : Nat → Nat → Prop) (A : Csc α) (hA : CscWF A)
    (bInd : Array Nat) (hb : StrictOn bInd 0 bInd.size) (rs re : Nat)
    (L : List (Nat × Nat × Bool)) (parentClique : Array Nat) (parentStart rowPtr : Nat)
    (AaI baI : Array Nat) (op : Nat) (hn : 0 < A.n)
    (hszA : A.colptr.getD A.n 0 ≤ AaI.size) (hszB : bInd.size ≤ baI.size)
    (hop : op + 2 * L.countP (fun e => e.2.2) ≤ AaI.size)
    (hTA : ∀ (q a b : Nat), L[q]? = some (a, b, false) → ∀ x, x < A.colptr.getD A.n 0 →
      A.rowval.getD x 0 = rs + coordToUpperTriangularIndex (a, b) → A.rowval.getD x 0 < re →
      TA x (rowPtr + q))
    (hTB : ∀ (q a b : Nat), L[q]? = some (a, b, false) → ∀ x, x < bInd.size →
      bInd.getD x 0 = rs + coordToUpperTriangularIndex (a, b) → bInd.getD x 0 < re →
      TB x (rowPtr + q))
    (hTO : ∀ (q a b : Nat), L[q]? = some (a, b, true) →
      TA (op + 2 * ovCount L q) (rowPtr + q) ∧
      TA (op + 2 * ovCount L q + 1) (parentStart + parentBlockIndices parentClique a b)) :
    ∃ AaI' baI', addCliqueCols A bInd rs re L parentClique parentStart rowPtr AaI baI op =
        .ok (AaI', baI', op + 2 * L.countP (fun e => e.2.2)) ∧
      Upd TA AaI AaI' ∧ Upd TB baI baI' ∧
      (∀ (q a b x : Nat), L[q]? = some (a, b, false) → x < A.colptr.getD A.n 0 →
        A.rowval.getD x 0 = rs + coordToUpperTriangularIndex (a, b) → A.rowval.getD x 0 < re →
        TA x (AaI'.getD x 0)) ∧
      (∀ (q a b x : Nat), L[q]? = some (a, b, false) → x < bInd.size →
        bInd.getD x 0 = rs + coordToUpperTriangularIndex (a, b) → bInd.getD x 0 < re →
        TB x (baI'.getD x 0)) ∧
      (∀ y, op ≤ y → y < op + 2 * L.countP (fun e => e.2.2) → TA y (AaI'.getD y 0)) := by
  unfold addCliqueCols
  have key := foldlM_inv (fun (acc : Array Nat × Array Nat × Nat) col => do
      let lo ← getE A.colptr col "get_rows_mat"
      let hi ← getE A.colptr (col + 1) "get_rows_mat"
      let rangeCol := (getRowsSubset A.rowval lo hi rs re).getD (0, 0)
      let rangeB := if col == 0 then (getRowsSubset bInd 0 bInd.size rs re).getD (0, 0) else (0, 0)
      addCliqueEntries A.rowval bInd parentClique parentStart col rowPtr rs rangeCol rangeB L
        acc.1 acc.2.1 acc.2.2) (List.range A.n)
    (fun i st => i ≤ A.n →
      (st.2.2 = op + (if i = 0 then 0 else 2 * L.countP (fun e => e.2.2)) ∧
      Upd TA AaI st.1 ∧ Upd TB baI st.2.1 ∧
      (∀ (q a b x : Nat), L[q]? = some (a, b, false) → x < A.colptr.getD i 0 →
        A.rowval.getD x 0 = rs + coordToUpperTriangularIndex (a, b) → A.rowval.getD x 0 < re →
        TA x (st.1.getD x 0)) ∧
      (0 < i → ∀ (q a b x : Nat), L[q]? = some (a, b, false) → x < bInd.size →
        bInd.getD x 0 = rs + coordToUpperTriangularIndex (a, b) → bInd.getD x 0 < re →
        TB x (st.2.1.getD x 0)) ∧
      (0 < i → ∀ y, op ≤ y → y < op + 2 * L.countP (fun e => e.2.2) → TA y (st.1.getD y 0))))
    (AaI, baI, op)
    (fun _ => ⟨by simp, Upd.refl _ _, Upd.refl _ _, fun q a b x _ hx => by rw [hA.cp_zero] at hx; omega,
      fun h => by omega, fun h => by omega⟩)
    (by
      intro i hi st hI
      simp only [List.length_range] at hi
      obtain ⟨w, wb, o⟩ := st
      obtain ⟨ho, hUA, hUB, hHA, hHB, hHO⟩ := hI (by omega)
      simp only at ho hUA hUB hHA hHB hHO
      simp only [List.getElem_range]
      rw [getE_ok A.colptr i _ 0 (by rw [hA.cp_size]; omega),
        getE_ok A.colptr (i + 1) _ 0 (by rw [hA.cp_size]; omega)]
      simp only [bind, Except.bind]
      have hstrict := hA.sorted i hi
      have hspec := getRowsSubset_spec A.rowval (A.colptr.getD i 0) (A.colptr.getD (i + 1) 0) rs re
        hstrict.mono
      have hle := hA.cp_mono i hi
      have hnn := hA.cp_le_nnz (i + 1) (by omega)
      -- the column range
      have hrc2 : ((getRowsSubset A.rowval (A.colptr.getD i 0) (A.colptr.getD (i + 1) 0) rs re).getD (0, 0)).2
          ≤ A.colptr.getD (i + 1) 0 ∧
          (A.colptr.getD i 0 ≤ ((getRowsSubset A.rowval (A.colptr.getD i 0) (A.colptr.getD (i + 1) 0) rs re).getD (0, 0)).1 ∨
           ((getRowsSubset A.rowval (A.colptr.getD i 0) (A.colptr.getD (i + 1) 0) rs re).getD (0, 0)) = (0, 0)) := by
        cases hg : getRowsSubset A.rowval (A.colptr.getD i 0) (A.colptr.getD (i + 1) 0) rs re with
        | none => exact ⟨Nat.zero_le _, Or.inr rfl⟩
        | some se =>
          obtain ⟨s, e⟩ := se
          have := getRowsSubset_some _ _ _ _ _ _ _ hg
          exact ⟨this.2.1, Or.inl this.1⟩
      generalize hrc : (getRowsSubset A.rowval (A.colptr.getD i 0) (A.colptr.getD (i + 1) 0) rs re).getD (0, 0) = rc at hspec hrc2
      have hrcS : StrictOn A.rowval rc.1 rc.2 := by
        rcases hrc2.2 with h | h
        · exact hstrict.sub h hrc2.1
        · rw [h]; intro x y _ hxy hy; simp at hy
      have hrcG : ∀ y, rc.1 ≤ y → y < rc.2 → rs ≤ A.rowval.getD y 0 :=
        fun y h1 h2 => ((hspec y).1 ⟨h1, h2⟩).2.2.1
      obtain ⟨hb1, hb2, hb3, hb4⟩ := getRowsSubset_b bInd hb rs re
      generalize hrbdef : (getRowsSubset bInd 0 bInd.size rs re).getD (0, 0) = rb0 at hb1 hb2 hb3 hb4
      -- the b range of this column
      have hrb : ∃ rb : Nat × Nat, (if (i == 0) = true then rb0 else (0, 0)) = rb ∧
          rb.2 ≤ bInd.size ∧ StrictOn bInd rb.1 rb.2 ∧ (∀ y, rb.1 ≤ y → y < rb.2 → rs ≤ bInd.getD y 0) ∧
          (∀ x, rb.1 ≤ x → x < rb.2 → bInd.getD x 0 < re ∧ x < bInd.size) ∧
          (i = 0 → ∀ x, x < bInd.size → rs ≤ bInd.getD x 0 → bInd.getD x 0 < re → rb.1 ≤ x ∧ x < rb.2) := by
        by_cases h0 : i = 0
        · subst h0
          refine ⟨rb0, by simp, hb1, hb2, hb3, ?_, ?_⟩
          · intro x h1 h2
            have := (hb4 x).1 ⟨h1, h2⟩
            exact ⟨this.2.2, this.1⟩
          · intro _ x h1 h2 h3
            exact (hb4 x).2 ⟨h1, h2, h3⟩
        · have : (i == 0) = false := by simpa using h0
          refine ⟨(0, 0), by simp [this], by simp, ?_, ?_, ?_, fun h => absurd h h0⟩
          · intro x y _ _ hy; simp at hy
          · intro y _ hy; simp at hy
          · intro x _ hx; simp at hx
      obtain ⟨rb, hrbeq, hrb1, hrb2, hrb3, hrb4, hrb5⟩ := hrb
      rw [hrbeq]
      have hcount0 : i = 0 → o = op := by
        intro h; rw [ho, if_pos h]; rfl
      obtain ⟨w', wb', hres, hUw, hUwb, hHw, hHwb, hHwo⟩ := addCliqueEntries_spec TA TB
        ⟨A.rowval, bInd, parentClique, parentStart, i, rowPtr, rs, rc, rb⟩ L w wb o
        (by show rc.2 ≤ w.size; rw [hUA.1]; omega)
        (by show rb.2 ≤ wb.size; rw [hUB.1]; omega)
        (by intro h0; show o + _ ≤ w.size; rw [hcount0 h0, hUA.1]; exact hop)
        (by
          intro q a b hL x h1 h2 h3
          have hin := (hspec x).1 ⟨h1, h2⟩
          exact hTA q a b hL x (by have := hin.2.1; omega) h3 hin.2.2.2)
        (by
          intro _ q a b hL x h1 h2 h3
          have := hrb4 x h1 h2
          exact hTB q a b hL x this.2 h3 this.1)
        (by
          intro h0 q a b hL
          show TA (o + _) _ ∧ TA (o + _ + 1) _
          rw [hcount0 h0]
          exact hTO q a b hL)
        hrcS hrcG hrb2 hrb3
      simp only at hres hUw hUwb hHw hHwb hHwo
      refine ⟨(w', wb', o + if i = 0 then 2 * L.countP (fun e => e.2.2) else 0), hres, fun _ => ?_⟩
      refine ⟨?_, hUA.trans hUw, hUB.trans hUwb, ?_, ?_, ?_⟩
      · show o + _ = op + _
        rw [ho]
        by_cases h0 : i = 0
        · simp [h0]
        · simp [h0]
      · intro q a b x hL hx h3 h4
        rcases Nat.lt_or_ge x (A.colptr.getD i 0) with h | h
        · exact hUw.keep (hHA q a b x hL h h3 h4)
        · have hin := (hspec x).2 ⟨h, hx, by omega, h4⟩
          exact hHw q a b x hL hin.1 hin.2 h3
      · intro _ q a b x hL hx h3 h4
        by_cases h0 : i = 0
        · have := hrb5 h0 x hx (by omega) h4
          exact hHwb h0 q a b x hL this.1 this.2 h3
        · exact hUwb.keep (hHB (by omega) q a b x hL hx h3 h4)
      · intro _ y h1 h2
        by_cases h0 : i = 0
        · exact hHwo h0 y (by rw [hcount0 h0]; exact h1) (by rw [hcount0 h0]; exact h2)
        · exact hUw.keep (hHO (by omega) y h1 h2))
  obtain ⟨⟨w, wb, o⟩, hfold, hI⟩ := key
  simp only [List.length_range] at hI
  obtain ⟨ho, hUA, hUB, hHA, hHB, hHO⟩ := hI (Nat.le_refl _)
  refine ⟨w, wb, ?_, hUA, hUB, hHA, hHB hn, hHO hn⟩
  rw [hfold, ho, if_neg (by omega)]

end Clarabel.Chordal
