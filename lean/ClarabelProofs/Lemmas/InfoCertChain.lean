/-
  Round 4 (composition) — lemma-level copies of C02's certificate theorems.

  `Props/C02Full.lean` is imported BY `Props/C02.lean`, so it cannot use the theorems stated there
  (`C02.primal_cert`, `C02.dual_cert`, `C02.{primal,dual}_infeasible_certifies_user_problem`).  This
  file holds the same statements with the same proofs at lemma level (`primal_cert_lemma`,
  `dual_cert_lemma`, `primal_infeasible_chain`, `dual_infeasible_chain`), for the whole-solver
  composition `Lemmas/SolverFullCompose.lean`.  Nothing new is claimed here.
-/
import ClarabelProofs.Lemmas.InfoConv
import ClarabelProofs.Lemmas.InfoCert
import ClarabelProofs.Lemmas.InfoEndToEnd
import Mathlib.Tactic.NormNum
import Mathlib.Tactic.FieldSimp
import Mathlib.Tactic.Linarith
import Mathlib.Tactic.Positivity

set_option linter.unusedSectionVars false

namespace Clarabel.InfoUser
open Clarabel Clarabel.Dense Clarabel.Info Finset Clarabel.Residuals

variable {n m : ℕ}

/-- **[F] `C02.primal_cert`** (over `ℝ`, exact arithmetic).  If `is_primal_infeasible` holds
for an `info` whose `res_primal_inf` is the value `Info.update` assigns, then the
κ-normalised certificate `z = Eẑ/(cκ)` returned by `unscale` satisfies, on the USER's data,
`c·κ·bᵀz < −tol_abs` (so `bᵀz < 0`) and
`‖Aᵀz‖₂ < tol_rel · c · (−bᵀz) · max(1, κ‖z‖₂)` — with the constants `c`, `κ` exactly as
the code's test contains them. -/
theorem primal_cert_lemma (p : Problem ℝ n m) (sc : Scaling ℝ n m) (zh : Fin m → ℝ)
    (κ tabs trel : ℝ) (i : InfoS ℝ)
    (hd : ∀ j, 0 < sc.d j) (hc : 0 < sc.c) (hκ : 0 < κ) (htabs : 0 ≤ tabs)
    (hres : i.res_primal_inf = resPrimalInf p sc zh)
    (h : isPrimalInfeasible i (dot (p.scaled sc).b zh) tabs trel = true) :
    sc.c * κ * dot p.b (unZ sc κ zh) < -tabs
    ∧ dot p.b (unZ sc κ zh) < 0
    ∧ nrm (mulVT p.A (unZ sc κ zh))
        < trel * sc.c * (-(dot p.b (unZ sc κ zh))) * max 1 (κ * nrm (unZ sc κ zh)) := by
  obtain ⟨h1, h2⟩ := (isPrimalInfeasible_iff i _ _ _).mp h
  rw [dot_bz_unscale p sc zh κ hc.ne' hκ.ne'] at h1 h2
  set bz := dot p.b (unZ sc κ zh) with hbz
  have hck : 0 < sc.c * κ := mul_pos hc hκ
  have hneg : bz < 0 := by
    by_contra hcon
    have : 0 ≤ sc.c * κ * bz := mul_nonneg hck.le (not_lt.mp hcon)
    linarith
  refine ⟨h1, hneg, ?_⟩
  rw [hres] at h2
  unfold resPrimalInf at h2
  rw [nrm_Atz p sc zh κ hd hc hκ, nrm_unZ sc zh κ hc hκ]
  set N := nrm (fun j => rxInf (p.scaled sc) zh j * (1 / sc.d j)) with hN
  set Z := nrm (fun i => zh i * sc.e i) with hZ
  have hM : 0 < max 1 (Z * (1 / sc.c)) := lt_of_lt_of_le one_pos (le_max_left _ _)
  have h3 : N * (1 / sc.c) < -trel * (sc.c * κ * bz) * max 1 (Z * (1 / sc.c)) := by
    rwa [div_lt_iff₀ hM] at h2
  have e1 : κ * (Z * (1 / κ * (1 / sc.c))) = Z * (1 / sc.c) := by
    field_simp
  rw [e1]
  have h4 : N * (1 / sc.c) * (1 / κ) < -trel * (sc.c * κ * bz) * max 1 (Z * (1 / sc.c)) * (1 / κ) :=
    mul_lt_mul_of_pos_right h3 (by positivity)
  calc N * (1 / sc.c * (1 / κ)) = N * (1 / sc.c) * (1 / κ) := by ring
    _ < -trel * (sc.c * κ * bz) * max 1 (Z * (1 / sc.c)) * (1 / κ) := h4
    _ = trel * sc.c * (-bz) * max 1 (Z * (1 / sc.c)) := by field_simp

/-- **[F] `C02.dual_cert`.**  If `is_dual_infeasible` holds for an `info` whose
`res_dual_inf` is the value `Info.update` assigns, the κ-normalised `x = Dx̂/κ`,
`s = E⁻¹ŝ/κ` satisfy on the user's data: `c·κ·qᵀx < −tol_abs`, `qᵀx < 0`,
`‖Px‖₂ < tol_rel·(−qᵀx)·max(1, κ‖x‖₂)` (here `c` cancels) and
`‖Ax+s‖₂ < tol_rel·c·(−qᵀx)·max(1, κ(‖x‖₂+‖s‖₂))` (here it does not). -/
theorem dual_cert_lemma (p : Problem ℝ n m) (sc : Scaling ℝ n m) (xh : Fin n → ℝ) (sh : Fin m → ℝ)
    (κ tabs trel : ℝ) (i : InfoS ℝ)
    (hd : ∀ j, 0 < sc.d j) (he : ∀ i, 0 < sc.e i) (hc : 0 < sc.c) (hκ : 0 < κ) (htabs : 0 ≤ tabs)
    (hres : i.res_dual_inf = resDualInf p sc xh sh)
    (h : isDualInfeasible i (dot (p.scaled sc).q xh) tabs trel = true) :
    sc.c * κ * dot p.q (unX sc κ xh) < -tabs
    ∧ dot p.q (unX sc κ xh) < 0
    ∧ nrm (mulV p.P (unX sc κ xh))
        < trel * (-(dot p.q (unX sc κ xh))) * max 1 (κ * nrm (unX sc κ xh))
    ∧ nrm (fun i => mulV p.A (unX sc κ xh) i + unS sc κ sh i)
        < trel * sc.c * (-(dot p.q (unX sc κ xh)))
            * max 1 (κ * (nrm (unX sc κ xh) + nrm (unS sc κ sh))) := by
  obtain ⟨h1, h2⟩ := (isDualInfeasible_iff i _ _ _).mp h
  rw [dot_qx_unscale p sc xh κ hκ.ne'] at h1 h2
  set qx := dot p.q (unX sc κ xh) with hqx
  have hck : 0 < sc.c * κ := mul_pos hc hκ
  have hneg : qx < 0 := by
    by_contra hcon
    have : 0 ≤ sc.c * κ * qx := mul_nonneg hck.le (not_lt.mp hcon)
    linarith
  refine ⟨h1, hneg, ?_, ?_⟩
  · rw [hres] at h2
    unfold resDualInf at h2
    have h3 := lt_of_le_of_lt (le_max_left _ _) h2
    rw [nrm_Px p sc xh κ hd hc hκ, nrm_unX sc xh κ hκ]
    set N := nrm (fun j => mulV (p.scaled sc).P xh j * (1 / sc.d j)) with hN
    set X := nrm (fun j => xh j * sc.d j) with hX
    have hM : 0 < max 1 X := lt_of_lt_of_le one_pos (le_max_left _ _)
    rw [div_lt_iff₀ hM] at h3
    have e1 : κ * (X * (1 / κ)) = X := by field_simp
    rw [e1]
    have h4 : N * (1 / sc.c * (1 / κ)) < -trel * (sc.c * κ * qx) * max 1 X * (1 / sc.c * (1 / κ)) :=
      mul_lt_mul_of_pos_right h3 (by positivity)
    calc N * (1 / sc.c * (1 / κ)) < -trel * (sc.c * κ * qx) * max 1 X * (1 / sc.c * (1 / κ)) := h4
      _ = trel * (-qx) * max 1 X := by field_simp
  · rw [hres] at h2
    unfold resDualInf at h2
    have h3 := lt_of_le_of_lt (le_max_right _ _) h2
    rw [nrm_Axs p sc xh sh κ he hκ, nrm_unX sc xh κ hκ, nrm_unS sc sh κ hκ]
    set N := nrm (fun i => rzInf (p.scaled sc) xh sh i * (1 / sc.e i)) with hN
    set X := nrm (fun j => xh j * sc.d j) with hX
    set S := nrm (fun i => sh i * (1 / sc.e i)) with hS
    have hM : 0 < max 1 (X + S) := lt_of_lt_of_le one_pos (le_max_left _ _)
    rw [div_lt_iff₀ hM] at h3
    have e1 : κ * (X * (1 / κ) + S * (1 / κ)) = X + S := by field_simp
    rw [e1]
    have h4 : N * (1 / κ) < -trel * (sc.c * κ * qx) * max 1 (X + S) * (1 / κ) :=
      mul_lt_mul_of_pos_right h3 (by positivity)
    calc N * (1 / κ) < -trel * (sc.c * κ * qx) * max 1 (X + S) * (1 / κ) := h4
      _ = trel * sc.c * (-qx) * max 1 (X + S) := by field_simp

/-- **[R] `C02.primal_infeasible_certifies_user_problem`** — end to end, no assumed relation
between internal and user data.  `dt`: the data as `DefaultProblemData::new` leaves them
(`UserData`); `dt'`: what the model's own `Equil.equilibrate` returns; `r`: what
`Residuals.update` returns on the internal data for the iterate `v` (`κ > 0`); `info'`: what
`Info.update` assigns.  If the convergence check — `check_convergence_full`
(`almost = false`) or `check_convergence_almost` (`almost = true`, reduced tolerances) —
newly assigns (Almost)PrimalInfeasible, then the κ-normalised `z` that `Variables.unscale`
returns satisfies on the USER's `A`, `b` (dense meaning of `dt.A`, `dt.b`):
`c·κ·bᵀz < −tol_infeas_abs`, hence `bᵀz < 0`, and
`‖Aᵀz‖₂ < tol_infeas_rel · c · (−bᵀz) · max(1, κ‖z‖₂)`, with `c = dt'.equilibration.c` and
`κ = v.κ` exactly as the code's test contains them; moreover `κ/τ > 1000/tol_ktratio` and
`|z| = m`.  Composition of C10 (`scaled_data`, `inverse_scalings`, `scalings_positive`), C16
(`gemvT_spec`, …) and `primal_cert`. -/
theorem primal_infeasible_chain (almost : Bool)
    (dt dt' : ProblemData ℝ) (cones : List (ConeT ℝ)) (es : Equil.Settings ℝ)
    (hu : UserData dt cones es) (heq : Equil.equilibrate dt cones es = .ok dt')
    (v : Vars ℝ) (r0 r : Resid ℝ) (hsh : StateShapes dt.n dt.m v r0) (hκ : 0 < v.κ)
    (hr : Residuals.update r0 v (toResidData dt') = .ok r)
    (i i' : InfoS ℝ) (normq normb : ℝ)
    (hi : Info.update i (toInfoEquil dt'.equilibration) normq normb v r = .ok i')
    (s : Settings ℝ)
    (htabs : 0 ≤ (if almost then s.reduced else s.full).infeas_abs)
    (h0 : i'.status ≠ (if almost then .almostPrimalInfeasible else .primalInfeasible))
    (h : (if almost then checkConvergenceAlmost i' r.dot_bz r.dot_qx s
          else checkConvergenceFull i' r.dot_bz r.dot_qx s).status
        = (if almost then .almostPrimalInfeasible else .primalInfeasible)) :
    let t := if almost then s.reduced else s.full
    let out := Unscale.unscale v (toInfoEquil dt'.equilibration) true
    let p := problemOf dt.P dt.q dt.A dt.b dt.n dt.m
    let z := vecFn out.z dt.m
    let c := dt'.equilibration.c
    c * v.κ * dot p.b z < -t.infeas_abs
    ∧ dot p.b z < 0
    ∧ nrm (mulVT p.A z) < t.infeas_rel * c * (-(dot p.b z)) * max 1 (v.κ * nrm z)
    ∧ v.κ * (1 / v.τ) > (1 / t.ktratio) * 1000
    ∧ out.z.size = dt.m := by
  intro t out p z c
  have cf := chain_facts dt dt' cones es hu heq v r0 r hsh hr i i' normq normb hi true
  simp only [↓reduceIte] at cf
  have hconv : i'.ktratio > (1 / t.ktratio) * 1000 ∧ r.dot_bz < -t.infeas_abs
      ∧ i'.res_primal_inf < -t.infeas_rel * r.dot_bz := by
    cases almost with
    | false =>
      simp only [Bool.false_eq_true, ↓reduceIte] at h h0 ⊢
      exact conv_pinf i' _ _ s.full .solved .primalInfeasible .dualInfeasible h h0 (by decide) (by decide)
    | true =>
      simp only [↓reduceIte] at h h0 ⊢
      exact conv_pinf i' _ _ s.reduced .almostSolved .almostPrimalInfeasible .almostDualInfeasible h h0
        (by decide) (by decide)
  obtain ⟨hk, hbz, hres⟩ := hconv
  have hpi : isPrimalInfeasible i' (dot ((p.scaled (scalingOf dt'.equilibration dt.n dt.m)).b) (vecFn v.z dt.m))
      t.infeas_abs t.infeas_rel = true := by
    rw [isPrimalInfeasible_iff, ← cf.dot_bz]; exact ⟨hbz, hres⟩
  obtain ⟨c1, c2, c3⟩ := primal_cert_lemma p (scalingOf dt'.equilibration dt.n dt.m) (vecFn v.z dt.m) v.κ
    t.infeas_abs t.infeas_rel i' cf.dpos cf.cpos hκ htabs cf.res_primal_inf hpi
  have hz : z = unZ (scalingOf dt'.equilibration dt.n dt.m) v.κ (vecFn v.z dt.m) := cf.z
  rw [hz]
  refine ⟨c1, c2, c3, ?_, cf.szz⟩
  rw [← cf.ktratio]; exact hk

/-- **[R] `C02.dual_infeasible_certifies_user_problem`** — the dual analogue, end to end: if
the convergence check (full or reduced tolerances) newly assigns (Almost)DualInfeasible, the
κ-normalised `x`, `s` that `unscale` returns satisfy on the USER's `P`, `q`, `A`:
`c·κ·qᵀx < −tol_infeas_abs`, `qᵀx < 0`,
`‖Px‖₂ < tol_infeas_rel·(−qᵀx)·max(1, κ‖x‖₂)` and
`‖Ax+s‖₂ < tol_infeas_rel·c·(−qᵀx)·max(1, κ(‖x‖₂+‖s‖₂))`; `κ/τ > 1000/tol_ktratio`;
`|x| = n`, `|s| = m`. -/
theorem dual_infeasible_chain (almost : Bool)
    (dt dt' : ProblemData ℝ) (cones : List (ConeT ℝ)) (es : Equil.Settings ℝ)
    (hu : UserData dt cones es) (heq : Equil.equilibrate dt cones es = .ok dt')
    (v : Vars ℝ) (r0 r : Resid ℝ) (hsh : StateShapes dt.n dt.m v r0) (hκ : 0 < v.κ)
    (hr : Residuals.update r0 v (toResidData dt') = .ok r)
    (i i' : InfoS ℝ) (normq normb : ℝ)
    (hi : Info.update i (toInfoEquil dt'.equilibration) normq normb v r = .ok i')
    (s : Settings ℝ)
    (htabs : 0 ≤ (if almost then s.reduced else s.full).infeas_abs)
    (h0 : i'.status ≠ (if almost then .almostDualInfeasible else .dualInfeasible))
    (h : (if almost then checkConvergenceAlmost i' r.dot_bz r.dot_qx s
          else checkConvergenceFull i' r.dot_bz r.dot_qx s).status
        = (if almost then .almostDualInfeasible else .dualInfeasible)) :
    let t := if almost then s.reduced else s.full
    let out := Unscale.unscale v (toInfoEquil dt'.equilibration) true
    let p := problemOf dt.P dt.q dt.A dt.b dt.n dt.m
    let x := vecFn out.x dt.n
    let sv := vecFn out.s dt.m
    let c := dt'.equilibration.c
    c * v.κ * dot p.q x < -t.infeas_abs
    ∧ dot p.q x < 0
    ∧ nrm (mulV p.P x) < t.infeas_rel * (-(dot p.q x)) * max 1 (v.κ * nrm x)
    ∧ nrm (fun k => mulV p.A x k + sv k)
        < t.infeas_rel * c * (-(dot p.q x)) * max 1 (v.κ * (nrm x + nrm sv))
    ∧ v.κ * (1 / v.τ) > (1 / t.ktratio) * 1000
    ∧ out.x.size = dt.n ∧ out.s.size = dt.m := by
  intro t out p x sv c
  have cf := chain_facts dt dt' cones es hu heq v r0 r hsh hr i i' normq normb hi true
  simp only [↓reduceIte] at cf
  have hconv : i'.ktratio > (1 / t.ktratio) * 1000 ∧ r.dot_qx < -t.infeas_abs
      ∧ i'.res_dual_inf < -t.infeas_rel * r.dot_qx := by
    cases almost with
    | false =>
      simp only [Bool.false_eq_true, ↓reduceIte] at h h0 ⊢
      exact conv_dinf i' _ _ s.full .solved .primalInfeasible .dualInfeasible h h0 (by decide) (by decide)
    | true =>
      simp only [↓reduceIte] at h h0 ⊢
      exact conv_dinf i' _ _ s.reduced .almostSolved .almostPrimalInfeasible .almostDualInfeasible h h0
        (by decide) (by decide)
  obtain ⟨hk, hqx, hres⟩ := hconv
  have hdi : isDualInfeasible i' (dot ((p.scaled (scalingOf dt'.equilibration dt.n dt.m)).q) (vecFn v.x dt.n))
      t.infeas_abs t.infeas_rel = true := by
    rw [isDualInfeasible_iff, ← cf.dot_qx]; exact ⟨hqx, hres⟩
  obtain ⟨c1, c2, c3, c4⟩ := dual_cert_lemma p (scalingOf dt'.equilibration dt.n dt.m) (vecFn v.x dt.n)
    (vecFn v.s dt.m) v.κ t.infeas_abs t.infeas_rel i' cf.dpos cf.epos cf.cpos hκ htabs
    cf.res_dual_inf hdi
  have hx : x = unX (scalingOf dt'.equilibration dt.n dt.m) v.κ (vecFn v.x dt.n) := cf.x
  have hs : sv = unS (scalingOf dt'.equilibration dt.n dt.m) v.κ (vecFn v.s dt.m) := cf.s
  rw [hx, hs]
  refine ⟨c1, c2, c3, c4, ?_, cf.szx, cf.szs⟩
  rw [← cf.ktratio]; exact hk

end Clarabel.InfoUser
