/-
  C08 on the whole-solver model: lemmas about `KSync` / `MapFacts` (`Lemmas/UpdateSolverDefs.lean`).

  * `KSync.of_fresh`          — a fresh object is synchronised with the values it holds;
  * `KSync.step_upd`          — a step that changes only what `KKTSolver::update` rewrites (`Upd`) keeps it;
  * `KSync.updateP/updateA`   — `_update_values(map.P, vals)` / `_update_values(map.A, vals)` replace the ghost
                                 array; `updateValues_total_P/A`: these calls never panic; `KInv.updateValues`;
  * `KSync.upd`               — two objects synchronised with the same ghost arrays are `Upd`-related;
  * `mapFacts_of_new`, `ksync_of_new` — the object built by `DirectLDLKKTSolver::new` on canonical data.

  All statements are class [S]: no arithmetic law of the scalar type is used.
-/
import ClarabelProofs.Lemmas.UpdateSolverDefs
import ClarabelProofs.Lemmas.UpdateOwnMaps

namespace Clarabel.Solver
open Clarabel Clarabel.Qdldl

set_option linter.unusedSectionVars false
set_option linter.unusedVariables false

variable {α : Type}

/-! ### small array facts -/

theorem ks_getD_of_some {a : Array Nat} {k d : Nat} (h : a[k]? = some d) : a.getD k 0 = d := by
  simp [Array.getD_eq_getD_getElem?, h]

theorem ks_some_getD {a : Array Nat} {k : Nat} (h : k < a.size) : a[k]? = some (a.getD k 0) := by
  simp [Array.getD_eq_getD_getElem?, Array.getElem?_eq_getElem h]

theorem ks_getD_mem {a : Array Nat} {k : Nat} (hk : k < a.size) : a.getD k 0 ∈ a.toList := by
  have : a.getD k 0 = a[k] := by simp [Array.getD_eq_getD_getElem?, Array.getElem?_eq_getElem hk]
  rw [this]
  exact Array.getElem_mem_toList hk

/-- a member of an index vector is one of its entries -/
theorem ks_mem_getD {a : Array Nat} {i : Nat} (h : i ∈ a.toList) : ∃ k, k < a.size ∧ a.getD k 0 = i := by
  obtain ⟨k, hk, e⟩ := List.getElem_of_mem h
  have hk' : k < a.size := by simpa using hk
  refine ⟨k, hk', ?_⟩
  rw [ks_getD_of_some (d := i)]
  rw [Array.getElem?_eq_getElem hk']
  simpa using e

/-- entries of a duplicate-free index vector at different places differ -/
theorem ks_nodup_getD {a : Array Nat} (hnd : a.toList.Nodup) {k k' : Nat} (hk : k < a.size) (hk' : k' < a.size)
    (h : a.getD k 0 = a.getD k' 0) : k = k' := by
  have e1 : a.getD k 0 = a.toList[k]'(by simpa using hk) := by
    simp [Array.getD_eq_getD_getElem?, Array.getElem?_eq_getElem hk]
  have e2 : a.getD k' 0 = a.toList[k']'(by simpa using hk') := by
    simp [Array.getD_eq_getD_getElem?, Array.getElem?_eq_getElem hk']
  rw [e1, e2] at h
  exact (List.Nodup.getElem_inj_iff hnd).mp h

theorem ks_foldlM_exists {ι σ : Type} (step : σ → ι → MErr σ) (Inv : σ → Prop) :
    ∀ (l : List ι), (∀ k ∈ l, ∀ s, Inv s → ∃ s', step s k = .ok s' ∧ Inv s') →
      ∀ s0, Inv s0 → ∃ s', l.foldlM step s0 = .ok s' ∧ Inv s'
  | [], _, s0, h0 => ⟨s0, rfl, h0⟩
  | k :: rest, h, s0, h0 => by
    obtain ⟨s1, hs1, hi1⟩ := h k (by simp) s0 h0
    obtain ⟨s', hs', hi'⟩ := ks_foldlM_exists step Inv rest (fun k' hk' => h k' (by simp [hk'])) s1 hi1
    refine ⟨s', ?_, hi'⟩
    rw [List.foldlM_cons, hs1]
    exact hs'

section ops
variable [Add α] [Sub α] [Mul α] [Div α] [Neg α] [OfNat α 0] [OfNat α 1] [LT α] [DecidableLT α]
  [LE α] [DecidableLE α] [BEq α] [FloatLike α]

/-! ### `QDLDLFactorisation::update_values`: what it writes, when it succeeds -/

/-- the loop of `update_values` over a list of places: only `triuA.nzval` changes, and only at
the addressed slots -/
theorem foldlM_updStep_frame {indices : Array Nat} {values : Array α} (is : List Nat)
    {F G : Factorisation α} (h : is.foldlM (updStep indices values) F = .ok G) :
    SameButNz F G ∧ AgreeOn (fun j => ¬ slotsOf F.AtoPAPt indices is j) F.triuA.nzval G.triuA.nzval := by
  refine foldlM_inv _ (fun H => SameButNz F H ∧
    AgreeOn (fun j => ¬ slotsOf F.AtoPAPt indices is j) F.triuA.nzval H.triuA.nzval) _ ?_ F G
    ⟨SameButNz.rfl' _, AgreeOn.rfl' _ _⟩ h
  rintro H i H1 hi ⟨hS, hA⟩ hs
  obtain ⟨hS1, idx, k, h1, h2, hA1⟩ := updStep_frame hs
  refine ⟨hS.trans hS1, hA.trans (hA1.mono ?_)⟩
  intro j hj e
  subst e
  rw [hS.map] at h2
  exact hj ⟨i, hi, idx, h1, h2⟩

/-- one step of `update_values`: the slot behind place `i` receives `values[i]` -/
theorem updStep_write {indices : Array Nat} {values : Array α} {F G : Factorisation α} {i : Nat}
    (h : updStep indices values F i = .ok G) :
    G.AtoPAPt = F.AtoPAPt ∧ ∃ idx k, indices[i]? = some idx ∧ F.AtoPAPt[idx]? = some k ∧
      k < G.triuA.nzval.size ∧ G.triuA.nzval[k]? = values[i]? := by
  unfold updStep at h
  obtain ⟨idx, hidx, h⟩ := bind_ok_inv h
  obtain ⟨k, hk, h⟩ := bind_ok_inv h
  obtain ⟨v, hv, h⟩ := bind_ok_inv h
  obtain ⟨nz, hnz, h⟩ := bind_ok_inv h
  cases h
  refine ⟨rfl, idx, k, getE_ok_iff.mp hidx, getE_ok_iff.mp hk, ?_⟩
  rw [getE_ok_iff.mp hv]
  unfold setE at hnz
  by_cases hlt : k < F.triuA.nzval.size
  · simp only [hlt, dif_pos] at hnz
    cases hnz
    exact ⟨by simpa using hlt, by simp [hlt]⟩
  · simp only [hlt, dif_neg, not_false_eq_true] at hnz
    cases hnz

/-- the loop of `update_values` over a list of places whose slots are pairwise distinct: the slot
behind every place `i` of the list holds `values[i]` afterwards -/
theorem foldlM_updStep_write {indices : Array Nat} {values : Array α} :
    ∀ (is : List Nat) {F G : Factorisation α}, is.foldlM (updStep indices values) F = .ok G →
      is.Pairwise (fun i i' => ∀ idx idx' k : Nat, indices[i]? = some idx → indices[i']? = some idx' →
        F.AtoPAPt[idx]? = some k → F.AtoPAPt[idx']? ≠ some k) →
      ∀ i ∈ is, ∃ idx k, indices[i]? = some idx ∧ F.AtoPAPt[idx]? = some k ∧
        G.triuA.nzval[k]? = values[i]?
  | [], _, _, _, _, i, hi => by cases hi
  | a :: is, F, G, h, hp, i, hi => by
    rw [List.foldlM_cons] at h
    obtain ⟨F1, h1, h2⟩ := bind_ok_inv h
    obtain ⟨hm1, idx, k, hidx, hk, _, hw⟩ := updStep_write h1
    rw [List.pairwise_cons] at hp
    rcases List.mem_cons.mp hi with e | hi'
    · subst e
      refine ⟨idx, k, hidx, hk, ?_⟩
      obtain ⟨_, hA⟩ := foldlM_updStep_frame is h2
      rw [← hA.2 k ?_]
      · exact hw
      · rintro ⟨i', hi', idx', g1, g2⟩
        rw [hm1] at g2
        exact hp.1 i' hi' idx idx' k hidx g1 hk g2
    · have := foldlM_updStep_write is h2 (by rw [hm1]; exact hp.2) i hi'
      rw [hm1] at this
      exact this

/-- **`update_values` writes**: after a successful run on an index vector whose slots
`AtoPAPt[indices[i]]` are pairwise distinct, `triuA.nzval[AtoPAPt[indices[i]]] = values[i]` for
every place `i` -/
theorem qdldl_updateValues_write {F G : Factorisation α} {indices : Array Nat} {values : Array α}
    (h : Qdldl.updateValues F indices values = .ok G)
    (hd : ∀ i i' idx idx' k : Nat, i ≠ i' → indices[i]? = some idx → indices[i']? = some idx' →
      F.AtoPAPt[idx]? = some k → F.AtoPAPt[idx']? ≠ some k)
    (i : Nat) (hi : i < indices.size) :
    ∃ idx k, indices[i]? = some idx ∧ F.AtoPAPt[idx]? = some k ∧ G.triuA.nzval[k]? = values[i]? := by
  rw [updateValues_eq] at h
  refine foldlM_updStep_write _ h ?_ i (List.mem_range.mpr hi)
  refine (List.pairwise_lt_range (n := indices.size)).imp ?_
  intro a b hab idx idx' k
  exact hd a b idx idx' k (by omega)

/-- **`update_values` does not panic** when there are enough values, every index has a slot and
every slot lies inside the value array -/
theorem qdldl_updateValues_total (F : Factorisation α) (indices : Array Nat) (values : Array α)
    (hsz : indices.size ≤ values.size) (hidx : ∀ idx ∈ indices.toList, idx < F.AtoPAPt.size)
    (hslot : ∀ k ∈ F.AtoPAPt.toList, k < F.triuA.nzval.size) :
    ∃ G, Qdldl.updateValues F indices values = .ok G := by
  rw [updateValues_eq]
  have key := ks_foldlM_exists (updStep indices values)
    (fun H => H.AtoPAPt = F.AtoPAPt ∧ H.triuA.nzval.size = F.triuA.nzval.size)
    (List.range indices.size) ?_ F ⟨rfl, rfl⟩
  · obtain ⟨G, hG, _⟩ := key
    exact ⟨G, hG⟩
  · rintro i hi H ⟨hH1, hH2⟩
    have hi' : i < indices.size := List.mem_range.mp hi
    have hlt : indices[i] < F.AtoPAPt.size := hidx _ (Array.getElem_mem_toList hi')
    have hk : F.AtoPAPt[indices[i]] < H.triuA.nzval.size := by
      rw [hH2]
      exact hslot _ (Array.getElem_mem_toList hlt)
    have hlt' : indices[i] < H.AtoPAPt.size := by rw [hH1]; exact hlt
    have e : H.AtoPAPt[indices[i]] = F.AtoPAPt[indices[i]] := by simp only [hH1]
    refine ⟨{ H with triuA := { H.triuA with nzval := H.triuA.nzval.set F.AtoPAPt[indices[i]] values[i] hk } },
      ?_, hH1, by simp [hH2]⟩
    unfold updStep
    rw [getE_ok_of_lt indices i _ hi']
    simp only [bind, Except.bind]
    rw [getE_ok_of_lt H.AtoPAPt _ _ hlt']
    simp only
    rw [getE_ok_of_lt values i _ (by omega)]
    simp only [e]
    unfold setE
    simp only [hk, dif_pos]
    rfl

end ops

section ksync
variable [Add α] [Sub α] [Mul α] [Div α] [Neg α] [OfNat α 0] [OfNat α 1] [OfNat α 2]
  [OfNat α 100] [OfNat α 1000] [LT α] [DecidableLT α] [LE α] [DecidableLE α] [BEq α] [FloatLike α]

/-! ### consequences of `MapFacts` -/

theorem MapFacts.ndP {K0 : KktSolver α} (hm : MapFacts K0) : K0.map.P.toList.Nodup :=
  (List.nodup_append.mp hm.nodup).1

theorem MapFacts.ndA {K0 : KktSolver α} (hm : MapFacts K0) : K0.map.A.toList.Nodup :=
  (List.nodup_append.mp hm.nodup).2.1

theorem MapFacts.disj {K0 : KktSolver α} (hm : MapFacts K0) {i : Nat} (hP : i ∈ K0.map.P.toList)
    (hA : i ∈ K0.map.A.toList) : False :=
  (List.nodup_append.mp hm.nodup).2.2 i hP i hA rfl

theorem MapFacts.boundP {K0 : KktSolver α} (hm : MapFacts K0) {k : Nat} (hk : k < K0.map.P.size) :
    K0.map.P.getD k 0 < K0.KKT.nzval.size :=
  hm.bound _ (List.mem_append_left _ (ks_getD_mem hk))

theorem MapFacts.boundA {K0 : KktSolver α} (hm : MapFacts K0) {k : Nat} (hk : k < K0.map.A.size) :
    K0.map.A.getD k 0 < K0.KKT.nzval.size :=
  hm.bound _ (List.mem_append_right _ (ks_getD_mem hk))

/-- the only position behind the slot of position `idx` is `idx` -/
theorem MapFacts.slot_eq {K0 : KktSolver α} (hm : MapFacts K0) {i idx : Nat} (hidx : idx < K0.KKT.nzval.size)
    (h : K0.ldl.AtoPAPt[i]? = some (K0.ldl.AtoPAPt.getD idx 0)) : i = idx :=
  hm.atopInj i idx (Array.getElem?_eq_some_iff.mp h).1 (by rw [hm.atopSize]; exact hidx) (ks_getD_of_some h)

/-! ### (P0) a fresh object -/

/-- [S] an object is synchronised with the values its two copies hold at the `P` / `A` positions -/
theorem KSync.of_fresh (lin : LinSettings α) (K0 : KktSolver α) (pk ak : Array α)
    (hP : ∀ k, k < K0.map.P.size → K0.KKT.nzval[K0.map.P.getD k 0]? = pk[k]?)
    (hA : ∀ k, k < K0.map.A.size → K0.KKT.nzval[K0.map.A.getD k 0]? = ak[k]?)
    (hlP : ∀ k, k < K0.map.P.size →
      K0.ldl.triuA.nzval[K0.ldl.AtoPAPt.getD (K0.map.P.getD k 0) 0]? = pk[k]?)
    (hlA : ∀ k, k < K0.map.A.size →
      K0.ldl.triuA.nzval[K0.ldl.AtoPAPt.getD (K0.map.A.getD k 0) 0]? = ak[k]?) :
    KSync lin K0 K0 pk ak :=
  { m := rfl, n := rfl, p := rfl, map := rfl, dsigns := rfl, hsz := rfl, km := rfl, kn := rfl, kcol := rfl,
    krow := rfl, nzsz := rfl, ldlS := LS.rfl' _ _, x := rfl, b := rfl, work1 := rfl, work2 := rfl,
    dr := fun _ => rfl, frame := fun _ _ _ _ => rfl, kP := hP, kA := hA, lframe := fun _ _ => rfl,
    lP := fun k hk _ => hlP k hk, lA := fun k hk _ => hlA k hk }

/-! ### (P1) a step that changes only what `update` rewrites -/

/-- [S] `K2` differs from `K` only in what `KKTSolver::update` rewrites: still synchronised -/
theorem KSync.step_upd {lin : LinSettings α} {K0 K K2 : KktSolver α} {pk ak : Array α}
    (hm : MapFacts K0) (h : KSync lin K0 K pk ak) (hu : Upd lin K K2) : KSync lin K0 K2 pk ak := by
  have hmap : K.map = K0.map := h.map.symm
  have hat : K.ldl.AtoPAPt = K0.ldl.AtoPAPt := h.ldlS.map.symm
  have hnz : ∀ i, ¬ WK K0.map i → K2.KKT.nzval[i]? = K.KKT.nzval[i]? := by
    intro i hi
    exact (hu.nz.2 i (by rw [hmap]; exact hi)).symm
  have hl : ∀ j, ¬ slotsOfSet K0.ldl.AtoPAPt (WL lin K0.map) j →
      K2.ldl.triuA.nzval[j]? = K.ldl.triuA.nzval[j]? := by
    intro j hj
    exact (hu.ldl.tnz.2 j (by rw [hmap, hat]; exact hj)).symm
  -- the slot of a position outside `WL` is no `WL` slot
  have hslot : ∀ idx, idx < K0.KKT.nzval.size → ¬ WL lin K0.map idx →
      ¬ slotsOfSet K0.ldl.AtoPAPt (WL lin K0.map) (K0.ldl.AtoPAPt.getD idx 0) := by
    rintro idx hidx hW ⟨i, hi, hij⟩
    have := hm.slot_eq hidx hij
    subst this
    exact hW hi
  exact
    { m := h.m.trans hu.m, n := h.n.trans hu.n, p := h.p.trans hu.p, map := h.map.trans hu.map,
      dsigns := h.dsigns.trans hu.dsigns, hsz := h.hsz.trans hu.hsz, km := h.km.trans hu.km,
      kn := h.kn.trans hu.kn, kcol := h.kcol.trans hu.kcol, krow := h.krow.trans hu.krow,
      nzsz := h.nzsz.trans hu.nz.1, ldlS := h.ldlS.trans (hu.ldl.mono fun _ hf => hf.elim),
      x := h.x.trans hu.x, b := h.b.trans hu.b, work1 := h.work1.trans hu.work1,
      work2 := h.work2.trans hu.work2, dr := fun e => (h.dr e).trans (hu.dr e),
      frame := fun i hW hP hA => (hnz i hW).trans (h.frame i hW hP hA),
      kP := fun k hk => (hnz _ (hm.notWK _ (List.mem_append_left _ (ks_getD_mem hk)))).trans (h.kP k hk),
      kA := fun k hk => (hnz _ (hm.notWK _ (List.mem_append_right _ (ks_getD_mem hk)))).trans (h.kA k hk),
      lframe := fun j hj => (hl j (fun ⟨i, hi, hij⟩ => (hj i hij).1 hi)).trans (h.lframe j hj),
      lP := fun k hk hW => (hl _ (hslot _ (hm.boundP hk) hW)).trans (h.lP k hk hW),
      lA := fun k hk hW => (hl _ (hslot _ (hm.boundA hk) hW)).trans (h.lA k hk hW) }

/-! ### (P2) `_update_values` -/

/-- `_update_values(ix, vals)` with a duplicate-free index vector on an object whose entry map is
injective: what the two copies hold afterwards -/
theorem updateValues_core {K K' : KktSolver α} {ix : Array Nat} {vals : Array α}
    (hu : K.updateValues ix vals = .ok K') (hnd : ix.toList.Nodup)
    (hinj : ∀ i j, i < K.ldl.AtoPAPt.size → j < K.ldl.AtoPAPt.size →
      K.ldl.AtoPAPt.getD i 0 = K.ldl.AtoPAPt.getD j 0 → i = j) :
    ∃ nz F, K' = { K with KKT := { K.KKT with nzval := nz }, ldl := F } ∧
      nz.size = K.KKT.nzval.size ∧ SameButNz K.ldl F ∧
      K.ldl.triuA.nzval.size = F.triuA.nzval.size ∧
      (∀ i, i ∉ ix.toList → nz[i]? = K.KKT.nzval[i]?) ∧
      (∀ k, k < ix.size → nz[ix.getD k 0]? = vals[k]?) ∧
      (∀ j, ¬ slotsOfIdx K.ldl.AtoPAPt ix.toList j → F.triuA.nzval[j]? = K.ldl.triuA.nzval[j]?) ∧
      (∀ k, k < ix.size → F.triuA.nzval[K.ldl.AtoPAPt.getD (ix.getD k 0) 0]? = vals[k]?) := by
  unfold KktSolver.updateValues at hu
  obtain ⟨nz, hnz, hu⟩ := bind_ok_inv hu
  obtain ⟨F, hF, hu⟩ := bind_ok_inv hu
  cases hu
  have hsz := updateValues_ok_size hF
  obtain ⟨hS, hA⟩ := updateValues_frame hF
  refine ⟨nz, F, rfl, Clarabel.Kkt.updateValuesKKT_size hnz, hS, hA.1, ?_, ?_, ?_, ?_⟩
  · intro i hi
    exact ((updateValuesKKT_frame hnz).2 i hi).symm
  · intro k hk
    have hk2 : k < vals.size := by omega
    have := Clarabel.Kkt.updateValuesKKT_write hnz hnd k hk hk2
    have e : ix.getD k 0 = ix[k] := by simp [Array.getD_eq_getD_getElem?, Array.getElem?_eq_getElem hk]
    rw [e, this, Array.getElem?_eq_getElem hk2]
  · intro j hj
    exact (hA.2 j hj).symm
  · intro k hk
    have hd : ∀ i i' idx idx' s : Nat, i ≠ i' → ix[i]? = some idx → ix[i']? = some idx' →
        K.ldl.AtoPAPt[idx]? = some s → K.ldl.AtoPAPt[idx']? ≠ some s := by
      intro i i' idx idx' s hne g1 g2 g3 g4
      have hi := (Array.getElem?_eq_some_iff.mp g1).1
      have hi' := (Array.getElem?_eq_some_iff.mp g2).1
      have hx := (Array.getElem?_eq_some_iff.mp g3).1
      have hx' := (Array.getElem?_eq_some_iff.mp g4).1
      have e : idx = idx' := hinj idx idx' hx hx' (by rw [ks_getD_of_some g3, ks_getD_of_some g4])
      subst e
      exact hne (ks_nodup_getD hnd hi hi' (by rw [ks_getD_of_some g1, ks_getD_of_some g2]))
    obtain ⟨idx, kk, h1, h2, h3⟩ := qdldl_updateValues_write hF hd k hk
    rw [ks_getD_of_some h1, ks_getD_of_some h2]
    exact h3

/-- [S] **`_update_values(map.P, vals)`** replaces the ghost array of the `P` block -/
theorem KSync.updateP {lin : LinSettings α} {K0 K K' : KktSolver α} {pk ak vals : Array α}
    (hm : MapFacts K0) (h : KSync lin K0 K pk ak) (hsz : vals.size = K0.map.P.size)
    (hu : K.updateValues K.map.P vals = .ok K') : KSync lin K0 K' vals ak := by
  have hat : K.ldl.AtoPAPt = K0.ldl.AtoPAPt := h.ldlS.map.symm
  rw [← h.map] at hu
  obtain ⟨nz, F, rfl, hnzs, hS, hFs, c1, c2, c3, c4⟩ :=
    updateValues_core hu hm.ndP (by rw [hat]; exact hm.atopInj)
  rw [hat] at c3 c4
  exact
    { m := h.m, n := h.n, p := h.p, map := h.map, dsigns := h.dsigns, hsz := h.hsz, km := h.km, kn := h.kn,
      kcol := h.kcol, krow := h.krow, nzsz := h.nzsz.trans hnzs.symm,
      ldlS := h.ldlS.trans (hS.ls ⟨hFs, fun _ hf => hf.elim⟩),
      x := h.x, b := h.b, work1 := h.work1, work2 := h.work2, dr := h.dr,
      frame := fun i hW hP hA => (c1 i hP).trans (h.frame i hW hP hA),
      kP := fun k hk => c2 k hk,
      kA := fun k hk => (c1 _ (fun hP => hm.disj hP (ks_getD_mem hk))).trans (h.kA k hk),
      lframe := fun j hj => (c3 j (fun ⟨idx, hmem, hij⟩ => (hj idx hij).2.1 hmem)).trans (h.lframe j hj),
      lP := fun k hk _ => c4 k hk,
      lA := fun k hk hW => (c3 _ (fun ⟨idx, hmem, hij⟩ => by
        have := hm.slot_eq (hm.boundA hk) hij
        subst this
        exact hm.disj hmem (ks_getD_mem hk))).trans (h.lA k hk hW) }

/-- [S] **`_update_values(map.A, vals)`** replaces the ghost array of the `A` block -/
theorem KSync.updateA {lin : LinSettings α} {K0 K K' : KktSolver α} {pk ak vals : Array α}
    (hm : MapFacts K0) (h : KSync lin K0 K pk ak) (hsz : vals.size = K0.map.A.size)
    (hu : K.updateValues K.map.A vals = .ok K') : KSync lin K0 K' pk vals := by
  have hat : K.ldl.AtoPAPt = K0.ldl.AtoPAPt := h.ldlS.map.symm
  rw [← h.map] at hu
  obtain ⟨nz, F, rfl, hnzs, hS, hFs, c1, c2, c3, c4⟩ :=
    updateValues_core hu hm.ndA (by rw [hat]; exact hm.atopInj)
  rw [hat] at c3 c4
  exact
    { m := h.m, n := h.n, p := h.p, map := h.map, dsigns := h.dsigns, hsz := h.hsz, km := h.km, kn := h.kn,
      kcol := h.kcol, krow := h.krow, nzsz := h.nzsz.trans hnzs.symm,
      ldlS := h.ldlS.trans (hS.ls ⟨hFs, fun _ hf => hf.elim⟩),
      x := h.x, b := h.b, work1 := h.work1, work2 := h.work2, dr := h.dr,
      frame := fun i hW hP hA => (c1 i hA).trans (h.frame i hW hP hA),
      kP := fun k hk => (c1 _ (fun hA => hm.disj (ks_getD_mem hk) hA)).trans (h.kP k hk),
      kA := fun k hk => c2 k hk,
      lframe := fun j hj => (c3 j (fun ⟨idx, hmem, hij⟩ => (hj idx hij).2.2 hmem)).trans (h.lframe j hj),
      lP := fun k hk hW => (c3 _ (fun ⟨idx, hmem, hij⟩ => by
        have := hm.slot_eq (hm.boundP hk) hij
        subst this
        exact hm.disj (ks_getD_mem hk) hmem)).trans (h.lP k hk hW),
      lA := fun k hk _ => c4 k hk }

/-- `_update_values(ix, vals)` does not panic on an object with the structure of `K0` when the
index vector addresses stored positions and there are enough values -/
theorem updateValues_total_of {lin : LinSettings α} {K0 K : KktSolver α} {pk ak : Array α}
    (hm : MapFacts K0) (h : KSync lin K0 K pk ak) (ix : Array Nat) (vals : Array α)
    (hix : ∀ i ∈ ix.toList, i < K0.KKT.nzval.size) (hsz : ix.size ≤ vals.size) :
    ∃ K', K.updateValues ix vals = .ok K' := by
  obtain ⟨nz, hnz, _⟩ := Clarabel.Lemmas.KktUpdateTotal.updateValuesKKT_exists K.KKT.nzval ix vals
    (by rw [← h.nzsz]; exact hix)
  obtain ⟨F, hF⟩ := qdldl_updateValues_total K.ldl ix vals hsz
    (by rw [← h.ldlS.map, hm.atopSize]; exact hix)
    (by rw [← h.ldlS.map, ← h.ldlS.tnz.1]; exact hm.atopBound)
  refine ⟨{ K with KKT := { K.KKT with nzval := nz }, ldl := F }, ?_⟩
  unfold KktSolver.updateValues
  rw [hnz, hF]
  rfl

/-- [S] `_update_values(map.P, vals)` does not panic -/
theorem updateValues_total_P {K0 K : KktSolver α} {lin : LinSettings α} {pk ak vals : Array α}
    (hm : MapFacts K0) (h : KSync lin K0 K pk ak) (hsz : vals.size = K0.map.P.size) :
    ∃ K', K.updateValues K.map.P vals = .ok K' := by
  rw [← h.map]
  exact updateValues_total_of hm h _ _ (fun i hi => hm.bound i (List.mem_append_left _ hi)) (by omega)

/-- [S] `_update_values(map.A, vals)` does not panic -/
theorem updateValues_total_A {K0 K : KktSolver α} {lin : LinSettings α} {pk ak vals : Array α}
    (hm : MapFacts K0) (h : KSync lin K0 K pk ak) (hsz : vals.size = K0.map.A.size) :
    ∃ K', K.updateValues K.map.A vals = .ok K' := by
  rw [← h.map]
  exact updateValues_total_of hm h _ _ (fun i hi => hm.bound i (List.mem_append_right _ hi)) (by omega)

/-- [S] `_update_values` keeps the invariant of the linear-solver object -/
theorem KInv.updateValues {K K' : KktSolver α} (hI : KInv K) {idx : Array Nat} {vals : Array α}
    (hu : K.updateValues idx vals = .ok K') : KInv K' := by
  unfold KktSolver.updateValues at hu
  obtain ⟨nz, _, hu⟩ := bind_ok_inv hu
  obtain ⟨F, hF, hu⟩ := bind_ok_inv hu
  cases hu
  exact ⟨hI.ldl.updateValues hF, hI.x, hI.work1, hI.work2⟩

/-! ### (P4) the same ghost values -/

/-- [S] two objects synchronised with the same ghost arrays differ only in what
`KKTSolver::update` rewrites -/
theorem KSync.upd {lin : LinSettings α} {K0 K K' : KktSolver α} {pk ak : Array α}
    (h : KSync lin K0 K pk ak) (h' : KSync lin K0 K' pk ak) : Upd lin K K' := by
  have hmap : K.map = K0.map := h.map.symm
  have hat : K.ldl.AtoPAPt = K0.ldl.AtoPAPt := h.ldlS.map.symm
  have hls : LS (fun _ => False) K.ldl K'.ldl := h.ldlS.symm.trans h'.ldlS
  have hnz : AgreeOn (fun i => ¬ WK K.map i) K.KKT.nzval K'.KKT.nzval := by
    refine ⟨h.nzsz.symm.trans h'.nzsz, ?_⟩
    intro i hi
    have hi' : ¬ WK K0.map i := by rw [← hmap]; exact hi
    by_cases hP : i ∈ K0.map.P.toList
    · obtain ⟨k, hk, e⟩ := ks_mem_getD hP
      subst e
      rw [h.kP k hk, h'.kP k hk]
    · by_cases hA : i ∈ K0.map.A.toList
      · obtain ⟨k, hk, e⟩ := ks_mem_getD hA
        subst e
        rw [h.kA k hk, h'.kA k hk]
      · rw [h.frame i hi' hP hA, h'.frame i hi' hP hA]
  have hl : AgreeOn (fun j => ¬ slotsOfSet K.ldl.AtoPAPt (WL lin K.map) j) K.ldl.triuA.nzval
      K'.ldl.triuA.nzval := by
    refine ⟨hls.tnz.1, ?_⟩
    intro j hj
    have hj' : ¬ slotsOfSet K0.ldl.AtoPAPt (WL lin K0.map) j := by rw [← hmap, ← hat]; exact hj
    by_cases hex : ∃ i, K0.ldl.AtoPAPt[i]? = some j ∧ (i ∈ K0.map.P.toList ∨ i ∈ K0.map.A.toList)
    · obtain ⟨i, hij, hPA⟩ := hex
      have hW : ¬ WL lin K0.map i := fun hW => hj' ⟨i, hW, hij⟩
      have hg := ks_getD_of_some hij
      rcases hPA with hP | hA
      · obtain ⟨k, hk, e⟩ := ks_mem_getD hP
        subst e
        rw [← hg, h.lP k hk hW, h'.lP k hk hW]
      · obtain ⟨k, hk, e⟩ := ks_mem_getD hA
        subst e
        rw [← hg, h.lA k hk hW, h'.lA k hk hW]
    · have hall : ∀ i, K0.ldl.AtoPAPt[i]? = some j →
          ¬ WL lin K0.map i ∧ i ∉ K0.map.P.toList ∧ i ∉ K0.map.A.toList :=
        fun i hij => ⟨fun hW => hj' ⟨i, hW, hij⟩, fun hP => hex ⟨i, hij, Or.inl hP⟩,
          fun hA => hex ⟨i, hij, Or.inr hA⟩⟩
      rw [h.lframe j hall, h'.lframe j hall]
  exact
    { m := h.m.symm.trans h'.m, n := h.n.symm.trans h'.n, p := h.p.symm.trans h'.p,
      map := h.map.symm.trans h'.map, dsigns := h.dsigns.symm.trans h'.dsigns,
      hsz := h.hsz.symm.trans h'.hsz, km := h.km.symm.trans h'.km, kn := h.kn.symm.trans h'.kn,
      kcol := h.kcol.symm.trans h'.kcol, krow := h.krow.symm.trans h'.krow, nz := hnz,
      ldl := { hls with tnz := hl }, dr := fun e => (h.dr e).symm.trans (h'.dr e),
      x := h.x.symm.trans h'.x, b := h.b.symm.trans h'.b, work1 := h.work1.symm.trans h'.work1,
      work2 := h.work2.symm.trans h'.work2 }

/-! ### (P5) the object built by `DirectLDLKKTSolver::new` -/

/-- the positions an expansion map addresses: the two spellings agree -/
theorem sparseIdx_eq_indices (mp : Kkt.SparseMap) : sparseIdx mp = mp.indices := by
  cases mp <;> rfl

/-- a duplicate-free list of `n` naturals below `n` contains every natural below `n` -/
theorem ks_pigeon (l : List Nat) (n : Nat) (hnd : l.Nodup) (hlt : ∀ i ∈ l, i < n) (hlen : l.length = n) :
    ∀ j, j < n → j ∈ l := by
  intro j hj
  have hsub : l ⊆ List.range n := fun i hi => List.mem_range.mpr (hlt i hi)
  have hp : l.Perm (List.range n) :=
    (List.subperm_of_subset hnd hsub).perm_of_length_le (by simp [hlen])
  exact hp.mem_iff.mpr (List.mem_range.mpr hj)

open Clarabel.Lemmas.KktSpec (KktInputs asmRun_of_ok) in
open Clarabel.Lemmas.KktFillMaps (SlotU) in
/-- [S] **the `P` / `A` positions of the assembled KKT matrix are rewritten by no `update`**: a
position of `map.P` / `map.A` belongs to no `Hs` block and to no expansion index vector (from
`KktDistinct.pa_positions_free`: the writes of the `[P Aᵀ]` block rows have other coordinates) -/
theorem pa_notWK {P A : Csc α} {cones : List Kkt.ConeSpec} {K : Csc α} {map : Kkt.LDLDataMap}
    (hin : KktInputs P A cones) (h : Kkt.assembleKktMatrix P A cones .triu = .ok (K, map)) :
    ∀ i ∈ map.P.toList ++ map.A.toList, ¬ WK map i := by
  obtain ⟨sched, Kc, nd, R⟩ := asmRun_of_ok hin h
  have hsz := C11.assembly_map_sizes hin h
  have hszP : map.P.size = P.nzval.size := by
    rw [hsz.1, Clarabel.Lemmas.KktLength.nnz_of_canon hin.P_canon, hin.P_canon.nzval_size]
  have hszA : map.A.size = A.nzval.size := by
    rw [hsz.2.1, Clarabel.Lemmas.KktLength.nnz_of_canon hin.A_canon, hin.A_canon.nzval_size]
  have M := C11.assembly_maps hin h
  have key : ∀ (d r c : Nat) (v : α),
      SlotU .triu (Csc.colcountToColptr Kc).colptr sched (some d) r c v → r < A.n → c < A.n + A.m →
      ¬ WK map d := by
    intro d r c v hs hr hc
    obtain ⟨f1, f2⟩ := Clarabel.Lemmas.KktDistinct.pa_positions_free R hin.m_eq hs hr hc
    rintro (hH | ⟨s, _, _, mp, hmp, hmem⟩)
    · exact f1 hH
    · refine f2 mp (Array.mem_toList_iff.mpr (Array.mem_of_getElem? hmp)) ?_
      rw [← sparseIdx_eq_indices]
      exact hmem
  have toListGet : ∀ (a : Array Nat) (k : Nat) (hk : k < a.toList.length) (d : Nat),
      a[k]? = some d → a.toList[k] = d := by
    intro a k hk d hd
    have hk' : k < a.size := by simpa using hk
    rw [Array.getElem?_eq_getElem hk'] at hd
    simpa using hd
  intro i hi
  rcases List.mem_append.mp hi with hi | hi
  · obtain ⟨x, hx, rfl⟩ := List.mem_iff_getElem.mp hi
    have hx' : x < P.nzval.size := by rw [← hszP]; simpa using hx
    obtain ⟨c, hc, h1, h2, hr, hv⟩ := Clarabel.Update.canon_entry_own hin.P_canon x hx'
    obtain ⟨d, hd, _⟩ := M.P_map c x _ _ hc h1 h2 hr hv
    have hs := R.fill.P_slots c x _ _ hc h1 h2 hr hv
    rw [hd] at hs
    rw [toListGet map.P x hx d hd]
    have hrow : P.rowval[x]! < P.m := hin.P_canon.rows_lt x (by rw [← hin.P_canon.nzval_size]; exact hx')
    have e1 := hin.P_square
    have e2 := hin.n_eq
    exact key d _ _ _ hs (by omega) (by omega)
  · obtain ⟨x, hx, rfl⟩ := List.mem_iff_getElem.mp hi
    have hx' : x < A.nzval.size := by rw [← hszA]; simpa using hx
    obtain ⟨c, hc, h1, h2, hr, hv⟩ := Clarabel.Update.canon_entry_own hin.A_canon x hx'
    obtain ⟨d, hd, _⟩ := M.A_map c x _ _ hc h1 h2 hr hv
    have hs := R.fill.A_slots c x _ _ hc h1 h2 hr hv
    rw [hd] at hs
    rw [toListGet map.A x hx d hd]
    have hrow : A.rowval[x]! < A.m := hin.A_canon.rows_lt x (by rw [← hin.A_canon.nzval_size]; exact hx')
    exact key d _ _ _ hs hc (by omega)

/-- [S] **`MapFacts` holds for the object `DirectLDLKKTSolver::new` builds** on canonical data -/
theorem mapFacts_of_new {d : ProblemData α} {cones : List (ConeSt α)} {lin : LinSettings α}
    {perm : Array Nat} {K0 : KktSolver α}
    (h : KktSolver.new d.P d.A cones d.m d.n lin perm = .ok K0)
    (hin : Clarabel.Lemmas.KktSpec.KktInputs d.P d.A (cones.map ConeSt.kktSpec)) : MapFacts K0 := by
  obtain ⟨iperm, hasm, hperm⟩ := Clarabel.Update.kktSolver_new_parts_own h
  have r := (Clarabel.Update.kktSolver_new_inv_own d cones lin perm K0 false h hin).1
  obtain ⟨hsz, hT, hnd, _⟩ := C12.permute_symmetric _ _ _ _ hperm
  exact
    { nodup := r.nodup, bound := r.bound, notWK := pa_notWK hin hasm, atopSize := r.atopSize,
      atopBound := r.atopBound, atopInj := r.atopInj, tsize := hT,
      atopSurj := by
        intro j hj
        have hmem := ks_pigeon K0.ldl.AtoPAPt.toList K0.ldl.triuA.nzval.size hnd r.atopBound
          (by rw [Array.length_toList, hsz, hT]) j hj
        obtain ⟨i, hi, e⟩ := List.getElem_of_mem hmem
        have hi' : i < K0.ldl.AtoPAPt.size := by simpa using hi
        refine ⟨i, ?_⟩
        rw [Array.getElem?_eq_getElem hi']
        simpa using e }

/-- [S] **the object `DirectLDLKKTSolver::new` builds is synchronised with the data it was built
from**: both value copies hold `P.nzval` / `A.nzval` at the `map.P` / `map.A` positions -/
theorem ksync_of_new {d : ProblemData α} {cones : List (ConeSt α)} {lin : LinSettings α}
    {perm : Array Nat} {K0 : KktSolver α}
    (h : KktSolver.new d.P d.A cones d.m d.n lin perm = .ok K0)
    (hin : Clarabel.Lemmas.KktSpec.KktInputs d.P d.A (cones.map ConeSt.kktSpec)) :
    KSync lin K0 K0 d.P.nzval d.A.nzval := by
  obtain ⟨r1, r2⟩ := Clarabel.Update.kktSolver_new_inv_own d cones lin perm K0 false h hin
  have sP : K0.map.P.size = d.P.nzval.size := r1.sizeP
  have sA : K0.map.A.size = d.A.nzval.size := r1.sizeA
  exact KSync.of_fresh lin K0 _ _
    (fun k hk => r2.kktP k (show k < d.P.nzval.size from sP ▸ hk))
    (fun k hk => r2.kktA k (show k < d.A.nzval.size from sA ▸ hk))
    (fun k hk => r2.ldlP k (show k < d.P.nzval.size from sP ▸ hk) (Or.inl rfl))
    (fun k hk => r2.ldlA k (show k < d.A.nzval.size from sA ▸ hk))

end ksync

/-! ### non-vacuity -/

section examples
open Clarabel.Update (exDataOwn exLinOwn exDataOwn_new exDataOwn_inputs intFloatLikeOwn)

attribute [local instance] intFloatLikeOwn

/-- non-vacuity of `mapFacts_of_new` / `ksync_of_new` (and with them of the hypotheses `MapFacts K0`,
`KSync lin K0 K pk ak` of the lemmas above, of `updateValues_total_P/A` and — through them — of
`KSync.updateP/updateA`): the object `DirectLDLKKTSolver::new` returns on `P = [5]`, `A = [7]`, one
zero cone, satisfies both; `_update_values(map.P, [9])` then succeeds and the result is synchronised
with `[9]`, and the two objects are related by `KSync.upd` after the same write. -/
example : ∃ K0 : KktSolver Int,
    KktSolver.new exDataOwn.P exDataOwn.A [ConeSt.zero 1] exDataOwn.m exDataOwn.n exLinOwn #[1, 0] = .ok K0 ∧
    MapFacts K0 ∧ KSync exLinOwn K0 K0 exDataOwn.P.nzval exDataOwn.A.nzval ∧
    ∃ K1, K0.updateValues K0.map.P #[9] = .ok K1 ∧ KSync exLinOwn K0 K1 #[9] exDataOwn.A.nzval ∧
      Upd exLinOwn K1 K1 := by
  have h := exDataOwn_new
  cases hn : KktSolver.new exDataOwn.P exDataOwn.A [ConeSt.zero 1] exDataOwn.m exDataOwn.n exLinOwn
      #[1, 0] with
  | error e => rw [hn] at h; cases h
  | ok K =>
    have hm := mapFacts_of_new (d := exDataOwn) hn exDataOwn_inputs
    have hs := ksync_of_new (d := exDataOwn) hn exDataOwn_inputs
    have hsz : (#[9] : Array Int).size = K.map.P.size := by
      have := (Clarabel.Update.kktSolver_new_inv_own exDataOwn [.zero 1] exLinOwn #[1, 0] K false hn
        exDataOwn_inputs).1.sizeP
      exact this.symm
    obtain ⟨K1, h1⟩ := updateValues_total_P hm hs hsz
    have hs1 := KSync.updateP hm hs hsz h1
    exact ⟨K, rfl, hm, hs, K1, h1, hs1, hs1.upd hs1⟩

end examples

end Clarabel.Solver
