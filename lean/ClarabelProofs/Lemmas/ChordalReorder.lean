/-
  `calculate_block_dimensions`, `invperm` and `reorder_snode_consecutively`
  (`ClarabelModel/Chordal/SuperNode.lean`).
-/
import ClarabelModel.Chordal.SuperNode
import ClarabelProofs.Lemmas.ChordalPostOrder
import Mathlib.Data.List.Nodup
import Mathlib.Data.List.Range
import Mathlib.Data.List.Perm.Basic
import Mathlib.Data.List.Perm.Subperm

namespace Clarabel.Chordal

/-! ### reads and writes in `MErr` -/

private theorem getE_ok {β : Type} (xs : Array β) (i : Nat) (s : String) (d : β)
    (h : i < xs.size) : getE xs i s = .ok (xs.getD i d) := by
  unfold getE
  simp [h, Array.getD, pure, Except.pure]

private theorem setE_ok {β : Type} (xs : Array β) (i : Nat) (v : β) (s : String)
    (h : i < xs.size) : setE xs i v s = .ok (xs.setIfInBounds i v) := by
  unfold setE
  simp [h, Array.setIfInBounds, pure, Except.pure]

private theorem getD_set_self {β : Type} (xs : Array β) (i : Nat) (v d : β) (h : i < xs.size) :
    (xs.setIfInBounds i v).getD i d = v := by
  simp [Array.getD_eq_getD_getElem?, h]

private theorem getD_set_ne {β : Type} (xs : Array β) (i j : Nat) (v d : β) (h : i ≠ j) :
    (xs.setIfInBounds i v).getD j d = xs.getD j d := by
  simp [Array.getD_eq_getD_getElem?, h]

private theorem getD_toList {β : Type} (xs : Array β) (i : Nat) (d : β) :
    xs.getD i d = xs.toList.getD i d := by
  simp [Array.getD_eq_getD_getElem?, List.getD_eq_getElem?_getD]

private theorem getD_replicate {β : Type} (n i : Nat) (v : β) :
    (Array.replicate n v).getD i v = v := by
  by_cases h : i < n <;> simp [Array.getD_eq_getD_getElem?, h]

/-- `mapM` of a function that never fails -/
private theorem mapM_ok {α β : Type} (f : α → MErr β) (g : α → β) :
    ∀ (l : List α), (∀ a ∈ l, f a = .ok (g a)) → l.mapM f = .ok (l.map g) := by
  intro l
  induction l with
  | nil => intro _; rfl
  | cons a l ih =>
    intro h
    rw [List.mapM_cons, h a (List.mem_cons_self ..), ih (fun b hb => h b (List.mem_cons_of_mem _ hb))]
    rfl

/-! ### `calculate_block_dimensions` -/

/-- [S] `calculate_block_dimensions` does not panic when the first `nCliques` entries of
`snodePost` are valid indices of `snode` and `separators`; only the field `nblk` changes and
`nblk[i] = |separators[snodePost[i]]| + |snode[snodePost[i]]|`. -/
theorem block_dimensions_spec (t : SuperNodeTree)
    (h1 : t.nCliques ≤ t.snodePost.size)
    (h2 : ∀ i, i < t.nCliques →
      t.snodePost.getD i 0 < t.snode.size ∧ t.snodePost.getD i 0 < t.separators.size) :
    ∃ nb : Array Nat, t.calculateBlockDimensions = .ok { t with nblk := some nb } ∧
      nb.size = t.nCliques ∧
      ∀ i, i < t.nCliques →
        nb.getD i 0 = (t.separators.getD (t.snodePost.getD i 0) #[]).size
          + (t.snode.getD (t.snodePost.getD i 0) #[]).size := by
  refine ⟨((List.range t.nCliques).map (fun i =>
      (t.separators.getD (t.snodePost.getD i 0) #[]).size
        + (t.snode.getD (t.snodePost.getD i 0) #[]).size)).toArray, ?_, by simp, ?_⟩
  · unfold SuperNodeTree.calculateBlockDimensions
    rw [mapM_ok _ (fun i => (t.separators.getD (t.snodePost.getD i 0) #[]).size
        + (t.snode.getD (t.snodePost.getD i 0) #[]).size)]
    · rfl
    · intro i hi
      have hi' : i < t.nCliques := List.mem_range.1 hi
      obtain ⟨ha, hb⟩ := h2 i hi'
      simp only [getE_ok t.snodePost i _ 0 (by omega), getE_ok t.separators _ _ #[] hb,
        getE_ok t.snode _ _ #[] ha, bind, Except.bind, pure, Except.pure]
  · intro i hi
    simp [Array.getD_eq_getD_getElem?, hi]

example : ∃ nb : Array Nat,
    SuperNodeTree.calculateBlockDimensions
      { snode := #[#[0, 1], #[2]], snodePost := #[1, 0], snodeParent := #[], snodeChildren := #[],
        post := #[], separators := #[#[2], #[]], nblk := none, nCliques := 2 } =
      .ok { snode := #[#[0, 1], #[2]], snodePost := #[1, 0], snodeParent := #[],
            snodeChildren := #[], post := #[], separators := #[#[2], #[]], nblk := some nb,
            nCliques := 2 } ∧ nb.size = 2 := by
  obtain ⟨nb, h, hs, _⟩ := block_dimensions_spec
    { snode := #[#[0, 1], #[2]], snodePost := #[1, 0], snodeParent := #[], snodeChildren := #[],
      post := #[], separators := #[#[2], #[]], nblk := none, nCliques := 2 } (by decide)
    (by
      intro i hi
      have hi' : i < 2 := hi
      have : i = 0 ∨ i = 1 := by omega
      rcases this with rfl | rfl <;> decide)
  exact ⟨nb, h, hs⟩

/-! ### lists that are permutations of `range n` -/

/-- [S] a repetition-free list of `n` numbers below `n` is a permutation of `range n` -/
theorem perm_range_of_nodup_lt {l : List Nat} {n : Nat} (hnd : l.Nodup)
    (hlt : ∀ v ∈ l, v < n) (hlen : n ≤ l.length) : l.Perm (List.range n) :=
  (List.Nodup.subperm hnd (fun v hv => List.mem_range.2 (hlt v hv))).perm_of_length_le
    (by simpa using hlen)

example : [2, 0, 1].Perm (List.range 3) :=
  perm_range_of_nodup_lt (by decide) (by decide) (by decide)

private theorem getD_inj_of_nodup (p : Array Nat) (h : p.toList.Nodup) {i j : Nat}
    (hi : i < p.size) (hj : j < p.size) (e : p.getD i 0 = p.getD j 0) : i = j := by
  have hi' : i < p.toList.length := by simpa using hi
  have hj' : j < p.toList.length := by simpa using hj
  have : p.toList[i] = p.toList[j] := by simpa [Array.getD, hi, hj] using e
  exact (List.Nodup.getElem_inj_iff h).1 this

private theorem mem_toList_iff_getD (p : Array Nat) (x : Nat) :
    x ∈ p.toList ↔ ∃ i, i < p.size ∧ p.getD i 0 = x := by
  rw [List.mem_iff_getElem]
  constructor
  · rintro ⟨i, hi, rfl⟩
    have hi' : i < p.size := by simpa using hi
    exact ⟨i, hi', by simp [Array.getD, hi']⟩
  · rintro ⟨i, hi, rfl⟩
    exact ⟨i, by simpa using hi, by simp [Array.getD, hi]⟩

private theorem nodup_toList_of_getD_inj (p : Array Nat)
    (h : ∀ i j, i < p.size → j < p.size → p.getD i 0 = p.getD j 0 → i = j) :
    p.toList.Nodup := by
  rw [List.nodup_iff_injective_getElem]
  intro ⟨i, hi⟩ ⟨j, hj⟩ e
  have hi' : i < p.size := by simpa using hi
  have hj' : j < p.size := by simpa using hj
  have : i = j := h i j hi' hj' (by simpa [Array.getD, hi', hj'] using e)
  exact Fin.ext this

/-! ### `invperm` -/

/-- the body of the loop of `invperm` -/
private def invStep (p : Array Nat) (b : Array Nat) (i : Nat) : MErr (Array Nat) :=
  if p.getD i 0 < p.size ∧ b.getD (p.getD i 0) 0 = 0 then setE b (p.getD i 0) i "invperm"
  else throw (.panic "invperm: assert")

private theorem invpermUtils_eq (p : Array Nat) :
    invpermUtils p = (List.range p.size).foldlM (invStep p) (Array.replicate p.size 0) := rfl

private theorem invperm_fold (p : Array Nat) (hnd : p.toList.Nodup)
    (hlt : ∀ i, i < p.size → p.getD i 0 < p.size) :
    ∀ k, k ≤ p.size →
      ∃ b, (List.range k).foldlM (invStep p) (Array.replicate p.size 0) = .ok b ∧
        b.size = p.size ∧ (∀ i, i < k → b.getD (p.getD i 0) 0 = i) ∧
        (∀ j, (∀ i, i < k → p.getD i 0 ≠ j) → b.getD j 0 = 0) := by
  intro k
  induction k with
  | zero =>
    intro _
    refine ⟨_, rfl, by simp, by omega, ?_⟩
    intro j _
    exact getD_replicate _ _ _
  | succ k ih =>
    intro hk
    obtain ⟨b, hf, hsz, h1, h0⟩ := ih (by omega)
    have hkn : k < p.size := by omega
    have hj : p.getD k 0 < p.size := hlt k hkn
    have hfree : b.getD (p.getD k 0) 0 = 0 := by
      apply h0
      intro i hi e
      have := getD_inj_of_nodup p hnd (by omega) hkn e
      omega
    have hstep : invStep p b k = .ok (b.setIfInBounds (p.getD k 0) k) := by
      unfold invStep
      rw [if_pos ⟨hj, hfree⟩, setE_ok _ _ _ _ (by omega)]
    rw [List.range_succ, List.foldlM_append, hf]
    simp only [bind, Except.bind, List.foldlM_cons, List.foldlM_nil, hstep]
    refine ⟨_, rfl, by simpa using hsz, ?_, ?_⟩
    · intro i hi
      by_cases hik : i = k
      · subst hik
        exact getD_set_self _ _ _ _ (by omega)
      · have hne : p.getD k 0 ≠ p.getD i 0 := by
          intro e
          have := getD_inj_of_nodup p hnd hkn (by omega) e
          omega
        rw [getD_set_ne _ _ _ _ _ hne]
        exact h1 i (by omega)
    · intro j hjn
      have hne : p.getD k 0 ≠ j := hjn k (by omega)
      rw [getD_set_ne _ _ _ _ _ hne]
      exact h0 j (fun i hi => hjn i (by omega))

/-- [S] `invperm` on a genuine permutation `p` of `0..n`: the assertion `b[j] == 0` ("slot
still free") never fails, and the result `q` is the two-sided inverse of `p`; hence `q` is
again a permutation of `0..n`. -/
theorem invperm_utils_spec (p : Array Nat) (hp : p.toList.Perm (List.range p.size)) :
    ∃ q : Array Nat, invpermUtils p = .ok q ∧ q.size = p.size ∧
      (∀ i, i < p.size → q.getD (p.getD i 0) 0 = i) ∧
      (∀ j, j < p.size → q.getD j 0 < p.size ∧ p.getD (q.getD j 0) 0 = j) ∧
      q.toList.Perm (List.range p.size) := by
  have hnd : p.toList.Nodup := hp.nodup_iff.2 List.nodup_range
  have hlt : ∀ i, i < p.size → p.getD i 0 < p.size := by
    intro i hi
    have : p.getD i 0 ∈ p.toList := (mem_toList_iff_getD p _).2 ⟨i, hi, rfl⟩
    exact List.mem_range.1 (hp.mem_iff.1 this)
  obtain ⟨q, hf, hsz, h1, _⟩ := invperm_fold p hnd hlt p.size (Nat.le_refl _)
  have h2 : ∀ j, j < p.size → q.getD j 0 < p.size ∧ p.getD (q.getD j 0) 0 = j := by
    intro j hj
    have : j ∈ p.toList := hp.mem_iff.2 (List.mem_range.2 hj)
    obtain ⟨i, hi, rfl⟩ := (mem_toList_iff_getD p j).1 this
    rw [h1 i hi]
    exact ⟨hi, rfl⟩
  refine ⟨q, by rw [invpermUtils_eq]; exact hf, hsz, h1, h2, ?_⟩
  apply perm_range_of_nodup_lt
  · apply nodup_toList_of_getD_inj
    intro i j hi hj e
    have hi' := (h2 i (by omega)).2
    have hj' := (h2 j (by omega)).2
    rw [e] at hi'
    omega
  · intro v hv
    obtain ⟨j, hj, rfl⟩ := (mem_toList_iff_getD q v).1 hv
    exact (h2 j (by omega)).1
  · simp [hsz]

example : ∃ q : Array Nat, invpermUtils #[2, 0, 1] = .ok q ∧ q.size = 3 ∧
    q.toList.Perm (List.range 3) := by
  obtain ⟨q, h, hs, _, _, hq⟩ := invperm_utils_spec #[2, 0, 1] (by decide)
  exact ⟨q, h, hs, hq⟩

/-! ### `reorder_snode_consecutively`: the loop bodies -/

/-- body of the loop over `snode_post` -/
private def reorderStep (n : Nat) (acc : Array Nat × Array VSet × Nat) (i : Nat) :
    MErr (Array Nat × Array VSet × Nat) := do
  let (p, snode, k) := acc
  let sn ← getE snode i "reorder_snode_consecutively"
  let len := sn.size
  if k + len > n then throw (.panic "reorder_snode_consecutively: index") else
  let sorted := sn.sort
  let p := (List.range len).foldl (fun (p : Array Nat) j => p.setIfInBounds (k + j) (sorted.getD j 0)) p
  let snode ← setE snode i (List.range' k len).toArray "reorder_snode_consecutively"
  pure (p, snode, k + len)

/-- body of the loop over the separators -/
private def sepStep (p pInv : Array Nat) (acc : Array VSet) (sp : VSet) : MErr (Array VSet) := do
  if p.size < sp.size then throw (.panic "reorder_snode_consecutively: assert") else
  let tmp ← sp.toList.mapM (fun x => getE pInv x "reorder_snode_consecutively")
  pure (acc.push (VSet.ofList tmp))

private theorem reorder_eq (t : SuperNodeTree) (ordering : Array Nat) :
    t.reorderSnodeConsecutively ordering = (do
      let (p, snode, _) ← t.snodePost.toList.foldlM (reorderStep t.post.size)
        (Array.replicate t.post.size 0, t.snode, 0)
      let pInv ← invpermUtils p
      let separators ← t.separators.toList.foldlM (sepStep p pInv) #[]
      let newOrdering ← (List.range (min pInv.size ordering.size)).foldlM (fun (o : Array Nat) i =>
        setE o (pInv.getD i 0) (ordering.getD i 0) "ipermute") ordering
      pure ({ t with snode := snode, separators := separators }, newOrdering)) := rfl

/-! ### vertex sets built from lists -/

/-- [S] `extend` adds exactly the listed elements -/
theorem VSet.mem_extend (vs : List Nat) : ∀ (s : VSet) (c : Nat),
    c ∈ (s.extend vs).toList ↔ c ∈ s.toList ∨ c ∈ vs := by
  induction vs with
  | nil => intro s c; simp [VSet.extend]
  | cons v vs ih =>
    intro s c
    have : s.extend (v :: vs) = (s.insert v).extend vs := rfl
    rw [this, ih, VSet.mem_insert, List.mem_cons, or_assoc]

/-- [S] `extend` keeps the set free of repetitions -/
theorem VSet.nodup_extend (vs : List Nat) : ∀ (s : VSet), s.toList.Nodup →
    (s.extend vs).toList.Nodup := by
  induction vs with
  | nil => intro s h; exact h
  | cons v vs ih =>
    intro s h
    have : s.extend (v :: vs) = (s.insert v).extend vs := rfl
    rw [this]
    exact ih _ (VSet.nodup_insert s v h)

/-- [S] the elements of `VSet.ofList vs` are those of `vs` -/
theorem VSet.mem_ofList (vs : List Nat) (c : Nat) : c ∈ (VSet.ofList vs).toList ↔ c ∈ vs := by
  unfold VSet.ofList
  rw [VSet.mem_extend]
  simp

/-- [S] `VSet.ofList vs` has no repetition -/
theorem VSet.nodup_ofList (vs : List Nat) : (VSet.ofList vs).toList.Nodup :=
  VSet.nodup_extend vs #[] (by simp)

example : (VSet.extend #[1] [1, 2]).toList.Nodup := VSet.nodup_extend _ _ (by decide)

/-! ### the inner loop `p[k + j] = sorted[j]` -/

private theorem inner_fold (s : Array Nat) (A B : List Nat) (k : Nat) (hA : A.length = k) :
    ∀ len, len ≤ B.length → len ≤ s.size → ∀ p : Array Nat, p.toList = A ++ B →
      ((List.range len).foldl (fun (p : Array Nat) j => p.setIfInBounds (k + j) (s.getD j 0)) p).toList
        = A ++ s.toList.take len ++ B.drop len := by
  intro len
  induction len with
  | zero => intro _ _ p hp; simpa using hp
  | succ len ih =>
    intro hB hs p hp
    have h := ih (by omega) (by omega) p hp
    rw [List.range_succ, List.foldl_append, List.foldl_cons, List.foldl_nil,
      Array.toList_setIfInBounds, h]
    have hlen : (A ++ List.take len s.toList).length = k + len := by
      simp [hA]; omega
    rw [List.set_append_right _ _ (by omega), hlen, Nat.sub_self,
      List.drop_eq_getElem_cons (by omega : len < B.length), List.set_cons_zero]
    have hs' : len < s.toList.length := by rw [Array.length_toList]; omega
    rw [List.take_succ_eq_append_getElem hs']
    have : s.getD len 0 = s.toList[len] := by
      have : len < s.size := hs
      simp [Array.getD, this]
    rw [this]
    simp

/-! ### the loop over `snode_post` -/

private theorem sort_size (s : VSet) : s.sort.size = s.size := by
  have := (VSet.sort_perm s).length_eq
  simpa using this

private theorem first_fold (snode0 : Array VSet) (n : Nat) :
    ∀ (l : List Nat) (A : List Nat) (p : Array Nat) (sn : Array VSet) (k : Nat),
      l.Nodup → (∀ c ∈ l, c < snode0.size) → sn.size = snode0.size →
      (∀ c ∈ l, sn.getD c #[] = snode0.getD c #[]) →
      p.toList = A ++ List.replicate (n - k) 0 → A.length = k →
      k + (l.map (fun c => (snode0.getD c #[]).size)).sum ≤ n →
      ∃ p' sn', l.foldlM (reorderStep n) (p, sn, k)
          = .ok (p', sn', k + (l.map (fun c => (snode0.getD c #[]).size)).sum) ∧
        p'.toList = A ++ l.flatMap (fun c => (snode0.getD c #[]).sort.toList)
          ++ List.replicate (n - (k + (l.map (fun c => (snode0.getD c #[]).size)).sum)) 0 ∧
        sn'.size = snode0.size ∧
        (∀ c, c ∉ l → sn'.getD c #[] = sn.getD c #[]) ∧
        (∀ i, i < l.length → sn'.getD (l.getD i 0) #[] =
          (List.range' (k + ((l.take i).map (fun c => (snode0.getD c #[]).size)).sum)
            (snode0.getD (l.getD i 0) #[]).size).toArray) := by
  intro l
  induction l with
  | nil =>
    intro A p sn k _ _ hsz _ hp hA hk
    exact ⟨p, sn, rfl, by simpa using hp, hsz, fun _ _ => rfl, by simp⟩
  | cons c l ih =>
    intro A p sn k hnd hlt hsz hsn hp hA hk
    have hcl : c ∉ l := (List.nodup_cons.1 hnd).1
    have hndl : l.Nodup := (List.nodup_cons.1 hnd).2
    have hc : c < snode0.size := hlt c (List.mem_cons_self ..)
    have hsc : sn.getD c #[] = snode0.getD c #[] := hsn c (List.mem_cons_self ..)
    simp only [List.map_cons, List.sum_cons] at hk ⊢
    generalize hS : snode0.getD c #[] = S at hk hsc ⊢
    have hstep : reorderStep n (p, sn, k) c = .ok
        ((List.range S.size).foldl
            (fun (p : Array Nat) j => p.setIfInBounds (k + j) (S.sort.getD j 0)) p,
          sn.setIfInBounds c (List.range' k S.size).toArray, k + S.size) := by
      unfold reorderStep
      simp only [getE_ok sn c _ #[] (by omega), hsc, bind, Except.bind,
        setE_ok sn c _ _ (by omega), if_neg (by omega : ¬ k + S.size > n)]
      rfl
    have hp1 : ((List.range S.size).foldl
        (fun (p : Array Nat) j => p.setIfInBounds (k + j) (S.sort.getD j 0)) p).toList
        = (A ++ S.sort.toList) ++ List.replicate (n - (k + S.size)) 0 := by
      have := inner_fold S.sort A (List.replicate (n - k) 0) k hA S.size (by simp; omega)
        (Nat.le_of_eq (sort_size S).symm) p hp
      rw [this, List.take_of_length_le (by simp [sort_size]), List.drop_replicate]
      congr 2
      omega
    rw [List.foldlM_cons, hstep]
    simp only [bind, Except.bind]
    obtain ⟨p', sn', hf, hp', hsz', hother, hlisted⟩ := ih (A ++ S.sort.toList) _
      (sn.setIfInBounds c (List.range' k S.size).toArray) (k + S.size) hndl
      (fun c' hc' => hlt c' (List.mem_cons_of_mem _ hc')) (by simpa using hsz)
      (fun c' hc' => by
        have hne : c ≠ c' := fun h => hcl (h ▸ hc')
        rw [getD_set_ne _ _ _ _ _ hne]
        exact hsn c' (List.mem_cons_of_mem _ hc'))
      hp1 (by simp [hA, sort_size]) (by omega)
    refine ⟨p', sn', ?_, ?_, hsz', ?_, ?_⟩
    · rw [hf, Nat.add_assoc]
    · rw [hp', List.flatMap_cons, Nat.add_assoc, hS]
      simp [List.append_assoc]
    · intro c' hc'
      have h1 : c ≠ c' := fun h => hc' (h ▸ List.mem_cons_self ..)
      have h2 : c' ∉ l := fun h => hc' (List.mem_cons_of_mem _ h)
      rw [hother c' h2, getD_set_ne _ _ _ _ _ h1]
    · intro i hi
      cases i with
      | zero =>
        simp only [List.getD_cons_zero, List.take_zero, List.map_nil, List.sum_nil, Nat.add_zero]
        rw [hother c hcl, getD_set_self _ _ _ _ (by omega), hS]
      | succ i =>
        have := hlisted i (by simpa using hi)
        simp only [List.getD_cons_succ, List.take_succ_cons, List.map_cons, List.sum_cons, hS]
        rw [this, Nat.add_assoc]

/-! ### the loop over the separators and `ipermute` -/

private theorem sep_fold (p q : Array Nat) :
    ∀ (l : List VSet) (acc : Array VSet), (∀ sp ∈ l, sp.size ≤ p.size) →
      (∀ sp ∈ l, ∀ x ∈ sp.toList, x < q.size) →
      ∃ r, l.foldlM (sepStep p q) acc = .ok r ∧
        r.toList = acc.toList ++
          l.map (fun sp => VSet.ofList (sp.toList.map (fun x => q.getD x 0))) := by
  intro l
  induction l with
  | nil => intro acc _ _; exact ⟨acc, rfl, by simp⟩
  | cons sp l ih =>
    intro acc h1 h2
    have hstep : sepStep p q acc sp =
        .ok (acc.push (VSet.ofList (sp.toList.map (fun x => q.getD x 0)))) := by
      unfold sepStep
      rw [if_neg (by have := h1 sp (List.mem_cons_self ..); omega)]
      rw [mapM_ok _ (fun x => q.getD x 0) _
        (fun x hx => getE_ok q x _ 0 (h2 sp (List.mem_cons_self ..) x hx))]
      rfl
    obtain ⟨r, hr, hl⟩ := ih (acc.push (VSet.ofList (sp.toList.map (fun x => q.getD x 0))))
      (fun s hs => h1 s (List.mem_cons_of_mem _ hs))
      (fun s hs => h2 s (List.mem_cons_of_mem _ hs))
    refine ⟨r, ?_, ?_⟩
    · rw [List.foldlM_cons, hstep]; exact hr
    · rw [hl]; simp

private theorem iperm_fold (q ordering : Array Nat) (n : Nat) (ho : ordering.size = n)
    (hqlt : ∀ i, i < n → q.getD i 0 < n)
    (hqinj : ∀ i j, i < n → j < n → q.getD i 0 = q.getD j 0 → i = j) :
    ∀ k, k ≤ n → ∃ o, (List.range k).foldlM (fun (o : Array Nat) i =>
        setE o (q.getD i 0) (ordering.getD i 0) "ipermute") ordering = .ok o ∧ o.size = n ∧
        ∀ i, i < k → o.getD (q.getD i 0) 0 = ordering.getD i 0 := by
  intro k
  induction k with
  | zero => intro _; exact ⟨ordering, rfl, ho, by omega⟩
  | succ k ih =>
    intro hk
    obtain ⟨o, hf, hsz, h1⟩ := ih (by omega)
    have hqk := hqlt k (by omega)
    rw [List.range_succ, List.foldlM_append, hf]
    simp only [bind, Except.bind, List.foldlM_cons, List.foldlM_nil,
      setE_ok o (q.getD k 0) _ _ (by omega)]
    refine ⟨_, rfl, by simpa using hsz, ?_⟩
    intro i hi
    by_cases hik : i = k
    · subst hik
      exact getD_set_self _ _ _ _ (by omega)
    · have hne : q.getD k 0 ≠ q.getD i 0 := by
        intro e
        have := hqinj k i (by omega) (by omega) e
        omega
      rw [getD_set_ne _ _ _ _ _ hne]
      exact h1 i (by omega)

private theorem toList_eq_map_range (a : Array Nat) :
    a.toList = (List.range a.size).map (fun i => a.getD i 0) := by
  apply List.ext_getElem (by simp)
  intro i h1 h2
  have : i < a.size := by simpa using h1
  simp [Array.getD, this]

private theorem getD_of_toList_map {α β : Type} (a : Array α) (b : Array β) (g : α → β)
    (da : α) (db : β) (h : b.toList = a.toList.map g) (c : Nat) (hc : c < a.size) :
    b.getD c db = g (a.getD c da) := by
  have hb : b = a.map g := by
    apply Array.ext'
    simpa using h
  subst hb
  simp [Array.getD, hc]

/-! ### `reorder_snode_consecutively` -/

/-- What `reorder_snode_consecutively` computes: `t'`/`ord'` are the new tree and ordering,
`p` is the permutation "new label ↦ old label" and `q` its inverse. -/
structure ReorderSpec (t : SuperNodeTree) (ordering : Array Nat) (t' : SuperNodeTree)
    (ord' p q : Array Nat) : Prop where
  /-- `p` is a permutation of `0..n` -/
  p_perm : p.toList.Perm (List.range t.post.size)
  /-- `q` is a permutation of `0..n` -/
  q_perm : q.toList.Perm (List.range t.post.size)
  /-- (a) `p` is the concatenation, in `snodePost` order, of the sorted supernodes -/
  p_eq : p.toList = t.snodePost.toList.flatMap (fun c => ((t.snode.getD c #[]).sort).toList)
  /-- `q` is the left inverse of `p` -/
  q_p : ∀ k, k < t.post.size → q.getD (p.getD k 0) 0 = k
  /-- `q` is the right inverse of `p` -/
  p_q : ∀ k, k < t.post.size → p.getD (q.getD k 0) 0 = k
  /-- `q` stays in range -/
  q_lt : ∀ k, k < t.post.size → q.getD k 0 < t.post.size
  /-- (b) the number of supernodes is unchanged -/
  snode_size : t'.snode.size = t.snode.size
  /-- (b) the `i`-th supernode in post-order becomes the range starting at the total size of
  the supernodes before it -/
  snode_listed : ∀ i, i < t.snodePost.size →
    t'.snode.getD (t.snodePost.getD i 0) #[] =
      (List.range' (((t.snodePost.toList.take i).map (fun c => (t.snode.getD c #[]).size)).sum)
        (t.snode.getD (t.snodePost.getD i 0) #[]).size).toArray
  /-- (b) supernodes not listed in `snodePost` are unchanged -/
  snode_other : ∀ c, c ∉ t.snodePost.toList → t'.snode.getD c #[] = t.snode.getD c #[]
  /-- (c) -/
  ord_size : ord'.size = t.post.size
  /-- (c) the new ordering is the old one composed with `p` -/
  ord_get : ∀ k, k < t.post.size → ord'.getD k 0 = ordering.getD (p.getD k 0) 0
  /-- (c) the new ordering is a rearrangement of the old one -/
  ord_perm : ord'.toList.Perm ordering.toList
  /-- (d) -/
  sep_size : t'.separators.size = t.separators.size
  /-- (d) each separator is relabelled by `q` -/
  sep_get : ∀ c, c < t.separators.size → t'.separators.getD c #[] =
    VSet.ofList ((t.separators.getD c #[]).toList.map (fun x => q.getD x 0))
  /-- (d) membership form -/
  sep_mem : ∀ c w, c < t.separators.size →
    (w ∈ (t'.separators.getD c #[]).toList ↔
      ∃ x, x ∈ (t.separators.getD c #[]).toList ∧ w = q.getD x 0)
  /-- (d) the new separators have no repetition -/
  sep_nodup : ∀ c, c < t.separators.size → (t'.separators.getD c #[]).toList.Nodup
  /-- (e) nothing else changes -/
  others : t' = { t with snode := t'.snode, separators := t'.separators }

/-- [S] `reorder_snode_consecutively` on a tree whose supernodes (those listed, without
repetition, by `snodePost`) partition `0..n` (`n = post.len()`), with separators inside `0..n`
of at most `n` entries each (true for repetition-free separators, see
`reorder_spec_of_nodup`): no panic (no index out of range, the assertions of `invperm` and of
the separator loop hold), and the result is described by `ReorderSpec`. -/
theorem reorder_spec (t : SuperNodeTree) (ordering : Array Nat)
    (hord : ordering.size = t.post.size)
    (hnd : t.snodePost.toList.Nodup)
    (hlt : ∀ c ∈ t.snodePost.toList, c < t.snode.size)
    (hpart : (t.snodePost.toList.flatMap (fun c => (t.snode.getD c #[]).toList)).Perm
      (List.range t.post.size))
    (hsep : ∀ sp ∈ t.separators.toList, ∀ x ∈ sp.toList, x < t.post.size)
    (hsepsz : ∀ sp ∈ t.separators.toList, sp.size ≤ t.post.size) :
    ∃ (t' : SuperNodeTree) (ord' p q : Array Nat),
      t.reorderSnodeConsecutively ordering = .ok (t', ord') ∧
      ReorderSpec t ordering t' ord' p q := by
  have hsum : (t.snodePost.toList.map (fun c => (t.snode.getD c #[]).size)).sum
      = t.post.size := by
    have := hpart.length_eq
    rw [List.length_flatMap, List.length_range] at this
    simpa using this
  -- first loop
  obtain ⟨p, sn', hf, hp', hsnsz, hother, hlisted⟩ :=
    first_fold t.snode t.post.size t.snodePost.toList [] (Array.replicate t.post.size 0)
      t.snode 0 hnd hlt rfl (fun _ _ => rfl) (by simp) rfl (by omega)
  have hpl : p.toList =
      t.snodePost.toList.flatMap (fun c => ((t.snode.getD c #[]).sort).toList) := by
    rw [hp', hsum]; simp
  have hpperm : p.toList.Perm (List.range t.post.size) := by
    rw [hpl]
    exact (List.Perm.flatMap_left _ (fun c _ => VSet.sort_perm _)).trans hpart
  have hpsz : p.size = t.post.size := by
    have := hpperm.length_eq
    simpa using this
  -- inverse permutation
  obtain ⟨q, hq, hqsz, hqp, hpq, hqperm⟩ := invperm_utils_spec p (by rw [hpsz]; exact hpperm)
  rw [hpsz] at hqsz hqp hpq hqperm
  -- separators
  obtain ⟨sp', hspf, hspl⟩ := sep_fold p q t.separators.toList #[]
    (by rw [hpsz]; exact hsepsz) (by rw [hqsz]; exact hsep)
  simp only [List.nil_append] at hspl
  -- ipermute
  have hqinj : ∀ i j, i < t.post.size → j < t.post.size → q.getD i 0 = q.getD j 0 → i = j := by
    intro i j hi hj e
    have h1 := (hpq i hi).2
    have h2 := (hpq j hj).2
    rw [e] at h1
    omega
  obtain ⟨o, hof, hosz, hoget⟩ := iperm_fold q ordering t.post.size hord
    (fun i hi => (hpq i hi).1) hqinj t.post.size (Nat.le_refl _)
  have hmin : min q.size ordering.size = t.post.size := by omega
  have hoget' : ∀ k, k < t.post.size → o.getD k 0 = ordering.getD (p.getD k 0) 0 := by
    intro k hk
    have hpk : p.getD k 0 < t.post.size := by
      have : p.getD k 0 ∈ p.toList := (mem_toList_iff_getD p _).2 ⟨k, by omega, rfl⟩
      exact List.mem_range.1 (hpperm.mem_iff.1 this)
    have := hoget (p.getD k 0) hpk
    rwa [hqp k hk] at this
  refine ⟨{ t with snode := sn', separators := sp' }, o, p, q, ?_, ?_⟩
  · rw [reorder_eq, hf]
    simp only [bind, Except.bind, hq, hspf, hmin, hof]
    rfl
  · have hspsz : sp'.size = t.separators.size := by
      have := congrArg List.length hspl
      simpa using this
    have hspget : ∀ c, c < t.separators.size → sp'.getD c #[] =
        VSet.ofList ((t.separators.getD c #[]).toList.map (fun x => q.getD x 0)) :=
      fun c hc => getD_of_toList_map t.separators sp' _ #[] #[] hspl c hc
    refine
      { p_perm := hpperm, q_perm := hqperm, p_eq := hpl, q_p := hqp
        p_q := fun k hk => (hpq k hk).2
        q_lt := fun k hk => (hpq k hk).1
        snode_size := hsnsz
        snode_listed := ?_
        snode_other := hother
        ord_size := hosz
        ord_get := hoget'
        ord_perm := ?_
        sep_size := hspsz
        sep_get := hspget
        sep_mem := ?_
        sep_nodup := ?_
        others := rfl }
    · intro i hi
      have := hlisted i (by simpa using hi)
      rw [Nat.zero_add, ← getD_toList] at this
      exact this
    · have h1 : o.toList = p.toList.map (fun x => ordering.getD x 0) := by
        rw [toList_eq_map_range o, toList_eq_map_range p, hosz, hpsz, List.map_map]
        apply List.map_congr_left
        intro k hk
        exact hoget' k (List.mem_range.1 hk)
      have h2 : ordering.toList = (List.range t.post.size).map (fun x => ordering.getD x 0) := by
        rw [toList_eq_map_range ordering, hord]
      rw [h1, h2]
      exact hpperm.map _
    · intro c w hc
      rw [hspget c hc, VSet.mem_ofList, List.mem_map]
      constructor
      · rintro ⟨x, hx, rfl⟩; exact ⟨x, hx, rfl⟩
      · rintro ⟨x, hx, rfl⟩; exact ⟨x, hx, rfl⟩
    · intro c hc
      rw [hspget c hc]
      exact VSet.nodup_ofList _

/-- [S] `reorder_spec` for repetition-free separators (the `IndexSet` invariant): the bound
`sp.len() ≤ n` asserted by the Rust loop follows by the pigeonhole principle. -/
theorem reorder_spec_of_nodup (t : SuperNodeTree) (ordering : Array Nat)
    (hord : ordering.size = t.post.size)
    (hnd : t.snodePost.toList.Nodup)
    (hlt : ∀ c ∈ t.snodePost.toList, c < t.snode.size)
    (hpart : (t.snodePost.toList.flatMap (fun c => (t.snode.getD c #[]).toList)).Perm
      (List.range t.post.size))
    (hsep : ∀ sp ∈ t.separators.toList, ∀ x ∈ sp.toList, x < t.post.size)
    (hsepnd : ∀ sp ∈ t.separators.toList, sp.toList.Nodup) :
    ∃ (t' : SuperNodeTree) (ord' p q : Array Nat),
      t.reorderSnodeConsecutively ordering = .ok (t', ord') ∧
      ReorderSpec t ordering t' ord' p q :=
  reorder_spec t ordering hord hnd hlt hpart hsep (fun sp hsp => by
    have := length_le_of_nodup_lt (hsepnd sp hsp) (hsep sp hsp)
    simpa using this)

/-- [S] if the old ordering is a permutation of `0..n`, so is the new one -/
theorem ReorderSpec.ord_perm_range {t : SuperNodeTree} {ordering : Array Nat}
    {t' : SuperNodeTree} {ord' p q : Array Nat} (h : ReorderSpec t ordering t' ord' p q)
    (ho : ordering.toList.Perm (List.range t.post.size)) :
    ord'.toList.Perm (List.range t.post.size) :=
  h.ord_perm.trans ho

/-- [S] the relabelled separators stay inside `0..n` -/
theorem ReorderSpec.sep_lt {t : SuperNodeTree} {ordering : Array Nat}
    {t' : SuperNodeTree} {ord' p q : Array Nat} (h : ReorderSpec t ordering t' ord' p q)
    (hsep : ∀ sp ∈ t.separators.toList, ∀ x ∈ sp.toList, x < t.post.size) :
    ∀ c, c < t.separators.size → ∀ w ∈ (t'.separators.getD c #[]).toList, w < t.post.size := by
  intro c hc w hw
  obtain ⟨x, hx, rfl⟩ := (h.sep_mem c w hc).1 hw
  have hmem : t.separators.getD c #[] ∈ t.separators.toList := by
    simp [Array.getD, hc]
  exact h.q_lt x (hsep _ hmem x hx)

private theorem flatMap_ranges (sz : Nat → Nat) (f : Nat → List Nat) :
    ∀ (l : List Nat) (k : Nat),
      (∀ i, i < l.length →
        f (l.getD i 0) = List.range' (k + ((l.take i).map sz).sum) (sz (l.getD i 0))) →
      l.flatMap f = List.range' k ((l.map sz).sum) := by
  intro l
  induction l with
  | nil => intro k _; rfl
  | cons c l ih =>
    intro k h
    have h0 := h 0 (by simp)
    simp only [List.getD_cons_zero, List.take_zero, List.map_nil, List.sum_nil,
      Nat.add_zero] at h0
    have hl := ih (k + sz c) (fun i hi => by
      have := h (i + 1) (by simpa using hi)
      simp only [List.getD_cons_succ, List.take_succ_cons, List.map_cons, List.sum_cons] at this
      rw [this, Nat.add_assoc])
    rw [List.flatMap_cons, h0, hl, List.map_cons, List.sum_cons, List.range'_append_1]

/-- [S] after the relabelling the supernodes, concatenated in post-order, are exactly
`0, 1, …, n-1`: every supernode is a block of consecutive labels. -/
theorem ReorderSpec.snode_concat {t : SuperNodeTree} {ordering : Array Nat}
    {t' : SuperNodeTree} {ord' p q : Array Nat} (h : ReorderSpec t ordering t' ord' p q) :
    t.snodePost.toList.flatMap (fun c => (t'.snode.getD c #[]).toList)
      = List.range t.post.size := by
  have hsum : (t.snodePost.toList.map (fun c => (t.snode.getD c #[]).size)).sum
      = t.post.size := by
    have := h.p_perm.length_eq
    rw [h.p_eq, List.length_flatMap, List.length_range] at this
    simpa [sort_size] using this
  rw [flatMap_ranges (fun c => (t.snode.getD c #[]).size)
    (fun c => (t'.snode.getD c #[]).toList) t.snodePost.toList 0, hsum, List.range_eq_range']
  intro i hi
  have := h.snode_listed i (by simpa using hi)
  rw [← getD_toList, this, Nat.zero_add]

/-- non-vacuity of `reorder_spec`, `reorder_spec_of_nodup` and the consequences above:
three vertices, supernodes `{2,0}` and `{1}`, post-order `1, 0` -/
example : ∃ (t' : SuperNodeTree) (ord' : Array Nat),
    SuperNodeTree.reorderSnodeConsecutively
      { snode := #[#[2, 0], #[1]], snodePost := #[1, 0], snodeParent := #[0, 0],
        snodeChildren := #[#[1], #[]], post := #[0, 1, 2], separators := #[#[1], #[]],
        nblk := none, nCliques := 2 } #[2, 0, 1] = .ok (t', ord') ∧
    ord'.toList.Perm (List.range 3) ∧
    [1, 0].flatMap (fun c => (t'.snode.getD c #[]).toList) = [0, 1, 2] ∧
    (∀ w ∈ (t'.separators.getD 0 #[]).toList, w < 3) := by
  have hsep : ∀ sp ∈ [(#[1] : VSet), #[]], ∀ x ∈ sp.toList, x < 3 := by
    intro sp hsp x hx
    simp only [List.mem_cons, List.not_mem_nil, or_false] at hsp
    rcases hsp with rfl | rfl
    · have : x = 1 := by simpa using hx
      omega
    · simp at hx
  obtain ⟨t', ord', p, q, h, hs⟩ := reorder_spec_of_nodup
    { snode := #[#[2, 0], #[1]], snodePost := #[1, 0], snodeParent := #[0, 0],
      snodeChildren := #[#[1], #[]], post := #[0, 1, 2], separators := #[#[1], #[]],
      nblk := none, nCliques := 2 } #[2, 0, 1] rfl (by decide) (by decide) (by decide) hsep
    (by
      intro sp hsp
      simp only [List.mem_cons, List.not_mem_nil, or_false] at hsp
      rcases hsp with rfl | rfl <;> decide)
  exact ⟨t', ord', h, hs.ord_perm_range (by decide), hs.snode_concat,
    hs.sep_lt hsep 0 (by decide)⟩

end Clarabel.Chordal
