/-
  Solving twice (C05): `workx` is as long as `q` in every solver object built by `DefaultSolver::new`
  (`WorkxSized`, `Lemmas/SolverStaleRel.lean`), so `workx.scalarop_from(|q| -q, &data.q)` in
  `solve_constant_rhs` overwrites all of it.

  The chain: `_check_dimensions` asserts `q.len() = A.n`; `DefaultProblemData::new` passes `q`
  through and sets `n := A_new.n`, where `A_new` is `A` or `A.select_rows(keep)` (same number of
  columns); `equilibrate` only scales `q` entrywise and never writes `n`; `DefaultKKTSystem::new`
  allocates `workx` with length `data.n`.

  All structural ([S]): no arithmetic law of the scalar type is used.
-/
import ClarabelProofs.Lemmas.SolverStaleFrame

namespace Clarabel.Solver
open Clarabel Info Residuals

set_option linter.unusedSectionVars false
set_option linter.unusedVariables false

variable {α : Type}

section
variable [Add α] [Sub α] [Mul α] [Div α] [Neg α] [OfNat α 0] [OfNat α 1] [OfNat α 2]
  [OfNat α 100] [OfNat α 1000] [LT α] [DecidableLT α] [LE α] [DecidableLE α] [BEq α] [FloatLike α]

/-! ### `_check_dimensions` -/

/-- the third assert of `_check_dimensions`: `q.len() = A.n` -/
theorem checkDimensions_q {Pm Pn qlen Am An blen : Nat} {nv : List Nat}
    (h : Loop.checkDimensions Pm Pn qlen Am An blen nv = .ok ()) : qlen = An := by
  unfold Loop.checkDimensions at h
  dsimp only at h
  split at h
  · cases h
  · split at h
    · cases h
    · split at h
      · cases h
      · rename_i hq
        exact Decidable.not_not.mp hq

/-! ### `DefaultProblemData::new` -/

/-- `select_rows` keeps the number of columns -/
theorem selectRows_n {M R : Csc α} {keep : Array Bool} (h : M.selectRows keep = .ok R) : R.n = M.n := by
  unfold Csc.selectRows at h
  split at h
  · cases h
  · split at h
    · cases h
    · cases h
      rfl

/-- the presolver's reduction keeps the number of columns of `A` -/
theorem reduceStep_n {pre : Option (Presolve.Presolver α)} {A : Csc α} {b : Array α} {cones : List (ConeT α)}
    {r : Csc α × Array α × List (ConeT α)} (h : ProblemData.reduceStep pre A b cones = .ok r) :
    r.1.n = A.n := by
  unfold ProblemData.reduceStep at h
  cases pre with
  | none =>
    cases h
    rfl
  | some p =>
    dsimp only at h
    unfold Presolve.Presolver.presolve at h
    obtain ⟨⟨A', b'⟩, hab, h⟩ := bind_ok_inv h
    obtain ⟨cones', _, h⟩ := bind_ok_inv h
    cases h
    unfold Presolve.Presolver.reduceAb at hab
    split at hab
    · cases hab
    · obtain ⟨A'', hsel, hab⟩ := bind_ok_inv hab
      split at hab
      · cases hab
      · cases hab
        exact selectRows_n hsel

/-- `DefaultProblemData::new`: `q` is passed through, `n` is the number of columns of `A` -/
theorem problemDataNew_q {P : Csc α} {q : Array α} {A : Csc α} {b : Array α} {cones : List (ConeT α)}
    {pe ce : Bool} {infbound : α} {d : ProblemData α}
    (h : ProblemData.new P q A b cones pe ce infbound = .ok d) : d.q = q ∧ d.n = A.n := by
  unfold ProblemData.new at h
  obtain ⟨Pnew, _, h⟩ := bind_ok_inv h
  obtain ⟨pre, _, h⟩ := bind_ok_inv h
  obtain ⟨r, hr, h⟩ := bind_ok_inv h
  split at h
  · cases h
  · cases h
    exact ⟨rfl, reduceStep_n hr⟩

/-! ### `equilibrate` keeps the length of `q` -/

theorem equilHadamard_size (x y : Array α) : (Equil.hadamardInPlace x y).size = x.size := by
  unfold Equil.hadamardInPlace
  exact Array.size_mapIdx

theorem applyScaling_qsize (dt : ProblemData α) (dw : Option (Array α)) (ew : Array α) :
    (Equil.applyScaling dt dw ew).q.size = dt.q.size := by
  cases dw with
  | none => rfl
  | some d =>
    show (Equil.hadamardInPlace dt.q d).size = dt.q.size
    exact equilHadamard_size _ _

theorem applyCost_qsize (dt : ProblemData α) (dw : Array α) (ct : Option α) :
    (Equil.applyCost dt dw ct).q.size = dt.q.size := by
  cases ct with
  | none => rfl
  | some c =>
    show (dt.q.map _).size = dt.q.size
    exact Array.size_map ..

theorem ruizLoop_qsize (s : Equil.Settings α) :
    ∀ (k : Nat) (dt : ProblemData α), (Equil.ruizLoop s k dt).q.size = dt.q.size
  | 0, dt => rfl
  | k + 1, dt => by
    unfold Equil.ruizLoop
    rw [ruizLoop_qsize s k _]
    unfold Equil.ruizStep
    dsimp only
    rw [applyCost_qsize, applyScaling_qsize]

theorem finish_qsize (dt : ProblemData α) (cones : List (ConeT α)) :
    (Equil.finish dt cones).q.size = dt.q.size := by
  have h1 : (Equil.rectifyStep dt cones).q.size = dt.q.size := by
    unfold Equil.rectifyStep
    dsimp only
    split
    · exact applyScaling_qsize _ _ _
    · rfl
  have h2 : ∀ d : ProblemData α, (Equil.setInverses d).q.size = d.q.size := fun d => rfl
  exact (h2 _).trans h1

/-- `equilibrate` scales `q` entrywise: its length is kept -/
theorem equilibrate_qsize {dt dt' : ProblemData α} {cones : List (ConeT α)} {s : Equil.Settings α}
    (h : Equil.equilibrate dt cones s = .ok dt') : dt'.q.size = dt.q.size := by
  unfold Equil.equilibrate at h
  split at h
  · cases h; rfl
  · split at h
    · cases h
    · split at h
      · cases h
      · cases h
        exact (finish_qsize _ _).trans (ruizLoop_qsize s s.maxIter dt)

/-! ### the state `DefaultSolver::new` builds -/

/-- the internal problem data: `q` has the length of the user's `q`, `n` is the user's `A.n` -/
theorem internalData_q {P : Csc α} {q : Array α} {A : Csc α} {b : Array α} {cones : List (ConeT α)}
    {st : Settings α} {d : ProblemData α} (h : internalData P q A b cones st = .ok d) :
    d.q.size = q.size ∧ d.n = A.n := by
  unfold internalData at h
  obtain ⟨data0, hd0, h⟩ := bind_ok_inv h
  obtain ⟨K0, _, h⟩ := bind_ok_inv h
  split at h
  · cases h
  dsimp only at h
  obtain ⟨e1, e2⟩ := problemDataNew_q hd0
  obtain ⟨_, _, e3⟩ := equilibrate_dim h
  refine ⟨?_, e3.trans e2⟩
  rw [equilibrate_qsize h, e1]

/-- `DefaultKKTSystem::new` allocates `workx` with length `data.n` -/
theorem new_workx_size {P : Csc α} {q : Array α} {A : Csc α} {b : Array α} {cones : List (ConeT α)}
    {st : Settings α} {perm : Array Nat} {S : SolverSt α} (h : SolverSt.new P q A b cones st perm = .ok S) :
    S.kktsystem.workx.size = A.n ∧ S.data.q.size = q.size := by
  unfold SolverSt.new at h
  obtain ⟨data, hd, h⟩ := bind_ok_inv h
  obtain ⟨K, hK, h⟩ := bind_ok_inv h
  obtain ⟨ks, hks, h⟩ := bind_ok_inv h
  cases h
  obtain ⟨e1, e2⟩ := internalData_q hd
  unfold KktSys.new at hks
  dsimp only at hks
  obtain ⟨_, _, hks⟩ := bind_ok_inv hks
  cases hks
  refine ⟨?_, e1⟩
  show (Array.replicate data.n (0 : α)).size = A.n
  rw [Array.size_replicate, e2]

/-- [S] in a solver object built by `DefaultSolver::new`, `workx` and `data.q` both have length
`n = A.n = q.len()` -/
theorem solverNew_workx_eq {P : Csc α} {q : Array α} {A : Csc α} {b : Array α} {cones : List (ConeT α)}
    {st : Settings α} {perm : Array Nat} {S : Solver α} (h : Solver.new P q A b cones st perm = .ok S) :
    S.st.kktsystem.workx.size = q.size ∧ S.st.data.q.size = q.size := by
  unfold Solver.new at h
  obtain ⟨u, hchk, h⟩ := bind_ok_inv h
  obtain ⟨S0, hS0, h⟩ := bind_ok_inv h
  cases h
  cases u
  obtain ⟨e1, e2⟩ := new_workx_size hS0
  exact ⟨e1.trans (checkDimensions_q hchk).symm, e2⟩

/-- [S] a solver object built by `DefaultSolver::new` is `WorkxSized`: `workx` is not longer than
`data.q` (they have the same length `n`) -/
theorem solverNew_workxSized {P : Csc α} {q : Array α} {A : Csc α} {b : Array α} {cones : List (ConeT α)}
    {st : Settings α} {perm : Array Nat} {S : Solver α} (h : Solver.new P q A b cones st perm = .ok S) :
    WorkxSized S.st := by
  obtain ⟨e1, e2⟩ := solverNew_workx_eq h
  show S.st.kktsystem.workx.size ≤ S.st.data.q.size
  rw [e1, e2]
  exact Nat.le_refl _

end

end Clarabel.Solver
