/-
  "Exactly the intended matrix": the stored entries of the assembled KKT matrix are the
  intended ones and nothing else.

  * `Intended P A cones shape row col v`: what the KKT matrix is supposed to store at
    `(row, col)` — an entry of `P` (upper coordinates `(r, i)`), a structural zero on the
    diagonal of a column of `P` that lacks one, an entry of `A` (upper coordinates `(i, n + r)`
    of `Aᵀ`), or a structural zero of a cone (`InCone`: Hs block, expansion vectors, expansion
    diagonal); `tri shape` maps upper coordinates to storage coordinates;
  * `mem_kktSchedule_iff`: the fill schedule writes exactly the intended triples;
  * `AsmRun.mem_col_iff`: `(row, v) ∈ K.col col ↔ Intended … row col v`.
-/
import ClarabelModel.Kkt
import ClarabelProofs.Lemmas.KktFinal

set_option linter.unusedSectionVars false
set_option linter.unusedVariables false

namespace Clarabel.Lemmas.KktIntended
open Clarabel Clarabel.Csc Clarabel.Kkt Clarabel.Lemmas.KktPlace Clarabel.Lemmas.KktFillLink
open Clarabel.Lemmas.KktRun Clarabel.Lemmas.KktSlots Clarabel.Lemmas.KktFillMaps
open Clarabel.Lemmas.KktFillRun Clarabel.Lemmas.KktCount Clarabel.Lemmas.KktAssembly
open Clarabel.Lemmas.KktSorted Clarabel.Lemmas.KktSortedTril Clarabel.Lemmas.KktLength
open Clarabel.Lemmas.KktTotal Clarabel.Lemmas.KktFinal

variable {α : Type} [OfNat α 0]

/-- the structural zeros of one cone whose first row/column is `row` and whose first auxiliary
column is `pcol`; the last two arguments are the storage coordinates `(r, col)` -/
inductive InCone (shape : MatrixTriangle) : ConeSpec → Nat → Nat → Nat → Nat → Prop
  | hsDiag (c : ConeSpec) (row pcol k : Nat) : c.hsIsDiagonal = true → k < c.numel →
      InCone shape c row pcol (row + k) (row + k)
  | hsDense (c : ConeSpec) (row pcol a b : Nat) : c.hsIsDiagonal = false → a < c.numel → b ≤ a →
      InCone shape c row pcol (tri shape (row + b) (row + a)).1 (tri shape (row + b) (row + a)).2
  | socV (d row pcol k : Nat) : d > socNoExpansionMaxSize → k < d →
      InCone shape (.soc d) row pcol (tri shape (row + k) pcol).1 (tri shape (row + k) pcol).2
  | socU (d row pcol k : Nat) : d > socNoExpansionMaxSize → k < d →
      InCone shape (.soc d) row pcol (tri shape (row + k) (pcol + 1)).1 (tri shape (row + k) (pcol + 1)).2
  | socD (d row pcol j : Nat) : d > socNoExpansionMaxSize → j < 2 →
      InCone shape (.soc d) row pcol (pcol + j) (pcol + j)
  | gpQ (a b row pcol k : Nat) : k < a →
      InCone shape (.genpow a b) row pcol (tri shape (row + k) pcol).1 (tri shape (row + k) pcol).2
  | gpR (a b row pcol k : Nat) : k < b →
      InCone shape (.genpow a b) row pcol (tri shape (row + a + k) (pcol + 1)).1
        (tri shape (row + a + k) (pcol + 1)).2
  | gpP (a b row pcol k : Nat) : k < a + b →
      InCone shape (.genpow a b) row pcol (tri shape (row + k) (pcol + 2)).1 (tri shape (row + k) (pcol + 2)).2
  | gpD (a b row pcol j : Nat) : j < 3 →
      InCone shape (.genpow a b) row pcol (pcol + j) (pcol + j)

/-- what the KKT matrix is supposed to store: `Intended P A cones shape row col v` -/
inductive Intended (P A : Csc α) (cones : List ConeSpec) (shape : MatrixTriangle) :
    Nat → Nat → α → Prop
  | pEntry (i j r : Nat) (v : α) : i < P.n → P.colptr.getD i 0 ≤ j → j < P.colptr.getD (i + 1) 0 →
      P.rowval[j]? = some r → P.nzval[j]? = some v →
      Intended P A cones shape (tri shape r i).1 (tri shape r i).2 v
  | pDiag (c : Nat) : c < P.n → missingDiag P c = true → Intended P A cones shape c c 0
  | aEntry (i j r : Nat) (v : α) : i < A.n → A.colptr.getD i 0 ≤ j → j < A.colptr.getD (i + 1) 0 →
      A.rowval[j]? = some r → A.nzval[j]? = some v →
      Intended P A cones shape (tri shape i (r + A.n)).1 (tri shape i (r + A.n)).2 v
  | cone (pre : List ConeSpec) (c : ConeSpec) (post : List ConeSpec) (r col : Nat) :
      cones = pre ++ c :: post →
      InCone shape c (A.n + (pre.map ConeSpec.numel).sum)
        (A.m + A.n + (pre.map conePdim).sum) r col →
      Intended P A cones shape r col 0

-- ------------------------------------------------------------------ membership in the schedules

omit [OfNat α 0] in
theorem mem_of_get {l : List (Entry α)} {F : Nat → Entry α}
    (h : ∀ i, i < l.length → l[i]? = some (F i)) {e : Entry α} (he : e ∈ l) :
    ∃ i, i < l.length ∧ e = F i := by
  obtain ⟨i, hi, rfl⟩ := List.mem_iff_getElem.mp he
  refine ⟨i, hi, ?_⟩
  have := h i hi
  rw [List.getElem?_eq_getElem hi] at this
  exact Option.some.inj this

theorem mem_vecSchedule {shape : MatrixTriangle} {len r c : Nat} {e : Entry α}
    (he : e ∈ vecSchedule (α := α) shape len r c) :
    ∃ k, k < len ∧ e.row = (tri shape (r + k) c).1 ∧ e.readCol = (tri shape (r + k) c).2 ∧ e.val = 0 := by
  obtain ⟨k, hk, rfl⟩ := mem_of_get
    (F := fun k => Entry.mk' (tri shape (r + k) c).2 (tri shape (r + k) c).1 (0 : α) k)
    (fun i hi => vecSchedule_get shape len r c i (by rwa [vecSchedule_length] at hi)) he
  rw [vecSchedule_length] at hk
  exact ⟨k, hk, rfl, rfl, rfl⟩

theorem mem_diagSchedule {off d : Nat} {e : Entry α} (he : e ∈ diagSchedule (α := α) off d) :
    ∃ k, k < d ∧ e.row = off + k ∧ e.readCol = off + k ∧ e.val = 0 := by
  obtain ⟨k, hk, rfl⟩ := mem_of_get (F := fun k => Entry.mk' (off + k) (off + k) (0 : α) k)
    (fun i hi => diagSchedule_get off d i (by rwa [KktSlots.diagSchedule_length] at hi)) he
  rw [KktSlots.diagSchedule_length] at hk
  exact ⟨k, hk, rfl, rfl, rfl⟩

theorem mem_zipIdx_sched {cells : List (Nat × Nat)} {e : Entry α}
    (he : e ∈ cells.zipIdx.map (fun p => Entry.mk' (α := α) p.1.1 p.1.2 0 p.2)) :
    ∃ x ∈ cells, e.readCol = x.1 ∧ e.row = x.2 ∧ e.val = 0 := by
  obtain ⟨i, hi, rfl⟩ := List.mem_iff_getElem.mp he
  have hg := zipIdx_sched_get (α := α) cells i
  rw [List.getElem?_eq_getElem hi] at hg
  cases hc : cells[i]? with
  | none => rw [hc] at hg; cases hg
  | some x =>
    rw [hc] at hg
    simp only [Option.map_some, Option.some.injEq] at hg
    rw [hg]
    exact ⟨x, List.mem_of_getElem? hc, rfl, rfl, rfl⟩

theorem mem_denseSchedule {shape : MatrixTriangle} {off d : Nat} {e : Entry α}
    (he : e ∈ denseSchedule (α := α) off d shape) :
    ∃ a b, a < d ∧ b ≤ a ∧ e.row = (tri shape (off + b) (off + a)).1 ∧
      e.readCol = (tri shape (off + b) (off + a)).2 ∧ e.val = 0 := by
  cases shape with
  | triu =>
    obtain ⟨x, hx, h1, h2, h3⟩ := mem_zipIdx_sched (show e ∈ _ from he)
    simp only [List.mem_flatMap, List.mem_range, List.mem_map] at hx
    obtain ⟨a, ha, b, hb, rfl⟩ := hx
    exact ⟨a, b, ha, by omega, h2, h1, h3⟩
  | tril =>
    obtain ⟨x, hx, h1, h2, h3⟩ := mem_zipIdx_sched (show e ∈ _ from he)
    simp only [List.mem_flatMap, List.mem_range, List.mem_map] at hx
    obtain ⟨a, ha, b, hb, rfl⟩ := hx
    exact ⟨a, b, ha, by omega, h2, h1, h3⟩

theorem mem_coneSchedule {shape : MatrixTriangle} {c : ConeSpec} {row pcol : Nat} {e : Entry α}
    (he : e ∈ coneSchedule (α := α) c row pcol shape) :
    InCone shape c row pcol e.row e.readCol ∧ e.val = 0 := by
  rw [coneSchedule_eq'] at he
  rcases List.mem_append.mp he with h | h
  · unfold hsSchedule at h
    by_cases hd : c.hsIsDiagonal = true
    · rw [if_pos hd] at h
      obtain ⟨k, hk, h1, h2, h3⟩ := mem_diagSchedule h
      rw [h1, h2]
      exact ⟨InCone.hsDiag c row pcol k hd hk, h3⟩
    · rw [if_neg hd] at h
      obtain ⟨a, b, ha, hb, h1, h2, h3⟩ := mem_denseSchedule h
      rw [h1, h2]
      exact ⟨InCone.hsDense c row pcol a b (by simpa using hd) ha hb, h3⟩
  · by_cases hsp : c.isSparseExpandable = true
    · rw [if_pos hsp] at h
      cases c with
      | soc d =>
        have hd : d > socNoExpansionMaxSize := by simpa [ConeSpec.isSparseExpandable] using hsp
        rw [sparseSchedule_soc] at h
        rcases List.mem_append.mp h with h | h
        · rcases List.mem_append.mp h with h | h
          · obtain ⟨k, hk, h1, h2, h3⟩ := mem_vecSchedule h
            rw [h1, h2]; exact ⟨InCone.socV d row pcol k hd hk, h3⟩
          · obtain ⟨k, hk, h1, h2, h3⟩ := mem_vecSchedule h
            rw [h1, h2]; exact ⟨InCone.socU d row pcol k hd hk, h3⟩
        · obtain ⟨k, hk, h1, h2, h3⟩ := mem_diagSchedule h
          rw [h1, h2]; exact ⟨InCone.socD d row pcol k hd hk, h3⟩
      | genpow a b =>
        rw [sparseSchedule_genpow] at h
        rcases List.mem_append.mp h with h | h
        · rcases List.mem_append.mp h with h | h
          · rcases List.mem_append.mp h with h | h
            · obtain ⟨k, hk, h1, h2, h3⟩ := mem_vecSchedule h
              rw [h1, h2]; exact ⟨InCone.gpQ a b row pcol k hk, h3⟩
            · obtain ⟨k, hk, h1, h2, h3⟩ := mem_vecSchedule h
              rw [h1, h2]; exact ⟨InCone.gpR a b row pcol k hk, h3⟩
          · obtain ⟨k, hk, h1, h2, h3⟩ := mem_vecSchedule h
            rw [h1, h2]; exact ⟨InCone.gpP a b row pcol k hk, h3⟩
        · obtain ⟨k, hk, h1, h2, h3⟩ := mem_diagSchedule h
          rw [h1, h2]; exact ⟨InCone.gpD a b row pcol k hk, h3⟩
      | zero d => simp [ConeSpec.isSparseExpandable] at hsp
      | nonneg d => simp [ConeSpec.isSparseExpandable] at hsp
      | exp => simp [ConeSpec.isSparseExpandable] at hsp
      | pow => simp [ConeSpec.isSparseExpandable] at hsp
      | psd n => simp [ConeSpec.isSparseExpandable] at hsp
    · rw [if_neg hsp] at h
      cases h

theorem mem_conesSchedule {shape : MatrixTriangle} {e : Entry α} :
    ∀ (cones : List ConeSpec) (row pcol : Nat), e ∈ conesSchedule (α := α) cones row pcol shape →
      ∃ pre c post, cones = pre ++ c :: post ∧
        InCone shape c (row + (pre.map ConeSpec.numel).sum) (pcol + (pre.map conePdim).sum)
          e.row e.readCol ∧ e.val = 0
  | [], _, _, he => by simp [conesSchedule] at he
  | c :: rest, row, pcol, he => by
    simp only [conesSchedule] at he
    rcases List.mem_append.mp he with h | h
    · obtain ⟨h1, h2⟩ := mem_coneSchedule h
      exact ⟨[], c, rest, rfl, by simpa using h1, h2⟩
    · obtain ⟨pre, c', post, hdec, h1, h2⟩ := mem_conesSchedule rest _ _ h
      refine ⟨c :: pre, c', post, by rw [hdec]; rfl, ?_, h2⟩
      simp only [List.map_cons, List.sum_cons]
      rw [← Nat.add_assoc, ← Nat.add_assoc]
      exact h1


-- ------------------------------------------------------------------ the schedule writes only intended entries

open Clarabel.Lemmas.KktFillBlock in
omit [OfNat α 0] in
theorem mem_blockSchedule {M : Csc α} (hwf : BlockWF M) {r0 c0 : Nat} {shape : MatrixShape}
    {s : List (Entry α)} (hs : blockSchedule M r0 c0 shape = .ok s) {e : Entry α} (he : e ∈ s) :
    ∃ i j r v, i < M.n ∧ M.colptr.getD i 0 ≤ j ∧ j < M.colptr.getD (i + 1) 0 ∧
      M.rowval[j]? = some r ∧ M.nzval[j]? = some v ∧ e.row = (blockCoord shape r0 c0 i r).1 ∧
      e.readCol = (blockCoord shape r0 c0 i r).2 ∧ e.val = v := by
  obtain ⟨j, hj⟩ := List.getElem?_of_mem he
  obtain ⟨i, r, v, hi, h1, h2, hr, hv, rfl⟩ := blockSchedule_get' hwf r0 c0 shape s hs j e hj
  exact ⟨i, j, r, v, hi, h1, h2, hr, hv, rfl, rfl, rfl⟩

theorem mem_missingDiagSchedule {M : Csc α} {s : List (Entry α)}
    (hs : missingDiagSchedule M 0 = .ok s) {e : Entry α} (he : e ∈ s) :
    ∃ i, i < M.n ∧ missingDiag M i = true ∧ e.row = i ∧ e.readCol = i ∧ e.val = 0 := by
  rw [missingDiagSchedule_ok hs] at he
  simp only [List.mem_flatMap, List.mem_range] at he
  obtain ⟨i, hi, h⟩ := he
  by_cases hm : missingDiag M i = true
  · rw [if_pos hm] at h
    simp only [List.mem_singleton] at h
    subst h
    exact ⟨i, hi, hm, rfl, rfl, rfl⟩
  · rw [if_neg hm] at h
    cases h

theorem missingDiag_mem {M : Csc α} {s : List (Entry α)}
    (hs : missingDiagSchedule M 0 = .ok s) {i : Nat} (hi : i < M.n) (hm : missingDiag M i = true) :
    ∃ e ∈ s, e.row = i ∧ e.readCol = i ∧ e.val = 0 := by
  rw [missingDiagSchedule_ok hs]
  refine ⟨{ readCol := i, incCol := i, row := i, val := 0, k := none }, ?_, rfl, rfl, rfl⟩
  simp only [List.mem_flatMap, List.mem_range]
  exact ⟨i, hi, by rw [if_pos hm]; simp⟩

/-- decomposition of the schedule, for either triangle -/
theorem kktSchedule_split {P A : Csc α} {cones : List ConeSpec} {shape : MatrixTriangle}
    {sched : List (Entry α)} (hs : kktSchedule P A cones shape = .ok sched) :
    ∃ sP sD sA,
      blockSchedule P 0 0 (match shape with | .triu => .N | .tril => .T) = .ok sP ∧
      missingDiagSchedule P 0 = .ok sD ∧
      (match shape with
        | .triu => blockSchedule A 0 A.n .T
        | .tril => blockSchedule A A.n 0 .N) = .ok sA ∧
      ∀ e, e ∈ sched ↔ (e ∈ sP ∨ e ∈ sD ∨ e ∈ sA ∨ e ∈ conesSchedule (α := α) cones A.n (A.m + A.n) shape) := by
  cases shape with
  | triu =>
    obtain ⟨sP, sD, sA, h1, h2, h3, rfl⟩ := kktSchedule_triu_ok hs
    refine ⟨sP, sD, sA, h1, h2, h3, ?_⟩
    intro e
    simp only [List.mem_append, or_assoc]
  | tril =>
    obtain ⟨sD, sP, sA, h2, h1, h3, rfl⟩ := kktSchedule_tril_ok hs
    refine ⟨sP, sD, sA, h1, h2, h3, ?_⟩
    intro e
    simp only [List.mem_append, or_assoc]
    exact or_left_comm

/-- (→) every scheduled write is an intended entry -/
theorem intended_of_mem {P A : Csc α} {cones : List ConeSpec} {shape : MatrixTriangle}
    {sched : List (Entry α)} (hP : Canon P) (hA : Canon A)
    (hs : kktSchedule P A cones shape = .ok sched) {e : Entry α} (he : e ∈ sched) :
    Intended P A cones shape e.row e.readCol e.val := by
  obtain ⟨sP, sD, sA, hsP, hsD, hsA, hmem⟩ := kktSchedule_split hs
  rcases (hmem e).mp he with h | h | h | h
  · obtain ⟨i, j, r, v, hi, h1, h2, hr, hv, e1, e2, e3⟩ :=
      mem_blockSchedule (blockWF_of_canon hP) hsP h
    rw [e1, e2, e3]
    cases shape
    · exact Intended.pEntry i j r v hi h1 h2 hr hv
    · exact Intended.pEntry i j r v hi h1 h2 hr hv
  · obtain ⟨i, hi, hm, e1, e2, e3⟩ := mem_missingDiagSchedule hsD h
    rw [e1, e2, e3]
    exact Intended.pDiag i hi hm
  · cases shape
    · obtain ⟨i, j, r, v, hi, h1, h2, hr, hv, e1, e2, e3⟩ :=
        mem_blockSchedule (blockWF_of_canon hA) hsA h
      rw [e1, e2, e3]
      exact Intended.aEntry i j r v hi h1 h2 hr hv
    · obtain ⟨i, j, r, v, hi, h1, h2, hr, hv, e1, e2, e3⟩ :=
        mem_blockSchedule (blockWF_of_canon hA) hsA h
      rw [e1, e2, e3]
      exact Intended.aEntry i j r v hi h1 h2 hr hv
  · obtain ⟨pre, c, post, hdec, h1, h2⟩ := mem_conesSchedule cones _ _ h
    rw [h2]
    exact Intended.cone pre c post _ _ hdec h1

omit [OfNat α 0] in
theorem slot_mem {ptr : Array Nat} {l : List (Entry α)} {o : Option Nat} {col row : Nat} {v : α}
    (h : SlotAt ptr l o col row v) : ∃ e ∈ l, e.row = row ∧ e.readCol = col ∧ e.val = v := by
  obtain ⟨g, e, hg, h1, h2, h3, _⟩ := h
  exact ⟨e, List.mem_of_getElem? hg, h2, h1, h3⟩

/-- (←) every intended entry is written -/
theorem mem_of_intended {P A : Csc α} {cones : List ConeSpec} {shape : MatrixTriangle} {K : Csc α}
    {map : LDLDataMap} {sched : List (Entry α)} {Kc : Csc α} {nd : Nat}
    (R : AsmRun P A cones shape K map sched Kc nd) {r c : Nat} {v : α}
    (h : Intended P A cones shape r c v) :
    ∃ e ∈ sched, e.row = r ∧ e.readCol = c ∧ e.val = v := by
  cases h with
  | pEntry i j r v hi h1 h2 hr hv => exact slot_mem (R.fill.P_slots i j r v hi h1 h2 hr hv)
  | aEntry i j r v hi h1 h2 hr hv => exact slot_mem (R.fill.A_slots i j r v hi h1 h2 hr hv)
  | pDiag c hc hm =>
    obtain ⟨sP, sD, sA, hsP, hsD, hsA, hmem⟩ := kktSchedule_split R.sched_ok
    obtain ⟨e, he, h1, h2, h3⟩ := missingDiag_mem hsD hc hm
    exact ⟨e, (hmem e).mpr (Or.inr (Or.inl he)), h1, h2, h3⟩
  | cone pre cn post r col hdec hin =>
    obtain ⟨hHs, hSp⟩ := R.fill.cone_slots pre cn post hdec
    unfold HsSlots at hHs
    cases hin with
    | hsDiag _ _ _ k hd hk =>
      rw [if_pos hd] at hHs
      exact slot_mem (hHs k hk)
    | hsDense _ _ _ a b hd ha hb =>
      rw [if_neg (by simp [hd])] at hHs
      exact slot_mem (hHs a b ha hb)
    | socV d _ _ k hd hk =>
      obtain ⟨mp', _, hss⟩ := hSp (by simpa [ConeSpec.isSparseExpandable] using hd)
      cases mp' <;> simp only [SparseSlots] at hss
      exact slot_mem (hss.2.2.2.1 k hk)
    | socU d _ _ k hd hk =>
      obtain ⟨mp', _, hss⟩ := hSp (by simpa [ConeSpec.isSparseExpandable] using hd)
      cases mp' <;> simp only [SparseSlots] at hss
      exact slot_mem (hss.2.2.2.2.1 k hk)
    | socD d _ _ k hd hk =>
      obtain ⟨mp', _, hss⟩ := hSp (by simpa [ConeSpec.isSparseExpandable] using hd)
      cases mp' <;> simp only [SparseSlots] at hss
      exact slot_mem (hss.2.2.2.2.2 k hk)
    | gpQ a b _ _ k hk =>
      obtain ⟨mp', _, hss⟩ := hSp (by simp [ConeSpec.isSparseExpandable])
      cases mp' <;> simp only [SparseSlots] at hss
      exact slot_mem (hss.2.2.2.2.1 k hk)
    | gpR a b _ _ k hk =>
      obtain ⟨mp', _, hss⟩ := hSp (by simp [ConeSpec.isSparseExpandable])
      cases mp' <;> simp only [SparseSlots] at hss
      exact slot_mem (hss.2.2.2.2.2.1 k hk)
    | gpP a b _ _ k hk =>
      obtain ⟨mp', _, hss⟩ := hSp (by simp [ConeSpec.isSparseExpandable])
      cases mp' <;> simp only [SparseSlots] at hss
      exact slot_mem (hss.2.2.2.2.2.2.1 k hk)
    | gpD a b _ _ k hk =>
      obtain ⟨mp', _, hss⟩ := hSp (by simp [ConeSpec.isSparseExpandable])
      cases mp' <;> simp only [SparseSlots] at hss
      exact slot_mem (hss.2.2.2.2.2.2.2 k hk)

omit [OfNat α 0] in
theorem mem_colEntriesOf {sched : List (Entry α)} {c r : Nat} {v : α} :
    (r, v) ∈ colEntriesOf sched c ↔ ∃ e ∈ sched, e.row = r ∧ e.readCol = c ∧ e.val = v := by
  unfold colEntriesOf
  simp only [List.mem_map, List.mem_filter, beq_iff_eq, Prod.mk.injEq]
  constructor
  · rintro ⟨e, ⟨he, hc⟩, h1, h2⟩
    exact ⟨e, he, h1, hc, h2⟩
  · rintro ⟨e, he, h1, hc, h2⟩
    exact ⟨e, ⟨he, hc⟩, h1, h2⟩

/-- **the stored entries of `K` are exactly the intended ones** -/
theorem _root_.Clarabel.Lemmas.KktTotal.AsmRun.mem_col_iff {P A : Csc α} {cones : List ConeSpec}
    {shape : MatrixTriangle} {K : Csc α} {map : LDLDataMap} {sched : List (Entry α)} {Kc : Csc α}
    {nd : Nat} (R : AsmRun P A cones shape K map sched Kc nd) (hP : Canon P) (hA : Canon A)
    (r c : Nat) (hc : c < kktDim A cones) (v : α) :
    (r, v) ∈ K.col c ↔ Intended P A cones shape r c v := by
  rw [R.mat.col_eq c hc, mem_colEntriesOf]
  constructor
  · rintro ⟨e, he, rfl, rfl, rfl⟩
    exact intended_of_mem hP hA R.sched_ok he
  · exact mem_of_intended R

/-- intended entries lie inside the matrix -/
theorem intended_lt {P A : Csc α} {cones : List ConeSpec} {shape : MatrixTriangle} {K : Csc α}
    {map : LDLDataMap} {sched : List (Entry α)} {Kc : Csc α} {nd : Nat}
    (R : AsmRun P A cones shape K map sched Kc nd) {r c : Nat} {v : α}
    (h : Intended P A cones shape r c v) : r < kktDim A cones ∧ c < kktDim A cones := by
  obtain ⟨e, he, rfl, rfl, rfl⟩ := mem_of_intended R h
  exact ⟨(R.cols e he).2.1, (R.cols e he).1⟩

end Clarabel.Lemmas.KktIntended
