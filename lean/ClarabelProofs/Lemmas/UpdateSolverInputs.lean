/-
  C08, task "hypotheses on the user's input only": what `DefaultSolver::new` (the whole-solver model
  `Solver.new`) establishes about the object the data-updating theorems talk about.

  * `solverNew_ofData`   : `Solver.new = checkDimensions; internalData >>= SolverSt.ofData`, read off
                           the result.
  * `solverNew_kktInputs`: for well-formed user input (`InputOK`: canonical `P`, `A`, fitting
                           dimensions, `Σ nvars = m`) the internal `P`, `A` that `assemble_kkt_matrix`
                           is called with satisfy C11's `KktInputs` (canonical, upper triangular `P` —
                           `to_triu` has been applied —, canonical `A` after presolve, cones covering
                           the `m` rows), the linear-solver object IS `KktSolver.new` of them, and the
                           internal data is `DataOK`.
  * `solverNew_own_maps` : hence `MapsOK` / `KktSync` (C08's invariants) for the C08 state read off
                           the solver object, with hypotheses on the user's input only.
-/
import ClarabelProofs.Lemmas.SolverModelNoPanicKktNew
import ClarabelProofs.Lemmas.SolverModelNoPanicNew
import ClarabelProofs.Lemmas.SolverModelNoPanicConesA
import ClarabelProofs.Lemmas.UpdateSolverKktNew
import ClarabelProofs.Lemmas.UpdateSolverDefs
import ClarabelProofs.Lemmas.UpdateOwnMaps

namespace Clarabel.Solver
open Clarabel Clarabel.Update
open Clarabel.Lemmas.KktSpec (KktInputs)

set_option linter.unusedSectionVars false
set_option linter.unusedVariables false

variable {α : Type}

section
variable [Add α] [Sub α] [Mul α] [Div α] [Neg α] [OfNat α 0] [OfNat α 1] [OfNat α 2]
  [OfNat α 100] [OfNat α 1000] [LT α] [DecidableLT α] [LE α] [DecidableLE α] [BEq α] [FloatLike α]

/-- the ordering handed to QDLDL is a permutation of the KKT dimension of the internal problem (the AMD
ordering is an external input of the model).  This is C04's `PermFor` (`Lemmas/SolverModelNoPanicC04.lean`,
same body), restated because that file cannot be imported here (see `Lemmas/UpdateSolverKktNew.lean`). -/
def PermForU (P : Csc α) (q : Array α) (A : Csc α) (b : Array α) (cones : List (ConeT α))
    (st : Settings α) (perm : Array Nat) : Prop :=
  ∀ d K, internalData P q A b cones st = .ok d → makeCones d.cones = .ok K → PermOK perm d K

/-- `SolverSt.new` is `internalData` followed by `SolverSt.ofData` -/
theorem solverStNew_eq (P : Csc α) (q : Array α) (A : Csc α) (b : Array α) (cones : List (ConeT α))
    (st : Settings α) (perm : Array Nat) :
    SolverSt.new P q A b cones st perm
      = internalData P q A b cones st >>= fun d => SolverSt.ofData d st perm := rfl

/-- [S] the parts of a successful `DefaultSolver::new` -/
theorem solverNew_ofData {P : Csc α} {q : Array α} {A : Csc α} {b : Array α} {cones : List (ConeT α)}
    {st : Settings α} {perm : Array Nat} {S : Solver α} (h : Solver.new P q A b cones st perm = .ok S) :
    internalData P q A b cones st = .ok S.st.data ∧ SolverSt.ofData S.st.data st perm = .ok S.st ∧
      S.solution = Unscale.Solution.new A.n A.m := by
  unfold Solver.new at h
  obtain ⟨_, _, h⟩ := bind_ok_inv h
  obtain ⟨S0, hS0, h⟩ := bind_ok_inv h
  cases h
  rw [solverStNew_eq] at hS0
  obtain ⟨d, hd, hS0⟩ := bind_ok_inv hS0
  have hdata : S0.data = d := by
    unfold SolverSt.ofData at hS0
    obtain ⟨K, _, hS0⟩ := bind_ok_inv hS0
    obtain ⟨ks, _, hS0⟩ := bind_ok_inv hS0
    cases hS0
    rfl
  refine ⟨?_, ?_, rfl⟩
  · show _ = Except.ok S0.data
    rw [hdata]; exact hd
  · show SolverSt.ofData S0.data st perm = _
    rw [hdata]; exact hS0

/-- the parts of a successful `SolverSt.ofData` -/
theorem ofData_parts {d : ProblemData α} {st : Settings α} {perm : Array Nat} {S : SolverSt α}
    (h : SolverSt.ofData d st perm = .ok S) :
    S.data = d ∧ makeCones d.cones = .ok S.cones ∧
      KktSolver.new d.P d.A S.cones d.m d.n st.lin perm = .ok S.kktsystem.kktsolver ∧
      S.variables = varsNew d.n d.m ∧ S.residuals = residNew d.n d.m ∧
      S.stepLhs = varsNew d.n d.m ∧ S.stepRhs = varsNew d.n d.m ∧ S.prevVars = varsNew d.n d.m ∧
      S.kktsystem.x1 = Array.replicate d.n 0 ∧ S.kktsystem.z1 = Array.replicate d.m 0 ∧
      S.kktsystem.x2 = Array.replicate d.n 0 ∧ S.kktsystem.z2 = Array.replicate d.m 0 ∧
      S.kktsystem.workx = Array.replicate d.n 0 ∧ S.kktsystem.workz = Array.replicate d.m 0 ∧
      S.kktsystem.workConic = Array.replicate d.m 0 := by
  unfold SolverSt.ofData at h
  obtain ⟨K, hK, h⟩ := bind_ok_inv h
  obtain ⟨ks, hks, h⟩ := bind_ok_inv h
  cases h
  unfold KktSys.new at hks
  dsimp only at hks
  obtain ⟨Ks, hKs, hks⟩ := bind_ok_inv hks
  cases hks
  exact ⟨rfl, hK, hKs, rfl, rfl, rfl, rfl, rfl, rfl, rfl, rfl, rfl, rfl, rfl, rfl⟩

/-- [S] **`KktInputs` follows from what `DefaultSolver::new` establishes**: for well-formed USER
input the internal `P` (upper triangle), `A` (after presolve) and the cone objects of the solver
object satisfy C11's `KktInputs`; the linear-solver object is `KktSolver.new` of them; the internal
data is well formed and the cones cover its `m` rows. -/
theorem solverNew_kktInputs {P : Csc α} {q : Array α} {A : Csc α} {b : Array α} {cones : List (ConeT α)}
    {st : Settings α} {perm : Array Nat} (hin : InputOK P q A b cones) {S : Solver α}
    (h : Solver.new P q A b cones st perm = .ok S) :
    KktInputs S.st.data.P S.st.data.A (S.st.cones.map ConeSt.kktSpec) ∧
      KktSolver.new S.st.data.P S.st.data.A S.st.cones S.st.data.m S.st.data.n st.lin perm
        = .ok S.st.kktsystem.kktsolver ∧
      DataOK S.st.data ∧ numelAll S.st.cones = S.st.data.m ∧ ConesFull S.st.cones ∧
      makeCones S.st.data.cones = .ok S.st.cones := by
  obtain ⟨hd, hof, _⟩ := solverNew_ofData h
  obtain ⟨_, hK, hKs, _⟩ := ofData_parts hof
  obtain ⟨hdok, _, K', hK', hnum⟩ := internalData_dataOK hin hd
  rw [hK] at hK'
  cases hK'
  exact ⟨kktInputs_of_dataOK hdok hnum, hKs, hdok, hnum, makeCones_full hK, hK⟩

/-- [S] **C08's invariants for the solver's own maps, hypotheses on the user's input only**: the C08
state read off the object `DefaultSolver::new` returns on well-formed input satisfies `MapsOK` and
`KktSync`. -/
theorem solverNew_own_maps {P : Csc α} {q : Array α} {A : Csc α} {b : Array α} {cones : List (ConeT α)}
    {st : Settings α} {perm : Array Nat} (hin : InputOK P q A b cones) {S : Solver α}
    (h : Solver.new P q A b cones st perm = .ok S) (dec : Bool) :
    (State.ofSolver S.st.data S.st.kktsystem.kktsolver dec).MapsOK ∧
      (State.ofSolver S.st.data S.st.kktsystem.kktsolver dec).KktSync := by
  obtain ⟨hki, hKs, _⟩ := solverNew_kktInputs hin h
  exact kktSolver_new_inv_own S.st.data S.st.cones st.lin perm S.st.kktsystem.kktsolver dec hKs hki

/-- the norm caches of a freshly constructed solver are valid when equilibration did not run or …
in general they hold the norms of the USER's `q`, `b` (`DefaultProblemData::new`), which is what
`get_normq / get_normb` would recompute only up to rounding; `NormCacheOK` (a cached value is the
recomputed one) is therefore a hypothesis of the theorems that need it, or established by the first
accepted `update_q` / `update_b` (which clear the cache). -/
theorem normCacheOK_of_none (d : ProblemData α) (K : KktSolver α) (dec : Bool)
    (hq : d.normq = none) (hb : d.normb = none) : (State.ofSolver d K dec).NormCacheOK :=
  ⟨Or.inl hq, Or.inl hb⟩

end

end Clarabel.Solver
