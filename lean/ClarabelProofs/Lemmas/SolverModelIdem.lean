/-
  Solving twice (C05), partial: what `solve()` reads of the state a previous solve left behind.
  Proved here: the whole `info` block except the six `prev_*` fields is irrelevant (reset or
  overwritten before it is read), and `solve()` never writes the problem data.  All structural ([S]).

  NOT proved (and false as a bit-level statement at `Float`, see `Props/C05Full.lean`): that the
  remaining mutable components (iterate, residuals, step vectors, KKT work vectors / factors,
  cone scalings) are irrelevant.
-/
import ClarabelProofs.Lemmas.SolverModelPrefix
import ClarabelProofs.Lemmas.SolverModelRefine
namespace Clarabel.Solver
open Clarabel Info
set_option linter.unusedSectionVars false
set_option linter.unusedVariables false
variable {α : Type}
section
variable [Add α] [Sub α] [Mul α] [Div α] [Neg α] [OfNat α 0] [OfNat α 1] [OfNat α 2]
  [OfNat α 100] [OfNat α 1000] [LT α] [DecidableLT α] [LE α] [DecidableLE α] [BEq α] [FloatLike α]

/-- the solver state with its `info` block replaced -/
def withInfo (S : SolverSt α) (i : InfoS α) (a b c : α) : SolverSt α :=
  { S with info := i, infoMu := a, infoSigma := b, infoStepLength := c }

/-- the `prev_*` fields of two `info`s agree -/
def PrevEq (i j : InfoS α) : Prop :=
  i.prev_cost_primal = j.prev_cost_primal ∧ i.prev_cost_dual = j.prev_cost_dual
    ∧ i.prev_res_primal = j.prev_res_primal ∧ i.prev_res_dual = j.prev_res_dual
    ∧ i.prev_gap_abs = j.prev_gap_abs ∧ i.prev_gap_rel = j.prev_gap_rel

/-- the `info` block `old` with the `prev_*` fields of `new` -/
def carryPrev (old new : InfoS α) : InfoS α :=
  { old with prev_cost_primal := new.prev_cost_primal, prev_cost_dual := new.prev_cost_dual,
             prev_res_primal := new.prev_res_primal, prev_res_dual := new.prev_res_dual,
             prev_gap_abs := new.prev_gap_abs, prev_gap_rel := new.prev_gap_rel }

theorem carryPrev_prevEq (old new : InfoS α) : PrevEq (carryPrev old new) new :=
  ⟨rfl, rfl, rfl, rfl, rfl, rfl⟩

/-- `DefaultInfo::update` reads `prev_*`, `iterations`, `status` of the incoming `info` (to pass
them on) and nothing else -/
theorem update_congr (i j : InfoS α) (eq : Info.Equil α) (nq nb : α) (v : Residuals.Vars α)
    (r : Residuals.Resid α) (hp : PrevEq i j) (hit : i.iterations = j.iterations) (hst : i.status = j.status) :
    Info.update i eq nq nb v r = Info.update j eq nq nb v r := by
  obtain ⟨a1, a2, a3, a4, a5, a6, a7, a8, a9, p1, p2, p3, p4, p5, p6, it, s⟩ := i
  obtain ⟨b1, b2, b3, b4, b5, b6, b7, b8, b9, q1, q2, q3, q4, q5, q6, it', s'⟩ := j
  obtain ⟨h1, h2, h3, h4, h5, h6⟩ := hp
  dsimp only at h1 h2 h3 h4 h5 h6 hit hst
  subst h1 h2 h3 h4 h5 h6 hit hst
  unfold Info.update
  dsimp only


theorem topNumerics_withInfo (S : SolverSt α) (i : InfoS α) (a b c : α) (iter : Nat)
    (hp : PrevEq i S.info) (hst : i.status = S.info.status) :
    topNumerics (withInfo S i a b c) iter = topNumerics S iter := by
  have key : ∀ eq nq nb v r, Info.update { i with iterations := iter } eq nq nb v r
      = Info.update { S.info with iterations := iter } eq nq nb v r :=
    fun eq nq nb v r => update_congr _ _ eq nq nb v r hp rfl hst
  unfold topNumerics
  dsimp only [withInfo]
  simp only [key]

/-- the rest of a pass overwrites the whole `info` block before reading it -/
theorem passRest_withInfo (st : Settings α) (L : LoopSt α) (i : InfoS α) (a b c : α)
    (r : Residuals.Resid α) (mu : α) (i1 : InfoS α) (ct : InfoS α × Bool) :
    passRest st { L with S := withInfo L.S i a b c } r mu i1 ct = passRest st L r mu i1 ct := rfl

/-- a pass reads of the `info` block only `prev_*` and `status` -/
theorem pass_withInfo (st : Settings α) (L : LoopSt α) (i : InfoS α) (a b c : α)
    (hp : PrevEq i L.S.info) (hst : i.status = L.S.info.status) :
    pass st { L with S := withInfo L.S i a b c } = pass st L := by
  rw [pass_eq, pass_eq]
  show (topNumerics (withInfo L.S i a b c) L.iter >>= _) = _
  rw [topNumerics_withInfo L.S i a b c L.iter hp hst]
  cases topNumerics L.S L.iter with
  | error e => rfl
  | ok t => exact passRest_withInfo st L i a b c _ _ _ _

theorem defaultStart_withInfo (S : SolverSt α) (st : Settings α) (i : InfoS α) (a b c : α) :
    (withInfo S i a b c).defaultStart st = (S.defaultStart st).map (fun S' => withInfo S' i a b c) := by
  unfold SolverSt.defaultStart
  dsimp only [withInfo]
  cases S.kktsystem.update S.data (setIdentityScaling S.cones) st.lin with
  | error e => rfl
  | ok p =>
    obtain ⟨ok1, ks⟩ := p
    dsimp only [bind, Except.bind]
    cases ks.solveInitialPoint S.variables S.data st.lin with
    | error e => rfl
    | ok q =>
      obtain ⟨ok2, v, ks2⟩ := q
      dsimp only
      cases symmetricInitialization v (setIdentityScaling S.cones) with
      | error e => rfl
      | ok v2 => rfl

/-- `C05.full_solve_info_irrelevant` (loop level): `runSolve` reads of the `info` block
(`DefaultInfo`: the nine figures of the last `info.update`, `μ`, `σ`, `step_length`, `iterations`,
`status`) only the six `prev_*` fields — everything else is reset or overwritten before it is
read -/
theorem runSolve_withInfo (S : SolverSt α) (st : Settings α) (i : InfoS α) (a b c : α)
    (hp : PrevEq i S.info) : (withInfo S i a b c).runSolve st = S.runSolve st := by
  have e1 : (withInfo S i a b c).runSolve st =
      ((S.defaultStart st).map fun S0 => withInfo S0 { i with status := .unsolved, iterations := 0 } a b c)
        >>= fun S1 => runLoop st (st.info.max_iter + 2) (initLoopSt S1) := by
    unfold SolverSt.runSolve
    rw [← defaultStart_withInfo]
    rfl
  have e2 : S.runSolve st =
      ((S.defaultStart st).map fun S0 => withInfo S0 { S.info with status := .unsolved, iterations := 0 }
          S.infoMu S.infoSigma S.infoStepLength)
        >>= fun S1 => runLoop st (st.info.max_iter + 2) (initLoopSt S1) := by
    unfold SolverSt.runSolve
    rw [← defaultStart_withInfo]
    rfl
  rw [e1, e2]
  cases S.defaultStart st with
  | error e => rfl
  | ok S0 =>
    show runLoop st (st.info.max_iter + 1 + 1)
        (initLoopSt (withInfo S0 { i with status := .unsolved, iterations := 0 } a b c)) =
      runLoop st (st.info.max_iter + 1 + 1)
        (initLoopSt (withInfo S0 { S.info with status := .unsolved, iterations := 0 }
          S.infoMu S.infoSigma S.infoStepLength))
    have hpass : pass st (initLoopSt (withInfo S0 { i with status := .unsolved, iterations := 0 } a b c)) =
        pass st (initLoopSt (withInfo S0 { S.info with status := .unsolved, iterations := 0 }
          S.infoMu S.infoSigma S.infoStepLength)) :=
      pass_withInfo st (initLoopSt (withInfo S0 { S.info with status := .unsolved, iterations := 0 }
          S.infoMu S.infoSigma S.infoStepLength)) { i with status := .unsolved, iterations := 0 } a b c hp rfl
    unfold runLoop
    rw [hpass]

/-- `C05.full_solve_info_irrelevant`: `solve()` reads of the `info` block only the `prev_*` fields -/
theorem solve_withInfo (S : Solver α) (st : Settings α) (i : InfoS α) (a b c : α)
    (hp : PrevEq i S.st.info) :
    ({ S with st := withInfo S.st i a b c } : Solver α).solve st = S.solve st := by
  unfold Solver.solve
  show ((withInfo S.st i a b c).runSolve st >>= _) = _
  rw [runSolve_withInfo S.st st i a b c hp]

/-- the solver object `S1` with the `info` block of `S0` (keeping `S1`'s own `prev_*`) -/
def withInfoOf (S0 S1 : Solver α) : Solver α :=
  { S1 with st := withInfo S1.st (carryPrev S0.st.info S1.st.info) S0.st.infoMu S0.st.infoSigma S0.st.infoStepLength }

theorem solve_withInfoOf (S0 S1 : Solver α) (st : Settings α) : (withInfoOf S0 S1).solve st = S1.solve st :=
  solve_withInfo S1 st _ _ _ _ (carryPrev_prevEq _ _)

/-- a pass never writes the problem data -/
theorem pass_data {st : Settings α} {L L' : LoopSt α} {c : Bool} (hp : pass st L = .ok (c, L')) :
    L'.S.data = L.S.data := by
  cases pass_inv hp with
  | done => rfl
  | rollback => rfl
  | scaleFail => rfl
  | kktFail _ _ _ _ k _ _ _ _ hk _ =>
    show k.S.data = _
    rw [(kktNumerics_frame hk).1]; rfl
  | smallStep _ _ _ _ k _ _ _ _ _ hk _ _ _ =>
    show k.S.data = _
    rw [(kktNumerics_frame hk).1]; rfl
  | step _ _ _ _ k _ _ _ _ _ _ hk _ _ _ _ =>
    show k.S.data = _
    rw [(kktNumerics_frame hk).1]; rfl

theorem reach_data {st : Settings α} {L L' : LoopSt α} (h : Reach st L L') : L'.S.data = L.S.data := by
  induction h with
  | refl => rfl
  | step hp _ ih => rw [ih, pass_data hp]

theorem finishInfo_data (st : Settings α) (L : LoopSt α) : (finishInfo st L).data = L.S.data := by
  unfold finishInfo
  dsimp only
  split <;> rfl

/-- the loop and `finish` of a `solve()` never write the (internal) problem data -/
theorem runSolve_finish_data {S : SolverSt α} {st : Settings α} {L : LoopSt α} {sol : Unscale.Solution α}
    {p : SolverSt α × Unscale.Solution α} (hL : S.runSolve st = .ok L) (hp : finish st L sol = .ok p) :
    p.1.data = S.data := by
  unfold finish at hp
  obtain ⟨u, hu, hp⟩ := bind_ok_inv hp
  cases hp
  show (finishInfo st L).data = _
  rw [finishInfo_data]
  rw [runSolve_eq_runSolveO] at hL
  obtain ⟨o, ho, hl⟩ := bind_ok_inv hL
  unfold SolverSt.runSolveO at ho
  obtain ⟨S0, hds, ho⟩ := bind_ok_inv ho
  have hI := initLoopSt_inv hds
  have hspec := runLoopO_spec st (st.info.max_iter + 2) (initLoopSt S0) hI
    (by show st.info.max_iter - 0 < st.info.max_iter + 2; omega)
  rw [ho] at hspec
  cases o with
  | none => exact hspec.elim
  | some Lf =>
    cases hl
    obtain ⟨_, Lm, hr, hpm⟩ := hspec
    rw [pass_data hpm, reach_data hr]
    show S0.data = _
    rw [defaultStart_frame hds]
    rfl

/-- **what `solve()` does to the (internal) problem data**: nothing but FILL THE TWO NORM CACHES —
the data of the returned object is `get_normq(); get_normb()` (`fillNorms`) applied to the data at
entry.  (`DefaultInfo::update` makes these two calls at the top of every pass.) -/
theorem solve_data {S : Solver α} {st : Settings α} {r : SolveResult α} (h : S.solve st = .ok r) :
    fillNorms S.st.data = .ok r.S.st.data := by
  obtain ⟨L, p, d, hL, hp, hd, rfl⟩ := solve_ok_inv h
  rw [runSolve_finish_data hL hp] at hd
  exact hd

/-- `solve_data`, spelled out: the caches become `some` of what `get_normq` / `get_normb` answer on
the data at entry; every other field of the data is unchanged -/
theorem solve_data_eq {S : Solver α} {st : Settings α} {r : SolveResult α} (h : S.solve st = .ok r) :
    ∃ nq nb, Info.getNormq S.st.data.normq S.st.data.q S.st.data.equilibration.dinv
        S.st.data.equilibration.c = .ok nq
      ∧ Info.getNormb S.st.data.normb S.st.data.b S.st.data.equilibration.einv = .ok nb
      ∧ r.S.st.data = { S.st.data with normq := some nq, normb := some nb } :=
  fillNorms_ok_inv (solve_data h)

end
end Clarabel.Solver
