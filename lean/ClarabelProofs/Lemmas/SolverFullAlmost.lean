/-
  Round 4 (composition) — where an `Almost{Primal,Dual}Infeasible` verdict of the whole-solver
  model (`ClarabelModel/Solver/Solve.lean`) comes from.

  `Almost*` statuses are never produced inside the loop: `check_termination` yields a full verdict,
  `InsufficientProgress`, `MaxIterations`, `MaxTime` or leaves `Unsolved`; the strategy checkpoints
  set `NumericalError` / `InsufficientProgress`.  So the verdict is assigned by `Info::post_process`
  (`check_convergence_almost`, reduced tolerances) after the loop, either
    (a) on the figures `Info.update` assigned in the LAST pass to the iterate that is returned, or
    (b) after an insufficient-progress rollback, on the restored (`prev_*`) figures carried by the
        info of the discarded last pass (the situation `Info.rollback_never_infeasible` is about).

  All structural ([S]): every scalar type, `Float` included.
-/
import ClarabelProofs.Lemmas.SolverFullTraj

namespace Clarabel.Solver
open Clarabel Info Residuals Clarabel.InfoReport

set_option linter.unusedSectionVars false
set_option linter.unusedVariables false

variable {α : Type}

/-- the decision table of `check_convergence` -/
def ccTable (c1 c2 c3 c4 : Bool) (a b c d : SolverStatus) : SolverStatus :=
  if c1 then a else if c2 then (if c3 then b else if c4 then c else d) else d

/-- a verdict other than the status handed in and the `solved` slot does not depend on the status
handed in -/
theorem ccTable_transfer {c1 c2 c3 c4 : Bool} {a b c d d' Y : SolverStatus}
    (h : ccTable c1 c2 c3 c4 a b c d = Y) (hd : d ≠ Y) : ccTable c1 c2 c3 c4 a b c d' = Y := by
  cases c1 <;> cases c2 <;> cases c3 <;> cases c4 <;> first | exact h | exact absurd h hd

/-- `check_termination` never assigns an `Almost*Infeasible` status by itself -/
theorem cti_almost {s1 X : SolverStatus} {g r p1 p23 mx tm : Bool}
    (hX : X = .almostPrimalInfeasible ∨ X = .almostDualInfeasible)
    (h : cti s1 g r p1 p23 mx tm = X) : s1 = X := by
  rcases hX with rfl | rfl <;>
    cases s1 <;> cases g <;> cases r <;> cases p1 <;> cases p23 <;> cases mx <;> cases tm <;>
      first | rfl | cases h

/-- `check_termination` never assigns `AlmostSolved` by itself -/
theorem cti_almostSolved {s1 : SolverStatus} {g r p1 p23 mx tm : Bool}
    (h : cti s1 g r p1 p23 mx tm = .almostSolved) : s1 = .almostSolved := by
  cases s1 <;> cases g <;> cases r <;> cases p1 <;> cases p23 <;> cases mx <;> cases tm <;>
    first | rfl | cases h

section
variable [Add α] [Sub α] [Mul α] [Div α] [Neg α] [OfNat α 0] [OfNat α 1] [OfNat α 2]
  [OfNat α 100] [OfNat α 1000] [LT α] [DecidableLT α] [LE α] [DecidableLE α] [BEq α] [FloatLike α]

/-- the status `check_convergence` leaves, as a table of its four tests (which read `ktratio`, the
gaps, the residuals and the infeasibility residuals only) -/
theorem checkConvergence_status (i : InfoS α) (bz qx : α) (t : Info.Tols α) (a b c : SolverStatus) :
    (Info.checkConvergence i bz qx t a b c).status =
      ccTable (decide (i.ktratio ≤ 1) && Info.isSolved i t.gap_abs t.gap_rel t.feas)
        (decide (i.ktratio > (1 / t.ktratio) * 1000))
        (Info.isPrimalInfeasible i bz t.infeas_abs t.infeas_rel)
        (Info.isDualInfeasible i qx t.infeas_abs t.infeas_rel) a b c i.status := by
  unfold Info.checkConvergence ccTable
  generalize (decide (i.ktratio ≤ 1) && Info.isSolved i t.gap_abs t.gap_rel t.feas) = c1
  generalize Info.isPrimalInfeasible i bz t.infeas_abs t.infeas_rel = c3
  generalize Info.isDualInfeasible i qx t.infeas_abs t.infeas_rel = c4
  by_cases h2 : i.ktratio > (1 / t.ktratio) * 1000
  · rw [if_pos h2, decide_eq_true h2]
    cases c1 <;> cases c3 <;> cases c4 <;> rfl
  · rw [if_neg h2, decide_eq_false h2]
    cases c1 <;> rfl

/-- congruence: `check_convergence` on an info whose `status` and `iterations` were overwritten -/
theorem checkConvergence_transfer (i : InfoS α) (s' : SolverStatus) (it : Nat) (bz qx : α)
    (t : Info.Tols α) (a b c : SolverStatus) {Y : SolverStatus}
    (h : (Info.checkConvergence { i with status := s', iterations := it } bz qx t a b c).status = Y)
    (hs : s' ≠ Y) : (Info.checkConvergence i bz qx t a b c).status = Y := by
  rw [checkConvergence_status] at h ⊢
  exact ccTable_transfer h hs

/-- the verdict of `Info::post_process` does not read `iterations` -/
theorem postProcess_status_iterations (j : InfoS α) (it : Nat) (bz qx : α) (s : Info.Settings α) :
    (Info.postProcess { j with iterations := it } bz qx s).status = (Info.postProcess j bz qx s).status := by
  unfold Info.postProcess
  show (if (j.status.isErrored || j.status == .maxIterations || j.status == .maxTime) = true
      then Info.checkConvergenceAlmost { j with iterations := it } bz qx s
      else { j with iterations := it }).status = _
  split
  · unfold Info.checkConvergenceAlmost
    rw [checkConvergence_status, checkConvergence_status]
    rfl
  · rfl

/-- an `Almost*` verdict of `Info::post_process` that was not there before is the verdict of
`check_convergence_almost`, and it does not depend on the `status` / `iterations` handed in -/
theorem postProcess_almost_transfer (i : InfoS α) (s' : SolverStatus) (it : Nat) (bz qx : α)
    (s : Info.Settings α) {X : SolverStatus}
    (h : (Info.postProcess { i with status := s', iterations := it } bz qx s).status = X)
    (hs : s' ≠ X) : (Info.checkConvergenceAlmost i bz qx s).status = X := by
  unfold Info.postProcess at h
  split at h
  · unfold Info.checkConvergenceAlmost at h ⊢
    exact checkConvergence_transfer i s' it bz qx s.reduced _ _ _ h hs
  · exact absurd h hs

/-- `check_termination` run on an `Unsolved` info never yields an `Almost*Infeasible` status -/
theorem checkTermination_not_almost {i : InfoS α} {bz qx : α} {s : Info.Settings α} {iter : Nat} {tov : Bool}
    (hi : i.status = .unsolved) {X : SolverStatus}
    (hX : X = .almostPrimalInfeasible ∨ X = .almostDualInfeasible) :
    (Info.checkTermination i bz qx s iter tov).1.status ≠ X := by
  intro h
  rw [info_checkTermination_table] at h
  have h1 := cti_almost hX h
  rcases checkConvergence_status_cases i bz qx s.full .solved .primalInfeasible .dualInfeasible with
    h2 | h2 | h2 | h2 <;> rw [h2] at h1
  · subst h1; rcases hX with e | e <;> cases e
  · subst h1; rcases hX with e | e <;> cases e
  · subst h1; rcases hX with e | e <;> cases e
  · rw [hi] at h1; subst h1; rcases hX with e | e <;> cases e

/-- the state the loop is left with, relative to the record `l` of the breaking pass: either the
final info is `l.info` up to a (non-`Almost*Infeasible`) status and the iterate is `l.vars`, or the
pass ended by the insufficient-progress rollback -/
theorem pass_brk_almost {st : Settings α} {L L' : LoopSt α} (hI : LInv st L)
    (hp : pass st L = .ok (false, L')) :
    ∃ l, L'.traj.getLast? = some l ∧ l.info.status = .unsolved
      ∧ L'.S.residuals.dot_bz = l.dotBz ∧ L'.S.residuals.dot_qx = l.dotQx
      ∧ ((∃ s', L'.S.info = { l.info with status := s' }
            ∧ (∀ X, X = .almostPrimalInfeasible ∨ X = .almostDualInfeasible → s' ≠ X)
            ∧ L'.S.variables = l.vars)
        ∨ ((Info.checkTermination l.info l.dotBz l.dotQx st.info L.iter false).1.status = .insufficientProgress
            ∧ L'.S.info = Info.resetToPrev (Info.checkTermination l.info l.dotBz l.dotQx st.info L.iter false).1)) := by
  have hlit1 : ∀ X : SolverStatus, X = .almostPrimalInfeasible ∨ X = .almostDualInfeasible →
      SolverStatus.numericalError ≠ X := fun X hX e => by subst e; rcases hX with h | h <;> cases h
  have hlit2 : ∀ X : SolverStatus, X = .almostPrimalInfeasible ∨ X = .almostDualInfeasible →
      SolverStatus.insufficientProgress ≠ X := fun X hX e => by subst e; rcases hX with h | h <;> cases h
  cases pass_inv hp with
  | done residuals mu info1 htop hdone hip =>
    obtain ⟨-, -, -, -, -, -, -, f8⟩ := topNumerics_frame htop
    have hun : info1.status = .unsolved := by rw [f8]; exact hI.status
    have hfr := (checkTermination_frame info1 residuals.dot_bz residuals.dot_qx st.info L.iter false).1
    exact ⟨_, List.getLast?_concat .., hun, rfl, rfl,
      Or.inl ⟨_, hfr, fun X hX => checkTermination_not_almost hun hX, rfl⟩⟩
  | rollback residuals mu info1 vrs htop hdone hip hcopy =>
    obtain ⟨-, -, -, -, -, -, -, f8⟩ := topNumerics_frame htop
    have hun : info1.status = .unsolved := by rw [f8]; exact hI.status
    exact ⟨_, List.getLast?_concat .., hun, rfl, rfl, Or.inr ⟨hip, rfl⟩⟩
  | scaleFail residuals mu info1 scl htop hdone hsc hok =>
    obtain ⟨-, -, -, -, -, -, -, f8⟩ := topNumerics_frame htop
    have hun : info1.status = .unsolved := by rw [f8]; exact hI.status
    obtain ⟨s0, hs0⟩ := checkTermination_eq_status info1 residuals.dot_bz residuals.dot_qx st.info L.iter false
    refine ⟨_, List.getLast?_concat .., hun, rfl, rfl, Or.inl ⟨.numericalError, ?_, hlit1, rfl⟩⟩
    show ({ (Info.checkTermination info1 residuals.dot_bz residuals.dot_qx st.info L.iter false).1 with
      status := SolverStatus.numericalError } : InfoS α) = _
    rw [hs0]
    rfl
  | kktFail residuals mu info1 scl k htop hdone hsc hok hk hkok =>
    obtain ⟨-, -, -, -, -, -, -, f8⟩ := topNumerics_frame htop
    have hun : info1.status = .unsolved := by rw [f8]; exact hI.status
    obtain ⟨s0, hs0⟩ := checkTermination_eq_status info1 residuals.dot_bz residuals.dot_qx st.info L.iter false
    obtain ⟨hkS, -⟩ := kktNumerics_frame hk
    have e1 : k.S.info = (Info.checkTermination info1 residuals.dot_bz residuals.dot_qx st.info L.iter false).1 := by
      rw [hkS]; rfl
    have e6 : k.S.variables = L.S.variables := by rw [hkS]; rfl
    have e7 : k.S.residuals = residuals := by rw [hkS]; rfl
    refine ⟨_, List.getLast?_concat .., hun, ?_, ?_, Or.inl ⟨.numericalError, ?_, hlit1, e6⟩⟩
    · show k.S.residuals.dot_bz = residuals.dot_bz
      rw [e7]
    · show k.S.residuals.dot_qx = residuals.dot_qx
      rw [e7]
    · show ({ k.S.info with status := SolverStatus.numericalError } : InfoS α) = _
      rw [e1, hs0]
      rfl
  | smallStep residuals mu info1 scl k a htop hdone hsc hok hk hkok ha hsmall =>
    obtain ⟨-, -, -, -, -, -, -, f8⟩ := topNumerics_frame htop
    have hun : info1.status = .unsolved := by rw [f8]; exact hI.status
    obtain ⟨s0, hs0⟩ := checkTermination_eq_status info1 residuals.dot_bz residuals.dot_qx st.info L.iter false
    obtain ⟨hkS, -⟩ := kktNumerics_frame hk
    have e1 : k.S.info = (Info.checkTermination info1 residuals.dot_bz residuals.dot_qx st.info L.iter false).1 := by
      rw [hkS]; rfl
    have e6 : k.S.variables = L.S.variables := by rw [hkS]; rfl
    have e7 : k.S.residuals = residuals := by rw [hkS]; rfl
    refine ⟨_, List.getLast?_concat .., hun, ?_, ?_, Or.inl ⟨.insufficientProgress, ?_, hlit2, e6⟩⟩
    · show k.S.residuals.dot_bz = residuals.dot_bz
      rw [e7]
    · show k.S.residuals.dot_qx = residuals.dot_qx
      rw [e7]
    · show ({ k.S.info with status := SolverStatus.insufficientProgress } : InfoS α) = _
      rw [e1, hs0]
      rfl

/-- [S] **where an `Almost*Infeasible` verdict comes from**: it is assigned by `Info::post_process`
after the loop — (a) by `check_convergence_almost` on the figures of the LAST pass, whose iterate is
the one returned (un-scaled as an infeasibility certificate), or (b) after an insufficient-progress
rollback, on the restored info of the discarded last pass -/
theorem solve_almost_infeasible_verdict {S : Solver α} {st : Settings α} {r : SolveResult α}
    (hr : S.solve st = .ok r) {X : SolverStatus}
    (hX : X = .almostPrimalInfeasible ∨ X = .almostDualInfeasible)
    (h : r.S.solution.status = X) :
    ∃ l, r.traj.getLast? = some l ∧ l ∈ r.traj ∧ l.info.status = .unsolved ∧
      ( ((Info.checkConvergenceAlmost l.info l.dotBz l.dotQx st.info).status = X
          ∧ r.S.st.variables = Unscale.unscale l.vars (equilView S.st.data.equilibration) true)
      ∨ (∃ k, (Info.checkTermination l.info l.dotBz l.dotQx st.info k false).1.status = .insufficientProgress
          ∧ (Info.postProcess (Info.resetToPrev (Info.checkTermination l.info l.dotBz l.dotQx st.info k false).1)
                l.dotBz l.dotQx st.info).status = X) ) := by
  unfold Solver.solve at hr
  obtain ⟨L, hL, hr⟩ := bind_ok_inv hr
  obtain ⟨q, hq, hr⟩ := bind_ok_inv hr
  obtain ⟨dN, hdN, hr⟩ := bind_ok_inv hr
  cases hr
  unfold finish at hq
  obtain ⟨u, hu, hq⟩ := bind_ok_inv hq
  cases hq
  obtain ⟨-, hdat⟩ := runSolve_pexit hL
  obtain ⟨S0, Lm, hds, hreach, hpm⟩ := runSolve_reach hL
  have hIm := hreach.inv (initLoopSt_inv hds)
  obtain ⟨-, -, -, -, g5, g6, it, hit⟩ := finishInfo_frame st L
  obtain ⟨-, -, -, -, a5, -⟩ := postProcess_scalars _ _ _ _ _ _ hu
  have hu2 := postProcess_vars _ _ _ _ _ _ hu
  have hst : (finishInfo st L).info.status = X := by rw [← a5]; exact h
  have hpp := hst
  rw [hit] at hpp
  obtain ⟨l, hl, hun, hbz, hqx, halt⟩ := pass_brk_almost hIm hpm
  rw [hbz, hqx] at hpp
  refine ⟨l, hl, List.mem_of_getLast? hl, hun, ?_⟩
  rcases halt with ⟨s', hinfo, hs', hv⟩ | ⟨hip, hinfo⟩
  · left
    rw [hinfo] at hpp
    refine ⟨postProcess_almost_transfer l.info s' it l.dotBz l.dotQx st.info hpp (hs' X hX), ?_⟩
    show u.2 = _
    have hinf : X.isInfeasible = true := by rcases hX with e | e <;> rw [e] <;> rfl
    rw [hu2, g5, hv, g6, hdat, hst, hinf]
  · right
    rw [hinfo, postProcess_status_iterations] at hpp
    exact ⟨Lm.iter, hip, hpp⟩

/-! ### `AlmostSolved` -/

/-- `check_termination` run on an `Unsolved` info never yields `AlmostSolved` -/
theorem checkTermination_not_almostSolved {i : InfoS α} {bz qx : α} {s : Info.Settings α} {iter : Nat}
    {tov : Bool} (hi : i.status = .unsolved) :
    (Info.checkTermination i bz qx s iter tov).1.status ≠ .almostSolved := by
  intro h
  rw [info_checkTermination_table] at h
  have h1 := cti_almostSolved h
  rcases checkConvergence_status_cases i bz qx s.full .solved .primalInfeasible .dualInfeasible with
    h2 | h2 | h2 | h2 <;> rw [h2] at h1
  · cases h1
  · cases h1
  · cases h1
  · rw [hi] at h1; cases h1

/-- the loop is never left with the status `AlmostSolved` -/
theorem pass_brk_not_almostSolved {st : Settings α} {L L' : LoopSt α} (hI : LInv st L)
    (hp : pass st L = .ok (false, L')) : L'.S.info.status ≠ .almostSolved := by
  cases pass_inv hp with
  | done residuals mu info1 htop hdone hip =>
    obtain ⟨-, -, -, -, -, -, -, f8⟩ := topNumerics_frame htop
    exact checkTermination_not_almostSolved (by rw [f8]; exact hI.status)
  | rollback residuals mu info1 vrs htop hdone hip hcopy =>
    show (Info.checkTermination info1 residuals.dot_bz residuals.dot_qx st.info L.iter false).1.status ≠ _
    rw [hip]; decide
  | scaleFail residuals mu info1 scl htop hdone hsc hok => intro h; cases h
  | kktFail residuals mu info1 scl k htop hdone hsc hok hk hkok => intro h; cases h
  | smallStep residuals mu info1 scl k a htop hdone hsc hok hk hkok ha hsmall => intro h; cases h

/-- [S] **where an `AlmostSolved` verdict comes from**: `Info::post_process` assigns it after the
loop, and its reduced `is_solved` test holds on the figures `Info.update` assigned to the RETURNED
iterate (the last record, or the last but one after an insufficient-progress rollback) -/
theorem solve_almost_solved_verdict {S : Solver α} {st : Settings α} {r : SolveResult α}
    (hr : S.solve st = .ok r) (h : r.S.solution.status = .almostSolved) :
    ∃ p, p ∈ r.traj ∧ InfoReport.SameFigures r.S.st.info p.info
      ∧ r.S.st.variables = Unscale.unscale p.vars (equilView S.st.data.equilibration) false
      ∧ (p.info.gap_abs < st.info.reduced.gap_abs ∨ p.info.gap_rel < st.info.reduced.gap_rel)
      ∧ p.info.res_primal < st.info.reduced.feas ∧ p.info.res_dual < st.info.reduced.feas := by
  unfold Solver.solve at hr
  obtain ⟨L, hL, hr⟩ := bind_ok_inv hr
  obtain ⟨q, hq, hr⟩ := bind_ok_inv hr
  obtain ⟨dN, hdN, hr⟩ := bind_ok_inv hr
  cases hr
  unfold finish at hq
  obtain ⟨u, hu, hq⟩ := bind_ok_inv hq
  cases hq
  obtain ⟨hE, hdat⟩ := runSolve_pexit hL
  obtain ⟨S0, Lm, hds, hreach, hpm⟩ := runSolve_reach hL
  have hIm := hreach.inv (initLoopSt_inv hds)
  obtain ⟨p, hv, hfig, hpos⟩ := hE.fig
  obtain ⟨g1, -, -, -, g5, g6, it, hit⟩ := finishInfo_frame st L
  obtain ⟨-, -, -, -, a5, -⟩ := postProcess_scalars _ _ _ _ _ _ hu
  have hu2 := postProcess_vars _ _ _ _ _ _ hu
  have hst : (finishInfo st L).info.status = .almostSolved := by rw [← a5]; exact h
  have hpp := hst
  rw [hit] at hpp
  have h0 : ({ L.S.info with iterations := it } : InfoS α).status ≠ .almostSolved :=
    pass_brk_not_almostSolved hIm hpm
  obtain ⟨-, t1, t2, t3⟩ := postProcess_almostSolved _ _ _ _ h0 hpp
  have hmem : p ∈ L.traj := by
    rcases hpos with hp | ⟨pre, last, hp, -, -⟩
    · exact List.mem_of_getLast? hp
    · rw [hp]; simp
  refine ⟨p, hmem, g1.trans hfig, ?_, ?_, ?_, ?_⟩
  · show u.2 = _
    rw [hu2, g5, hv, g6, hdat, hst]
    rfl
  · rw [← hfig.ga, ← hfig.gr]; exact t1
  · rw [← hfig.rp]; exact t2
  · rw [← hfig.rd]; exact t3

end

end Clarabel.Solver
