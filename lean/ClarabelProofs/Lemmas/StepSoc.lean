/-
  C06, second-order cones: the combined step computed from `combined_step_rhs` +
  `DefaultKKTSystem::solve` satisfies the linearised complementarity equation
  `λ ∘ (WΔz + W⁻¹Δs) = −ds` exactly, `ds = λ∘λ + (W⁻¹Δsᵃ)∘(W mΔzᵃ) − σμe` being what
  `combined_step_rhs` leaves in `rhs.s` (C13: `soc_affineDs_eq`, `soc_combinedDsShift_eq`).

  Built on C13's closed forms (`Lemmas/ConesSocScaling.lean`): `W W = mul_Hs`,
  `Δs_from_Δz_offset = W(λ\ds)`, plus `W⁻¹W = I`, linearity of `W` and of `λ∘·`, and
  `λ∘(λ\d) = d`, proved here.  Vectors are `(x₀, x₁)` with `x₁ : List ℝ` as in C13.
-/
import ClarabelProofs.Lemmas.ConesSocScaling

namespace Clarabel.Soc

/-- `α·a + β·b` on the tail of a cone vector -/
def combL (α β : ℝ) (a b : List ℝ) : List ℝ := List.zipWith (fun ai bi => α * ai + β * bi) a b

theorem combL_length (α β : ℝ) (a b : List ℝ) (h : a.length = b.length) :
    (combL α β a b).length = a.length := by simp [combL, h]

theorem dotL_combL (w a b : List ℝ) (α β : ℝ) (h : a.length = b.length) :
    dotL w (combL α β a b) = α * dotL w a + β * dotL w b := dotL_lin a b w α β h

/-- `W` is linear -/
theorem mulW_comb (α β a0 : ℝ) (a1 : List ℝ) (b0 : ℝ) (b1 : List ℝ) (w0 : ℝ) (w1 : List ℝ) (eta : ℝ)
    (y0 : ℝ) (y1 : List ℝ) (ha : a1.length = w1.length) (hb : b1.length = w1.length)
    (hy : y1.length = w1.length) :
    mulWCore y0 y1 (α * a0 + β * b0) (combL α β a1 b1) 1 0 w0 w1 eta
      = (α * (mulWCore y0 y1 a0 a1 1 0 w0 w1 eta).1 + β * (mulWCore y0 y1 b0 b1 1 0 w0 w1 eta).1,
         combL α β (mulWCore y0 y1 a0 a1 1 0 w0 w1 eta).2 (mulWCore y0 y1 b0 b1 1 0 w0 w1 eta).2) := by
  have hab : a1.length = b1.length := ha.trans hb.symm
  have hc : (combL α β a1 b1).length = w1.length := by rw [combL_length _ _ _ _ hab, ha]
  rw [mulWCore_one_zero y0 y1 _ _ w0 w1 eta hy hc, mulWCore_one_zero y0 y1 a0 a1 w0 w1 eta hy ha,
    mulWCore_one_zero y0 y1 b0 b1 w0 w1 eta hy hb, dotL_combL w1 a1 b1 α β hab]
  refine Prod.ext (by simp only; ring) ?_
  simp only [combL]
  apply List.ext_getElem
  · simp [ha, hb]
  · intro i h1 h2
    simp only [List.getElem_zipWith]
    ring

/-- `W⁻¹ W = I` for a normalised `w` and `η ≠ 0` -/
theorem mulWinv_mulW (x0 : ℝ) (x1 : List ℝ) (w0 : ℝ) (w1 : List ℝ) (eta : ℝ) (y0 y0' : ℝ)
    (y1 y1' : List ℝ) (hw : w0 ^ 2 - dotL w1 w1 = 1) (hw0 : 0 < w0) (he : eta ≠ 0)
    (hx : x1.length = w1.length) (hy : y1.length = w1.length) (hy' : y1'.length = w1.length) :
    let u := mulWCore y0 y1 x0 x1 1 0 w0 w1 eta
    mulWinvCore y0' y1' u.1 u.2 1 0 w0 w1 eta = (x0, x1) := by
  intro u
  have hu : u = _ := mulWCore_one_zero y0 y1 x0 x1 w0 w1 eta hy hx
  have hul : u.2.length = w1.length := by rw [hu]; simp [hx]
  rw [mulWinvCore_one_zero y0' y1' u.1 u.2 w0 w1 eta hy' hul]
  have h1 : (1 + w0) ≠ 0 := by linarith
  have hd : dotL w1 u.2 = eta * (x0 + dotL w1 x1 / (1 + w0)) * dotL w1 w1 + eta * dotL w1 x1 := by
    rw [hu]; exact dotL_lin w1 x1 w1 _ _ hx.symm
  have hww : dotL w1 w1 = (w0 - 1) * (w0 + 1) := by linarith [hw]
  have hu1 : u.1 = eta * (w0 * x0 + dotL w1 x1) := by rw [hu]
  refine Prod.ext ?_ ?_
  · show 1 / eta * (w0 * u.1 - dotL w1 u.2) = x0
    rw [hd, hu1, hww]; field_simp; ring
  · show List.zipWith _ w1 u.2 = x1
    apply List.ext_getElem
    · simp [hul, hx]
    · intro i h2 h3
      have hiw : i < w1.length := by simp [hul] at h2; exact h2
      have hui : u.2[i]'(by rw [hul]; exact hiw) =
          eta * (x0 + dotL w1 x1 / (1 + w0)) * w1[i] + eta * x1[i] := by
        simp [hu]
      simp only [List.getElem_zipWith, hui, hd, hu1, hww]
      field_simp
      ring

/-- the Jordan product is linear in its second argument -/
theorem circ_comb (α β l0 : ℝ) (l1 : List ℝ) (a0 : ℝ) (a1 : List ℝ) (b0 : ℝ) (b1 : List ℝ)
    (ha : a1.length = l1.length) (hb : b1.length = l1.length) :
    circOpCore l0 l1 (α * a0 + β * b0) (combL α β a1 b1)
      = (α * (circOpCore l0 l1 a0 a1).1 + β * (circOpCore l0 l1 b0 b1).1,
         combL α β (circOpCore l0 l1 a0 a1).2 (circOpCore l0 l1 b0 b1).2) := by
  have hab : a1.length = b1.length := ha.trans hb.symm
  have hc : (combL α β a1 b1).length = l1.length := by rw [combL_length _ _ _ _ hab, ha]
  rw [(circOpCore_eq l0 l1 _ _ hc.symm).1, (circOpCore_eq l0 l1 a0 a1 ha.symm).1,
    (circOpCore_eq l0 l1 b0 b1 hb.symm).1, dotL_combL l1 a1 b1 α β hab]
  refine Prod.ext (by simp only; ring) ?_
  simp only [combL]
  apply List.ext_getElem
  · simp [ha, hb]
  · intro i h1 h2
    simp only [List.getElem_zipWith]
    ring

/-- `λ ∘ (λ \ d) = d` for `λ₀ ≠ 0`, `λ₀² ≠ ‖λ₁‖²` -/
theorem circ_invCirc (l0 : ℝ) (l1 : List ℝ) (d0 : ℝ) (d1 : List ℝ) (h : d1.length = l1.length)
    (hl0 : l0 ≠ 0) (hres : l0 ^ 2 - dotL l1 l1 ≠ 0) :
    let u := invCircOpCore l0 l1 d0 d1
    circOpCore l0 l1 u.1 u.2 = (d0, d1) := by
  intro u
  have hu : u = ((l0 * d0 - dotL l1 d1) * (1 / (l0 ^ 2 - dotL l1 l1)),
      List.zipWith (fun yi zi => 1 / (l0 ^ 2 - dotL l1 l1) * (dotL l1 d1 / l0 - d0) * yi + 1 / l0 * zi)
        l1 d1) := by
    simp only [u, invCircOpCore, socResidual_eq]
  have hul : u.2.length = l1.length := by rw [hu]; simp [h]
  have hdu : dotL l1 u.2 = 1 / (l0 ^ 2 - dotL l1 l1) * (dotL l1 d1 / l0 - d0) * dotL l1 l1
      + 1 / l0 * dotL l1 d1 := by
    rw [hu]; exact dotL_lin l1 d1 l1 _ _ h.symm
  have hu1 : u.1 = (l0 * d0 - dotL l1 d1) * (1 / (l0 ^ 2 - dotL l1 l1)) := by rw [hu]
  rw [(circOpCore_eq l0 l1 u.1 u.2 hul.symm).1]
  refine Prod.ext ?_ ?_
  · show l0 * u.1 + dotL l1 u.2 = d0
    rw [hdu, hu1]; field_simp; ring
  · show List.zipWith _ l1 u.2 = d1
    apply List.ext_getElem
    · simp [hul, h]
    · intro i h2 h3
      have hil : i < l1.length := by simp [hul] at h2; exact h2
      have hui : u.2[i]'(by rw [hul]; exact hil)
          = 1 / (l0 ^ 2 - dotL l1 l1) * (dotL l1 d1 / l0 - d0) * l1[i] + 1 / l0 * d1[i] := by
        simp [hu]
      simp only [List.getElem_zipWith, hui, hu1]
      field_simp
      ring

/-- **SOC combined step: linearised complementarity.**  `w` normalised, `η ≠ 0`, `λ` with
`λ₀ ≠ 0`, `res(λ) ≠ 0`, `z = W⁻¹λ` (C13 `soc_NT_identities`).  For the right-hand side `d`
(`rhs.s`), any `Δz`, and `Δs = −1·Δs_const + (−1)·mul_Hs(Δz)` with
`Δs_const = Δs_from_Δz_offset(d, z)` — the lines of `DefaultKKTSystem::solve` —

  `λ ∘ (WΔz + W⁻¹Δs) = −d`. -/
theorem combined_step_complementarity (w0 : ℝ) (w1 : List ℝ) (eta l0 : ℝ) (l1 : List ℝ) (d0 : ℝ)
    (d1 : List ℝ) (dz0 : ℝ) (dz1 : List ℝ) (y0 : ℝ) (y1 : List ℝ)
    (hw : w0 ^ 2 - dotL w1 w1 = 1) (hw0 : 0 < w0) (he : eta ≠ 0) (hl0 : l0 ≠ 0)
    (hres : l0 ^ 2 - dotL l1 l1 ≠ 0) (hl : l1.length = w1.length) (hd : d1.length = w1.length)
    (hdz : dz1.length = w1.length) (hy : y1.length = w1.length) :
    let z := mulWinvCore y0 y1 l0 l1 1 0 w0 w1 eta
    let c := dsFromDzOffsetCore d0 d1 z.1 z.2 l0 l1 w0 w1 eta
    let h := mulHsCore dz0 dz1 w0 w1 eta
    let ds0 := (-1) * c.1 + (-1) * h.1
    let ds1 := combL (-1) (-1) c.2 h.2
    let p := mulWCore y0 y1 dz0 dz1 1 0 w0 w1 eta
    let r := mulWinvCore y0 y1 ds0 ds1 1 0 w0 w1 eta
    circOpCore l0 l1 (p.1 + r.1) (List.zipWith (· + ·) p.2 r.2) = (-d0, d1.map (fun v => -v)) := by
  intro z c h ds0 ds1 p r
  -- `u = λ \ d`
  set u := invCircOpCore l0 l1 d0 d1 with hu
  have hul : u.2.length = w1.length := by simp [hu, invCircOpCore, hl, hd]
  have hpl : p.2.length = w1.length := by
    have := mulWCore_one_zero y0 y1 dz0 dz1 w0 w1 eta hy hdz
    simp only [p, this]; simp [hdz]
  -- `c = W u`, `h = W p`
  have hc : c = mulWCore y0 y1 u.1 u.2 1 0 w0 w1 eta :=
    dsFromDzOffset_eq d0 d1 l0 l1 w0 w1 eta y0 y0 y1 y1 hw hw0 he hl0 hres hl hd hy hy
  have hh : mulWCore y0 y1 p.1 p.2 1 0 w0 w1 eta = h :=
    mulW_mulW_eq_mulHs dz0 dz1 w0 w1 eta y0 y0 y1 y1 hw hw0 hdz hy hy
  -- `Δs = W(−u − p)`
  have hds : (ds0, ds1) = mulWCore y0 y1 ((-1) * u.1 + (-1) * p.1) (combL (-1) (-1) u.2 p.2) 1 0 w0 w1 eta := by
    rw [mulW_comb (-1) (-1) u.1 u.2 p.1 p.2 w0 w1 eta y0 y1 hul hpl hy, ← hc, hh]
  have hv : (combL (-1) (-1) u.2 p.2).length = w1.length := by
    rw [combL_length _ _ _ _ (hul.trans hpl.symm), hul]
  have hr : r = ((-1) * u.1 + (-1) * p.1, combL (-1) (-1) u.2 p.2) := by
    have := mulWinv_mulW ((-1) * u.1 + (-1) * p.1) (combL (-1) (-1) u.2 p.2) w0 w1 eta y0 y0 y1 y1 hw
      hw0 he hv hy hy
    simp only at this
    rw [← hds] at this
    exact this
  -- `p + r = −u`
  have hsum0 : p.1 + r.1 = (-1) * u.1 + 0 * u.1 := by rw [hr]; ring
  have hsum1 : List.zipWith (· + ·) p.2 r.2 = combL (-1) 0 u.2 u.2 := by
    rw [hr]
    simp only [combL]
    apply List.ext_getElem
    · simp [hul, hpl]
    · intro i h1 h2
      simp only [List.getElem_zipWith]
      ring
  rw [hsum0, hsum1, circ_comb (-1) 0 l0 l1 u.1 u.2 u.1 u.2 (hul.trans hl.symm) (hul.trans hl.symm)]
  have hcu := circ_invCirc l0 l1 d0 d1 (hd.trans hl.symm) hl0 hres
  simp only at hcu
  rw [← hu] at hcu
  rw [hcu]
  refine Prod.ext (by simp only; ring) ?_
  simp only [combL]
  apply List.ext_getElem
  · simp
  · intro i h1 h2
    simp only [List.getElem_zipWith, List.getElem_map]
    ring

/-- `dotL` is additive in its second argument (lists of equal length) -/
theorem dotL_zipWith_add (m a b : List ℝ) (h : a.length = b.length) :
    dotL m (List.zipWith (· + ·) a b) = dotL m a + dotL m b := by
  have e : List.zipWith (· + ·) a b = List.zipWith (fun ai bi => 1 * ai + 1 * bi) a b := by
    apply List.ext_getElem
    · simp
    · intro i h1 h2; simp
  rw [e, dotL_lin a b m 1 1 h]; ring

/-- `W` is self-adjoint: `⟨Wa, b⟩ = ⟨a, Wb⟩` -/
theorem mulW_adjoint (a0 : ℝ) (a1 : List ℝ) (b0 : ℝ) (b1 : List ℝ) (w0 : ℝ) (w1 : List ℝ) (eta : ℝ)
    (y0 : ℝ) (y1 : List ℝ) (ha : a1.length = w1.length) (hb : b1.length = w1.length)
    (hy : y1.length = w1.length) :
    (mulWCore y0 y1 a0 a1 1 0 w0 w1 eta).1 * b0 + dotL (mulWCore y0 y1 a0 a1 1 0 w0 w1 eta).2 b1
      = a0 * (mulWCore y0 y1 b0 b1 1 0 w0 w1 eta).1 + dotL a1 (mulWCore y0 y1 b0 b1 1 0 w0 w1 eta).2 := by
  rw [mulWCore_one_zero y0 y1 a0 a1 w0 w1 eta hy ha, mulWCore_one_zero y0 y1 b0 b1 w0 w1 eta hy hb]
  simp only
  rw [dotL_lin_left w1 a1 b1 _ _ ha.symm, dotL_lin w1 b1 a1 _ _ hb.symm, dotL_comm a1 w1]
  ring

/-- `W⁻¹` is self-adjoint -/
theorem mulWinv_adjoint (a0 : ℝ) (a1 : List ℝ) (b0 : ℝ) (b1 : List ℝ) (w0 : ℝ) (w1 : List ℝ) (eta : ℝ)
    (y0 : ℝ) (y1 : List ℝ) (ha : a1.length = w1.length) (hb : b1.length = w1.length)
    (hy : y1.length = w1.length) :
    (mulWinvCore y0 y1 a0 a1 1 0 w0 w1 eta).1 * b0 + dotL (mulWinvCore y0 y1 a0 a1 1 0 w0 w1 eta).2 b1
      = a0 * (mulWinvCore y0 y1 b0 b1 1 0 w0 w1 eta).1
        + dotL a1 (mulWinvCore y0 y1 b0 b1 1 0 w0 w1 eta).2 := by
  rw [mulWinvCore_one_zero y0 y1 a0 a1 w0 w1 eta hy ha, mulWinvCore_one_zero y0 y1 b0 b1 w0 w1 eta hy hb]
  simp only
  rw [dotL_lin_left w1 a1 b1 _ _ ha.symm, dotL_lin w1 b1 a1 _ _ hb.symm, dotL_comm a1 w1]
  ring

/-- **SOC combined step, aggregated complementarity** (`⟨e, ·⟩` of
`combined_step_complementarity`; `W`, `W⁻¹` self-adjoint, `s = Wλ`, `z = W⁻¹λ`):
`⟨s, Δz⟩ + ⟨z, Δs⟩ = −d₀` — with `d = λ∘λ + (W⁻¹Δsᵃ)∘(W mΔzᵃ) − σμe` this is
`s·Δz + z·Δs = −(s·z + m Δsᵃ·Δzᵃ − σμ)`, the hypothesis of `C06.mu_update_sum` for a cone
of degree 1. -/
theorem combined_step_aggregated (w0 : ℝ) (w1 : List ℝ) (eta l0 : ℝ) (l1 : List ℝ) (d0 : ℝ)
    (d1 : List ℝ) (dz0 : ℝ) (dz1 : List ℝ) (y0 : ℝ) (y1 : List ℝ)
    (hw : w0 ^ 2 - dotL w1 w1 = 1) (hw0 : 0 < w0) (he : eta ≠ 0) (hl0 : l0 ≠ 0)
    (hres : l0 ^ 2 - dotL l1 l1 ≠ 0) (hl : l1.length = w1.length) (hd : d1.length = w1.length)
    (hdz : dz1.length = w1.length) (hy : y1.length = w1.length) :
    let s := mulWCore y0 y1 l0 l1 1 0 w0 w1 eta
    let z := mulWinvCore y0 y1 l0 l1 1 0 w0 w1 eta
    let c := dsFromDzOffsetCore d0 d1 z.1 z.2 l0 l1 w0 w1 eta
    let h := mulHsCore dz0 dz1 w0 w1 eta
    let ds0 := (-1) * c.1 + (-1) * h.1
    let ds1 := combL (-1) (-1) c.2 h.2
    (s.1 * dz0 + dotL s.2 dz1) + (z.1 * ds0 + dotL z.2 ds1) = -d0 := by
  intro s z c h ds0 ds1
  have key := combined_step_complementarity w0 w1 eta l0 l1 d0 d1 dz0 dz1 y0 y1 hw hw0 he hl0 hres hl hd
    hdz hy
  simp only at key
  set p := mulWCore y0 y1 dz0 dz1 1 0 w0 w1 eta with hp
  set r := mulWinvCore y0 y1 ds0 ds1 1 0 w0 w1 eta with hr
  have hcl : c.2.length = w1.length := by
    simp [c, dsFromDzOffsetCore, hd, mulWinvCore, z, hl, hy]
  have hhl : h.2.length = w1.length := by simp [h, mulHsCore, hdz]
  have hds1 : ds1.length = w1.length := by
    simp only [ds1]; rw [combL_length _ _ _ _ (hcl.trans hhl.symm), hcl]
  have hpl : p.2.length = w1.length := by
    have := mulWCore_one_zero y0 y1 dz0 dz1 w0 w1 eta hy hdz
    simp only [hp, this]; simp [hdz]
  have hrl : r.2.length = w1.length := by
    have := mulWinvCore_one_zero y0 y1 ds0 ds1 w0 w1 eta hy hds1
    simp only [hr, this]; simp [hds1]
  have h1 := mulW_adjoint l0 l1 dz0 dz1 w0 w1 eta y0 y1 hl hdz hy
  have h2 := mulWinv_adjoint l0 l1 ds0 ds1 w0 w1 eta y0 y1 hl hds1 hy
  have hz : List.zipWith (· + ·) p.2 r.2 = List.zipWith (· + ·) p.2 r.2 := rfl
  have k1 := congrArg Prod.fst key
  rw [(circOpCore_eq l0 l1 _ _ (by simp [hpl, hrl, hl])).1] at k1
  simp only at k1
  rw [dotL_zipWith_add l1 p.2 r.2 (hpl.trans hrl.symm)] at k1
  show (s.1 * dz0 + dotL s.2 dz1) + (z.1 * ds0 + dotL z.2 ds1) = -d0
  rw [h1, h2]
  linear_combination k1

/-- `combined_step_complementarity` with the right-hand side `combined_step_rhs` builds:
`rhs.s = 1·shift + 1·affine_ds`, `affine_ds = λ∘λ`, `shift = (W⁻¹Δsᵃ)∘(WΔzᵃ) − σμe`
(`Δzᵃ` already scaled by the Mehrotra damping `m`).  Then

  `λ ∘ (WΔz + W⁻¹Δs) = σμe − λ∘λ − (W⁻¹Δsᵃ)∘(WΔzᵃ)`. -/
theorem combined_step_equation (w0 : ℝ) (w1 : List ℝ) (eta l0 : ℝ) (l1 : List ℝ)
    (dsa0 : ℝ) (dsa1 : List ℝ) (dza0 : ℝ) (dza1 : List ℝ) (σμ : ℝ) (dz0 : ℝ) (dz1 : List ℝ)
    (y0 : ℝ) (y1 : List ℝ)
    (hw : w0 ^ 2 - dotL w1 w1 = 1) (hw0 : 0 < w0) (he : eta ≠ 0) (hl0 : l0 ≠ 0)
    (hres : l0 ^ 2 - dotL l1 l1 ≠ 0) (hl : l1.length = w1.length) (hsa : dsa1.length = w1.length)
    (hza : dza1.length = w1.length) (hdz : dz1.length = w1.length) (hy : y1.length = w1.length) :
    let ll := circOpCore l0 l1 l0 l1
    let wz := mulWCore y0 y1 dza0 dza1 1 0 w0 w1 eta
    let ws := mulWinvCore y0 y1 dsa0 dsa1 1 0 w0 w1 eta
    let sh := circOpCore ws.1 ws.2 wz.1 wz.2
    let d0 := 1 * (sh.1 + -σμ) + 1 * ll.1
    let d1 := combL 1 1 sh.2 ll.2
    let z := mulWinvCore y0 y1 l0 l1 1 0 w0 w1 eta
    let c := dsFromDzOffsetCore d0 d1 z.1 z.2 l0 l1 w0 w1 eta
    let h := mulHsCore dz0 dz1 w0 w1 eta
    let ds0 := (-1) * c.1 + (-1) * h.1
    let ds1 := combL (-1) (-1) c.2 h.2
    let p := mulWCore y0 y1 dz0 dz1 1 0 w0 w1 eta
    let r := mulWinvCore y0 y1 ds0 ds1 1 0 w0 w1 eta
    circOpCore l0 l1 (p.1 + r.1) (List.zipWith (· + ·) p.2 r.2)
      = (σμ - ll.1 - sh.1, List.zipWith (fun a b => -a - b) ll.2 sh.2) := by
  intro ll wz ws sh d0 d1 z c h ds0 ds1 p r
  have hwz : wz.2.length = w1.length := by
    have := mulWCore_one_zero y0 y1 dza0 dza1 w0 w1 eta hy hza
    simp only [wz, this]; simp [hza]
  have hws : ws.2.length = w1.length := by
    have := mulWinvCore_one_zero y0 y1 dsa0 dsa1 w0 w1 eta hy hsa
    simp only [ws, this]; simp [hsa]
  have hsh : sh.2.length = w1.length := by
    simp only [sh, (circOpCore_eq ws.1 ws.2 wz.1 wz.2 (hws.trans hwz.symm)).1]; simp [hws, hwz]
  have hll : ll.2.length = w1.length := by
    simp only [ll, (circOpCore_eq l0 l1 l0 l1 rfl).1]; simp [hl]
  have hd1 : d1.length = w1.length := by
    simp only [d1]; rw [combL_length _ _ _ _ (hsh.trans hll.symm), hsh]
  have key := combined_step_complementarity w0 w1 eta l0 l1 d0 d1 dz0 dz1 y0 y1 hw hw0 he hl0 hres hl
    hd1 hdz hy
  simp only at key
  rw [key]
  refine Prod.ext (by simp only [d0]; ring) ?_
  simp only [d1, combL]
  apply List.ext_getElem
  · simp [hsh, hll]
  · intro i h1 h2
    simp only [List.getElem_zipWith, List.getElem_map]
    ring

end Clarabel.Soc
