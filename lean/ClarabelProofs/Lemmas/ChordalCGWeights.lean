/-
  Edge weights of the clique-graph merge strategy (`edge_metric`, `union_dim`, `intersect_dim`,
  `compute_weights` of `src/solver/chordal/merge/clique_graph.rs`).

  The strategy stores the graph of mergeable clique pairs in a sparse integer matrix whose VALUES
  are the merge weights `|C₁|³ + |C₂|³ − |C₁ ∪ C₂|³`, and `set_entry` does not insert a zero while
  `dropzeros` erases every stored zero: an edge whose weight were `0` would silently vanish from
  the graph (while staying in the adjacency table).  That this never happens for non-empty cliques
  is FERMAT'S LAST THEOREM FOR EXPONENT 3 (`fermatLastTheoremThree`, Mathlib).
-/
import ClarabelProofs.Lemmas.ChordalCGDefs
import Mathlib.NumberTheory.FLT.Three

namespace Clarabel.Chordal
open Clarabel

/-- [S] `intersect_dim` counts inside the smaller of the two sets -/
theorem intersectDim_le (s1 s2 : VSet) : intersectDim s1 s2 ≤ min s1.size s2.size := by
  have key : ∀ (sa sb : VSet), (sa.foldl (fun dim e => if sb.contains e then dim + 1 else dim) 0)
      ≤ sa.size := by
    intro sa sb
    rw [← Array.foldl_toList]
    have : ∀ (l : List Nat) (d : Nat),
        l.foldl (fun dim e => if sb.contains e then dim + 1 else dim) d ≤ d + l.length := by
      intro l
      induction l with
      | nil => intro d; simp
      | cons a l ih =>
        intro d
        simp only [List.foldl_cons, List.length_cons]
        split
        · have := ih (d + 1); omega
        · have := ih d; omega
    have := this sa.toList 0
    simpa using this
  unfold intersectDim
  by_cases h : s1.size < s2.size
  · simp only [h, if_true]
    have := key s1 s2
    omega
  · simp only [h, if_false]
    have := key s2 s1
    omega

/-- [S] `union_dim` does not underflow and is at least the size of either set -/
theorem unionDim_ok (s1 s2 : VSet) :
    ∃ nm, unionDim s1 s2 = .ok nm ∧ s1.size ≤ nm ∧ s2.size ≤ nm ∧ nm ≤ s1.size + s2.size := by
  have h := intersectDim_le s1 s2
  refine ⟨s1.size + s2.size - intersectDim s1 s2, ?_, by omega, by omega, by omega⟩
  unfold unionDim
  simp only []
  rw [if_neg (by omega)]
  rfl

/-- [S] Fermat's last theorem for exponent 3, over `ℤ` with positive naturals -/
theorem cube_sum_ne_cube {a b c : Nat} (ha : 0 < a) (hb : 0 < b) (hc : 0 < c) :
    (Int.ofNat a) ^ 3 + (Int.ofNat b) ^ 3 - (Int.ofNat c) ^ 3 ≠ 0 := by
  intro h
  have h3 := fermatLastTheoremThree a b c (by omega) (by omega) (by omega)
  apply h3
  have : ((a ^ 3 + b ^ 3 : Nat) : Int) = ((c ^ 3 : Nat) : Int) := by
    push_cast
    simp only [Int.ofNat_eq_natCast] at h
    omega
  exact_mod_cast this

/-- [S] `edge_metric` (cubic) does not panic, and THE WEIGHT OF TWO NON-EMPTY CLIQUES IS NEVER `0` -/
theorem edgeMetric_ok (ca cb : VSet) :
    ∃ w, edgeMetric ca cb = .ok w ∧ (ca ≠ #[] → cb ≠ #[] → w ≠ 0) := by
  obtain ⟨nm, h1, h2, h3, _⟩ := unionDim_ok ca cb
  refine ⟨(Int.ofNat ca.size) ^ 3 + (Int.ofNat cb.size) ^ 3 - (Int.ofNat nm) ^ 3, ?_, ?_⟩
  · unfold edgeMetric
    simp only [h1, bind, Except.bind, pure, Except.pure]
  · intro ha hb
    have ha' : 0 < ca.size := Array.size_pos_iff.2 ha
    have hb' : 0 < cb.size := Array.size_pos_iff.2 hb
    exact cube_sum_ne_cube ha' hb' (by omega)

/-- the value `edge_metric` returns (`0` on the — impossible — underflow) -/
def edgeMetricVal (ca cb : VSet) : Int :=
  match edgeMetric ca cb with
  | .ok w => w
  | .error _ => 0

/-- [S] `edge_metric` returns `edgeMetricVal` -/
theorem edgeMetric_eq (ca cb : VSet) : edgeMetric ca cb = .ok (edgeMetricVal ca cb) := by
  obtain ⟨w, h, _⟩ := edgeMetric_ok ca cb
  unfold edgeMetricVal
  rw [h]

/-- [S] the weight of two non-empty cliques is not `0` -/
theorem edgeMetricVal_ne_zero {ca cb : VSet} (ha : ca ≠ #[]) (hb : cb ≠ #[]) :
    edgeMetricVal ca cb ≠ 0 := by
  obtain ⟨w, h, hw⟩ := edgeMetric_ok ca cb
  unfold edgeMetricVal
  rw [h]
  exact hw ha hb

/-- non-vacuity: the weight of the cliques `{1,2}` and `{2,3,4}` (`8 + 27 − 64 = −29`) is not `0` -/
example : ∃ w, edgeMetric #[1, 2] #[2, 3, 4] = .ok w ∧ w ≠ 0 := by
  obtain ⟨w, h, hw⟩ := edgeMetric_ok #[1, 2] #[2, 3, 4]
  exact ⟨w, h, hw (by simp) (by simp)⟩

end Clarabel.Chordal
