/-
  C08 ∩ C09: when is the presolve guard of data updating active?
  `check_data_update_allowed` refuses with `PresolveIsActive` iff `data.presolver.is_some()`,
  and (C09 `problemdata_new_spec`) a presolver is recorded iff presolve is enabled and at least
  one row of a nonnegative cone of the collapsed list has `b[i] > (1 − 10ε)·infbound`.
-/
import ClarabelProofs.Props.C09
import ClarabelModel.Update

namespace Clarabel.Update
open Clarabel Cones Presolve

theorem count_true_lt_iff_exists_false (keep : List Bool) :
    keep.count true < keep.length ↔ ∃ i : Nat, keep[i]? = some false := by
  induction keep with
  | nil => simp
  | cons k ks ih =>
    cases k with
    | true =>
      simp only [List.count_cons_self, List.length_cons, Nat.add_lt_add_iff_right, ih]
      constructor
      · rintro ⟨i, hi⟩; exact ⟨i + 1, by simpa using hi⟩
      · rintro ⟨i, hi⟩
        cases i with
        | zero => simp at hi
        | succ j => exact ⟨j, by simpa using hi⟩
    | false =>
      have : List.count true (false :: ks) = List.count true ks := by simp
      rw [this]
      constructor
      · intro _; exact ⟨0, rfl⟩
      · intro _
        have := List.count_le_length (a := true) (l := ks)
        simp only [List.length_cons]
        omega

variable {α : Type} [Add α] [Sub α] [Mul α] [Div α] [OfNat α 0] [OfNat α 1] [LT α] [DecidableLT α]
  [FloatLike α]

/-- **the presolve guard, as a condition on the user's data**: for a well-formed problem
(`problemdata_new_spec`'s hypotheses) the constructed data records a presolver — so that
every `update_*` call is refused with `PresolveIsActive` — iff presolve is enabled and some row
`i` lies in a nonnegative cone of the collapsed cone list with `b[i]` above the contracted
bound. -/
theorem presolver_recorded_iff (P : Csc α) (q : Array α) (A : Csc α) (b : Array α)
    (cones : List (ConeT α)) (presolve : Bool) (inf : α) (d : ProblemData α)
    (hA : C16.Canonical A) (hAm : A.m = b.size) (hnum : numel cones = b.size) (hPsq : P.m = P.n)
    (h : ProblemData.new P q A b cones presolve false inf = .ok d) :
    d.presolver.isSome = true ↔
      (presolve = true ∧ ∃ i, ∃ hi : i < b.size,
        inNonneg (newCollapsed cones) i = true ∧ threshold inf < b[i]) := by
  obtain ⟨keep, Pn, d0, _, hl, hiff, _, hnew, _, _, _, _, hcase⟩ :=
    C09.problemdata_new_spec P q A b cones presolve inf hA hAm hnum hPsq
  rw [hnew] at h
  cases h
  have hex : keep.count true < b.size ↔
      ∃ i, ∃ hi : i < b.size, inNonneg (newCollapsed cones) i = true ∧ threshold inf < b[i] := by
    have hcl : keep.count true < b.size ↔ ∃ i : Nat, keep[i]? = some false := by
      rw [← hl]; exact count_true_lt_iff_exists_false keep
    rw [hcl]
    constructor
    · rintro ⟨i, hi⟩
      have hlt : i < b.size := by
        rw [← hl]
        by_contra hge
        rw [List.getElem?_eq_none (by omega)] at hi
        cases hi
      exact ⟨i, hlt, (hiff i hlt).mp hi⟩
    · rintro ⟨i, hi, h2⟩
      exact ⟨i, (hiff i hi).mpr h2⟩
  split at hcase
  · rename_i hc
    obtain ⟨A', _, _, _, _, _, _, _, _, _, hp⟩ := hcase
    rw [hp]
    simp only [Option.isSome_some, true_iff]
    exact ⟨hc.1, hex.mp hc.2⟩
  · rename_i hc
    obtain ⟨_, _, _, _, hp⟩ := hcase
    rw [hp]
    simp only [Option.isSome_none, Bool.false_eq_true, false_iff]
    rintro ⟨h1, h2⟩
    exact hc ⟨h1, hex.mpr h2⟩

end Clarabel.Update
