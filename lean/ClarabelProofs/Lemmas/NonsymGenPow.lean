/-
  Generalised power cone (C14): the starting point is the central point (all dimensions).
-/
import ClarabelModel.Cones.GenPow
import ClarabelProofs.Lemmas.NonsymCalc

namespace Clarabel.GenPow
open Clarabel Nonsym

theorem sumsq_replicate_zero (n : Nat) : Vec.sumsq (List.replicate n (0 : ℝ)).toArray = 0 := by
  unfold Vec.sumsq Vec.dot
  induction n with
  | zero => simp
  | succ k ih =>
    simp only [List.replicate_succ, List.zip_cons_cons, List.foldl_cons, mul_zero, add_zero] at ih ⊢
    exact ih

theorem foldl_prod_pos (l : List (ℝ × ℝ)) (c : ℝ) (hc : 0 < c) (h : ∀ p ∈ l, 0 < p.1 ∧ 0 < p.2) :
    0 < l.foldl (fun phi p => phi * powf (p.2 / p.1) (2 * p.1)) c := by
  induction l generalizing c with
  | nil => simpa
  | cons p t ih =>
    simp only [List.foldl_cons]
    apply ih
    · exact mul_pos hc (by
        simp only [real_powf_eq]
        exact Real.rpow_pos_of_pos (div_pos (h p (by simp)).2 (h p (by simp)).1) _)
    · intro q hq; exact h q (by simp [hq])

theorem split_append (U Z : List ℝ) :
    split (U ++ Z).toArray U.length = .ok (U.toArray, Z.toArray) := by
  unfold split
  simp
  rfl

theorem zip_map_append (f : ℝ → ℝ) (l Z : List ℝ) : l.zip (l.map f ++ Z) = l.zip (l.map f) := by
  induction l with
  | nil => simp
  | cons a t ih => simp [ih]

theorem mem_zip_map (f : ℝ → ℝ) (l : List ℝ) : ∀ p ∈ l.zip (l.map f), p.1 ∈ l ∧ p.2 = f p.1 := by
  induction l with
  | nil => simp
  | cons a t ih =>
    intro p hp
    simp only [List.map_cons, List.zip_cons_cons, List.mem_cons] at hp
    rcases hp with rfl | hp
    · simp
    · have := ih p hp
      exact ⟨List.mem_cons_of_mem _ this.1, this.2⟩

theorem map_zip_map (f : ℝ → ℝ) (g : ℝ × ℝ → ℝ) (k : ℝ → ℝ) (l : List ℝ)
    (h : ∀ a ∈ l, g (a, f a) = k (f a)) : (l.zip (l.map f)).map g = (l.map f).map k := by
  induction l with
  | nil => simp
  | cons a t ih =>
    simp only [List.map_cons, List.zip_cons_cons, List.cons.injEq]
    exact ⟨h a (by simp), ih (fun b hb => h b (by simp [hb]))⟩

theorem central (al : Array ℝ) (dim2 : Nat) (hal : ∀ a ∈ al.toList, 0 < a) :
    ∃ D, updateDualGradH al (unitInitialization al dim2) = .ok D ∧
      D.grad = Vec.negate (unitInitialization al dim2) := by
  obtain ⟨l⟩ := al
  simp only at hal
  unfold unitInitialization updateDualGradH
  have hlen : (List.map (fun ai => sqrt (1 + ai)) l).length = (⟨l⟩ : Array ℝ).size := by simp
  rw [← hlen, split_append]
  simp only [bind, Except.bind, pure, Except.pure]
  rw [sumsq_replicate_zero]
  have hphi : 0 < phiDual ⟨l⟩ (List.map (fun ai => sqrt (1 + ai)) l ++ List.replicate dim2 0).toArray := by
    unfold phiDual
    simp only [zip_map_append]
    apply foldl_prod_pos _ _ one_pos
    intro p hp
    obtain ⟨h1, h2⟩ := mem_zip_map _ _ p hp
    have := hal _ h1
    refine ⟨this, ?_⟩
    rw [h2]
    simp only [real_sqrt_eq]
    exact Real.sqrt_pos.mpr (by linarith)
  generalize phiDual ⟨l⟩ (List.map (fun ai => sqrt (1 + ai)) l ++ List.replicate dim2 0).toArray = phi at *
  have hne : phi ≠ 0 := ne_of_gt hphi
  simp only [sub_zero, hphi, decide_true, Bool.not_true, Bool.false_eq_true, if_false]
  refine ⟨_, rfl, ?_⟩
  simp only [Vec.negate, List.map_toArray, List.map_append, Array.mk.injEq]
  congr 1
  · apply map_zip_map
    intro a ha
    have hpos : (0 : ℝ) < 1 + a := by linarith [hal a ha]
    simp only [real_sqrt_eq]
    have hs := Real.sqrt_pos.mpr hpos
    have hsq := Real.mul_self_sqrt hpos.le
    field_simp
    nlinarith
  · simp

/-! ### folds as sums / products -/

theorem foldl_add_sum {β : Type} (f : β → ℝ) (l : List β) (c : ℝ) :
    l.foldl (fun acc p => acc + f p) c = c + (l.map f).sum := by
  induction l generalizing c with
  | nil => simp
  | cons p t ih => simp only [List.foldl_cons, List.map_cons, List.sum_cons, ih]; ring

theorem foldl_sub_sum {β : Type} (f : β → ℝ) (l : List β) (c : ℝ) :
    l.foldl (fun acc p => acc - f p) c = c - (l.map f).sum := by
  induction l generalizing c with
  | nil => simp
  | cons p t ih => simp only [List.foldl_cons, List.map_cons, List.sum_cons, ih]; ring

theorem foldl_mul_prod {β : Type} (f : β → ℝ) (l : List β) (c : ℝ) :
    l.foldl (fun acc p => acc * f p) c = c * (l.map f).prod := by
  induction l generalizing c with
  | nil => simp
  | cons p t ih => simp only [List.foldl_cons, List.map_cons, List.prod_cons, ih]; ring

/-- `Σ wⱼ²` -/
def sumSq (w : List ℝ) : ℝ := (w.map (fun x => x * x)).sum

theorem sumsq_eq (w : List ℝ) : Vec.sumsq w.toArray = sumSq w := by
  unfold Vec.sumsq Vec.dot sumSq
  rw [foldl_add_sum (fun p : ℝ × ℝ => p.1 * p.2)]
  simp only [zero_add]
  congr 1
  induction w with
  | nil => simp
  | cons a t ih => simp [ih]

/-- `Σ 2αᵢ log(uᵢ/αᵢ)` -/
noncomputable def logPhi (al u : List ℝ) : ℝ := ((al.zip u).map (fun p => 2 * p.1 * Real.log (p.2 / p.1))).sum

/-- `Π (uᵢ/αᵢ)^{2αᵢ}` -/
noncomputable def prodPhi (al u : List ℝ) : ℝ := ((al.zip u).map (fun p => (p.2 / p.1) ^ (2 * p.1))).prod

/-- `Σ (1-αᵢ) log uᵢ` -/
noncomputable def logTail (al u : List ℝ) : ℝ := ((u.zip al).map (fun p => Real.log p.1 * (1 - p.2))).sum

/-- all exponents and all `u`-coordinates positive -/
def AllPos (l : List ℝ) : Prop := ∀ x ∈ l, 0 < x

theorem prodPhi_eq_exp (al u : List ℝ) (ha : AllPos al) (hu : AllPos u) :
    prodPhi al u = Real.exp (logPhi al u) := by
  unfold prodPhi logPhi
  induction al generalizing u with
  | nil => simp
  | cons a t ih =>
    cases u with
    | nil => simp
    | cons x r =>
      simp only [List.zip_cons_cons, List.map_cons, List.prod_cons, List.sum_cons, Real.exp_add]
      rw [ih r (fun y hy => ha y (by simp [hy])) (fun y hy => hu y (by simp [hy]))]
      have hp : 0 < x / a := div_pos (hu x (by simp)) (ha a (by simp))
      rw [Real.rpow_def_of_pos hp]
      congr 2
      ring

theorem logPhiDual_eq (al u : List ℝ) (ha : AllPos al) (hu : AllPos u) :
    logPhiDual al.toArray u.toArray = logPhi al u := by
  unfold logPhiDual logPhi
  rw [foldl_add_sum (fun p : ℝ × ℝ => 2 * p.1 * logsafe (p.2 / p.1)), zero_add]
  congr 1
  apply List.map_congr_left
  intro p hp
  have h1 := ha p.1 (List.of_mem_zip hp).1
  have h2 := hu p.2 (List.of_mem_zip hp).2
  rw [logsafe_of_pos (div_pos h2 h1)]

theorem phiDual_eq (al u w : List ℝ) (hlen : al.length = u.length) :
    phiDual al.toArray (u ++ w).toArray = prodPhi al u := by
  unfold phiDual prodPhi
  rw [foldl_mul_prod (fun p : ℝ × ℝ => powf (p.2 / p.1) (2 * p.1)), one_mul]
  simp only [real_powf_eq]
  congr 2
  have : al.zip (u ++ w) = al.zip u := by
    have := List.zip_append (l₁ := al) (r₁ := []) (l₂ := u) (r₂ := w) hlen
    simpa using this
  exact this

/-- `Σ 2αᵢ logsafe(uᵢ/αᵢ)` exactly as the model evaluates it -/
noncomputable def logPhiS (al u : List ℝ) : ℝ := ((al.zip u).map (fun p => 2 * p.1 * logsafe (p.2 / p.1))).sum

/-- `Σ logsafe(uᵢ)(1-αᵢ)` exactly as the model evaluates it -/
noncomputable def logTailS (al u : List ℝ) : ℝ := ((u.zip al).map (fun p => logsafe p.1 * (1 - p.2))).sum

/-- value of the model's `barrier_dual` at the point `(u, w)` -/
noncomputable def barrierVal (al u w : List ℝ) : ℝ :=
  -(logsafe (Real.exp (logPhiS al u) - sumSq w)) - logTailS al u

theorem barrierDual_eq (al u w : List ℝ) (hlen : al.length = u.length) :
    barrierDual al.toArray (u ++ w).toArray = .ok (barrierVal al u w) := by
  unfold barrierDual
  have hs : split (u ++ w).toArray al.toArray.size = .ok (u.toArray, w.toArray) := by
    have : al.toArray.size = u.length := by simpa using hlen
    rw [this]; exact split_append u w
  rw [hs]
  simp only [bind, Except.bind, pure, Except.pure]
  congr 1
  unfold barrierVal logPhiS logTailS logPhiDual
  rw [foldl_sub_sum (fun p : ℝ × ℝ => logsafe p.1 * (1 - p.2)),
    foldl_add_sum (fun p : ℝ × ℝ => 2 * p.1 * logsafe (p.2 / p.1)), zero_add, sumsq_eq]
  rfl

theorem logPhiS_eq (al u : List ℝ) (ha : AllPos al) (hu : AllPos u) : logPhiS al u = logPhi al u := by
  unfold logPhiS logPhi
  congr 1
  apply List.map_congr_left
  intro p hp
  rw [logsafe_of_pos (div_pos (hu p.2 (List.of_mem_zip hp).2) (ha p.1 (List.of_mem_zip hp).1))]

/-! ### zipper decompositions -/

theorem logPhiS_zipper (a1 a2 u1 u2 : List ℝ) (a t : ℝ) (h : a1.length = u1.length) :
    logPhiS (a1 ++ a :: a2) (u1 ++ t :: u2) = logPhiS a1 u1 + 2 * a * logsafe (t / a) + logPhiS a2 u2 := by
  unfold logPhiS
  rw [List.zip_append h]
  simp only [List.zip_cons_cons, List.map_append, List.map_cons, List.sum_append, List.sum_cons]
  ring

theorem logTailS_zipper (a1 a2 u1 u2 : List ℝ) (a t : ℝ) (h : a1.length = u1.length) :
    logTailS (a1 ++ a :: a2) (u1 ++ t :: u2) = logTailS a1 u1 + logsafe t * (1 - a) + logTailS a2 u2 := by
  unfold logTailS
  rw [List.zip_append h.symm]
  simp only [List.zip_cons_cons, List.map_append, List.map_cons, List.sum_append, List.sum_cons]
  ring

theorem sumSq_zipper (w1 w2 : List ℝ) (t : ℝ) : sumSq (w1 ++ t :: w2) = sumSq w1 + t * t + sumSq w2 := by
  unfold sumSq
  simp only [List.map_append, List.map_cons, List.sum_append, List.sum_cons]
  ring

/-! ### partial derivatives of the barrier -/

/-- along a `u`-coordinate -/
theorem barrier_dU (a1 a2 u1 u2 w : List ℝ) (a t : ℝ) (h : a1.length = u1.length) (ha : 0 < a) (ht : 0 < t)
    (hζ : 0 < Real.exp (logPhiS (a1 ++ a :: a2) (u1 ++ t :: u2)) - sumSq w) :
    HasDerivAt (fun x => barrierVal (a1 ++ a :: a2) (u1 ++ x :: u2) w)
      ((-(2 * a / t)) * Real.exp (logPhiS (a1 ++ a :: a2) (u1 ++ t :: u2))
          / (Real.exp (logPhiS (a1 ++ a :: a2) (u1 ++ t :: u2)) - sumSq w) - (1 - a) / t) t := by
  have e : (fun x => barrierVal (a1 ++ a :: a2) (u1 ++ x :: u2) w) = fun x =>
      -(logsafe (Real.exp (logPhiS a1 u1 + 2 * a * logsafe (x / a) + logPhiS a2 u2) - sumSq w))
        - (logTailS a1 u1 + logsafe x * (1 - a) + logTailS a2 u2) := by
    funext x
    unfold barrierVal
    rw [logPhiS_zipper _ _ _ _ _ _ h, logTailS_zipper _ _ _ _ _ _ h]
  rw [e]
  rw [logPhiS_zipper _ _ _ _ _ _ h] at hζ ⊢
  have hl : HasDerivAt (fun x : ℝ => logsafe (x / a)) (1 / t) t := by
    have h1 := ((hasDerivAt_id t).div_const a).logsafe (div_pos ht ha)
    refine h1.congr_deriv ?_
    simp only [id_eq]
    field_simp
  have hS : HasDerivAt (fun x : ℝ => logPhiS a1 u1 + 2 * a * logsafe (x / a) + logPhiS a2 u2) (2 * a / t) t := by
    have := ((hl.const_mul (2 * a)).const_add (logPhiS a1 u1)).add_const (logPhiS a2 u2)
    refine this.congr_deriv ?_
    ring
  have hE := (hS.exp).sub_const (sumSq w)
  have hT : HasDerivAt (fun x : ℝ => logTailS a1 u1 + logsafe x * (1 - a) + logTailS a2 u2) ((1 - a) / t) t := by
    have := ((((hasDerivAt_id t).logsafe ht).mul_const (1 - a)).const_add (logTailS a1 u1)).add_const (logTailS a2 u2)
    refine this.congr_deriv ?_
    simp only [id_eq]; ring
  have hd := ((hE.logsafe hζ).neg).sub hT
  refine hd.congr_deriv ?_
  have : Real.exp (logPhiS a1 u1 + 2 * a * logsafe (t / a) + logPhiS a2 u2) - sumSq w ≠ 0 := ne_of_gt hζ
  have : t ≠ 0 := ne_of_gt ht
  field_simp

/-- along a `w`-coordinate -/
theorem barrier_dW (al u w1 w2 : List ℝ) (t : ℝ)
    (hζ : 0 < Real.exp (logPhiS al u) - sumSq (w1 ++ t :: w2)) :
    HasDerivAt (fun x => barrierVal al u (w1 ++ x :: w2))
      (2 / (Real.exp (logPhiS al u) - sumSq (w1 ++ t :: w2)) * t) t := by
  have e : (fun x => barrierVal al u (w1 ++ x :: w2)) = fun x =>
      -(logsafe (Real.exp (logPhiS al u) - (sumSq w1 + x * x + sumSq w2))) - logTailS al u := by
    funext x
    unfold barrierVal
    rw [sumSq_zipper]
  rw [e]
  rw [sumSq_zipper] at hζ ⊢
  have hW : HasDerivAt (fun x : ℝ => Real.exp (logPhiS al u) - (sumSq w1 + x * x + sumSq w2)) (-(2 * t)) t := by
    have := (((((hasDerivAt_id t).mul (hasDerivAt_id t)).const_add (sumSq w1)).add_const (sumSq w2))).const_sub
      (Real.exp (logPhiS al u))
    refine this.congr_deriv ?_
    simp only [id_eq]; ring
  have hd := ((hW.logsafe hζ).neg).sub_const (logTailS al u)
  refine hd.congr_deriv ?_
  have : Real.exp (logPhiS al u) - (sumSq w1 + t * t + sumSq w2) ≠ 0 := ne_of_gt hζ
  field_simp

/-- stored gradient entry of a `u`-coordinate -/
noncomputable def gradU (φ ζ a t : ℝ) : ℝ := (-(2 * a / t)) * φ / ζ - (1 - a) / t
/-- stored gradient entry of a `w`-coordinate -/
noncomputable def gradW (ζ t : ℝ) : ℝ := (2 / ζ) * t

theorem split_ok (al u w : List ℝ) (hlen : al.length = u.length) :
    split (u ++ w).toArray al.toArray.size = .ok (u.toArray, w.toArray) := by
  have : al.toArray.size = u.length := by simpa using hlen
  rw [this]; exact split_append u w

theorem updateDualGradH_grad (al u w : List ℝ) (hlen : al.length = u.length)
    (hζ : 0 < prodPhi al u - sumSq w) :
    ∃ D, updateDualGradH al.toArray (u ++ w).toArray = .ok D ∧
      D.grad.toList = (al.zip u).map (fun p => gradU (prodPhi al u) (prodPhi al u - sumSq w) p.1 p.2)
        ++ w.map (gradW (prodPhi al u - sumSq w)) := by
  unfold updateDualGradH
  rw [split_ok al u w hlen]
  simp only [bind, Except.bind, pure, Except.pure]
  rw [phiDual_eq al u w hlen, sumsq_eq]
  simp only [hζ, decide_true, Bool.not_true, Bool.false_eq_true, if_false]
  exact ⟨_, rfl, rfl⟩

theorem all_pos_iff (u : List ℝ) : (u.toArray.toList.all (fun x => decide (0 < x))) = true ↔ AllPos u := by
  simp [AllPos]

theorem isDualFeasible_iff (al u w : List ℝ) (hlen : al.length = u.length) (ha : AllPos al) :
    isDualFeasible al.toArray (u ++ w).toArray = .ok true ↔ AllPos u ∧ sumSq w < prodPhi al u := by
  unfold isDualFeasible
  rw [split_ok al u w hlen]
  simp only [bind, Except.bind, pure, Except.pure]
  by_cases hu : AllPos u
  · rw [if_pos ((all_pos_iff u).mpr hu), logPhiDual_eq al u ha hu, real_exp_eq, ← prodPhi_eq_exp al u ha hu, sumsq_eq]
    simp only [hu, true_and, sub_pos]
    by_cases h : sumSq w < prodPhi al u <;> simp [h]
  · rw [if_neg (fun h => hu ((all_pos_iff u).mp h))]
    simp [hu]

/-- `Π uᵢ^{2αᵢ}` -/
noncomputable def prodPhiP (al u : List ℝ) : ℝ := ((al.zip u).map (fun p => p.2 ^ (2 * p.1))).prod

theorem prodPhiP_eq_exp (al u : List ℝ) (hu : AllPos u) :
    prodPhiP al u = Real.exp ((al.zip u).map (fun p => 2 * p.1 * Real.log p.2)).sum := by
  unfold prodPhiP
  induction al generalizing u with
  | nil => simp
  | cons a t ih =>
    cases u with
    | nil => simp
    | cons x r =>
      simp only [List.zip_cons_cons, List.map_cons, List.prod_cons, List.sum_cons, Real.exp_add]
      rw [ih r (fun y hy => hu y (by simp [hy]))]
      rw [Real.rpow_def_of_pos (hu x (by simp))]
      congr 2
      ring

theorem isPrimalFeasible_iff (al u w : List ℝ) (hlen : al.length = u.length) :
    isPrimalFeasible al.toArray (u ++ w).toArray = .ok true ↔ AllPos u ∧ sumSq w < prodPhiP al u := by
  unfold isPrimalFeasible
  rw [split_ok al u w hlen]
  simp only [bind, Except.bind, pure, Except.pure]
  by_cases hu : AllPos u
  · have e : logPhiPrimal al.toArray u.toArray = ((al.zip u).map (fun p => 2 * p.1 * Real.log p.2)).sum := by
      unfold logPhiPrimal
      rw [foldl_add_sum (fun p : ℝ × ℝ => 2 * p.1 * logsafe p.2), zero_add]
      congr 1
      apply List.map_congr_left
      intro p hp
      rw [logsafe_of_pos (hu p.2 (List.of_mem_zip hp).2)]
    rw [if_pos ((all_pos_iff u).mpr hu), e, real_exp_eq, ← prodPhiP_eq_exp al u hu, sumsq_eq]
    simp only [hu, true_and, sub_pos]
    by_cases h : sumSq w < prodPhiP al u <;> simp [h]
  · rw [if_neg (fun h => hu ((all_pos_iff u).mp h))]
    simp [hu]

/-! ### log-homogeneity -/

theorem sum_gradU (φ ζ : ℝ) (al u : List ℝ) (hlen : al.length = u.length) (hu : AllPos u) :
    ((al.zip u).map (fun p => gradU φ ζ p.1 p.2 * p.2)).sum = -(2 * φ / ζ) * al.sum - al.length + al.sum := by
  induction al generalizing u with
  | nil => simp
  | cons a t ih =>
    cases u with
    | nil => simp at hlen
    | cons x r =>
      simp only [List.zip_cons_cons, List.map_cons, List.sum_cons, List.length_cons]
      rw [ih r (by simpa using hlen) (fun y hy => hu y (by simp [hy]))]
      have hx : x ≠ 0 := ne_of_gt (hu x (by simp))
      unfold gradU
      push_cast
      field_simp
      ring

theorem sum_gradW (ζ : ℝ) (w : List ℝ) : (w.map (fun t => gradW ζ t * t)).sum = (2 / ζ) * sumSq w := by
  unfold sumSq gradW
  induction w with
  | nil => simp
  | cons a t ih => simp only [List.map_cons, List.sum_cons, ih]; ring

theorem dot_eq_sum (x y : List ℝ) : Vec.dot x.toArray y.toArray = ((x.zip y).map (fun p => p.1 * p.2)).sum := by
  unfold Vec.dot
  rw [foldl_add_sum (fun p : ℝ × ℝ => p.1 * p.2), zero_add]

theorem sum_zip_map_self (g : ℝ → ℝ) (w : List ℝ) :
    (((w.map g).zip w).map (fun p : ℝ × ℝ => p.1 * p.2)).sum = (w.map (fun t => g t * t)).sum := by
  induction w with
  | nil => simp
  | cons a t ih => simp only [List.map_cons, List.zip_cons_cons, List.sum_cons, ih]

theorem sum_zip_map_zip (G : ℝ × ℝ → ℝ) (al u : List ℝ) (hlen : al.length = u.length) :
    ((((al.zip u).map G).zip u).map (fun p : ℝ × ℝ => p.1 * p.2)).sum
      = ((al.zip u).map (fun p => G p * p.2)).sum := by
  induction al generalizing u with
  | nil => simp
  | cons a t ih =>
    cases u with
    | nil => simp
    | cons x r =>
      simp only [List.zip_cons_cons, List.map_cons, List.sum_cons]
      rw [ih r (by simpa using hlen)]

/-- `⟨grad, z⟩ = -(dim1 + 1)` for the stored gradient at an interior point, exponents summing to 1 -/
theorem log_homogeneity (al u w : List ℝ) (hlen : al.length = u.length) (hu : AllPos u)
    (hsum : al.sum = 1) (hζ : 0 < prodPhi al u - sumSq w) :
    Vec.dot ((al.zip u).map (fun p => gradU (prodPhi al u) (prodPhi al u - sumSq w) p.1 p.2)
        ++ w.map (gradW (prodPhi al u - sumSq w))).toArray (u ++ w).toArray = -((al.length : ℝ) + 1) := by
  rw [dot_eq_sum]
  have hl : ((al.zip u).map (fun p => gradU (prodPhi al u) (prodPhi al u - sumSq w) p.1 p.2)).length = u.length := by
    simp [hlen]
  rw [List.zip_append hl]
  simp only [List.map_append, List.sum_append]
  rw [sum_zip_map_zip (fun p => gradU (prodPhi al u) (prodPhi al u - sumSq w) p.1 p.2) al u hlen,
    sum_zip_map_self, sum_gradU _ _ al u hlen hu, sum_gradW, hsum]
  have : prodPhi al u - sumSq w ≠ 0 := ne_of_gt hζ
  field_simp
  ring

end Clarabel.GenPow
