/-
  Generalised power cone (C14): the starting point is the central point (all dimensions).
-/
import ClarabelModel.Cones.GenPow
import ClarabelProofs.Lemmas.NonsymCalc

namespace Clarabel.GenPow
open Clarabel Nonsym

theorem sumsq_replicate_zero (n : Nat) : Vec.sumsq (List.replicate n (0 : ℝ)).toArray = 0 := by
  unfold Vec.sumsq Vec.dot
  induction n with
  | zero => simp
  | succ k ih =>
    simp only [List.replicate_succ, List.zip_cons_cons, List.foldl_cons, mul_zero, add_zero] at ih ⊢
    exact ih

theorem foldl_prod_pos (l : List (ℝ × ℝ)) (c : ℝ) (hc : 0 < c) (h : ∀ p ∈ l, 0 < p.1 ∧ 0 < p.2) :
    0 < l.foldl (fun phi p => phi * powf (p.2 / p.1) (2 * p.1)) c := by
  induction l generalizing c with
  | nil => simpa
  | cons p t ih =>
    simp only [List.foldl_cons]
    apply ih
    · exact mul_pos hc (by
        simp only [real_powf_eq]
        exact Real.rpow_pos_of_pos (div_pos (h p (by simp)).2 (h p (by simp)).1) _)
    · intro q hq; exact h q (by simp [hq])

theorem split_append (U Z : List ℝ) :
    split (U ++ Z).toArray U.length = .ok (U.toArray, Z.toArray) := by
  unfold split
  simp
  rfl

theorem zip_map_append (f : ℝ → ℝ) (l Z : List ℝ) : l.zip (l.map f ++ Z) = l.zip (l.map f) := by
  induction l with
  | nil => simp
  | cons a t ih => simp [ih]

theorem mem_zip_map (f : ℝ → ℝ) (l : List ℝ) : ∀ p ∈ l.zip (l.map f), p.1 ∈ l ∧ p.2 = f p.1 := by
  induction l with
  | nil => simp
  | cons a t ih =>
    intro p hp
    simp only [List.map_cons, List.zip_cons_cons, List.mem_cons] at hp
    rcases hp with rfl | hp
    · simp
    · have := ih p hp
      exact ⟨List.mem_cons_of_mem _ this.1, this.2⟩

theorem map_zip_map (f : ℝ → ℝ) (g : ℝ × ℝ → ℝ) (k : ℝ → ℝ) (l : List ℝ)
    (h : ∀ a ∈ l, g (a, f a) = k (f a)) : (l.zip (l.map f)).map g = (l.map f).map k := by
  induction l with
  | nil => simp
  | cons a t ih =>
    simp only [List.map_cons, List.zip_cons_cons, List.cons.injEq]
    exact ⟨h a (by simp), ih (fun b hb => h b (by simp [hb]))⟩

theorem central (al : Array ℝ) (dim2 : Nat) (hal : ∀ a ∈ al.toList, 0 < a) :
    ∃ D, updateDualGradH al (unitInitialization al dim2) = .ok D ∧
      D.grad = Vec.negate (unitInitialization al dim2) := by
  obtain ⟨l⟩ := al
  simp only at hal
  unfold unitInitialization updateDualGradH
  have hlen : (List.map (fun ai => sqrt (1 + ai)) l).length = (⟨l⟩ : Array ℝ).size := by simp
  rw [← hlen, split_append]
  simp only [bind, Except.bind, pure, Except.pure]
  rw [sumsq_replicate_zero]
  have hphi : 0 < phiDual ⟨l⟩ (List.map (fun ai => sqrt (1 + ai)) l ++ List.replicate dim2 0).toArray := by
    unfold phiDual
    simp only [zip_map_append]
    apply foldl_prod_pos _ _ one_pos
    intro p hp
    obtain ⟨h1, h2⟩ := mem_zip_map _ _ p hp
    have := hal _ h1
    refine ⟨this, ?_⟩
    rw [h2]
    simp only [real_sqrt_eq]
    exact Real.sqrt_pos.mpr (by linarith)
  generalize phiDual ⟨l⟩ (List.map (fun ai => sqrt (1 + ai)) l ++ List.replicate dim2 0).toArray = phi at *
  have hne : phi ≠ 0 := ne_of_gt hphi
  simp only [sub_zero, hphi, decide_true, Bool.not_true, Bool.false_eq_true, if_false]
  refine ⟨_, rfl, ?_⟩
  simp only [Vec.negate, List.map_toArray, List.map_append, Array.mk.injEq]
  congr 1
  · apply map_zip_map
    intro a ha
    have hpos : (0 : ℝ) < 1 + a := by linarith [hal a ha]
    simp only [real_sqrt_eq]
    have hs := Real.sqrt_pos.mpr hpos
    have hsq := Real.mul_self_sqrt hpos.le
    field_simp
    nlinarith
  · simp

end Clarabel.GenPow
